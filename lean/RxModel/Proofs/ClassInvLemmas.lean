/-
  Proofs/ClassInvLemmas — INVERSION of the class parser: whatever `parseClass` / `classLoop` accept
  is the rendering of a well-formed class expression (`CExpr.ok`), for any flags; and the error
  kind of the class parser is always `Syntax`.  Helper lemmas for Props/C09d.
-/
import RxModel.Model.Parser
import RxModel.Props.C09
import RxModel.Proofs.ClassFullLemmas
namespace Rx.C09
open Rx
set_option linter.unusedSimpArgs false

/-- every character of the pattern is a code point (Rust `char`) -/
def PatScalar (c : PC) : Prop := ∀ x ∈ c.pat, x < cpLimit

/-! ### reading the pattern character by character -/

theorem at_eq_getElem {c : PC} {i : Nat} (h : i < c.len) : c.at i = c.pat[i]'h := by
  unfold PC.at
  rw [List.getD_eq_getElem?_getD, List.getElem?_eq_getElem h]; rfl

theorem drop_at {c : PC} {i : Nat} (h : i < c.len) : c.pat.drop i = c.at i :: c.pat.drop (i + 1) := by
  rw [at_eq_getElem h]
  exact List.drop_eq_getElem_cons h

theorem drop_nil_of_ge {c : PC} {i : Nat} (h : c.len ≤ i) : c.pat.drop i = [] :=
  List.drop_eq_nil_of_le h

theorem at_mem {c : PC} {i : Nat} (h : i < c.len) : c.at i ∈ c.pat := by
  rw [at_eq_getElem h]; exact List.getElem_mem h

theorem at_of_ge {c : PC} {i : Nat} (h : c.len ≤ i) : c.at i = 0 := by
  unfold PC.at
  rw [List.getD_eq_getElem?_getD, List.getElem?_eq_none h]; rfl

/-- `there_follows(s)` says the text is `s` followed by the rest -/
theorem tf_true {c : PC} {i : Nat} {s : List Nat} (h : thereFollows c i s = true) :
    c.pat.drop i = s ++ c.pat.drop (i + s.length) := by
  unfold thereFollows at h
  simp only [Bool.and_eq_true, decide_eq_true_eq, beq_iff_eq] at h
  have := (List.take_append_drop s.length (c.pat.drop i)).symm
  rw [h.2, List.drop_drop] at this
  exact this

theorem tf_false {c : PC} {i : Nat} {s tl : List Nat} (hs : s ≠ [])
    (h : thereFollows c i s = false) : c.pat.drop i ≠ s ++ tl := by
  intro he
  rw [thereFollows_eq he hs] at h
  simp at h

/-! ### `findClose` -/

/-- the first `}`: the text up to it has none -/
theorem findClose_inv {c : PC} : ∀ (fuel i k : Nat), findClose c fuel i = some k →
    ∃ name, c.pat.drop i = name ++ 125 :: c.pat.drop (k + 1) ∧ name.all (· != 125) = true ∧
      k = i + name.length ∧ k < c.len := by
  intro fuel
  induction fuel with
  | zero => intro i k h; simp [findClose] at h
  | succ f ih =>
    intro i k h
    rw [findClose] at h
    split at h
    · cases h
    · rename_i hlt
      have hlt' : i < c.len := by omega
      split at h
      · rename_i h125
        cases h
        refine ⟨[], ?_, rfl, rfl, hlt'⟩
        rw [drop_at hlt']
        simp only [beq_iff_eq] at h125
        rw [h125]; rfl
      · rename_i h125
        obtain ⟨name, h1, h2, h3, h4⟩ := ih (i + 1) k h
        refine ⟨c.at i :: name, ?_, ?_, ?_, h4⟩
        · rw [drop_at hlt', h1]; rfl
        · simp only [List.all_cons, h2, Bool.and_true]
          simpa using h125
        · simp only [List.length_cons]; omega

/-! ### `escape` inside a class, classified -/

def Item.isSet : Item → Bool
  | .cls _ => true
  | .prop _ _ => true
  | _ => false

/-- the set a class-escape member stands for -/
def Item.setOf (env : Env) : Item → Ranges
  | .cls e => clsSet env e
  | .prop pos name => propSet env pos name
  | _ => []

/-- the possible outcomes of `escape(in_square_brackets = true)` at a `\`: a syntax error; a
    single-character escape of the grammar; or a class-escape member of the grammar -/
inductive EscGood (c : PC) (s : PS) : PRes Esc → Prop
  | err : EscGood c s (.err .syntax)
  | chr (e : Nat) (hok : escSingleOk c.fl.xsd e = true)
      (htext : c.pat.drop s.idx = 92 :: e :: c.pat.drop (s.idx + 2)) (hlen : s.idx + 2 ≤ c.len) :
      EscGood c s (.ok (.chr (escVal e)) { s with idx := s.idx + 2 })
  | set (i : Item) (hset : i.isSet = true) (hok : i.ok c.fl.xsd c.env = true) (n : Nat)
      (htext : c.pat.drop s.idx = i.render ++ c.pat.drop n) (hn : s.idx < n ∧ n ≤ c.len) :
      EscGood c s (.ok (.set (i.setOf c.env)) { s with idx := n })

/-- the `\p{…}` / `\P{…}` branch -/
theorem escape_prop_good {c : PC} {s : PS} {E : Nat} (hlt : s.idx < c.len) (h92 : c.at s.idx = 92)
    (hlt1 : s.idx + 1 < c.len) (hE : c.at (s.idx + 1) = E) (k18 : (E == 112 || E == 80) = true) :
    EscGood c s
      (if ({ s with idx := s.idx + 2 } : PS).idx == c.len then .err .syntax else
       if c.at ({ s with idx := s.idx + 2 } : PS).idx != 123 then .err .syntax else
       let from_ := ({ s with idx := s.idx + 2 } : PS).idx + 1
       match findClose c (c.len + 1) from_ with
       | none => .err .syntax
       | some close =>
         let block := (c.pat.drop from_).take (close - from_)
         if block.length == 1 || block.length == 2 then
           match c.env.category block with
           | none => .err .syntax
           | some rs => .ok (.set (if E == 112 then rs else complR rs))
               { ({ s with idx := s.idx + 2 } : PS) with idx := close + 1 }
         else if block.take 2 == [73, 115] then
           match c.env.block (block.drop 2) with
           | none => .err .syntax
           | some rs => .ok (.set (if E == 112 then rs else complR rs))
               { ({ s with idx := s.idx + 2 } : PS) with idx := close + 1 }
         else .err .syntax) := by
  simp only
  by_cases c2 : (s.idx + 2 == c.len) = true
  · rw [if_pos c2]; exact EscGood.err
  rw [if_neg c2]
  have hlt2 : s.idx + 2 < c.len := by
    simp only [beq_iff_eq] at c2; omega
  by_cases c3 : (c.at (s.idx + 2) != 123) = true
  · rw [if_pos c3]; exact EscGood.err
  rw [if_neg c3]
  have h123 : c.at (s.idx + 2) = 123 := by simpa using c3
  cases hfc : findClose c (c.len + 1) (s.idx + 2 + 1) with
  | none => exact EscGood.err
  | some close =>
    obtain ⟨name, hn1, hn2, hn3, hn4⟩ := findClose_inv _ _ _ hfc
    have hblock : (c.pat.drop (s.idx + 2 + 1)).take (close - (s.idx + 2 + 1)) = name := by
      rw [hn1, hn3, Nat.add_sub_cancel_left]; simp
    simp only [hblock]
    have htext : ∀ pos : Bool, E = (if pos then 112 else 80) →
        c.pat.drop s.idx = (Item.prop pos name).render ++ c.pat.drop (close + 1) := by
      intro pos hp
      rw [drop_at hlt, h92, drop_at hlt1, hE, drop_at hlt2, h123, hn1, hp]
      simp [Item.render]
    have hposE : E = (if (E == 112) then 112 else 80) := by
      simp only [Bool.or_eq_true, beq_iff_eq] at k18
      rcases k18 with h | h <;> subst h <;> rfl
    by_cases hl : (name.length == 1 || name.length == 2) = true
    · rw [if_pos hl]
      cases hcat : c.env.category name with
      | none => exact EscGood.err
      | some rs =>
        have hlook : propLookup c.env name = some rs := by simp only [propLookup, hl, if_true, hcat]
        have g := EscGood.set (c := c) (s := s) (.prop (E == 112) name) rfl
          (by simp only [Item.ok, hn2, hlook, Option.isSome_some, Bool.and_self]) (close + 1)
          (htext _ hposE) ⟨by omega, by omega⟩
        simp only [Item.setOf, propSet, hlook] at g
        exact g
    · rw [if_neg hl]
      by_cases hIs : (name.take 2 == [73, 115]) = true
      · rw [if_pos hIs]
        cases hblk : c.env.block (name.drop 2) with
        | none => exact EscGood.err
        | some rs =>
          have hlook : propLookup c.env name = some rs := by
            simp only [propLookup, hl, hIs, if_true, hblk, Bool.false_eq_true, if_false]
          have g := EscGood.set (c := c) (s := s) (.prop (E == 112) name) rfl
            (by simp only [Item.ok, hn2, hlook, Option.isSome_some, Bool.and_self]) (close + 1)
            (htext _ hposE) ⟨by omega, by omega⟩
          simp only [Item.setOf, propSet, hlook] at g
          exact g
      · rw [if_neg hIs]; exact EscGood.err

/-- `escape` at a `\` inside a class -/
theorem escape_class_good {c : PC} {s : PS} (hlt : s.idx < c.len) (h92 : c.at s.idx = 92) :
    EscGood c s (escape c s true) := by
  unfold escape
  simp only
  rw [if_neg (by simp [h92])]
  by_cases k2 : s.idx + 1 ≥ c.len
  · rw [if_pos k2]; exact EscGood.err
  rw [if_neg k2]
  have hlt1 : s.idx + 1 < c.len := by omega
  have htext : c.pat.drop s.idx = 92 :: c.at (s.idx + 1) :: c.pat.drop (s.idx + 2) := by
    rw [drop_at hlt, h92, drop_at hlt1]
  generalize hE : c.at (s.idx + 1) = E at *
  by_cases k3 : (E == 110) = true
  · rw [if_pos k3]
    have hE' : E = 110 := by simpa using k3
    subst hE'
    exact EscGood.chr (c := c) (s := s) 110 (by simp [escSingleOk]) htext (by omega)
  rw [if_neg k3]
  by_cases k4 : (E == 114) = true
  · rw [if_pos k4]
    have hE' : E = 114 := by simpa using k4
    subst hE'
    exact EscGood.chr (c := c) (s := s) 114 (by simp [escSingleOk]) htext (by omega)
  rw [if_neg k4]
  by_cases k5 : (E == 116) = true
  · rw [if_pos k5]
    have hE' : E = 116 := by simpa using k5
    subst hE'
    exact EscGood.chr (c := c) (s := s) 116 (by simp [escSingleOk]) htext (by omega)
  rw [if_neg k5]
  by_cases k6 : (E == 92 || E == 124 || E == 46 || E == 45 || E == 94 || E == 63 || E == 42 || E == 43 || E == 123 || E == 125 || E == 40 || E == 41 || E == 91 || E == 93) = true
  · rw [if_pos k6]
    have hv : escVal E = E := by
      simp only [beq_iff_eq] at k3 k4 k5
      simp [escVal, k3, k4, k5]
    have hok : escSingleOk c.fl.xsd E = true := by
      simp only [Bool.or_eq_true, beq_iff_eq, or_assoc] at k6
      rcases k6 with h | h | h | h | h | h | h | h | h | h | h | h | h | h <;> subst h <;> simp [escSingleOk]
    have g := EscGood.chr (c := c) (s := s) E hok htext (by omega)
    rw [hv] at g
    exact g
  rw [if_neg k6]
  by_cases k7 : (E == 36) = true
  · rw [if_pos k7]
    have hE' : E = 36 := by simpa using k7
    subst hE'
    cases hx : c.fl.xsd with
    | true => simp only [if_true]; exact EscGood.err
    | false =>
      simp only [Bool.false_eq_true, if_false]
      exact EscGood.chr (c := c) (s := s) 36 (by simp [escSingleOk, hx]) htext (by omega)
  rw [if_neg k7]
  by_cases k8 : (E == 115) = true
  · rw [if_pos k8]
    have hE' : E = 115 := by simpa using k8
    subst hE'
    have g := EscGood.set (c := c) (s := s) (.cls 115) rfl (by rfl) (s.idx + 2) htext ⟨by omega, by omega⟩
    simp [Item.setOf, clsSet, clsPos, clsBase] at g
    exact g
  rw [if_neg k8]
  by_cases k9 : (E == 83) = true
  · rw [if_pos k9]
    have hE' : E = 83 := by simpa using k9
    subst hE'
    have g := EscGood.set (c := c) (s := s) (.cls 83) rfl (by rfl) (s.idx + 2) htext ⟨by omega, by omega⟩
    simp [Item.setOf, clsSet, clsPos, clsBase] at g
    exact g
  rw [if_neg k9]
  by_cases k10 : (E == 105) = true
  · rw [if_pos k10]
    have hE' : E = 105 := by simpa using k10
    subst hE'
    have g := EscGood.set (c := c) (s := s) (.cls 105) rfl (by rfl) (s.idx + 2) htext ⟨by omega, by omega⟩
    simp [Item.setOf, clsSet, clsPos, clsBase] at g
    exact g
  rw [if_neg k10]
  by_cases k11 : (E == 73) = true
  · rw [if_pos k11]
    have hE' : E = 73 := by simpa using k11
    subst hE'
    have g := EscGood.set (c := c) (s := s) (.cls 73) rfl (by rfl) (s.idx + 2) htext ⟨by omega, by omega⟩
    simp [Item.setOf, clsSet, clsPos, clsBase] at g
    exact g
  rw [if_neg k11]
  by_cases k12 : (E == 99) = true
  · rw [if_pos k12]
    have hE' : E = 99 := by simpa using k12
    subst hE'
    have g := EscGood.set (c := c) (s := s) (.cls 99) rfl (by rfl) (s.idx + 2) htext ⟨by omega, by omega⟩
    simp [Item.setOf, clsSet, clsPos, clsBase] at g
    exact g
  rw [if_neg k12]
  by_cases k13 : (E == 67) = true
  · rw [if_pos k13]
    have hE' : E = 67 := by simpa using k13
    subst hE'
    have g := EscGood.set (c := c) (s := s) (.cls 67) rfl (by rfl) (s.idx + 2) htext ⟨by omega, by omega⟩
    simp [Item.setOf, clsSet, clsPos, clsBase] at g
    exact g
  rw [if_neg k13]
  by_cases k14 : (E == 100) = true
  · rw [if_pos k14]
    have hE' : E = 100 := by simpa using k14
    subst hE'
    have g := EscGood.set (c := c) (s := s) (.cls 100) rfl (by rfl) (s.idx + 2) htext ⟨by omega, by omega⟩
    simp [Item.setOf, clsSet, clsPos, clsBase] at g
    exact g
  rw [if_neg k14]
  by_cases k15 : (E == 68) = true
  · rw [if_pos k15]
    have hE' : E = 68 := by simpa using k15
    subst hE'
    have g := EscGood.set (c := c) (s := s) (.cls 68) rfl (by rfl) (s.idx + 2) htext ⟨by omega, by omega⟩
    simp [Item.setOf, clsSet, clsPos, clsBase] at g
    exact g
  rw [if_neg k15]
  by_cases k16 : (E == 119) = true
  · rw [if_pos k16]
    have hE' : E = 119 := by simpa using k16
    subst hE'
    have g := EscGood.set (c := c) (s := s) (.cls 119) rfl (by rfl) (s.idx + 2) htext ⟨by omega, by omega⟩
    simp [Item.setOf, clsSet, clsPos, clsBase] at g
    exact g
  rw [if_neg k16]
  by_cases k17 : (E == 87) = true
  · rw [if_pos k17]
    have hE' : E = 87 := by simpa using k17
    subst hE'
    have g := EscGood.set (c := c) (s := s) (.cls 87) rfl (by rfl) (s.idx + 2) htext ⟨by omega, by omega⟩
    simp [Item.setOf, clsSet, clsPos, clsBase] at g
    exact g
  rw [if_neg k17]
  by_cases k18 : (E == 112 || E == 80) = true
  · rw [if_pos k18]
    exact escape_prop_good hlt h92 hlt1 hE k18
  rw [if_neg k18]
  by_cases k19 : (E == 48) = true
  · rw [if_pos k19]; exact EscGood.err
  rw [if_neg k19]
  by_cases k20 : (decide (49 ≤ E) && decide (E ≤ 57)) = true
  · rw [if_pos k20]; simp only [if_true]; exact EscGood.err
  rw [if_neg k20]
  exact EscGood.err

/-! ### the text of a member list followed by the closing part -/

/-- what closes the member list: `]`, or `-[sub]]` -/
def closeR : Option CExpr → List Nat
  | none => [93]
  | some e => 45 :: (e.render ++ [93])

def closeK (env : Env) : Option CExpr → ClsSt → ClsSt
  | none, k => k
  | some e, k => { k with subtrahend := some (e.denote env) }

def subOk (xsd : Bool) (env : Env) : Option CExpr → Bool
  | none => true
  | some e => e.ok xsd env

def mkE (neg : Bool) (items : List Item) : Option CExpr → CExpr
  | none => .leaf neg items
  | some e => .minus neg items e

theorem closeR_cases (sub : Option CExpr) (rest : List Nat) :
    (sub = none ∧ closeR sub ++ rest = 93 :: rest) ∨ (∃ tl, sub ≠ none ∧ closeR sub ++ rest = 45 :: 91 :: tl) := by
  cases sub with
  | none => left; exact ⟨rfl, rfl⟩
  | some e =>
    right
    obtain ⟨tl, h⟩ := e.render_cons
    exact ⟨tl ++ [93] ++ rest, by simp, by simp [closeR, h]⟩

/-- the rendering of a well-formed member: `-` for the hyphen, otherwise it starts with a character
    that is none of `-`, `[`, `]` -/
theorem Item.render_shape {xsd : Bool} {env : Env} {j : Item} (hj : j.ok xsd env = true) :
    (j = .hyphen ∧ j.render = [45]) ∨
    (j.isHyphen = false ∧ ∃ y tl, j.render = y :: tl ∧ y ≠ 45 ∧ y ≠ 91 ∧ y ≠ 93) := by
  cases hh : j.isHyphen with
  | true => left; cases j <;> simp [Item.isHyphen] at hh; exact ⟨rfl, rfl⟩
  | false => right; exact ⟨rfl, Item.render_head hj hh⟩

theorem text_head_93 {xsd : Bool} {env : Env} {items : List Item} {sub : Option CExpr}
    {rest tl : List Nat} (hok : itemsOk xsd env items = true)
    (h : renderAll items ++ (closeR sub ++ rest) = 93 :: tl) : items = [] := by
  cases items with
  | nil => rfl
  | cons j more =>
    simp only [itemsOk, Bool.and_eq_true] at hok
    rcases Item.render_shape hok.1.1 with ⟨_, hr⟩ | ⟨_, y, t, hr, _, _, h93⟩
    · simp [renderAll, hr] at h
    · simp only [renderAll, hr, List.cons_append, List.cons.injEq] at h
      exact absurd h.1 h93

theorem text_head_91 {xsd : Bool} {env : Env} {items : List Item} {sub : Option CExpr}
    {rest tl : List Nat} (hok : itemsOk xsd env items = true) :
    renderAll items ++ (closeR sub ++ rest) ≠ 91 :: tl := by
  intro h
  cases items with
  | nil =>
    rcases closeR_cases sub rest with ⟨_, hc⟩ | ⟨t, _, hc⟩ <;>
      simp [renderAll, hc] at h
  | cons j more =>
    simp only [itemsOk, Bool.and_eq_true] at hok
    rcases Item.render_shape hok.1.1 with ⟨_, hr⟩ | ⟨_, y, t, hr, _, h91, _⟩
    · simp [renderAll, hr] at h
    · simp only [renderAll, hr, List.cons_append, List.cons.injEq] at h
      exact absurd h.1 h91

theorem text_head_45 {xsd : Bool} {env : Env} {items : List Item} {sub : Option CExpr}
    {rest tl : List Nat} (hok : itemsOk xsd env items = true)
    (h : renderAll items ++ (closeR sub ++ rest) = 45 :: tl) :
    (items = [] ∧ ∃ tl', tl = 91 :: tl') ∨
    (∃ more, items = .hyphen :: more ∧ tl = renderAll more ++ (closeR sub ++ rest)) := by
  cases items with
  | nil =>
    left
    refine ⟨rfl, ?_⟩
    rcases closeR_cases sub rest with ⟨_, hc⟩ | ⟨t, _, hc⟩
    · simp [renderAll, hc] at h
    · simp only [renderAll, hc, List.nil_append, List.cons.injEq, true_and] at h
      exact ⟨t, h.symm⟩
  | cons j more =>
    right
    simp only [itemsOk, Bool.and_eq_true] at hok
    rcases Item.render_shape hok.1.1 with ⟨hj, hr⟩ | ⟨_, y, t, hr, h45, _, _⟩
    · subst hj
      simp only [renderAll, Item.render, List.cons_append, List.nil_append, List.cons.injEq,
        true_and] at h
      exact ⟨more, rfl, h.symm⟩
    · simp only [renderAll, hr, List.cons_append, List.cons.injEq] at h
      exact absurd h.1 h45

/-- after a hyphen member comes no second hyphen member -/
theorem adjOk_hyphen {xsd : Bool} {env : Env} {items : List Item} {sub : Option CExpr}
    {l rest : List Nat} (hl : (∀ tl, l ≠ 45 :: tl) ∨ ∃ tl, l = 45 :: 91 :: tl)
    (hok : itemsOk xsd env items = true) (ht : l = renderAll items ++ (closeR sub ++ rest)) :
    adjOk .hyphen items = true := by
  cases items with
  | nil => rfl
  | cons j more =>
    have hok' := hok
    simp only [itemsOk, Bool.and_eq_true] at hok
    rcases Item.render_shape hok.1.1 with ⟨hj, hr⟩ | ⟨hh, _⟩
    · exfalso
      subst hj
      have ht' : l = 45 :: (renderAll more ++ (closeR sub ++ rest)) := by rw [ht]; rfl
      rcases hl with hl | ⟨tl, hl⟩
      · exact hl _ ht'
      · rw [hl] at ht'
        injection ht' with _ h2
        exact text_head_91 hok.2 h2.symm
    · simp [adjOk, hh]

/-- after a single character comes a hyphen member only if it is the last one -/
theorem adjOk_one {xsd : Bool} {env : Env} {a : Single} {items : List Item} {sub : Option CExpr}
    {l rest : List Nat} (hl : FolS l)
    (hok : itemsOk xsd env items = true) (ht : l = renderAll items ++ (closeR sub ++ rest)) :
    adjOk (.one a) items = true := by
  cases items with
  | nil => rfl
  | cons j more =>
    simp only [itemsOk, Bool.and_eq_true] at hok
    rcases Item.render_shape hok.1.1 with ⟨hj, hr⟩ | ⟨hh, _⟩
    · subst hj
      have ht' : l = 45 :: (renderAll more ++ (closeR sub ++ rest)) := by rw [ht]; rfl
      have hmore : more = [] := by
        rcases hl with hl | ⟨tl, hl⟩ | ⟨tl, hl⟩ | ⟨tl, hl⟩
        · exact absurd ht' (hl _)
        · rw [hl] at ht'
          injection ht' with _ h2
          exact text_head_93 hok.2 h2.symm
        · rw [hl] at ht'
          injection ht' with _ h2
          exact absurd h2.symm (text_head_91 hok.2)
        · rw [hl] at ht'
          injection ht' with _ h2
          rcases text_head_45 hok.2 h2.symm with ⟨hn, _⟩ | ⟨more', hm, h3⟩
          · exact hn
          · exfalso
            subst hm
            simp only [itemsOk, Bool.and_eq_true] at hok
            exact text_head_91 hok.2.2 h3.symm
      subst hmore
      simp [adjOk, Item.isHyphen, Item.isOne]
    · simp [adjOk, hh]

theorem adjOk_other {i : Item} (h1 : i.isHyphen = false) (h2 : i.isOne = false) (items : List Item) :
    adjOk i items = true := by
  cases items with
  | nil => rfl
  | cons j more => simp [adjOk, h1, h2]

/-! ### `clsSimple`, inverted -/

/-- the text does not begin with `[`, `]` or `-` -/
def NotStart (l : List Nat) : Prop := ∀ tl, l ≠ 91 :: tl ∧ l ≠ 93 :: tl ∧ l ≠ 45 :: tl

/-- outside a range a character is either added (what follows is not a range-forming `-`) or
    becomes a range start (what follows is `-` and then neither `[`, `]` nor `-`) -/
theorem clsSimple_S0 {c : PC} {i : Nat} {k k1 : ClsSt} {x : Nat} (hk : k.definingRange = false)
    (h : clsSimple c i k (some x) = some k1) :
    (FolS (c.pat.drop i) ∧ k1 = { k with builder := addCharCI c x k.builder }) ∨
    ((∃ l', c.pat.drop i = 45 :: l' ∧ NotStart l') ∧ k1 = { k with rangeStart := some x }) := by
  unfold clsSimple at h
  simp only [hk, Bool.false_eq_true, if_false] at h
  cases t0 : thereFollows c i [45] with
  | false =>
    simp only [t0, Bool.false_eq_true, if_false, Option.some.injEq] at h
    left
    exact ⟨Or.inl (fun tl => tf_false (s := [45]) (by simp) t0), (by subst h; obtain ⟨p, d, r, b, a, su⟩ := k; simp only at hk; subst hk; rfl)⟩
  | true =>
    simp only [t0, if_true] at h
    cases t1 : thereFollows c i [45, 91] with
    | true =>
      simp only [t1, Bool.true_or, if_true, Option.some.injEq] at h
      left
      exact ⟨Or.inr (Or.inr (Or.inl ⟨_, tf_true t1⟩)), (by subst h; obtain ⟨p, d, r, b, a, su⟩ := k; simp only at hk; subst hk; rfl)⟩
    | false =>
      cases t2 : thereFollows c i [45, 93] with
      | true =>
        simp only [t2, Bool.true_or, Bool.or_true, if_true, Option.some.injEq] at h
        left
        exact ⟨Or.inr (Or.inl ⟨_, tf_true t2⟩), (by subst h; obtain ⟨p, d, r, b, a, su⟩ := k; simp only at hk; subst hk; rfl)⟩
      | false =>
        cases t3 : thereFollows c i [45, 45, 91] with
        | true =>
          simp only [t3, Bool.or_true, if_true, Option.some.injEq] at h
          left
          exact ⟨Or.inr (Or.inr (Or.inr ⟨_, tf_true t3⟩)), (by subst h; obtain ⟨p, d, r, b, a, su⟩ := k; simp only at hk; subst hk; rfl)⟩
        | false =>
          simp only [t1, t2, t3, Bool.or_self, Bool.false_eq_true, if_false] at h
          cases t4 : thereFollows c i [45, 45] with
          | true => simp [t4] at h
          | false =>
            simp only [t4, Bool.false_eq_true, if_false, Option.some.injEq] at h
            right
            have h0 : c.pat.drop i = 45 :: c.pat.drop (i + 1) := tf_true t0
            refine ⟨⟨c.pat.drop (i + 1), h0, ?_⟩, (by subst h; obtain ⟨p, d, r, b, a, su⟩ := k; simp only at hk; subst hk; rfl)⟩
            intro tl
            refine ⟨?_, ?_, ?_⟩
            · intro he
              exact tf_false (s := [45, 91]) (tl := tl) (by simp) t1 (by rw [h0, he]; rfl)
            · intro he
              exact tf_false (s := [45, 93]) (tl := tl) (by simp) t2 (by rw [h0, he]; rfl)
            · intro he
              exact tf_false (s := [45, 45]) (tl := tl) (by simp) t4 (by rw [h0, he]; rfl)

/-- inside a range the character is the end point -/
theorem clsSimple_S2 {c : PC} {i : Nat} {k k1 : ClsSt} {x av : Nat} (hk : k.definingRange = true)
    (hr : k.rangeStart = some av) (h : clsSimple c i k (some x) = some k1) :
    av ≤ x ∧ k1.definingRange = false ∧ k1.rangeStart = none ∧
    (c.fl.caseBlind = false →
      k1 = { k with builder := addRange av (x + 1) k.builder, definingRange := false,
                    rangeStart := none }) := by
  unfold clsSimple at h
  simp only [hk, hr, if_true] at h
  split at h
  · cases h
  · rename_i hle
    simp only [Option.some.injEq] at h
    subst h
    refine ⟨by omega, rfl, rfl, ?_⟩
    intro hcb
    simp only [hcb, Bool.false_eq_true, if_false]

/-! ### results -/

/-- what the member loop has consumed when it succeeds from a state outside a range: members and
    the closing part, all well-formed; and (case-sensitive) the list built -/
def LoopRes (c : PC) (s : PS) (k : ClsSt) (R : Ranges) (s' : PS) : Prop :=
  ∃ (items : List Item) (sub : Option CExpr),
    itemsOk c.fl.xsd c.env items = true ∧ subOk c.fl.xsd c.env sub = true ∧
    c.pat.drop s.idx = renderAll items ++ (closeR sub ++ c.pat.drop s'.idx) ∧
    s'.idx ≤ c.len ∧ s' = { s with idx := s'.idx } ∧
    (c.fl.caseBlind = false → R = (closeK c.env sub (items.foldl (Item.step c.env) k)).finish)

def ParseRes (c : PC) (s : PS) (R : Ranges) (s' : PS) : Prop :=
  ∃ e : CExpr, e.ok c.fl.xsd c.env = true ∧ c.pat.drop s.idx = e.render ++ c.pat.drop s'.idx ∧
    s'.idx ≤ c.len ∧ s' = { s with idx := s'.idx } ∧ (c.fl.caseBlind = false → R = e.denote c.env)

/-- … from a state inside a range (`pre` is `-` or nothing): first the end point -/
def RangeRes (c : PC) (s : PS) (k : ClsSt) (av : Nat) (pre : List Nat) (R : Ranges) (s' : PS) : Prop :=
  ∃ (b : Single) (s1 : PS) (k1 : ClsSt), b.ok c.fl.xsd = true ∧ av ≤ b.val ∧ b.val < cpLimit ∧
    c.pat.drop s.idx = pre ++ (b.render ++ c.pat.drop s1.idx) ∧ s1 = { s with idx := s1.idx } ∧
    (c.fl.caseBlind = false →
      k1 = { k with builder := addRange av (b.val + 1) k.builder, definingRange := false,
                    rangeStart := none }) ∧
    LoopRes c s1 k1 R s'

theorem LoopRes.cons {c : PC} {s s1 s' : PS} {k k1 : ClsSt} {R : Ranges} (i : Item)
    (hi : i.ok c.fl.xsd c.env = true)
    (htext : c.pat.drop s.idx = i.render ++ c.pat.drop s1.idx) (hs1 : s1 = { s with idx := s1.idx })
    (hk1 : c.fl.caseBlind = false → k1 = Item.step c.env k i)
    (hadj : ∀ items sub rest, itemsOk c.fl.xsd c.env items = true →
      c.pat.drop s1.idx = renderAll items ++ (closeR sub ++ rest) → adjOk i items = true)
    (h : LoopRes c s1 k1 R s') : LoopRes c s k R s' := by
  obtain ⟨items, sub, h1, h2, h3, h4, h5, h6⟩ := h
  refine ⟨i :: items, sub, ?_, h2, ?_, h4, ?_, ?_⟩
  · simp only [itemsOk, hi, hadj items sub _ h1 h3, h1, Bool.and_self]
  · rw [htext, h3]; simp [renderAll]
  · rw [h5, hs1]
  · intro hcb
    rw [h6 hcb, hk1 hcb]
    rfl

theorem escVal_lt {xsd : Bool} {e : Nat} (h : escSingleOk xsd e = true) : escVal e < cpLimit := by
  simp only [escSingleOk, Bool.or_eq_true, beq_iff_eq, Bool.and_eq_true, Bool.not_eq_true',
    or_assoc] at h
  rcases h with rfl | rfl | rfl | rfl | rfl | rfl | rfl | rfl | rfl | rfl | rfl | rfl | rfl |
    rfl | rfl | rfl | rfl | ⟨rfl, _⟩
  all_goals decide

/-! ### the induction -/

def IH0 (c : PC) (f : Nat) : Prop :=
  ∀ s k R s', s.idx ≤ c.len → k.definingRange = false → k.rangeStart = none →
    classLoop c f s k = .ok R s' → LoopRes c s k R s'

def IH1 (c : PC) (f : Nat) : Prop :=
  ∀ s k av l' R s', k.definingRange = false → k.rangeStart = some av →
    c.pat.drop s.idx = 45 :: l' → NotStart l' →
    classLoop c f s k = .ok R s' → RangeRes c s k av [45] R s'

def IH2 (c : PC) (f : Nat) : Prop :=
  ∀ s k av R s', s.idx ≤ c.len → k.definingRange = true → k.rangeStart = some av →
    NotStart (c.pat.drop s.idx) → classLoop c f s k = .ok R s' → RangeRes c s k av [] R s'

def IHP (c : PC) (f : Nat) : Prop :=
  ∀ s R s', parseClass c f s = .ok R s' → ParseRes c s R s'

theorem ps_idx_idx (s : PS) (i j : Nat) :
    ({ ({ s with idx := i } : PS) with idx := j } : PS) = { s with idx := j } := rfl

/-- a single character (plain or escaped) outside a range: a member, or the start of a range -/
theorem single_step {c : PC} {f : Nat} (ih0 : IH0 c f) (ih1 : IH1 c f) {s s1 s' : PS}
    {k k1 : ClsSt} {R : Ranges} (a : Single) (ha : a.ok c.fl.xsd = true) (hav : a.val < cpLimit)
    (htext : c.pat.drop s.idx = a.render ++ c.pat.drop s1.idx) (hs1 : s1 = { s with idx := s1.idx })
    (hle : s1.idx ≤ c.len) (hk : k.definingRange = false) (hr : k.rangeStart = none)
    (hcs : clsSimple c s1.idx k (some a.val) = some k1) (h : classLoop c f s1 k1 = .ok R s') :
    LoopRes c s k R s' := by
  rcases clsSimple_S0 hk hcs with ⟨hS, rfl⟩ | ⟨⟨l', hl, hns⟩, rfl⟩
  · have hres := ih0 s1 { k with builder := addCharCI c a.val k.builder } R s' hle hk hr h
    refine LoopRes.cons (.one a) ?_ htext hs1 ?_ ?_ hres
    · simp [Item.ok, ha, hav]
    · intro hcb
      simp [Item.step, Item.addB, Item.addA, addCharCI, hcb]
    · intro items sub rest hok ht
      exact adjOk_one hS hok ht
  · obtain ⟨b, s2, k2, hb, hab, hbv, ht2, hs2, hk2, hres⟩ := ih1 s1 { k with rangeStart := some a.val } a.val l' R s' hk rfl hl hns h
    refine LoopRes.cons (.range a b) ?_ ?_ ?_ ?_ ?_ hres
    · simp [Item.ok, ha, hb, hab, hbv]
    · rw [htext, ht2]; simp [Item.render]
    · rw [hs2, hs1]
    · intro hcb
      rw [hk2 hcb]
      obtain ⟨p, d, r, bb, ad, su⟩ := k
      simp only at hk hr
      subst hk; subst hr
      rfl
    · intro items sub rest _ _
      exact adjOk_other rfl rfl items

/-- the text after a hyphen member -/
def HypNext (l : List Nat) : Prop := (∀ tl, l ≠ 45 :: tl) ∨ ∃ tl, l = 45 :: 91 :: tl

theorem hyphen_step {c : PC} {f : Nat} (ih0 : IH0 c f) {s s' : PS} {k k1 : ClsSt} {R : Ranges}
    (hlt : s.idx < c.len) (h45 : c.at s.idx = 45) (hn : HypNext (c.pat.drop (s.idx + 1)))
    (hk : k.definingRange = false) (hr : k.rangeStart = none)
    (hcs : clsSimple c (s.idx + 1) k (some 45) = some k1)
    (h : classLoop c f { s with idx := s.idx + 1 } k1 = .ok R s') : LoopRes c s k R s' := by
  have htext : c.pat.drop s.idx = Item.hyphen.render ++ c.pat.drop (s.idx + 1) := by
    rw [drop_at hlt, h45]; rfl
  rcases clsSimple_S0 hk hcs with ⟨hS, rfl⟩ | ⟨⟨l', hl, hns⟩, rfl⟩
  · have hres := ih0 { s with idx := s.idx + 1 } { k with builder := addCharCI c 45 k.builder } R s'
      (by simp only; omega) hk hr h
    refine LoopRes.cons (s1 := { s with idx := s.idx + 1 }) .hyphen rfl htext rfl ?_ ?_ hres
    · intro hcb
      simp [Item.step, Item.addB, Item.addA, addCharCI, hcb]
    · intro items sub rest hok ht
      exact adjOk_hyphen hn hok ht
  · exfalso
    rcases hn with hn | ⟨tl, hn⟩
    · exact hn _ hl
    · rw [hn] at hl
      injection hl with _ h2
      exact (hns tl).1 h2.symm

theorem classLoop_dash' {c : PC} {f : Nat} {st : PS} {k : ClsSt} {l' : List Nat}
    (h : c.pat.drop st.idx = 45 :: l') (hns : NotStart l') (hk : k.rangeStart.isSome = true) :
    classLoop c (f + 1) st k =
      classLoop c f { st with idx := st.idx + 1 } { k with definingRange := true } := by
  obtain ⟨hlt, hat, _⟩ := drop_cons_facts h
  have h1 : (decide (st.idx < c.len) && c.at st.idx != 93) = true := by simp [hat, hlt]
  rw [classLoop, if_pos h1]
  have t1 : thereFollows c st.idx [45, 91] = false := by
    cases ht : thereFollows c st.idx [45, 91] with
    | false => rfl
    | true =>
      have := tf_true ht
      rw [h] at this
      injection this with _ h2
      exact absurd h2 (hns _).1
  have t2 : thereFollows c st.idx [45, 93] = false := by
    cases ht : thereFollows c st.idx [45, 93] with
    | false => rfl
    | true =>
      have := tf_true ht
      rw [h] at this
      injection this with _ h2
      exact absurd h2 (hns _).2.1
  have e91 : ((45 : Nat) == 91) = false := by decide
  have e92 : ((45 : Nat) == 92) = false := by decide
  simp only [hat, e91, e92, t1, t2, hk, beq_self_eq_true, Bool.false_eq_true, if_false, if_true]

theorem step1 {c : PC} {f : Nat} (ih2 : IH2 c f) : IH1 c (f + 1) := by
  intro s k av l' R s' hk hr hd hns h
  have hsome : k.rangeStart.isSome = true := by rw [hr]; rfl
  rw [classLoop_dash' hd hns hsome] at h
  obtain ⟨hlt, _, hd1⟩ := drop_cons_facts hd
  obtain ⟨b, s1, k1, hb, hab, hbv, ht, hs1, hk1, hres⟩ :=
    ih2 { s with idx := s.idx + 1 } { k with definingRange := true } av R s'
      (by simp only; omega) rfl hr (by rw [show ({ s with idx := s.idx + 1 } : PS).idx = s.idx + 1 from rfl, hd1]; exact hns) h
  refine ⟨b, s1, k1, hb, hab, hbv, ?_, ?_, ?_, hres⟩
  · rw [hd, ← hd1, ht]; rfl
  · rw [hs1]
  · intro hcb; rw [hk1 hcb]

theorem step2 {c : PC} (hps : PatScalar c) {f : Nat} (ih0 : IH0 c f) : IH2 c (f + 1) := by
  intro s k av R s' hs hk hr hns h
  have hne : s.idx < c.len → c.at s.idx ≠ 91 ∧ c.at s.idx ≠ 93 ∧ c.at s.idx ≠ 45 := by
    intro hlt
    have hd := drop_at hlt
    refine ⟨?_, ?_, ?_⟩ <;> intro he <;> rw [he] at hd
    · exact (hns _).1 hd
    · exact (hns _).2.1 hd
    · exact (hns _).2.2 hd
  rw [classLoop] at h
  simp only at h
  split at h
  · rename_i hcond
    simp only [Bool.and_eq_true, decide_eq_true_eq] at hcond
    obtain ⟨h91, h93, h45⟩ := hne hcond.1
    split at h
    · cases h
    rename_i hn91
    split at h
    · rename_i h92
      have h92' : c.at s.idx = 92 := by simpa using h92
      have hg := escape_class_good hcond.1 h92'
      split at h
      · cases h
      · rename_i x s1 hesc
        rw [hesc] at hg
        cases hg with
        | chr e hok htext hlen =>
          split at h
          · cases h
          · rename_i k1 hcs
            obtain ⟨hle, hd1, hr1, hkk⟩ := clsSimple_S2 hk hr hcs
            have hres := ih0 _ k1 R s' (by simp only; omega) hd1 hr1 h
            exact ⟨.esc e, { s with idx := s.idx + 2 }, k1, hok, hle, escVal_lt hok, htext, rfl, hkk, hres⟩
      · cases h
      · cases h
    rename_i hn92
    split at h
    · rename_i h45'
      exact absurd (by simpa using h45') h45
    · split at h
      · cases h
      · rename_i k1 hcs
        obtain ⟨hle, hd1, hr1, hkk⟩ := clsSimple_S2 hk hr hcs
        have hres := ih0 _ k1 R s' (by simp only; omega) hd1 hr1 h
        refine ⟨.plain (c.at s.idx), _, k1, ?_, hle, hps _ (at_mem hcond.1), ?_, rfl, hkk, hres⟩
        · simp only [Single.ok, plainC, Bool.not_eq_true', Bool.or_eq_false_iff, beq_eq_false_iff_ne, ne_eq]
          simp only [beq_iff_eq] at hn91 hn92
          exact ⟨⟨⟨hn92, hn91⟩, h93⟩, h45⟩
        · rw [drop_at hcond.1]; rfl
  · rename_i hcond
    split at h
    · cases h
    · rename_i hne'
      exfalso
      simp only [Bool.and_eq_true, decide_eq_true_eq, not_and, bne_iff_ne, ne_eq, Decidable.not_not] at hcond
      simp only [beq_iff_eq] at hne'
      have hlt : s.idx < c.len := by omega
      exact (hne hlt).2.1 (hcond hlt)

theorem Item.step_set (env : Env) (k : ClsSt) (i : Item) (hi : i.isSet = true) :
    Item.step env k i =
      { k with addend := some (match k.addend with | some a => unionR a (i.setOf env) | none => i.setOf env) } := by
  cases i <;> simp [Item.isSet] at hi <;> rfl

theorem step0 {c : PC} (hps : PatScalar c) {f : Nat} (ihP : IHP c f) (ih0 : IH0 c f) (ih1 : IH1 c f) :
    IH0 c (f + 1) := by
  intro s k R s' hs hk hr h
  rw [classLoop] at h
  simp only at h
  split at h
  · rename_i hcond
    simp only [Bool.and_eq_true, decide_eq_true_eq] at hcond
    have hlt := hcond.1
    have h93 : c.at s.idx ≠ 93 := by simpa using hcond.2
    split at h
    · cases h
    rename_i hn91
    split at h
    · -- `\`
      rename_i h92
      have h92' : c.at s.idx = 92 := by simpa using h92
      have hg := escape_class_good hlt h92'
      split at h
      · cases h
      · rename_i x s1 hesc
        rw [hesc] at hg
        cases hg with
        | chr e hok htext hlen =>
          split at h
          · cases h
          · rename_i k1 hcs
            exact single_step ih0 ih1 (s1 := { s with idx := s.idx + 2 }) (.esc e) hok (escVal_lt hok)
              htext rfl hlen hk hr hcs h
      · rename_i rs s1 hesc
        rw [hesc] at hg
        cases hg with
        | set i hset hok n htext hn =>
          split at h
          · cases h
          · have hres := ih0 { s with idx := n }
              { k with addend := some (match k.addend with
                  | some a => unionR a (i.setOf c.env) | none => i.setOf c.env) } R s' hn.2 hk hr h
            refine LoopRes.cons (s1 := { s with idx := n }) i hok htext rfl ?_ ?_ hres
            · intro _
              rw [Item.step_set _ _ _ hset]
            · intro items _ _ _ _
              cases i with
              | cls e => exact adjOk_other rfl rfl items
              | prop p n => exact adjOk_other rfl rfl items
              | _ => cases hset
      · cases h
    rename_i hn92
    split at h
    · -- `-`
      rename_i h45
      have h45' : c.at s.idx = 45 := by simpa using h45
      have hd := drop_at hlt
      rw [h45'] at hd
      split at h
      · -- `-[`: subtraction
        rename_i t1
        split at h
        · cases h
        · rename_i sub s1 hp
          obtain ⟨e, heok, hetext, hele, hes1, heden⟩ := ihP _ _ _ hp
          split at h
          · cases h
          · rename_i t93
            have t93' : thereFollows c s1.idx [93] = true := by simpa using t93
            have hd93 : c.pat.drop s1.idx = 93 :: c.pat.drop (s1.idx + 1) := tf_true t93'
            have t45 : thereFollows c s1.idx [45] = false := by
              rw [thereFollows_eq hd93 (by simp)]; simp
            have hcs : clsSimple c s1.idx { k with subtrahend := some sub } none =
                some { k with subtrahend := some sub } := by
              unfold clsSimple
              simp only [hk, t45, Bool.false_eq_true, if_false]
            rw [hcs] at h
            simp only at h
            cases f with
            | zero => simp [classLoop] at h
            | succ f' =>
              rw [classLoop_stop hd93] at h
              injection h with hR hs'
              have hlt1 := (drop_cons_facts hd93).1
              refine ⟨[], some e, rfl, heok, ?_, ?_, ?_, ?_⟩
              · have hetext' : c.pat.drop (s.idx + 1) = e.render ++ c.pat.drop s1.idx := hetext
                rw [hd, hetext', hd93, ← hs']
                simp [renderAll, closeR]
              · rw [← hs']; simp only; omega
              · rw [← hs', hes1]
              · intro hcb
                rw [← hR, heden hcb]
                rfl
      · rename_i t1
        split at h
        · -- `-]`
          rename_i t2
          have hd2 := tf_true t2
          have hn : HypNext (c.pat.drop (s.idx + 1)) := by
            left
            intro tl he
            rw [hd, he] at hd2
            simp at hd2
          split at h
          · cases h
          · rename_i k1 hcs
            exact hyphen_step ih0 hlt h45' hn hk hr hcs h
        · rename_i t2
          split at h
          · rename_i hsome
            rw [hr] at hsome
            cases hsome
          split at h
          · cases h
          split at h
          · cases h
          · rename_i _ _ t3
            have hn : HypNext (c.pat.drop (s.idx + 1)) := by
              cases t4 : thereFollows c s.idx [45, 45] with
              | false =>
                left
                intro tl he
                exact tf_false (s := [45, 45]) (tl := tl) (by simp) t4 (by rw [hd, he]; rfl)
              | true =>
                have t5 : thereFollows c s.idx [45, 45, 91] = true := by
                  cases t5 : thereFollows c s.idx [45, 45, 91] with
                  | true => rfl
                  | false => simp [t4, t5] at t3
                have hd5 := tf_true t5
                rw [hd] at hd5
                injection hd5 with _ h2
                right
                exact ⟨_, h2⟩
            split at h
            · cases h
            · rename_i k1 hcs
              exact hyphen_step ih0 hlt h45' hn hk hr hcs h
    · -- a plain character
      rename_i hn45
      split at h
      · cases h
      · rename_i k1 hcs
        refine single_step ih0 ih1 (s1 := { s with idx := s.idx + 1 }) (.plain (c.at s.idx)) ?_
          (hps _ (at_mem hlt)) ?_ rfl (by simp only; omega) hk hr hcs h
        · simp only [Single.ok, plainC, Bool.not_eq_true', Bool.or_eq_false_iff, beq_eq_false_iff_ne, ne_eq]
          simp only [beq_iff_eq] at hn91 hn92 hn45
          exact ⟨⟨⟨hn92, hn91⟩, h93⟩, hn45⟩
        · rw [drop_at hlt]; rfl
  · -- `]`
    rename_i hcond
    split at h
    · cases h
    · rename_i hne'
      simp only [Bool.and_eq_true, decide_eq_true_eq, not_and, bne_iff_ne, ne_eq, Decidable.not_not] at hcond
      simp only [beq_iff_eq] at hne'
      have hlt : s.idx < c.len := by omega
      injection h with hR hs'
      refine ⟨[], none, rfl, rfl, ?_, ?_, ?_, ?_⟩
      · rw [drop_at hlt, hcond hlt, ← hs']; rfl
      · rw [← hs']; simp only; omega
      · rw [← hs']
      · intro _; rw [← hR]; rfl

theorem mkE_render (neg : Bool) (items : List Item) (sub : Option CExpr) :
    (mkE neg items sub).render = 91 :: ((if neg then [94] else []) ++ (renderAll items ++ closeR sub)) := by
  cases sub <;> rfl

theorem mkE_denote (env : Env) (neg : Bool) (items : List Item) (sub : Option CExpr) :
    (mkE neg items sub).denote env =
      (closeK env sub (items.foldl (Item.step env) { positive := !neg })).finish := by
  cases sub <;> rfl

theorem mkE_ok (xsd : Bool) (env : Env) (neg : Bool) (items : List Item) (sub : Option CExpr) :
    (mkE neg items sub).ok xsd env = (headOk xsd env neg items && subOk xsd env sub) := by
  cases sub <;> simp [mkE, CExpr.ok, subOk]

theorem renderAll_head {xsd : Bool} {env : Env} {items : List Item} (hne : items ≠ [])
    (hok : itemsOk xsd env items = true) : ∃ y tl, renderAll items = y :: tl := by
  cases items with
  | nil => exact absurd rfl hne
  | cons j more =>
    simp only [itemsOk, Bool.and_eq_true] at hok
    rcases Item.render_shape hok.1.1 with ⟨_, hr⟩ | ⟨_, y, t, hr, _, _, _⟩
    · exact ⟨45, renderAll more, by simp [renderAll, hr]⟩
    · exact ⟨y, t ++ renderAll more, by simp [renderAll, hr]⟩

theorem stepP {c : PC} {f : Nat} (ih0 : IH0 c f) : IHP c (f + 1) := by
  intro s R s' h
  rw [parseClass] at h
  simp only at h
  split at h
  · cases h
  rename_i h91
  have h91' : c.at s.idx = 91 := by simpa using h91
  have hlt : s.idx < c.len := by
    apply Classical.byContradiction
    intro hn
    rw [at_of_ge (by omega)] at h91'
    cases h91'
  split at h
  · cases h
  rename_i hlen
  simp only [Bool.or_eq_true, decide_eq_true_eq, beq_iff_eq, not_or] at hlen
  have hlt1 : s.idx + 1 < c.len := by omega
  have hd0 : c.pat.drop s.idx = 91 :: c.pat.drop (s.idx + 1) := by rw [drop_at hlt, h91']
  split at h
  · -- `[^`
    rename_i t94
    have hd1 : c.pat.drop (s.idx + 1) = 94 :: c.pat.drop (s.idx + 1 + 1) := tf_true t94
    split at h
    · cases h
    rename_i t1
    split at h
    · cases h
    rename_i t2
    obtain ⟨items, sub, hok, hsub, htext, hle, hs', hR⟩ :=
      ih0 { s with idx := s.idx + 1 + 1 } { positive := false } R s' (by simp only; omega) rfl rfl h
    have htext' : c.pat.drop (s.idx + 1 + 1) = renderAll items ++ (closeR sub ++ c.pat.drop s'.idx) := htext
    have hne : items ≠ [] := by
      intro he
      subst he
      rcases closeR_cases sub (c.pat.drop s'.idx) with ⟨_, hc⟩ | ⟨tl, _, hc⟩
      · rw [hc] at htext'
        rw [htext'] at hd1
        rw [thereFollows_eq hd1 (by simp)] at t2
        simp [renderAll] at t2
      · rw [hc] at htext'
        rw [htext'] at hd1
        rw [thereFollows_eq hd1 (by simp)] at t1
        simp [renderAll] at t1
    refine ⟨mkE true items sub, ?_, ?_, hle, ?_, ?_⟩
    · rw [mkE_ok]
      simp [headOk, hok, hsub, hne]
    · rw [mkE_render, hd0, hd1, htext']
      simp
    · rw [hs']
    · intro hcb
      rw [hR hcb, mkE_denote]
      rfl
  · -- positive
    rename_i t94
    split at h
    · cases h
    rename_i t1
    obtain ⟨items, sub, hok, hsub, htext, hle, hs', hR⟩ :=
      ih0 { s with idx := s.idx + 1 } {} R s' (by simp only; omega) rfl rfl h
    have htext' : c.pat.drop (s.idx + 1) = renderAll items ++ (closeR sub ++ c.pat.drop s'.idx) := htext
    have hne : items ≠ [] := by
      intro he
      subst he
      rcases closeR_cases sub (c.pat.drop s'.idx) with ⟨_, hc⟩ | ⟨tl, _, hc⟩
      · rw [hc] at htext'
        have := (drop_cons_facts htext').2.1
        exact hlen.2 this
      · rw [hc] at htext'
        rw [thereFollows_eq htext' (by simp)] at t1
        simp [renderAll] at t1
    obtain ⟨y, tl, hy⟩ := renderAll_head hne hok
    have hy94 : y ≠ 94 := by
      intro he
      rw [hy, he] at htext'
      rw [thereFollows_eq htext' (by simp)] at t94
      simp at t94
    refine ⟨mkE false items sub, ?_, ?_, hle, ?_, ?_⟩
    · rw [mkE_ok]
      simp [headOk, hok, hsub, hne, hy, hy94]
    · rw [mkE_render, hd0, htext']
      simp
    · rw [hs']
    · intro hcb
      rw [hR hcb, mkE_denote]
      rfl

/-- the inversion, all four parts together -/
theorem class_inv_all (c : PC) (hps : PatScalar c) :
    ∀ f, IHP c f ∧ IH0 c f ∧ IH1 c f ∧ IH2 c f := by
  intro f
  induction f with
  | zero =>
    refine ⟨?_, ?_, ?_, ?_⟩
    · intro s R s' h; simp [parseClass] at h
    · intro s k R s' _ _ _ h; simp [classLoop] at h
    · intro s k av l' R s' _ _ _ _ h; simp [classLoop] at h
    · intro s k av R s' _ _ _ _ h; simp [classLoop] at h
  | succ f ih =>
    obtain ⟨ihP, ih0, ih1, ih2⟩ := ih
    exact ⟨stepP ih0, step0 hps ihP ih0 ih1, step1 ih2, step2 hps ih0⟩

/-! ### the error kind -/

theorem err_inj {α : Type} {e e' : Err} (h : (PRes.err e : PRes α) = .err e') : e = e' := by
  injection h

/-- with enough fuel the class parser never reports `Error::Internal` -/
theorem class_err_syntax (c : PC) : ∀ f,
    (∀ s e, c.at s.idx = 91 → c.len + 1 ≤ f + s.idx → parseClass c f s = .err e → e = .syntax) ∧
    (∀ s k e, s.idx ≤ c.len → c.len + 1 ≤ f + s.idx → classLoop c f s k = .err e → e = .syntax) := by
  intro f
  induction f with
  | zero =>
    constructor
    · intro s e h91 hf _
      have hlt : s.idx < c.len := by
        apply Classical.byContradiction
        intro hn
        rw [at_of_ge (by omega)] at h91
        cases h91
      omega
    · intro s k e hs hf _; omega
  | succ f ih =>
    obtain ⟨ihP, ihL⟩ := ih
    constructor
    · intro s e h91 hf h
      rw [parseClass] at h
      simp only at h
      split at h
      · rename_i hn; simp [h91] at hn
      split at h
      · exact (err_inj h).symm
      rename_i hlen
      simp only [Bool.or_eq_true, decide_eq_true_eq, not_or] at hlen
      split at h
      · split at h
        · exact (err_inj h).symm
        split at h
        · exact (err_inj h).symm
        exact ihL _ _ _ (by simp only; omega) (by simp only; omega) h
      · split at h
        · exact (err_inj h).symm
        exact ihL _ _ _ (by simp only; omega) (by simp only; omega) h
    · intro s k e hs hf h
      rw [classLoop] at h
      simp only at h
      split at h
      · rename_i hcond
        simp only [Bool.and_eq_true, decide_eq_true_eq] at hcond
        have hlt := hcond.1
        split at h
        · exact (err_inj h).symm
        split at h
        · rename_i h92
          have h92' : c.at s.idx = 92 := by simpa using h92
          have hg := escape_class_good hlt h92'
          split at h
          · rename_i e' hesc
            rw [hesc] at hg
            cases hg
            exact (err_inj h).symm
          · rename_i x s1 hesc
            rw [hesc] at hg
            cases hg with
            | chr e0 hok htext hlen =>
              split at h
              · exact (err_inj h).symm
              · exact ihL _ _ _ hlen (by simp only; omega) h
          · rename_i rs s1 hesc
            rw [hesc] at hg
            cases hg with
            | set i hset hok n htext hn =>
              split at h
              · exact (err_inj h).symm
              · exact ihL _ _ _ hn.2 (by simp only; omega) h
          · rename_i n s1 hesc
            rw [hesc] at hg
            cases hg
        split at h
        · split at h
          · rename_i t1
            have hd := tf_true t1
            have h91 : c.at (s.idx + 1) = 91 :=
              (drop_cons_facts (drop_cons_facts hd).2.2).2.1
            split at h
            · rename_i e' hp
              have := ihP _ _ h91 (by simp only; omega) hp
              rw [← err_inj h]; exact this
            · rename_i sub s1 hp
              obtain ⟨hc1, hc2, _⟩ := (class_ok_closes c f).1 _ _ _ hp
              simp only at hc1
              split at h
              · exact (err_inj h).symm
              · split at h
                · exact (err_inj h).symm
                · exact ihL _ _ _ hc2 (by omega) h
          split at h
          · split at h
            · exact (err_inj h).symm
            · exact ihL _ _ _ (by simp only; omega) (by simp only; omega) h
          split at h
          · exact ihL _ _ _ (by simp only; omega) (by simp only; omega) h
          split at h
          · exact (err_inj h).symm
          split at h
          · exact (err_inj h).symm
          split at h
          · exact (err_inj h).symm
          · exact ihL _ _ _ (by simp only; omega) (by simp only; omega) h
        · split at h
          · exact (err_inj h).symm
          · exact ihL _ _ _ (by simp only; omega) (by simp only; omega) h
      · split at h
        · exact (err_inj h).symm
        · cases h

end Rx.C09
