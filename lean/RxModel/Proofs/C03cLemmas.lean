/-
  Proofs/C03cLemmas — helper lemmas for Props/C03c: the results of Props/C03b lifted through the
  search loop (`matchesFrom`, all shortcuts) and to the API functions that report groups
  (`replace_all`, `analyze`).

  `ReprP` strengthens `ReprOff` (Spec/PathCaps) by the fact `get_paren` needs besides the arrays:
  every bound group lies below `cap.parenCount`.  The induction over the tree (`sem_seqCP`) is the
  one of Proofs/PathCapsLemmas, carried out for the stronger relation.
-/
import RxModel.Spec.PathCaps
import RxModel.Proofs.PathCapsLemmas
import RxModel.Proofs.SearchLemmas
import RxModel.Proofs.CleanSearchLemmas
import RxModel.Props.C03b
import RxModel.Props.C04
import RxModel.Props.C15
import RxModel.Props.C03
namespace Rx

/-- `ReprOff` and: every group `≥ 1` outside `fut` that the environment binds is `< parenCount`
    (`get_paren(g)` answers `None` for `g ≥ parenCount`) -/
structure ReprP (ctx : Ctx) (fut : List Nat) (st : St) (e : CEnv) : Prop where
  repr : ReprOff ctx fut st e
  pc : ∀ k, 1 ≤ k → k ∉ fut → (e k).isSome = true → k < st.cap.parenCount
  pc0 : 1 ≤ st.cap.parenCount

namespace ReprP
variable {ctx : Ctx} {T : List Nat} {st : St} {e : CEnv}

theorem mono {T' : List Nat} (h : ReprP ctx T st e) (hT : ∀ k, k ∈ T → k ∈ T') : ReprP ctx T' st e :=
  ⟨h.repr.mono hT, fun k hk hn hs => h.pc k hk (fun hm => hn (hT k hm)) hs, h.pc0⟩

theorem clear {lo pos : Nat} (h : ReprP ctx T st e) (he : EnvIn e lo pos) :
    ReprP ctx T (clearBeyond st pos) e :=
  ⟨h.repr.clear he, h.pc, h.pc0⟩

theorem setDiv (h : ReprP ctx T st e) : ReprP ctx T (st.setPanic panicDiverge) e := by
  have hc : (st.setPanic panicDiverge).cap = st.cap := by
    unfold St.setPanic; split <;> rfl
  refine ⟨h.repr.setDiv, ?_, ?_⟩
  · rw [hc]; exact h.pc
  · rw [hc]; exact h.pc0

theorem restore {st' : St} (h : ReprP ctx T st e) (h' : ReprP ctx T st' e) :
    ReprP ctx T { st' with cap := st.cap } e :=
  ⟨h.repr.restore h'.repr, h.pc, h.pc0⟩

theorem setEnd0 (h : ReprP ctx T st e) (p : Nat) : ReprP ctx T { st with cap := st.cap.setEnd 0 p } e :=
  ⟨h.repr.setEnd0 p, h.pc, h.pc0⟩

theorem capturePre (h : ReprP ctx T st e) (g p : Nat) (hg : g ∈ T) (hgm : g < ctx.maxParens) :
    ReprP ctx T (if ctx.hasBackrefs then
      (if g ≥ st.startBr.length then st.setPanic panicCaptureIndex
       else { st with startBr := setIn st.startBr g (some p) }) else st) e := by
  refine ⟨h.repr.capturePre g p hg hgm, ?_, ?_⟩ <;>
  have hc : (if ctx.hasBackrefs then
      (if g ≥ st.startBr.length then st.setPanic panicCaptureIndex
       else { st with startBr := setIn st.startBr g (some p) }) else st).cap = st.cap := by
    split
    · split
      · unfold St.setPanic; split <;> rfl
      · rfl
    · rfl
  · rw [hc]; exact h.pc
  · rw [hc]; exact h.pc0

theorem captureWrite_pc (ctx : Ctx) (g p n : Nat) (st : St) :
    (Rx.captureWrite ctx g p n st).cap.parenCount = if g ≥ st.cap.parenCount then g + 1 else st.cap.parenCount := by
  unfold Rx.captureWrite
  simp only
  split <;> (simp only [Cap.setStart, Cap.setEnd]; split <;> rfl)

theorem captureWrite {e1 : CEnv} (g p n : Nat) (hg1 : g < ctx.maxParens)
    (h : ReprP ctx (g :: T) st e1) : ReprP ctx T (Rx.captureWrite ctx g p n st) (e1.set g p n) := by
  refine ⟨h.repr.captureWrite g p n hg1, fun k hk hn hs => ?_, ?_⟩
  · rw [captureWrite_pc]
    by_cases hkg : k = g
    · subst hkg; split <;> omega
    · rw [CEnv.set_other _ _ _ _ _ hkg] at hs
      have := h.pc k hk (by simp [hkg, hn]) hs
      split <;> omega
  · rw [captureWrite_pc]
    have := h.pc0
    split <;> omega

theorem unset {e1 : CEnv} {g a b : Nat} (h : ReprP ctx T st (e1.set g a b)) : ReprP ctx (g :: T) st e1 := by
  refine ⟨h.repr.unset, fun k hk hn hs => ?_, h.pc0⟩
  have hkg : k ≠ g := fun hc => hn (by simp [hc])
  refine h.pc k hk (fun hm => hn (List.mem_cons_of_mem _ hm)) ?_
  rw [CEnv.set_other _ _ _ _ _ hkg]; exact hs

end ReprP

theorem writesFrom_reprP (ctx : Ctx) (T : List Nat) (e : CEnv) (lo p0 : Nat) (he : EnvIn e lo p0) :
    WritesFrom p0 (fun st => ReprP ctx T st e) where
  clear := fun _ _ hp h => h.clear (he.mono hp)
  div := fun _ h => h.setDiv
  restore := fun _ _ h h' => h.restore h'
  setEnd0 := fun _ p h => h.setEnd0 p

theorem plain_seqCP (ctx : Ctx) (op : Op) (hp : plainOp op = true) (hwf : wfOp op = true)
    (T : List Nat) (e : CEnv) (lo p : Nat) (hpl : p ≤ ctx.len) (he : EnvIn e lo p) (st : St)
    (hst : ReprP ctx T st e) :
    Step.SeqC (ReprP ctx T) (fun st' => ReprP ctx T st' e) (sem ctx op p st)
      ((enum ctx op p).map (fun q => (q, e))) :=
  Step.SeqC.of_ex_inv e (sem_ex_op ctx op (plain_clean op hp) hwf p hpl st)
    (plain_inv (writesFrom_reprP ctx T e lo p he) ctx op hp hwf p st ⟨Nat.le_refl _, hpl⟩ hst)

/-- the plain constructors inside the straight-line induction -/
theorem plain_caseP (ctx : Ctx) (op : Op) (hp : plainOp op = true) (hwf : wfOp op = true)
    (T : List Nat) (e : CEnv) (lo p : Nat) (hpl : p ≤ ctx.len) (he : EnvIn e lo p) (st : St)
    (henum : enumC ctx op p e = (enum ctx op p).map (fun q => (q, e)))
    (hst : ReprP ctx (capsOf op ++ T) st e) :
    Step.SeqC (ReprP ctx T) (fun st' => ReprP ctx (capsOf op ++ T) st' e) (sem ctx op p st)
      (enumC ctx op p e) := by
  rw [henum]
  rw [plain_capsOf op hp] at hst ⊢
  exact plain_seqCP ctx op hp hwf T e lo p hpl he st hst

mutual
/-- **the engine is an exact, ordered enumerator of (end, environment) pairs on the fragment**:
    started at `p` in a state that represents `e` off the groups of `op` and off `fut`, the iterator
    yields exactly `enumC ctx op p e`, each time in a state that represents the yielded environment
    off `fut`, and ends in a state that again represents `e` off the groups of `op` and `fut` —
    whenever it is resumed with states that still represent the environment of its last yield. -/
theorem sem_seqCP (ctx : Ctx) (lo : Nat) : (op : Op) → straightCaps op = true → wfOp op = true →
    ∀ cl T, scopeOK ctx.hasBackrefs ctx.maxParens op cl T = true →
    ∀ p e st, p ≤ ctx.len → lo ≤ p → EnvIn e lo p → Dom cl e → ReprP ctx (capsOf op ++ T) st e →
    Step.SeqC (ReprP ctx T) (fun st' => ReprP ctx (capsOf op ++ T) st' e) (sem ctx op p st)
      (enumC ctx op p e)
  | .bol, _, hwf, _, T, _, p, e, st, hpl, _, he, _, hst =>
    plain_caseP ctx .bol rfl hwf T e lo p hpl he st (by simp only [enumC]) hst
  | .eol, _, hwf, _, T, _, p, e, st, hpl, _, he, _, hst =>
    plain_caseP ctx .eol rfl hwf T e lo p hpl he st (by simp only [enumC]) hst
  | .nothing, _, hwf, _, T, _, p, e, st, hpl, _, he, _, hst =>
    plain_caseP ctx .nothing rfl hwf T e lo p hpl he st (by simp only [enumC]) hst
  | .endProgram, _, hwf, _, T, _, p, e, st, hpl, _, he, _, hst =>
    plain_caseP ctx .endProgram rfl hwf T e lo p hpl he st (by simp only [enumC]) hst
  | .atom cs, _, hwf, _, T, _, p, e, st, hpl, _, he, _, hst =>
    plain_caseP ctx (.atom cs) rfl hwf T e lo p hpl he st (by simp only [enumC]) hst
  | .cls rs, _, hwf, _, T, _, p, e, st, hpl, _, he, _, hst =>
    plain_caseP ctx (.cls rs) rfl hwf T e lo p hpl he st (by simp only [enumC]) hst
  | .choice bs, hs, hwf, _, T, _, p, e, st, hpl, _, he, _, hst =>
    plain_caseP ctx (.choice bs) (by simpa only [straightCaps, plainOp] using hs) hwf T e lo p hpl he st
      (by simp only [enumC]) hst
  | .gfixed c mn mx l, hs, hwf, _, T, _, p, e, st, hpl, _, he, _, hst =>
    plain_caseP ctx (.gfixed c mn mx l) (by simpa only [straightCaps, plainOp] using hs) hwf T e lo p hpl he st
      (by simp only [enumC]) hst
  | .rfixed c mn mx l, hs, hwf, _, T, _, p, e, st, hpl, _, he, _, hst =>
    plain_caseP ctx (.rfixed c mn mx l) (by simpa only [straightCaps, plainOp] using hs) hwf T e lo p hpl he st
      (by simp only [enumC]) hst
  | .rep _ _ _ _ _, hs, _, _, _, _, _, _, _, _, _, _, _, _ | .unamb _ _ _, hs, _, _, _, _, _, _, _, _, _, _, _, _ => by
    simp [straightCaps] at hs
  | .backref g, _, _, cl, T, hsc, p, e, st, hpl, _, he, hd, hst => by
    simp only [scopeOK, Bool.and_eq_true, decide_eq_true_eq, List.contains_eq_mem, Bool.not_eq_true',
      decide_eq_false_iff_not] at hsc
    obtain ⟨⟨⟨hbr, hg1⟩, hgcl⟩, hgT⟩ := hsc
    simp only [capsOf, List.nil_append] at hst ⊢
    have hsome := hd g hgcl
    cases hg : e g with
    | none => rw [hg] at hsome; cases hsome
    | some ab =>
      obtain ⟨a, b⟩ := ab
      have hag := hst.repr.agree g hg1 hgT
      rw [hg] at hag
      have hbrs := hag.2.2 hbr
      have hab := (he g a b hg).2.1
      simp only [sem, enumC, hg]
      rw [backrefGen_eval ctx g p st a b hpl hbrs.1 hbrs.2 hab]
      split
      · exact Step.SeqC.once hst (fun _ h => h)
      · exact .nil st hst
  | .capture g c, hs, hwf, cl, T, hsc, p, e, st, hpl, hlo, he, hd, hst => by
    simp only [straightCaps] at hs
    simp only [wfOp] at hwf
    simp only [scopeOK, Bool.and_eq_true, decide_eq_true_eq] at hsc
    obtain ⟨⟨hg1, hgm⟩, hsc⟩ := hsc
    simp only [capsOf] at hst ⊢
    have hperm : ∀ k, k ∈ g :: capsOf c ++ T ↔ k ∈ capsOf c ++ g :: T := by
      intro k; simp only [List.cons_append, List.mem_cons, List.mem_append]
      constructor
      · rintro (h | h | h)
        · exact .inr (.inl h)
        · exact .inl h
        · exact .inr (.inr h)
      · rintro (h | h | h)
        · exact .inr (.inl h)
        · exact .inl h
        · exact .inr (.inr h)
    have hst1 := (hst.capturePre g p (by simp) hgm).mono (fun k hk => (hperm k).1 hk)
    have ih := sem_seqCP ctx lo c hs hwf cl (g :: T) hsc p e _ hpl hlo he hd hst1
    simp only [sem, enumC]
    unfold captureGen
    simp only
    refine (Step.SeqC.mapSt (R' := ReprP ctx T) (fun x => x.2.set g p x.1) ih ?_ ?_).monoN ?_
    · intro x _ st' h'
      exact h'.captureWrite g p x.1 hgm
    · intro x _ st' h'
      exact h'.unset
    · intro st' h'
      exact h'.mono (fun k hk => (hperm k).2 hk)
  | .seq ops, hs, hwf, cl, T, hsc, p, e, st, hpl, hlo, he, hd, hst => by
    simp only [straightCaps] at hs
    simp only [wfOp, Bool.and_eq_true, Bool.not_eq_true', List.isEmpty_eq_false_iff] at hwf
    simp only [scopeOK] at hsc
    simp only [capsOf] at hst ⊢
    simp only [sem, enumC]
    unfold seqGen
    simp only
    refine (seqGo_seqCP ctx lo ops hwf.1 hs hwf.2 cl T hsc p e st hpl hlo he hd hst).onNil (fun st' h' => ?_)
    split
    · exact hst.restore h'
    · exact h'
termination_by structural op => op
theorem seqGo_seqCP (ctx : Ctx) (lo : Nat) : (ops : List Op) → ops ≠ [] → straightCapsL ops = true →
    wfOps ops = true → ∀ cl T, scopeOKL ctx.hasBackrefs ctx.maxParens ops cl T = true →
    ∀ p e st, p ≤ ctx.len → lo ≤ p → EnvIn e lo p → Dom cl e → ReprP ctx (capsOfL ops ++ T) st e →
    Step.SeqC (ReprP ctx T) (fun st' => ReprP ctx (capsOfL ops ++ T) st' e) (seqGo (semL ctx ops) p st)
      (enumCSeq ctx ops p e)
  | [], hne, _, _, _, _, _, _, _, _, _, _, _, _, _ => absurd rfl hne
  | [o], _, hs, hwf, cl, T, hsc, p, e, st, hpl, hlo, he, hd, hst => by
    simp only [straightCapsL, Bool.and_eq_true] at hs
    simp only [wfOps, Bool.and_eq_true] at hwf
    simp only [scopeOKL, capsOfL, List.nil_append, Bool.and_true] at hsc
    simp only [capsOfL, List.append_nil] at hst ⊢
    have ih := sem_seqCP ctx lo o hs.1 hwf.1 cl T hsc p e st hpl hlo he hd hst
    simp only [semL, enumCSeq]
    rw [flatMap_pair_single]
    unfold seqGo
    refine Step.SeqC.mapSt_same ih (fun x hx st' h' => ?_)
    exact h'.clear (enumC_facts ctx lo o hs.1 hwf.1 cl p e hpl hlo he hd x hx).env
  | o :: o2 :: os, _, hs, hwf, cl, T, hsc, p, e, st, hpl, hlo, he, hd, hst => by
    simp only [straightCapsL, Bool.and_eq_true] at hs
    simp only [wfOps, Bool.and_eq_true] at hwf
    have hs2 : straightCapsL (o2 :: os) = true := by simp only [straightCapsL, Bool.and_eq_true]; exact hs.2
    have hw2 : wfOps (o2 :: os) = true := by simp only [wfOps, Bool.and_eq_true]; exact hwf.2
    rw [scopeOKL, Bool.and_eq_true] at hsc
    rw [capsOfL, List.append_assoc] at hst
    have ih := sem_seqCP ctx lo o hs.1 hwf.1 cl (capsOfL (o2 :: os) ++ T) hsc.1 p e st hpl hlo he hd hst
    have hfacts := enumC_facts ctx lo o hs.1 hwf.1 cl p e hpl hlo he hd
    show Step.SeqC _ _ (seqGo (sem ctx o :: sem ctx o2 :: semL ctx os) p st)
      ((enumC ctx o p e).flatMap (fun x => enumCSeq ctx (o2 :: os) x.1 x.2))
    unfold seqGo
    have h1 := Step.SeqC.mapSt_same (f := fun n st' => clearBeyond st' n) ih
      (fun x hx st' h' => h'.clear (hfacts x hx).env)
    have h2 := Step.SeqC.bind (R := ReprP ctx T) (f := seqGo (sem ctx o2 :: semL ctx os))
      (g := fun x => enumCSeq ctx (o2 :: os) x.1 x.2) h1 (fun x hx st' h' => by
        have hf := hfacts x hx
        exact seqGo_seqCP ctx lo (o2 :: os) (List.cons_ne_nil _ _) hs2 hw2 (capsOf o ++ cl) T hsc.2
          x.1 x.2 st' hf.len (Nat.le_trans hlo hf.le) hf.env hf.dom h')
    refine h2.monoN (fun st' h' => ?_)
    rw [capsOfL, List.append_assoc]
    exact h'
termination_by structural ops => ops
end


/-- the state `match_at` starts the iterator in -/
theorem matchStart_reprP (ctx : Ctx) (op : Op) (i : Nat) (st : St) (h : CapsClear op st)
    (hnp : st.panic = none ∨ st.panic = some panicDiverge) :
    ReprP ctx (capsOf op ++ []) (matchStart ctx i st) CEnv.empty :=
  ⟨matchStart_repr ctx op i st h hnp, fun k _ _ hs => by simp [CEnv.empty] at hs, by
    unfold matchStart
    simp only
    split <;> exact Nat.le_refl _⟩

/-! ## `match_at`: the three-way case split, with the capture state -/

/-- the program-side hypotheses of Props/C03b, unpacked -/
structure StraightOK (ctx : Ctx) (op : Op) : Prop where
  straight : straightCaps op = true
  wf : wfOp op = true
  capsPos : C02.capsPos op = true
  scope : scopeOK ctx.hasBackrefs ctx.maxParens op [] [] = true
  nodup : (capsOf op).Nodup

theorem StraightOK.of_progOK {ctx : Ctx} {op : Op}
    (h : C03b.progOK ctx.hasBackrefs ctx.maxParens op = true) : StraightOK ctx op := by
  simp only [C03b.progOK, Bool.and_eq_true, decide_eq_true_eq] at h
  obtain ⟨⟨⟨⟨h1, h2⟩, h3⟩, h4⟩, h5⟩ := h
  exact ⟨h1, h2, h3, h4, h5⟩

/-- the state between two attempts of the candidate loop: reported arrays clear outside the groups of
    the tree, panic marker clear -/
def Good (op : Op) (st : St) : Prop := CapsClear op st ∧ st.panic = none

/-- "a path of the semantics starts at `j`" -/
def HasP (ctx : Ctx) (op : Op) (j : Nat) : Prop := ∃ n e', PathR ctx op j CEnv.empty n e'

theorem HasP.has {ctx : Ctx} {op : Op} {j : Nat} (h : HasP ctx op j) (hj : j ≤ ctx.len) :
    ∃ q, OpR ctx op j q := by
  obtain ⟨n, e', hp⟩ := h
  exact ⟨n, PathR_OpR ctx op j _ n e' hj hp⟩

/-- what a successful `match_at(j)` leaves: the FIRST path `(n, e')` of the priority order from `j`,
    group 0 = `(j, n)`, a state representing `e'` (with `parenCount` above every bound group) -/
structure MatchRes (ctx : Ctx) (op : Op) (j n : Nat) (e' : CEnv) (st' : St) : Prop where
  path : PathR ctx op j CEnv.empty n e'
  first : (enumC ctx op j CEnv.empty).head? = some (n, e')
  start0 : getParenStart st' 0 = some j
  end0 : getParenEnd st' 0 = some n
  le : j ≤ n
  len : n ≤ ctx.len
  reprP : ReprP ctx [] st' e'
  env : EnvIn e' j n
  dom : ∀ g, g ∈ capsOf op ↔ (e' g).isSome = true
  clean : st'.panic = none

theorem MatchRes.repr {ctx : Ctx} {op : Op} {j n : Nat} {e' : CEnv} {st' : St}
    (h : MatchRes ctx op j n e' st') : Repr ctx st' e' := h.reprP.repr

theorem matchAt_casesP (ctx : Ctx) (op : Op) (H : StraightOK ctx op) (j : Nat) (hj : j ≤ ctx.len)
    (st : St) (hst : Good op st) :
    (HasP ctx op j ∧ ∃ st' n e', matchAt ctx op j st = (true, st') ∧ MatchRes ctx op j n e' st') ∨
    (¬ HasP ctx op j ∧ ∃ st', matchAt ctx op j st = (false, st') ∧ Good op st') := by
  have hnd := C06.matchAt_no_diverge ctx op H.wf (C03b.straight_smallMin _ op H.straight) j hj st
    (by unfold C06.NoDivMark; rw [hst.2]; exact fun hc => by cases hc)
  have hrepr := matchStart_reprP ctx op j st hst.1 (.inl hst.2)
  have hseq := sem_seqCP ctx j op H.straight H.wf [] [] H.scope j CEnv.empty (matchStart ctx j st) hj
    (Nat.le_refl _) (EnvIn.empty _ _) (Dom.nil _) hrepr
  have hfacts := enumC_facts ctx j op H.straight H.wf [] j CEnv.empty hj (Nat.le_refl _) (EnvIn.empty _ _)
    (Dom.nil _)
  have hcompl := enumC_complete ctx op H.straight H.wf j CEnv.empty
  have hinv := sem_s0 ctx j op H.wf (by rw [← C02.capsPos_eq]; exact H.capsPos) j (matchStart ctx j st) hj
    (matchStart_s0 ctx j st)
  rw [matchAt_eq] at hnd ⊢
  generalize hl : enumC ctx op j CEnv.empty = l at hseq hfacts hcompl
  generalize sem ctx op j (matchStart ctx j st) = s at hnd hseq hinv
  cases hseq with
  | nil st2 hn =>
    right
    refine ⟨?_, _, rfl, ?_, ?_⟩
    · rintro ⟨n, e', hp⟩
      have := hcompl n e' hj hp
      cases this
    · intro k hk hnk
      have := hn.repr.agree k hk (by simpa using hnk)
      exact ⟨this.1, this.2.1⟩
    · simp only at hnd
      rcases hn.repr.np with h | h
      · exact h
      · exact absurd h hnd
  | cons n st2 r e' l' hr _ =>
    left
    have f := hfacts (n, e') List.mem_cons_self
    refine ⟨⟨n, e', f.path⟩, _, n, e', rfl, ?_⟩
    have hr' := hr.setEnd0 n
    have hg0 : getParenStart { st2 with cap := st2.cap.setEnd 0 n } 0 = some j := hinv.head
    have hend : getParenEnd { st2 with cap := st2.cap.setEnd 0 n } 0 = some n := by
      simp only [getParenEnd, Cap.setEnd]
      exact getO_setAt_zero _ _
    refine ⟨f.path, by rw [hl]; rfl, hg0, hend, f.le, f.len, hr', f.env, fun g => ⟨fun hg => ?_, fun hg => ?_⟩, ?_⟩
    · exact f.dom g (by simpa using hg)
    · apply Classical.byContradiction
      intro hng
      have := PathR_frame ctx op H.straight j CEnv.empty n e' f.path g hng
      rw [this] at hg
      simp [CEnv.empty] at hg
    · simp only at hnd
      rcases hr'.repr.np with h | h
      · exact h
      · exact absurd h hnd

/-! ## preconditions do not disturb the capture state -/

theorem leaf_genInv {I : St → Prop} (ctx : Ctx) (c : Op) (h : isAtomOrClass c = true) :
    GenInv (fun _ => True) I (sem ctx c) := by
  cases c with
  | atom cs => simp only [sem]; exact atomGen_inv ctx cs
  | cls rs => simp only [sem]; exact clsGen_inv ctx rs
  | _ => simp [isAtomOrClass] at h

theorem leaf_nd (ctx : Ctx) (c : Op) (h : isAtomOrClass c = true) (p : Nat) (st : St) :
    (sem ctx c p st).NoDiv := by
  cases c with
  | atom cs => simp only [sem]; exact atomGen_nd (L := p) ctx cs p st (Nat.le_refl _)
  | cls rs => simp only [sem]; exact clsGen_nd (L := p) ctx rs p st (Nat.le_refl _)
  | _ => simp [isAtomOrClass] at h

theorem leaf_childOK {I : St → Prop} (ctx : Ctx) (c : Op) (h : isAtomOrClass c = true) :
    ChildOK (fun _ => True) I (sem ctx c) where
  inv := leaf_genInv ctx c h
  fst := fun p st _ hst => first1_inv_nodiv (leaf_genInv ctx c h p st trivial hst) (leaf_nd ctx c h p st)
  pos := fun _ _ _ => Step.All.trivial _

/-- every operation of the shape `add_precondition` records keeps every invariant the primitive
    writes keep — whatever the `hasBackrefs` flag of the program (no capture, no back-reference) -/
theorem simplePre_inv {I : St → Prop} (W : Writes I) (ctx : Ctx) (op : Op) (h : C06.simplePre op = true) :
    GenInv (fun _ => True) I (sem ctx op) := by
  cases op with
  | atom cs => simp only [sem]; exact atomGen_inv ctx cs
  | cls rs => simp only [sem]; exact clsGen_inv ctx rs
  | rep id c mn mx g =>
    simp only [C06.simplePre, Bool.and_eq_true] at h
    have C : ChildOK (fun _ => True) I (sem ctx c) := leaf_childOK ctx c h.1.1.1.1
    simp only [sem]
    split
    · exact repGreedyGen_inv W C ctx id mn mx
    · exact repReluctantGen_inv W C ctx mn mx
  | gfixed c mn mx len =>
    simp only [C06.simplePre, Bool.and_eq_true] at h
    have C : ChildOK (fun _ => True) I (sem ctx c) := leaf_childOK ctx c h.1.1.1.1.1.1
    simp only [sem]
    exact gfixedGen_inv W C ctx mn mx len (fun _ _ => trivial)
  | rfixed c mn mx len =>
    simp only [C06.simplePre, Bool.and_eq_true] at h
    have C : ChildOK (fun _ => True) I (sem ctx c) := leaf_childOK ctx c h.1.1.1.1.1.1
    simp only [sem]
    exact rfixedGen_inv W C ctx mn mx
  | unamb c mn mx =>
    simp only [C06.simplePre, Bool.and_eq_true] at h
    have C : ChildOK (fun _ => True) I (sem ctx c) := leaf_childOK ctx c h.1.1.1
    simp only [sem]
    exact unambGen_inv W C ctx mn mx (fun _ _ => trivial)
  | _ => simp [C06.simplePre] at h

theorem writes_capsClear (op : Op) : Writes (CapsClear op) where
  clear := by
    intro st p h k hk hn
    obtain ⟨h1, h2⟩ := h k hk hn
    refine ⟨h1, ?_⟩
    show getO (clearArr st.cap.startn st.cap.endn p) k = none
    rw [getO_clearArr, h1]
    simp [optGe, h2]
  div := by
    intro st h
    have hc : (st.setPanic panicDiverge).cap = st.cap := by unfold St.setPanic; split <;> rfl
    intro k hk hn
    rw [hc]; exact h k hk hn
  hist := fun _ _ h => h
  restore := fun _ _ h _ => h
  setEnd0 := by
    intro st p h k hk hn
    obtain ⟨h1, h2⟩ := h k hk hn
    refine ⟨h1, ?_⟩
    show getO (setAt st.cap.endn 0 (some p)) k = none
    rw [getO_setAt, if_neg (by omega)]; exact h2

theorem preHolds_inv {I : St → Prop} {ctx : Ctx} {o : Op} {j : Nat} {st : St}
    (hinv : (sem ctx o j st).Inv I) (hnd : (sem ctx o j st).NoDiv) : I (preHolds ctx o j st).2 := by
  unfold preHolds
  cases hs : sem ctx o j st with
  | nil st' => rw [hs] at hinv; exact hinv.nil_inv
  | cons n st' r => rw [hs] at hinv; exact hinv.head
  | diverge => rw [hs] at hnd; cases hnd

/-- the precondition test keeps a good state good, at any position -/
theorem preHolds_good (ctx : Ctx) (op o : Op) (ho : C06.simplePre o = true) (j : Nat) (st : St)
    (hst : Good op st) : Good op (preHolds ctx o j st).2 := by
  have hndm : C06.NoDivMark st := by unfold C06.NoDivMark; rw [hst.2]; exact fun hc => by cases hc
  obtain ⟨hnd, hdm⟩ := C06.pre_no_diverge ctx o ho j st hndm
  refine ⟨preHolds_inv (simplePre_inv (writes_capsClear op) ctx o ho j st trivial hst.1) hnd, ?_⟩
  have h1 : NoRealPanic (preHolds ctx o j st).2 :=
    preHolds_inv (simplePre_inv writes_np ctx o ho j st trivial (.inl hst.2)) hnd
  have h2 : C06.NoDivMark (preHolds ctx o j st).2 := preHolds_inv hdm hnd
  rcases h1 with h | h
  · exact h
  · exact absurd h h2

/-- a precondition tree is quiet at every start whatsoever — also in a program with back-references
    (`SearchComplete.quietAll_of_simplePre` assumes `hasBackrefs = false`) -/
theorem quietAll_simplePre (ctx : Ctx) (o : Op) (ho : C06.simplePre o = true) : SearchComplete.QuietAll ctx o := by
  intro j st hst
  have hndm : C06.NoDivMark st := by unfold C06.NoDivMark; rw [hst]; exact fun hc => by cases hc
  obtain ⟨hnd, hdm⟩ := C06.pre_no_diverge ctx o ho j st hndm
  have h1 := first1_inv_nodiv (simplePre_inv writes_np ctx o ho j st trivial (.inl hst)) hnd
  have h2 := first1_inv_nodiv hdm hnd
  refine ⟨hnd.ne_diverge, ?_⟩
  rcases h1 with h | h
  · exact h
  · exact absurd h h2

theorem findFrom_good (ctx : Ctx) (op o : Op) (ho : C06.simplePre o = true) :
    ∀ (fuel j : Nat) (st : St), Good op st → Good op (findFrom ctx o fuel j st).2 := by
  intro fuel
  induction fuel with
  | zero => intro j st hst; exact hst
  | succ f ih =>
    intro j st hst
    unfold findFrom
    split
    · have hp := preHolds_good ctx op o ho j st hst
      split
      · rename_i st' heq
        rw [heq] at hp; exact hp
      · rename_i st' heq
        rw [heq] at hp
        split
        · exact hp
        · exact ih _ _ hp
    · exact hst

/-- `check_preconditions` keeps a good state good -/
theorem checkPre_good (ctx : Ctx) (op : Op) (start : Nat) :
    ∀ (pres : List Pre) (st : St), (∀ q ∈ pres, C06.simplePre q.op = true) → Good op st →
      Good op (checkPre ctx start pres st).2 := by
  intro pres
  induction pres with
  | nil => intro st _ hst; exact hst
  | cons pre rest ih =>
    intro st hq hst
    have hpre := hq pre List.mem_cons_self
    have hrest : ∀ q ∈ rest, C06.simplePre q.op = true := fun q hm => hq q (List.mem_cons_of_mem _ hm)
    unfold checkPre
    split
    · rename_i fixed _
      have hp := preHolds_good ctx op pre.op hpre fixed st hst
      split
      · rename_i st' heq
        rw [heq] at hp
        exact ih _ hrest hp
      · rename_i st' heq
        rw [heq] at hp; exact hp
    · simp only
      have hp := findFrom_good ctx op pre.op hpre (ctx.len + 1)
        (if start < pre.minPos then pre.minPos else start) st hst
      split
      · rename_i st' heq
        rw [heq] at hp
        exact ih _ hrest hp
      · rename_i st' heq
        rw [heq] at hp; exact hp

/-! ## the candidate loop and the five shortcuts, with the capture state

  The development of Proofs/SearchLemmas, with "has a match" read as "a path of the semantics WITH
  environments starts here" (`HasP`; with back-references the language `OpR` is too coarse) and the
  loop invariant strengthened from "panic marker clear" to `Good`. -/

open SearchComplete in
/-- `tryCands` on a good state: it stops at the FIRST candidate from which a path exists (and
    `match_at` succeeds there, leaving the first path of the priority order), or no candidate has a
    path and it fails in a good state -/
theorem tryCands_specP (ctx : Ctx) (op : Op) (H : StraightOK ctx op) :
    ∀ (cands : List Nat) (st : St), (∀ j ∈ cands, j ≤ ctx.len) → Good op st →
    (∃ pre j post stj st' n e', cands = pre ++ j :: post ∧ (∀ k ∈ pre, ¬ HasP ctx op k) ∧
        tryCands ctx op cands st = (true, st') ∧ matchAt ctx op j stj = (true, st') ∧
        MatchRes ctx op j n e' st') ∨
    ((∀ k ∈ cands, ¬ HasP ctx op k) ∧ ∃ st', tryCands ctx op cands st = (false, st') ∧ Good op st') := by
  intro cands
  induction cands with
  | nil =>
    intro st _ hst
    right
    exact ⟨fun k hk => (by cases hk), st, rfl, hst⟩
  | cons j js ih =>
    intro st hb hst
    have hj := hb j List.mem_cons_self
    have hb' : ∀ k ∈ js, k ≤ ctx.len := fun k hk => hb k (List.mem_cons_of_mem _ hk)
    rcases matchAt_casesP ctx op H j hj st hst with ⟨_, st', n, e', he, hres⟩ | ⟨hm, st1, he, hg⟩
    · left
      refine ⟨[], j, js, st, st', n, e', rfl, fun k hk => (by cases hk), ?_, he, hres⟩
      unfold tryCands
      rw [he]
    · have hp : ¬ st1.panic.isSome = true := by rw [hg.2]; simp
      have hstep : tryCands ctx op (j :: js) st = tryCands ctx op js st1 := tryCands_cons_false he hp
      rcases ih st1 hb' hg with ⟨pre, j', post, stj, st', n, e', hcs, hpre, ht, hma, hres⟩ | ⟨hall, st', ht, hg'⟩
      · left
        refine ⟨j :: pre, j', post, stj, st', n, e', by rw [hcs]; rfl, ?_, by rw [hstep]; exact ht, hma, hres⟩
        intro k hk
        rcases List.mem_cons.1 hk with rfl | hk
        · exact hm
        · exact hpre k hk
      · right
        refine ⟨?_, st', by rw [hstep]; exact ht, hg'⟩
        intro k hk
        rcases List.mem_cons.1 hk with rfl | hk
        · exact hm
        · exact hall k hk

/-- what a search for the first match starting at or after `i` returns on a straight-capture
    program: `true` by a successful `match_at(j)` at the LEAST `j ≥ i` from which a path exists, leaving
    the first path of the priority order from `j` and a state representing its environment; or `false`,
    a good state, and no path from any `j ≥ i` inside the input -/
def OutcomeP (ctx : Ctx) (op : Op) (i : Nat) (r : Bool × St) : Prop :=
  (r.1 = true ∧ ∃ j stj n e', i ≤ j ∧ j ≤ ctx.len ∧ (∀ k, i ≤ k → k < j → ¬ HasP ctx op k) ∧
      matchAt ctx op j stj = r ∧ MatchRes ctx op j n e' r.2) ∨
  (r.1 = false ∧ Good op r.2 ∧ ∀ j, i ≤ j → j ≤ ctx.len → ¬ HasP ctx op j)

theorem tryCands_outcomeP (ctx : Ctx) (op : Op) (H : StraightOK ctx op) (i : Nat)
    (cands : List Nat) (hsort : cands.Pairwise (· < ·)) (hb : ∀ j ∈ cands, i ≤ j ∧ j ≤ ctx.len)
    (hcover : ∀ j, i ≤ j → j ≤ ctx.len → HasP ctx op j → j ∈ cands)
    (st : St) (hst : Good op st) : OutcomeP ctx op i (tryCands ctx op cands st) := by
  rcases tryCands_specP ctx op H cands st (fun j hj => (hb j hj).2) hst with
    ⟨pre, j, post, stj, st', n, e', hcs, hpre, ht, hma, hres⟩ | ⟨hall, st', ht, hg⟩
  · rw [ht]
    refine .inl ⟨rfl, j, stj, n, e', ?_, ?_, ?_, hma, hres⟩
    · exact (hb j (by rw [hcs]; simp)).1
    · exact (hb j (by rw [hcs]; simp)).2
    · intro k hik hkj hmk
      have hjl := (hb j (by rw [hcs]; simp)).2
      have hk := hcover k hik (by omega) hmk
      rw [hcs] at hk hsort
      rw [List.pairwise_append] at hsort
      obtain ⟨_, hs2, _⟩ := hsort
      rw [List.pairwise_cons] at hs2
      rcases List.mem_append.1 hk with hk | hk
      · exact hpre k hk hmk
      · rcases List.mem_cons.1 hk with rfl | hk
        · omega
        · have := hs2.1 k hk
          omega
  · rw [ht]
    refine .inr ⟨rfl, hg, ?_⟩
    intro j hij hjl hmj
    exact hall j (hcover j hij hjl hmj) hmj

theorem matchAt_outcomeP (ctx : Ctx) (op : Op) (H : StraightOK ctx op) (i : Nat)
    (hi : i ≤ ctx.len) (honly : ∀ j, i ≤ j → j ≤ ctx.len → HasP ctx op j → j = i)
    (st : St) (hst : Good op st) : OutcomeP ctx op i (matchAt ctx op i st) := by
  rcases matchAt_casesP ctx op H i hi st hst with ⟨_, st', n, e', he, hres⟩ | ⟨hm, st', he, hg⟩
  · rw [he]
    exact .inl ⟨rfl, i, st, n, e', Nat.le_refl _, hi, fun k h1 h2 => by omega, he, hres⟩
  · rw [he]
    refine .inr ⟨rfl, hg, fun j hij hjl hmj => ?_⟩
    have := honly j hij hjl hmj
    subst this
    exact hm hmj

open SearchComplete in
/-- the "preconditions, then candidates" tail shared by two branches of `matches` -/
theorem pre_thenP {ctx : Ctx} {pr : Prog} (F : SearchFacts ctx pr)
    (hP : ∀ q ∈ pr.pres, CompleteAt ctx q.op ∧ C06.simplePre q.op = true)
    (i : Nat) (st : St) (hst : Good pr.op st) (k : St → Bool × St)
    (hk : ∀ st', Good pr.op st' → OutcomeP ctx pr.op i (k st')) :
    OutcomeP ctx pr.op i
      (match checkPre ctx i pr.pres st with
       | (false, st') => (false, st')
       | (true, st') => k st') := by
  have hcl := checkPre_good ctx pr.op i pr.pres st (fun q hq => (hP q hq).2) hst
  cases h : checkPre ctx i pr.pres st with
  | mk b st' =>
    rw [h] at hcl
    cases b with
    | true => exact hk st' hcl
    | false =>
      refine .inr ⟨rfl, hcl, fun j hij hjl hmj => ?_⟩
      obtain ⟨q, hq⟩ := hmj.has hjl
      have hf := F.pres i j q hij hjl hq
      rcases checkPre_spec i pr.pres st
          (fun p hp => ⟨(hP p hp).1, (quietAll_simplePre ctx p.op (hP p hp).2).quiet⟩)
          (fun p hp => (hf p hp).2) hst.2 with ⟨_, st2, he, _⟩ | ⟨hno, _⟩
      · rw [h] at he; cases he
      · exact hno (fun p hp => (hf p hp).1)

open SearchComplete in
/-- THE SEARCH LOOP on a straight-capture program: with all five shortcuts, `matches(i)` returns the
    right outcome -/
theorem matchesFrom_outcomeP {ctx : Ctx} {pr : Prog} (F : SearchFacts ctx pr) (hlen : ctx.len < usizeMax)
    (H : StraightOK ctx pr.op)
    (hP : ∀ q ∈ pr.pres, CompleteAt ctx q.op ∧ C06.simplePre q.op = true)
    (i : Nat) (hi : i ≤ ctx.len) (st0 : St) (hst0 : st0.panic = none) :
    OutcomeP ctx pr.op i (matchesFrom ctx pr i st0) := by
  unfold matchesFrom
  simp only
  have hst : Good pr.op ({ st0 with cap := {} } : St) := ⟨capsClear_of_nil _ _ rfl rfl, hst0⟩
  generalize ({ st0 with cap := {} } : St) = st at hst
  have hcov : ∀ j, j ≤ ctx.len → HasP ctx pr.op j → ∃ q, OpR ctx pr.op j q := fun j hj h => h.has hj
  by_cases hbol : pr.hasBol = true
  · rw [if_pos hbol]
    cases hml : ctx.multiLine with
    | false =>
      simp only [Bool.not_false, if_true]
      have honly : ∀ j, j ≤ ctx.len → HasP ctx pr.op j → j = 0 := by
        intro j hj hm
        obtain ⟨q, hq⟩ := hcov j hj hm
        rcases F.bol hbol j q hq with h | h
        · exact h
        · rw [hml] at h; cases h.1
      by_cases h0 : i = 0
      · subst h0
        simp only [bne_self_eq_false, Bool.false_eq_true, if_false]
        exact pre_thenP F hP 0 st hst _ (fun st' hc =>
          matchAt_outcomeP ctx pr.op H 0 hi (fun j _ hjl hm => honly j hjl hm) st' hc)
      · have hne : (i != 0) = true := by simp [h0]
        rw [if_pos hne]
        refine .inr ⟨rfl, hst, fun j hij hjl hmj => ?_⟩
        have := honly j hjl hmj
        omega
    | true =>
      simp only [Bool.not_true, Bool.false_eq_true, if_false]
      apply tryCands_outcomeP ctx pr.op H i _ _ _ _ st hst
      · rw [List.pairwise_cons]
        refine ⟨?_, ?_⟩
        · intro a ha
          simp only [List.mem_filter, List.mem_map, decide_eq_true_eq] at ha
          obtain ⟨⟨k, ⟨hk, _⟩, rfl⟩, _⟩ := ha
          have := mem_rangeFrom hk
          omega
        · apply List.Pairwise.filter
          apply List.Pairwise.map _ _ (List.Pairwise.filter _ (rangeFrom_pairwise i ctx.len))
          intro a b hab
          exact Nat.add_lt_add_right hab 1
      · intro j hj
        simp only [List.mem_cons, List.mem_filter, List.mem_map, decide_eq_true_eq] at hj
        rcases hj with rfl | ⟨⟨k, ⟨hk, _⟩, rfl⟩, hlt⟩
        · exact ⟨Nat.le_refl _, hi⟩
        · have := mem_rangeFrom hk
          omega
      · intro j hij hjl hm
        obtain ⟨q, hq⟩ := hcov j hjl hm
        by_cases hji : j = i
        · subst hji; exact List.mem_cons_self
        · apply List.mem_cons_of_mem
          rcases F.bol hbol j q hq with h | ⟨_, hnl, hlt⟩
          · omega
          · simp only [List.mem_filter, List.mem_map, decide_eq_true_eq]
            refine ⟨⟨j - 1, ⟨?_, ?_⟩, by omega⟩, hlt⟩
            · rw [mem_rangeFrom_iff]
              omega
            · simp only [Ctx.nlAt, hnl, beq_self_eq_true]
  · rw [if_neg hbol]
    rw [if_neg (by omega : ¬ i > ctx.len)]
    by_cases hcut : ctx.len - i < pr.minLen
    · rw [if_pos hcut]
      refine .inr ⟨rfl, hst, ?_⟩
      intro j hij hjl hm
      obtain ⟨q, hq⟩ := hcov j hjl hm
      have h1 := F.minLen j q hq
      have h2 := (C01.OpR_bounds ctx pr.op j q hjl hq).2
      omega
    · rw [if_neg hcut]
      cases hpre : pr.prefix_ with
      | some cs =>
        simp only
        have hcs : ¬ cs.length > ctx.len + 1 := by
          rcases F.prefixLen cs hpre with h | h <;> omega
        rw [if_neg hcs]
        apply tryCands_outcomeP ctx pr.op H i _ _ _ _ st hst
        · exact List.Pairwise.filter _ (rangeFrom_pairwise _ _)
        · intro j hj
          simp only [List.mem_filter] at hj
          have := mem_rangeFrom hj.1
          omega
        · intro j hij hjl hm
          obtain ⟨q, hq⟩ := hcov j hjl hm
          obtain ⟨h1, h2⟩ := F.prefix_ cs hpre j q hq
          simp only [List.mem_filter]
          refine ⟨?_, h2⟩
          rw [mem_rangeFrom_iff]
          omega
      | none =>
        simp only
        cases hicc : pr.icc with
        | some rs =>
          simp only
          apply tryCands_outcomeP ctx pr.op H i _ _ _ _ st hst
          · exact List.Pairwise.filter _ (rangeFrom_pairwise _ _)
          · intro j hj
            simp only [List.mem_filter] at hj
            have := mem_rangeFrom hj.1
            omega
          · intro j hij hjl hm
            obtain ⟨q, hq⟩ := hcov j hjl hm
            obtain ⟨c, h1, h2⟩ := F.icc rs hicc j q hq
            simp only [List.mem_filter]
            refine ⟨?_, by rw [h1]; exact h2⟩
            rw [mem_rangeFrom_iff]
            obtain ⟨hlt, _⟩ := List.getElem?_eq_some_iff.1 h1
            exact ⟨hij, hlt⟩
        | none =>
          simp only
          refine pre_thenP F hP i st hst _ (fun st' hc => ?_)
          apply tryCands_outcomeP ctx pr.op H i _ _ _ _ st' hc
          · exact rangeFrom_pairwise _ _
          · intro j hj
            have := mem_rangeFrom hj
            omega
          · intro j hij hjl _
            rw [mem_rangeFrom_iff]
            omega

/-! ## zero-length paths: "reports an empty match somewhere" ⇒ "matches the empty string" -/

/-- every bound span collapsed to `(0, 0)` -/
def CEnv.zero (e : CEnv) : CEnv := fun k => (e k).map (fun _ => (0, 0))

theorem CEnv.zero_set (e : CEnv) (g a b : Nat) : (e.set g a b).zero = e.zero.set g 0 0 := by
  funext k
  simp only [CEnv.zero, CEnv.set]
  split <;> rfl

theorem CEnv.zero_empty : CEnv.empty.zero = CEnv.empty := by
  funext k; rfl

mutual
/-- a zero-length path anywhere in any input gives a zero-length path on the empty input -/
theorem PathR_zero (ctx : Ctx) : (op : Op) → straightCaps op = true → ∀ i e e', i ≤ ctx.len →
    PathR ctx op i e i e' → PathR ctx.onEmpty op 0 e.zero 0 e'.zero
  | .bol, _, i, e, e', _, h => by
    obtain ⟨rfl, hr⟩ := (PathR_plain ctx .bol rfl i e i e').1 h
    exact (PathR_plain _ .bol rfl 0 _ 0 _).2 ⟨rfl, OpR_zero ctx _ i hr⟩
  | .eol, _, i, e, e', _, h => by
    obtain ⟨rfl, hr⟩ := (PathR_plain ctx .eol rfl i e i e').1 h
    exact (PathR_plain _ .eol rfl 0 _ 0 _).2 ⟨rfl, OpR_zero ctx _ i hr⟩
  | .nothing, _, i, e, e', _, h => by
    obtain ⟨rfl, hr⟩ := (PathR_plain ctx .nothing rfl i e i e').1 h
    exact (PathR_plain _ .nothing rfl 0 _ 0 _).2 ⟨rfl, OpR_zero ctx _ i hr⟩
  | .endProgram, _, i, e, e', _, h => by
    obtain ⟨rfl, hr⟩ := (PathR_plain ctx .endProgram rfl i e i e').1 h
    exact (PathR_plain _ .endProgram rfl 0 _ 0 _).2 ⟨rfl, OpR_zero ctx _ i hr⟩
  | .atom cs, _, i, e, e', _, h => by
    obtain ⟨rfl, hr⟩ := (PathR_plain ctx (.atom cs) rfl i e i e').1 h
    exact (PathR_plain _ (.atom cs) rfl 0 _ 0 _).2 ⟨rfl, OpR_zero ctx _ i hr⟩
  | .cls rs, _, i, e, e', _, h => by
    obtain ⟨rfl, hr⟩ := (PathR_plain ctx (.cls rs) rfl i e i e').1 h
    exact (PathR_plain _ (.cls rs) rfl 0 _ 0 _).2 ⟨rfl, OpR_zero ctx _ i hr⟩
  | .choice bs, hs, i, e, e', _, h => by
    have hp : plainOp (.choice bs) = true := by simpa only [straightCaps, plainOp] using hs
    obtain ⟨rfl, hr⟩ := (PathR_plain ctx _ hp i e i e').1 h
    exact (PathR_plain _ _ hp 0 _ 0 _).2 ⟨rfl, OpR_zero ctx _ i hr⟩
  | .gfixed c mn mx l, hs, i, e, e', _, h => by
    have hp : plainOp (.gfixed c mn mx l) = true := by simpa only [straightCaps, plainOp] using hs
    obtain ⟨rfl, hr⟩ := (PathR_plain ctx _ hp i e i e').1 h
    exact (PathR_plain _ _ hp 0 _ 0 _).2 ⟨rfl, OpR_zero ctx _ i hr⟩
  | .rfixed c mn mx l, hs, i, e, e', _, h => by
    have hp : plainOp (.rfixed c mn mx l) = true := by simpa only [straightCaps, plainOp] using hs
    obtain ⟨rfl, hr⟩ := (PathR_plain ctx _ hp i e i e').1 h
    exact (PathR_plain _ _ hp 0 _ 0 _).2 ⟨rfl, OpR_zero ctx _ i hr⟩
  | .rep _ _ _ _ _, hs, _, _, _, _, _ | .unamb _ _ _, hs, _, _, _, _, _ => by simp [straightCaps] at hs
  | .backref g, _, i, e, e', _, h => by
    simp only [PathR] at h ⊢
    obtain ⟨rfl, h⟩ := h
    refine ⟨rfl, ?_⟩
    simp only [CEnv.zero]
    cases hg : e' g with
    | none => simp [BackrefR]
    | some ab => simp [BackrefR, sameText, Ctx.len]
  | .capture g c, hs, i, e, e', hi, h => by
    simp only [straightCaps] at hs
    simp only [PathR] at h ⊢
    obtain ⟨e1, h1, rfl⟩ := h
    exact ⟨e1.zero, PathR_zero ctx c hs i e e1 hi h1, CEnv.zero_set _ _ _ _⟩
  | .seq ops, hs, i, e, e', hi, h => by
    simp only [straightCaps] at hs
    simp only [PathR] at h ⊢
    exact PathRSeq_zero ctx ops hs i e e' hi h
termination_by structural op => op
theorem PathRSeq_zero (ctx : Ctx) : (ops : List Op) → straightCapsL ops = true → ∀ i e e', i ≤ ctx.len →
    PathRSeq ctx ops i e i e' → PathRSeq ctx.onEmpty ops 0 e.zero 0 e'.zero
  | [], _, i, e, e', _, h => by
    simp only [PathRSeq] at h
    simp only [PathRSeq]
    exact ⟨trivial, by rw [h.2]⟩
  | o :: os, hs, i, e, e', hi, h => by
    simp only [straightCapsL, Bool.and_eq_true] at hs
    simp only [PathRSeq] at h ⊢
    obtain ⟨m, e1, h1, h2⟩ := h
    have hb1 := PathR_bounds ctx o hi h1
    have hb2 := OpR_bounds_seq ctx os m i hb1.2 (PathRSeq_OpR ctx os m e1 i e' hb1.2 h2)
    have : m = i := by omega
    subst this
    exact ⟨0, e1.zero, PathR_zero ctx o hs.1 m e e1 hi h1, PathRSeq_zero ctx os hs.2 m e1 e' hi h2⟩
termination_by structural ops => ops
end

/-- no path on the empty input ⇒ no zero-length path anywhere -/
theorem no_zero_path (ctx : Ctx) (op : Op) (hs : straightCaps op = true)
    (hnull : ¬ HasP ctx.onEmpty op 0) (j n : Nat) (e' : CEnv) (hj : j ≤ ctx.len)
    (h : PathR ctx op j CEnv.empty n e') (hjn : j ≤ n) : j < n := by
  rcases Nat.lt_or_ge j n with hlt | hge
  · exact hlt
  · exfalso
    have : n = j := by omega
    subst this
    have hz := PathR_zero ctx op hs n _ _ hj h
    rw [CEnv.zero_empty] at hz
    have hb := PathR_bounds ctx.onEmpty op (Nat.zero_le _) hz
    exact hnull ⟨0, _, hz⟩

/-! ## what `get_paren` answers in the state of a match -/

/-- the text of group `g` on the path `(j, n, e')`: group 0 is the match -/
def grpOf (input : List Nat) (j n : Nat) (e' : CEnv) (g : Nat) : Option (List Nat) :=
  if g = 0 then some (slice input j n) else (e' g).map (fun ab => slice input ab.1 ab.2)

theorem getParen_matchRes {ctx : Ctx} {op : Op} {j n : Nat} {e' : CEnv} {st' : St}
    (h : MatchRes ctx op j n e' st') (input : List Nat) (g : Nat) :
    getParen input st' g = grpOf input j n e' g := by
  unfold getParen grpOf
  by_cases hg : g = 0
  · subst hg
    have := h.reprP.pc0
    rw [if_pos (by omega), h.start0, h.end0]
    simp
  · have hg1 : 1 ≤ g := by omega
    have ha := h.reprP.repr.agree g hg1 (by simp)
    rw [if_neg hg]
    cases he : e' g with
    | none =>
      rw [he] at ha
      simp only [getParenStart, getParenEnd, ha.1, ha.2.1, Option.map_none]
      split <;> rfl
    | some ab =>
      rw [he] at ha
      have hpc := h.reprP.pc g hg1 (by simp) (by rw [he]; rfl)
      simp only [getParenStart, getParenEnd, ha.1, ha.2.1, Option.map_some, if_pos hpc]

/-! ## the span sequence, state-free: least start with a path, first path of the priority order -/

/-- the first match at or after `pos` as the semantics describes it: the least `j ≥ pos` (inside the
    input) from which a path exists, with the first path of the priority order from `j` -/
def firstFrom (ctx : Ctx) (op : Op) : (fuel : Nat) → (pos : Nat) → Option (Nat × Nat × CEnv)
  | 0, _ => none
  | f+1, pos =>
    if pos > ctx.len then none else
    match (enumC ctx op pos CEnv.empty).head? with
    | some x => some (pos, x.1, x.2)
    | none => firstFrom ctx op f (pos + 1)

def firstMatch (ctx : Ctx) (op : Op) (pos : Nat) : Option (Nat × Nat × CEnv) :=
  firstFrom ctx op (ctx.len + 1 - pos) pos

/-- the matches the scan loops see: search from `pos`, then from the end of each match -/
def specSpans (ctx : Ctx) (op : Op) : (fuel : Nat) → (pos : Nat) → List (Nat × Nat × CEnv)
  | 0, _ => []
  | f+1, pos =>
    if pos < ctx.len then
      match firstMatch ctx op pos with
      | some (j, n, e') => (j, n, e') :: specSpans ctx op f n
      | none => []
    else []

theorem hasP_iff (ctx : Ctx) (op : Op) (hs : straightCaps op = true) (hwf : wfOp op = true) (j : Nat)
    (hj : j ≤ ctx.len) : HasP ctx op j ↔ (enumC ctx op j CEnv.empty).head?.isSome = true := by
  constructor
  · rintro ⟨n, e', hp⟩
    have := enumC_complete ctx op hs hwf j CEnv.empty n e' hj hp
    cases hl : enumC ctx op j CEnv.empty with
    | nil => rw [hl] at this; cases this
    | cons x l => rfl
  · intro h
    cases hl : enumC ctx op j CEnv.empty with
    | nil => rw [hl] at h; cases h
    | cons x l =>
      have := enumC_facts ctx j op hs hwf [] j CEnv.empty hj (Nat.le_refl _) (EnvIn.empty _ _) (Dom.nil _) x
        (by rw [hl]; exact List.mem_cons_self)
      exact ⟨x.1, x.2, this.path⟩

theorem firstFrom_some (ctx : Ctx) (op : Op) (hs : straightCaps op = true) (hwf : wfOp op = true)
    (j n : Nat) (e' : CEnv) (hj : j ≤ ctx.len) (hhead : (enumC ctx op j CEnv.empty).head? = some (n, e')) :
    ∀ f pos, pos ≤ j → j + 1 ≤ f + pos → (∀ k, pos ≤ k → k < j → ¬ HasP ctx op k) →
      firstFrom ctx op f pos = some (j, n, e') := by
  intro f
  induction f with
  | zero => intro pos h1 h2 _; omega
  | succ f ih =>
    intro pos h1 h2 hno
    unfold firstFrom
    rw [if_neg (by omega)]
    by_cases hpj : pos = j
    · subst hpj
      rw [hhead]
    · have hn := hno pos (Nat.le_refl _) (by omega)
      rw [hasP_iff ctx op hs hwf pos (by omega)] at hn
      cases hh : (enumC ctx op pos CEnv.empty).head? with
      | some x => rw [hh] at hn; exact absurd rfl hn
      | none =>
        simp only
        exact ih (pos + 1) (by omega) (by omega) (fun k hk1 hk2 => hno k (by omega) hk2)

theorem firstFrom_none (ctx : Ctx) (op : Op) (hs : straightCaps op = true) (hwf : wfOp op = true) :
    ∀ f pos, (∀ k, pos ≤ k → k ≤ ctx.len → ¬ HasP ctx op k) → firstFrom ctx op f pos = none := by
  intro f
  induction f with
  | zero => intro pos _; rfl
  | succ f ih =>
    intro pos hno
    unfold firstFrom
    split
    · rfl
    · rename_i hle
      have hn := hno pos (Nat.le_refl _) (by omega)
      rw [hasP_iff ctx op hs hwf pos (by omega)] at hn
      cases hh : (enumC ctx op pos CEnv.empty).head? with
      | some x => rw [hh] at hn; exact absurd rfl hn
      | none =>
        simp only
        exact ih (pos + 1) (fun k hk1 hk2 => hno k (by omega) hk2)

/-- an outcome of the search loop, read against the state-free description -/
theorem OutcomeP.first {ctx : Ctx} {op : Op} (H : StraightOK ctx op) {i : Nat} {r : Bool × St}
    (h : OutcomeP ctx op i r) :
    (r.1 = true ∧ ∃ j n e', firstMatch ctx op i = some (j, n, e') ∧ i ≤ j ∧ MatchRes ctx op j n e' r.2) ∨
    (r.1 = false ∧ firstMatch ctx op i = none ∧ Good op r.2) := by
  rcases h with ⟨ht, j, stj, n, e', h1, h2, h3, _, hres⟩ | ⟨hf, hg, hno⟩
  · left
    refine ⟨ht, j, n, e', ?_, h1, hres⟩
    exact firstFrom_some ctx op H.straight H.wf j n e' h2 hres.first _ i h1 (by omega) h3
  · right
    exact ⟨hf, firstFrom_none ctx op H.straight H.wf _ i hno, hg⟩

/-! ## the concrete matcher of a straight-capture program -/

/-- everything the lifting needs about a program and an input: the decidable program-side hypotheses
    of C03b (`StraightOK`), the facts `ReProgram::new` records (for this input and for the empty
    input — `SearchComplete.mkProgram_searchFacts`), the shape of the precondition trees, and the
    nullability gate of the API (`is_match("") = false`, what `Regex::new` stores — C16) -/
structure SearchOK (pr : Prog) (lower : Nat → Nat) (input : List Nat) : Prop where
  ok : StraightOK (pr.ctx lower input) pr.op
  facts : SearchComplete.SearchFacts (pr.ctx lower input) pr
  facts0 : SearchComplete.SearchFacts (pr.ctx lower []) pr
  pres : ∀ q ∈ pr.pres, SearchComplete.preShape q.op = true ∧ C06.simplePre q.op = true
  len : input.length < usizeMax
  nonnull : pr.isMatch lower [] = .ok false

namespace SearchOK
variable {pr : Prog} {lower : Nat → Nat} {input : List Nat}

theorem outcome (S : SearchOK pr lower input) (i : Nat) (hi : i ≤ input.length) (st : St)
    (hst : st.panic = none) :
    OutcomeP (pr.ctx lower input) pr.op i (matchesFrom (pr.ctx lower input) pr i st) :=
  matchesFrom_outcomeP S.facts S.len S.ok
    (fun q hq => ⟨SearchComplete.preShape_completeAt _ q.op (S.pres q hq).1, (S.pres q hq).2⟩) i hi st hst

theorem no_empty_path (S : SearchOK pr lower input) : ¬ HasP (pr.ctx lower input).onEmpty pr.op 0 := by
  have H0 : StraightOK (pr.ctx lower []) pr.op :=
    ⟨S.ok.straight, S.ok.wf, S.ok.capsPos, S.ok.scope, S.ok.nodup⟩
  have ho := matchesFrom_outcomeP (ctx := pr.ctx lower []) S.facts0
    (show (0 : Nat) < usizeMax by decide) H0
    (fun q hq => ⟨SearchComplete.preShape_completeAt _ q.op (S.pres q hq).1, (S.pres q hq).2⟩)
    0 (Nat.zero_le _) {} rfl
  have hn := S.nonnull
  unfold Prog.isMatch at hn
  generalize matchesFrom (pr.ctx lower []) pr 0 {} = r at ho hn
  obtain ⟨m, st⟩ := r
  rcases ho with ⟨ht, j, stj, n, e', _, _, _, _, hres⟩ | ⟨_, _, hno⟩
  · simp only at ht hn hres
    subst ht
    rw [hres.clean] at hn
    cases hn
  · exact hno 0 (Nat.le_refl _) (Nat.zero_le _)

/-- one call of `matches(pos)` from a clean state, against the state-free description -/
theorem find_step (S : SearchOK pr lower input) (pos : Nat) (hpos : pos ≤ input.length) (st : St)
    (hst : st.panic = none) :
    (∃ st' j n e', matchesFrom (pr.ctx lower input) pr pos st = (true, st') ∧
        firstMatch (pr.ctx lower input) pr.op pos = some (j, n, e') ∧ pos ≤ j ∧ j < n ∧
        MatchRes (pr.ctx lower input) pr.op j n e' st') ∨
    (∃ st', matchesFrom (pr.ctx lower input) pr pos st = (false, st') ∧
        firstMatch (pr.ctx lower input) pr.op pos = none ∧ st'.panic = none) := by
  have ho := (S.outcome pos hpos st hst).first S.ok
  generalize matchesFrom (pr.ctx lower input) pr pos st = r at ho
  obtain ⟨m, st'⟩ := r
  rcases ho with ⟨ht, j, n, e', h1, h2, hres⟩ | ⟨hf, h1, hg⟩
  · left
    simp only at ht hres
    subst ht
    have hjl : j ≤ (pr.ctx lower input).len := Nat.le_trans hres.le hres.len
    exact ⟨st', j, n, e', rfl, h1, h2,
      no_zero_path _ pr.op S.ok.straight S.no_empty_path j n e' hjl hres.path hres.le, hres⟩
  · right
    simp only at hf hg
    subst hf
    exact ⟨st', rfl, h1, hg.2⟩

/-- the hypothesis of every C04 theorem, for the concrete matcher -/
theorem goodFind (S : SearchOK pr lower input) :
    C04.GoodFind (pr.matcher lower input) input.length (fun st => st.panic = none) := by
  constructor
  intro st pos st' m hinv hpos hfind hfailed
  refine ⟨hfailed, fun hm => ?_⟩
  subst hm
  rcases S.find_step pos hpos st hinv with ⟨st2, j, n, e', he, _, h2, h3, hres⟩ | ⟨st2, he, _⟩
  · have : st2 = st' := by
      have := he.symm.trans hfind
      simpa using this
    subst this
    exact ⟨j, n, hres.start0, hres.end0, h2, h3, hres.len⟩
  · have := he.symm.trans hfind
    simp at this

end SearchOK

/-! ## `replace_all` -/

/-- the text substituted for the match `(j, n, e')`: the replacement string expanded as Spec/Repl
    prescribes, `$N` standing for the text of `e' N` (group 0: the match) -/
def replText (pr : Prog) (input repl : List Nat) (x : Nat × Nat × CEnv) : List Nat :=
  (Spec.expandSpec (pr.maxParens - 1) (grpOf input x.1 x.2.1 x.2.2) repl).getD []

/-- one substitution, in the state of a match -/
theorem subst_matchRes {pr : Prog} {lower : Nat → Nat} {input : List Nat} {j n : Nat} {e' : CEnv} {st' : St}
    (h : MatchRes (pr.ctx lower input) pr.op j n e' st') (repl : List Nat)
    (hmp : pr.maxParens ≠ 0) (hwf : Spec.wfRepl repl = true) (simple : Bool)
    (hsimple : simple = true → Spec.plainRepl repl = true) :
    ∃ s', pr.subst input repl st' simple = some (replText pr input repl (j, n, e'), s') ∧
      (s' = true → Spec.plainRepl repl = true) := by
  have hgrp : getParen input st' = grpOf input j n e' := funext (getParen_matchRes h input)
  have hspec := C15.expand_spec (pr.maxParens - 1) (grpOf input j n e') repl
  cases simple with
  | true =>
    have hp := hsimple rfl
    refine ⟨true, ?_, fun _ => hp⟩
    have := C15.expand_plain (pr.maxParens - 1) (grpOf input j n e') repl hp
    rw [this] at hspec
    simp only [Prog.subst, if_true, replText]
    rw [← hspec]; rfl
  | false =>
    have hmp' : (pr.maxParens == 0) = false := by simp [hmp]
    simp only [Prog.subst, Bool.false_eq_true, if_false, hmp', hgrp]
    have hsome := C15.expand_isSome_iff_wf (pr.maxParens - 1) (grpOf input j n e') repl
    rw [hwf] at hsome
    cases he : expand (pr.maxParens - 1) (grpOf input j n e') repl with
    | none => rw [he] at hsome; cases hsome
    | some r =>
      obtain ⟨t, s'⟩ := r
      rw [he] at hspec
      refine ⟨s', ?_, fun hs => ?_⟩
      · simp only [replText]
        rw [← hspec]; rfl
      · subst hs
        exact (C15.latch_sound _ _ _ _ he).1

/-- **the replace loop over a straight-capture program**: never fails, and its result is the input
    with every match of the state-free span sequence replaced by the expansion of the replacement
    string in the environment of that match -/
theorem replaceLoop_straight {pr : Prog} {lower : Nat → Nat} {input : List Nat} (S : SearchOK pr lower input)
    (repl : List Nat) (hmp : pr.maxParens ≠ 0) (hwf : Spec.wfRepl repl = true) (hlit : pr.literal = false) :
    ∀ (f pos : Nat) (st : St) (first simple : Bool) (acc : List Nat),
    st.panic = none → pos ≤ input.length → input.length + 1 ≤ f + pos →
    (first = true → acc = [] ∧ pos = 0) → (first = false → simple = true → Spec.plainRepl repl = true) →
    replaceLoop (pr.matcher lower input) (pr.subst input repl) input pr.literal f pos st first simple acc =
      .ok (acc ++ Spec.replaced input pos
        ((specSpans (pr.ctx lower input) pr.op f pos).map (fun x => (x.1, x.2.1, replText pr input repl x)))) := by
  intro f
  induction f with
  | zero => intro pos st first simple acc _ hp hf; omega
  | succ f ih =>
    intro pos st first simple acc hst hp hf hfirst hsim
    have hlen : (pr.ctx lower input).len = input.length := rfl
    unfold replaceLoop specSpans
    by_cases hlt : pos < input.length
    · simp only [hlt, if_true, hlen]
      have hfind : (pr.matcher lower input).find st pos = matchesFrom (pr.ctx lower input) pr pos st := rfl
      rw [hfind]
      rcases S.find_step pos hp st hst with ⟨st', j, n, e', he, hfm, hpj, hjn, hres⟩ | ⟨st', he, hfm, hcl⟩
      · rw [he, hfm]
        simp only
        have hfail : (pr.matcher lower input).failed st' = none := hres.clean
        have hs0 : (pr.matcher lower input).start0 st' = some j := hres.start0
        have he0 : (pr.matcher lower input).end0 st' = some n := hres.end0
        rw [hfail, hs0]
        simp only
        rw [if_neg (by omega : ¬ j < pos)]
        obtain ⟨s', hsub, hs'⟩ := subst_matchRes hres repl hmp hwf (if first = true then pr.literal else simple)
          (by
            cases first with
            | true => simp [hlit]
            | false => simpa using hsim rfl)
        rw [hsub, he0]
        simp only
        have hne : (n == pos) = false := by simp; omega
        rw [hne]
        simp only [Bool.false_eq_true, if_false]
        rw [ih n st' false s' _ hres.clean hres.len (by omega) (by simp) (fun _ => hs')]
        simp only [List.map_cons, Spec.replaced, List.append_assoc]
      · rw [he, hfm]
        simp only
        have hfail : (pr.matcher lower input).failed st' = none := hcl
        rw [hfail]
        simp only [C04.first_end input acc pos first hfirst, List.map_nil, Spec.replaced]
    · simp only [hlt, if_false, hlen, C04.first_end input acc pos first hfirst, List.map_nil, Spec.replaced]

theorem firstFrom_sound (ctx : Ctx) (op : Op) : ∀ f pos j n e', firstFrom ctx op f pos = some (j, n, e') →
    pos ≤ j ∧ j ≤ ctx.len ∧ (enumC ctx op j CEnv.empty).head? = some (n, e') ∧
    ∀ k, pos ≤ k → k < j → (enumC ctx op k CEnv.empty).head? = none := by
  intro f
  induction f with
  | zero => intro pos j n e' h; cases h
  | succ f ih =>
    intro pos j n e' h
    unfold firstFrom at h
    split at h
    · cases h
    · rename_i hle
      cases hh : (enumC ctx op pos CEnv.empty).head? with
      | some x =>
        rw [hh] at h
        simp only [Option.some.injEq, Prod.mk.injEq] at h
        obtain ⟨rfl, rfl, rfl⟩ := h
        exact ⟨Nat.le_refl _, by omega, hh, fun k h1 h2 => by omega⟩
      | none =>
        rw [hh] at h
        obtain ⟨h1, h2, h3, h4⟩ := ih (pos + 1) j n e' h
        refine ⟨by omega, h2, h3, fun k hk1 hk2 => ?_⟩
        by_cases hkp : k = pos
        · subst hkp; exact hh
        · exact h4 k (by omega) hk2

/-- a Boolean comparison of programs (to tie a hand-written `mkProgram` to what `Regex::new` builds) -/
def preEq (a b : Pre) : Bool := opEq a.op b.op && (a.fixed == b.fixed) && (a.minPos == b.minPos)

def presEq : List Pre → List Pre → Bool
  | [], [] => true
  | a :: as, b :: bs => preEq a b && presEq as bs
  | _, _ => false

def progEq (a b : Prog) : Bool :=
  opEq a.op b.op && (a.caseBlind == b.caseBlind) && (a.multiLine == b.multiLine) && (a.literal == b.literal) &&
  (a.hasBackrefs == b.hasBackrefs) && (a.hasBol == b.hasBol) && (a.maxParens == b.maxParens) &&
  (a.minLen == b.minLen) && (a.prefix_ == b.prefix_) && (a.icc == b.icc) && presEq a.pres b.pres &&
  (a.pattern == b.pattern)

end Rx
