/-
  Proofs/Clean4CaseLemmas — helpers for Props/Clean4Laws: the mutual inductions of Props/C11c
  (`enum2_inv_op`, `enum2_pat_op`) redone for `enum3` and `enum4`, whose `.rep` node is no longer `[]`
  but the greedy / reluctant iteration of the body's enumeration; `CaseEquivOps` (Props/C11b) already
  relates `.rep` nodes (same id, bounds, greediness, case-equivalent bodies) and `allCls` already
  descends into `.rep`, so no new relation is needed.  Also: `numberReps` preserves both predicates.
-/
import RxModel.Props.C11c
import RxModel.Props.Clean4
namespace Rx.Clean4Case
open Rx Rx.C11b Rx.SearchComplete

theorem enum3_cls_leaf {ctx ctx' : Ctx} (A : Nat → Bool) (hin : CaseEquivInputs ctx.lower ctx.input ctx'.input)
    (hA : Over A ctx.input) (hA' : Over A ctx'.input) (rs : Ranges) (hcl : clsClosedOn A ctx.lower rs) (p : Nat) :
    enum3 ctx (.cls rs) p = enum3 ctx' (.cls rs) p := by
  rcases Nat.lt_or_ge p ctx.input.length with hp | hp
  · have hp' : p < ctx'.input.length := by have := hin.1; omega
    simp only [enum3, List.getElem?_eq_getElem hp, List.getElem?_eq_getElem hp']
    rw [hcl _ _ (hA _ (List.getElem_mem hp)) (hA' _ (List.getElem_mem hp')) (hin.2 p hp hp')]
  · have hp' : ctx'.input.length ≤ p := by have := hin.1; omega
    simp only [enum3, List.getElem?_eq_none hp, List.getElem?_eq_none hp']

mutual
theorem enum3_inv_op (A : Nat → Bool) (ctx ctx' : Ctx) (hs : SameSettings ctx ctx') (hcb : ctx.caseBlind = true)
    (hin : CaseEquivInputs ctx.lower ctx.input ctx'.input) (hA : Over A ctx.input) (hA' : Over A ctx'.input)
    (hnl : NewlineCaseless ctx.lower) :
    (op : Op) → allClsClosedOn A ctx.lower op → ∀ p, enum3 ctx op p = enum3 ctx' op p
  | .bol, _, p => by simp only [enum3, hs.multiLine, len_eq hin, nl_leaf hin hnl]
  | .eol, _, p => by simp only [enum3, hs.multiLine, len_eq hin, nl_leaf hin hnl]
  | .nothing, _, p => by simp only [enum3]
  | .endProgram, _, p => by simp only [enum3]
  | .atom cs, _, p => by simp only [enum3, len_eq hin, atom_leaf hs hcb hin]
  | .cls rs, hc, p => by
    simp only [allClsClosedOn, allCls] at hc
    exact enum3_cls_leaf A hin hA hA' rs hc p
  | .backref _, _, p => by simp only [enum3]
  | .rep _ c mn mx g, hc, p => by
    simp only [allClsClosedOn, allCls] at hc
    have h : enum3 ctx c = enum3 ctx' c := funext (fun a => enum3_inv_op A ctx ctx' hs hcb hin hA hA' hnl c hc a)
    simp only [enum3, h]
  | .capture _ c, hc, p => by
    simp only [allClsClosedOn, allCls] at hc
    simp only [enum3]
    exact enum3_inv_op A ctx ctx' hs hcb hin hA hA' hnl c hc p
  | .choice bs, hc, p => by
    simp only [allClsClosedOn, allCls] at hc
    simp only [enum3]
    exact enum3_inv_any A ctx ctx' hs hcb hin hA hA' hnl bs hc p
  | .seq ops, hc, p => by
    simp only [allClsClosedOn, allCls] at hc
    simp only [enum3]
    exact enum3_inv_seq A ctx ctx' hs hcb hin hA hA' hnl ops hc p
  | .gfixed c mn mx _, hc, p => by
    simp only [allClsClosedOn, allCls] at hc
    have h : enum3 ctx c = enum3 ctx' c := funext (fun a => enum3_inv_op A ctx ctx' hs hcb hin hA hA' hnl c hc a)
    simp only [enum3, h]
  | .rfixed c mn mx _, hc, p => by
    simp only [allClsClosedOn, allCls] at hc
    have h : enum3 ctx c = enum3 ctx' c := funext (fun a => enum3_inv_op A ctx ctx' hs hcb hin hA hA' hnl c hc a)
    simp only [enum3, h]
  | .unamb c mn mx, hc, p => by
    simp only [allClsClosedOn, allCls] at hc
    have h : enum3 ctx c = enum3 ctx' c := funext (fun a => enum3_inv_op A ctx ctx' hs hcb hin hA hA' hnl c hc a)
    simp only [enum3, h]
theorem enum3_inv_any (A : Nat → Bool) (ctx ctx' : Ctx) (hs : SameSettings ctx ctx') (hcb : ctx.caseBlind = true)
    (hin : CaseEquivInputs ctx.lower ctx.input ctx'.input) (hA : Over A ctx.input) (hA' : Over A ctx'.input)
    (hnl : NewlineCaseless ctx.lower) :
    (bs : List Op) → allClsL (clsClosedOn A ctx.lower) bs → ∀ p, enumAny3 ctx bs p = enumAny3 ctx' bs p
  | [], _, p => by simp only [enumAny3]
  | b :: bs, hc, p => by
    simp only [allClsL] at hc
    simp only [enumAny3, enum3_inv_op A ctx ctx' hs hcb hin hA hA' hnl b hc.1 p, enum3_inv_any A ctx ctx' hs hcb hin hA hA' hnl bs hc.2 p]
theorem enum3_inv_seq (A : Nat → Bool) (ctx ctx' : Ctx) (hs : SameSettings ctx ctx') (hcb : ctx.caseBlind = true)
    (hin : CaseEquivInputs ctx.lower ctx.input ctx'.input) (hA : Over A ctx.input) (hA' : Over A ctx'.input)
    (hnl : NewlineCaseless ctx.lower) :
    (ops : List Op) → allClsL (clsClosedOn A ctx.lower) ops → ∀ p, enumSeq3 ctx ops p = enumSeq3 ctx' ops p
  | [], _, p => by simp only [enumSeq3]
  | o :: os, hc, p => by
    simp only [allClsL] at hc
    have h : enumSeq3 ctx os = enumSeq3 ctx' os := funext (fun a => enum3_inv_seq A ctx ctx' hs hcb hin hA hA' hnl os hc.2 a)
    simp only [enumSeq3, enum3_inv_op A ctx ctx' hs hcb hin hA hA' hnl o hc.1 p, h]
end

mutual
theorem enum3_pat_op (ctx : Ctx) (hcb : ctx.caseBlind = true) :
    (op op' : Op) → CaseEquivOps ctx.lower op op' → ∀ p, enum3 ctx op p = enum3 ctx op' p
  | .bol, op', he, p => by
    cases op' <;> simp only [CaseEquivOps] at he
    rfl
  | .eol, op', he, p => by
    cases op' <;> simp only [CaseEquivOps] at he
    rfl
  | .nothing, op', he, p => by
    cases op' <;> simp only [CaseEquivOps] at he
    rfl
  | .endProgram, op', he, p => by
    cases op' <;> simp only [CaseEquivOps] at he
    rfl
  | .atom cs, op', he, p => by
    cases op' <;> simp only [CaseEquivOps] at he
    rename_i ds
    simp only [enum3, he.1,
      CaseL.prefixMatch_case_congr ctx hcb cs ds _ _ he.1 he.2 rfl (fun _ _ _ => C11.eqCB_refl _ _)]
  | .cls rs, op', he, p => by
    cases op' <;> simp only [CaseEquivOps] at he
    subst he
    rfl
  | .backref g, op', he, p => by
    cases op' <;> simp only [CaseEquivOps] at he
    simp only [enum3]
  | .rep id c mn mx gr, op', he, p => by
    cases op' <;> simp only [CaseEquivOps] at he
    obtain ⟨_, rfl, rfl, rfl, hec⟩ := he
    have h := funext (fun a => enum3_pat_op ctx hcb c _ hec a)
    simp only [enum3, h]
  | .capture g c, op', he, p => by
    cases op' <;> simp only [CaseEquivOps] at he
    simp only [enum3]
    exact enum3_pat_op ctx hcb c _ he.2 p
  | .choice bs, op', he, p => by
    cases op' <;> simp only [CaseEquivOps] at he
    simp only [enum3]
    exact enum3_pat_any ctx hcb bs _ he p
  | .seq ops, op', he, p => by
    cases op' <;> simp only [CaseEquivOps] at he
    simp only [enum3]
    exact enum3_pat_seq ctx hcb ops _ he p
  | .gfixed c mn mx len, op', he, p => by
    cases op' <;> simp only [CaseEquivOps] at he
    obtain ⟨rfl, rfl, _, hec⟩ := he
    have h := funext (fun a => enum3_pat_op ctx hcb c _ hec a)
    simp only [enum3, h]
  | .rfixed c mn mx len, op', he, p => by
    cases op' <;> simp only [CaseEquivOps] at he
    obtain ⟨rfl, rfl, _, hec⟩ := he
    have h := funext (fun a => enum3_pat_op ctx hcb c _ hec a)
    simp only [enum3, h]
  | .unamb c mn mx, op', he, p => by
    cases op' <;> simp only [CaseEquivOps] at he
    obtain ⟨rfl, rfl, hec⟩ := he
    have h := funext (fun a => enum3_pat_op ctx hcb c _ hec a)
    simp only [enum3, h]
theorem enum3_pat_any (ctx : Ctx) (hcb : ctx.caseBlind = true) :
    (bs bs' : List Op) → CaseEquivOpsL ctx.lower bs bs' → ∀ p, enumAny3 ctx bs p = enumAny3 ctx bs' p
  | [], bs', he, p => by
    cases bs' <;> simp only [CaseEquivOpsL] at he
    rfl
  | b :: bs, bs', he, p => by
    cases bs' <;> simp only [CaseEquivOpsL] at he
    simp only [enumAny3, enum3_pat_op ctx hcb b _ he.1 p, enum3_pat_any ctx hcb bs _ he.2 p]
theorem enum3_pat_seq (ctx : Ctx) (hcb : ctx.caseBlind = true) :
    (ops ops' : List Op) → CaseEquivOpsL ctx.lower ops ops' → ∀ p, enumSeq3 ctx ops p = enumSeq3 ctx ops' p
  | [], ops', he, p => by
    cases ops' <;> simp only [CaseEquivOpsL] at he
    rfl
  | o :: os, ops', he, p => by
    cases ops' <;> simp only [CaseEquivOpsL] at he
    have h := funext (fun a => enum3_pat_seq ctx hcb os _ he.2 a)
    simp only [enumSeq3, enum3_pat_op ctx hcb o _ he.1 p, h]
end

theorem enum4_cls_leaf {ctx ctx' : Ctx} (A : Nat → Bool) (hin : CaseEquivInputs ctx.lower ctx.input ctx'.input)
    (hA : Over A ctx.input) (hA' : Over A ctx'.input) (rs : Ranges) (hcl : clsClosedOn A ctx.lower rs) (p : Nat) :
    enum4 ctx (.cls rs) p = enum4 ctx' (.cls rs) p := by
  rcases Nat.lt_or_ge p ctx.input.length with hp | hp
  · have hp' : p < ctx'.input.length := by have := hin.1; omega
    simp only [enum4, List.getElem?_eq_getElem hp, List.getElem?_eq_getElem hp']
    rw [hcl _ _ (hA _ (List.getElem_mem hp)) (hA' _ (List.getElem_mem hp')) (hin.2 p hp hp')]
  · have hp' : ctx'.input.length ≤ p := by have := hin.1; omega
    simp only [enum4, List.getElem?_eq_none hp, List.getElem?_eq_none hp']

mutual
theorem enum4_inv_op (A : Nat → Bool) (ctx ctx' : Ctx) (hs : SameSettings ctx ctx') (hcb : ctx.caseBlind = true)
    (hin : CaseEquivInputs ctx.lower ctx.input ctx'.input) (hA : Over A ctx.input) (hA' : Over A ctx'.input)
    (hnl : NewlineCaseless ctx.lower) :
    (op : Op) → allClsClosedOn A ctx.lower op → ∀ p, enum4 ctx op p = enum4 ctx' op p
  | .bol, _, p => by simp only [enum4, hs.multiLine, len_eq hin, nl_leaf hin hnl]
  | .eol, _, p => by simp only [enum4, hs.multiLine, len_eq hin, nl_leaf hin hnl]
  | .nothing, _, p => by simp only [enum4]
  | .endProgram, _, p => by simp only [enum4]
  | .atom cs, _, p => by simp only [enum4, len_eq hin, atom_leaf hs hcb hin]
  | .cls rs, hc, p => by
    simp only [allClsClosedOn, allCls] at hc
    exact enum4_cls_leaf A hin hA hA' rs hc p
  | .backref _, _, p => by simp only [enum4]
  | .rep _ c mn mx g, hc, p => by
    simp only [allClsClosedOn, allCls] at hc
    have h : enum4 ctx c = enum4 ctx' c := funext (fun a => enum4_inv_op A ctx ctx' hs hcb hin hA hA' hnl c hc a)
    simp only [enum4, h]
  | .capture _ c, hc, p => by
    simp only [allClsClosedOn, allCls] at hc
    simp only [enum4]
    exact enum4_inv_op A ctx ctx' hs hcb hin hA hA' hnl c hc p
  | .choice bs, hc, p => by
    simp only [allClsClosedOn, allCls] at hc
    simp only [enum4]
    exact enum4_inv_any A ctx ctx' hs hcb hin hA hA' hnl bs hc p
  | .seq ops, hc, p => by
    simp only [allClsClosedOn, allCls] at hc
    simp only [enum4]
    exact enum4_inv_seq A ctx ctx' hs hcb hin hA hA' hnl ops hc p
  | .gfixed c mn mx _, hc, p => by
    simp only [allClsClosedOn, allCls] at hc
    have h : enum4 ctx c = enum4 ctx' c := funext (fun a => enum4_inv_op A ctx ctx' hs hcb hin hA hA' hnl c hc a)
    simp only [enum4, h]
  | .rfixed c mn mx _, hc, p => by
    simp only [allClsClosedOn, allCls] at hc
    have h : enum4 ctx c = enum4 ctx' c := funext (fun a => enum4_inv_op A ctx ctx' hs hcb hin hA hA' hnl c hc a)
    simp only [enum4, h]
  | .unamb c mn mx, hc, p => by
    simp only [allClsClosedOn, allCls] at hc
    have h : enum4 ctx c = enum4 ctx' c := funext (fun a => enum4_inv_op A ctx ctx' hs hcb hin hA hA' hnl c hc a)
    simp only [enum4, h]
theorem enum4_inv_any (A : Nat → Bool) (ctx ctx' : Ctx) (hs : SameSettings ctx ctx') (hcb : ctx.caseBlind = true)
    (hin : CaseEquivInputs ctx.lower ctx.input ctx'.input) (hA : Over A ctx.input) (hA' : Over A ctx'.input)
    (hnl : NewlineCaseless ctx.lower) :
    (bs : List Op) → allClsL (clsClosedOn A ctx.lower) bs → ∀ p, enumAny4 ctx bs p = enumAny4 ctx' bs p
  | [], _, p => by simp only [enumAny4]
  | b :: bs, hc, p => by
    simp only [allClsL] at hc
    simp only [enumAny4, enum4_inv_op A ctx ctx' hs hcb hin hA hA' hnl b hc.1 p, enum4_inv_any A ctx ctx' hs hcb hin hA hA' hnl bs hc.2 p]
theorem enum4_inv_seq (A : Nat → Bool) (ctx ctx' : Ctx) (hs : SameSettings ctx ctx') (hcb : ctx.caseBlind = true)
    (hin : CaseEquivInputs ctx.lower ctx.input ctx'.input) (hA : Over A ctx.input) (hA' : Over A ctx'.input)
    (hnl : NewlineCaseless ctx.lower) :
    (ops : List Op) → allClsL (clsClosedOn A ctx.lower) ops → ∀ p, enumSeq4 ctx ops p = enumSeq4 ctx' ops p
  | [], _, p => by simp only [enumSeq4]
  | o :: os, hc, p => by
    simp only [allClsL] at hc
    have h : enumSeq4 ctx os = enumSeq4 ctx' os := funext (fun a => enum4_inv_seq A ctx ctx' hs hcb hin hA hA' hnl os hc.2 a)
    simp only [enumSeq4, enum4_inv_op A ctx ctx' hs hcb hin hA hA' hnl o hc.1 p, h]
end

mutual
theorem enum4_pat_op (ctx : Ctx) (hcb : ctx.caseBlind = true) :
    (op op' : Op) → CaseEquivOps ctx.lower op op' → ∀ p, enum4 ctx op p = enum4 ctx op' p
  | .bol, op', he, p => by
    cases op' <;> simp only [CaseEquivOps] at he
    rfl
  | .eol, op', he, p => by
    cases op' <;> simp only [CaseEquivOps] at he
    rfl
  | .nothing, op', he, p => by
    cases op' <;> simp only [CaseEquivOps] at he
    rfl
  | .endProgram, op', he, p => by
    cases op' <;> simp only [CaseEquivOps] at he
    rfl
  | .atom cs, op', he, p => by
    cases op' <;> simp only [CaseEquivOps] at he
    rename_i ds
    simp only [enum4, he.1,
      CaseL.prefixMatch_case_congr ctx hcb cs ds _ _ he.1 he.2 rfl (fun _ _ _ => C11.eqCB_refl _ _)]
  | .cls rs, op', he, p => by
    cases op' <;> simp only [CaseEquivOps] at he
    subst he
    rfl
  | .backref g, op', he, p => by
    cases op' <;> simp only [CaseEquivOps] at he
    simp only [enum4]
  | .rep id c mn mx gr, op', he, p => by
    cases op' <;> simp only [CaseEquivOps] at he
    obtain ⟨_, rfl, rfl, rfl, hec⟩ := he
    have h := funext (fun a => enum4_pat_op ctx hcb c _ hec a)
    simp only [enum4, h]
  | .capture g c, op', he, p => by
    cases op' <;> simp only [CaseEquivOps] at he
    simp only [enum4]
    exact enum4_pat_op ctx hcb c _ he.2 p
  | .choice bs, op', he, p => by
    cases op' <;> simp only [CaseEquivOps] at he
    simp only [enum4]
    exact enum4_pat_any ctx hcb bs _ he p
  | .seq ops, op', he, p => by
    cases op' <;> simp only [CaseEquivOps] at he
    simp only [enum4]
    exact enum4_pat_seq ctx hcb ops _ he p
  | .gfixed c mn mx len, op', he, p => by
    cases op' <;> simp only [CaseEquivOps] at he
    obtain ⟨rfl, rfl, _, hec⟩ := he
    have h := funext (fun a => enum4_pat_op ctx hcb c _ hec a)
    simp only [enum4, h]
  | .rfixed c mn mx len, op', he, p => by
    cases op' <;> simp only [CaseEquivOps] at he
    obtain ⟨rfl, rfl, _, hec⟩ := he
    have h := funext (fun a => enum4_pat_op ctx hcb c _ hec a)
    simp only [enum4, h]
  | .unamb c mn mx, op', he, p => by
    cases op' <;> simp only [CaseEquivOps] at he
    obtain ⟨rfl, rfl, hec⟩ := he
    have h := funext (fun a => enum4_pat_op ctx hcb c _ hec a)
    simp only [enum4, h]
theorem enum4_pat_any (ctx : Ctx) (hcb : ctx.caseBlind = true) :
    (bs bs' : List Op) → CaseEquivOpsL ctx.lower bs bs' → ∀ p, enumAny4 ctx bs p = enumAny4 ctx bs' p
  | [], bs', he, p => by
    cases bs' <;> simp only [CaseEquivOpsL] at he
    rfl
  | b :: bs, bs', he, p => by
    cases bs' <;> simp only [CaseEquivOpsL] at he
    simp only [enumAny4, enum4_pat_op ctx hcb b _ he.1 p, enum4_pat_any ctx hcb bs _ he.2 p]
theorem enum4_pat_seq (ctx : Ctx) (hcb : ctx.caseBlind = true) :
    (ops ops' : List Op) → CaseEquivOpsL ctx.lower ops ops' → ∀ p, enumSeq4 ctx ops p = enumSeq4 ctx ops' p
  | [], ops', he, p => by
    cases ops' <;> simp only [CaseEquivOpsL] at he
    rfl
  | o :: os, ops', he, p => by
    cases ops' <;> simp only [CaseEquivOpsL] at he
    have h := funext (fun a => enum4_pat_seq ctx hcb os _ he.2 a)
    simp only [enumSeq4, enum4_pat_op ctx hcb o _ he.1 p, h]
end

/-! ### `numberReps` (what `mkProgram` applies to the tree) preserves the two predicates -/

mutual
theorem allCls_numberReps (P : Ranges → Prop) : (op : Op) → ∀ n, allCls P (numberReps op n).1 ↔ allCls P op
  | .bol, n | .eol, n | .nothing, n | .endProgram, n => by simp only [numberReps]
  | .atom _, n | .cls _, n | .backref _, n => by simp only [numberReps]
  | .capture g c, n => by simp only [numberReps, allCls]; exact allCls_numberReps P c n
  | .choice bs, n => by simp only [numberReps, allCls]; exact allClsL_numberRepsL P bs n
  | .seq ops, n => by simp only [numberReps, allCls]; exact allClsL_numberRepsL P ops n
  | .rep id c mn mx g, n => by simp only [numberReps, allCls]; exact allCls_numberReps P c (n + 1)
  | .gfixed c mn mx len, n => by simp only [numberReps, allCls]; exact allCls_numberReps P c n
  | .rfixed c mn mx len, n => by simp only [numberReps, allCls]; exact allCls_numberReps P c n
  | .unamb c mn mx, n => by simp only [numberReps, allCls]; exact allCls_numberReps P c n
termination_by structural op => op
theorem allClsL_numberRepsL (P : Ranges → Prop) : (l : List Op) → ∀ n, allClsL P (numberRepsL l n).1 ↔ allClsL P l
  | [], n => by simp only [numberRepsL]
  | o :: os, n => by
    simp only [numberRepsL, allClsL]
    rw [allCls_numberReps P o n, allClsL_numberRepsL P os]
termination_by structural l => l
end

mutual
theorem caseEquiv_numberReps (lower : Nat → Nat) : (op op' : Op) → CaseEquivOps lower op op' → ∀ n,
    CaseEquivOps lower (numberReps op n).1 (numberReps op' n).1 ∧ (numberReps op n).2 = (numberReps op' n).2
  | .bol, op', he, n => by
    cases op' <;> simp only [CaseEquivOps] at he
    simp only [numberReps, CaseEquivOps, and_self]
  | .eol, op', he, n => by
    cases op' <;> simp only [CaseEquivOps] at he
    simp only [numberReps, CaseEquivOps, and_self]
  | .nothing, op', he, n => by
    cases op' <;> simp only [CaseEquivOps] at he
    simp only [numberReps, CaseEquivOps, and_self]
  | .endProgram, op', he, n => by
    cases op' <;> simp only [CaseEquivOps] at he
    simp only [numberReps, CaseEquivOps, and_self]
  | .atom cs, op', he, n => by
    cases op' <;> simp only [CaseEquivOps] at he
    simp only [numberReps, CaseEquivOps, and_true]
    exact he
  | .cls rs, op', he, n => by
    cases op' <;> simp only [CaseEquivOps] at he
    simp only [numberReps, CaseEquivOps, and_true]
    exact he
  | .backref g, op', he, n => by
    cases op' <;> simp only [CaseEquivOps] at he
    simp only [numberReps, CaseEquivOps, and_true]
    exact he
  | .capture g c, op', he, n => by
    cases op' <;> simp only [CaseEquivOps] at he
    have ih := caseEquiv_numberReps lower c _ he.2 n
    simp only [numberReps, CaseEquivOps]
    exact ⟨⟨he.1, ih.1⟩, ih.2⟩
  | .choice bs, op', he, n => by
    cases op' <;> simp only [CaseEquivOps] at he
    have ih := caseEquiv_numberRepsL lower bs _ he n
    simp only [numberReps, CaseEquivOps]
    exact ih
  | .seq ops, op', he, n => by
    cases op' <;> simp only [CaseEquivOps] at he
    have ih := caseEquiv_numberRepsL lower ops _ he n
    simp only [numberReps, CaseEquivOps]
    exact ih
  | .rep id c mn mx gr, op', he, n => by
    cases op' <;> simp only [CaseEquivOps] at he
    obtain ⟨_, h1, h2, h3, hec⟩ := he
    have ih := caseEquiv_numberReps lower c _ hec (n + 1)
    simp only [numberReps, CaseEquivOps]
    exact ⟨⟨trivial, h1, h2, h3, ih.1⟩, ih.2⟩
  | .gfixed c mn mx len, op', he, n => by
    cases op' <;> simp only [CaseEquivOps] at he
    obtain ⟨h1, h2, h3, hec⟩ := he
    have ih := caseEquiv_numberReps lower c _ hec n
    simp only [numberReps, CaseEquivOps]
    exact ⟨⟨h1, h2, h3, ih.1⟩, ih.2⟩
  | .rfixed c mn mx len, op', he, n => by
    cases op' <;> simp only [CaseEquivOps] at he
    obtain ⟨h1, h2, h3, hec⟩ := he
    have ih := caseEquiv_numberReps lower c _ hec n
    simp only [numberReps, CaseEquivOps]
    exact ⟨⟨h1, h2, h3, ih.1⟩, ih.2⟩
  | .unamb c mn mx, op', he, n => by
    cases op' <;> simp only [CaseEquivOps] at he
    obtain ⟨h1, h2, hec⟩ := he
    have ih := caseEquiv_numberReps lower c _ hec n
    simp only [numberReps, CaseEquivOps]
    exact ⟨⟨h1, h2, ih.1⟩, ih.2⟩
theorem caseEquiv_numberRepsL (lower : Nat → Nat) : (l l' : List Op) → CaseEquivOpsL lower l l' → ∀ n,
    CaseEquivOpsL lower (numberRepsL l n).1 (numberRepsL l' n).1 ∧ (numberRepsL l n).2 = (numberRepsL l' n).2
  | [], l', he, n => by
    cases l' <;> simp only [CaseEquivOpsL] at he
    simp only [numberRepsL, CaseEquivOpsL, and_self]
  | o :: os, l', he, n => by
    cases l' <;> simp only [CaseEquivOpsL] at he
    rename_i o' os'
    have ih1 := caseEquiv_numberReps lower o o' he.1 n
    have ih2 := caseEquiv_numberRepsL lower os os' he.2 (numberReps o n).2
    simp only [numberRepsL, CaseEquivOpsL]
    rw [← ih1.2]
    exact ⟨⟨ih1.1, ih2.1⟩, ih2.2⟩
end

/-- the main trees of two programs built from case-equivalent trees are case-equivalent -/
theorem caseEquiv_mkProgram (lower : Nat → Nat) (pat1 pat2 : List Nat) (op1 op2 : Op) (mp : Nat) (fl : CFlags)
    (hb : Bool) (he : CaseEquivOps lower op1 op2) :
    CaseEquivOps lower (mkProgram pat1 op1 mp fl hb).op (mkProgram pat2 op2 mp fl hb).op := by
  rw [(WF.mkProgram_op pat1 op1 mp fl hb).1, (WF.mkProgram_op pat2 op2 mp fl hb).1]
  exact (caseEquiv_numberReps lower op1 op2 he 0).1

theorem allClsClosedOn_mkProgram (A : Nat → Bool) (lower : Nat → Nat) (pat : List Nat) (op : Op) (mp : Nat)
    (fl : CFlags) (hb : Bool) (h : allClsClosedOn A lower op) :
    allClsClosedOn A lower (mkProgram pat op mp fl hb).op := by
  rw [(WF.mkProgram_op pat op mp fl hb).1]
  exact (allCls_numberReps _ op 0).2 h

end Rx.Clean4Case
