/-
  Proofs/Enum3Lemmas — helper lemmas for Props/Clean3: the general greedy repeat over an
  end-deterministic, non-nullable body (Spec/Enum3).
    * `greedyNode_ex`, `repGreedy_ex`    the post-order DFS of `GreedyRepeatIterator` over a body with at
                                         most one end per start yields exactly `greedyIter` (more
                                         iterations first); the force-progress wrapper is the identity on it
    * `repGreedy0_fresh_ex` / `repGreedy0_hit_ex`   `min = 0`: what the iterator yields when the memo
                                         has no entry / has the entry `(id, position)`
    * `nonNull_sound`, `det_op`          the two syntactic tests are sound
    * `sem_ex3_*`, `comp3_*`, `exist3_seq`   the inductions over the tree
-/
import RxModel.Spec.Enum3
import RxModel.Props.Clean2End
namespace Rx
open Rx.C08 (noEmptyAtoms noEmptyAtomsL clsCanon clsCanonL)
open Rx.Clean2End (Progress greedyIter_nodup)

/-! ### the body of a general repeat: at most one end per start, and progress -/

structure DetBody (child : Gen) (e : Nat → List Nat) (L : Nat) : Prop where
  ex : ∀ q, q ≤ L → ∀ st, Step.Ex (child q st) (e q)
  det : ∀ q, q ≤ L → (e q).length ≤ 1
  prog : Progress e L

theorem DetBody.nil_of_end {child : Gen} {e : Nat → List Nat} {L : Nat} (hb : DetBody child e L)
    {q : Nat} (hq : q ≤ L) (h : L ≤ q) : e q = [] := by
  cases hl : e q with
  | nil => rfl
  | cons n t =>
    have := hb.prog q hq n (by rw [hl]; exact List.mem_cons_self)
    omega

/-- `bindFR` over a stream with at most one element: the "later results" continuation is never used -/
theorem Step.Ex.bindFR_det {s : Step} {f g : Nat → St → Step} {l : List Nat} {G : Nat → List Nat}
    (hs : Step.Ex s l) (hl : l.length ≤ 1) (hf : ∀ n, n ∈ l → ∀ st, Step.Ex (f n st) (G n)) :
    Step.Ex (s.bindFR f g) (l.flatMap G) := by
  cases hs with
  | nil st => exact .nil st
  | cons n st r t hr =>
    have ht : t = [] := by
      cases t with
      | nil => rfl
      | cons a b => simp at hl
    subst ht
    simp only [Step.bindFR, List.flatMap_cons, List.flatMap_nil]
    refine Step.Ex.append (hf n List.mem_cons_self st) (fun st' => ?_)
    have := hr st' trivial
    generalize r st' = s' at this
    cases this with
    | nil st'' => exact .nil _

/-! ### the DFS on its primed path -/

/-- how many more iterations the node may push: the primed counter, or `bound - len` on a
    re-extension path -/
def budgetOf (bound len : Nat) : Option Nat → Nat
  | some k => k
  | none => bound - len

theorem greedyNode_ex {child : Gen} {e : Nat → List Nat} {L : Nat} (hb : DetBody child e L)
    (mn bound : Nat) :
    ∀ fuel len pl n st, n ≤ L → L < fuel + n →
      Step.Ex (greedyNode child mn bound fuel len pl n st) (greedyIter e mn (budgetOf bound len pl) len n) := by
  intro fuel
  induction fuel with
  | zero => intro len pl n st hn hf; omega
  | succ f ih =>
    intro len pl n st hn hf
    have tailEx : ∀ st', Step.Ex (if len ≥ mn then Step.once n st' else Step.nil st')
        (if mn ≤ len then [n] else []) := by
      intro st'
      by_cases h : mn ≤ len
      · rw [if_pos h, if_pos h]; exact .once _ _
      · rw [if_neg h, if_neg h]; exact .nil _
    -- the body's (at most one) end, continued one level deeper with budget `b`
    have deepEx : ∀ (b : Nat) (pl' : Option Nat), budgetOf bound (len + 1) pl' = b →
        Step.Ex ((child n st).bindFR
          (fun n2 st2 => greedyNode child mn bound f (len + 1) pl' n2 st2)
          (fun n2 st2 => greedyNode child mn bound f (len + 1) none n2 st2))
          (match e n with
           | [] => []
           | q :: _ => greedyIter e mn b (len + 1) q) := by
      intro b pl' hb'
      have h1 : Step.Ex ((child n st).bindFR
          (fun n2 st2 => greedyNode child mn bound f (len + 1) pl' n2 st2)
          (fun n2 st2 => greedyNode child mn bound f (len + 1) none n2 st2))
          ((e n).flatMap (fun q => greedyIter e mn b (len + 1) q)) := by
        refine Step.Ex.bindFR_det (hb.ex n hn st) (hb.det n hn) (fun q hq st2 => ?_)
        obtain ⟨h1, h2⟩ := hb.prog n hn q hq
        have := ih (len + 1) pl' q st2 h2 (by omega)
        rwa [hb'] at this
      have hd := hb.det n hn
      cases hl : e n with
      | nil => rw [hl] at h1; exact h1
      | cons q t =>
        have : t = [] := by
          cases t with
          | nil => rfl
          | cons a r => rw [hl] at hd; simp at hd
        subst this
        rw [hl] at h1
        simpa using h1
    have zeroCase : budgetOf bound len pl = 0 →
        Step.Ex ((Step.nil st).append (fun st' => if len ≥ mn then Step.once n st' else Step.nil st'))
          (greedyIter e mn (budgetOf bound len pl) len n) := by
      intro h0
      rw [h0]
      simp only [Step.append, greedyIter]
      exact tailEx st
    unfold greedyNode
    cases pl with
    | some k =>
      cases k with
      | zero =>
        simp only [gt_iff_lt, Nat.lt_irrefl, decide_false, Bool.false_eq_true, if_false]
        exact zeroCase rfl
      | succ k =>
        simp only [gt_iff_lt, Nat.zero_lt_succ, decide_true, if_true, Option.map_some, Nat.add_sub_cancel,
          budgetOf, greedyIter]
        exact Step.Ex.append (deepEx k (some k) rfl) tailEx
    | none =>
      by_cases hlt : len < bound
      · simp only [hlt, decide_true, if_true, Option.map_none, budgetOf]
        obtain ⟨b, hb'⟩ : ∃ b, bound - len = b + 1 := ⟨bound - len - 1, by omega⟩
        rw [hb']
        simp only [greedyIter]
        exact Step.Ex.append (deepEx b none (by simp only [budgetOf]; omega)) tailEx
      · simp only [hlt, decide_false, Bool.false_eq_true, if_false]
        exact zeroCase (by simp only [budgetOf]; omega)

/-! ### budgets beyond the end of the input make no difference -/

theorem greedyIter_budget {e : Nat → List Nat} {L : Nat} (hp : Progress e L) (mn : Nat) :
    ∀ N p, p ≤ L → L - p ≤ N → ∀ k b, L - p ≤ b → greedyIter e mn b k p = greedyIter e mn (L - p) k p := by
  intro N
  induction N with
  | zero =>
    intro p hpL hN k b _
    have hd : L - p = 0 := by omega
    have he : e p = [] := by
      cases hl : e p with
      | nil => rfl
      | cons q t =>
        have := hp p hpL q (by rw [hl]; exact List.mem_cons_self)
        omega
    rw [hd]
    cases b with
    | zero => rfl
    | succ b => simp only [greedyIter, he, List.nil_append]
  | succ N ih =>
    intro p hpL hN k b hb
    cases hd : L - p with
    | zero => rw [← hd]; exact ih p hpL (by omega) k b hb
    | succ d =>
      obtain ⟨b', rfl⟩ : ∃ b', b = b' + 1 := ⟨b - 1, by omega⟩
      simp only [greedyIter]
      cases hl : e p with
      | nil => rfl
      | cons q t =>
        obtain ⟨h1, h2⟩ := hp p hpL q (by rw [hl]; exact List.mem_cons_self)
        simp only
        rw [ih q h2 (by omega) (k + 1) b' (by omega), ih q h2 (by omega) (k + 1) d (by omega)]

/-- two budgets beyond the end of the input give the same list -/
theorem greedyIter_budget2 {e : Nat → List Nat} {L : Nat} (hp : Progress e L) (mn : Nat) (p : Nat) (hpL : p ≤ L)
    (k b b' : Nat) (hb : L - p ≤ b) (hb' : L - p ≤ b') : greedyIter e mn b k p = greedyIter e mn b' k p := by
  rw [greedyIter_budget hp mn (L - p) p hpL (Nat.le_refl _) k b hb,
    greedyIter_budget hp mn (L - p) p hpL (Nat.le_refl _) k b' hb']

/-! ### the force-progress wrapper is the identity on streams without five equal ends in a row -/

/-- the counter of `ForceProgressIterator` never exceeds 3 along `l`, started at `(cnt, cur)` -/
def runsOK : Nat → Option Nat → List Nat → Prop
  | _, _, [] => True
  | cnt, cur, n :: t =>
    (if some n == cur then cnt + 1 else 0) ≤ 3 ∧ runsOK (if some n == cur then cnt + 1 else 0) (some n) t

theorem Step.Ex.force {s : Step} {l : List Nat} (hs : Step.Ex s l) :
    ∀ cnt cur, runsOK cnt cur l → Step.Ex (s.force cnt cur) l := by
  induction hs with
  | nil st => intro _ _ _; exact .nil _
  | cons n st r l _ ih =>
    intro cnt cur h
    obtain ⟨h1, h2⟩ := h
    simp only [Step.force]
    refine Step.Ex.cons (fun st' => ?_)
    rw [if_neg (by omega)]
    exact ih st' trivial _ _ h2

theorem runsOK_tail (B : Nat) (rest : List Nat) (H : ∀ c' cur', c' ≤ B → runsOK c' cur' rest) :
    ∀ (t : List Nat) (prev c0 : Nat), t.Nodup → prev ∉ t → c0 ≤ B → runsOK c0 (some prev) (t ++ rest) := by
  intro t
  induction t with
  | nil => intro prev c0 _ _ hc; exact H c0 _ hc
  | cons m t ih =>
    intro prev c0 hnd hp hc
    rw [List.nodup_cons] at hnd
    have hne : m ≠ prev := fun h => hp (h ▸ List.mem_cons_self)
    have hb : (some m == some prev) = false := by simp [hne]
    show (if some m == some prev then c0 + 1 else 0) ≤ 3 ∧ _
    rw [hb]
    exact ⟨Nat.zero_le _, ih m 0 hnd.2 hnd.1 (Nat.zero_le _)⟩

/-- a list without repetition raises the counter by at most one -/
theorem runsOK_nodup (A rest : List Nat) (c : Nat) (cur : Option Nat) (hnd : A.Nodup) (hc : c + 1 ≤ 3)
    (H : ∀ c' cur', c' ≤ c + 1 → runsOK c' cur' rest) : runsOK c cur (A ++ rest) := by
  cases A with
  | nil => exact H c cur (Nat.le_succ c)
  | cons n t =>
    rw [List.nodup_cons] at hnd
    show (if some n == cur then c + 1 else 0) ≤ 3 ∧ _
    have hle : (if some n == cur then c + 1 else 0) ≤ c + 1 := by split <;> omega
    exact ⟨by omega, runsOK_tail (c + 1) rest H t n _ hnd.2 hnd.1 hle⟩

theorem runsOK_nil (c : Nat) (cur : Option Nat) : runsOK c cur [] := trivial

/-! ### `GreedyRepeatIterator` over a deterministic body -/

/-- `min ≥ 1`: no zero-iteration entry, no memo; the iterator yields the ends for the iteration counts
    from the maximal one down to `min` — whatever the matcher state -/
theorem repGreedy_ex {child : Gen} {e : Nat → List Nat} (ctx : Ctx) (hb : DetBody child e ctx.len)
    (id mn mx : Nat) (hmn : 1 ≤ mn) (hmx : 0 < mx) (p : Nat) (hp : p ≤ ctx.len) (st : St) :
    Step.Ex (repGreedyGen ctx id child mn mx p st) (greedyIter e mn mx 0 p) := by
  unfold repGreedyGen
  simp only
  have hm0 : (mn == 0) = false := by simp; omega
  have hbd : (Nat.min mx (ctx.len + 1 - p) == 0) = false := by
    have : 0 < Nat.min mx (ctx.len + 1 - p) := by
      show 0 < min mx (ctx.len + 1 - p)
      rw [Nat.min_def]; split <;> omega
    simp; omega
  rw [hm0]
  simp only [Bool.false_eq_true, if_false, hbd]
  obtain ⟨b, rfl⟩ : ∃ b, mx = b + 1 := ⟨mx - 1, by omega⟩
  have hnd := (greedyIter_nodup hb.prog mn (b + 1) 0 p hp).2
  have hl : greedyIter e mn (b + 1) 0 p =
      (e p).flatMap (fun q => greedyIter e mn (Nat.min (b + 1) (ctx.len + 1 - p) - 1) 1 q) := by
    simp only [greedyIter]
    rw [if_neg (by omega), List.append_nil]
    have hd := hb.det p hp
    cases hlp : e p with
    | nil => rfl
    | cons q t =>
      have : t = [] := by
        cases t with
        | nil => rfl
        | cons a r => rw [hlp] at hd; simp at hd
      subst this
      obtain ⟨h1, h2⟩ := hb.prog p hp q (by rw [hlp]; exact List.mem_cons_self)
      simp only [List.flatMap_cons, List.flatMap_nil, List.append_nil]
      -- `b = mx - 1`: either `mx` is the bound, or the bound is the end of the input
      by_cases hle : b + 1 ≤ ctx.len + 1 - p
      · have : Nat.min (b + 1) (ctx.len + 1 - p) = b + 1 := Nat.min_eq_left hle
        rw [this, Nat.add_sub_cancel]
      · have : Nat.min (b + 1) (ctx.len + 1 - p) = ctx.len + 1 - p := Nat.min_eq_right (by omega)
        rw [this]
        exact greedyIter_budget2 hb.prog mn q h2 1 _ _ (by omega) (by omega)
  rw [hl] at hnd ⊢
  refine Step.Ex.force ?_ 0 none ?_
  · refine Step.Ex.bindFR_det (hb.ex p hp st) (hb.det p hp) (fun q hq st2 => ?_)
    obtain ⟨h1, h2⟩ := hb.prog p hp q hq
    exact greedyNode_ex hb mn _ (ctx.len + 3) 1 (some _) q st2 h2 (by omega)
  · have := runsOK_nodup _ [] 0 none hnd (by omega) (fun c' cur' _ => runsOK_nil c' cur')
    rwa [List.append_nil] at this

theorem greedyIter_k0 (e : Nat → List Nat) : ∀ b k k' p, greedyIter e 0 b k p = greedyIter e 0 b k' p := by
  intro b
  induction b with
  | zero => intro k k' p; simp [greedyIter]
  | succ b ih =>
    intro k k' p
    simp only [greedyIter, Nat.zero_le, if_true]
    cases e p with
    | nil => rfl
    | cons q t => simp only; rw [ih (k + 1) (k' + 1) q]

/-- `min = 0`, the memo has NO entry `(id, position)`: the zero-iteration entry is written to the memo,
    the ends are yielded longest-first down to `position` itself — and then the entry is re-extended and
    everything (up to one iteration less than the bound) is yielded a second time -/
theorem repGreedy0_fresh_ex {child : Gen} {e : Nat → List Nat} (ctx : Ctx) (hb : DetBody child e ctx.len)
    (id mx : Nat) (p : Nat) (hp : p ≤ ctx.len) (st : St) (hm : memPair st.hist id p = false) :
    Step.Ex (repGreedyGen ctx id child 0 mx p st)
      (greedyIter e 0 (Nat.min mx (ctx.len + 1 - p)) 0 p ++
       greedyIter e 0 (Nat.min mx (ctx.len + 1 - p) - 1) 0 p) := by
  unfold repGreedyGen
  simp only [beq_self_eq_true, if_true, hm, Bool.false_eq_true, if_false]
  have hA := (greedyIter_nodup hb.prog 0 (Nat.min mx (ctx.len + 1 - p)) 0 p hp).2
  have hB := (greedyIter_nodup hb.prog 0 (Nat.min mx (ctx.len + 1 - p) - 1) 0 p hp).2
  refine Step.Ex.force ?_ 0 none ?_
  · refine Step.Ex.append ?_ (fun st2 => ?_)
    · have := greedyNode_ex hb 0 (Nat.min mx (ctx.len + 1 - p)) (ctx.len + 3) 1
        (some (Nat.min mx (ctx.len + 1 - p))) p { st with hist := (id, p) :: st.hist } hp (by omega)
      simp only [budgetOf] at this
      rwa [greedyIter_k0 e _ 1 0] at this
    · have := greedyNode_ex hb 0 (Nat.min mx (ctx.len + 1 - p)) (ctx.len + 3) 1 none p st2 hp (by omega)
      simp only [budgetOf] at this
      rwa [greedyIter_k0 e _ 1 0] at this
  · refine runsOK_nodup _ _ 0 none hA (by omega) (fun c' cur' hc' => ?_)
    have := runsOK_nodup _ [] c' cur' hB (by omega) (fun c'' cur'' _ => runsOK_nil c'' cur'')
    rwa [List.append_nil] at this

/-- `min = 0`, the memo HAS the entry `(id, position)`: no zero-iteration entry — the ends for one or
    more iterations only; `position` itself is NOT yielded -/
theorem repGreedy0_hit_ex {child : Gen} {e : Nat → List Nat} (ctx : Ctx) (hb : DetBody child e ctx.len)
    (id mx : Nat) (hmx : 0 < mx) (p : Nat) (hp : p ≤ ctx.len) (st : St) (hm : memPair st.hist id p = true) :
    Step.Ex (repGreedyGen ctx id child 0 mx p st)
      ((e p).flatMap (fun q => greedyIter e 0 (Nat.min mx (ctx.len + 1 - p) - 1) 0 q)) := by
  unfold repGreedyGen
  have hbd : (Nat.min mx (ctx.len + 1 - p) == 0) = false := by
    have : 0 < Nat.min mx (ctx.len + 1 - p) := by
      show 0 < min mx (ctx.len + 1 - p)
      rw [Nat.min_def]; split <;> omega
    simp; omega
  simp only [beq_self_eq_true, if_true, hm, hbd, Bool.false_eq_true, if_false]
  have hex : Step.Ex ((child p st).bindFR
      (fun n st2 => greedyNode child 0 (Nat.min mx (ctx.len + 1 - p)) (ctx.len + 3) 1
        (some (Nat.min mx (ctx.len + 1 - p) - 1)) n st2)
      (fun n st2 => greedyNode child 0 (Nat.min mx (ctx.len + 1 - p)) (ctx.len + 3) 1 none n st2))
      ((e p).flatMap (fun q => greedyIter e 0 (Nat.min mx (ctx.len + 1 - p) - 1) 0 q)) := by
    refine Step.Ex.bindFR_det (hb.ex p hp st) (hb.det p hp) (fun q hq st2 => ?_)
    obtain ⟨h1, h2⟩ := hb.prog p hp q hq
    have := greedyNode_ex hb 0 (Nat.min mx (ctx.len + 1 - p)) (ctx.len + 3) 1
      (some (Nat.min mx (ctx.len + 1 - p) - 1)) q st2 h2 (by omega)
    simp only [budgetOf] at this
    rwa [greedyIter_k0 e _ 1 0] at this
  refine Step.Ex.force hex 0 none ?_
  have hd := hb.det p hp
  cases hl : e p with
  | nil => exact runsOK_nil _ _
  | cons q t =>
    have : t = [] := by
      cases t with
      | nil => rfl
      | cons a r => rw [hl] at hd; simp at hd
    subst this
    obtain ⟨h1, h2⟩ := hb.prog p hp q (by rw [hl]; exact List.mem_cons_self)
    simp only [List.flatMap_cons, List.flatMap_nil, List.append_nil]
    have hB := (greedyIter_nodup hb.prog 0 (Nat.min mx (ctx.len + 1 - p) - 1) 0 q h2).2
    have := runsOK_nodup _ [] 0 none hB (by omega) (fun c'' cur'' _ => runsOK_nil c'' cur'')
    rwa [List.append_nil] at this

/-! ### the syntactic tests are sound -/

theorem iter_pos (ctx : Ctx) (c : Op) (hc : ∀ a b, OpR ctx c a b → a < b) (mn mx : Nat) (hmn : 1 ≤ mn) (p q : Nat)
    (h : ∃ k, mn ≤ k ∧ k ≤ mx ∧ IterR (fun a b => OpR ctx c a b) k p q) : p < q := by
  obtain ⟨k, hk, _, hi⟩ := h
  obtain ⟨k', rfl⟩ : ∃ k', k = k' + 1 := ⟨k - 1, by omega⟩
  obtain ⟨a, ha, hrest⟩ := IterR.uncons hi
  have := hc p a ha
  have := IterR_mono (fun a b => OpR_mono ctx c a b) hrest
  omega

mutual
/-- a syntactically non-nullable tree has only non-empty members -/
theorem nonNull_sound (ctx : Ctx) : (op : Op) → nonNull op = true → ∀ p q, OpR ctx op p q → p < q
  | .bol, h, _, _, _ | .eol, h, _, _, _ | .nothing, h, _, _, _ | .endProgram, h, _, _, _
  | .backref _, h, _, _, _ => by simp [nonNull] at h
  | .atom cs, h, p, q, hr => by
    simp only [nonNull] at h
    simp only [OpR] at hr
    cases cs with
    | nil => simp at h
    | cons a t => simp only [List.length_cons] at hr; omega
  | .cls _, _, p, q, hr => by simp only [OpR] at hr; omega
  | .capture _ c, h, p, q, hr => by
    simp only [nonNull] at h
    simp only [OpR] at hr
    exact nonNull_sound ctx c h p q hr
  | .choice bs, h, p, q, hr => by
    simp only [nonNull] at h
    simp only [OpR] at hr
    exact nonNullAll_sound ctx bs h p q hr
  | .seq ops, h, p, q, hr => by
    simp only [nonNull] at h
    simp only [OpR] at hr
    exact nonNullAny_sound ctx ops h p q hr
  | .gfixed c mn _ _, h, p, q, hr => by
    simp only [nonNull, Bool.and_eq_true, decide_eq_true_eq] at h
    simp only [OpR] at hr
    exact iter_pos ctx c (fun a b => nonNull_sound ctx c h.2 a b) mn _ h.1 p q hr
  | .rfixed c mn _ _, h, p, q, hr => by
    simp only [nonNull, Bool.and_eq_true, decide_eq_true_eq] at h
    simp only [OpR] at hr
    exact iter_pos ctx c (fun a b => nonNull_sound ctx c h.2 a b) mn _ h.1 p q hr
  | .unamb c mn _, h, p, q, hr => by
    simp only [nonNull, Bool.and_eq_true, decide_eq_true_eq] at h
    simp only [OpR] at hr
    exact iter_pos ctx c (fun a b => nonNull_sound ctx c h.2 a b) mn _ h.1 p q hr
  | .rep _ c mn _ _, h, p, q, hr => by
    simp only [nonNull, Bool.and_eq_true, decide_eq_true_eq] at h
    simp only [OpR] at hr
    exact iter_pos ctx c (fun a b => nonNull_sound ctx c h.2 a b) mn _ h.1 p q hr
termination_by structural op => op
theorem nonNullAll_sound (ctx : Ctx) : (bs : List Op) → nonNullAll bs = true → ∀ p q, OpRAny ctx bs p q → p < q
  | [], _, _, _, hr => by simp only [OpRAny] at hr
  | b :: bs, h, p, q, hr => by
    simp only [nonNullAll, Bool.and_eq_true] at h
    simp only [OpRAny] at hr
    rcases hr with hr | hr
    · exact nonNull_sound ctx b h.1 p q hr
    · exact nonNullAll_sound ctx bs h.2 p q hr
termination_by structural bs => bs
theorem nonNullAny_sound (ctx : Ctx) : (ops : List Op) → nonNullAny ops = true → ∀ p q, OpRSeq ctx ops p q → p < q
  | [], h, _, _, _ => by simp [nonNullAny] at h
  | o :: os, h, p, q, hr => by
    simp only [nonNullAny, Bool.or_eq_true] at h
    simp only [OpRSeq] at hr
    obtain ⟨m, h1, h2⟩ := hr
    have m1 := OpR_mono ctx o p m h1
    have m2 := OpRSeq_mono ctx os m q h2
    rcases h with h | h
    · have := nonNull_sound ctx o h p m h1; omega
    · have := nonNullAny_sound ctx os h m q h2; omega
termination_by structural ops => ops
end

/-! ### end-determinism -/

theorem greedyIter_exact_len (e : Nat → List Nat) (mn : Nat) : ∀ b k p, mn = k + b →
    (greedyIter e mn b k p).length ≤ 1 := by
  intro b
  induction b with
  | zero => intro k p _; simp only [greedyIter]; split <;> simp
  | succ b ih =>
    intro k p h
    simp only [greedyIter]
    rw [if_neg (by omega), List.append_nil]
    cases e p with
    | nil => simp
    | cons q t => exact ih (k + 1) q (by omega)

theorem reluctIter_exact_len (e : Nat → List Nat) (mn : Nat) : ∀ b k p, mn = k + b →
    (reluctIter e mn b k p).length ≤ 1 := by
  intro b
  induction b with
  | zero => intro k p _; simp only [reluctIter]; split <;> simp
  | succ b ih =>
    intro k p h
    simp only [reluctIter]
    rw [if_neg (by omega), List.nil_append]
    cases e p with
    | nil => simp
    | cons q t => exact ih (k + 1) q (by omega)

theorem mem_enumAny2 (ctx : Ctx) : ∀ (bs : List Op) (p y : Nat), y ∈ enumAny2 ctx bs p →
    ∃ b, b ∈ bs ∧ y ∈ enum2 ctx b p
  | [], _, _, h => by simp [enumAny2] at h
  | b :: bs, p, y, h => by
    simp only [enumAny2, List.mem_append] at h
    rcases h with h | h
    · exact ⟨b, List.mem_cons_self, h⟩
    · obtain ⟨b', hb', hy⟩ := mem_enumAny2 ctx bs p y h
      exact ⟨b', List.mem_cons_of_mem _ hb', hy⟩

/-- what the list predicates say about a member -/
theorem branch_facts (env : Env) (cb ml : Bool) : ∀ (bs : List Op), cleanAll2 env cb ml bs = true →
    detChoice env cb bs = true → wfOps bs = true → noEmptyAtomsL bs = true → clsCanonL bs →
    ∀ b, b ∈ bs → shape2 b = true ∧ nonNull b = true ∧ wfOp b = true ∧ noEmptyAtoms b = true ∧ clsCanon b
  | [], _, _, _, _, _, b, hb => by cases hb
  | a :: bs, hc, hd, hw, hn, hcc, b, hb => by
    simp only [cleanAll2, Bool.and_eq_true] at hc
    simp only [detChoice, Bool.and_eq_true] at hd
    simp only [wfOps, Bool.and_eq_true] at hw
    simp only [noEmptyAtomsL, Bool.and_eq_true] at hn
    simp only [clsCanonL] at hcc
    rcases List.mem_cons.1 hb with rfl | hb
    · exact ⟨shape_of_clean2 env cb ml b _ _ hc.1, hd.1.1.2, hw.1, hn.1, hcc.1⟩
    · exact branch_facts env cb ml bs hc.2 hd.2 hw.2 hn.2 hcc.2 b hb

/-- two alternatives with disjoint first sets, both non-nullable, cannot both match from `p` -/
theorem disjoint_exclusive (env : Env) (ctx : Ctx) (hI : InputOK env ctx) (b b' : Op)
    (hcb : clsCanon b) (hcb' : clsCanon b') (hnb : nonNull b = true) (hnb' : nonNull b' = true)
    (hd : isDisjoint (initialClass env ctx.caseBlind b) (initialClass env ctx.caseBlind b') = true)
    (p x y : Nat) (hp : p ≤ ctx.len) (h1 : OpR ctx b p x) (h2 : OpR ctx b' p y) : False := by
  obtain ⟨c1, hc1, hm1⟩ := C08.initialClass_sound env ctx hI.hcase hI.hce hI.hin b hcb p x hp h1
    (nonNull_sound ctx b hnb p x h1)
  obtain ⟨c2, hc2, hm2⟩ := C08.initialClass_sound env ctx hI.hcase hI.hce hI.hin b' hcb' p y hp h2
    (nonNull_sound ctx b' hnb' p y h2)
  rw [hc1] at hc2
  cases hc2
  have hmem : c1 ∈ ctx.input := List.mem_of_getElem? hc1
  have := C09.isDisjoint_sound _ _ (C08.initialClass_canon env ctx.caseBlind hI.hce b' hcb') hd c1
    (hI.hsc c1 hmem) hm2
  rw [hm1] at this
  cases this

mutual
theorem det_op (env : Env) (ctx : Ctx) (hI : InputOK env ctx) : (c : Op) → ∀ top F,
    cleanOp2F env ctx.caseBlind ctx.multiLine top F c = true → detB env ctx.caseBlind c = true →
    wfOp c = true → noEmptyAtoms c = true → clsCanon c →
    ∀ p, p ≤ ctx.len → (enum2 ctx c p).length ≤ 1
  | .bol, _, _, _, _, _, _, _, p, _ => by simp only [enum2]; split <;> simp
  | .eol, _, _, _, _, _, _, _, p, _ => by simp only [enum2]; split <;> simp
  | .nothing, _, _, _, _, _, _, _, p, _ => by simp [enum2]
  | .endProgram, _, _, _, _, _, _, _, p, _ => by simp [enum2]
  | .atom cs, _, _, _, _, _, _, _, p, _ => by simp only [enum2]; split <;> simp
  | .cls rs, _, _, _, _, _, _, _, p, _ => by
    simp only [enum2]
    cases ctx.input[p]? with
    | none => simp
    | some c => simp only; split <;> simp
  | .unamb x mn mx, _, _, _, _, _, _, _, p, _ => by simp only [enum2]; split <;> simp
  | .backref _, _, _, hc, _, _, _, _, _, _ => by simp [cleanOp2F] at hc
  | .rep _ _ _ _ _, _, _, hc, _, _, _, _, _, _ => by simp [cleanOp2F] at hc
  | .capture g c, _, _, hc, hd, hw, hn, hcc, p, hp => by
    simp only [cleanOp2F] at hc
    simp only [detB] at hd
    simp only [wfOp] at hw
    simp only [noEmptyAtoms] at hn
    simp only [clsCanon] at hcc
    simp only [enum2]
    exact det_op env ctx hI c _ _ hc hd hw hn hcc p hp
  | .choice bs, _, _, hc, hd, hw, hn, hcc, p, hp => by
    simp only [cleanOp2F] at hc
    simp only [detB] at hd
    simp only [wfOp, Bool.and_eq_true] at hw
    simp only [noEmptyAtoms] at hn
    simp only [clsCanon] at hcc
    simp only [enum2]
    exact det_choice env ctx hI bs hc hd hw.2 hn hcc p hp
  | .seq ops, _, _, hc, hd, hw, hn, hcc, p, hp => by
    simp only [cleanOp2F] at hc
    simp only [detB] at hd
    simp only [wfOp, Bool.and_eq_true] at hw
    simp only [noEmptyAtoms] at hn
    simp only [clsCanon] at hcc
    simp only [enum2]
    exact det_seq env ctx hI ops false hc hd hw.2 hn hcc p hp
  | .gfixed c mn mx len, _, _, _, hd, _, _, _, p, _ => by
    simp only [detB, Bool.and_eq_true, beq_iff_eq] at hd
    simp only [enum2]
    exact greedyIter_exact_len _ mn mx 0 p (by omega)
  | .rfixed c mn mx len, _, _, _, hd, _, _, _, p, _ => by
    simp only [detB, Bool.and_eq_true, beq_iff_eq] at hd
    simp only [enum2]
    exact reluctIter_exact_len _ mn mx 0 p (by omega)
termination_by structural c => c
theorem det_choice (env : Env) (ctx : Ctx) (hI : InputOK env ctx) : (bs : List Op) →
    cleanAll2 env ctx.caseBlind ctx.multiLine bs = true → detChoice env ctx.caseBlind bs = true →
    wfOps bs = true → noEmptyAtomsL bs = true → clsCanonL bs →
    ∀ p, p ≤ ctx.len → (enumAny2 ctx bs p).length ≤ 1
  | [], _, _, _, _, _, p, _ => by simp [enumAny2]
  | b :: bs, hc, hd, hw, hn, hcc, p, hp => by
    have hfacts := branch_facts env ctx.caseBlind ctx.multiLine bs
    simp only [cleanAll2, Bool.and_eq_true] at hc
    simp only [detChoice, Bool.and_eq_true, List.all_eq_true] at hd
    simp only [wfOps, Bool.and_eq_true] at hw
    simp only [noEmptyAtomsL, Bool.and_eq_true] at hn
    simp only [clsCanonL] at hcc
    have ih := det_choice env ctx hI bs hc.2 hd.2 hw.2 hn.2 hcc.2 p hp
    have hb := det_op env ctx hI b _ _ hc.1 hd.1.1.1 hw.1 hn.1 hcc.1 p hp
    simp only [enumAny2, List.length_append]
    cases hl : enum2 ctx b p with
    | nil => simpa using ih
    | cons x t =>
      have hrest : enumAny2 ctx bs p = [] := by
        cases hr : enumAny2 ctx bs p with
        | nil => rfl
        | cons y t' =>
          exfalso
          obtain ⟨b', hb', hy⟩ := mem_enumAny2 ctx bs p y (by rw [hr]; exact List.mem_cons_self)
          obtain ⟨f1, f2, f3, f4, f5⟩ := hfacts hc.2 hd.2 hw.2 hn.2 hcc.2 b' hb'
          have hx : OpR ctx b p x := enum2_sound_of_shape ctx b (shape_of_clean2 env _ _ b _ _ hc.1) hw.1 hn.1 hp
            (by rw [hl]; exact List.mem_cons_self)
          have hy' : OpR ctx b' p y := enum2_sound_of_shape ctx b' f1 f3 f4 hp hy
          exact disjoint_exclusive env ctx hI b b' hcc.1 f5 hd.1.1.2 f2 (hd.1.2 b' hb') p x y hp hx hy'
      rw [hl] at hb
      rw [hrest]
      simpa using hb
termination_by structural bs => bs
theorem det_seq (env : Env) (ctx : Ctx) (hI : InputOK env ctx) : (ops : List Op) → ∀ top,
    cleanSeq2 env ctx.caseBlind ctx.multiLine top ops = true → detAll env ctx.caseBlind ops = true →
    wfOps ops = true → noEmptyAtomsL ops = true → clsCanonL ops →
    ∀ p, p ≤ ctx.len → (enumSeq2 ctx ops p).length ≤ 1
  | [], _, _, _, _, _, _, p, _ => by simp [enumSeq2]
  | o :: os, top, hc, hd, hw, hn, hcc, p, hp => by
    simp only [cleanSeq2, Bool.and_eq_true] at hc
    simp only [detAll, Bool.and_eq_true] at hd
    simp only [wfOps, Bool.and_eq_true] at hw
    simp only [noEmptyAtomsL, Bool.and_eq_true] at hn
    simp only [clsCanonL] at hcc
    have ho := det_op env ctx hI o _ _ hc.1 hd.1 hw.1 hn.1 hcc.1 p hp
    simp only [enumSeq2]
    cases hl : enum2 ctx o p with
    | nil => simp
    | cons x t =>
      have : t = [] := by
        cases t with
        | nil => rfl
        | cons a r => rw [hl] at ho; simp at ho
      subst this
      have hx : OpR ctx o p x := enum2_sound_of_shape ctx o (shape_of_clean2 env _ _ o _ _ hc.1) hw.1 hn.1 hp
        (by rw [hl]; exact List.mem_cons_self)
      have hxL := (OpR_bounds_op ctx o p x hp hx).2
      simp only [List.flatMap_cons, List.flatMap_nil, List.append_nil]
      exact det_seq env ctx hI os top hc.2 hd.2 hw.2 hn.2 hcc.2 x hxL
termination_by structural ops => ops
end

/-! ### on rep-free trees `enum3` is `enum2` -/

mutual
theorem enum3_eq_enum2 (ctx : Ctx) : (op : Op) → shape2 op = true → enum3 ctx op = enum2 ctx op
  | .bol, _ => by funext p; simp only [enum3, enum2]
  | .eol, _ => by funext p; simp only [enum3, enum2]
  | .nothing, _ => by funext p; simp only [enum3, enum2]
  | .endProgram, _ => by funext p; simp only [enum3, enum2]
  | .atom _, _ => by funext p; simp only [enum3, enum2]
  | .cls _, _ => by funext p; simp only [enum3, enum2]; cases ctx.input[p]? <;> rfl
  | .backref _, h | .rep _ _ _ _ _, h => by simp [shape2] at h
  | .unamb x mn mx, h => by
    simp only [shape2] at h
    have : shape2 x = true := by cases x <;> first | rfl | (simp [isAtomOrClass] at h)
    funext p; simp only [enum3, enum2]; rw [enum3_eq_enum2 ctx x this]
  | .capture _ c, h => by
    simp only [shape2] at h
    funext p; simp only [enum3, enum2]; rw [enum3_eq_enum2 ctx c h]
  | .choice bs, h => by
    simp only [shape2] at h
    funext p; simp only [enum3, enum2]; rw [enumAny3_eq ctx bs h]
  | .seq ops, h => by
    simp only [shape2] at h
    funext p; simp only [enum3, enum2]; rw [enumSeq3_eq ctx ops h]
  | .gfixed c _ _ _, h => by
    simp only [shape2] at h
    funext p; simp only [enum3, enum2]; rw [enum3_eq_enum2 ctx c h]
  | .rfixed c _ _ _, h => by
    simp only [shape2] at h
    funext p; simp only [enum3, enum2]; rw [enum3_eq_enum2 ctx c h]
termination_by structural op => op
theorem enumAny3_eq (ctx : Ctx) : (bs : List Op) → shape2L bs = true → enumAny3 ctx bs = enumAny2 ctx bs
  | [], _ => by funext p; simp only [enumAny3, enumAny2]
  | b :: bs, h => by
    simp only [shape2L, Bool.and_eq_true] at h
    funext p; simp only [enumAny3, enumAny2]; rw [enum3_eq_enum2 ctx b h.1, enumAny3_eq ctx bs h.2]
termination_by structural bs => bs
theorem enumSeq3_eq (ctx : Ctx) : (ops : List Op) → shape2L ops = true → enumSeq3 ctx ops = enumSeq2 ctx ops
  | [], _ => by funext p; simp only [enumSeq3, enumSeq2]
  | o :: os, h => by
    simp only [shape2L, Bool.and_eq_true] at h
    funext p; simp only [enumSeq3, enumSeq2]; rw [enum3_eq_enum2 ctx o h.1, enumSeq3_eq ctx os h.2]
termination_by structural ops => ops
end

/-! ### the body of an admitted repeat -/

/-- the conditions on the body of `.rep id c mn mx true`, unfolded -/
structure RepOK (env : Env) (ctx : Ctx) (c : Op) (mn mx : Nat) : Prop where
  mn1 : 1 ≤ mn
  mnmx : mn ≤ mx
  mx0 : 0 < mx
  clean : cleanOp2 env ctx.caseBlind ctx.multiLine c = true
  nn : nonNull c = true
  det : detB env ctx.caseBlind c = true
  wf : wfOp c = true
  ne : noEmptyAtoms c = true
  can : clsCanon c

theorem repOK_of {env : Env} {ctx : Ctx} {id : Nat} {c : Op} {mn mx : Nat} {g top : Bool} {F : List Op}
    (hc : cleanOp3F env ctx.caseBlind ctx.multiLine top F (.rep id c mn mx g) = true)
    (hw : wfOp (.rep id c mn mx g) = true) (hn : noEmptyAtoms (.rep id c mn mx g) = true)
    (hcc : clsCanon (.rep id c mn mx g)) : g = true ∧ RepOK env ctx c mn mx := by
  simp only [cleanOp3F, Bool.and_eq_true, decide_eq_true_eq] at hc
  simp only [wfOp, Bool.and_eq_true, decide_eq_true_eq] at hw
  simp only [noEmptyAtoms] at hn
  simp only [clsCanon] at hcc
  exact ⟨hc.1.1.1.1, hc.1.1.1.2, hw.1.2, hw.2, hc.1.1.2, hc.1.2, hc.2, hw.1.1, hn, hcc⟩

theorem detBody_of (env : Env) (ctx : Ctx) (hI : InputOK env ctx) {c : Op} {mn mx : Nat}
    (h : RepOK env ctx c mn mx) : DetBody (sem ctx c) (enum3 ctx c) ctx.len := by
  have hs := shape_of_clean2 env _ _ c _ _ h.clean
  rw [enum3_eq_enum2 ctx c hs]
  refine ⟨fun q hq st => sem_ex2_op ctx c hs h.wf h.ne q hq st,
    fun q hq => det_op env ctx hI c _ _ h.clean h.det h.wf h.ne h.can q hq, ?_⟩
  intro q hq n hn
  have hr := enum2_sound_of_shape ctx c hs h.wf h.ne hq hn
  exact ⟨nonNull_sound ctx c h.nn q n hr, (OpR_bounds_op ctx c q n hq hr).2⟩

/-- the relation of the body is decided by the head of its enumeration -/
theorem headDet_body (env : Env) (ctx : Ctx) (hI : InputOK env ctx) {c : Op} {mn mx : Nat}
    (h : RepOK env ctx c mn mx) : HeadDet (fun a b => OpR ctx c a b) (enum3 ctx c) ctx.len := by
  have hs := shape_of_clean2 env _ _ c _ _ h.clean
  have hd := detBody_of env ctx hI h
  constructor
  intro a ha b hr
  have hmem : b ∈ enum3 ctx c a := by
    rw [enum3_eq_enum2 ctx c hs]
    exact comp2_op env ctx hI c h.clean h.wf h.ne h.can a b ha hr
  have hb := (OpR_bounds_op ctx c a b ha hr).2
  have hl := hd.det a ha
  cases hle : enum3 ctx c a with
  | nil => rw [hle] at hmem; cases hmem
  | cons x t =>
    have : t = [] := by
      cases t with
      | nil => rfl
      | cons y r => rw [hle] at hl; simp at hl
    subst this
    rw [hle] at hmem
    have hbx : b = x := List.mem_singleton.1 hmem
    subst hbx
    exact ⟨⟨[], rfl⟩, hb⟩

/-! ### the tree: `sem` yields exactly `enum3` -/

theorem fixedBody3_of (ctx : Ctx) (c : Op) (len : Nat) (hwc : wfOp c = true) (hml : matchLen c = some len)
    (hlen0 : 0 < len) (hlen1 : len < usizeMax)
    (hex : ∀ q, q ≤ ctx.len → ∀ st, Step.Ex (sem ctx c q st) (enum3 ctx c q)) :
    FixedBody (sem ctx c) (enum3 ctx c) len ctx.len where
  pos := hlen0
  ex := hex
  fixed := by
    intro q hq n hn
    have h := hex q hq {}
    exact ⟨h.all (matchLen_sound_op ctx c hwc len hml hlen1 q {}) n hn, (ex_sound ctx c hwc hq h n hn).2⟩

theorem cleanOp3F_irrel (env : Env) (cb ml top : Bool) (F : List Op) (o : Op) (h : ¬ isUnamb o = true) :
    cleanOp3F env cb ml top F o = cleanOp3F env cb ml false [] o := by
  cases o with
  | unamb x mn mx => exact absurd rfl h
  | _ => simp only [cleanOp3F]

theorem cleanOp3F_unamb (env : Env) (cb ml top : Bool) (F : List Op) (x : Op) (mn mx : Nat) :
    cleanOp3F env cb ml top F (.unamb x mn mx) = cleanOp2F env cb ml top F (.unamb x mn mx) := by
  simp only [cleanOp3F, cleanOp2F]

theorem enum3_unamb (ctx : Ctx) (x : Op) (mn mx : Nat) (hx : isAtomOrClass x = true) :
    enum3 ctx (.unamb x mn mx) = enum2 ctx (.unamb x mn mx) :=
  enum3_eq_enum2 ctx _ (by simp only [shape2]; exact hx)

mutual
theorem sem_ex3_op (env : Env) (ctx : Ctx) (hI : InputOK env ctx) : (op : Op) → ∀ top F,
    cleanOp3F env ctx.caseBlind ctx.multiLine top F op = true → wfOp op = true →
    noEmptyAtoms op = true → clsCanon op →
    ∀ p, p ≤ ctx.len → ∀ st, Step.Ex (sem ctx op p st) (enum3 ctx op p)
  | .bol, _, _, _, _, _, _, p, _, st => by simp only [sem]; exact bolGen_ex ctx p st
  | .eol, _, _, _, _, _, _, p, _, st => by simp only [sem]; exact eolGen_ex ctx p st
  | .nothing, _, _, _, _, _, _, p, _, st => by simp only [sem]; exact nothingGen_ex ctx p st
  | .endProgram, _, _, _, _, _, _, p, _, st => by simp only [sem]; exact endGen_ex ctx p st
  | .atom cs, _, _, _, _, _, _, p, _, st => by simp only [sem]; exact atomGen_ex ctx cs p st
  | .cls rs, _, _, _, _, _, _, p, _, st => by simp only [sem]; exact clsGen_ex ctx rs p st
  | .backref _, _, _, hc, _, _, _, _, _, _ => by simp [cleanOp3F] at hc
  | .rep id c mn mx g, _, _, hc, hwf, hne, hcc, p, hp, st => by
    obtain ⟨rfl, hr⟩ := repOK_of hc hwf hne hcc
    simp only [sem, if_true, enum3]
    exact repGreedy_ex ctx (detBody_of env ctx hI hr) id mn mx hr.mn1 hr.mx0 p hp st
  | .unamb x mn mx, _, _, hc, hwf, hne, _, p, hp, st => by
    simp only [cleanOp3F, Bool.and_eq_true] at hc
    simp only [noEmptyAtoms] at hne
    obtain ⟨len, hb⟩ := leaf_fixedBody ctx x hc.1 hne
    rw [enum3_unamb ctx x mn mx hc.1]
    simp only [sem, enum2]
    exact unambGen_ex ctx hb mn mx p hp st
  | .capture g c, _, _, hc, hwf, hne, hcc, p, hp, st => by
    simp only [cleanOp3F] at hc
    simp only [wfOp] at hwf
    simp only [noEmptyAtoms] at hne
    simp only [clsCanon] at hcc
    simp only [sem, enum3]
    exact captureGen_ex (fun st' => sem_ex3_op env ctx hI c _ _ hc hwf hne hcc p hp st') ctx g st
  | .choice bs, _, _, hc, hwf, hne, hcc, p, hp, st => by
    simp only [cleanOp3F] at hc
    simp only [wfOp, Bool.and_eq_true] at hwf
    simp only [noEmptyAtoms] at hne
    simp only [clsCanon] at hcc
    simp only [sem, enum3]
    exact sem_ex3_any env ctx hI bs hc hwf.2 hne hcc p hp st
  | .seq ops, _, _, hc, hwf, hne, hcc, p, hp, st => by
    simp only [cleanOp3F] at hc
    simp only [wfOp, Bool.and_eq_true, Bool.not_eq_true', List.isEmpty_eq_false_iff] at hwf
    simp only [noEmptyAtoms] at hne
    simp only [clsCanon] at hcc
    simp only [sem, enum3]
    exact seqGen_ex (fun st' => sem_ex3_seq env ctx hI ops false hwf.1 hc hwf.2 hne hcc p hp st') _ st
  | .gfixed c mn mx len, _, _, hc, hwf, hne, hcc, p, hp, st => by
    simp only [cleanOp3F] at hc
    simp only [wfOp, Bool.and_eq_true, decide_eq_true_eq, beq_iff_eq] at hwf
    obtain ⟨⟨⟨⟨⟨hwc, hml⟩, hlen0⟩, hlen1⟩, _⟩, hmx⟩ := hwf
    simp only [noEmptyAtoms] at hne
    simp only [clsCanon] at hcc
    simp only [sem, enum3]
    exact gfixedGen_ex ctx
      (fixedBody3_of ctx c len hwc hml hlen0 hlen1
        (fun q hq st' => sem_ex3_op env ctx hI c _ _ hc hwc hne hcc q hq st'))
      mn mx hmx p hp st
  | .rfixed c mn mx len, _, _, hc, hwf, hne, hcc, p, hp, st => by
    simp only [cleanOp3F] at hc
    simp only [wfOp, Bool.and_eq_true, decide_eq_true_eq, beq_iff_eq] at hwf
    obtain ⟨⟨⟨⟨⟨hwc, hml⟩, hlen0⟩, hlen1⟩, hmm⟩, _⟩ := hwf
    simp only [noEmptyAtoms] at hne
    simp only [clsCanon] at hcc
    simp only [sem, enum3]
    exact rfixedGen_ex ctx
      (fixedBody3_of ctx c len hwc hml hlen0 hlen1
        (fun q hq st' => sem_ex3_op env ctx hI c _ _ hc hwc hne hcc q hq st'))
      mn mx hmm p hp st
termination_by structural op => op
theorem sem_ex3_any (env : Env) (ctx : Ctx) (hI : InputOK env ctx) : (bs : List Op) →
    cleanAll3 env ctx.caseBlind ctx.multiLine bs = true → wfOps bs = true →
    noEmptyAtomsL bs = true → clsCanonL bs →
    ∀ p, p ≤ ctx.len → ∀ st, Step.Ex (choiceGen (semL ctx bs) p st) (enumAny3 ctx bs p)
  | [], _, _, _, _, p, _, st => by simp only [semL, enumAny3]; exact choiceGen_nil_ex p st
  | b :: bs, hc, hwf, hne, hcc, p, hp, st => by
    simp only [cleanAll3, Bool.and_eq_true] at hc
    simp only [wfOps, Bool.and_eq_true] at hwf
    simp only [noEmptyAtomsL, Bool.and_eq_true] at hne
    simp only [clsCanonL] at hcc
    simp only [semL, enumAny3]
    exact choiceGen_cons_ex (fun st' => sem_ex3_op env ctx hI b _ _ hc.1 hwf.1 hne.1 hcc.1 p hp st')
      (fun st' => sem_ex3_any env ctx hI bs hc.2 hwf.2 hne.2 hcc.2 p hp st') st
termination_by structural bs => bs
theorem sem_ex3_seq (env : Env) (ctx : Ctx) (hI : InputOK env ctx) : (ops : List Op) → ∀ top, ops ≠ [] →
    cleanSeq3 env ctx.caseBlind ctx.multiLine top ops = true → wfOps ops = true →
    noEmptyAtomsL ops = true → clsCanonL ops →
    ∀ p, p ≤ ctx.len → ∀ st, Step.Ex (seqGo (semL ctx ops) p st) (enumSeq3 ctx ops p)
  | [], _, hnil, _, _, _, _, _, _, _ => absurd rfl hnil
  | [o], top, _, hc, hwf, hne, hcc, p, hp, st => by
    simp only [cleanSeq3, Bool.and_eq_true] at hc
    simp only [wfOps, Bool.and_eq_true] at hwf
    simp only [noEmptyAtomsL, Bool.and_eq_true] at hne
    simp only [clsCanonL] at hcc
    simp only [semL, enumSeq3]
    rw [flatMap_single]
    exact seqGo_single_ex (fun st' => sem_ex3_op env ctx hI o _ _ hc.1 hwf.1 hne.1 hcc.1 p hp st') st
  | o :: o2 :: os, top, _, hc, hwf, hne, hcc, p, hp, st => by
    simp only [cleanSeq3, Bool.and_eq_true] at hc
    simp only [wfOps, Bool.and_eq_true] at hwf
    simp only [noEmptyAtomsL, Bool.and_eq_true] at hne
    simp only [clsCanonL] at hcc
    have hc2 : cleanSeq3 env ctx.caseBlind ctx.multiLine top (o2 :: os) = true := by
      simp only [cleanSeq3, Bool.and_eq_true]; exact hc.2
    have hw2 : wfOps (o2 :: os) = true := by simp only [wfOps, Bool.and_eq_true]; exact hwf.2
    have hn2 : noEmptyAtomsL (o2 :: os) = true := by simp only [noEmptyAtomsL, Bool.and_eq_true]; exact hne.2
    have hcc2 : clsCanonL (o2 :: os) := by simp only [clsCanonL]; exact hcc.2
    have h1 : ∀ st', Step.Ex (sem ctx o p st') (enum3 ctx o p) :=
      fun st' => sem_ex3_op env ctx hI o _ _ hc.1 hwf.1 hne.1 hcc.1 p hp st'
    show Step.Ex (seqGo (sem ctx o :: sem ctx o2 :: semL ctx os) p st)
      ((enum3 ctx o p).flatMap (enumSeq3 ctx (o2 :: os)))
    refine seqGo_cons_ex h1 (fun n hn st' => ?_) st
    have hnL : n ≤ ctx.len := (ex_sound ctx o hwf.1 hp (h1 {}) n hn).2
    exact sem_ex3_seq env ctx hI (o2 :: os) top (List.cons_ne_nil _ _) hc2 hw2 hn2 hcc2 n hnL st'
termination_by structural ops => ops
end

/-- a whole program of the fragment -/
theorem sem_ex3_prog (env : Env) (ctx : Ctx) (hI : InputOK env ctx) (op : Op)
    (hc : cleanProg3 env ctx.caseBlind ctx.multiLine op = true) (hwf : wfOp op = true)
    (hne : noEmptyAtoms op = true) (hcc : clsCanon op) (p : Nat) (hp : p ≤ ctx.len) (st : St) :
    Step.Ex (sem ctx op p st) (enum3 ctx op p) := by
  by_cases hseq : ∃ ops, op = .seq ops
  · obtain ⟨ops, rfl⟩ := hseq
    simp only [cleanProg3] at hc
    simp only [wfOp, Bool.and_eq_true, Bool.not_eq_true', List.isEmpty_eq_false_iff] at hwf
    simp only [noEmptyAtoms] at hne
    simp only [clsCanon] at hcc
    simp only [sem, enum3]
    exact seqGen_ex (fun st' => sem_ex3_seq env ctx hI ops true hwf.1 hc hwf.2 hne hcc p hp st') _ st
  · have hc' : cleanOp3F env ctx.caseBlind ctx.multiLine false [] op = true := by
      cases op with
      | seq ops => exact absurd ⟨ops, rfl⟩ hseq
      | _ => exact hc
    exact sem_ex3_op env ctx hI op _ _ hc' hwf hne hcc p hp st

theorem enum3_sound_prog (env : Env) (ctx : Ctx) (hI : InputOK env ctx) (op : Op)
    (hc : cleanProg3 env ctx.caseBlind ctx.multiLine op = true) (hwf : wfOp op = true)
    (hne : noEmptyAtoms op = true) (hcc : clsCanon op) {p q : Nat} (hp : p ≤ ctx.len)
    (h : q ∈ enum3 ctx op p) : OpR ctx op p q :=
  (ex_sound ctx op hwf hp (sem_ex3_prog env ctx hI op hc hwf hne hcc p hp {}) q h).1

/-! ### `enum3` is complete on the compositional fragment -/

theorem enum3_sound_op (env : Env) (ctx : Ctx) (hI : InputOK env ctx) (op : Op) (top : Bool) (F : List Op)
    (hc : cleanOp3F env ctx.caseBlind ctx.multiLine top F op = true) (hwf : wfOp op = true)
    (hne : noEmptyAtoms op = true) (hcc : clsCanon op) {p q : Nat} (hp : p ≤ ctx.len)
    (h : q ∈ enum3 ctx op p) : OpR ctx op p q :=
  (ex_sound ctx op hwf hp (sem_ex3_op env ctx hI op top F hc hwf hne hcc p hp {}) q h).1

/-- the `.unamb` element of a sequence, in terms of `enum3` -/
theorem unamb_elem3 (env : Env) (ctx : Ctx) (hI : InputOK env ctx) (top : Bool) (x : Op) (mn mx : Nat)
    (F : List Op) (hc : cleanOp3F env ctx.caseBlind ctx.multiLine top F (.unamb x mn mx) = true)
    (hnx : noEmptyAtoms x = true) (hcx : clsCanon x)
    (hwF : wfOps F = true) (hnF : noEmptyAtomsL F = true) (hcF : clsCanonL F)
    (p m q : Nat) (hp : p ≤ ctx.len) (h1 : OpR ctx (.unamb x mn mx) p m) (hF : OpRSeq ctx F m q) :
    (enum3 ctx (.unamb x mn mx) p = [m] ∧ m ≤ ctx.len) ∨
    (F = [.endProgram] ∧ top = true ∧ ∃ m', enum3 ctx (.unamb x mn mx) p = [m'] ∧ m' ≤ ctx.len) := by
  have hx : isAtomOrClass x = true := by
    simp only [cleanOp3F, Bool.and_eq_true] at hc; exact hc.1
  rw [cleanOp3F_unamb] at hc
  rw [enum3_unamb ctx x mn mx hx]
  exact unamb_elem env ctx hI top x mn mx F hc hnx hcx hwF hnF hcF p m q hp h1 hF

mutual
theorem comp3_op (env : Env) (ctx : Ctx) (hI : InputOK env ctx) : (op : Op) →
    cleanOp3F env ctx.caseBlind ctx.multiLine false [] op = true → wfOp op = true →
    noEmptyAtoms op = true → clsCanon op →
    ∀ p q, p ≤ ctx.len → OpR ctx op p q → q ∈ enum3 ctx op p
  | .bol, _, _, _, _, p, q, _, h => by
    simp only [OpR] at h
    simp only [enum3]
    rw [if_pos h.2, h.1]; exact List.mem_singleton.2 rfl
  | .eol, _, _, _, _, p, q, _, h => by
    simp only [OpR] at h
    simp only [enum3]
    rw [if_pos h.2, h.1]; exact List.mem_singleton.2 rfl
  | .nothing, _, _, _, _, p, q, _, h => by
    simp only [OpR] at h
    simp only [enum3]
    rw [h]; exact List.mem_singleton.2 rfl
  | .endProgram, _, _, _, _, p, q, _, h => by
    simp only [OpR] at h
    simp only [enum3]
    rw [h]; exact List.mem_singleton.2 rfl
  | .atom cs, _, _, _, _, p, q, _, h => by
    simp only [OpR] at h
    obtain ⟨rfl, h2, h3⟩ := h
    simp only [enum3]
    rw [if_pos ⟨h2, h3⟩]; exact List.mem_singleton.2 rfl
  | .cls rs, _, _, _, _, p, q, _, h => by
    simp only [OpR] at h
    obtain ⟨rfl, c, h2, h3⟩ := h
    simp only [enum3]
    rw [h2]
    simp only
    rw [if_pos h3]; exact List.mem_singleton.2 rfl
  | .backref _, hc, _, _, _, _, _, _, _ => by simp [cleanOp3F] at hc
  | .rep id c mn mx g, hc, hwf, hne, hcc, p, q, hp, h => by
    obtain ⟨rfl, hr⟩ := repOK_of hc hwf hne hcc
    simp only [OpR] at h
    obtain ⟨k, hk1, hk2, hi⟩ := h
    simp only [enum3]
    exact greedyIter_complete (headDet_body env ctx hI hr) mn mx 0 p k q hp hi hk2 (by omega)
  | .unamb x mn mx, hc, hwf, hne, hcc, p, q, hp, h => by
    simp only [noEmptyAtoms] at hne
    simp only [clsCanon] at hcc
    rcases unamb_elem3 env ctx hI false x mn mx [] hc hne hcc rfl rfl (by simp only [clsCanonL])
      p q q hp h (by simp only [OpRSeq]) with ⟨h1, _⟩ | ⟨h1, _⟩
    · rw [h1]; exact List.mem_singleton.2 rfl
    · cases h1
  | .capture g c, hc, hwf, hne, hcc, p, q, hp, h => by
    simp only [cleanOp3F] at hc
    simp only [wfOp] at hwf
    simp only [noEmptyAtoms] at hne
    simp only [clsCanon] at hcc
    simp only [OpR] at h
    simp only [enum3]
    exact comp3_op env ctx hI c hc hwf hne hcc p q hp h
  | .choice bs, hc, hwf, hne, hcc, p, q, hp, h => by
    simp only [cleanOp3F] at hc
    simp only [wfOp, Bool.and_eq_true] at hwf
    simp only [noEmptyAtoms] at hne
    simp only [clsCanon] at hcc
    simp only [OpR] at h
    simp only [enum3]
    exact comp3_any env ctx hI bs hc hwf.2 hne hcc p q hp h
  | .seq ops, hc, hwf, hne, hcc, p, q, hp, h => by
    simp only [cleanOp3F] at hc
    simp only [wfOp, Bool.and_eq_true] at hwf
    simp only [noEmptyAtoms] at hne
    simp only [clsCanon] at hcc
    simp only [OpR] at h
    simp only [enum3]
    exact comp3_seq env ctx hI ops hc hwf.2 hne hcc p q hp h
  | .gfixed c mn mx len, hc, hwf, hne, hcc, p, q, hp, h => by
    simp only [cleanOp3F] at hc
    simp only [wfOp, Bool.and_eq_true, decide_eq_true_eq, beq_iff_eq] at hwf
    obtain ⟨⟨⟨⟨⟨hwc, hml⟩, hlen0⟩, hlen1⟩, _⟩, hmx⟩ := hwf
    simp only [noEmptyAtoms] at hne
    simp only [clsCanon] at hcc
    simp only [OpR] at h
    obtain ⟨k, hk1, hk2, hi⟩ := h
    simp only [enum3]
    have hb := fixedBody3_of ctx c len hwc hml hlen0 hlen1
      (fun q hq st' => sem_ex3_op env ctx hI c _ _ hc hwc hne hcc q hq st')
    have hd : HeadDet (fun a b => OpR ctx c a b) (enum3 ctx c) ctx.len := by
      constructor
      intro a ha b hr
      have hmem := comp3_op env ctx hI c hc hwc hne hcc a b ha hr
      have hb1 := hb.fixed a ha b hmem
      cases hl : enum3 ctx c a with
      | nil => rw [hl] at hmem; cases hmem
      | cons x t =>
        have hx := hb.fixed a ha x (by rw [hl]; exact List.mem_cons_self)
        have : x = b := by omega
        subst this
        exact ⟨⟨t, rfl⟩, hb1.2⟩
    exact greedyIter_complete hd mn mx 0 p k q hp hi hk2 (by omega)
  | .rfixed c mn mx len, hc, hwf, hne, hcc, p, q, hp, h => by
    simp only [cleanOp3F] at hc
    simp only [wfOp, Bool.and_eq_true, decide_eq_true_eq, beq_iff_eq] at hwf
    obtain ⟨⟨⟨⟨⟨hwc, hml⟩, hlen0⟩, hlen1⟩, _⟩, hmx⟩ := hwf
    simp only [noEmptyAtoms] at hne
    simp only [clsCanon] at hcc
    simp only [OpR] at h
    obtain ⟨k, hk1, hk2, hi⟩ := h
    simp only [enum3]
    have hb := fixedBody3_of ctx c len hwc hml hlen0 hlen1
      (fun q hq st' => sem_ex3_op env ctx hI c _ _ hc hwc hne hcc q hq st')
    have hd : HeadDet (fun a b => OpR ctx c a b) (enum3 ctx c) ctx.len := by
      constructor
      intro a ha b hr
      have hmem := comp3_op env ctx hI c hc hwc hne hcc a b ha hr
      have hb1 := hb.fixed a ha b hmem
      cases hl : enum3 ctx c a with
      | nil => rw [hl] at hmem; cases hmem
      | cons x t =>
        have hx := hb.fixed a ha x (by rw [hl]; exact List.mem_cons_self)
        have : x = b := by omega
        subst this
        exact ⟨⟨t, rfl⟩, hb1.2⟩
    exact reluctIter_complete hd mn mx 0 p k q hp hi hk2 (by omega)
termination_by structural op => op
theorem comp3_any (env : Env) (ctx : Ctx) (hI : InputOK env ctx) : (bs : List Op) →
    cleanAll3 env ctx.caseBlind ctx.multiLine bs = true → wfOps bs = true →
    noEmptyAtomsL bs = true → clsCanonL bs →
    ∀ p q, p ≤ ctx.len → OpRAny ctx bs p q → q ∈ enumAny3 ctx bs p
  | [], _, _, _, _, p, q, _, h => by simp only [OpRAny] at h
  | b :: bs, hc, hwf, hne, hcc, p, q, hp, h => by
    simp only [cleanAll3, Bool.and_eq_true] at hc
    simp only [wfOps, Bool.and_eq_true] at hwf
    simp only [noEmptyAtomsL, Bool.and_eq_true] at hne
    simp only [clsCanonL] at hcc
    simp only [OpRAny] at h
    simp only [enumAny3, List.mem_append]
    rcases h with h | h
    · exact .inl (comp3_op env ctx hI b hc.1 hwf.1 hne.1 hcc.1 p q hp h)
    · exact .inr (comp3_any env ctx hI bs hc.2 hwf.2 hne.2 hcc.2 p q hp h)
termination_by structural bs => bs
theorem comp3_seq (env : Env) (ctx : Ctx) (hI : InputOK env ctx) : (ops : List Op) →
    cleanSeq3 env ctx.caseBlind ctx.multiLine false ops = true → wfOps ops = true →
    noEmptyAtomsL ops = true → clsCanonL ops →
    ∀ p q, p ≤ ctx.len → OpRSeq ctx ops p q → q ∈ enumSeq3 ctx ops p
  | [], _, _, _, _, p, q, _, h => by
    simp only [OpRSeq] at h
    simp only [enumSeq3]
    rw [h]; exact List.mem_singleton.2 rfl
  | o :: os, hc, hwf, hne, hcc, p, q, hp, h => by
    simp only [cleanSeq3, Bool.and_eq_true] at hc
    simp only [wfOps, Bool.and_eq_true] at hwf
    simp only [noEmptyAtomsL, Bool.and_eq_true] at hne
    simp only [clsCanonL] at hcc
    simp only [OpRSeq] at h
    obtain ⟨m, h1, h2⟩ := h
    simp only [enumSeq3, List.mem_flatMap]
    by_cases hu : isUnamb o = true
    · obtain ⟨x, mn, mx, rfl⟩ := isUnamb_true hu
      have hnx : noEmptyAtoms x = true := by simpa only [noEmptyAtoms] using hne.1
      have hcx : clsCanon x := by simpa only [clsCanon] using hcc.1
      rcases unamb_elem3 env ctx hI false x mn mx os hc.1 hnx hcx hwf.2 hne.2 hcc.2 p m q hp h1 h2 with
        ⟨he, hmL⟩ | ⟨_, ht, _⟩
      · exact ⟨m, by rw [he]; exact List.mem_singleton.2 rfl,
          comp3_seq env ctx hI os hc.2 hwf.2 hne.2 hcc.2 m q hmL h2⟩
      · cases ht
    · have hco : cleanOp3F env ctx.caseBlind ctx.multiLine false [] o = true := by
        rw [← cleanOp3F_irrel env _ _ false os o hu]; exact hc.1
      have hm := (OpR_bounds_op ctx o p m hp h1).2
      exact ⟨m, comp3_op env ctx hI o hco hwf.1 hne.1 hcc.1 p m hp h1,
        comp3_seq env ctx hI os hc.2 hwf.2 hne.2 hcc.2 m q hm h2⟩
termination_by structural ops => ops
end

/-! ### existence-completeness for a root sequence -/

theorem exist3_seq (env : Env) (ctx : Ctx) (hI : InputOK env ctx) : ∀ (ops : List Op),
    cleanSeq3 env ctx.caseBlind ctx.multiLine true ops = true → wfOps ops = true →
    noEmptyAtomsL ops = true → clsCanonL ops →
    ∀ p q, p ≤ ctx.len → OpRSeq ctx ops p q → enumSeq3 ctx ops p ≠ [] := by
  intro ops
  induction ops with
  | nil => intro _ _ _ _ p q _ _; simp [enumSeq3]
  | cons o os ih =>
    intro hc hwf hne hcc p q hp h
    simp only [cleanSeq3, Bool.and_eq_true] at hc
    simp only [wfOps, Bool.and_eq_true] at hwf
    simp only [noEmptyAtomsL, Bool.and_eq_true] at hne
    simp only [clsCanonL] at hcc
    simp only [OpRSeq] at h
    obtain ⟨m, h1, h2⟩ := h
    simp only [enumSeq3]
    have key : ∀ m', m' ∈ enum3 ctx o p → enumSeq3 ctx os m' ≠ [] →
        (enum3 ctx o p).flatMap (enumSeq3 ctx os) ≠ [] := by
      intro m' hm' hne' hnil
      rw [List.flatMap_eq_nil_iff] at hnil
      exact hne' (hnil m' hm')
    by_cases hu : isUnamb o = true
    · obtain ⟨x, mn, mx, rfl⟩ := isUnamb_true hu
      have hnx : noEmptyAtoms x = true := by simpa only [noEmptyAtoms] using hne.1
      have hcx : clsCanon x := by simpa only [clsCanon] using hcc.1
      rcases unamb_elem3 env ctx hI true x mn mx os hc.1 hnx hcx hwf.2 hne.2 hcc.2 p m q hp h1 h2 with
        ⟨he, hmL⟩ | ⟨rfl, _, m', he, hmL⟩
      · exact key m (by rw [he]; exact List.mem_singleton.2 rfl) (ih hc.2 hwf.2 hne.2 hcc.2 m q hmL h2)
      · refine key m' (by rw [he]; exact List.mem_singleton.2 rfl) ?_
        simp [enumSeq3, enum3]
    · have hco : cleanOp3F env ctx.caseBlind ctx.multiLine false [] o = true := by
        rw [← cleanOp3F_irrel env _ _ true os o hu]; exact hc.1
      have hm := (OpR_bounds_op ctx o p m hp h1).2
      exact key m (comp3_op env ctx hI o hco hwf.1 hne.1 hcc.1 p m hp h1)
        (ih hc.2 hwf.2 hne.2 hcc.2 m q hm h2)

/-! ### structural facts about the fragment -/

mutual
theorem clean3_noBackref (env : Env) (cb ml : Bool) : (op : Op) → ∀ top F,
    cleanOp3F env cb ml top F op = true → hasBackref op = false
  | .bol, _, _, _ | .eol, _, _, _ | .nothing, _, _, _ | .endProgram, _, _, _
  | .atom _, _, _, _ | .cls _, _, _, _ => rfl
  | .backref _, _, _, h => by simp [cleanOp3F] at h
  | .rep _ c _ _ _, _, _, h => by
    simp only [cleanOp3F, Bool.and_eq_true] at h
    simp only [hasBackref]
    exact Clean2.shape2_noBackref c (shape_of_clean2 env cb ml c _ _ h.1.1.2)
  | .unamb x _ _, _, _, h => by
    simp only [cleanOp3F, Bool.and_eq_true] at h
    simp only [hasBackref]
    cases x <;> first | rfl | (have := h.1; simp [isAtomOrClass] at this)
  | .capture _ c, _, _, h => by
    simp only [cleanOp3F] at h; simp only [hasBackref]; exact clean3_noBackref env cb ml c _ _ h
  | .choice bs, _, _, h => by
    simp only [cleanOp3F] at h; simp only [hasBackref]; exact clean3_noBackrefAll env cb ml bs h
  | .seq ops, _, _, h => by
    simp only [cleanOp3F] at h; simp only [hasBackref]; exact clean3_noBackrefSeq env cb ml ops _ h
  | .gfixed c _ _ _, _, _, h => by
    simp only [cleanOp3F] at h; simp only [hasBackref]; exact clean3_noBackref env cb ml c _ _ h
  | .rfixed c _ _ _, _, _, h => by
    simp only [cleanOp3F] at h; simp only [hasBackref]; exact clean3_noBackref env cb ml c _ _ h
termination_by structural op => op
theorem clean3_noBackrefAll (env : Env) (cb ml : Bool) : (ops : List Op) →
    cleanAll3 env cb ml ops = true → hasBackrefL ops = false
  | [], _ => rfl
  | o :: os, h => by
    simp only [cleanAll3, Bool.and_eq_true] at h
    simp only [hasBackrefL, Bool.or_eq_false_iff]
    exact ⟨clean3_noBackref env cb ml o _ _ h.1, clean3_noBackrefAll env cb ml os h.2⟩
termination_by structural ops => ops
theorem clean3_noBackrefSeq (env : Env) (cb ml : Bool) : (ops : List Op) → ∀ top,
    cleanSeq3 env cb ml top ops = true → hasBackrefL ops = false
  | [], _, _ => rfl
  | o :: os, top, h => by
    simp only [cleanSeq3, Bool.and_eq_true] at h
    simp only [hasBackrefL, Bool.or_eq_false_iff]
    exact ⟨clean3_noBackref env cb ml o _ _ h.1, clean3_noBackrefSeq env cb ml os top h.2⟩
termination_by structural ops => ops
end

mutual
theorem clean3_smallMin (env : Env) (cb ml : Bool) (n : Nat) : (op : Op) → ∀ top F,
    cleanOp3F env cb ml top F op = true → noEmptyAtoms op = true → C06.smallMin n op = true
  | .bol, _, _, _, _ | .eol, _, _, _, _ | .nothing, _, _, _, _ | .endProgram, _, _, _, _
  | .atom _, _, _, _, _ | .cls _, _, _, _, _ => rfl
  | .backref _, _, _, h, _ => by simp [cleanOp3F] at h
  | .rep _ c _ _ g, _, _, h, hne => by
    simp only [cleanOp3F, Bool.and_eq_true] at h
    simp only [noEmptyAtoms] at hne
    simp only [C06.smallMin, Bool.and_eq_true, Bool.or_eq_true]
    exact ⟨Clean2.shape2_smallMin n c (shape_of_clean2 env cb ml c _ _ h.1.1.2) hne, .inl h.1.1.1.1⟩
  | .unamb x _ _, _, _, h, hne => by
    simp only [cleanOp3F, Bool.and_eq_true] at h
    simp only [noEmptyAtoms] at hne
    cases x with
    | atom cs => simpa only [C06.smallMin, noEmptyAtoms] using hne
    | cls rs => rfl
    | _ => have := h.1; simp [isAtomOrClass] at this
  | .capture _ c, _, _, h, hne => by
    simp only [cleanOp3F] at h; simp only [noEmptyAtoms] at hne
    simp only [C06.smallMin]; exact clean3_smallMin env cb ml n c _ _ h hne
  | .choice bs, _, _, h, hne => by
    simp only [cleanOp3F] at h; simp only [noEmptyAtoms] at hne
    simp only [C06.smallMin]; exact clean3_smallMinAll env cb ml n bs h hne
  | .seq ops, _, _, h, hne => by
    simp only [cleanOp3F] at h; simp only [noEmptyAtoms] at hne
    simp only [C06.smallMin]; exact clean3_smallMinSeq env cb ml n ops _ h hne
  | .gfixed c _ _ _, _, _, h, hne => by
    simp only [cleanOp3F] at h; simp only [noEmptyAtoms] at hne
    simp only [C06.smallMin]; exact clean3_smallMin env cb ml n c _ _ h hne
  | .rfixed c _ _ _, _, _, h, hne => by
    simp only [cleanOp3F] at h; simp only [noEmptyAtoms] at hne
    simp only [C06.smallMin]; exact clean3_smallMin env cb ml n c _ _ h hne
termination_by structural op => op
theorem clean3_smallMinAll (env : Env) (cb ml : Bool) (n : Nat) : (ops : List Op) →
    cleanAll3 env cb ml ops = true → noEmptyAtomsL ops = true → C06.smallMinL n ops = true
  | [], _, _ => rfl
  | o :: os, h, hne => by
    simp only [cleanAll3, Bool.and_eq_true] at h
    simp only [noEmptyAtomsL, Bool.and_eq_true] at hne
    simp only [C06.smallMinL, Bool.and_eq_true]
    exact ⟨clean3_smallMin env cb ml n o _ _ h.1 hne.1, clean3_smallMinAll env cb ml n os h.2 hne.2⟩
termination_by structural ops => ops
theorem clean3_smallMinSeq (env : Env) (cb ml : Bool) (n : Nat) : (ops : List Op) → ∀ top,
    cleanSeq3 env cb ml top ops = true → noEmptyAtomsL ops = true → C06.smallMinL n ops = true
  | [], _, _, _ => rfl
  | o :: os, top, h, hne => by
    simp only [cleanSeq3, Bool.and_eq_true] at h
    simp only [noEmptyAtomsL, Bool.and_eq_true] at hne
    simp only [C06.smallMinL, Bool.and_eq_true]
    exact ⟨clean3_smallMin env cb ml n o _ _ h.1 hne.1, clean3_smallMinSeq env cb ml n os top h.2 hne.2⟩
termination_by structural ops => ops
end

mutual
/-- the fragment of Spec/Enum2 is inside the new one -/
theorem clean3_of_clean2 (env : Env) (cb ml : Bool) : (op : Op) → ∀ top F,
    cleanOp2F env cb ml top F op = true → cleanOp3F env cb ml top F op = true
  | .bol, _, _, _ | .eol, _, _, _ | .nothing, _, _, _ | .endProgram, _, _, _
  | .atom _, _, _, _ | .cls _, _, _, _ => rfl
  | .backref _, _, _, h | .rep _ _ _ _ _, _, _, h => by simp [cleanOp2F] at h
  | .unamb x mn mx, _, _, h => by rw [cleanOp3F_unamb]; exact h
  | .capture _ c, _, _, h => by
    simp only [cleanOp2F] at h; simp only [cleanOp3F]; exact clean3_of_clean2 env cb ml c _ _ h
  | .choice bs, _, _, h => by
    simp only [cleanOp2F] at h; simp only [cleanOp3F]; exact clean3_of_clean2All env cb ml bs h
  | .seq ops, _, _, h => by
    simp only [cleanOp2F] at h; simp only [cleanOp3F]; exact clean3_of_clean2Seq env cb ml ops _ h
  | .gfixed c _ _ _, _, _, h => by
    simp only [cleanOp2F] at h; simp only [cleanOp3F]; exact clean3_of_clean2 env cb ml c _ _ h
  | .rfixed c _ _ _, _, _, h => by
    simp only [cleanOp2F] at h; simp only [cleanOp3F]; exact clean3_of_clean2 env cb ml c _ _ h
termination_by structural op => op
theorem clean3_of_clean2All (env : Env) (cb ml : Bool) : (ops : List Op) →
    cleanAll2 env cb ml ops = true → cleanAll3 env cb ml ops = true
  | [], _ => rfl
  | o :: os, h => by
    simp only [cleanAll2, Bool.and_eq_true] at h
    simp only [cleanAll3, Bool.and_eq_true]
    exact ⟨clean3_of_clean2 env cb ml o _ _ h.1, clean3_of_clean2All env cb ml os h.2⟩
termination_by structural ops => ops
theorem clean3_of_clean2Seq (env : Env) (cb ml : Bool) : (ops : List Op) → ∀ top,
    cleanSeq2 env cb ml top ops = true → cleanSeq3 env cb ml top ops = true
  | [], _, _ => rfl
  | o :: os, top, h => by
    simp only [cleanSeq2, Bool.and_eq_true] at h
    simp only [cleanSeq3, Bool.and_eq_true]
    exact ⟨clean3_of_clean2 env cb ml o _ _ h.1, clean3_of_clean2Seq env cb ml os top h.2⟩
termination_by structural ops => ops
end

end Rx
