/-
  Proofs/Clean3SearchLemmas — helper lemmas for Props/Clean3Complete: the hypotheses of the search-loop
  theorems (Props/SearchComplete) on the fragment with the general greedy repeat (Spec/Enum3).

  The conditions are stated on the NUMBERED tree `T = (numberReps op 0).1`, which is the tree of the
  program `mkProgram pat op …` (numbering gives every `.rep` node its memo key; the fragment's
  conditions do not mention the keys, but `unambJust` reads first sets of followers, so the
  conditions are simply checked on the compiled program).

    * `addPre_preShape3`   what `add_precondition` records for a tree of the fragment: the shapes of
                           Proofs/Clean2SearchLemmas, or `(x){1,m}` as a general repeat over one character
    * `preShape3_completeAt`  the engine test is complete on each
    * `clean3_outcome`, `Outcome.span_clean3`
-/
import RxModel.Props.Clean3
import RxModel.Proofs.Clean2SearchLemmas
namespace Rx.SearchComplete
open Rx
open Rx.C08 (noEmptyAtoms noEmptyAtomsL clsCanon clsCanonL)

/-! ## the shape of the fragment -/

mutual
theorem shape3_of_clean3 (env : Env) (cb ml : Bool) : (op : Op) → ∀ top F,
    cleanOp3F env cb ml top F op = true → shape3 op = true
  | .bol, _, _, _ | .eol, _, _, _ | .nothing, _, _, _ | .endProgram, _, _, _
  | .atom _, _, _, _ | .cls _, _, _, _ => rfl
  | .backref _, _, _, h => by simp [cleanOp3F] at h
  | .rep _ c mn _ g, _, _, h => by
    simp only [cleanOp3F, Bool.and_eq_true] at h
    simp only [shape3, Bool.and_eq_true]
    exact ⟨⟨h.1.1.1.1, h.1.1.1.2⟩, shape_of_clean2 env cb ml c _ _ h.1.1.2⟩
  | .unamb x mn mx, _, _, h => by
    simp only [cleanOp3F, Bool.and_eq_true] at h
    simp only [shape3]; exact h.1
  | .capture _ c, _, _, h => by
    simp only [cleanOp3F] at h; simp only [shape3]; exact shape3_of_clean3 env cb ml c _ _ h
  | .choice bs, _, _, h => by
    simp only [cleanOp3F] at h; simp only [shape3]; exact shape3_of_cleanAll3 env cb ml bs h
  | .seq ops, _, _, h => by
    simp only [cleanOp3F] at h; simp only [shape3]; exact shape3_of_cleanSeq3 env cb ml ops _ h
  | .gfixed c _ _ _, _, _, h => by
    simp only [cleanOp3F] at h; simp only [shape3]; exact shape3_of_clean3 env cb ml c _ _ h
  | .rfixed c _ _ _, _, _, h => by
    simp only [cleanOp3F] at h; simp only [shape3]; exact shape3_of_clean3 env cb ml c _ _ h
termination_by structural op => op
theorem shape3_of_cleanAll3 (env : Env) (cb ml : Bool) : (ops : List Op) →
    cleanAll3 env cb ml ops = true → shape3L ops = true
  | [], _ => rfl
  | o :: os, h => by
    simp only [cleanAll3, Bool.and_eq_true] at h
    simp only [shape3L, Bool.and_eq_true]
    exact ⟨shape3_of_clean3 env cb ml o _ _ h.1, shape3_of_cleanAll3 env cb ml os h.2⟩
termination_by structural ops => ops
theorem shape3_of_cleanSeq3 (env : Env) (cb ml : Bool) : (ops : List Op) → ∀ top,
    cleanSeq3 env cb ml top ops = true → shape3L ops = true
  | [], _, _ => rfl
  | o :: os, top, h => by
    simp only [cleanSeq3, Bool.and_eq_true] at h
    simp only [shape3L, Bool.and_eq_true]
    exact ⟨shape3_of_clean3 env cb ml o _ _ h.1, shape3_of_cleanSeq3 env cb ml os top h.2⟩
termination_by structural ops => ops
end

theorem shape3_of_cleanProg3 (env : Env) (cb ml : Bool) (op : Op) (h : cleanProg3 env cb ml op = true) :
    shape3 op = true := by
  cases op with
  | seq ops => simp only [cleanProg3] at h; simp only [shape3]; exact shape3_of_cleanSeq3 env cb ml ops true h
  | _ => exact shape3_of_clean3 env cb ml _ false [] h

/-! ## the precondition trees -/

/-- the shapes `add_precondition` records for a tree of the fragment: those of the fragment without the
    general repeat (`preShape2`), or `x{1,m}` as a general greedy repeat over one non-empty literal / class -/
def preShape3 (o : Op) : Bool :=
  preShape2 o ||
  (match o with
   | .rep _ c mn mx g => g && isAtomOrClass c && noEmptyAtoms c && clsCanonB c && (mn == 1) && decide (1 ≤ mx)
   | _ => false)

theorem preShape3_completeAt (env : Env) (ctx : Ctx) (hI : InputOK env ctx) (o : Op) (h : preShape3 o = true) :
    CompleteAt ctx o := by
  unfold preShape3 at h
  rcases Bool.or_eq_true_iff.1 h with h | h
  · exact preShape2_completeAt ctx o h
  · cases o with
    | rep id c mn mx g =>
      simp only [Bool.and_eq_true, beq_iff_eq, decide_eq_true_eq] at h
      obtain ⟨⟨⟨⟨⟨rfl, hac⟩, hne⟩, hcan⟩, rfl⟩, hmx⟩ := h
      obtain ⟨hcl, hwc⟩ := leaf_clean c hac
      have hc2 : cleanOp2 env ctx.caseBlind ctx.multiLine c = true := Clean2.cleanOp2_of_cleanOp env _ _ c hcl
      have hnn : nonNull c = true := by
        cases c with
        | atom cs => simpa only [nonNull, noEmptyAtoms] using hne
        | cls rs => rfl
        | _ => simp [isAtomOrClass] at hac
      have hdet : detB env ctx.caseBlind c = true := by
        cases c <;> first | rfl | (simp [isAtomOrClass] at hac)
      refine Clean3.completeAt_clean3 env ctx hI (.rep id c 1 mx true) ?_ ?_ ?_ ?_
      · show cleanOp3F env ctx.caseBlind ctx.multiLine false [] (.rep id c 1 mx true) = true
        simp only [cleanOp3F, hc2, hnn, hdet, Nat.le_refl, decide_true, Bool.and_self]
      · simp only [wfOp, hwc, Bool.true_and, Bool.and_eq_true, decide_eq_true_eq]; exact ⟨hmx, by omega⟩
      · simp only [noEmptyAtoms]; exact hne
      · simp only [clsCanonB]; exact hcan
    | _ => simp at h

theorem preShape3_numberReps (o : Op) (n : Nat) (h : preShape3 o = true) :
    preShape3 (numberReps o n).1 = true := by
  unfold preShape3 at h
  rcases Bool.or_eq_true_iff.1 h with h | h
  · unfold preShape3; rw [preShape2_numberReps o n h]; rfl
  · cases o with
    | rep id c mn mx g =>
      have hac : isAtomOrClass c = true := by
        simp only [Bool.and_eq_true] at h; exact h.1.1.1.1.2
      simp only [numberReps, ApiL.numberReps_leaf c hac]
      unfold preShape3
      exact Bool.or_eq_true_iff.2 (.inr h)
    | _ => simp at h

theorem preShape3_of_2 {o : Op} (h : preShape2 o = true) : preShape3 o = true := by
  unfold preShape3; rw [h]; rfl

mutual
theorem addPre_preShape3 (ml : Bool) : (o : Op) → shape3 o = true → wfOp o = true →
    noEmptyAtoms o = true → clsCanonB o = true → ∀ fp mp, ∀ q ∈ addPre ml o fp mp, preShape3 q.op = true
  | .bol, _, _, _, _, fp, mp, q, hq => by simp only [addPre] at hq; cases hq
  | .eol, _, _, _, _, fp, mp, q, hq => by simp only [addPre] at hq; cases hq
  | .nothing, _, _, _, _, fp, mp, q, hq => by simp only [addPre] at hq; cases hq
  | .endProgram, _, _, _, _, fp, mp, q, hq => by simp only [addPre] at hq; cases hq
  | .backref g, _, _, _, _, fp, mp, q, hq => by simp only [addPre] at hq; cases hq
  | .choice bs, _, _, _, _, fp, mp, q, hq => by simp only [addPre] at hq; cases hq
  | .atom cs, _, _, _, _, fp, mp, q, hq => by
    simp only [addPre, List.mem_singleton] at hq; subst hq; rfl
  | .cls rs, _, _, _, _, fp, mp, q, hq => by
    simp only [addPre, List.mem_singleton] at hq; subst hq; rfl
  | .capture g c, hc, hwf, hne, hcan, fp, mp, q, hq => by
    simp only [shape3] at hc
    simp only [wfOp] at hwf
    simp only [noEmptyAtoms] at hne
    simp only [clsCanonB] at hcan
    simp only [addPre] at hq
    exact addPre_preShape3 ml c hc hwf hne hcan fp mp q hq
  | .seq ops, hc, hwf, hne, hcan, fp, mp, q, hq => by
    simp only [shape3] at hc
    simp only [wfOp, Bool.and_eq_true] at hwf
    simp only [noEmptyAtoms] at hne
    simp only [clsCanonB] at hcan
    simp only [addPre] at hq
    exact addPreSeq_preShape3 ml ops hc hwf.2 hne hcan fp mp q hq
  | .rep id c mn mx g, hc, hwf, hne, hcan, fp, mp, q, hq => by
    simp only [shape3, Bool.and_eq_true, decide_eq_true_eq] at hc
    obtain ⟨⟨rfl, hmn⟩, hsc⟩ := hc
    simp only [wfOp, Bool.and_eq_true, decide_eq_true_eq] at hwf
    simp only [noEmptyAtoms] at hne
    simp only [clsCanonB] at hcan
    simp only [addPre] at hq
    rw [if_pos hmn] at hq
    split at hq
    · rename_i hac
      split at hq
      · rename_i h1
        simp only [List.mem_singleton] at hq; subst hq
        have hm1 : mn = 1 := by simpa using h1
        subst hm1
        simp only [preShape3, hac, hne, hcan, beq_self_eq_true, Bool.and_self, Bool.true_and, Bool.or_eq_true,
          decide_eq_true_eq]
        right; omega
      · simp only [List.mem_singleton] at hq; subst hq
        apply preShape3_of_2
        simp only [preShape2, preShape, cleanOp, Bool.false_and, Bool.false_or, hac, hne, beq_self_eq_true,
          hmn, decide_true, Bool.and_self, Bool.or_false]
    · exact preShape3_of_2 (addPre_preShape2 ml c hsc hwf.1.1 hne fp mp q hq)
  | .unamb c mn mx, hc, hwf, hne, _, fp, mp, q, hq => by
    have hs2 : shape2 (.unamb c mn mx) = true := by simpa only [shape3, shape2] using hc
    exact preShape3_of_2 (addPre_preShape2 ml _ hs2 hwf hne fp mp q hq)
  | .gfixed c mn mx len, hc, hwf, hne, hcan, fp, mp, q, hq => by
    have hwf0 := hwf
    simp only [shape3] at hc
    have hwc : wfOp c = true := by simp only [wfOp, Bool.and_eq_true] at hwf; exact hwf.1.1.1.1.1
    simp only [noEmptyAtoms] at hne
    simp only [clsCanonB] at hcan
    have hself : isAtomOrClass c = true → preShape2 (.gfixed c mn mx len) = true := by
      intro hac
      have : cleanOp (.gfixed c mn mx len) = true := by simp only [cleanOp]; exact (leaf_clean c hac).1
      unfold preShape2 preShape; rw [this, hwf0]; rfl
    simp only [addPre] at hq
    split at hq
    · split at hq
      · rename_i hac
        split at hq
        · simp only [List.mem_singleton] at hq; subst hq; exact preShape3_of_2 (hself hac)
        · rename_i h1 _
          simp only [List.mem_singleton] at hq; subst hq
          apply preShape3_of_2
          have h1' : 1 ≤ mn := h1
          simp only [preShape2, preShape, cleanOp, Bool.false_and, Bool.false_or, hac, hne, beq_self_eq_true,
            h1', decide_true, Bool.and_self, Bool.or_false]
      · exact addPre_preShape3 ml c hc hwc hne hcan fp mp q hq
    · cases hq
  | .rfixed c mn mx len, hc, hwf, hne, hcan, fp, mp, q, hq => by
    have hwf0 := hwf
    simp only [shape3] at hc
    have hwc : wfOp c = true := by simp only [wfOp, Bool.and_eq_true] at hwf; exact hwf.1.1.1.1.1
    simp only [noEmptyAtoms] at hne
    simp only [clsCanonB] at hcan
    have hself : isAtomOrClass c = true → preShape2 (.rfixed c mn mx len) = true := by
      intro hac
      have : cleanOp (.rfixed c mn mx len) = true := by simp only [cleanOp]; exact (leaf_clean c hac).1
      unfold preShape2 preShape; rw [this, hwf0]; rfl
    simp only [addPre] at hq
    split at hq
    · split at hq
      · rename_i hac
        split at hq
        · simp only [List.mem_singleton] at hq; subst hq; exact preShape3_of_2 (hself hac)
        · rename_i h1 _
          simp only [List.mem_singleton] at hq; subst hq
          apply preShape3_of_2
          have h1' : 1 ≤ mn := h1
          simp only [preShape2, preShape, cleanOp, Bool.false_and, Bool.false_or, hac, hne, beq_self_eq_true,
            h1', decide_true, Bool.and_self, Bool.or_false]
      · exact addPre_preShape3 ml c hc hwc hne hcan fp mp q hq
    · cases hq
termination_by structural o => o
theorem addPreSeq_preShape3 (ml : Bool) : (ops : List Op) → shape3L ops = true → wfOps ops = true →
    noEmptyAtomsL ops = true → clsCanonBL ops = true →
    ∀ fp mp, ∀ q ∈ addPreSeq ml ops fp mp, preShape3 q.op = true
  | [], _, _, _, _, fp, mp, q, hq => by simp only [addPreSeq] at hq; cases hq
  | o :: os, hc, hwf, hne, hcan, fp, mp, q, hq => by
    simp only [shape3L, Bool.and_eq_true] at hc
    simp only [wfOps, Bool.and_eq_true] at hwf
    simp only [noEmptyAtomsL, Bool.and_eq_true] at hne
    simp only [clsCanonBL, Bool.and_eq_true] at hcan
    simp only [addPreSeq, List.mem_append] at hq
    rcases hq with hq | hq
    · exact addPre_preShape3 ml o hc.1 hwf.1 hne.1 hcan.1 _ mp q hq
    · exact addPreSeq_preShape3 ml os hc.2 hwf.2 hne.2 hcan.2 _ _ q hq
termination_by structural ops => ops
end

/-- every precondition tree of the program has one of the shapes; `T` is the program's (numbered) tree -/
theorem mkProgram_pres_preShape3 (pat : List Nat) (op : Op) (mp : Nat) (fl : CFlags) (hb : Bool)
    (hs : shape3 (numberReps op 0).1 = true) (hwf : wfOp (numberReps op 0).1 = true)
    (hne : noEmptyAtoms (numberReps op 0).1 = true) (hcan : clsCanonB (numberReps op 0).1 = true) :
    ∀ q ∈ (mkProgram pat op mp fl hb).pres, preShape3 q.op = true := by
  obtain ⟨_, _, _, _, _, _, _, _, _, hpres⟩ := mkProgram_shape pat op mp fl hb
  intro q hq
  rcases hpres with he | ⟨n, he⟩
  · rw [he] at hq; cases hq
  · rw [he] at hq
    obtain ⟨p, hp, b, rfl⟩ := mem_numberPres _ _ _ hq
    apply preShape3_numberReps
    exact addPre_preShape3 fl.multiLine _ hs hwf hne hcan none 0 p hp

/-! ## outcomes -/

/-- the search on a program whose tree is in the fragment returns the right outcome -/
theorem clean3_outcome (env : Env) (pat : List Nat) (op : Op) (mp : Nat) (fl : CFlags)
    (lower : Nat → Nat) (input : List Nat) (hI : InputOKFor env fl lower input)
    (hc : cleanProg3 env fl.caseBlind fl.multiLine (mkProgram pat op mp fl false).op = true)
    (hwf : wfOp op = true) (hne : noEmptyAtoms op = true)
    (hcan : clsCanonB (mkProgram pat op mp fl false).op = true) (hlen : input.length < usizeMax)
    (i : Nat) (hi : i ≤ input.length) (st : St) (hst : st.panic = none) :
    Outcome ((mkProgram pat op mp fl false).ctx lower input) (mkProgram pat op mp fl false).op i
      (matchesFrom ((mkProgram pat op mp fl false).ctx lower input) (mkProgram pat op mp fl false) i st) := by
  obtain ⟨hop, _⟩ := WF.mkProgram_op pat op mp fl false
  obtain ⟨hcb, hml, _⟩ := mkProgram_ctx pat op mp fl false lower input
  have hwT : wfOp (mkProgram pat op mp fl false).op = true := by rw [hop, WF.wfOp_numberReps]; exact hwf
  have hnT : noEmptyAtoms (mkProgram pat op mp fl false).op = true := by
    rw [hop, ApiL.noEmptyAtoms_numberReps]; exact hne
  have hnb : hasBackref op = false := by
    have := Clean3.clean3_noBackref' env _ _ _ hc
    rwa [hop, hasBackref_numberReps] at this
  have hsm : C06.smallMin input.length op = true := by
    have := Clean3.clean3_smallMin' env _ _ input.length _ hc hnT
    rwa [hop, smallMin_numberReps] at this
  have hIc := hI.ctx pat op mp false
  have hC : CompleteAt ((mkProgram pat op mp fl false).ctx lower input) (mkProgram pat op mp fl false).op :=
    Clean3.completeAt_clean3 env _ hIc _ (by rw [hcb, hml]; exact hc) hwT hnT hcan
  refine mkProgram_outcome pat op mp fl lower input hwf hnb hne hsm hlen hC ?_ i hi st hst
  intro q hq
  have hs := shape3_of_cleanProg3 env _ _ _ hc
  rw [hop] at hs hwT hnT hcan
  exact preShape3_completeAt env _ hIc q.op (mkProgram_pres_preShape3 pat op mp fl false hs hwT hnT hcan q hq)

/-- … and so does the search with every shortcut off -/
theorem clean3_naive_outcome (env : Env) (pat : List Nat) (op : Op) (mp : Nat) (fl : CFlags)
    (lower : Nat → Nat) (input : List Nat) (hI : InputOKFor env fl lower input)
    (hc : cleanProg3 env fl.caseBlind fl.multiLine (mkProgram pat op mp fl false).op = true)
    (hwf : wfOp op = true) (hne : noEmptyAtoms op = true)
    (hcan : clsCanonB (mkProgram pat op mp fl false).op = true)
    (i : Nat) (st : St) (hst : st.panic = none) :
    Outcome ((mkProgram pat op mp fl false).ctx lower input) (mkProgram pat op mp fl false).op i
      (matchesNaive ((mkProgram pat op mp fl false).ctx lower input) (mkProgram pat op mp fl false).op i st) := by
  obtain ⟨hop, _⟩ := WF.mkProgram_op pat op mp fl false
  obtain ⟨hcb, hml, _, _, hbr⟩ := mkProgram_ctx pat op mp fl false lower input
  have hwT : wfOp (mkProgram pat op mp fl false).op = true := by rw [hop, WF.wfOp_numberReps]; exact hwf
  have hnT : noEmptyAtoms (mkProgram pat op mp fl false).op = true := by
    rw [hop, ApiL.noEmptyAtoms_numberReps]; exact hne
  have hC := Clean3.completeAt_clean3 env _ (hI.ctx pat op mp false) _ (by rw [hcb, hml]; exact hc) hwT hnT hcan
  have hQ : Quiet ((mkProgram pat op mp fl false).ctx lower input) (mkProgram pat op mp fl false).op :=
    quiet_of_wf _ hbr _ (Clean3.clean3_noBackref' env _ _ _ hc) hwT (Clean3.clean3_smallMin' env _ _ _ _ hc hnT)
  exact matchesNaive_outcome hC hQ i st hst

/-- a successful search: group 0 is `(j, n)`, `j` the LEAST start `≥ i` with a match, `n` the head of `enum3` -/
theorem Outcome.span_clean3 {env : Env} {ctx : Ctx} (hI : InputOK env ctx) {o : Op}
    (hc : cleanProg3 env ctx.caseBlind ctx.multiLine o = true) (hwf : wfOp o = true)
    (hne : noEmptyAtoms o = true) (hcan : clsCanonB o = true)
    (hcp : C02.capsPos o = true) {i : Nat} {r : Bool × St} (h : Outcome ctx o i r) (ht : r.1 = true) :
    ∃ j n, getParenStart r.2 0 = some j ∧ getParenEnd r.2 0 = some n ∧
      (enum3 ctx o j).head? = some n ∧ i ≤ j ∧ j ≤ n ∧ n ≤ ctx.len ∧ OpR ctx o j n ∧
      ∀ k q, i ≤ k → k < j → ¬ OpR ctx o k q := by
  rcases h.2 with ⟨_, j, stj, h1, h2, _, hmin, hma⟩ | ⟨hf, _⟩
  · obtain ⟨b, st'⟩ := r
    simp only at ht
    subst ht
    obtain ⟨hs0, n, he, hjn, hnl, hopr⟩ := C02.matchAt_span ctx o hwf hcp j h2 stj st' hma
    have hend := Clean3.matchAt_end3 env ctx hI o hc hwf hne hcan j h2 stj (by rw [hma])
    rw [hma] at hend
    simp only at hend
    exact ⟨j, n, hs0, he, by rw [← hend, he], h1, hjn, hnl, hopr,
      fun k q hik hkj hq => hmin k hik hkj ⟨q, hq⟩⟩
  · rw [hf] at ht; cases ht

end Rx.SearchComplete
