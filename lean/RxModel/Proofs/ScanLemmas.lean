/-
  Proofs/ScanLemmas — helper lemmas for Props/C04: list facts about `slice`, the specification
  functions of Spec/Pieces, and the generalised loop invariants of the three scan loops.
-/
import RxModel.Spec.Pieces
import RxModel.Props.C04Defs
namespace Rx.C04
open Rx Rx.Spec
variable {σ : Type}

/-! ### slices -/

theorem slice_append_drop (s : List Nat) (p a : Nat) (h : p ≤ a) :
    slice s p a ++ s.drop a = s.drop p := by
  unfold slice
  have e : s.drop a = (s.drop p).drop (a - p) := by
    rw [List.drop_drop]; congr 1; omega
  rw [e, List.take_append_drop]

theorem slice_slice_drop (s : List Nat) (p a b : Nat) (h1 : p ≤ a) (h2 : a ≤ b) :
    slice s p a ++ (slice s a b ++ s.drop b) = s.drop p := by
  rw [slice_append_drop s a b h2, slice_append_drop s p a h1]

/-! ### failure results are not `.ok` -/

theorem ofFailed_ne_ok {α : Type} (c : Nat) (r : α) : (Out.ofFailed c : Out α) ≠ .ok r := by
  unfold Out.ofFailed; split <;> simp

theorem ofFailed_cases {α : Type} (c : Nat) :
    (Out.ofFailed c : Out α) = .diverge ∨ (Out.ofFailed c : Out α) = .panic c := by
  unfold Out.ofFailed; split <;> simp

/-! ### `Ordered` -/

theorem ordered_length (len : Nat) : ∀ (l : List (Nat × Nat)) (pos : Nat),
    pos ≤ len → Ordered len pos l → l.length ≤ len - pos
  | [], _, _, _ => by simp
  | (a, b) :: rest, pos, hp, h => by
    obtain ⟨h1, h2, h3, h4⟩ := h
    have := ordered_length len rest b h3 h4
    simp only [List.length_cons]; omega

theorem spanPairs_length (l : List (Nat × Nat × σ)) : (spanPairs l).length = l.length := by
  simp [spanPairs]

theorem spanPairs_cons (a b : Nat) (st : σ) (l : List (Nat × Nat × σ)) :
    spanPairs ((a, b, st) :: l) = (a, b) :: spanPairs l := by
  simp [spanPairs]

theorem spanPairs_nil : spanPairs ([] : List (Nat × Nat × σ)) = [] := rfl

/-! ### unfolding `spansOf` -/

theorem spansOf_ge (M : MatcherI σ) (len g pos : Nat) (st : σ) (h : ¬ pos < len) :
    spansOf M len g pos st = [] := by
  cases g <;> simp [spansOf, h]

theorem spansOf_false (M : MatcherI σ) (len g pos : Nat) (st st' : σ)
    (h : M.find st pos = (false, st')) : spansOf M len g pos st = [] := by
  cases g <;> simp [spansOf, h]

theorem spansOf_true (M : MatcherI σ) (len g pos a b : Nat) (st st' : σ) (hlt : pos < len)
    (h : M.find st pos = (true, st')) (ha : M.start0 st' = some a) (hb : M.end0 st' = some b) :
    spansOf M len (g + 1) pos st = (a, b, st') :: spansOf M len g b st' := by
  simp [spansOf, h, hlt, ha, hb]

/-- every listed span carries the state in which it was found -/
theorem spansOf_mem (M : MatcherI σ) (len : Nat) : ∀ (g pos : Nat) (st : σ),
    ∀ x ∈ spansOf M len g pos st, M.start0 x.2.2 = some x.1 ∧ M.end0 x.2.2 = some x.2.1 := by
  intro g
  induction g with
  | zero => intro pos st x hx; simp [spansOf] at hx
  | succ g ih =>
    intro pos st x hx
    unfold spansOf at hx
    split at hx
    · split at hx
      · split at hx
        · rename_i st' _ _ a b ha hb
          rcases List.mem_cons.mp hx with rfl | hx
          · exact ⟨ha, hb⟩
          · exact ih _ _ _ hx
        · simp at hx
      · simp at hx
    · simp at hx

/-! ### replace -/

theorem first_end (input acc : List Nat) (pos : Nat) (first : Bool)
    (hfirst : first = true → acc = [] ∧ pos = 0) :
    (if first = true then Out.ok input else Out.ok (acc ++ input.drop pos))
      = Out.ok (acc ++ input.drop pos) := by
  cases first
  · simp
  · obtain ⟨rfl, rfl⟩ := hfirst rfl
    simp

/-- the generalised invariant of `replaceLoop`: `g` is the (independent) fuel of `spansOf` -/
theorem replaceLoop_ok (M : MatcherI σ) (Inv : σ → Prop) (input : List Nat) (lit : Bool)
    (subst : Subst σ) (txt : σ → List Nat)
    (hM : GoodFind M input.length Inv)
    (hsub : ∀ st simple a b, Inv st → M.start0 st = some a → M.end0 st = some b →
              ∃ s', subst st simple = some (txt st, s'))
    (f : Nat) : ∀ (g pos : Nat) (st : σ) (first simple : Bool) (acc r : List Nat),
    Inv st → pos ≤ input.length → input.length - pos ≤ g → (first = true → acc = [] ∧ pos = 0) →
    replaceLoop M subst input lit f pos st first simple acc = .ok r →
    r = acc ++ replaced input pos
          ((spansOf M input.length g pos st).map (fun x => (x.1, x.2.1, txt x.2.2)))
    ∧ Ordered input.length pos (spanPairs (spansOf M input.length g pos st)) := by
  induction f with
  | zero => intro g pos st first simple acc r _ _ _ _ h; simp [replaceLoop] at h
  | succ f ih =>
    intro g pos st first simple acc r hI hp hg hfirst h
    unfold replaceLoop at h
    by_cases hlt : pos < input.length
    · simp only [hlt, if_true] at h
      obtain ⟨g', rfl⟩ : ∃ g', g = g' + 1 := ⟨g - 1, by omega⟩
      rcases hfind : M.find st pos with ⟨m, st'⟩
      rw [hfind] at h
      cases hfl : M.failed st' with
      | some c =>
        cases m <;> simp only [hfl] at h <;> exact absurd h (ofFailed_ne_ok c r)
      | none =>
        obtain ⟨hI', hm⟩ := hM.step st pos st' m hI hp hfind hfl
        cases m with
        | false =>
          simp only [hfl, first_end input acc pos first hfirst] at h
          rw [spansOf_false M _ _ _ _ _ hfind]
          simp only [Out.ok.injEq] at h
          simp [replaced, spanPairs, Ordered, h]
        | true =>
          obtain ⟨a, b, ha, hb, hpa, hab, hbl⟩ := hm rfl
          obtain ⟨s', hs⟩ := hsub st' (if first = true then lit else simple) a b hI' ha hb
          have hnlt : ¬ a < pos := by omega
          have hne : (b == pos) = false := by simp; omega
          simp only [hfl, ha, hb, hnlt, if_false, hs, hne] at h
          have := ih g' b st' false _ _ r hI' hbl (by omega) (by simp) h
          rw [spansOf_true M _ _ _ a b _ _ hlt hfind ha hb]
          obtain ⟨h1, h2⟩ := this
          refine ⟨?_, ?_⟩
          · rw [h1]; simp [replaced, List.append_assoc]
          · rw [spanPairs_cons]; exact ⟨hpa, hab, hbl, h2⟩
    · simp only [hlt, if_false, first_end input acc pos first hfirst] at h
      rw [spansOf_ge M _ _ _ _ hlt]
      simp only [Out.ok.injEq] at h
      simp [replaced, spanPairs, Ordered, h]

theorem replaceLoop_ne_diverge (M : MatcherI σ) (Inv : σ → Prop) (input : List Nat) (lit : Bool)
    (subst : Subst σ)
    (hM : GoodFind M input.length Inv)
    (hfail : ∀ st pos, M.failed (M.find st pos).2 = none)
    (f : Nat) : ∀ (pos : Nat) (st : σ) (first simple : Bool) (acc : List Nat),
    Inv st → pos ≤ input.length → input.length - pos + 1 ≤ f →
    replaceLoop M subst input lit f pos st first simple acc ≠ .diverge := by
  induction f with
  | zero => intro pos st first simple acc _ _ hf; omega
  | succ f ih =>
    intro pos st first simple acc hI hp hf h
    unfold replaceLoop at h
    by_cases hlt : pos < input.length
    · simp only [hlt, if_true] at h
      rcases hfind : M.find st pos with ⟨m, st'⟩
      have hfl : M.failed st' = none := by
        have := hfail st pos; rw [hfind] at this; exact this
      rw [hfind] at h
      obtain ⟨hI', hm⟩ := hM.step st pos st' m hI hp hfind hfl
      cases m with
      | false =>
        simp only [hfl] at h
        cases first <;> simp at h
      | true =>
        obtain ⟨a, b, ha, hb, hpa, hab, hbl⟩ := hm rfl
        have hnlt : ¬ a < pos := by omega
        have hne : (b == pos) = false := by simp; omega
        simp only [hfl, ha, hb, hnlt, if_false] at h
        cases hs : subst st' (if first = true then lit else simple) with
        | none => simp [hs] at h
        | some ts =>
          obtain ⟨text, s'⟩ := ts
          simp only [hs, hne] at h
          exact ih b st' false _ _ hI' hbl (by omega) h
    · simp only [hlt, if_false] at h
      cases first <;> simp at h

/-! ### list lemmas about the specification functions -/

theorem replaced_self (input : List Nat) (len : Nat) (txt : σ → List Nat) :
    ∀ (l : List (Nat × Nat × σ)) (pos : Nat),
    Ordered len pos (spanPairs l) → (∀ x ∈ l, txt x.2.2 = slice input x.1 x.2.1) →
    replaced input pos (l.map (fun x => (x.1, x.2.1, txt x.2.2))) = input.drop pos
  | [], pos, _, _ => by simp [replaced]
  | (a, b, st) :: rest, pos, ho, ht => by
    rw [spanPairs_cons] at ho
    obtain ⟨h1, h2, _, h4⟩ := ho
    have e : txt st = slice input a b := ht (a, b, st) (by simp)
    have ih := replaced_self input len txt rest b h4 (fun x hx => ht x (by simp [hx]))
    simp only [List.map_cons, replaced, ih, e, List.append_assoc]
    exact slice_slice_drop input pos a b h1 (by omega)

theorem pieces_ne_nil (s : List Nat) : ∀ (l : List (Nat × Nat)) (pos : Nat),
    ∃ t ts, pieces s pos l = t :: ts
  | [], _ => ⟨_, _, rfl⟩
  | (_, _) :: _, _ => ⟨_, _, rfl⟩

theorem pieces_length (s : List Nat) : ∀ (l : List (Nat × Nat)) (pos : Nat),
    (pieces s pos l).length = l.length + 1
  | [], pos => rfl
  | (a, b) :: rest, pos => by simp [pieces, pieces_length s rest b]

theorem replaced_const (input R : List Nat) :
    ∀ (l : List (Nat × Nat × σ)) (pos : Nat),
    replaced input pos (l.map (fun x => (x.1, x.2.1, R)))
      = joinWith R (pieces input pos (spanPairs l))
  | [], pos => by simp [replaced, spanPairs, pieces, joinWith]
  | (a, b, st) :: rest, pos => by
    have ih := replaced_const input R rest b
    rw [spanPairs_cons]
    obtain ⟨t, ts, e⟩ := pieces_ne_nil input (spanPairs rest) b
    simp only [List.map_cons, replaced, pieces, ih, e, joinWith]

/-! ### tokenize -/

theorem tokenLoop_none (M : MatcherI σ) (input : List Nat) (l : Nat) (st : σ)
    (acc : List (List Nat)) : tokenLoop M input l none st acc = .ok (acc, false) := by
  cases l <;> simp [tokenLoop, tokenNext]

theorem tokenLoop_length (M : MatcherI σ) (input : List Nat) (l : Nat) :
    ∀ (pe : Option Nat) (st : σ) (acc toks : List (List Nat)) (more : Bool),
    tokenLoop M input l pe st acc = .ok (toks, more) → toks.length ≤ acc.length + l := by
  induction l with
  | zero =>
    intro pe st acc toks more h
    unfold tokenLoop at h
    generalize tokenNext M input pe st = x at h
    rcases x with ⟨o, p, s⟩
    rcases o with (_ | _) | _ | _ | _ <;> simp at h <;> simp [h.1]
  | succ l ih =>
    intro pe st acc toks more h
    unfold tokenLoop at h
    generalize tokenNext M input pe st = x at h
    rcases x with ⟨o, p, s⟩
    rcases o with (_ | t) | _ | _ | _ <;> simp at h
    · simp [← h.1]
    · have := ih _ _ _ _ _ h
      simp at this; omega

theorem tokenLoop_ok (M : MatcherI σ) (Inv : σ → Prop) (input : List Nat)
    (hM : GoodFind M input.length Inv) (l : Nat) :
    ∀ (g pe : Nat) (st : σ) (acc toks : List (List Nat)) (more : Bool),
    Inv st → pe ≤ input.length → input.length - pe + 1 ≤ l → input.length - pe ≤ g →
    tokenLoop M input l (some pe) st acc = .ok (toks, more) →
    toks = acc ++ pieces input pe (spanPairs (spansOf M input.length g pe st)) ∧ more = false
    ∧ Ordered input.length pe (spanPairs (spansOf M input.length g pe st)) := by
  induction l with
  | zero => intro g pe st acc toks more _ _ hl; omega
  | succ l ih =>
    intro g pe st acc toks more hI hp hl hg h
    unfold tokenLoop at h
    simp only [tokenNext] at h
    rcases hfind : M.find st pe with ⟨m, st'⟩
    rw [hfind] at h
    cases hfl : M.failed st' with
    | some c =>
      rcases ofFailed_cases (α := Option (List Nat)) c with e | e <;>
        cases m <;> simp [hfl, e] at h
    | none =>
      obtain ⟨hI', hm⟩ := hM.step st pe st' m hI hp hfind hfl
      cases m with
      | false =>
        simp only [hfl, tokenLoop_none] at h
        rw [spansOf_false M _ _ _ _ _ hfind]
        simp at h
        simp [pieces, spanPairs, Ordered, h]
      | true =>
        obtain ⟨a, b, ha, hb, hpa, hab, hbl⟩ := hm rfl
        have hnlt : ¬ a < pe := by omega
        have hlt : pe < input.length := by omega
        obtain ⟨g', rfl⟩ : ∃ g', g = g' + 1 := ⟨g - 1, by omega⟩
        simp only [hfl, ha, hb, hnlt, if_false] at h
        obtain ⟨h1, h2, h3⟩ := ih g' b st' _ _ _ hI' hbl (by omega) (by omega) h
        rw [spansOf_true M _ _ _ a b _ _ hlt hfind ha hb, spanPairs_cons]
        refine ⟨?_, h2, hpa, hab, hbl, h3⟩
        rw [h1]; simp [pieces]

/-! ### analyze -/

theorem analyzeLoop_none (M : MatcherI σ) (entry : σ → List Nat → Out (List MEntry))
    (input : List Nat) (l : Nat) (a : AState σ) (acc : List AEntry) (h : a.prevEnd = none) :
    analyzeLoop M entry input l a acc = .ok (acc, false) := by
  cases l <;> simp [analyzeLoop, analyzeNext, h]

theorem analyzeLoop_length (M : MatcherI σ) (entry : σ → List Nat → Out (List MEntry))
    (input : List Nat) (l : Nat) :
    ∀ (a : AState σ) (acc es : List AEntry) (more : Bool),
    analyzeLoop M entry input l a acc = .ok (es, more) → es.length ≤ acc.length + l := by
  induction l with
  | zero =>
    intro a acc es more h
    unfold analyzeLoop at h
    generalize analyzeNext M entry input a = x at h
    rcases x with ⟨o, s⟩
    rcases o with (_ | _) | _ | _ | _ <;> simp at h <;> simp [h.1]
  | succ l ih =>
    intro a acc es more h
    unfold analyzeLoop at h
    generalize analyzeNext M entry input a = x at h
    rcases x with ⟨o, s⟩
    rcases o with (_ | t) | _ | _ | _ <;> simp at h
    · simp [← h.1]
    · have := ih _ _ _ _ h
      simp at this; omega

/-- the entries specification applied to a span list (with the `entry` results attached) -/
abbrev espans (entry : σ → List Nat → Out (List MEntry)) (input : List Nat)
    (l : List (Nat × Nat × σ)) : List (Nat × Nat × List MEntry) :=
  l.map (fun x => (x.1, x.2.1, entryD entry x.2.2 (slice input x.1 x.2.1)))

/-- all `entry` calls on the listed spans returned `.ok` -/
def EntriesOk (entry : σ → List Nat → Out (List MEntry)) (input : List Nat)
    (l : List (Nat × Nat × σ)) : Prop :=
  ∀ x ∈ l, ∃ es, entry x.2.2 (slice input x.1 x.2.1) = .ok es

theorem analyzeLoop_ok (M : MatcherI σ) (Inv : σ → Prop) (input : List Nat)
    (entry : σ → List Nat → Out (List MEntry))
    (hM : GoodFind M input.length Inv) (l : Nat) :
    (∀ (g pe : Nat) (st : σ) (acc es : List AEntry) (more : Bool),
      Inv st → pe ≤ input.length → 2 * (input.length - pe) + 1 ≤ l → input.length - pe ≤ g →
      analyzeLoop M entry input l { st := st, nextSub := none, prevEnd := some pe, skip := false } acc
        = .ok (es, more) →
      es = acc ++ entries input pe (espans entry input (spansOf M input.length g pe st))
      ∧ more = false
      ∧ Ordered input.length pe (spanPairs (spansOf M input.length g pe st))
      ∧ EntriesOk entry input (spansOf M input.length g pe st))
    ∧
    (∀ (g pe b : Nat) (st : σ) (sub : List Nat) (acc es : List AEntry) (more : Bool),
      Inv st → M.end0 st = some b → b ≤ input.length →
      2 * (input.length - b) + 2 ≤ l → input.length - b ≤ g →
      analyzeLoop M entry input l { st := st, nextSub := some sub, prevEnd := some pe, skip := false } acc
        = .ok (es, more) →
      (∃ es', entry st sub = .ok es')
      ∧ es = acc ++ [.isMatch (entryD entry st sub)]
              ++ entries input b (espans entry input (spansOf M input.length g b st))
      ∧ more = false
      ∧ Ordered input.length b (spanPairs (spansOf M input.length g b st))
      ∧ EntriesOk entry input (spansOf M input.length g b st)) := by
  induction l with
  | zero =>
    refine ⟨?_, ?_⟩
    · intro g pe st acc es more _ _ hl; omega
    · intro g pe b st sub acc es more _ _ _ hl; omega
  | succ l ih =>
    obtain ⟨ihA, ihB⟩ := ih
    refine ⟨?_, ?_⟩
    · intro g pe st acc es more hI hp hl hg h
      unfold analyzeLoop at h
      simp only [analyzeNext, Bool.false_and, Bool.false_eq_true, if_false] at h
      rcases hfind : M.find st pe with ⟨m, st'⟩
      rw [hfind] at h
      cases hfl : M.failed st' with
      | some c =>
        rcases ofFailed_cases (α := Option AEntry) c with e | e <;>
          cases m <;> simp [hfl, e] at h
      | none =>
        obtain ⟨hI', hm⟩ := hM.step st pe st' m hI hp hfind hfl
        cases m with
        | false =>
          simp only [hfl] at h
          rw [spansOf_false M _ _ _ _ _ hfind]
          by_cases hlt : pe < input.length
          · simp only [hlt, if_true] at h
            rw [analyzeLoop_none _ _ _ _ _ _ rfl] at h
            simp at h
            simp [entries, espans, spanPairs, Ordered, EntriesOk, hlt, h]
          · simp only [hlt, if_false] at h
            simp at h
            simp [entries, espans, spanPairs, Ordered, EntriesOk, hlt, h]
        | true =>
          obtain ⟨a, b, ha, hb, hpa, hab, hbl⟩ := hm rfl
          have hnlt : ¬ a < pe := by omega
          have hlt : pe < input.length := by omega
          have hskip : (a == b) = false := by simp; omega
          obtain ⟨g', rfl⟩ : ∃ g', g = g' + 1 := ⟨g - 1, by omega⟩
          rw [spansOf_true M _ _ _ a b _ _ hlt hfind ha hb, spanPairs_cons]
          simp only [hfl, ha, hb, hskip] at h
          by_cases hpea : pe = a
          · subst hpea
            simp only [beq_self_eq_true, if_true] at h
            cases hent : entry st' (slice input pe b) with
            | ok es' =>
              simp only [hent] at h
              obtain ⟨h1, h2, h3, h4⟩ := ihA g' b st' _ _ _ hI' hbl (by omega) (by omega) h
              refine ⟨?_, h2, ⟨hpa, hab, hbl, h3⟩, ?_⟩
              · rw [h1]; simp [entries, espans, entryD, hent]
              · intro x hx
                rcases List.mem_cons.mp hx with rfl | hx
                · exact ⟨es', hent⟩
                · exact h4 x hx
            | err e => simp [hent] at h
            | panic c => simp [hent] at h
            | diverge => simp [hent] at h
          · have hne : (pe == a) = false := by simp [hpea]
            simp only [hne, hnlt, if_false, Bool.false_eq_true] at h
            obtain ⟨⟨es', hent⟩, h1, h2, h3, h4⟩ :=
              ihB g' pe b st' _ _ _ _ hI' hb hbl (by omega) (by omega) h
            have hpa' : pe < a := by omega
            refine ⟨?_, h2, ⟨hpa, hab, hbl, h3⟩, ?_⟩
            · rw [h1]; simp [entries, espans, hpa']
            · intro x hx
              rcases List.mem_cons.mp hx with rfl | hx
              · exact ⟨es', hent⟩
              · exact h4 x hx
    · intro g pe b st sub acc es more hI hb hbl hl hg h
      unfold analyzeLoop at h
      simp only [analyzeNext, hb] at h
      cases hent : entry st sub with
      | ok es' =>
        simp only [hent] at h
        obtain ⟨h1, h2, h3, h4⟩ := ihA g b st _ _ _ hI hbl (by omega) hg h
        refine ⟨⟨es', rfl⟩, ?_, h2, h3, h4⟩
        rw [h1]; simp [entryD, hent]
      | err e => simp [hent] at h
      | panic c => simp [hent] at h
      | diverge => simp [hent] at h

theorem aTextL_append (l1 l2 : List AEntry) : aTextL (l1 ++ l2) = aTextL l1 ++ aTextL l2 := by
  induction l1 with
  | nil => simp [aTextL]
  | cons e es ih => simp [aTextL, ih]

theorem slice_self (s : List Nat) (a : Nat) : slice s a a = [] := by simp [slice]

theorem entries_text (input : List Nat) (entry : σ → List Nat → Out (List MEntry))
    (hentry : ∀ st t es, entry st t = .ok es → mTextL es = t) :
    ∀ (l : List (Nat × Nat × σ)) (pos : Nat),
    Ordered input.length pos (spanPairs l) → EntriesOk entry input l →
    aTextL (entries input pos (espans entry input l)) = input.drop pos
  | [], pos, _, _ => by
    by_cases hlt : pos < input.length
    · simp [entries, espans, aTextL, aText, hlt]
    · simp only [espans, List.map_nil, entries, hlt, if_false, aTextL]
      exact (List.drop_eq_nil_of_le (by omega)).symm
  | (a, b, st) :: rest, pos, ho, hok => by
    rw [spanPairs_cons] at ho
    obtain ⟨h1, h2, _, h4⟩ := ho
    obtain ⟨es', hent⟩ := hok (a, b, st) (by simp)
    have ih := entries_text input entry hentry rest b h4 (fun x hx => hok x (by simp [hx]))
    have hm : mTextL (entryD entry st (slice input a b)) = slice input a b := by
      simp only [entryD, hent]; exact hentry _ _ _ hent
    simp only [espans] at ih
    simp only [espans, List.map_cons, entries, aTextL_append, ih, aTextL, aText, hm,
      List.append_nil]
    by_cases hlt : pos < a
    · simp only [hlt, if_true, aTextL, aText, List.append_nil, List.append_assoc]
      exact slice_slice_drop input pos a b h1 (by omega)
    · have : pos = a := by omega
      subst this
      simp only [hlt, if_false, aTextL, List.nil_append]
      exact slice_append_drop input pos b (by omega)

theorem entries_length (input : List Nat) (entry : σ → List Nat → Out (List MEntry)) :
    ∀ (l : List (Nat × Nat × σ)) (pos : Nat),
    pos ≤ input.length → Ordered input.length pos (spanPairs l) →
    (entries input pos (espans entry input l)).length ≤ 2 * (input.length - pos) + 1
  | [], pos, _, _ => by
    simp only [espans, List.map_nil, entries]; split <;> simp
  | (a, b, st) :: rest, pos, hp, ho => by
    rw [spanPairs_cons] at ho
    obtain ⟨h1, h2, h3, h4⟩ := ho
    have ih := entries_length input entry rest b h3 h4
    simp only [espans] at ih
    simp only [espans, List.map_cons, entries, List.length_append, List.length_cons,
      List.length_nil]
    split <;> simp <;> omega

/-! ### the span sequence itself -/

theorem spansOf_ordered (M : MatcherI σ) (len : Nat) (Inv : σ → Prop) (hM : GoodFind M len Inv)
    (hfail : ∀ st pos, M.failed (M.find st pos).2 = none) (fuel : Nat) :
    ∀ (pos : Nat) (st : σ), Inv st → pos ≤ len →
    Ordered len pos (spanPairs (spansOf M len fuel pos st)) := by
  induction fuel with
  | zero => intro pos st _ _; simp [spansOf, spanPairs, Ordered]
  | succ f ih =>
    intro pos st hI hp
    by_cases hlt : pos < len
    · rcases hfind : M.find st pos with ⟨m, st'⟩
      have hfl : M.failed st' = none := by
        have := hfail st pos; rw [hfind] at this; exact this
      obtain ⟨hI', hm⟩ := hM.step st pos st' m hI hp hfind hfl
      cases m with
      | false => rw [spansOf_false M _ _ _ _ _ hfind]; simp [spanPairs, Ordered]
      | true =>
        obtain ⟨a, b, ha, hb, hpa, hab, hbl⟩ := hm rfl
        rw [spansOf_true M _ _ _ a b _ _ hlt hfind ha hb, spanPairs_cons]
        exact ⟨hpa, hab, hbl, ih b st' hI' hbl⟩
    · rw [spansOf_ge M _ _ _ _ hlt]; simp [spanPairs, Ordered]

end Rx.C04
