/-
  Proofs/ReplLemmas — helper lemmas for Props/C15 (replacement-string expansion).
-/
import RxModel.Spec.Repl
namespace Rx.ReplLemmas
open Rx Rx.Spec

/-! ### digits -/

theorem isDigit_ne {c : Nat} (h : isDigit c = true) : c ≠ 92 ∧ c ≠ 36 := by
  simp only [isDigit, Bool.and_eq_true, decide_eq_true_eq] at h
  omega

theorem isDigit_sub_le {c : Nat} (h : isDigit c = true) : c - 48 ≤ 9 := by
  simp only [isDigit, Bool.and_eq_true, decide_eq_true_eq] at h
  omega

theorem digitsVal_nil : digitsVal [] = 0 := rfl

theorem digitsVal_append_singleton (a : List Nat) (c : Nat) :
    digitsVal (a ++ [c]) = digitsVal a * 10 + (c - 48) := by
  simp [digitsVal, List.foldl_append]

theorem digitsVal_singleton (c : Nat) : digitsVal [c] = c - 48 := by
  simp [digitsVal]

theorem foldl_digits_ge (b : List Nat) (n : Nat) :
    n ≤ b.foldl (fun n d => n * 10 + (d - 48)) n := by
  induction b generalizing n with
  | nil => simp
  | cons c b ih =>
    simp only [List.foldl_cons]
    have := ih (n * 10 + (c - 48))
    omega

theorem digitsVal_le_append (a b : List Nat) : digitsVal a ≤ digitsVal (a ++ b) := by
  simp only [digitsVal, List.foldl_append]
  exact foldl_digits_ge b _

theorem digitsVal_take_mono (ds : List Nat) {k k' : Nat} (h : k ≤ k') :
    digitsVal (ds.take k) ≤ digitsVal (ds.take k') := by
  have : ds.take k' = ds.take k ++ (ds.drop k).take (k' - k) := by
    have e : k' = k + (k' - k) := by omega
    conv => lhs; rw [e]
    exact List.take_add
  rw [this]
  exact digitsVal_le_append _ _

/-! ### spanDigits -/

theorem spanDigits_cons_digit {c : Nat} (rest : List Nat) (h : isDigit c = true) :
    spanDigits (c :: rest) = (c :: (spanDigits rest).1, (spanDigits rest).2) := by
  simp [spanDigits, h]

theorem spanDigits_cons_nondigit {c : Nat} (rest : List Nat) (h : isDigit c = false) :
    spanDigits (c :: rest) = ([], c :: rest) := by
  simp [spanDigits, h]

/-! ### `find?` over the reversed candidate list -/

theorem findRev_some (p : Nat → Bool) (n k : Nat)
    (h : ((List.range n).map (· + 1)).reverse.find? p = some k) :
    1 ≤ k ∧ k ≤ n ∧ p k = true ∧ ∀ j, k < j → j ≤ n → p j = false := by
  induction n with
  | zero => simp at h
  | succ n ih =>
    rw [List.range_succ, List.map_append, List.reverse_append] at h
    simp only [List.map_cons, List.map_nil, List.reverse_cons, List.reverse_nil, List.nil_append,
      List.cons_append, List.find?_cons] at h
    cases hp : p (n + 1) with
    | true =>
      rw [hp] at h
      simp only [Option.some.injEq] at h
      subst h
      refine ⟨by omega, by omega, hp, ?_⟩
      intro j h1 h2; omega
    | false =>
      rw [hp] at h
      obtain ⟨h1, h2, h3, h4⟩ := ih h
      refine ⟨h1, by omega, h3, ?_⟩
      intro j hj1 hj2
      by_cases hj : j = n + 1
      · subst hj; exact hp
      · exact h4 j hj1 (by omega)

theorem findRev_none (p : Nat → Bool) (n : Nat)
    (h : ((List.range n).map (· + 1)).reverse.find? p = none) :
    ∀ j, 1 ≤ j → j ≤ n → p j = false := by
  induction n with
  | zero => intro j h1 h2; omega
  | succ n ih =>
    rw [List.range_succ, List.map_append, List.reverse_append] at h
    simp only [List.map_cons, List.map_nil, List.reverse_cons, List.reverse_nil, List.nil_append,
      List.cons_append, List.find?_cons] at h
    cases hp : p (n + 1) with
    | true => rw [hp] at h; simp at h
    | false =>
      rw [hp] at h
      intro j h1 h2
      by_cases hj : j = n + 1
      · subst hj; exact hp
      · exact ih h j h1 (by omega)

/-- characterisation of `refLen` for more than 9 groups -/
theorem refLen_spec (mc : Nat) (ds : List Nat) (hmc : 9 < mc) (hne : ds ≠ [])
    (h1 : digitsVal (ds.take 1) ≤ mc) :
    1 ≤ refLen mc ds ∧ refLen mc ds ≤ ds.length ∧ digitsVal (ds.take (refLen mc ds)) ≤ mc ∧
      (refLen mc ds = ds.length ∨ mc < digitsVal (ds.take (refLen mc ds + 1))) := by
  have hlen : 1 ≤ ds.length := by
    cases ds with
    | nil => exact absurd rfl hne
    | cons _ _ => simp
  unfold refLen
  rw [if_neg (by omega)]
  split
  · rename_i k hk
    obtain ⟨a, b, c, d⟩ := findRev_some _ _ _ hk
    simp only [decide_eq_true_eq] at c
    refine ⟨a, b, c, ?_⟩
    by_cases hkl : k = ds.length
    · exact Or.inl hkl
    · right
      have := d (k + 1) (by omega) (by omega)
      simp only [decide_eq_false_iff_not] at this
      omega
  · rename_i hk
    have := findRev_none _ _ hk 1 (by omega) hlen
    simp only [decide_eq_false_iff_not] at this
    exact absurd h1 this

/-- the longest admissible prefix is unique -/
theorem longest_unique (mc : Nat) (ds : List Nat) (k1 k2 : Nat)
    (a1 : k1 ≤ ds.length) (b1 : digitsVal (ds.take k1) ≤ mc)
    (c1 : k1 = ds.length ∨ mc < digitsVal (ds.take (k1 + 1)))
    (a2 : k2 ≤ ds.length) (b2 : digitsVal (ds.take k2) ≤ mc)
    (c2 : k2 = ds.length ∨ mc < digitsVal (ds.take (k2 + 1))) : k1 = k2 := by
  rcases Nat.lt_trichotomy k1 k2 with h | h | h
  · rcases c1 with c1 | c1
    · omega
    · have := digitsVal_take_mono ds (show k1 + 1 ≤ k2 by omega)
      omega
  · exact h
  · rcases c2 with c2 | c2
    · omega
    · have := digitsVal_take_mono ds (show k2 + 1 ≤ k1 by omega)
      omega

/-! ### takeDigits -/

theorem takeDigits_length (mc n : Nat) (xs : List Nat) :
    (takeDigits mc n xs).2.length ≤ xs.length := by
  induction xs generalizing n with
  | nil => simp [takeDigits]
  | cons c xs ih =>
    unfold takeDigits
    split
    · simp only
      split
      · simp
      · have := ih (n * 10 + (c - 48))
        simp only [List.length_cons]
        omega
    · simp

/-- greedy = an admissible prefix that cannot be extended -/
theorem takeDigits_spec (mc : Nat) (xs : List Nat) (pre : List Nat) (hpre : digitsVal pre ≤ mc) :
    ∃ j, j ≤ (spanDigits xs).1.length ∧
      takeDigits mc (digitsVal pre) xs = (digitsVal (pre ++ (spanDigits xs).1.take j), xs.drop j) ∧
      digitsVal (pre ++ (spanDigits xs).1.take j) ≤ mc ∧
      (j = (spanDigits xs).1.length ∨ mc < digitsVal (pre ++ (spanDigits xs).1.take (j + 1))) := by
  induction xs generalizing pre with
  | nil => exact ⟨0, by simp [spanDigits, takeDigits, hpre]⟩
  | cons c xs ih =>
    cases hc : isDigit c with
    | false =>
      refine ⟨0, ?_⟩
      simp [spanDigits_cons_nondigit xs hc, takeDigits, hc, hpre]
    | true =>
      rw [spanDigits_cons_digit xs hc]
      by_cases hm : digitsVal pre * 10 + (c - 48) > mc
      · refine ⟨0, ?_⟩
        simp only [List.length_cons, Nat.zero_le, List.take_zero, List.append_nil, List.drop_zero,
          true_and, Nat.zero_add, List.take_succ_cons, hpre]
        refine ⟨?_, Or.inr ?_⟩
        · simp [takeDigits, hc, hm]
        · rw [digitsVal_append_singleton]; exact hm
      · have hpre' : digitsVal (pre ++ [c]) ≤ mc := by
          rw [digitsVal_append_singleton]; omega
        obtain ⟨j, hj1, hj2, hj3, hj4⟩ := ih (pre ++ [c]) hpre'
        refine ⟨j + 1, ?_⟩
        simp only [List.length_cons, List.take_succ_cons, List.drop_succ_cons]
        simp only [List.append_assoc, List.singleton_append] at hj2 hj3 hj4
        refine ⟨by omega, ?_, hj3, ?_⟩
        · rw [← hj2, digitsVal_append_singleton]
          conv => lhs; unfold takeDigits
          simp [hc, hm]
        · rcases hj4 with h | h
          · left; omega
          · right; exact h

/-- the greedy loop takes exactly the digits the specification says -/
theorem takeDigits_eq_refLen (mc d : Nat) (rest : List Nat) (hd : isDigit d = true) (hmc : 9 < mc) :
    takeDigits mc (d - 48) rest =
      (digitsVal ((spanDigits (d :: rest)).1.take (refLen mc (spanDigits (d :: rest)).1)),
        (d :: rest).drop (refLen mc (spanDigits (d :: rest)).1)) := by
  have hd9 := isDigit_sub_le hd
  have hpre : digitsVal [d] ≤ mc := by rw [digitsVal_singleton]; omega
  obtain ⟨j, hj1, hj2, hj3, hj4⟩ := takeDigits_spec mc rest [d] hpre
  rw [spanDigits_cons_digit rest hd]
  simp only
  have hr := refLen_spec mc (d :: (spanDigits rest).1) hmc (by simp)
    (by simpa using hpre)
  obtain ⟨r1, r2, r3, r4⟩ := hr
  have hk : refLen mc (d :: (spanDigits rest).1) = j + 1 := by
    apply longest_unique mc (d :: (spanDigits rest).1) _ _ r2 r3 r4
    · simp only [List.length_cons]; omega
    · simpa using hj3
    · rcases hj4 with h | h
      · left; simp only [List.length_cons]; omega
      · right; simpa using h
  rw [hk]
  rw [digitsVal_singleton] at hj2
  simpa using hj2

/-! ### wfRepl / plainRepl one-step facts -/

theorem wfRepl_cons_plain {c : Nat} (xs : List Nat) (hc : c ≠ 92 ∧ c ≠ 36) :
    wfRepl (c :: xs) = wfRepl xs := by
  cases xs with
  | nil => simp [wfRepl, hc.1, hc.2]
  | cons d xs => simp [wfRepl, hc.1, hc.2]

theorem wfRepl_takeDigits (mc n : Nat) (xs : List Nat) :
    wfRepl (takeDigits mc n xs).2 = wfRepl xs := by
  induction xs generalizing n with
  | nil => simp [takeDigits]
  | cons c xs ih =>
    unfold takeDigits
    split
    · rename_i hc
      simp only
      split
      · rfl
      · rw [ih, wfRepl_cons_plain xs (isDigit_ne hc)]
    · rfl

theorem plainRepl_cons (c : Nat) (xs : List Nat) :
    plainRepl (c :: xs) = (!(c == 92 || c == 36) && plainRepl xs) := by
  simp [plainRepl]

/-! ### the loop against the tokeniser -/

theorem expandGo_tokens (mc : Nat) (grp : Nat → Option (List Nat)) (f : Nat) (rest acc : List Nat)
    (s : Bool) (h : rest.length < f) :
    expandGo mc grp f rest acc s =
      (tokens mc f rest).map
        (fun ts => (acc ++ (ts.map (tokText mc grp)).flatten, s && plainRepl rest)) := by
  induction f generalizing rest acc s with
  | zero => omega
  | succ f ih =>
    cases rest with
    | nil => simp [expandGo, tokens, plainRepl]
    | cons c rest =>
      simp only [List.length_cons] at h
      by_cases h92 : c = 92
      · subst h92
        cases rest with
        | nil => simp [expandGo, tokens]
        | cons d rest' =>
          simp only [List.length_cons] at h
          by_cases hd : (d == 92 || d == 36) = true
          · simp only [expandGo, tokens, hd, if_true, beq_self_eq_true]
            rw [ih rest' _ _ (by omega)]
            simp [Option.map_map, plainRepl_cons, Function.comp_def, tokText]
          · simp [expandGo, tokens, hd]
      · by_cases h36 : c = 36
        · subst h36
          cases rest with
          | nil => simp [expandGo, tokens, spanDigits]
          | cons d rest' =>
            simp only [List.length_cons] at h
            have h3692 : (36 == 92) = false := by decide
            cases hd : isDigit d with
            | false =>
              simp [expandGo, tokens, hd, spanDigits_cons_nondigit rest' hd]
            | true =>
              by_cases hmc : mc ≤ 9
              · have hr : refLen mc (d :: (spanDigits rest').1) = 1 := by simp [refLen, hmc]
                by_cases hn : d - 48 ≤ mc
                · have hn' : mc ≥ d - 48 := hn
                  simp only [expandGo, tokens, hd, spanDigits_cons_digit rest' hd, hr, hmc, hn', h3692, Bool.false_eq_true, reduceIte,
                    beq_self_eq_true, if_true, Bool.not_true, List.isEmpty_cons,
                    List.take_succ_cons, List.take_zero, List.drop_succ_cons, List.drop_zero,
                    digitsVal_singleton]
                  rw [ih rest' _ _ (by omega)]
                  simp [Option.map_map, plainRepl_cons, Function.comp_def, tokText, hn]
                · have hn' : ¬ mc ≥ d - 48 := hn
                  simp only [expandGo, tokens, hd, spanDigits_cons_digit rest' hd, hr, hmc, hn', h3692, Bool.false_eq_true,
                    beq_self_eq_true, if_true, if_false, Bool.not_true, List.isEmpty_cons,
                    List.take_succ_cons, List.take_zero, List.drop_succ_cons, List.drop_zero,
                    digitsVal_singleton]
                  rw [ih rest' _ _ (by omega)]
                  simp [Option.map_map, plainRepl_cons, Function.comp_def, tokText, hn]
              · have hk := takeDigits_eq_refLen mc d rest' hd (by omega)
                simp only [expandGo, tokens, hd, hmc, hk, h3692, Bool.false_eq_true, reduceIte]
                simp only [beq_self_eq_true, if_true, Bool.not_true, spanDigits_cons_digit rest' hd,
                  List.isEmpty_cons]
                have hlen : ((d :: rest').drop (refLen mc (d :: (spanDigits rest').1))).length < f := by
                  simp only [List.length_drop, List.length_cons]; omega
                rw [ih _ _ _ hlen]
                have hle := (refLen_spec mc (d :: (spanDigits rest').1) (by omega) (by simp)
                  (by have := isDigit_sub_le hd; simp [digitsVal_singleton]; omega)).2.2.1
                simp [Option.map_map, plainRepl_cons, Function.comp_def, tokText, hle]
        · have hb92 : (c == 92) = false := by simp [h92]
          have hb36 : (c == 36) = false := by simp [h36]
          simp only [expandGo, tokens, hb92, hb36]
          simp only [Bool.false_eq_true, if_false]
          rw [ih rest _ _ (by omega)]
          simp [Option.map_map, plainRepl_cons, hb92, hb36, tokText, Function.comp_def]

/-! ### acceptance -/

theorem expandGo_isSome (mc : Nat) (grp : Nat → Option (List Nat)) (f : Nat) (rest acc : List Nat)
    (s : Bool) (h : rest.length < f) :
    (expandGo mc grp f rest acc s).isSome = wfRepl rest := by
  induction f generalizing rest acc s with
  | zero => omega
  | succ f ih =>
    cases rest with
    | nil => simp [expandGo, wfRepl]
    | cons c rest =>
      simp only [List.length_cons] at h
      by_cases h92 : c = 92
      · subst h92
        cases rest with
        | nil => simp [expandGo, wfRepl]
        | cons d rest' =>
          simp only [List.length_cons] at h
          by_cases hd : (d == 92 || d == 36) = true
          · simp only [expandGo, wfRepl, hd, if_true, beq_self_eq_true, Bool.true_and]
            exact ih rest' _ _ (by omega)
          · simp [expandGo, wfRepl, hd]
      · by_cases h36 : c = 36
        · subst h36
          have h3692 : (36 == 92) = false := by decide
          cases rest with
          | nil => simp [expandGo, wfRepl]
          | cons d rest' =>
            simp only [List.length_cons] at h
            cases hd : isDigit d with
            | false => simp [expandGo, wfRepl, hd]
            | true =>
              by_cases hmc : mc ≤ 9
              · simp only [expandGo, wfRepl, hd, hmc, h3692, Bool.false_eq_true, if_false, if_true,
                  beq_self_eq_true, Bool.not_true, Bool.true_and]
                exact ih rest' _ _ (by omega)
              · simp only [expandGo, wfRepl, hd, hmc, h3692, Bool.false_eq_true, if_false, if_true,
                  beq_self_eq_true, Bool.not_true, Bool.true_and]
                have hl := takeDigits_length mc (d - 48) rest'
                rw [ih _ _ _ (by omega), wfRepl_takeDigits]
        · have hb92 : (c == 92) = false := by simp [h92]
          have hb36 : (c == 36) = false := by simp [h36]
          simp only [expandGo, hb92, hb36, Bool.false_eq_true, if_false]
          rw [ih rest _ _ (by omega), wfRepl_cons_plain rest ⟨h92, h36⟩]

/-! ### plain replacements -/

theorem expandGo_plain (mc : Nat) (grp : Nat → Option (List Nat)) (f : Nat) (rest acc : List Nat)
    (s : Bool) (h : rest.length < f) (hp : plainRepl rest = true) :
    expandGo mc grp f rest acc s = some (acc ++ rest, s) := by
  induction rest generalizing f acc with
  | nil =>
    cases f with
    | zero => simp [expandGo]
    | succ f => simp [expandGo]
  | cons c rest ih =>
    cases f with
    | zero => simp at h
    | succ f =>
      simp only [List.length_cons] at h
      rw [plainRepl_cons] at hp
      simp only [Bool.and_eq_true, Bool.not_eq_true', Bool.or_eq_false_iff] at hp
      obtain ⟨⟨hb92, hb36⟩, hp⟩ := hp
      simp only [expandGo, hb92, hb36, Bool.false_eq_true, if_false]
      rw [ih f _ (by omega) hp]
      simp

/-! ### independence of fuel, accumulator and flag -/

theorem expandGo_canon (mc : Nat) (grp : Nat → Option (List Nat)) (n : Nat) :
    ∀ (rest : List Nat), rest.length ≤ n → ∀ (f1 f2 : Nat) (acc : List Nat) (s : Bool),
      rest.length < f1 → rest.length < f2 →
      expandGo mc grp f1 rest acc s =
        (expandGo mc grp f2 rest [] true).map (fun r => (acc ++ r.1, s && r.2)) := by
  induction n with
  | zero =>
    intro rest hn f1 f2 acc s h1 h2
    cases rest with
    | nil =>
      cases f1 <;> cases f2 <;> simp [expandGo]
    | cons c rest => simp at hn
  | succ n ih =>
    intro rest hn f1 f2 acc s h1 h2
    cases f1 with
    | zero => omega
    | succ f1 =>
    cases f2 with
    | zero => omega
    | succ f2 =>
    cases rest with
    | nil => simp [expandGo]
    | cons c rest =>
      simp only [List.length_cons] at hn h1 h2
      by_cases h92 : c = 92
      · subst h92
        cases rest with
        | nil => simp [expandGo]
        | cons d rest' =>
          simp only [List.length_cons] at hn h1 h2
          by_cases hd : (d == 92 || d == 36) = true
          · simp only [expandGo, hd, if_true, beq_self_eq_true]
            rw [ih rest' (by omega) f1 f2 (acc ++ [d]) false (by omega) (by omega),
              ih rest' (by omega) f2 f2 ([] ++ [d]) false (by omega) (by omega)]
            simp [Option.map_map, Function.comp_def]
          · simp [expandGo, hd]
      · by_cases h36 : c = 36
        · subst h36
          have h3692 : (36 == 92) = false := by decide
          cases rest with
          | nil => simp [expandGo]
          | cons d rest' =>
            simp only [List.length_cons] at hn h1 h2
            cases hd : isDigit d with
            | false => simp [expandGo, hd]
            | true =>
              by_cases hmc : mc ≤ 9
              · by_cases hn' : mc ≥ d - 48
                · simp only [expandGo, hd, hmc, hn', h3692, Bool.false_eq_true, if_false, if_true,
                    beq_self_eq_true, Bool.not_true]
                  rw [ih rest' (by omega) f1 f2 _ false (by omega) (by omega),
                    ih rest' (by omega) f2 f2 ([] ++ _) false (by omega) (by omega)]
                  simp [Option.map_map, Function.comp_def]
                · simp only [expandGo, hd, hmc, hn', h3692, Bool.false_eq_true, if_false, if_true,
                    beq_self_eq_true, Bool.not_true]
                  rw [ih rest' (by omega) f1 f2 _ false (by omega) (by omega),
                    ih rest' (by omega) f2 f2 [] false (by omega) (by omega)]
                  simp [Option.map_map, Function.comp_def]
              · simp only [expandGo, hd, hmc, h3692, Bool.false_eq_true, if_false, if_true,
                  beq_self_eq_true, Bool.not_true]
                have hl := takeDigits_length mc (d - 48) rest'
                rw [ih _ (by omega) f1 f2 _ false (by omega) (by omega),
                  ih _ (by omega) f2 f2 ([] ++ _) false (by omega) (by omega)]
                simp [Option.map_map, Function.comp_def]
        · have hb92 : (c == 92) = false := by simp [h92]
          have hb36 : (c == 36) = false := by simp [h36]
          simp only [expandGo, hb92, hb36, Bool.false_eq_true, if_false]
          rw [ih rest (by omega) f1 f2 (acc ++ [c]) s (by omega) (by omega),
            ih rest (by omega) f2 f2 ([] ++ [c]) true (by omega) (by omega)]
          simp [Option.map_map, Function.comp_def]

/-- `expandGo` with any sufficient fuel, in terms of `expand` -/
theorem expandGo_eq_expand (mc : Nat) (grp : Nat → Option (List Nat)) (f : Nat) (rest acc : List Nat)
    (s : Bool) (h : rest.length < f) :
    expandGo mc grp f rest acc s = (expand mc grp rest).map (fun r => (acc ++ r.1, s && r.2)) :=
  expandGo_canon mc grp rest.length rest (Nat.le_refl _) f (rest.length + 1) acc s h (Nat.lt_succ_self _)

end Rx.ReplLemmas
