/-
  Proofs/ProbeLemmas — the compiler establishes the hypotheses of C06b (termination without a bound on
  reluctant minima): every `.unamb` node of a compiled tree is over an atom or a class (`unambAC`;
  the parser builds none, `optimize` builds them in `seqElem` only), hence — no empty literal —
  `C06b.unambLeaf`; the recorded preconditions terminate from every position.
-/
import RxModel.Props.C06b
import RxModel.Proofs.CleanSearchLemmas
import RxModel.Proofs.ApiLemmas
import RxModel.Proofs.BrCompileLemmas
namespace Rx
open Rx.C08 (noEmptyAtoms noEmptyAtomsL)
open Rx.C17 (POk)
open Rx.OptL (seqElem optimizeSeq_cons2 seqElem_cases)
open Rx.WF

mutual
/-- every non-backtracking repeat is over an atom or a class -/
def unambAC : Op → Bool
  | .capture _ c => unambAC c
  | .choice bs => unambACL bs
  | .seq ops => unambACL ops
  | .rep _ c _ _ _ => unambAC c
  | .gfixed c _ _ _ => unambAC c
  | .rfixed c _ _ _ => unambAC c
  | .unamb c _ _ => isAtomOrClass c
  | _ => true
termination_by structural o => o
def unambACL : List Op → Bool
  | [] => true
  | o :: os => unambAC o && unambACL os
termination_by structural l => l
end

abbrev UA : Op → PS → Prop := fun op _ => unambAC op = true

theorem unambACL_append (l1 l2 : List Op) :
    unambACL (l1 ++ l2) = (unambACL l1 && unambACL l2) := by
  induction l1 with
  | nil => simp [unambACL]
  | cons a t ih => simp [unambACL, ih, Bool.and_assoc]

theorem unambAC_makeSequence (a b : Op) (ha : unambAC a = true) (hb : unambAC b = true) :
    unambAC (makeSequence a b) = true := by
  unfold makeSequence
  split
  · simp only [unambAC] at ha hb ⊢; rw [unambACL_append, ha, hb]; rfl
  · simp only [unambAC] at ha ⊢; rw [unambACL_append, ha]; simp [unambACL, hb]
  · simp only [unambAC] at hb ⊢; simp [unambACL, ha, hb]
  · simp [unambAC, unambACL, ha, hb]

theorem parseAtom_UA (c : PC) (s : PS) : POk UA (parseAtom c s) := by
  rw [parseAtom]
  split
  · exact POk.err
  · apply POk.ite <;> intro h
    · exact POk.err
    · exact POk.ok rfl

theorem pieceQuant_UA (c : PC) (ret : Op) (s : PS) (h : unambAC ret = true) :
    POk UA (pieceQuant c ret s) := by
  rw [pieceQuant]
  apply POk.ite <;> intro _
  · exact POk.ok h
  · extract_lets q r
    clear_value r
    cases r with
    | err e => exact POk.err
    | ok hasQ s1 =>
      dsimp -zeta only
      extract_lets +onlyGivenNames qt0
      generalize hpr : (if (hasQ && isAnchor ret) = true then
          (if (qt0 == 63 || qt0 == 42 || (qt0 == 123 && s1.bmin == 0)) = true then
            ((Op.nothing, 0) : Op × Nat) else (ret, 0)) else (ret, qt0)) = pr
      have hp1 : unambAC pr.1 = true := by
        subst hpr
        split
        · split
          · rfl
          · exact h
        · exact h
      clear_value qt0
      clear hpr
      extract_lets qt reluctant s2 greedy mm mn mx
      clear_value mx mn mm greedy s2 qt
      have hg : ∀ a b l, unambAC (.gfixed pr.1 a b l) = true := fun _ _ _ => by
        simp only [unambAC]; exact hp1
      have hr : ∀ a b l, unambAC (.rfixed pr.1 a b l) = true := fun _ _ _ => by
        simp only [unambAC]; exact hp1
      have hrep : ∀ a b g, unambAC (.rep 0 pr.1 a b g) = true := fun _ _ _ => by
        simp only [unambAC]; exact hp1
      apply POk.ite <;> intro _
      · exact POk.err
      apply POk.ite <;> intro _
      · exact POk.ok rfl
      apply POk.ite <;> intro _
      · exact POk.ok hp1
      apply POk.ite <;> intro _
      · apply POk.ite <;> intro _
        · exact POk.ok rfl
        · exact POk.ok hp1
      apply POk.ite <;> intro _
      · split
        · apply POk.ite <;> intro _
          · exact POk.ok (hg _ _ _)
          · exact POk.ok rfl
        · exact POk.ok (hrep _ _ _)
      · split
        · exact POk.ok (hr _ _ _)
        · exact POk.ok (hrep _ _ _)

/-- the parser builds no `.unamb` node at all -/
theorem parse_UA (c : PC) (f : Nat) :
    (∀ s top, POk UA (parseExpr c f s top)) ∧
    (∀ s acc, unambACL acc = true →
      POk (fun l _ => unambACL l = true) (parseBranches c f s acc)) ∧
    (∀ s cur, (∀ o, cur = some o → unambAC o = true) → POk UA (parseBranch c f s cur)) ∧
    (∀ s, POk UA (parseTerminal c f s)) := by
  induction f with
  | zero =>
    refine ⟨fun s top => ?_, fun s acc _ => ?_, fun s cur _ => ?_, fun s => ?_⟩
    · rw [parseExpr]; exact POk.err
    · rw [parseBranches]; exact POk.err
    · rw [parseBranch]; exact POk.err
    · rw [parseTerminal]; exact POk.err
  | succ f ih =>
    obtain ⟨ihE, ihBs, ihB, ihT⟩ := ih
    refine ⟨fun s top => ?_, fun s acc hacc => ?_, fun s cur hcur => ?_, fun s => ?_⟩
    · rw [parseExpr]
      split
      · exact POk.err
      · rename_i paren s1 heq
        split
        · exact POk.err
        · rename_i b1 s2 heq2
          have g2 : unambAC b1 = true := ihB s1 none (by simp) _ _ heq2
          split
          · exact POk.err
          · rename_i branches s3 heq3
            have g3 : unambACL branches = true :=
              ihBs s2 [b1] (by simp [unambACL, g2]) _ _ heq3
            extract_lets op
            have hop : unambAC op = true := by
              simp only [op]
              cases branches with
              | nil => rfl
              | cons b t =>
                cases t with
                | nil => simpa [unambACL] using g3
                | cons b2 t2 => simpa only [unambAC] using g3
            clear_value op
            apply POk.ite <;> intro _
            · apply POk.ite <;> intro _
              · apply POk.ite <;> intro _
                · exact POk.ok (by simpa only [UA, unambAC] using hop)
                · exact POk.ok hop
              · exact POk.err
            · exact POk.ok (unambAC_makeSequence _ _ hop rfl)
    · rw [parseBranches]
      apply POk.ite <;> intro _
      · split
        · exact POk.err
        · rename_i b s1 heq
          have g1 : unambAC b = true := ihB { s with idx := s.idx + 1 } none (by simp) _ _ heq
          exact ihBs s1 _ (by rw [unambACL_append, hacc]; simp [unambACL, g1])
      · exact POk.ok hacc
    · rw [parseBranch]
      apply POk.ite <;> intro _
      · split
        · exact POk.err
        · rename_i ret s1 heq
          have g1 : unambAC ret = true := ihT s _ _ heq
          split
          · exact POk.err
          · rename_i op s2 heq2
            have gop : unambAC op = true := pieceQuant_UA c ret s1 g1 _ _ heq2
            refine ihB s2 _ ?_
            intro o ho
            cases cur with
            | none => cases ho; exact gop
            | some cu => cases ho; exact unambAC_makeSequence _ _ (hcur cu rfl) gop
      · refine POk.ok ?_
        cases cur with
        | none => rfl
        | some cu => exact hcur cu rfl
    · rw [parseTerminal]
      repeat' first
        | exact POk.err
        | (apply POk.ite <;> intro _)
        | exact ihE _ _
        | exact parseAtom_UA c s
        | exact POk.ok rfl
      · split
        · exact POk.err
        · exact POk.ok rfl
      · split
        · exact POk.err
        · apply POk.ite <;> intro _
          · exact POk.err
          · exact POk.ok rfl
        · exact parseAtom_UA c _
        · exact POk.ok rfl

theorem seqElem_UA (env : Env) (fl : CFlags) (opt nxt : Op) (h : unambAC opt = true) :
    unambAC (seqElem env fl opt nxt) = true := by
  unfold seqElem
  split
  · rename_i child mn mx greedy _
    split
    · rename_i hac
      split
      · simp only [unambAC]; exact hac
      · split
        · simp only [unambAC]; exact hac
        · exact h
    · exact h
  · exact h

mutual
theorem unambAC_optimize (env : Env) (fl : CFlags) : ∀ (op : Op), unambAC op = true →
    unambAC (optimize env fl op) = true
  | .bol, h | .eol, h | .nothing, h | .endProgram, h => by simp only [optimize]; exact h
  | .atom _, h | .cls _, h | .backref _, h => by simp only [optimize]; exact h
  | .capture _ x, h => by
      simp only [unambAC] at h
      simp only [optimize, unambAC]; exact unambAC_optimize env fl x h
  | .choice bs, h => by
      simp only [unambAC] at h; simp only [optimize, unambAC]; exact unambACL_optimizeL env fl bs h
  | .seq ops, h => by
      simp only [unambAC] at h
      have ih := unambACL_optimizeSeq env fl ops h
      cases ops with
      | nil => simp only [optimize, unambAC]
      | cons o t =>
        cases t with
        | nil =>
          simp only [unambACL, Bool.and_true] at h
          simp only [optimize]; exact h
        | cons o2 os => simp only [optimize, unambAC]; exact ih
  | .rep _ x mn mx _, h => by
      simp only [unambAC] at h; simp only [optimize, unambAC]; exact unambAC_optimize env fl x h
  | .gfixed x mn mx len, h => by
      simp only [unambAC] at h
      simp only [optimize]
      split
      · simp only [unambAC]
      · split
        · exact h
        · simp only [unambAC]; exact unambAC_optimize env fl x h
  | .rfixed x mn mx len, h => by
      simp only [unambAC] at h; simp only [optimize, unambAC]; exact unambAC_optimize env fl x h
  | .unamb x mn mx, h => by
      simp only [unambAC] at h
      simp only [optimize, unambAC]
      cases x <;> first | (simp only [optimize]; exact h) | (simp [isAtomOrClass] at h)
termination_by structural op => op
theorem unambACL_optimizeL (env : Env) (fl : CFlags) : ∀ (l : List Op), unambACL l = true →
    unambACL (optimizeL env fl l) = true
  | [], _ => by simp only [optimizeL, unambACL]
  | o :: os, h => by
      simp only [unambACL, Bool.and_eq_true] at h
      simp only [optimizeL, unambACL, Bool.and_eq_true]
      exact ⟨unambAC_optimize env fl o h.1, unambACL_optimizeL env fl os h.2⟩
termination_by structural l => l
theorem unambACL_optimizeSeq (env : Env) (fl : CFlags) : ∀ (l : List Op), unambACL l = true →
    unambACL (optimizeSeq env fl l) = true
  | [], _ => by simp only [optimizeSeq, unambACL]
  | [o], h => by
      simp only [unambACL, Bool.and_true] at h
      simp only [optimizeSeq, unambACL, Bool.and_true]
      exact unambAC_optimize env fl o h
  | o :: nxt :: os, h => by
      have h' : unambAC o = true ∧ unambACL (nxt :: os) = true := by
        simpa only [unambACL, Bool.and_eq_true] using h
      rw [optimizeSeq_cons2]
      have a1 := seqElem_UA env fl _ nxt (unambAC_optimize env fl o h'.1)
      have a2 := unambACL_optimizeSeq env fl (nxt :: os) h'.2
      simp only [unambACL, Bool.and_eq_true] at a2 ⊢
      exact ⟨a1, a2⟩
termination_by structural l => l
end

mutual
/-- over an atom or a class, and no empty literal: over a single non-empty character -/
theorem unambLeaf_of_AC : (op : Op) → unambAC op = true → noEmptyAtoms op = true → C06b.unambLeaf op = true
  | .bol, _, _ | .eol, _, _ | .nothing, _, _ | .endProgram, _, _ | .atom _, _, _ | .cls _, _, _
  | .backref _, _, _ => rfl
  | .capture _ c, h, hn => by
    simp only [unambAC] at h; simp only [noEmptyAtoms] at hn; simp only [C06b.unambLeaf]
    exact unambLeaf_of_AC c h hn
  | .choice bs, h, hn => by
    simp only [unambAC] at h; simp only [noEmptyAtoms] at hn; simp only [C06b.unambLeaf]
    exact unambLeafL_of_AC bs h hn
  | .seq ops, h, hn => by
    simp only [unambAC] at h; simp only [noEmptyAtoms] at hn; simp only [C06b.unambLeaf]
    exact unambLeafL_of_AC ops h hn
  | .rep _ c _ _ _, h, hn => by
    simp only [unambAC] at h; simp only [noEmptyAtoms] at hn; simp only [C06b.unambLeaf]
    exact unambLeaf_of_AC c h hn
  | .gfixed c _ _ _, h, hn => by
    simp only [unambAC] at h; simp only [noEmptyAtoms] at hn; simp only [C06b.unambLeaf]
    exact unambLeaf_of_AC c h hn
  | .rfixed c _ _ _, h, hn => by
    simp only [unambAC] at h; simp only [noEmptyAtoms] at hn; simp only [C06b.unambLeaf]
    exact unambLeaf_of_AC c h hn
  | .unamb c _ _, h, hn => by
    simp only [unambAC] at h; simp only [noEmptyAtoms] at hn; simp only [C06b.unambLeaf]
    cases c <;> first | (simpa only [noEmptyAtoms] using hn) | rfl | (simp [isAtomOrClass] at h)
termination_by structural op => op
theorem unambLeafL_of_AC : (l : List Op) → unambACL l = true → noEmptyAtomsL l = true → C06b.unambLeafL l = true
  | [], _, _ => rfl
  | o :: os, h, hn => by
    simp only [unambACL, Bool.and_eq_true] at h
    simp only [noEmptyAtomsL, Bool.and_eq_true] at hn
    simp only [C06b.unambLeafL, Bool.and_eq_true]
    exact ⟨unambLeaf_of_AC o h.1 hn.1, unambLeafL_of_AC os h.2 hn.2⟩
termination_by structural l => l
end

mutual
theorem unambAC_numberReps : (op : Op) → ∀ n, unambAC (numberReps op n).1 = unambAC op
  | .bol, n | .eol, n | .nothing, n | .endProgram, n | .atom _, n | .cls _, n | .backref _, n => by
    simp only [numberReps]
  | .capture g x, n => by simp only [numberReps, unambAC]; rw [unambAC_numberReps x n]
  | .choice bs, n => by simp only [numberReps, unambAC]; exact unambACL_numberRepsL bs n
  | .seq ops, n => by simp only [numberReps, unambAC]; exact unambACL_numberRepsL ops n
  | .rep id x mn mx g, n => by simp only [numberReps, unambAC]; exact unambAC_numberReps x (n + 1)
  | .gfixed x mn mx len, n => by simp only [numberReps, unambAC]; exact unambAC_numberReps x n
  | .rfixed x mn mx len, n => by simp only [numberReps, unambAC]; exact unambAC_numberReps x n
  | .unamb x mn mx, n => by
    simp only [numberReps, unambAC]
    cases x <;> simp only [numberReps, isAtomOrClass]
termination_by structural op => op
theorem unambACL_numberRepsL : (l : List Op) → ∀ n, unambACL (numberRepsL l n).1 = unambACL l
  | [], n => by simp only [numberRepsL]
  | o :: os, n => by
    simp only [numberRepsL, unambACL]
    rw [unambAC_numberReps o n, unambACL_numberRepsL os]
termination_by structural l => l
end

/-! ### the compiler -/

/-- the literal program (flag `q`): its only precondition is the literal itself -/
theorem literal_pres (pat : List Nat) (fl : CFlags) :
    ∀ q ∈ (mkProgram pat (makeSequence (.atom pat) .endProgram) 1 fl false).pres, q.op = .atom pat := by
  intro q hq
  simp [mkProgram, makeSequence, numberReps, numberRepsL, addPre, addPreSeq, numberPres] at hq
  rw [hq]

/-- **`is_match` terminates on every program the compiler produces** (fix abfdb8a), for every input -/
theorem compile_no_diverge (env : Env) (fl : CFlags) (pat : List Nat) (pr : Prog)
    (h : compileCore env fl pat true = .ok pr)
    (hns : ∀ op s, parseExpr { pat := pat, fl := fl, env := env } (4 * pat.length + 16) {} true = .ok op s →
              noSat (optimize env fl op) = true ∧ noSat op = true)
    (lower : Nat → Nat) (input : List Nat) : pr.isMatch lower input ≠ .diverge := by
  have hwf : wfOp pr.op = true := (WF.compile_wf env fl pat pr h hns).1
  unfold compileCore at h
  by_cases hl : fl.literal = true
  · rw [if_pos hl] at h
    simp only [if_true, Out.ok.injEq] at h
    subst h
    refine C06b.isMatch_no_diverge_pre _ lower input hwf ?_ (fun q hq p st hm => ?_)
    · rw [(mkProgram_op _ _ _ _ _).1]
      simp [makeSequence, numberReps, numberRepsL, C06b.unambLeaf, C06b.unambLeafL]
    · rw [literal_pres pat fl q hq]
      simp only [sem]
      exact atomGen_term _ pat p st hm
  · rw [if_neg hl] at h
    dsimp only at h
    cases hp : parseExpr { pat := pat, fl := fl, env := env } (4 * pat.length + 16) {} true with
    | err e => rw [hp] at h; cases h
    | ok op s =>
      rw [hp] at h
      dsimp only at h
      split at h
      · cases h
      · simp only [if_true, Out.ok.injEq] at h
        subst h
        obtain ⟨_, hns2⟩ := hns op s hp
        have w1 : wfOp op = true := ((parse_G _ _).1 {} true (Nat.le_refl 1) op s hp).1 hns2
        have hwo : wfOp (optimize env fl op) = true := (wm_optimize env fl op w1).1
        have hne : noEmptyAtoms (optimize env fl op) = true :=
          SearchComplete.optimize_NE env fl op ((SearchComplete.parse_NE _ _).1 _ _ _ _ hp)
        have hua : unambAC (optimize env fl op) = true :=
          unambAC_optimize env fl op ((parse_UA _ _).1 _ _ _ _ hp)
        refine C06b.isMatch_no_diverge_all _ lower input hwf ?_
          (ApiL.mkProgram_pres_simple _ _ _ _ _ hwo hne)
        rw [(mkProgram_op _ _ _ _ _).1]
        apply unambLeaf_of_AC
        · rw [unambAC_numberReps]; exact hua
        · rw [ApiL.noEmptyAtoms_numberReps]; exact hne

end Rx
