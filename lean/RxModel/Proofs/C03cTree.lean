/-
  Proofs/C03cTree — `process_matching_substring` (Model/Api: `buildActions`, `walk`, `hEvents`) builds
  the group tree of a well-nested family of spans.  Used by Props/C03c (`analyze_groups`).

  Plan:  the position → events map is read as a function `EvF`;  one iteration of `buildActions` is
  `stepE`;  over a forest of spans listed in preorder the fold yields at every position exactly the
  events of the forest's linearisation (`foldL_forest`);  `walk` over such a map is a stack machine run
  over the linearisation (`walk_run`), which builds the tree `outF`.
-/
import RxModel.Proofs.C03cLemmas
namespace Rx

/-! ### the actions map as a function -/

abbrev EvF := Nat → List Ev

def evOf (acts : Actions) : EvF := fun p => (actGet acts p).getD []

def upd (E : EvF) (k : Nat) (v : List Ev) : EvF := fun p => if p = k then v else E p

/-- no position is mapped to the empty event list -/
def ActsOK (acts : Actions) : Prop := ∀ p, actGet acts p ≠ some []

theorem actGet_actSet (a : Actions) (k : Nat) (v : List Ev) (k' : Nat) :
    actGet (actSet a k v) k' = if k' = k then some v else actGet a k' := by
  induction a with
  | nil =>
    simp only [actSet, actGet]
    by_cases h : k' = k
    · subst h; simp
    · have : (k == k') = false := by simp; omega
      simp [h, this]
  | cons x t ih =>
    obtain ⟨p, w⟩ := x
    simp only [actSet]
    by_cases hpk : p = k
    · subst hpk
      simp only [beq_self_eq_true, if_true, actGet]
      by_cases h : k' = p
      · subst h; simp
      · have : (p == k') = false := by simp; omega
        simp [h, this]
    · have hpk' : (p == k) = false := by simp [hpk]
      simp only [hpk', Bool.false_eq_true, if_false, actGet]
      by_cases hpk2 : p = k'
      · subst hpk2
        simp only [beq_self_eq_true, if_true]
        rw [if_neg hpk]
      · have : (p == k') = false := by simp [hpk2]
        simp only [this, Bool.false_eq_true, if_false]
        exact ih

theorem evOf_actSet (a : Actions) (k : Nat) (v : List Ev) : evOf (actSet a k v) = upd (evOf a) k v := by
  funext p
  simp only [evOf, upd, actGet_actSet]
  split <;> rfl

theorem ActsOK.set {a : Actions} (h : ActsOK a) (k : Nat) (v : List Ev) (hv : v ≠ []) : ActsOK (actSet a k v) := by
  intro p
  rw [actGet_actSet]
  split
  · intro hc; exact hv (by simpa using hc)
  · exact h p

theorem actsOK_nil : ActsOK [] := by intro p; simp [actGet]

theorem actGet_of_evOf {a : Actions} (h : ActsOK a) (p : Nat) :
    actGet a p = if evOf a p = [] then none else some (evOf a p) := by
  unfold evOf
  cases hg : actGet a p with
  | none => simp
  | some v =>
    have : v ≠ [] := fun hc => h p (by rw [hg, hc])
    simp [this]

/-! ### one iteration of `buildActions`, on functions -/

/-- what one set group `g` with span `(a, b)` (relative to the start of the match) does to the map;
    `parent` is what the nesting table answers for `g` -/
def stepE (parent : Nat) (E : EvF) (g a b : Nat) : EvF :=
  if a < b then
    upd (upd E a (E a ++ [(true, g)])) b ((false, g) :: E b)
  else
    upd E a (insertAt (E a) (findEnd parent (E a)) [(true, g), (false, g)])

/-- the groups to process: (number, start, end), in increasing order of the number -/
abbrev GSpan := Nat × Nat × Nat

def foldL (tbl : List (Nat × Nat)) : List GSpan → EvF → Option EvF
  | [], E => some E
  | (g, a, b) :: rest, E =>
    if a < b then foldL tbl rest (stepE 0 E g a b)
    else match lookupNat tbl g with
      | none => none
      | some parent => foldL tbl rest (stepE parent E g a b)

theorem foldL_append (tbl : List (Nat × Nat)) (l1 l2 : List GSpan) (E : EvF) :
    foldL tbl (l1 ++ l2) E = (foldL tbl l1 E).bind (foldL tbl l2) := by
  induction l1 generalizing E with
  | nil => rfl
  | cons x l1 ih =>
    obtain ⟨g, a, b⟩ := x
    simp only [List.cons_append, foldL]
    split
    · exact ih _
    · split
      · rfl
      · exact ih _

theorem stepE_lt (p1 p2 : Nat) (E : EvF) (g a b : Nat) (h : a < b) : stepE p1 E g a b = stepE p2 E g a b := by
  simp only [stepE, if_pos h]

/-- `buildActions` over the group numbers `i .. i+n-1`, when the set groups among them are exactly
    those of `L` (increasing), with the spans of `L` relative to `s0` -/
theorem buildActions_foldL (st : St) (tbl : List (Nat × Nat)) (s0 : Nat) :
    ∀ (n i : Nat) (L : List GSpan) (acts : Actions), ActsOK acts →
    L.Pairwise (fun x y => x.1 < y.1) → (∀ x ∈ L, i ≤ x.1 ∧ x.1 < i + n ∧ x.2.1 ≤ x.2.2) →
    (∀ x ∈ L, getParenStart st x.1 = some (s0 + x.2.1) ∧ getParenEnd st x.1 = some (s0 + x.2.2)) →
    (∀ k, i ≤ k → k < i + n → (∀ x ∈ L, x.1 ≠ k) → getParenStart st k = none) →
    (buildActions st tbl s0 n i acts = none ∧ foldL tbl L (evOf acts) = none) ∨
    (∃ acts', buildActions st tbl s0 n i acts = some acts' ∧ ActsOK acts' ∧
       foldL tbl L (evOf acts) = some (evOf acts')) := by
  intro n
  induction n with
  | zero =>
    intro i L acts hok _ hL _ _
    cases L with
    | nil => exact .inr ⟨acts, rfl, hok, rfl⟩
    | cons x L => have := hL x List.mem_cons_self; omega
  | succ n ih =>
    intro i L acts hok hsort hL hset hunset
    unfold buildActions
    by_cases hmem : ∃ x ∈ L, x.1 = i
    · -- `i` is the head of `L`
      obtain ⟨x, hx, hxi⟩ := hmem
      cases L with
      | nil => cases hx
      | cons y L' =>
        have hy : y.1 = i := by
          rcases List.mem_cons.1 hx with rfl | hx'
          · exact hxi
          · have h1 := (List.pairwise_cons.1 hsort).1 x hx'
            have h2 := (hL y List.mem_cons_self).1
            omega
        obtain ⟨g, a, b⟩ := y
        simp only at hy
        subst hy
        obtain ⟨hs, he⟩ := hset (g, a, b) List.mem_cons_self
        have hab := (hL (g, a, b) List.mem_cons_self).2.2
        simp only at hs he hab
        rw [hs]
        simp only
        rw [if_neg (by omega), he]
        simp only
        rw [if_neg (by omega)]
        have e1 : s0 + a - s0 = a := by omega
        have e2 : s0 + b - s0 = b := by omega
        rw [e1, e2]
        have hsort' := (List.pairwise_cons.1 hsort).2
        have hL' : ∀ x ∈ L', g + 1 ≤ x.1 ∧ x.1 < g + 1 + n ∧ x.2.1 ≤ x.2.2 := by
          intro x hx'
          have h1 := (List.pairwise_cons.1 hsort).1 x hx'
          have h2 := hL x (List.mem_cons_of_mem _ hx')
          simp only at h1
          omega
        have hset' : ∀ x ∈ L', getParenStart st x.1 = some (s0 + x.2.1) ∧ getParenEnd st x.1 = some (s0 + x.2.2) :=
          fun x hx' => hset x (List.mem_cons_of_mem _ hx')
        have hunset' : ∀ k, g + 1 ≤ k → k < g + 1 + n → (∀ x ∈ L', x.1 ≠ k) → getParenStart st k = none := by
          intro k h1 h2 h3
          apply hunset k (by omega) (by omega)
          intro x hx'
          rcases List.mem_cons.1 hx' with rfl | hx''
          · simp only; omega
          · exact h3 x hx''
        simp only [foldL]
        by_cases hlt : a < b
        · simp only [hlt, if_true]
          have hok' : ActsOK (actSet (actSet acts a ((actGet acts a).getD [] ++ [(true, g)])) b
              ((false, g) :: (actGet (actSet acts a ((actGet acts a).getD [] ++ [(true, g)])) b).getD [])) :=
            (hok.set _ _ (by simp)).set _ _ (by simp)
          have hev : evOf (actSet (actSet acts a ((actGet acts a).getD [] ++ [(true, g)])) b
              ((false, g) :: (actGet (actSet acts a ((actGet acts a).getD [] ++ [(true, g)])) b).getD []))
              = stepE 0 (evOf acts) g a b := by
            rw [evOf_actSet, evOf_actSet]
            simp only [stepE, if_pos hlt]
            congr 1
            rw [actGet_actSet, if_neg (by omega)]
            rfl
          have := ih (g + 1) L' _ hok' hsort' hL' hset' hunset'
          rw [hev] at this
          exact this
        · simp only [hlt, if_false]
          cases hlk : lookupNat tbl g with
          | none => exact .inl ⟨rfl, rfl⟩
          | some parent =>
            simp only
            have hab' : a = b := by omega
            subst hab'
            have hstep : ∀ acts2 : Actions, (acts2 = match actGet acts a with
                | some v => actSet acts a (insertAt v (findEnd parent v) [(true, g), (false, g)])
                | none => actSet acts a [(true, g), (false, g)]) →
                ActsOK acts2 ∧ evOf acts2 = stepE parent (evOf acts) g a a := by
              intro acts2 h2
              cases hg : actGet acts a with
              | none =>
                rw [hg] at h2
                subst h2
                refine ⟨hok.set _ _ (by simp), ?_⟩
                rw [evOf_actSet]
                simp only [stepE, Nat.lt_irrefl, if_false, evOf, hg, Option.getD_none, findEnd, insertAt,
                  List.take_nil, List.drop_nil, List.nil_append, List.append_nil]
              | some v =>
                rw [hg] at h2
                subst h2
                refine ⟨hok.set _ _ (by simp [insertAt]), ?_⟩
                rw [evOf_actSet]
                simp only [stepE, Nat.lt_irrefl, if_false, evOf, hg, Option.getD_some]
            obtain ⟨hok', hev⟩ := hstep _ rfl
            have := ih (g + 1) L' _ hok' hsort' hL' hset' hunset'
            rw [hev] at this
            exact this
    · -- `i` is not set
      have hno : ∀ x ∈ L, x.1 ≠ i := fun x hx hc => hmem ⟨x, hx, hc⟩
      rw [hunset i (Nat.le_refl _) (by omega) hno]
      simp only
      apply ih (i + 1) L acts hok hsort _ hset
      · intro k h1 h2 h3
        exact hunset k (by omega) (by omega) h3
      · intro x hx
        have := hL x hx
        have := hno x hx
        omega

/-! ### forests of spans -/

/-- a group with its span and the groups nested inside it -/
inductive GT where
  | node (g a b : Nat) (kids : List GT)

def GT.grp : GT → Nat | .node g _ _ _ => g
def GT.lo : GT → Nat | .node _ a _ _ => a
def GT.hi : GT → Nat | .node _ _ b _ => b

mutual
/-- the spans in preorder -/
def flatT : GT → List GSpan
  | .node g a b ks => (g, a, b) :: flatF ks
termination_by structural t => t
def flatF : List GT → List GSpan
  | [] => []
  | t :: ts => flatT t ++ flatF ts
termination_by structural l => l
end

mutual
/-- the events of the linearisation that sit at position `x` -/
def evsT (x : Nat) : GT → List Ev
  | .node g a b ks => (if a = x then [(true, g)] else []) ++ evsF x ks ++ (if b = x then [(false, g)] else [])
termination_by structural t => t
def evsF (x : Nat) : List GT → List Ev
  | [] => []
  | t :: ts => evsT x t ++ evsF x ts
termination_by structural l => l
end

mutual
/-- well-nested, ordered left to right, inside `[lo, hi]` -/
def WithinT (lo hi : Nat) : GT → Prop
  | .node _ a b ks => lo ≤ a ∧ a ≤ b ∧ b ≤ hi ∧ WithinF a b ks
termination_by structural t => t
def WithinF (lo hi : Nat) : List GT → Prop
  | [] => lo ≤ hi
  | t :: ts => WithinT lo hi t ∧ WithinF t.hi hi ts
termination_by structural l => l
end

mutual
/-- the nesting table answers the enclosing group (`par` for the roots) -/
def ParT (tbl : List (Nat × Nat)) (par : Nat) : GT → Prop
  | .node g _ _ ks => lookupNat tbl g = some par ∧ ParF tbl g ks
termination_by structural t => t
def ParF (tbl : List (Nat × Nat)) (par : Nat) : List GT → Prop
  | [] => True
  | t :: ts => ParT tbl par t ∧ ParF tbl par ts
termination_by structural l => l
end

def grpsF (ks : List GT) : List Nat := (flatF ks).map (·.1)
def grpsT (t : GT) : List Nat := (flatT t).map (·.1)

theorem grpsF_cons (t : GT) (ts : List GT) : grpsF (t :: ts) = grpsT t ++ grpsF ts := by
  simp [grpsF, grpsT, flatF]

theorem grpsT_node (g a b : Nat) (ks : List GT) : grpsT (.node g a b ks) = g :: grpsF ks := by
  simp [grpsF, grpsT, flatT]

theorem WithinF_le : ∀ (ks : List GT) (lo hi : Nat), WithinF lo hi ks → lo ≤ hi
  | [], _, _, h => by simpa only [WithinF] using h
  | .node g a b kids :: ts, lo, hi, h => by
    simp only [WithinF, WithinT, GT.hi] at h
    have := WithinF_le ts b hi h.2
    omega

mutual
theorem evsT_outside (x : Nat) : (t : GT) → ∀ lo hi, WithinT lo hi t → (x < lo ∨ hi < x) → evsT x t = []
  | .node g a b ks, lo, hi, h, hx => by
    simp only [WithinT] at h
    obtain ⟨h1, h2, h3, h4⟩ := h
    simp only [evsT]
    rw [evsF_outside x ks a b h4 (by omega), if_neg (by omega), if_neg (by omega)]
    rfl
termination_by structural t => t
theorem evsF_outside (x : Nat) : (ks : List GT) → ∀ lo hi, WithinF lo hi ks → (x < lo ∨ hi < x) → evsF x ks = []
  | [], _, _, _, _ => rfl
  | .node g a b kids :: ts, lo, hi, h, hx => by
    simp only [WithinF, GT.hi] at h
    have hw := h.1
    simp only [WithinT] at hw
    have := WithinF_le ts b hi h.2
    simp only [evsF]
    rw [evsT_outside x (.node g a b kids) lo hi h.1 hx, evsF_outside x ts b hi h.2 (by omega)]
    rfl
termination_by structural ks => ks
end

mutual
theorem mem_evsT (x : Nat) : (t : GT) → ∀ ev, ev ∈ evsT x t → ev.2 ∈ grpsT t
  | .node g a b ks, ev, h => by
    simp only [evsT, List.mem_append] at h
    rw [grpsT_node]
    rcases h with (h | h) | h
    · split at h
      · simp only [List.mem_singleton] at h; subst h; exact List.mem_cons_self
      · cases h
    · exact List.mem_cons_of_mem _ (mem_evsF x ks ev h)
    · split at h
      · simp only [List.mem_singleton] at h; subst h; exact List.mem_cons_self
      · cases h
termination_by structural t => t
theorem mem_evsF (x : Nat) : (ks : List GT) → ∀ ev, ev ∈ evsF x ks → ev.2 ∈ grpsF ks
  | [], _, h => by simp [evsF] at h
  | t :: ts, ev, h => by
    simp only [evsF, List.mem_append] at h
    rw [grpsF_cons, List.mem_append]
    rcases h with h | h
    · exact .inl (mem_evsT x t ev h)
    · exact .inr (mem_evsF x ts ev h)
termination_by structural ks => ks
end

/-! ### the pending close events of the enclosing groups -/

/-- enclosing groups, innermost first: (number, end position) -/
abbrev Anc := List (Nat × Nat)

/-- their close events at position `x`, innermost first -/
def pend (anc : Anc) (x : Nat) : List Ev := (anc.filter (fun A => A.2 == x)).map (fun A => (false, A.1))

def parOf : Anc → Nat
  | [] => 0
  | A :: _ => A.1

theorem pend_nil (x : Nat) : pend [] x = [] := rfl

theorem pend_cons (g b : Nat) (anc : Anc) (x : Nat) :
    pend ((g, b) :: anc) x = if b = x then (false, g) :: pend anc x else pend anc x := by
  simp only [pend, List.filter_cons]
  by_cases h : b = x
  · simp [h]
  · have : (b == x) = false := by simp [h]
    simp [h, this]

theorem pend_empty (anc : Anc) (x : Nat) (h : ∀ A ∈ anc, x < A.2) : pend anc x = [] := by
  induction anc with
  | nil => rfl
  | cons A t ih =>
    obtain ⟨g, b⟩ := A
    rw [pend_cons, if_neg (by have := h (g, b) List.mem_cons_self; simp only at this; omega)]
    exact ih (fun B hB => h B (List.mem_cons_of_mem _ hB))

theorem findEnd_skip (par : Nat) (pre rest : List Ev) (h : ∀ ev ∈ pre, ev ≠ (false, par)) :
    findEnd par (pre ++ rest) = pre.length + findEnd par rest := by
  induction pre with
  | nil => simp
  | cons ev t ih =>
    obtain ⟨isS, g⟩ := ev
    have hne := h (isS, g) List.mem_cons_self
    have : (!isS && g == par && par != 0) = false := by
      cases isS with
      | true => simp
      | false =>
        have : g ≠ par := fun hc => hne (by rw [hc])
        simp [this]
    simp only [List.cons_append, findEnd, this, Bool.false_eq_true, if_false, List.length_cons]
    rw [ih (fun ev hev => h ev (List.mem_cons_of_mem _ hev))]
    omega

theorem findEnd_all (par : Nat) (l : List Ev) (h : ∀ ev ∈ l, ev ≠ (false, par) ∨ par = 0) :
    findEnd par l = l.length := by
  induction l with
  | nil => rfl
  | cons ev t ih =>
    obtain ⟨isS, g⟩ := ev
    have hne := h (isS, g) List.mem_cons_self
    have : (!isS && g == par && par != 0) = false := by
      rcases hne with hne | hne
      · cases isS with
        | true => simp
        | false =>
          have : g ≠ par := fun hc => hne (by rw [hc])
          simp [this]
      · simp [hne]
    simp only [findEnd, this, Bool.false_eq_true, if_false, List.length_cons]
    rw [ih (fun ev hev => h ev (List.mem_cons_of_mem _ hev))]
    omega

/-- the invariant on the enclosing groups: numbers `≥ 1`, ends ascending outwards, all at or after `hi` -/
structure AncOK (hi : Nat) (anc : Anc) : Prop where
  pos : ∀ A ∈ anc, 1 ≤ A.1
  ge : ∀ A ∈ anc, hi ≤ A.2
  sorted : anc.Pairwise (fun A B => A.2 ≤ B.2)

/-- where the pair of an empty group goes: right after everything that precedes the pending closes -/
theorem findEnd_insert (anc : Anc) (hi a : Nat) (hA : AncOK hi anc) (ha : a ≤ hi) (pre : List Ev)
    (hpre : ∀ k, (false, k) ∈ pre → k ∉ anc.map (·.1)) :
    findEnd (parOf anc) (pre ++ pend anc a) = pre.length := by
  cases anc with
  | nil =>
    simp only [parOf, pend_nil, List.append_nil]
    exact findEnd_all 0 pre (fun _ _ => .inr rfl)
  | cons A t =>
    obtain ⟨P, bP⟩ := A
    simp only [parOf]
    have hP1 : 1 ≤ P := hA.pos (P, bP) List.mem_cons_self
    have hpre' : ∀ ev ∈ pre, ev ≠ (false, P) := by
      intro ev hev hc
      subst hc
      exact hpre P hev (by simp)
    rw [findEnd_skip P pre _ hpre', pend_cons]
    by_cases hb : bP = a
    · have : (!false && P == P && P != 0) = true := by simp; omega
      simp only [hb, if_true, findEnd, this]
      omega
    · rw [if_neg hb]
      have hge := hA.ge (P, bP) List.mem_cons_self
      simp only at hge
      have hso := (List.pairwise_cons.1 hA.sorted).1
      rw [pend_empty t a (fun B hB => by have := hso B hB; simp only at this; omega)]
      simp [findEnd]

/-! ### `buildActions` over a forest yields the events of its linearisation -/

theorem insertAt_append (pre rest xs : List Ev) :
    insertAt (pre ++ rest) pre.length xs = pre ++ xs ++ rest := by
  simp [insertAt]

mutual
theorem foldL_tree (tbl : List (Nat × Nat)) : (t : GT) → ∀ (lo hi : Nat) (anc : Anc) (L : List Ev) (E : EvF),
    WithinT lo hi t → ParT tbl (parOf anc) t → (grpsT t).Nodup → (∀ g ∈ grpsT t, 1 ≤ g) →
    (∀ A ∈ anc, A.1 ∉ grpsT t) → AncOK hi anc →
    (∀ k, (false, k) ∈ L → k ∉ anc.map (·.1) ∧ k ∉ grpsT t) →
    E lo = L ++ pend anc lo → (∀ x, lo < x → E x = pend anc x) →
    ∃ E', foldL tbl (flatT t) E = some E' ∧ E' lo = L ++ evsT lo t ++ pend anc lo ∧
      (∀ x, lo < x → E' x = evsT x t ++ pend anc x) ∧ (∀ x, x < lo → E' x = E x)
  | .node g a b kids, lo, hi, anc, L, E, hw, hpar, hnd, hpos, hanc, hA, hL, hlo, hgt => by
    simp only [WithinT] at hw
    obtain ⟨hloa, hab, hbhi, hwk⟩ := hw
    simp only [ParT] at hpar
    obtain ⟨hlk, hpark⟩ := hpar
    rw [grpsT_node] at hnd hpos hanc hL
    have hg1 : 1 ≤ g := hpos g List.mem_cons_self
    have hgk : g ∉ grpsF kids := (List.nodup_cons.1 hnd).1
    have hndk : (grpsF kids).Nodup := (List.nodup_cons.1 hnd).2
    -- what sits at `a` before this group is processed
    have hEa : E a = (if a = lo then L else []) ++ pend anc a := by
      by_cases h : a = lo
      · subst h; simp only [if_true]; exact hlo
      · simp only [if_neg h, List.nil_append]; exact hgt a (by omega)
    have hPre : ∀ k, (false, k) ∈ (if a = lo then L else []) → k ∉ anc.map (·.1) ∧ k ≠ g ∧ k ∉ grpsF kids := by
      intro k hk
      split at hk
      · have := hL k hk
        simp only [List.mem_cons, not_or] at this
        exact ⟨this.1, this.2.1, this.2.2⟩
      · cases hk
    generalize hPdef : (if a = lo then L else []) = Pre at hEa hPre
    simp only [flatT]
    by_cases hlt : a < b
    · -- a non-empty group
      simp only [foldL, if_pos hlt, stepE]
      have hpa : pend anc a = [] := pend_empty anc a (fun A hA' => by have := hA.ge A hA'; omega)
      rw [hpa, List.append_nil] at hEa
      have hEb : E b = pend anc b := hgt b (by omega)
      have hAk : AncOK b ((g, b) :: anc) :=
        ⟨fun A hA' => by
            rcases List.mem_cons.1 hA' with rfl | h
            · exact hg1
            · exact hA.pos A h,
         fun A hA' => by
            rcases List.mem_cons.1 hA' with rfl | h
            · exact Nat.le_refl _
            · have := hA.ge A h; omega,
         List.pairwise_cons.2 ⟨fun A hA' => by have := hA.ge A hA'; simp only; omega, hA.sorted⟩⟩
      obtain ⟨E2, hf, h2a, h2gt, h2lt⟩ := foldL_forest tbl kids a b ((g, b) :: anc) (Pre ++ [(true, g)])
        (upd (upd E a (E a ++ [(true, g)])) b ((false, g) :: E b)) hwk hpark hndk
        (fun k hk => hpos k (List.mem_cons_of_mem _ hk))
        (by
          intro A hA'
          rcases List.mem_cons.1 hA' with rfl | h
          · exact hgk
          · exact fun hc => hanc A h (List.mem_cons_of_mem _ hc))
        hAk
        (by
          intro k hk
          simp only [List.mem_append, List.mem_singleton, Prod.mk.injEq, Bool.false_eq_true, false_and,
            or_false] at hk
          have := hPre k hk
          simp only [List.map_cons, List.mem_cons, not_or]
          exact ⟨⟨this.2.1, this.1⟩, this.2.2⟩)
        (by
          simp only [upd, if_neg (show ¬ a = b by omega), if_true]
          rw [pend_cons, if_neg (by omega), hpa, hEa, List.append_nil])
        (by
          intro x hx
          simp only [upd]
          by_cases hxb : x = b
          · subst hxb
            simp only [if_true]
            rw [pend_cons, if_pos rfl, hEb]
          · rw [if_neg hxb, if_neg (by omega), pend_cons, if_neg (fun hc => hxb hc.symm)]
            exact hgt x (by omega))
      refine ⟨E2, hf, ?_, ?_, ?_⟩
      · by_cases hal : a = lo
        · subst hal
          simp only [if_true] at hPdef
          subst hPdef
          rw [h2a, pend_cons, if_neg (by omega), hpa]
          simp only [evsT, if_true, if_neg (show ¬ b = a by omega), List.append_nil, List.append_assoc]
        · rw [if_neg hal] at hPdef
          rw [h2lt lo (by omega)]
          simp only [upd, if_neg (show ¬ lo = b by omega), if_neg (show ¬ lo = a by omega)]
          rw [hlo, evsT_outside lo (.node g a b kids) a b (by simp only [WithinT]; exact ⟨Nat.le_refl _, hab, Nat.le_refl _, hwk⟩)
            (by omega)]
          simp
      · intro x hx
        rcases Nat.lt_trichotomy x a with hxa | hxa | hxa
        · rw [h2lt x hxa]
          simp only [upd, if_neg (show ¬ x = b by omega), if_neg (show ¬ x = a by omega)]
          rw [hgt x hx, evsT_outside x (.node g a b kids) a b (by simp only [WithinT]; exact ⟨Nat.le_refl _, hab, Nat.le_refl _, hwk⟩)
            (by omega)]
          simp
        · subst hxa
          have hal : ¬ x = lo := by omega
          rw [if_neg hal] at hPdef
          subst hPdef
          rw [h2a, pend_cons, if_neg (by omega), hpa]
          simp only [evsT, if_true, if_neg (show ¬ b = x by omega), List.append_nil, List.nil_append]
        · rw [h2gt x hxa, pend_cons]
          simp only [evsT, if_neg (show ¬ a = x by omega), List.nil_append]
          by_cases hbx : b = x
          · simp only [hbx, if_true, List.append_assoc, List.singleton_append]
          · simp only [if_neg hbx, List.append_nil]
      · intro x hx
        rw [h2lt x (by omega)]
        simp only [upd, if_neg (show ¬ x = b by omega), if_neg (show ¬ x = a by omega)]
    · -- an empty group
      have hab' : a = b := by omega
      subst hab'
      simp only [foldL, if_neg hlt, hlk, stepE]
      have hfe : findEnd (parOf anc) (E a) = Pre.length := by
        rw [hEa]
        exact findEnd_insert anc hi a hA hbhi Pre (fun k hk => (hPre k hk).1)
      have hins : insertAt (E a) (findEnd (parOf anc) (E a)) [(true, g), (false, g)] =
          Pre ++ [(true, g)] ++ ((false, g) :: pend anc a) := by
        rw [hfe, hEa, insertAt_append]
        simp
      have hAk : AncOK a ((g, a) :: anc) :=
        ⟨fun A hA' => by
            rcases List.mem_cons.1 hA' with rfl | h
            · exact hg1
            · exact hA.pos A h,
         fun A hA' => by
            rcases List.mem_cons.1 hA' with rfl | h
            · exact Nat.le_refl _
            · have := hA.ge A h; omega,
         List.pairwise_cons.2 ⟨fun A hA' => by have := hA.ge A hA'; simp only; omega, hA.sorted⟩⟩
      obtain ⟨E2, hf, h2a, h2gt, h2lt⟩ := foldL_forest tbl kids a a ((g, a) :: anc) (Pre ++ [(true, g)])
        (upd E a (insertAt (E a) (findEnd (parOf anc) (E a)) [(true, g), (false, g)])) hwk hpark hndk
        (fun k hk => hpos k (List.mem_cons_of_mem _ hk))
        (by
          intro A hA'
          rcases List.mem_cons.1 hA' with rfl | h
          · exact hgk
          · exact fun hc => hanc A h (List.mem_cons_of_mem _ hc))
        hAk
        (by
          intro k hk
          simp only [List.mem_append, List.mem_singleton, Prod.mk.injEq, Bool.false_eq_true, false_and,
            or_false] at hk
          have := hPre k hk
          simp only [List.map_cons, List.mem_cons, not_or]
          exact ⟨⟨this.2.1, this.1⟩, this.2.2⟩)
        (by
          simp only [upd, if_true]
          rw [hins, pend_cons, if_pos rfl])
        (by
          intro x hx
          simp only [upd, if_neg (show ¬ x = a by omega)]
          rw [pend_cons, if_neg (by omega)]
          exact hgt x (by omega))
      have hkx : ∀ x, a < x → evsF x kids = [] := fun x hx => evsF_outside x kids a a hwk (.inr hx)
      refine ⟨E2, hf, ?_, ?_, ?_⟩
      · by_cases hal : a = lo
        · subst hal
          simp only [if_true] at hPdef
          subst hPdef
          rw [h2a, pend_cons, if_pos rfl]
          simp only [evsT, if_true, List.append_assoc, List.singleton_append]
        · rw [if_neg hal] at hPdef
          rw [h2lt lo (by omega)]
          simp only [upd, if_neg (show ¬ lo = a by omega)]
          rw [hlo, evsT_outside lo (.node g a a kids) a a (by simp only [WithinT]; exact ⟨Nat.le_refl _, hab, Nat.le_refl _, hwk⟩)
            (by omega)]
          simp
      · intro x hx
        rcases Nat.lt_trichotomy x a with hxa | hxa | hxa
        · rw [h2lt x hxa]
          simp only [upd, if_neg (show ¬ x = a by omega)]
          rw [hgt x hx, evsT_outside x (.node g a a kids) a a (by simp only [WithinT]; exact ⟨Nat.le_refl _, hab, Nat.le_refl _, hwk⟩)
            (by omega)]
          simp
        · subst hxa
          have hal : ¬ x = lo := by omega
          rw [if_neg hal] at hPdef
          subst hPdef
          rw [h2a, pend_cons, if_pos rfl]
          simp only [evsT, if_true, List.nil_append, List.append_assoc, List.singleton_append]
        · rw [h2gt x hxa, pend_cons, if_neg (by omega), hkx x hxa]
          simp only [evsT, if_neg (show ¬ a = x by omega), hkx x hxa, List.nil_append, List.append_nil]
      · intro x hx
        rw [h2lt x (by omega)]
        simp only [upd, if_neg (show ¬ x = a by omega)]
termination_by structural t => t
theorem foldL_forest (tbl : List (Nat × Nat)) : (ks : List GT) → ∀ (lo hi : Nat) (anc : Anc) (L : List Ev) (E : EvF),
    WithinF lo hi ks → ParF tbl (parOf anc) ks → (grpsF ks).Nodup → (∀ g ∈ grpsF ks, 1 ≤ g) →
    (∀ A ∈ anc, A.1 ∉ grpsF ks) → AncOK hi anc →
    (∀ k, (false, k) ∈ L → k ∉ anc.map (·.1) ∧ k ∉ grpsF ks) →
    E lo = L ++ pend anc lo → (∀ x, lo < x → E x = pend anc x) →
    ∃ E', foldL tbl (flatF ks) E = some E' ∧ E' lo = L ++ evsF lo ks ++ pend anc lo ∧
      (∀ x, lo < x → E' x = evsF x ks ++ pend anc x) ∧ (∀ x, x < lo → E' x = E x)
  | [], lo, hi, anc, L, E, _, _, _, _, _, _, _, hlo, hgt => by
    refine ⟨E, rfl, ?_, ?_, fun _ _ => rfl⟩
    · simp only [evsF, List.append_nil]; exact hlo
    · intro x hx; simp only [evsF, List.nil_append]; exact hgt x hx
  | t :: ts, lo, hi, anc, L, E, hw, hpar, hnd, hpos, hanc, hA, hL, hlo, hgt => by
    simp only [WithinF] at hw
    obtain ⟨hwt, hwts⟩ := hw
    simp only [ParF] at hpar
    rw [grpsF_cons] at hnd hpos hanc hL
    obtain ⟨hndt, hndts, hdis⟩ := List.nodup_append.1 hnd
    have hble : t.hi ≤ hi := WithinF_le ts t.hi hi hwts
    have hlob : lo ≤ t.hi := by
      cases t with
      | node g a b kids => simp only [WithinT] at hwt; simp only [GT.hi]; omega
    have hAt : AncOK hi anc := hA
    obtain ⟨E1, hf1, h1lo, h1gt, h1lt⟩ := foldL_tree tbl t lo hi anc L E hwt hpar.1 hndt
      (fun g hg => hpos g (List.mem_append_left _ hg))
      (fun A hA' hc => hanc A hA' (List.mem_append_left _ hc)) hA
      (fun k hk => ⟨(hL k hk).1, fun hc => (hL k hk).2 (List.mem_append_left _ hc)⟩) hlo hgt
    -- the state before the remaining siblings, read at `t.hi`
    have hE1b : E1 t.hi = ((if t.hi = lo then L else []) ++ evsT t.hi t) ++ pend anc t.hi := by
      by_cases h : t.hi = lo
      · rw [h, h1lo]; simp
      · rw [h1gt t.hi (by omega)]; simp [h]
    obtain ⟨E2, hf2, h2lo, h2gt, h2lt⟩ := foldL_forest tbl ts t.hi hi anc
      ((if t.hi = lo then L else []) ++ evsT t.hi t) E1 hwts hpar.2 hndts
      (fun g hg => hpos g (List.mem_append_right _ hg))
      (fun A hA' hc => hanc A hA' (List.mem_append_right _ hc)) hA
      (by
        intro k hk
        rcases List.mem_append.1 hk with hk | hk
        · split at hk
          · exact ⟨(hL k hk).1, fun hc => (hL k hk).2 (List.mem_append_right _ hc)⟩
          · cases hk
        · have hkt : k ∈ grpsT t := mem_evsT t.hi t (false, k) hk
          refine ⟨fun hc => ?_, fun hc => hdis k hkt k hc rfl⟩
          obtain ⟨A, hA', hAk⟩ := List.mem_map.1 hc
          exact hanc A hA' (by rw [hAk]; exact List.mem_append_left _ hkt))
      hE1b
      (fun x hx => by
        rw [h1gt x (by omega)]
        have : evsT x t = [] := by
          cases t with
          | node g a b kids =>
            simp only [GT.hi] at hx
            exact evsT_outside x _ lo b (by simp only [WithinT] at hwt ⊢; exact ⟨hwt.1, hwt.2.1, Nat.le_refl _, hwt.2.2.2⟩)
              (.inr hx)
        rw [this]; rfl)
    refine ⟨E2, ?_, ?_, ?_, ?_⟩
    · simp only [flatF]
      rw [foldL_append, hf1]
      exact hf2
    · by_cases h : t.hi = lo
      · rw [← h, h2lo]
        simp only [h, if_true, evsF, List.append_assoc]
      · rw [h2lt lo (by omega), h1lo]
        have : evsF lo ts = [] := evsF_outside lo ts t.hi hi hwts (.inl (by omega))
        simp only [evsF, this, List.append_nil]
    · intro x hx
      rcases Nat.lt_trichotomy x t.hi with hxb | hxb | hxb
      · rw [h2lt x hxb, h1gt x hx]
        have : evsF x ts = [] := evsF_outside x ts t.hi hi hwts (.inl hxb)
        simp only [evsF, this, List.append_nil]
      · subst hxb
        rw [h2lo, if_neg (by omega)]
        simp only [evsF, List.nil_append, List.append_assoc]
      · rw [h2gt x hxb]
        have : evsT x t = [] := by
          cases t with
          | node g a b kids =>
            simp only [GT.hi] at hxb
            exact evsT_outside x _ lo b (by simp only [WithinT] at hwt ⊢; exact ⟨hwt.1, hwt.2.1, Nat.le_refl _, hwt.2.2.2⟩)
              (.inr hxb)
        simp only [evsF, this, List.nil_append]
    · intro x hx
      rw [h2lt x (by omega), h1lt x hx]
termination_by structural ks => ks
end


/-! ### `walk` is a stack machine run over a token stream -/

inductive Tok where
  | ev (e : Ev)
  | ch (c : Nat)

def flushB (buf : Option (List Nat)) (stk : HStack) : Option HStack :=
  match buf with
  | some b => hChars stk b
  | none => some stk

def runTok : List Tok → Option (List Nat) → HStack → Option (Option (List Nat) × HStack)
  | [], buf, stk => some (buf, stk)
  | .ev e :: rest, buf, stk =>
    match flushB buf stk with
    | none => none
    | some stk' =>
      match hEvents [e] stk' with
      | none => none
      | some stk'' => runTok rest none stk''
  | .ch c :: rest, buf, stk => runTok rest (some (buf.getD [] ++ [c])) stk

def stream (E : EvF) : List Nat → Nat → List Tok
  | [], i => (E i).map .ev
  | c :: rest, i => (E i).map .ev ++ .ch c :: stream E rest (i + 1)

theorem hEvents_cons (e : Ev) (es : List Ev) (stk : HStack) :
    hEvents (e :: es) stk = (hEvents [e] stk).bind (hEvents es) := by
  obtain ⟨b, g⟩ := e
  cases b with
  | true => simp [hEvents]
  | false =>
    match stk with
    | [] => simp [hEvents]
    | [_] => simp [hEvents]
    | (nr, x) :: (nr2, x2) :: t => simp [hEvents]

theorem runTok_ev (e : Ev) (rest : List Tok) (buf : Option (List Nat)) (stk : HStack) :
    runTok (.ev e :: rest) buf stk =
      ((flushB buf stk).bind (hEvents [e])).bind (fun stk' => runTok rest none stk') := by
  simp only [runTok]
  cases flushB buf stk with
  | none => rfl
  | some stk1 =>
    simp only [Option.bind_some]
    cases hEvents [e] stk1 with
    | none => rfl
    | some stk2 => rfl

theorem flushB_none (stk : HStack) : flushB none stk = some stk := rfl

theorem runTok_evs (evs : List Ev) (hne : evs ≠ []) (more : List Tok) (buf : Option (List Nat)) (stk : HStack) :
    runTok (evs.map .ev ++ more) buf stk =
      ((flushB buf stk).bind (hEvents evs)).bind (fun stk' => runTok more none stk') := by
  induction evs generalizing buf stk with
  | nil => exact absurd rfl hne
  | cons e es ih =>
    simp only [List.map_cons, List.cons_append]
    rw [runTok_ev]
    cases flushB buf stk with
    | none => rfl
    | some stk1 =>
      simp only [Option.bind_some]
      cases es with
      | nil =>
        simp only [List.map_nil, List.nil_append]
      | cons e2 es2 =>
      rw [hEvents_cons e (e2 :: es2) stk1]
      cases hEvents [e] stk1 with
      | none => rfl
      | some stk2 =>
        simp only [Option.bind_some]
        rw [ih (by simp) none stk2, flushB_none]
        simp only [Option.bind_some]

theorem walk_run (acts : Actions) (hok : ActsOK acts) (rest : List Nat) :
    ∀ (i : Nat) (buf : Option (List Nat)) (stk : HStack),
    walk acts rest i buf stk =
      (runTok (stream (evOf acts) rest i) buf stk).bind (fun r => flushB r.1 r.2) := by
  induction rest with
  | nil =>
    intro i buf stk
    unfold walk
    simp only [stream]
    rw [actGet_of_evOf hok i]
    by_cases h : evOf acts i = []
    · simp only [h, if_true, List.map_nil, runTok, Option.bind_some]
      rfl
    · simp only [h, if_false]
      have := runTok_evs (evOf acts i) h [] buf stk
      rw [List.append_nil] at this
      rw [this]
      show (match flushB buf stk with | none => none | some stk' => hEvents (evOf acts i) stk') = _
      cases flushB buf stk with
      | none => rfl
      | some stk1 =>
        simp only [Option.bind_some]
        cases hEvents (evOf acts i) stk1 with
        | none => rfl
        | some stk2 => simp only [Option.bind_some, runTok]; rfl
  | cons c rest ih =>
    intro i buf stk
    unfold walk
    simp only [stream]
    rw [actGet_of_evOf hok i]
    by_cases h : evOf acts i = []
    · simp only [h, if_true, List.map_nil, List.nil_append, runTok]
      exact ih _ _ _
    · simp only [h, if_false]
      rw [runTok_evs (evOf acts i) h _ buf stk]
      show (match flushB buf stk with
        | none => none
        | some stk' => match hEvents (evOf acts i) stk' with
          | none => none
          | some stk'' => walk acts rest (i + 1) (some [c]) stk'') = _
      cases flushB buf stk with
      | none => rfl
      | some stk1 =>
        simp only [Option.bind_some]
        cases hEvents (evOf acts i) stk1 with
        | none => rfl
        | some stk2 =>
          simp only [Option.bind_some, runTok, Option.getD_none, List.nil_append]
          exact ih _ _ _

theorem stream_congr (E E' : EvF) : ∀ (xs : List Nat) (i : Nat),
    (∀ x, i ≤ x → x ≤ i + xs.length → E x = E' x) → stream E xs i = stream E' xs i := by
  intro xs
  induction xs with
  | nil => intro i h; simp only [stream]; rw [h i (Nat.le_refl _) (by simp)]
  | cons c xs ih =>
    intro i h
    simp only [stream]
    rw [h i (Nat.le_refl _) (by simp), ih (i + 1) (fun x h1 h2 => h x (by omega) (by simp only [List.length_cons]; omega))]

theorem stream_split (F G H : EvF) : ∀ (xs ys : List Nat) (i : Nat),
    (∀ x, i ≤ x → x ≤ i + xs.length + ys.length → F x = G x ++ H x) →
    (∀ x, i + xs.length < x → G x = []) → (∀ x, x < i + xs.length → H x = []) →
    stream F (xs ++ ys) i = stream G xs i ++ stream H ys (i + xs.length) := by
  intro xs
  induction xs with
  | nil =>
    intro ys i hF hG hH
    simp only [List.length_nil, Nat.add_zero] at hF hG hH
    simp only [List.nil_append, List.length_nil, Nat.add_zero, stream]
    cases ys with
    | nil =>
      simp only [stream]
      rw [hF i (Nat.le_refl _) (by simp), List.map_append]
    | cons c ys =>
      simp only [stream]
      rw [hF i (Nat.le_refl _) (by simp), List.map_append, List.append_assoc]
      have : stream F ys (i + 1) = stream H ys (i + 1) := by
        apply stream_congr
        intro x h1 h2
        rw [hF x (by omega) (by simp only [List.length_cons]; omega), hG x (by omega)]
        rfl
      rw [this]
  | cons c xs ih =>
    intro ys i hF hG hH
    simp only [List.length_cons] at hF hG hH
    simp only [List.cons_append, stream, List.length_cons]
    rw [hF i (Nat.le_refl _) (by omega), hH i (by omega), List.append_nil, List.append_assoc]
    rw [ih ys (i + 1) (fun x h1 h2 => hF x (by omega) (by omega)) (fun x h1 => hG x (by omega))
      (fun x h1 => hH x (by omega))]
    have e : i + 1 + xs.length = i + (xs.length + 1) := by omega
    rw [e]
    rfl
theorem stream_empty (F : EvF) : ∀ (xs : List Nat) (i : Nat), (∀ x, i ≤ x → x ≤ i + xs.length → F x = []) →
    stream F xs i = xs.map .ch := by
  intro xs
  induction xs with
  | nil => intro i h; simp only [stream, h i (Nat.le_refl _) (by simp)]; rfl
  | cons c xs ih =>
    intro i h
    simp only [stream, List.map_cons]
    rw [h i (Nat.le_refl _) (by simp), ih (i + 1) (fun x h1 h2 => h x (by omega) (by simp only [List.length_cons]; omega))]
    rfl

theorem slice_split (s : List Nat) (lo m hi : Nat) (h1 : lo ≤ m) (h2 : m ≤ hi) :
    slice s lo hi = slice s lo m ++ slice s m hi := by
  unfold slice
  have e1 : hi - lo = (m - lo) + (hi - m) := by omega
  rw [e1, List.take_add]
  congr 1
  rw [List.drop_drop]
  congr 2
  omega

theorem length_slice (s : List Nat) (lo hi : Nat) (h : hi ≤ s.length) : (slice s lo hi).length = hi - lo := by
  unfold slice
  rw [List.length_take, List.length_drop]
  omega

mutual
/-- the linearisation of a forest over the text `cur` -/
def toksT (cur : List Nat) : GT → List Tok
  | .node g a b ks => .ev (true, g) :: (toksF cur a b ks ++ [.ev (false, g)])
termination_by structural t => t
def toksF (cur : List Nat) (lo hi : Nat) : List GT → List Tok
  | [] => (slice cur lo hi).map .ch
  | t :: ts => (slice cur lo t.lo).map .ch ++ (toksT cur t ++ toksF cur t.hi hi ts)
termination_by structural l => l
end

theorem WithinT_self (g a b : Nat) (ks : List GT) (h2 : a ≤ b) (h4 : WithinF a b ks) :
    WithinT a b (.node g a b ks) := by
  simp only [WithinT]; exact ⟨Nat.le_refl _, h2, Nat.le_refl _, h4⟩

mutual
theorem stream_tree (cur : List Nat) : (t : GT) → ∀ (lo hi : Nat), WithinT lo hi t → hi ≤ cur.length →
    stream (fun x => evsT x t) (slice cur t.lo t.hi) t.lo = toksT cur t
  | .node g a b ks, lo, hi, hw, hhi => by
    simp only [WithinT] at hw
    obtain ⟨h1, h2, h3, h4⟩ := hw
    simp only [GT.lo, GT.hi, toksT]
    have hlen : (slice cur a b).length = b - a := length_slice cur a b (by omega)
    -- peel the open event off at `a`
    have s1 := stream_split (fun x => evsT x (.node g a b ks)) (fun x => if a = x then [(true, g)] else [])
      (fun x => evsF x ks ++ (if b = x then [(false, g)] else [])) [] (slice cur a b) a
      (fun x _ _ => by simp only [evsT, List.append_assoc])
      (fun x hx => by simp only [List.length_nil, Nat.add_zero] at hx; rw [if_neg (by omega)])
      (fun x hx => by
        simp only [List.length_nil, Nat.add_zero] at hx
        rw [evsF_outside x ks a b h4 (.inl hx), if_neg (by omega)]; rfl)
    simp only [List.nil_append, List.length_nil, Nat.add_zero, stream, if_true, List.map_cons, List.map_nil,
      List.singleton_append] at s1
    rw [s1]
    congr 1
    -- peel the close event off at `b`
    have s2 := stream_split (fun x => evsF x ks ++ (if b = x then [(false, g)] else [])) (fun x => evsF x ks)
      (fun x => if b = x then [(false, g)] else []) (slice cur a b) [] a
      (fun x _ _ => rfl)
      (fun x hx => by rw [hlen] at hx; exact evsF_outside x ks a b h4 (.inr (by omega)))
      (fun x hx => by rw [hlen] at hx; rw [if_neg (by omega)])
    rw [List.append_nil] at s2
    rw [s2, hlen]
    have e : a + (b - a) = b := by omega
    simp only [e, stream, if_true, List.map_cons, List.map_nil]
    congr 1
    exact stream_forest cur ks a b h4 (by omega)
termination_by structural t => t
theorem stream_forest (cur : List Nat) : (ks : List GT) → ∀ (lo hi : Nat), WithinF lo hi ks → hi ≤ cur.length →
    stream (fun x => evsF x ks) (slice cur lo hi) lo = toksF cur lo hi ks
  | [], lo, hi, hw, hhi => by
    simp only [toksF]
    exact stream_empty _ _ _ (fun _ _ _ => rfl)
  | .node g a b kids :: ts, lo, hi, hw, hhi => by
    simp only [WithinF, GT.hi] at hw
    obtain ⟨hwt, hwts⟩ := hw
    have hwt' := hwt
    simp only [WithinT] at hwt'
    obtain ⟨h1, h2, h3, h4⟩ := hwt'
    have hbhi := WithinF_le ts b hi hwts
    have hwa : WithinF a hi (.node g a b kids :: ts) := by
      simp only [WithinF, GT.hi, WithinT]; exact ⟨⟨Nat.le_refl _, h2, h3, h4⟩, hwts⟩
    simp only [toksF, GT.lo, GT.hi]
    -- [lo, a) : plain text
    rw [slice_split cur lo a hi h1 (by omega)]
    have hl1 : (slice cur lo a).length = a - lo := length_slice cur lo a (by omega)
    have s0 := stream_split (fun x => evsF x (.node g a b kids :: ts)) (fun _ => [])
      (fun x => evsF x (.node g a b kids :: ts)) (slice cur lo a) (slice cur a hi) lo
      (fun x _ _ => rfl) (fun _ _ => rfl)
      (fun x hx => by
        rw [hl1] at hx
        exact evsF_outside x (.node g a b kids :: ts) a hi hwa (.inl (by omega)))
    rw [s0, stream_empty _ _ _ (fun _ _ _ => rfl), hl1]
    have e0 : lo + (a - lo) = a := by omega
    rw [e0]
    congr 1
    -- [a, b] : the first tree;  [b, hi] : the remaining siblings
    rw [slice_split cur a b hi h2 hbhi]
    have hl2 : (slice cur a b).length = b - a := length_slice cur a b (by omega)
    have s1 := stream_split (fun x => evsF x (.node g a b kids :: ts)) (fun x => evsT x (.node g a b kids))
      (fun x => evsF x ts) (slice cur a b) (slice cur b hi) a
      (fun x _ _ => by simp only [evsF])
      (fun x hx => by
        rw [hl2] at hx
        exact evsT_outside x _ a b (WithinT_self g a b kids h2 h4) (.inr (by omega)))
      (fun x hx => by rw [hl2] at hx; exact evsF_outside x ts b hi hwts (.inl (by omega)))
    rw [s1, hl2]
    have e1 : a + (b - a) = b := by omega
    rw [e1]
    have ht := stream_tree cur (.node g a b kids) lo hi hwt hhi
    simp only [GT.lo, GT.hi] at ht
    rw [ht, stream_forest cur ts b hi hwts hhi]
termination_by structural ks => ks
end

/-! ### running the linearisation builds the tree -/

/-- a text leaf, unless the text is empty -/
def strNE (s : List Nat) : List MEntry := if s = [] then [] else [.str s]

mutual
/-- the group tree of a forest of spans over the text `cur` -/
def outT (cur : List Nat) : GT → MEntry
  | .node g a b ks => .group g (outF cur a b ks)
termination_by structural t => t
def outF (cur : List Nat) (lo hi : Nat) : List GT → List MEntry
  | [] => strNE (slice cur lo hi)
  | t :: ts => strNE (slice cur lo t.lo) ++ (outT cur t :: outF cur t.hi hi ts)
termination_by structural l => l
end

/-- what flushing the pending buffer appends -/
def bufStr (buf : Option (List Nat)) : List MEntry :=
  match buf with
  | some b => [.str b]
  | none => []

theorem flushB_cons (buf : Option (List Nat)) (nr : Nat) (acc : List MEntry) (stk : HStack) :
    flushB buf ((nr, acc) :: stk) = some ((nr, acc ++ bufStr buf) :: stk) := by
  cases buf with
  | none => simp [flushB, bufStr]
  | some b => simp [flushB, bufStr, hChars]

theorem runTok_chars (cs : List Nat) (more : List Tok) : ∀ (buf : Option (List Nat)) (stk : HStack),
    runTok (cs.map .ch ++ more) buf stk = runTok more (if cs = [] then buf else some (buf.getD [] ++ cs)) stk := by
  induction cs with
  | nil => intro buf stk; simp
  | cons c cs ih =>
    intro buf stk
    simp only [List.map_cons, List.cons_append, runTok]
    rw [ih]
    by_cases h : cs = []
    · subst h; simp
    · simp [h, List.append_assoc]

theorem bufStr_chars (cs : List Nat) :
    bufStr (if cs = [] then none else some ((none : Option (List Nat)).getD [] ++ cs)) = strNE cs := by
  by_cases h : cs = []
  · simp [h, bufStr, strNE]
  · simp [h, bufStr, strNE]

mutual
theorem run_tree (cur : List Nat) : (t : GT) → ∀ (more : List Tok) (buf : Option (List Nat)) (nr : Nat)
    (acc : List MEntry) (stk : HStack),
    runTok (toksT cur t ++ more) buf ((nr, acc) :: stk) =
      runTok more none ((nr, acc ++ bufStr buf ++ [outT cur t]) :: stk)
  | .node g a b ks, more, buf, nr, acc, stk => by
    have e : toksT cur (.node g a b ks) ++ more =
        Tok.ev (true, g) :: (toksF cur a b ks ++ (Tok.ev (false, g) :: more)) := by
      simp only [toksT, List.cons_append, List.append_assoc, List.nil_append]
    rw [e, runTok_ev, flushB_cons]
    simp only [Option.bind_some, hEvents]
    obtain ⟨b', accP, hrun, hout⟩ := run_forest cur ks a b
    rw [hrun (Tok.ev (false, g) :: more) g [] ((nr, acc ++ bufStr buf) :: stk)]
    simp only [List.nil_append]
    rw [runTok_ev, flushB_cons, hout]
    simp only [Option.bind_some, hEvents, outT, List.append_assoc]
termination_by structural t => t
theorem run_forest (cur : List Nat) : (ks : List GT) → ∀ (lo hi : Nat),
    ∃ (b' : Option (List Nat)) (accP : List MEntry),
      (∀ (more : List Tok) (nr : Nat) (acc : List MEntry) (stk : HStack),
        runTok (toksF cur lo hi ks ++ more) none ((nr, acc) :: stk) = runTok more b' ((nr, acc ++ accP) :: stk)) ∧
      accP ++ bufStr b' = outF cur lo hi ks
  | [], lo, hi => by
    refine ⟨if slice cur lo hi = [] then none else some ((none : Option (List Nat)).getD [] ++ slice cur lo hi), [], ?_, ?_⟩
    · intro more nr acc stk
      simp only [toksF, List.append_nil]
      exact runTok_chars _ _ _ _
    · simp only [outF, List.nil_append]
      exact bufStr_chars _
  | t :: ts, lo, hi => by
    obtain ⟨b', accP, hrun, hout⟩ := run_forest cur ts t.hi hi
    refine ⟨b', strNE (slice cur lo t.lo) ++ [outT cur t] ++ accP, ?_, ?_⟩
    · intro more nr acc stk
      simp only [toksF, List.append_assoc]
      rw [runTok_chars, run_tree cur t, bufStr_chars, hrun]
      simp only [List.append_assoc]
    · simp only [outF, List.append_assoc, List.cons_append]
      rw [hout]
      rfl
termination_by structural ks => ks
end

/-- **`walk` builds the group tree**: over a map that holds, at every position, the events of a
    well-nested forest inside the text, from the initial stack -/
theorem walk_forest (acts : Actions) (hok : ActsOK acts) (cur : List Nat) (F : List GT)
    (hw : WithinF 0 cur.length F) (hE : ∀ x, evOf acts x = evsF x F) :
    walk acts cur 0 none [(0, [])] = some [(0, outF cur 0 cur.length F)] := by
  rw [walk_run acts hok]
  have hs : stream (evOf acts) cur 0 = toksF cur 0 cur.length F := by
    have h1 : evOf acts = fun x => evsF x F := funext hE
    rw [h1]
    have h2 := stream_forest cur F 0 cur.length hw (Nat.le_refl _)
    have h3 : slice cur 0 cur.length = cur := by simp [slice]
    rw [h3] at h2
    exact h2
  rw [hs]
  obtain ⟨b', accP, hrun, hout⟩ := run_forest cur F 0 cur.length
  have := hrun [] 0 [] []
  rw [List.append_nil] at this
  rw [this]
  simp only [runTok, Option.bind_some, flushB_cons, List.nil_append, hout]

/-! ### `process_matching_substring` on a state whose groups form a forest -/

/-- the hypotheses on the state, the nesting table and the forest (spans relative to `j`) -/
structure ForestOK (st : St) (tbl : List (Nat × Nat)) (j : Nat) (cur : List Nat) (F : List GT) : Prop where
  pc : 1 ≤ st.cap.parenCount
  start0 : getParenStart st 0 = some j
  sorted : (flatF F).Pairwise (fun x y => x.1 < y.1)
  rng : ∀ x ∈ flatF F, 1 ≤ x.1 ∧ x.1 < st.cap.parenCount ∧ x.2.1 ≤ x.2.2
  set : ∀ x ∈ flatF F, getParenStart st x.1 = some (j + x.2.1) ∧ getParenEnd st x.1 = some (j + x.2.2)
  unset : ∀ k, 1 ≤ k → k < st.cap.parenCount → k ∉ grpsF F → getParenStart st k = none
  within : WithinF 0 cur.length F
  par : ParF tbl 0 F
  ne : cur ≠ []

theorem processMatch_forest (st : St) (tbl : List (Nat × Nat)) (j : Nat) (cur : List Nat) (F : List GT)
    (H : ForestOK st tbl j cur F) : processMatch tbl st cur = .ok (outF cur 0 cur.length F) := by
  have hnd : (grpsF F).Nodup := by
    have : (grpsF F).Pairwise (· < ·) := by
      unfold grpsF
      rw [List.pairwise_map]
      exact H.sorted
    exact this.imp (fun h => Nat.ne_of_lt h)
  unfold processMatch
  have h0 : (st.cap.parenCount == 0) = false := by have := H.pc; simp; omega
  simp only [h0, Bool.false_eq_true, if_false]
  by_cases hc : st.cap.parenCount - 1 = 0
  · have hc' : (st.cap.parenCount - 1 == 0) = true := by simp [hc]
    simp only [hc', if_true]
    have hF : F = [] := by
      cases F with
      | nil => rfl
      | cons t ts =>
        cases t with
        | node g a b ks =>
          have := H.rng (g, a, b) (by simp [flatF, flatT])
          simp only at this
          omega
    subst hF
    simp only [outF, strNE]
    have : slice cur 0 cur.length = cur := by simp [slice]
    rw [this, if_neg H.ne]
  · have hc' : (st.cap.parenCount - 1 == 0) = false := by simp [hc]
    simp only [hc', Bool.false_eq_true, if_false, H.start0]
    have hfold := foldL_forest tbl F 0 cur.length [] [] (fun _ => []) H.within H.par hnd
      (fun g hg => by
        obtain ⟨x, hx, rfl⟩ := List.mem_map.1 hg
        exact (H.rng x hx).1)
      (fun A hA => by cases hA) ⟨fun A hA => (by cases hA), fun A hA => (by cases hA), List.Pairwise.nil⟩
      (fun k hk => by cases hk) rfl (fun _ _ => rfl)
    obtain ⟨E', hf, h0', hgt, _⟩ := hfold
    have hbuild := buildActions_foldL st tbl j (st.cap.parenCount - 1) 1 (flatF F) [] actsOK_nil H.sorted
      (fun x hx => by have := H.rng x hx; omega) H.set
      (fun k h1 h2 h3 => H.unset k h1 (by omega) (fun hc => by
        obtain ⟨x, hx, hxk⟩ := List.mem_map.1 hc
        exact h3 x hx hxk))
    have hev0 : evOf [] = fun _ => [] := by funext p; simp [evOf, actGet]
    rw [hev0, hf] at hbuild
    rcases hbuild with ⟨_, hc2⟩ | ⟨acts, hb, hok, hE⟩
    · cases hc2
    · rw [hb]
      simp only
      have hE' : ∀ x, evOf acts x = evsF x F := by
        intro x
        have : E' = evOf acts := by simpa using hE
        rw [← this]
        by_cases hx : x = 0
        · subst hx; rw [h0']; simp [pend_nil]
        · rw [hgt x (by omega)]; simp [pend_nil]
      rw [walk_forest acts hok cur F H.within hE']

/-! ### the forest of a straight-capture tree in an environment -/

mutual
/-- the capture nodes of the tree as a forest, with the spans the environment gives them (relative to
    `j`); a group the environment does not bind contributes nothing -/
def forestOf (e' : CEnv) (j : Nat) : Op → List GT
  | .capture g c =>
    match e' g with
    | some ab => [.node g (ab.1 - j) (ab.2 - j) (forestOf e' j c)]
    | none => []
  | .seq ops => forestOfL e' j ops
  | _ => []
termination_by structural o => o
def forestOfL (e' : CEnv) (j : Nat) : List Op → List GT
  | [] => []
  | o :: os => forestOf e' j o ++ forestOfL e' j os
termination_by structural l => l
end

mutual
/-- the nesting table answers, for every capture node, the group that encloses it in the tree
    (`par` at the root: 0) -/
def tblOK (tbl : List (Nat × Nat)) : Op → Nat → Bool
  | .capture g c, par => (lookupNat tbl g == some par) && tblOK tbl c g
  | .seq ops, par => tblOKL tbl ops par
  | _, _ => true
termination_by structural o => o
def tblOKL (tbl : List (Nat × Nat)) : List Op → Nat → Bool
  | [], _ => true
  | o :: os, par => tblOK tbl o par && tblOKL tbl os par
termination_by structural l => l
end

theorem flatF_append (l1 l2 : List GT) : flatF (l1 ++ l2) = flatF l1 ++ flatF l2 := by
  induction l1 with
  | nil => rfl
  | cons t ts ih => simp only [List.cons_append, flatF, ih, List.append_assoc]

theorem grpsF_append (l1 l2 : List GT) : grpsF (l1 ++ l2) = grpsF l1 ++ grpsF l2 := by
  simp only [grpsF, flatF_append, List.map_append]

theorem ParF_append (tbl : List (Nat × Nat)) (par : Nat) (l1 l2 : List GT) (h1 : ParF tbl par l1)
    (h2 : ParF tbl par l2) : ParF tbl par (l1 ++ l2) := by
  induction l1 with
  | nil => exact h2
  | cons t ts ih =>
    simp only [List.cons_append, ParF] at h1 ⊢
    exact ⟨h1.1, ih h1.2⟩

mutual
theorem WithinT_mono (t : GT) : ∀ lo lo' hi hi', WithinT lo hi t → lo' ≤ lo → hi ≤ hi' → WithinT lo' hi' t := by
  cases t with
  | node g a b ks =>
    intro lo lo' hi hi' h h1 h2
    simp only [WithinT] at h ⊢
    exact ⟨by omega, h.2.1, by omega, h.2.2.2⟩
end

theorem WithinF_mono_lo : ∀ (ks : List GT) (lo lo' hi : Nat), WithinF lo hi ks → lo' ≤ lo → WithinF lo' hi ks
  | [], lo, lo', hi, h, h1 => by simp only [WithinF] at h ⊢; omega
  | t :: ts, lo, lo', hi, h, h1 => by
    simp only [WithinF] at h ⊢
    exact ⟨WithinT_mono t lo lo' hi hi h.1 h1 (Nat.le_refl _), h.2⟩

theorem WithinF_append : ∀ (l1 l2 : List GT) (lo mid hi : Nat), WithinF lo mid l1 → WithinF mid hi l2 →
    WithinF lo hi (l1 ++ l2)
  | [], l2, lo, mid, hi, h1, h2 => by
    simp only [WithinF] at h1
    exact WithinF_mono_lo l2 mid lo hi h2 h1
  | t :: ts, l2, lo, mid, hi, h1, h2 => by
    simp only [List.cons_append, WithinF] at h1 ⊢
    have hmh := WithinF_le l2 mid hi h2
    exact ⟨WithinT_mono t lo lo mid hi h1.1 (Nat.le_refl _) hmh, WithinF_append ts l2 t.hi mid hi h1.2 h2⟩

mutual
theorem forestOf_grps (e' : CEnv) (j : Nat) : (op : Op) → straightCaps op = true →
    (∀ g ∈ capsOf op, (e' g).isSome = true) → grpsF (forestOf e' j op) = capsOf op
  | .capture g c, hs, hd => by
    simp only [straightCaps] at hs
    simp only [capsOf] at hd ⊢
    have hg := hd g List.mem_cons_self
    cases he : e' g with
    | none => rw [he] at hg; cases hg
    | some ab =>
      simp only [forestOf, he]
      rw [grpsF_cons, grpsT_node, forestOf_grps e' j c hs (fun k hk => hd k (List.mem_cons_of_mem _ hk))]
      simp [grpsF, flatF]
  | .seq ops, hs, hd => by
    simp only [straightCaps] at hs
    simp only [capsOf] at hd ⊢
    simp only [forestOf]
    exact forestOfL_grps e' j ops hs hd
  | .bol, _, _ | .eol, _, _ | .nothing, _, _ | .endProgram, _, _ | .atom _, _, _ | .cls _, _, _
  | .backref _, _, _ => by simp [forestOf, capsOf, grpsF, flatF]
  | .choice bs, hs, _ => by
    rw [plain_capsOf (.choice bs) (by simpa only [straightCaps, plainOp] using hs)]
    simp [forestOf, grpsF, flatF]
  | .gfixed c mn mx l, hs, _ => by
    rw [plain_capsOf (.gfixed c mn mx l) (by simpa only [straightCaps, plainOp] using hs)]
    simp [forestOf, grpsF, flatF]
  | .rfixed c mn mx l, hs, _ => by
    rw [plain_capsOf (.rfixed c mn mx l) (by simpa only [straightCaps, plainOp] using hs)]
    simp [forestOf, grpsF, flatF]
  | .rep _ _ _ _ _, hs, _ | .unamb _ _ _, hs, _ => by simp [straightCaps] at hs
termination_by structural op => op
theorem forestOfL_grps (e' : CEnv) (j : Nat) : (ops : List Op) → straightCapsL ops = true →
    (∀ g ∈ capsOfL ops, (e' g).isSome = true) → grpsF (forestOfL e' j ops) = capsOfL ops
  | [], _, _ => by simp [forestOfL, capsOfL, grpsF, flatF]
  | o :: os, hs, hd => by
    simp only [straightCapsL, Bool.and_eq_true] at hs
    simp only [capsOfL] at hd ⊢
    simp only [forestOfL]
    rw [grpsF_append, forestOf_grps e' j o hs.1 (fun k hk => hd k (List.mem_append_left _ hk)),
      forestOfL_grps e' j os hs.2 (fun k hk => hd k (List.mem_append_right _ hk))]
termination_by structural ops => ops
end

mutual
theorem forestOf_spans (e' : CEnv) (j : Nat) : (op : Op) → ∀ x ∈ flatF (forestOf e' j op),
    ∃ a b, e' x.1 = some (a, b) ∧ x.2.1 = a - j ∧ x.2.2 = b - j
  | .capture g c, x, hx => by
    cases he : e' g with
    | none => simp [forestOf, he, flatF] at hx
    | some ab =>
      simp only [forestOf, he, flatF, flatT, List.append_nil, List.mem_cons] at hx
      rcases hx with rfl | hx
      · exact ⟨ab.1, ab.2, he, rfl, rfl⟩
      · exact forestOf_spans e' j c x hx
  | .seq ops, x, hx => by
    simp only [forestOf] at hx
    exact forestOfL_spans e' j ops x hx
  | .bol, _, hx | .eol, _, hx | .nothing, _, hx | .endProgram, _, hx | .atom _, _, hx | .cls _, _, hx
  | .backref _, _, hx | .choice _, _, hx | .rep _ _ _ _ _, _, hx | .gfixed _ _ _ _, _, hx
  | .rfixed _ _ _ _, _, hx | .unamb _ _ _, _, hx => by simp [forestOf, flatF] at hx
termination_by structural op => op
theorem forestOfL_spans (e' : CEnv) (j : Nat) : (ops : List Op) → ∀ x ∈ flatF (forestOfL e' j ops),
    ∃ a b, e' x.1 = some (a, b) ∧ x.2.1 = a - j ∧ x.2.2 = b - j
  | [], x, hx => by simp [forestOfL, flatF] at hx
  | o :: os, x, hx => by
    simp only [forestOfL, flatF_append, List.mem_append] at hx
    rcases hx with hx | hx
    · exact forestOf_spans e' j o x hx
    · exact forestOfL_spans e' j os x hx
termination_by structural ops => ops
end

mutual
theorem forestOf_par (tbl : List (Nat × Nat)) (e' : CEnv) (j : Nat) : (op : Op) → ∀ par,
    tblOK tbl op par = true → ParF tbl par (forestOf e' j op)
  | .capture g c, par, h => by
    simp only [tblOK, Bool.and_eq_true, beq_iff_eq] at h
    cases he : e' g with
    | none => simp [forestOf, he, ParF]
    | some ab =>
      simp only [forestOf, he, ParF, ParT, and_true]
      exact ⟨h.1, forestOf_par tbl e' j c g h.2⟩
  | .seq ops, par, h => by
    simp only [tblOK] at h
    simp only [forestOf]
    exact forestOfL_par tbl e' j ops par h
  | .bol, _, _ | .eol, _, _ | .nothing, _, _ | .endProgram, _, _ | .atom _, _, _ | .cls _, _, _
  | .backref _, _, _ | .choice _, _, _ | .rep _ _ _ _ _, _, _ | .gfixed _ _ _ _, _, _
  | .rfixed _ _ _ _, _, _ | .unamb _ _ _, _, _ => by simp [forestOf, ParF]
termination_by structural op => op
theorem forestOfL_par (tbl : List (Nat × Nat)) (e' : CEnv) (j : Nat) : (ops : List Op) → ∀ par,
    tblOKL tbl ops par = true → ParF tbl par (forestOfL e' j ops)
  | [], _, _ => by simp [forestOfL, ParF]
  | o :: os, par, h => by
    simp only [tblOKL, Bool.and_eq_true] at h
    simp only [forestOfL]
    exact ParF_append tbl par _ _ (forestOf_par tbl e' j o par h.1) (forestOfL_par tbl e' j os par h.2)
termination_by structural ops => ops
end

mutual
/-- along a path, the forest of the tree is well nested and ordered inside the span of the path -/
theorem forestOf_within (ctx : Ctx) (e' : CEnv) (j : Nat) : (op : Op) → straightCaps op = true →
    ∀ p e q e1, p ≤ ctx.len → j ≤ p → PathR ctx op p e q e1 → (capsOf op).Nodup →
    (∀ g ∈ capsOf op, e' g = e1 g) → WithinF (p - j) (q - j) (forestOf e' j op)
  | .capture g c, hs, p, e, q, e1, hp, hj, h, hnd, hag => by
    simp only [straightCaps] at hs
    simp only [PathR] at h
    obtain ⟨e0, h0, rfl⟩ := h
    simp only [capsOf, List.nodup_cons] at hnd
    simp only [capsOf] at hag
    have hb := PathR_bounds ctx c hp h0
    have hg : e' g = some (p, q) := by rw [hag g List.mem_cons_self, CEnv.set_same]
    simp only [forestOf, hg, WithinF, WithinT, GT.hi]
    refine ⟨⟨Nat.le_refl _, by omega, Nat.le_refl _, ?_⟩, Nat.le_refl _⟩
    apply forestOf_within ctx e' j c hs p e q e0 hp hj h0 hnd.2
    intro k hk
    have hkg : k ≠ g := fun hc => hnd.1 (by rw [← hc]; exact hk)
    rw [hag k (List.mem_cons_of_mem _ hk), CEnv.set_other _ _ _ _ _ hkg]
  | .seq ops, hs, p, e, q, e1, hp, hj, h, hnd, hag => by
    simp only [straightCaps] at hs
    simp only [PathR] at h
    simp only [capsOf] at hnd hag
    simp only [forestOf]
    exact forestOfL_within ctx e' j ops hs p e q e1 hp hj h hnd hag
  | .bol, _, p, e, q, e1, hp, _, h, _, _ => by
    have := PathR_bounds ctx .bol hp h; simp only [forestOf, WithinF]; omega
  | .eol, _, p, e, q, e1, hp, _, h, _, _ => by
    have := PathR_bounds ctx .eol hp h; simp only [forestOf, WithinF]; omega
  | .nothing, _, p, e, q, e1, hp, _, h, _, _ => by
    have := PathR_bounds ctx .nothing hp h; simp only [forestOf, WithinF]; omega
  | .endProgram, _, p, e, q, e1, hp, _, h, _, _ => by
    have := PathR_bounds ctx .endProgram hp h; simp only [forestOf, WithinF]; omega
  | .atom cs, _, p, e, q, e1, hp, _, h, _, _ => by
    have := PathR_bounds ctx (.atom cs) hp h; simp only [forestOf, WithinF]; omega
  | .cls rs, _, p, e, q, e1, hp, _, h, _, _ => by
    have := PathR_bounds ctx (.cls rs) hp h; simp only [forestOf, WithinF]; omega
  | .backref g, _, p, e, q, e1, hp, _, h, _, _ => by
    have := PathR_bounds ctx (.backref g) hp h; simp only [forestOf, WithinF]; omega
  | .choice bs, _, p, e, q, e1, hp, _, h, _, _ => by
    have := PathR_bounds ctx (.choice bs) hp h; simp only [forestOf, WithinF]; omega
  | .gfixed c mn mx l, _, p, e, q, e1, hp, _, h, _, _ => by
    have := PathR_bounds ctx (.gfixed c mn mx l) hp h; simp only [forestOf, WithinF]; omega
  | .rfixed c mn mx l, _, p, e, q, e1, hp, _, h, _, _ => by
    have := PathR_bounds ctx (.rfixed c mn mx l) hp h; simp only [forestOf, WithinF]; omega
  | .rep _ _ _ _ _, hs, _, _, _, _, _, _, _, _, _ | .unamb _ _ _, hs, _, _, _, _, _, _, _, _, _ => by
    simp [straightCaps] at hs
termination_by structural op => op
theorem forestOfL_within (ctx : Ctx) (e' : CEnv) (j : Nat) : (ops : List Op) → straightCapsL ops = true →
    ∀ p e q e1, p ≤ ctx.len → j ≤ p → PathRSeq ctx ops p e q e1 → (capsOfL ops).Nodup →
    (∀ g ∈ capsOfL ops, e' g = e1 g) → WithinF (p - j) (q - j) (forestOfL e' j ops)
  | [], _, p, e, q, e1, _, _, h, _, _ => by
    simp only [PathRSeq] at h
    simp only [forestOfL, WithinF, h.1]
    exact Nat.le_refl _
  | o :: os, hs, p, e, q, e1, hp, hj, h, hnd, hag => by
    simp only [straightCapsL, Bool.and_eq_true] at hs
    simp only [PathRSeq] at h
    obtain ⟨m, em, h1, h2⟩ := h
    simp only [capsOfL, List.nodup_append] at hnd
    obtain ⟨hn1, hn2, hdis⟩ := hnd
    simp only [capsOfL] at hag
    have hb1 := PathR_bounds ctx o hp h1
    simp only [forestOfL]
    apply WithinF_append _ _ (p - j) (m - j) (q - j)
    · apply forestOf_within ctx e' j o hs.1 p e m em hp hj h1 hn1
      intro g hg
      rw [hag g (List.mem_append_left _ hg)]
      exact PathRSeq_frame ctx os hs.2 m em q e1 h2 g (fun hc => hdis g hg g hc rfl)
    · exact forestOfL_within ctx e' j os hs.2 m em q e1 hb1.2 (by omega) h2 hn2
        (fun g hg => hag g (List.mem_append_right _ hg))
termination_by structural ops => ops
end

/-- **the state of a match on a straight-capture program is a forest state** (for the nesting table
    `tbl` of the pattern, checked against the tree by `tblOK`; groups numbered in the order of their
    opening parentheses) -/
theorem forestOK_of_matchRes (ctx : Ctx) (op : Op) (H : StraightOK ctx op)
    (hsorted : (capsOf op).Pairwise (· < ·)) (tbl : List (Nat × Nat)) (htbl : tblOK tbl op 0 = true)
    (input : List Nat) (hin : ctx.len = input.length)
    (j n : Nat) (e' : CEnv) (st' : St) (h : MatchRes ctx op j n e' st') (hjn : j < n) :
    ForestOK st' tbl j (slice input j n) (forestOf e' j op) := by
  have hdom : ∀ g ∈ capsOf op, (e' g).isSome = true := fun g hg => (h.dom g).1 hg
  have hgr := forestOf_grps e' j op H.straight hdom
  have hlen : (slice input j n).length = n - j := length_slice input j n (by rw [← hin]; exact h.len)
  have hspan : ∀ x ∈ flatF (forestOf e' j op), ∃ a b, e' x.1 = some (a, b) ∧ x.2.1 = a - j ∧ x.2.2 = b - j ∧
      j ≤ a ∧ a ≤ b := by
    intro x hx
    obtain ⟨a, b, h1, h2, h3⟩ := forestOf_spans e' j op x hx
    have := h.env x.1 a b h1
    exact ⟨a, b, h1, h2, h3, this.1, this.2.1⟩
  have hmem : ∀ x ∈ flatF (forestOf e' j op), x.1 ∈ capsOf op := by
    intro x hx
    rw [← hgr]
    exact List.mem_map.2 ⟨x, hx, rfl⟩
  refine ⟨h.reprP.pc0, h.start0, ?_, ?_, ?_, ?_, ?_, forestOf_par tbl e' j op 0 htbl, ?_⟩
  · have : (grpsF (forestOf e' j op)).Pairwise (· < ·) := by rw [hgr]; exact hsorted
    unfold grpsF at this
    rw [List.pairwise_map] at this
    exact this
  · intro x hx
    obtain ⟨a, b, h1, h2, h3, h4, h5⟩ := hspan x hx
    have hg1 := C03b.capsPos_capsOf op H.capsPos x.1 (hmem x hx)
    have hpc := h.reprP.pc x.1 hg1 (by simp) (by rw [h1]; rfl)
    exact ⟨hg1, hpc, by omega⟩
  · intro x hx
    obtain ⟨a, b, h1, h2, h3, h4, h5⟩ := hspan x hx
    have hg1 := C03b.capsPos_capsOf op H.capsPos x.1 (hmem x hx)
    have ha := h.reprP.repr.agree x.1 hg1 (by simp)
    rw [h1] at ha
    simp only [getParenStart, getParenEnd, ha.1, ha.2.1, Option.map_some, h2, h3]
    exact ⟨by congr 1; omega, by congr 1; omega⟩
  · intro k hk1 _ hk3
    rw [hgr] at hk3
    have hnone : e' k = none := by
      cases he : e' k with
      | none => rfl
      | some ab => exact absurd ((h.dom k).2 (by rw [he]; rfl)) hk3
    have ha := h.reprP.repr.agree k hk1 (by simp)
    rw [hnone] at ha
    exact ha.1
  · rw [hlen]
    have := forestOf_within ctx e' j op H.straight j CEnv.empty n e' (Nat.le_trans h.le h.len) (Nat.le_refl _)
      h.path H.nodup (fun _ _ => rfl)
    simpa using this
  · intro hc
    have : (slice input j n).length = 0 := by rw [hc]; rfl
    omega

/-- the group tree `analyze` reports for the match `(j, n, e')` -/
def groupTree (op : Op) (input : List Nat) (x : Nat × Nat × CEnv) : List MEntry :=
  outF (slice input x.1 x.2.1) 0 (x.2.1 - x.1) (forestOf x.2.2 x.1 op)

theorem processMatch_matchRes (ctx : Ctx) (op : Op) (H : StraightOK ctx op)
    (hsorted : (capsOf op).Pairwise (· < ·)) (tbl : List (Nat × Nat)) (htbl : tblOK tbl op 0 = true)
    (input : List Nat) (hin : ctx.len = input.length)
    (j n : Nat) (e' : CEnv) (st' : St) (h : MatchRes ctx op j n e' st') (hjn : j < n) :
    processMatch tbl st' (slice input j n) = .ok (groupTree op input (j, n, e')) := by
  have hF := forestOK_of_matchRes ctx op H hsorted tbl htbl input hin j n e' st' h hjn
  have hlen : (slice input j n).length = n - j := length_slice input j n (by rw [← hin]; exact h.len)
  rw [processMatch_forest st' tbl j (slice input j n) (forestOf e' j op) hF, hlen]
  rfl

/-! ### reading the group tree -/

open Rx.Spec Rx.C03

theorem mTextL_strNE (s : List Nat) : mTextL (strNE s) = s := by
  unfold strNE
  split
  · rename_i h; rw [h]; exact mTextL_nil
  · rw [mTextL_cons, mText_str, mTextL_nil, List.append_nil]

mutual
/-- the leaves of a group node concatenate to the text of its span -/
theorem outT_text (cur : List Nat) : (t : GT) → ∀ lo hi, WithinT lo hi t → hi ≤ cur.length →
    mText (outT cur t) = slice cur t.lo t.hi
  | .node g a b ks, lo, hi, h, hhi => by
    simp only [WithinT] at h
    simp only [outT, GT.lo, GT.hi, mText_group]
    exact outF_text cur ks a b h.2.2.2 (by omega)
termination_by structural t => t
theorem outF_text (cur : List Nat) : (ks : List GT) → ∀ lo hi, WithinF lo hi ks → hi ≤ cur.length →
    mTextL (outF cur lo hi ks) = slice cur lo hi
  | [], lo, hi, _, _ => by simp only [outF]; exact mTextL_strNE _
  | t :: ts, lo, hi, h, hhi => by
    simp only [WithinF] at h
    have hle := WithinF_le ts t.hi hi h.2
    have hlo : lo ≤ t.lo ∧ t.lo ≤ t.hi := by
      cases t with
      | node g a b ks => simp only [WithinT] at h; simp only [GT.lo, GT.hi]; omega
    simp only [outF]
    rw [mTextL_append, mTextL_strNE, mTextL_cons, outT_text cur t lo hi h.1 hhi, outF_text cur ts t.hi hi h.2 hhi,
      slice_split cur lo t.lo hi hlo.1 (by omega), slice_split cur t.lo t.hi hi hlo.2 hle]
termination_by structural ks => ks
end

mutual
/-- the group numbers of the `Group` nodes of a tree, in document order -/
def mGrps : MEntry → List Nat
  | .str _ => []
  | .group nr v => nr :: mGrpsL v
def mGrpsL : List MEntry → List Nat
  | [] => []
  | e :: es => mGrps e ++ mGrpsL es
end

theorem mGrpsL_append (a b : List MEntry) : mGrpsL (a ++ b) = mGrpsL a ++ mGrpsL b := by
  induction a with
  | nil => simp [mGrpsL]
  | cons e es ih => simp [mGrpsL, ih, List.append_assoc]

theorem mGrpsL_strNE (s : List Nat) : mGrpsL (strNE s) = [] := by
  unfold strNE; split <;> simp [mGrpsL, mGrps]

mutual
/-- the tree has exactly one `Group` node per node of the forest -/
theorem outT_grps (cur : List Nat) : (t : GT) → mGrps (outT cur t) = grpsT t
  | .node g a b ks => by
    simp only [outT, mGrps, grpsT_node]
    rw [outF_grps cur ks a b]
termination_by structural t => t
theorem outF_grps (cur : List Nat) : (ks : List GT) → ∀ lo hi, mGrpsL (outF cur lo hi ks) = grpsF ks
  | [], lo, hi => by simp only [outF, mGrpsL_strNE]; rfl
  | t :: ts, lo, hi => by
    simp only [outF]
    rw [mGrpsL_append, mGrpsL_strNE, List.nil_append, mGrpsL, outT_grps cur t, outF_grps cur ts, grpsF_cons]
termination_by structural ks => ks
end

mutual
/-- `m` is a node of the tree (at any depth) -/
def subT (m : MEntry) : MEntry → Prop
  | .str _ => False
  | .group nr v => m = .group nr v ∨ subL m v
def subL (m : MEntry) : List MEntry → Prop
  | [] => False
  | e :: es => subT m e ∨ subL m es
end

theorem subL_append_left (m : MEntry) (a b : List MEntry) (h : subL m a) : subL m (a ++ b) := by
  induction a with
  | nil => simp [subL] at h
  | cons e es ih =>
    simp only [List.cons_append, subL] at h ⊢
    rcases h with h | h
    · exact .inl h
    · exact .inr (ih h)

theorem subL_append_right (m : MEntry) (a b : List MEntry) (h : subL m b) : subL m (a ++ b) := by
  induction a with
  | nil => exact h
  | cons e es ih => simp only [List.cons_append, subL]; exact .inr ih

mutual
/-- `t0` is a node of the forest (at any depth) -/
def inT (t0 : GT) : GT → Prop
  | .node g a b ks => t0 = .node g a b ks ∨ inF t0 ks
termination_by structural t => t
def inF (t0 : GT) : List GT → Prop
  | [] => False
  | t :: ts => inT t0 t ∨ inF t0 ts
termination_by structural l => l
end

theorem inF_append_left (t0 : GT) (a b : List GT) (h : inF t0 a) : inF t0 (a ++ b) := by
  induction a with
  | nil => simp [inF] at h
  | cons e es ih =>
    simp only [List.cons_append, inF] at h ⊢
    rcases h with h | h
    · exact .inl h
    · exact .inr (ih h)

theorem inF_append_right (t0 : GT) (a b : List GT) (h : inF t0 b) : inF t0 (a ++ b) := by
  induction a with
  | nil => exact h
  | cons e es ih => simp only [List.cons_append, inF]; exact .inr ih

mutual
theorem outT_sub (cur : List Nat) (t0 : GT) : (t : GT) → inT t0 t → subT (outT cur t0) (outT cur t)
  | .node g a b ks, h => by
    simp only [inT] at h
    simp only [outT, subT]
    rcases h with rfl | h
    · exact .inl (by simp only [outT])
    · exact .inr (outF_sub cur t0 ks a b h)
termination_by structural t => t
theorem outF_sub (cur : List Nat) (t0 : GT) : (ks : List GT) → ∀ lo hi, inF t0 ks →
    subL (outT cur t0) (outF cur lo hi ks)
  | [], _, _, h => by simp [inF] at h
  | t :: ts, lo, hi, h => by
    simp only [inF] at h
    simp only [outF]
    apply subL_append_right
    simp only [subL]
    rcases h with h | h
    · exact .inl (outT_sub cur t0 t h)
    · exact .inr (outF_sub cur t0 ts t.hi hi h)
termination_by structural ks => ks
end

mutual
/-- every capture node of the tree that the environment binds is a node of the forest, with the forest
    of its body as children -/
theorem forestOf_node (e' : CEnv) (j : Nat) : (op : Op) → (∀ k ∈ capsOf op, (e' k).isSome = true) →
    ∀ g c a b, (g, c) ∈ capNodes op → e' g = some (a, b) →
    inF (.node g (a - j) (b - j) (forestOf e' j c)) (forestOf e' j op)
  | .capture g' c', hd, g, c, a, b, hm, he => by
    simp only [capNodes, List.mem_cons, Prod.mk.injEq] at hm
    simp only [capsOf] at hd
    rcases hm with ⟨rfl, rfl⟩ | hm
    · simp only [forestOf, he, inF, inT]
      exact .inl (.inl trivial)
    · have ih := forestOf_node e' j c' (fun k hk => hd k (List.mem_cons_of_mem _ hk)) g c a b hm he
      have hg' := hd g' List.mem_cons_self
      cases he' : e' g' with
      | none => rw [he'] at hg'; cases hg'
      | some ab =>
        simp only [forestOf, he', inF, inT]
        exact .inl (.inr ih)
  | .seq ops, hd, g, c, a, b, hm, he => by
    simp only [capNodes] at hm
    simp only [capsOf] at hd
    simp only [forestOf]
    exact forestOfL_node e' j ops hd g c a b hm he
  | .bol, _, _, _, _, _, hm, _ | .eol, _, _, _, _, _, hm, _ | .nothing, _, _, _, _, _, hm, _
  | .endProgram, _, _, _, _, _, hm, _ | .atom _, _, _, _, _, _, hm, _ | .cls _, _, _, _, _, _, hm, _
  | .backref _, _, _, _, _, _, hm, _ | .choice _, _, _, _, _, _, hm, _ | .rep _ _ _ _ _, _, _, _, _, _, hm, _
  | .gfixed _ _ _ _, _, _, _, _, _, hm, _ | .rfixed _ _ _ _, _, _, _, _, _, hm, _
  | .unamb _ _ _, _, _, _, _, _, hm, _ => by
    simp [capNodes] at hm
termination_by structural op => op
theorem forestOfL_node (e' : CEnv) (j : Nat) : (ops : List Op) → (∀ k ∈ capsOfL ops, (e' k).isSome = true) →
    ∀ g c a b, (g, c) ∈ capNodesL ops →
    e' g = some (a, b) → inF (.node g (a - j) (b - j) (forestOf e' j c)) (forestOfL e' j ops)
  | [], _, _, _, _, _, hm, _ => by simp [capNodesL] at hm
  | o :: os, hd, g, c, a, b, hm, he => by
    simp only [capNodesL, List.mem_append] at hm
    simp only [capsOfL] at hd
    simp only [forestOfL]
    rcases hm with hm | hm
    · exact inF_append_left _ _ _ (forestOf_node e' j o (fun k hk => hd k (List.mem_append_left _ hk)) g c a b hm he)
    · exact inF_append_right _ _ _ (forestOfL_node e' j os (fun k hk => hd k (List.mem_append_right _ hk)) g c a b hm he)
termination_by structural ops => ops
end

theorem slice_slice (s : List Nat) (j n x y : Nat) (h : j + y ≤ n) :
    slice (slice s j n) x y = slice s (j + x) (j + y) := by
  unfold slice
  rw [List.drop_take, List.drop_drop, List.take_take]
  congr 1
  omega

/-! ### the span sequence of the scan loops against the state-free one -/

theorem spansOf_map {α : Type} {pr : Prog} {lower : Nat → Nat} {input : List Nat} (S : SearchOK pr lower input)
    (φ : St → Nat → Nat → α) (ψ : Nat × Nat × CEnv → α)
    (hφ : ∀ j n e' st', MatchRes (pr.ctx lower input) pr.op j n e' st' → j < n → φ st' j n = ψ (j, n, e')) :
    ∀ (f pos : Nat) (st : St), st.panic = none → pos ≤ input.length →
    (C04.spansOf (pr.matcher lower input) input.length f pos st).map (fun x => (x.1, x.2.1, φ x.2.2 x.1 x.2.1)) =
      (specSpans (pr.ctx lower input) pr.op f pos).map (fun y => (y.1, y.2.1, ψ y)) := by
  intro f
  induction f with
  | zero => intro pos st _ _; rfl
  | succ f ih =>
    intro pos st hst hp
    have hlen : (pr.ctx lower input).len = input.length := rfl
    unfold C04.spansOf specSpans
    by_cases hlt : pos < input.length
    · simp only [hlt, if_true, hlen]
      have hfind : (pr.matcher lower input).find st pos = matchesFrom (pr.ctx lower input) pr pos st := rfl
      rw [hfind]
      rcases S.find_step pos hp st hst with ⟨st', j, n, e', he, hfm, hpj, hjn, hres⟩ | ⟨st', he, hfm, hcl⟩
      · rw [he, hfm]
        have hs0 : (pr.matcher lower input).start0 st' = some j := hres.start0
        have he0 : (pr.matcher lower input).end0 st' = some n := hres.end0
        simp only [hs0, he0, List.map_cons]
        rw [ih n st' hres.clean hres.len, hφ j n e' st' hres hjn]
      · rw [he, hfm]
        rfl
    · simp only [hlt, if_false, hlen]
      rfl

mutual
theorem capsOf_sublist : (op : Op) → ∀ g c, (g, c) ∈ capNodes op → (capsOf c).Sublist (capsOf op)
  | .capture g' c', g, c, hm => by
    simp only [capNodes, List.mem_cons, Prod.mk.injEq] at hm
    simp only [capsOf]
    rcases hm with ⟨_, rfl⟩ | hm
    · exact List.sublist_cons_self _ _
    · exact (capsOf_sublist c' g c hm).trans (List.sublist_cons_self _ _)
  | .seq ops, g, c, hm => by
    simp only [capNodes] at hm
    simp only [capsOf]
    exact capsOfL_sublist ops g c hm
  | .bol, _, _, hm | .eol, _, _, hm | .nothing, _, _, hm | .endProgram, _, _, hm | .atom _, _, _, hm
  | .cls _, _, _, hm | .backref _, _, _, hm | .choice _, _, _, hm | .rep _ _ _ _ _, _, _, hm
  | .gfixed _ _ _ _, _, _, hm | .rfixed _ _ _ _, _, _, hm | .unamb _ _ _, _, _, hm => by
    simp [capNodes] at hm
termination_by structural op => op
theorem capsOfL_sublist : (ops : List Op) → ∀ g c, (g, c) ∈ capNodesL ops → (capsOf c).Sublist (capsOfL ops)
  | [], _, _, hm => by simp [capNodesL] at hm
  | o :: os, g, c, hm => by
    simp only [capNodesL, List.mem_append] at hm
    simp only [capsOfL]
    rcases hm with hm | hm
    · exact (capsOf_sublist o g c hm).trans (List.sublist_append_left _ _)
    · exact (capsOfL_sublist os g c hm).trans (List.sublist_append_right _ _)
termination_by structural ops => ops
end

/-! ### Boolean equality on analyze results (for kernel-evaluated examples) -/

mutual
def mEq : MEntry → MEntry → Bool
  | .str a, .str b => a == b
  | .group n v, .group n' v' => (n == n') && mEqL v v'
  | _, _ => false
def mEqL : List MEntry → List MEntry → Bool
  | [], [] => true
  | a :: as, b :: bs => mEq a b && mEqL as bs
  | _, _ => false
end

mutual
theorem mEq_sound : (a b : MEntry) → mEq a b = true → a = b
  | .str x, b, h => by
    cases b with
    | str y => simp only [mEq, beq_iff_eq] at h; rw [h]
    | group _ _ => simp [mEq] at h
  | .group n v, b, h => by
    cases b with
    | str _ => simp [mEq] at h
    | group n' v' =>
      simp only [mEq, Bool.and_eq_true, beq_iff_eq] at h
      rw [h.1, mEqL_sound v v' h.2]
theorem mEqL_sound : (a b : List MEntry) → mEqL a b = true → a = b
  | [], b, h => by cases b <;> first | rfl | (simp [mEqL] at h)
  | x :: xs, b, h => by
    cases b with
    | nil => simp [mEqL] at h
    | cons y ys =>
      simp only [mEqL, Bool.and_eq_true] at h
      rw [mEq_sound x y h.1, mEqL_sound xs ys h.2]
end

def aEq : AEntry → AEntry → Bool
  | .nonMatch a, .nonMatch b => a == b
  | .isMatch a, .isMatch b => mEqL a b
  | _, _ => false

def aEqL : List AEntry → List AEntry → Bool
  | [], [] => true
  | a :: as, b :: bs => aEq a b && aEqL as bs
  | _, _ => false

theorem aEq_sound (a b : AEntry) (h : aEq a b = true) : a = b := by
  cases a <;> cases b <;> simp only [aEq, beq_iff_eq] at h
  · rw [h]
  · cases h
  · cases h
  · rw [mEqL_sound _ _ h]

theorem aEqL_sound : (a b : List AEntry) → aEqL a b = true → a = b
  | [], b, h => by cases b <;> first | rfl | (simp [aEqL] at h)
  | x :: xs, b, h => by
    cases b with
    | nil => simp [aEqL] at h
    | cons y ys =>
      simp only [aEqL, Bool.and_eq_true] at h
      rw [aEq_sound x y h.1, aEqL_sound xs ys h.2]

end Rx
