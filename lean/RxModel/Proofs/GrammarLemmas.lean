/-
  Proofs/GrammarLemmas — the parser accepts every rendered well-formed tree of Spec/Grammar.
  Step lemmas for `escape`, `pieceQuant`, `parseAtomGo` on the rendered text, then one induction on
  the fuel over `parseExpr` / `parseBranches` / `parseBranch` / `parseTerminal`.
-/
import RxModel.Model.Compile
import RxModel.Spec.Grammar
import RxModel.Props.C07
import RxModel.Props.C09c
namespace Rx.Grammar
open Rx
open Rx.C09 (drop_cons_facts drop_len)
set_option linter.unusedSimpArgs false
set_option linter.unusedVariables false

/-! ### reading the pattern -/

theorem drop_advance {c : PC} {i : Nat} {l1 l2 : List Nat} (h : c.pat.drop i = l1 ++ l2) :
    c.pat.drop (i + l1.length) = l2 := by
  rw [← List.drop_drop, h, List.drop_left]

theorem drop_nil_ge {c : PC} {i : Nat} (h : c.pat.drop i = []) : c.len ≤ i := by
  have := drop_len h
  simp only [List.length_nil] at this
  omega

/-- same position, same group bookkeeping (the other fields do not steer the parser) -/
def Sim (s2 s : PS) : Prop := s2.idx = s.idx ∧ s2.parens = s.parens ∧ s2.captures = s.captures

theorem Sim.rfl' {s : PS} : Sim s s := ⟨rfl, rfl, rfl⟩

/-! ### back-references -/

theorem foldl_digits_ge (ds : List Nat) : ∀ acc, acc ≤ ds.foldl (fun n d => n * 10 + (d - 48)) acc := by
  induction ds with
  | nil => intro acc; exact Nat.le_refl _
  | cons d ds ih =>
    intro acc
    simp only [List.foldl_cons]
    exact Nat.le_trans (by omega) (ih _)

/-- `backrefDigits` reads the whole numeral `ds` when its value does not exceed the number of
    groups opened, and stops where the multi-digit rule says -/
theorem backrefDigits_spec (c : PC) (parens : Nat) (ds : List Nat) :
    ∀ (rest : List Nat) (fuel idx acc : Nat), ds.all isDigit = true →
      c.pat.drop idx = ds ++ rest → ds.length < fuel →
      ds.foldl (fun n d => n * 10 + (d - 48)) acc ≤ parens - 1 →
      backrefFollowOk (parens - 1) (ds.foldl (fun n d => n * 10 + (d - 48)) acc) rest = true →
      backrefDigits c parens fuel idx acc =
        (idx + ds.length, ds.foldl (fun n d => n * 10 + (d - 48)) acc) := by
  induction ds with
  | nil =>
    intro rest fuel idx acc _ hpat hfuel _ hfol
    obtain ⟨f, rfl⟩ : ∃ f, fuel = f + 1 := ⟨fuel - 1, by simp at hfuel; omega⟩
    simp only [List.nil_append] at hpat
    simp only [List.foldl_nil] at hfol
    simp only [backrefDigits, List.length_nil, Nat.add_zero, List.foldl_nil]
    cases rest with
    | nil =>
      have := drop_nil_ge hpat
      have h1 : ¬ idx < c.len := by omega
      simp [h1]
    | cons x t =>
      obtain ⟨hlt, hat, _⟩ := drop_cons_facts hpat
      simp only [backrefFollowOk, Bool.not_eq_true', Bool.and_eq_false_iff, decide_eq_false_iff_not] at hfol
      rcases hfol with hd | hv
      · simp [hlt, hat, hd]
      · have : acc * 10 + (x - 48) > parens - 1 := by omega
        simp [hlt, hat, this]
  | cons d ds ih =>
    intro rest fuel idx acc hds hpat hfuel hle hfol
    obtain ⟨f, rfl⟩ : ∃ f, fuel = f + 1 := ⟨fuel - 1, by simp at hfuel; omega⟩
    simp only [List.cons_append] at hpat
    simp only [List.all_cons, Bool.and_eq_true] at hds
    simp only [List.foldl_cons] at hle hfol
    obtain ⟨hlt, hat, h1⟩ := drop_cons_facts hpat
    have hge := foldl_digits_ge ds (acc * 10 + (d - 48))
    have h2 : ¬ (acc * 10 + (d - 48) > parens - 1) := by omega
    simp only [backrefDigits, hlt, hat, hds.1, decide_true, Bool.and_self, if_true, h2, if_false]
    rw [ih rest f (idx + 1) _ hds.2 h1 (by simp at hfuel; omega) hle hfol]
    simp only [List.length_cons, List.foldl_cons]
    congr 1; omega

/-- `\N` outside a class, XPath dialect: group `N` opened and closed -/
theorem escape_backref {c : PC} {s : PS} {ds rest : List Nat}
    (h : c.pat.drop s.idx = 92 :: (ds ++ rest)) (hx : c.fl.xsd = false)
    (hnum : backrefNumeral ds = true) (hle : Spec.digitsVal ds ≤ s.parens - 1)
    (hmem : Spec.digitsVal ds ∈ s.captures)
    (hfol : backrefFollowOk (s.parens - 1) (Spec.digitsVal ds) rest = true) :
    escape c s false = .ok (.backref (Spec.digitsVal ds))
      { s with idx := s.idx + 1 + ds.length, hasBackrefs := true } := by
  cases ds with
  | nil => simp [backrefNumeral] at hnum
  | cons d more =>
    simp only [backrefNumeral, List.all_cons, Bool.and_eq_true, bne_iff_ne, ne_eq] at hnum
    obtain ⟨⟨hd, hmore⟩, hd0⟩ := hnum
    simp only [List.cons_append] at h
    obtain ⟨hlt0, hat0, h1⟩ := drop_cons_facts h
    obtain ⟨hlt1, hat1, h2⟩ := drop_cons_facts h1
    have hdr : 49 ≤ d ∧ d ≤ 57 := by
      simp only [isDigit, Bool.and_eq_true, decide_eq_true_eq] at hd
      omega
    have hv : Spec.digitsVal (d :: more) = more.foldl (fun n d => n * 10 + (d - 48)) (d - 48) := by
      simp [Spec.digitsVal]
    rw [hv] at hle hmem hfol
    have hbd := backrefDigits_spec c s.parens more rest (c.len + 1) (s.idx + 2) (d - 48) hmore h2
      (by
        have := drop_len h2
        simp only [List.length_append] at this
        omega) hle hfol
    have c0 : (c.at s.idx != 92) = false := by simp [hat0]
    have c1 : ¬ (s.idx + 1 ≥ c.len) := by omega
    unfold escape
    simp only [c0, c1, Bool.false_eq_true, if_false, hat1]
    have e1 : ∀ k : Nat, k < 49 ∨ 57 < k → (d == k) = false := by
      intro k hk; rw [beq_eq_false_iff_ne]; omega
    simp only [e1 110 (by omega), e1 114 (by omega), e1 116 (by omega), e1 92 (by omega),
      e1 124 (by omega), e1 46 (by omega), e1 45 (by omega), e1 94 (by omega), e1 63 (by omega),
      e1 42 (by omega), e1 43 (by omega), e1 123 (by omega), e1 125 (by omega), e1 40 (by omega),
      e1 41 (by omega), e1 91 (by omega), e1 93 (by omega), e1 36 (by omega), e1 115 (by omega),
      e1 83 (by omega), e1 105 (by omega), e1 73 (by omega), e1 99 (by omega), e1 67 (by omega),
      e1 100 (by omega), e1 68 (by omega), e1 119 (by omega), e1 87 (by omega), e1 112 (by omega),
      e1 80 (by omega), e1 48 (by omega), Bool.or_self, Bool.false_eq_true, if_false]
    have e2 : (decide (49 ≤ d) && decide (d ≤ 57)) = true := by simp [hdr.1, hdr.2]
    simp only [e2, if_true, hx, Bool.false_eq_true, if_false, hbd, hv]
    have e3 : (!decide (more.foldl (fun n d => n * 10 + (d - 48)) (d - 48) ∈ s.captures)) = false := by
      simp [hmem]
    simp only [e3, Bool.false_eq_true, if_false, List.length_cons]
    congr 2
    omega

/-! ### quantifiers -/

/-- the first part of `pieceQuant`: is there a quantifier, and where does it end -/
def quantHead (c : PC) (s : PS) : PRes Bool :=
  let q := c.at s.idx
  if q == 63 || q == 42 || q == 43 then .ok true { s with idx := s.idx + 1 }
  else if q == 123 then (match bracket c s with | .ok _ s' => .ok true s' | .err e => .err e)
  else .ok false s

/-- is the next character the reluctant marker -/
def relAt (c : PC) (s : PS) : Bool := decide (s.idx < c.len) && c.at s.idx == 63

/-- once the quantifier head is read, `pieceQuant` succeeds (every combination of operand and
    bounds yields some operation) unless a reluctant marker follows in the XSD dialect -/
theorem pieceQuant_ok (c : PC) (ret : Op) (s : PS) (hlt : s.idx < c.len) (hasQ : Bool) (s1 : PS)
    (hr : quantHead c s = .ok hasQ s1) (hx : (relAt c s1 && c.fl.xsd) = false) :
    ∃ op, pieceQuant c ret s =
      .ok op (if relAt c s1 then { s1 with idx := s1.idx + 1 } else s1) := by
  rw [pieceQuant, if_neg (by omega)]
  extract_lets q r
  have hr' : r = .ok hasQ s1 := hr
  clear_value r
  subst hr'
  dsimp -zeta only
  extract_lets qt0 qt reluctant s2 greedy mm mn mx
  have hrel : reluctant = relAt c s1 := rfl
  have hs2 : s2 = (if relAt c s1 then { s1 with idx := s1.idx + 1 } else s1) := rfl
  rw [hrel, if_neg (by rw [hx]; exact Bool.false_ne_true)]
  rw [← hs2]
  clear_value mx mn mm qt s2
  repeat' first
    | exact ⟨_, rfl⟩
    | split

theorem isQuantChar_iff (y : Nat) : isQuantChar y = true ↔ (y = 123 ∨ y = 63 ∨ y = 42 ∨ y = 43) := by
  simp [isQuantChar, or_assoc]

theorem isQuantChar_false (y : Nat) :
    isQuantChar y = false ↔ (y ≠ 123 ∧ y ≠ 63 ∧ y ≠ 42 ∧ y ≠ 43) := by
  simp [isQuantChar, and_assoc]

/-- no quantifier character here: the operand is returned as it is -/
theorem pieceQuant_none (c : PC) (ret : Op) (s : PS)
    (h : s.idx ≥ c.len ∨ isQuantChar (c.at s.idx) = false) : ∃ op, pieceQuant c ret s = .ok op s := by
  by_cases hge : s.idx ≥ c.len
  · rw [pieceQuant, if_pos hge]; exact ⟨_, rfl⟩
  · have hq := h.resolve_left hge
    rw [isQuantChar_false] at hq
    obtain ⟨h1, h2, h3, h4⟩ := hq
    have hh : quantHead c s = .ok false s := by
      simp [quantHead, h1, h2, h3, h4]
    have hrel : relAt c s = false := by simp [relAt, h2]
    have := pieceQuant_ok c ret s (by omega) false s hh (by simp [hrel])
    rw [hrel] at this
    simpa using this

theorem numeral_eq (ds : List Nat) : numeral ds = C07.isNumeral ds := rfl

/-- the quantifier head on a rendered quantifier kind -/
theorem quantHead_kind (c : PC) (s : PS) (k : QKind) (rest : List Nat)
    (h : c.pat.drop s.idx = k.render ++ rest) (hok : k.ok = true) (hlim : k.inLimit = true) :
    ∃ s1, quantHead c s = .ok true s1 ∧ s1.idx = s.idx + k.render.length ∧
      s1.parens = s.parens ∧ s1.captures = s.captures := by
  cases k with
  | opt =>
    simp only [QKind.render, List.cons_append, List.nil_append] at h
    obtain ⟨_, hat, _⟩ := drop_cons_facts h
    exact ⟨{ s with idx := s.idx + 1 }, by simp [quantHead, hat], rfl, rfl, rfl⟩
  | star =>
    simp only [QKind.render, List.cons_append, List.nil_append] at h
    obtain ⟨_, hat, _⟩ := drop_cons_facts h
    exact ⟨{ s with idx := s.idx + 1 }, by simp [quantHead, hat], rfl, rfl, rfl⟩
  | plus =>
    simp only [QKind.render, List.cons_append, List.nil_append] at h
    obtain ⟨_, hat, _⟩ := drop_cons_facts h
    exact ⟨{ s with idx := s.idx + 1 }, by simp [quantHead, hat], rfl, rfl, rfl⟩
  | exact n =>
    simp only [QKind.render, List.cons_append] at h
    obtain ⟨_, hat, _⟩ := drop_cons_facts h
    simp only [QKind.ok, numeral_eq] at hok
    simp only [QKind.inLimit, decide_eq_true_eq] at hlim
    have hb := C07.bracket_exact c s n rest hok hlim (by simpa using h)
    refine ⟨{ s with idx := s.idx + n.length + 2, bmin := Spec.digitsVal n, bmax := Spec.digitsVal n },
      by simp [quantHead, hat, hb], ?_, rfl, rfl⟩
    simp only [QKind.render, List.length_cons, List.length_append, List.length_nil]
    omega
  | atLeast n =>
    simp only [QKind.render, List.cons_append] at h
    obtain ⟨_, hat, _⟩ := drop_cons_facts h
    simp only [QKind.ok, numeral_eq] at hok
    simp only [QKind.inLimit, decide_eq_true_eq] at hlim
    have hb := C07.bracket_open c s n rest hok hlim (by simpa using h)
    refine ⟨{ s with idx := s.idx + n.length + 3, bmin := Spec.digitsVal n, bmax := usizeMax },
      by simp [quantHead, hat, hb], ?_, rfl, rfl⟩
    simp only [QKind.render, List.length_cons, List.length_append, List.length_nil]
    omega
  | range n m =>
    simp only [QKind.render, List.cons_append] at h
    obtain ⟨_, hat, _⟩ := drop_cons_facts h
    simp only [QKind.ok, numeral_eq, Bool.and_eq_true, decide_eq_true_eq] at hok
    simp only [QKind.inLimit, Bool.and_eq_true, decide_eq_true_eq] at hlim
    have hb := C07.bracket_range c s n m rest hok.1.1 hok.1.2 hlim.1 hlim.2 (by simpa using h)
    rw [if_pos hok.2] at hb
    refine ⟨{ s with idx := s.idx + n.length + m.length + 3, bmin := Spec.digitsVal n, bmax := Spec.digitsVal m },
      by simp [quantHead, hat, hb], ?_, rfl, rfl⟩
    simp only [QKind.render, List.length_cons, List.length_append, List.length_nil]
    omega

/-- a rendered quantifier is consumed exactly -/
theorem pieceQuant_some (c : PC) (ret : Op) (s : PS) (q : Quant) (rest : List Nat)
    (h : c.pat.drop s.idx = q.render ++ rest) (hok : q.ok c.fl.xsd = true)
    (hlim : q.kind.inLimit = true) (hrest : rest.head? ≠ some 63) :
    ∃ op s', pieceQuant c ret s = .ok op s' ∧ s'.idx = s.idx + q.render.length ∧
      s'.parens = s.parens ∧ s'.captures = s.captures := by
  simp only [Quant.ok, Bool.and_eq_true, Bool.not_eq_true', Bool.and_eq_false_iff] at hok
  simp only [Quant.render, List.append_assoc] at h
  obtain ⟨s1, hh, hi, hp, hc⟩ := quantHead_kind c s q.kind _ h hok.1 hlim
  have hlt : s.idx < c.len := by
    have := drop_len h
    have : 0 < q.kind.render.length := by cases q.kind <;> simp [QKind.render]
    simp only [List.length_append] at *
    omega
  have h1 : c.pat.drop s1.idx = (if q.reluctant then [63] else []) ++ rest := by
    rw [hi]; exact drop_advance h
  cases hq : q.reluctant with
  | true =>
    rw [hq] at h1
    simp only [if_true, List.cons_append, List.nil_append] at h1
    obtain ⟨hlt1, hat1, _⟩ := drop_cons_facts h1
    have hrel : relAt c s1 = true := by simp [relAt, hlt1, hat1]
    have hxsd : c.fl.xsd = false := by
      rcases hok.2 with h2 | h2
      · rw [hq] at h2; cases h2
      · exact h2
    obtain ⟨op, hp'⟩ := pieceQuant_ok c ret s hlt true s1 hh (by simp [hxsd])
    rw [hrel] at hp'
    refine ⟨op, _, hp', ?_, hp, hc⟩
    simp only [Quant.render, hq, if_true, List.length_append, List.length_cons, List.length_nil]
    omega
  | false =>
    rw [hq] at h1
    simp only [Bool.false_eq_true, if_false, List.nil_append] at h1
    have hrel : relAt c s1 = false := by
      cases rest with
      | nil =>
        have := drop_nil_ge h1
        simp [relAt]; intro; omega
      | cons y tl =>
        obtain ⟨_, hat1, _⟩ := drop_cons_facts h1
        have : y ≠ 63 := fun hy => hrest (by rw [hy]; rfl)
        simp [relAt, hat1, this]
    obtain ⟨op, hp'⟩ := pieceQuant_ok c ret s hlt true s1 hh (by simp [hrel])
    rw [hrel] at hp'
    refine ⟨op, _, hp', ?_, hp, hc⟩
    simp only [Quant.render, hq, Bool.false_eq_true, if_false, List.append_nil]
    exact hi

/-! ### first characters -/

theorem CExpr_render_head (e : C09.CExpr) : ∃ tl, e.render = 91 :: tl := by
  cases e <;> exact ⟨_, rfl⟩

/-- the first character of a well-formed atom is never a quantifier character, `)` or `|` -/
theorem Atom.head_spec {xsd : Bool} {env : Env} {n : Nat} {cl : List Nat} {a : Atom}
    (h : a.ok xsd env n cl = true) :
    ∃ y tl, a.render = y :: tl ∧ isQuantChar y = false ∧ y ≠ 41 ∧ y ≠ 124 := by
  cases a with
  | chr x =>
    simp only [Atom.ok, normalChar, Bool.and_eq_true, Bool.not_eq_true', Bool.or_eq_false_iff,
      beq_eq_false_iff_ne, ne_eq] at h
    refine ⟨x, [], rfl, ?_, by omega, by omega⟩
    rw [isQuantChar_false]; omega
  | dot => exact ⟨46, [], rfl, by decide, by decide, by decide⟩
  | bol => exact ⟨94, [], rfl, by decide, by decide, by decide⟩
  | eol => exact ⟨36, [], rfl, by decide, by decide, by decide⟩
  | esc e => exact ⟨92, [e], rfl, by decide, by decide, by decide⟩
  | clsEsc e => exact ⟨92, [e], rfl, by decide, by decide, by decide⟩
  | prop pos name => exact ⟨92, _, rfl, by decide, by decide, by decide⟩
  | backref ds => exact ⟨92, ds, rfl, by decide, by decide, by decide⟩
  | cls e =>
    obtain ⟨tl, ht⟩ := CExpr_render_head e
    exact ⟨91, tl, ht, by decide, by decide, by decide⟩
  | group r => exact ⟨40, _, rfl, by decide, by decide, by decide⟩
  | ncgroup r => exact ⟨40, _, rfl, by decide, by decide, by decide⟩

/-- what may follow a branch: the end, `)` or `|` -/
def FolB (rest : List Nat) : Prop := rest = [] ∨ ∃ tl, rest = 41 :: tl ∨ rest = 124 :: tl

/-- the text of a well-formed branch in its context does not start with a quantifier character -/
theorem Branch.head_spec {xsd : Bool} {env : Env} {n : Nat} {cl : List Nat} {b : Branch}
    (h : b.ok xsd env n cl = true) {rest : List Nat} (hr : FolB rest) :
    b.render ++ rest = [] ∨ ∃ y tl, b.render ++ rest = y :: tl ∧ isQuantChar y = false := by
  cases b with
  | nil =>
    simp only [Branch.render, List.nil_append]
    rcases hr with rfl | ⟨tl, rfl | rfl⟩
    · exact .inl rfl
    · exact .inr ⟨41, tl, rfl, by decide⟩
    · exact .inr ⟨124, tl, rfl, by decide⟩
  | cons a q b' =>
    simp only [Branch.ok, Bool.and_eq_true] at h
    obtain ⟨y, tl, hy, hq, _, _⟩ := Atom.head_spec h.1.1.1
    exact .inr ⟨y, tl ++ ((qRender q ++ b'.render) ++ rest), by simp [Branch.render, hy], hq⟩

/-! ### escapes that are atoms -/

/-- the value `escape` returns for an atom that starts with a backslash -/
def Atom.escRes (env : Env) : Atom → Option Esc
  | .esc e => some (.chr (C09.escVal e))
  | .clsEsc e => some (.set (C09.clsSet env e))
  | .prop pos name => some (.set (C09.propSet env pos name))
  | .backref ds => some (.backref (Spec.digitsVal ds))
  | _ => none

theorem escape_atom {c : PC} {a : Atom} {r : Esc} (hr : a.escRes c.env = some r) {n : Nat}
    {cl : List Nat} (hok : a.ok c.fl.xsd c.env n cl = true) {s : PS} {rest : List Nat}
    (h : c.pat.drop s.idx = a.render ++ rest) (hp : s.parens = n + 1) (hc : s.captures = cl)
    (hf : a.followOk n rest = true) :
    ∃ s', escape c s false = .ok r s' ∧ s'.idx = s.idx + a.render.length ∧
      s'.parens = s.parens ∧ s'.captures = s.captures := by
  cases a with
  | esc e =>
    simp only [Atom.escRes, Option.some.injEq] at hr; subst hr
    simp only [Atom.ok] at hok
    exact ⟨_, C09.escape_single false (by simpa [Atom.render] using h) hok, rfl, rfl, rfl⟩
  | clsEsc e =>
    simp only [Atom.escRes, Option.some.injEq] at hr; subst hr
    simp only [Atom.ok] at hok
    exact ⟨_, C09.escape_cls false (by simpa [Atom.render] using h) hok, rfl, rfl, rfl⟩
  | prop pos name =>
    simp only [Atom.escRes, Option.some.injEq] at hr; subst hr
    simp only [Atom.ok, Bool.and_eq_true] at hok
    obtain ⟨rs, hrs⟩ := Option.isSome_iff_exists.1 hok.2
    have he := C09.escape_prop (c := c) (s := s) (pos := pos) (name := name) (tl := rest) false
      (by simpa [Atom.render] using h) hok.1 hrs
    refine ⟨{ s with idx := s.idx + 4 + name.length }, ?_, ?_, rfl, rfl⟩
    · rw [he]; simp [C09.propSet, hrs]
    · simp [Atom.render]; omega
  | backref ds =>
    simp only [Atom.escRes, Option.some.injEq] at hr; subst hr
    simp only [Atom.ok, Bool.and_eq_true, Bool.not_eq_true', decide_eq_true_eq] at hok
    obtain ⟨⟨⟨hx, hnum⟩, hle⟩, hmem⟩ := hok
    simp only [Atom.followOk] at hf
    have he := escape_backref (c := c) (s := s) (ds := ds) (rest := rest)
      (by simpa [Atom.render] using h) hx hnum (by rw [hp]; simpa using hle) (by rw [hc]; exact hmem)
      (by rw [hp]; simpa using hf)
    exact ⟨_, he, by simp [Atom.render]; omega, rfl, rfl⟩
  | chr x => cases hr
  | dot => cases hr
  | bol => cases hr
  | eol => cases hr
  | cls e => cases hr
  | group r => cases hr
  | ncgroup r => cases hr

/-! ### the atom loop -/

/-- the look-ahead of `parse_atom`: would the next character bind to a quantifier? -/
def lookAhead (c : PC) (s : PS) (ub : List Nat) : PRes Bool :=
  if s.idx + 1 < c.len then
    if c.at s.idx == 92 then
      match escape c s false with
      | .err e => .err e
      | .ok _ s' =>
        let ch := if s'.idx < c.len then c.at s'.idx else c.at (s.idx + 1)
        .ok (isQuantChar ch && !ub.isEmpty) { s' with idx := s.idx }
    else .ok (isQuantChar (c.at (s.idx + 1)) && !ub.isEmpty) s
  else .ok false s

/-- the character dispatch of `parse_atom` after a negative look-ahead -/
def dispatch (c : PC) (f : Nat) (s : PS) (ub : List Nat) : PRes (List Nat) :=
  let ch := c.at s.idx
  if ch == 93 || ch == 46 || ch == 91 || ch == 40 || ch == 41 || ch == 124 then .ok ub s
  else if isQuantChar ch then (if ub.isEmpty then .err .syntax else .ok ub s)
  else if ch == 125 then .err .syntax
  else if ch == 92 then
    match escape c s false with
    | .err e => .err e
    | .ok (.chr x) s' => parseAtomGo c f s' (ub ++ [x])
    | .ok _ s' => .ok ub { s' with idx := s.idx }
  else if (ch == 94 || ch == 36) && !c.fl.xsd then .ok ub s
  else parseAtomGo c f { s with idx := s.idx + 1 } (ub ++ [ch])

theorem parseAtomGo_succ (c : PC) (f : Nat) (s : PS) (ub : List Nat) :
    parseAtomGo c (f + 1) s ub =
      if s.idx < c.len then
        match lookAhead c s ub with
        | .err e => .err e
        | .ok true s => .ok ub s
        | .ok false s => dispatch c f s ub
      else .ok ub s := by
  rw [parseAtomGo]; rfl

theorem not_isEmpty_of_ne {ub : List Nat} (h : ub ≠ []) : (!ub.isEmpty) = true := by
  cases ub with
  | nil => exact absurd rfl h
  | cons _ _ => rfl

theorem lookAhead_plain {c : PC} {s : PS} {ub : List Nat} (h : c.at s.idx ≠ 92) :
    ∃ bq, lookAhead c s ub = .ok bq s ∧
      (s.idx + 1 < c.len → isQuantChar (c.at (s.idx + 1)) = true → ub ≠ [] → bq = true) ∧
      (ub = [] → bq = false) := by
  unfold lookAhead
  have h92 : (c.at s.idx == 92) = false := by simpa using h
  by_cases h1 : s.idx + 1 < c.len
  · simp only [h1, if_true, h92, Bool.false_eq_true, if_false]
    refine ⟨_, rfl, ?_, ?_⟩
    · intro _ hq hub; rw [hq, not_isEmpty_of_ne hub]; rfl
    · intro hub; subst hub; simp
  · simp only [h1, if_false]
    exact ⟨false, rfl, fun h => h.elim, fun _ => rfl⟩

theorem lookAhead_esc {c : PC} {s : PS} {ub : List Nat} {r : Esc} {s' : PS} (h : c.at s.idx = 92)
    (hlt : s.idx + 1 < c.len) (he : escape c s false = .ok r s') :
    ∃ bq, lookAhead c s ub = .ok bq { s' with idx := s.idx } ∧
      (s'.idx < c.len → isQuantChar (c.at s'.idx) = true → ub ≠ [] → bq = true) ∧
      (ub = [] → bq = false) := by
  unfold lookAhead
  simp only [hlt, if_true, h, beq_self_eq_true, he]
  refine ⟨_, rfl, ?_, ?_⟩
  · intro h1 hq hub; simp only [h1, if_true]; rw [hq, not_isEmpty_of_ne hub]; rfl
  · intro hub; subst hub; simp

theorem dispatch_stop {c : PC} {f : Nat} {s : PS} {ub : List Nat}
    (h : c.at s.idx = 93 ∨ c.at s.idx = 46 ∨ c.at s.idx = 91 ∨ c.at s.idx = 40 ∨ c.at s.idx = 41 ∨
      c.at s.idx = 124) : dispatch c f s ub = .ok ub s := by
  unfold dispatch
  rcases h with h | h | h | h | h | h <;> simp [h]

theorem dispatch_quant {c : PC} {f : Nat} {s : PS} {ub : List Nat}
    (hq : isQuantChar (c.at s.idx) = true) (hub : ub ≠ []) : dispatch c f s ub = .ok ub s := by
  unfold dispatch
  have hne : ub.isEmpty = false := by cases ub with
    | nil => exact absurd rfl hub
    | cons _ _ => rfl
  rw [isQuantChar_iff] at hq
  rcases hq with h | h | h | h <;> simp [h, isQuantChar, hne]

theorem dispatch_anchor {c : PC} {f : Nat} {s : PS} {ub : List Nat}
    (h : c.at s.idx = 94 ∨ c.at s.idx = 36) (hx : c.fl.xsd = false) : dispatch c f s ub = .ok ub s := by
  unfold dispatch
  rcases h with h | h <;> simp [h, isQuantChar, hx]

theorem dispatch_esc {c : PC} {f : Nat} {s : PS} {ub : List Nat} {r : Esc} {s' : PS}
    (h : c.at s.idx = 92) (he : escape c s false = .ok r s') :
    dispatch c f s ub =
      match r with
      | .chr x => parseAtomGo c f s' (ub ++ [x])
      | _ => .ok ub { s' with idx := s.idx } := by
  unfold dispatch
  simp only [h, he, isQuantChar]
  cases r <;> simp

theorem dispatch_normal {c : PC} {f : Nat} {s : PS} {ub : List Nat}
    (h : normalChar c.fl.xsd (c.at s.idx) = true) :
    dispatch c f s ub = parseAtomGo c f { s with idx := s.idx + 1 } (ub ++ [c.at s.idx]) := by
  unfold dispatch
  simp only [normalChar, Bool.and_eq_true, Bool.not_eq_true', Bool.or_eq_false_iff,
    beq_eq_false_iff_ne, ne_eq, Bool.or_eq_true] at h
  obtain ⟨⟨⟨⟨⟨⟨⟨⟨⟨⟨⟨⟨h46, h92⟩, h63⟩, h42⟩, h43⟩, h123⟩, h125⟩, h40⟩, h41⟩, h124⟩, h91⟩, h93⟩, hx⟩ := h
  have e : ∀ k : Nat, c.at s.idx ≠ k → (c.at s.idx == k) = false := fun k hk => by simpa using hk
  simp only [e 93 h93, e 46 h46, e 91 h91, e 40 h40, e 41 h41, e 124 h124, isQuantChar, e 123 h123,
    e 63 h63, e 42 h42, e 43 h43, e 125 h125, e 92 h92, Bool.or_self, Bool.false_eq_true, if_false]
  rcases hx with hx | hx
  · simp [hx]
  · simp only [e 94 hx.1, e 36 hx.2, Bool.or_self, Bool.false_and, Bool.false_eq_true, if_false]

/-- the atoms `parse_atom` merges into one literal: characters and single-character escapes -/
def Atom.isChar : Atom → Bool
  | .chr _ => true
  | .esc _ => true
  | _ => false

/-- the atom loop stopped at a piece boundary of `b`: `pre` is consumed, `b2` remains -/
def RunTo (xsd : Bool) (env : Env) (n : Nat) (cl : List Nat) (b : Branch) (pre : List Nat)
    (b2 : Branch) : Prop :=
  b.render = pre ++ b2.render ∧ b2.ok xsd env n cl = true ∧ b2.inLimit = true ∧
    b2.groups = b.groups ∧ b2.closed n cl = b.closed n cl

/-- result of the atom loop on the text of `b`: success, somewhere on a piece boundary -/
def GoRes (c : PC) (n : Nat) (cl : List Nat) (b : Branch) (s : PS) (x : PRes (List Nat)) : Prop :=
  ∃ ub' s1 pre b2, x = .ok ub' s1 ∧ ub' ≠ [] ∧ s1.idx = s.idx + pre.length ∧ s1.parens = s.parens ∧
    s1.captures = s.captures ∧ RunTo c.fl.xsd c.env n cl b pre b2

theorem GoRes.stop {c : PC} {n : Nat} {cl : List Nat} {b : Branch} {s s3 : PS} {ub : List Nat}
    {x : PRes (List Nat)} (hub : ub ≠ []) (h : x = .ok ub s3) (hs : Sim s3 s)
    (hok : b.ok c.fl.xsd c.env n cl = true) (hlim : b.inLimit = true) : GoRes c n cl b s x :=
  ⟨ub, s3, [], b, h, hub, by simpa using hs.1, hs.2.1, hs.2.2, by simp, hok, hlim, rfl, rfl⟩

theorem Quant.render_head (q : Quant) : ∃ y tl, q.render = y :: tl ∧ isQuantChar y = true := by
  obtain ⟨k, r⟩ := q
  cases k <;> exact ⟨_, _, rfl, by decide⟩

theorem followOk_append {n : Nat} {a : Atom} {X rest : List Nat} (h : a.followOk n X = true)
    (hr : FolB rest) : a.followOk n (X ++ rest) = true := by
  cases a with
  | backref ds =>
    simp only [Atom.followOk] at h ⊢
    cases X with
    | nil =>
      rcases hr with rfl | ⟨tl, rfl | rfl⟩
      · rfl
      · simp [backrefFollowOk, isDigit]
      · simp [backrefFollowOk, isDigit]
    | cons x tl => simpa [backrefFollowOk] using h
  | _ => rfl

theorem escRes_render {env : Env} {a : Atom} {r : Esc} (hr : a.escRes env = some r) {xsd : Bool}
    {n : Nat} {cl : List Nat} (hok : a.ok xsd env n cl = true) :
    ∃ z tl', a.render = 92 :: z :: tl' := by
  cases a with
  | esc e => exact ⟨_, _, rfl⟩
  | clsEsc e => exact ⟨_, _, rfl⟩
  | prop pos name => exact ⟨_, _, rfl⟩
  | backref ds =>
    simp only [Atom.ok, Bool.and_eq_true] at hok
    cases ds with
    | nil => simp [backrefNumeral] at hok
    | cons d more => exact ⟨_, _, rfl⟩
  | chr x => cases hr
  | dot => cases hr
  | bol => cases hr
  | eol => cases hr
  | cls e => cases hr
  | group r => cases hr
  | ncgroup r => cases hr

theorem go_stop_plain {c : PC} {f : Nat} {s : PS} {ub : List Nat} (hlt : s.idx < c.len)
    (h92 : c.at s.idx ≠ 92) (hd : dispatch c f s ub = .ok ub s) :
    parseAtomGo c (f + 1) s ub = .ok ub s := by
  obtain ⟨bq, hla, _, _⟩ := lookAhead_plain (ub := ub) h92
  rw [parseAtomGo_succ, if_pos hlt, hla]
  cases bq
  · exact hd
  · rfl

/-- at a backslash atom that is not a single character (class escape, back-reference): stop -/
theorem go_stop_esc {c : PC} {f : Nat} {s : PS} {ub : List Nat} {a : Atom} {r : Esc}
    (hr : a.escRes c.env = some r) (hnc : ∀ x, r ≠ .chr x) {n : Nat} {cl : List Nat}
    (hok : a.ok c.fl.xsd c.env n cl = true) {rest : List Nat}
    (h : c.pat.drop s.idx = a.render ++ rest) (hp : s.parens = n + 1) (hc : s.captures = cl)
    (hf : a.followOk n rest = true) :
    ∃ s3, parseAtomGo c (f + 1) s ub = .ok ub s3 ∧ Sim s3 s := by
  obtain ⟨s', he, hi, hp', hc'⟩ := escape_atom hr hok h hp hc hf
  obtain ⟨y, tl, hy, _, _, _⟩ := Atom.head_spec hok
  have hy92 : ∃ z tl', a.render = 92 :: z :: tl' := escRes_render hr hok
  obtain ⟨z, tl', hrend⟩ := hy92
  rw [hrend] at h
  simp only [List.cons_append] at h
  obtain ⟨hlt, hat, h1⟩ := drop_cons_facts h
  obtain ⟨hlt1, _, _⟩ := drop_cons_facts h1
  obtain ⟨bq, hla, _, _⟩ := lookAhead_esc (ub := ub) hat hlt1 he
  rw [parseAtomGo_succ, if_pos hlt, hla]
  cases bq
  · -- dispatch on the state returned by the look-ahead
    have h2 : c.pat.drop ({ s' with idx := s.idx } : PS).idx = a.render ++ rest := by
      rw [hrend]; simpa using h
    obtain ⟨s2', he2, hi2, hp2, hc2⟩ :=
      escape_atom (s := { s' with idx := s.idx }) hr hok h2 (hp' ▸ hp) (hc' ▸ hc) hf
    have hd := dispatch_esc (f := f) (ub := ub) (s := { s' with idx := s.idx }) hat he2
    refine ⟨{ s2' with idx := s.idx }, ?_, rfl, by simpa using hp2.trans hp', by simpa using hc2.trans hc'⟩
    simp only []
    rw [hd]
    cases r with
    | chr x => exact absurd rfl (hnc x)
    | set rs => rfl
    | backref k => rfl
  · exact ⟨_, rfl, rfl, hp', hc'⟩

theorem RunTo.cons {xsd : Bool} {env : Env} {n : Nat} {cl : List Nat} {a : Atom} {b' b2 : Branch}
    {pre : List Nat} (hch : a.isChar = true) (h : RunTo xsd env n cl b' pre b2) :
    RunTo xsd env n cl (.cons a none b') (a.render ++ pre) b2 := by
  obtain ⟨h1, h2, h3, h4, h5⟩ := h
  have hg : a.groups = 0 ∧ a.closed n cl = cl := by
    cases a <;> first | exact ⟨rfl, rfl⟩ | cases hch
  refine ⟨?_, h2, h3, ?_, ?_⟩
  · simp [Branch.render, qRender, h1]
  · simp [Branch.groups, hg.1, h4]
  · simp [Branch.closed, hg.1, hg.2, h5]

/-- the atom loop, started with a non-empty literal anywhere on a piece boundary of a well-formed
    branch, succeeds and stops on a piece boundary -/
theorem atomGo_run {c : PC} (n : Nat) (cl : List Nat) : ∀ (f : Nat) (b : Branch) (s : PS)
    (ub rest : List Nat), ub ≠ [] → c.pat.drop s.idx = b.render ++ rest → FolB rest →
    b.ok c.fl.xsd c.env n cl = true → b.inLimit = true → s.parens = n + 1 → s.captures = cl →
    GoRes c n cl b s (parseAtomGo c f s ub) := by
  intro f
  induction f with
  | zero =>
    intro b s ub rest hub _ _ hok hlim _ _
    exact GoRes.stop hub (by rw [parseAtomGo]) Sim.rfl' hok hlim
  | succ f ih =>
    intro b s ub rest hub htext hfol hok hlim hp hc
    by_cases hge : ¬ s.idx < c.len
    · exact GoRes.stop hub (by rw [parseAtomGo_succ, if_neg hge]) Sim.rfl' hok hlim
    have hlt : s.idx < c.len := Classical.not_not.mp hge
    cases b with
    | nil =>
      simp only [Branch.render, List.nil_append] at htext
      have hy : c.at s.idx = 41 ∨ c.at s.idx = 124 := by
        rcases hfol with rfl | ⟨tl, rfl | rfl⟩
        · have := drop_nil_ge htext; omega
        · exact .inl (drop_cons_facts htext).2.1
        · exact .inr (drop_cons_facts htext).2.1
      refine GoRes.stop hub (go_stop_plain hlt (by omega) (dispatch_stop ?_)) Sim.rfl' hok hlim
      omega
    | cons a q b' =>
      have hok0 := hok
      have hlim0 := hlim
      simp only [Branch.ok, Bool.and_eq_true] at hok
      obtain ⟨⟨⟨haok, hqok⟩, hafol⟩, hb'ok⟩ := hok
      simp only [Branch.inLimit, Bool.and_eq_true] at hlim
      simp only [Branch.render, List.append_assoc] at htext
      have hafol' : a.followOk n (qRender q ++ (b'.render ++ rest)) = true := by
        rw [← List.append_assoc]; exact followOk_append hafol hfol
      cases a with
      | chr x =>
        simp only [Atom.render, List.cons_append, List.nil_append] at htext
        obtain ⟨_, hat, h1⟩ := drop_cons_facts htext
        have hn : normalChar c.fl.xsd x = true := by simpa [Atom.ok] using haok
        have h92 : c.at s.idx ≠ 92 := by
          rw [hat]; intro h; subst h; revert hn; cases c.fl.xsd <;> decide
        obtain ⟨bq, hla, hq1, _⟩ := lookAhead_plain (ub := ub) h92
        cases bq with
        | true =>
          exact GoRes.stop hub (by rw [parseAtomGo_succ, if_pos hlt, hla]) Sim.rfl' hok0 hlim0
        | false =>
          have hgo : parseAtomGo c (f + 1) s ub =
              parseAtomGo c f { s with idx := s.idx + 1 } (ub ++ [x]) := by
            rw [parseAtomGo_succ, if_pos hlt, hla]
            simp only []
            rw [dispatch_normal (by rw [hat]; exact hn), hat]
          cases q with
          | some qq =>
            exfalso
            obtain ⟨y, tl, hy, hyq⟩ := Quant.render_head qq
            simp only [qRender, hy, List.cons_append] at h1
            obtain ⟨hlt1, hat1, _⟩ := drop_cons_facts h1
            have := hq1 hlt1 (by rw [hat1]; exact hyq) hub
            cases this
          | none =>
            simp only [qRender, List.nil_append] at h1
            simp only [Atom.groups, Atom.closed, Nat.add_zero] at hb'ok
            obtain ⟨ub', s1, pre, b2, e1, e2, e3, e4, e5, e6⟩ :=
              ih b' { s with idx := s.idx + 1 } (ub ++ [x]) rest (by simp) h1 hfol hb'ok hlim.2 hp hc
            refine ⟨ub', s1, (Atom.chr x).render ++ pre, b2, by rw [hgo]; exact e1, e2, ?_, e4, e5,
              RunTo.cons rfl e6⟩
            simp only [Atom.render, List.length_append, List.length_cons, List.length_nil] at e3 ⊢
            omega
      | esc e =>
        have hr : (Atom.esc e).escRes c.env = some (.chr (C09.escVal e)) := rfl
        obtain ⟨s', he, hi, hp', hc'⟩ := escape_atom hr haok htext hp hc hafol'
        have htext0 := htext
        simp only [Atom.render, List.cons_append, List.nil_append] at htext
        obtain ⟨_, hat, h1⟩ := drop_cons_facts htext
        obtain ⟨hlt1, _, h2⟩ := drop_cons_facts h1
        obtain ⟨bq, hla, hq1, _⟩ := lookAhead_esc (ub := ub) hat hlt1 he
        cases bq with
        | true =>
          exact GoRes.stop (s3 := { s' with idx := s.idx }) hub
            (by rw [parseAtomGo_succ, if_pos hlt, hla]) ⟨rfl, hp', hc'⟩ hok0 hlim0
        | false =>
          obtain ⟨s2', he2, hi2, hp2, hc2⟩ :=
            escape_atom (s := { s' with idx := s.idx }) hr haok htext0 (hp' ▸ hp) (hc' ▸ hc) hafol'
          have hgo : parseAtomGo c (f + 1) s ub = parseAtomGo c f s2' (ub ++ [C09.escVal e]) := by
            rw [parseAtomGo_succ, if_pos hlt, hla]
            simp only []
            rw [dispatch_esc (s := { s' with idx := s.idx }) hat he2]
          have hi2' : s2'.idx = s.idx + 2 := by simpa [Atom.render] using hi2
          have hi' : s'.idx = s.idx + 2 := by simpa [Atom.render] using hi
          cases q with
          | some qq =>
            exfalso
            obtain ⟨y, tl, hy, hyq⟩ := Quant.render_head qq
            simp only [qRender, hy, List.cons_append] at h2
            rw [show s.idx + 1 + 1 = s'.idx by omega] at h2
            obtain ⟨hlt2, hat2, _⟩ := drop_cons_facts h2
            have := hq1 hlt2 (by rw [hat2]; exact hyq) hub
            cases this
          | none =>
            simp only [qRender, List.nil_append] at h2
            simp only [Atom.groups, Atom.closed, Nat.add_zero] at hb'ok
            rw [show s.idx + 1 + 1 = s2'.idx by omega] at h2
            obtain ⟨ub', s1, pre, b2, e1, e2, e3, e4, e5, e6⟩ :=
              ih b' s2' (ub ++ [C09.escVal e]) rest (by simp) h2 hfol hb'ok hlim.2
                (by rw [hp2]; exact hp' ▸ hp) (by rw [hc2]; exact hc' ▸ hc)
            refine ⟨ub', s1, (Atom.esc e).render ++ pre, b2, by rw [hgo]; exact e1, e2, ?_,
              by rw [e4, hp2]; exact hp', by rw [e5, hc2]; exact hc', RunTo.cons rfl e6⟩
            simp only [Atom.render, List.length_append, List.length_cons, List.length_nil] at e3 ⊢
            omega
      | dot =>
        simp only [Atom.render, List.cons_append, List.nil_append] at htext
        obtain ⟨_, hat, _⟩ := drop_cons_facts htext
        exact GoRes.stop hub (go_stop_plain hlt (by omega) (dispatch_stop (by omega))) Sim.rfl' hok0 hlim0
      | bol =>
        simp only [Atom.render, List.cons_append, List.nil_append] at htext
        obtain ⟨_, hat, _⟩ := drop_cons_facts htext
        have hx : c.fl.xsd = false := by simpa [Atom.ok] using haok
        exact GoRes.stop hub (go_stop_plain hlt (by omega) (dispatch_anchor (.inl hat) hx)) Sim.rfl'
          hok0 hlim0
      | eol =>
        simp only [Atom.render, List.cons_append, List.nil_append] at htext
        obtain ⟨_, hat, _⟩ := drop_cons_facts htext
        have hx : c.fl.xsd = false := by simpa [Atom.ok] using haok
        exact GoRes.stop hub (go_stop_plain hlt (by omega) (dispatch_anchor (.inr hat) hx)) Sim.rfl'
          hok0 hlim0
      | cls e =>
        obtain ⟨tl, ht⟩ := CExpr_render_head e
        simp only [Atom.render, ht, List.cons_append] at htext
        obtain ⟨_, hat, _⟩ := drop_cons_facts htext
        exact GoRes.stop hub (go_stop_plain hlt (by omega) (dispatch_stop (by omega))) Sim.rfl' hok0 hlim0
      | group r =>
        simp only [Atom.render, List.cons_append] at htext
        obtain ⟨_, hat, _⟩ := drop_cons_facts htext
        exact GoRes.stop hub (go_stop_plain hlt (by omega) (dispatch_stop (by omega))) Sim.rfl' hok0 hlim0
      | ncgroup r =>
        simp only [Atom.render, List.cons_append] at htext
        obtain ⟨_, hat, _⟩ := drop_cons_facts htext
        exact GoRes.stop hub (go_stop_plain hlt (by omega) (dispatch_stop (by omega))) Sim.rfl' hok0 hlim0
      | clsEsc e =>
        obtain ⟨s3, h3, hs3⟩ := go_stop_esc (f := f) (ub := ub) (a := .clsEsc e) rfl
          (by intro x h; cases h) haok htext hp hc hafol'
        exact GoRes.stop hub h3 hs3 hok0 hlim0
      | prop pos name =>
        obtain ⟨s3, h3, hs3⟩ := go_stop_esc (f := f) (ub := ub) (a := .prop pos name) rfl
          (by intro x h; cases h) haok htext hp hc hafol'
        exact GoRes.stop hub h3 hs3 hok0 hlim0
      | backref ds =>
        obtain ⟨s3, h3, hs3⟩ := go_stop_esc (f := f) (ub := ub) (a := .backref ds) rfl
          (by intro x h; cases h) haok htext hp hc hafol'
        exact GoRes.stop hub h3 hs3 hok0 hlim0

/-- at the quantifier of the literal just read the loop stops -/
theorem atomGo_at_quant {c : PC} {f : Nat} {s : PS} {ub : List Nat} (hlt : s.idx < c.len)
    (hq : isQuantChar (c.at s.idx) = true) (hub : ub ≠ []) : parseAtomGo c f s ub = .ok ub s := by
  cases f with
  | zero => rw [parseAtomGo]
  | succ f =>
    refine go_stop_plain hlt ?_ (dispatch_quant hq hub)
    intro h; rw [h] at hq; revert hq; decide

/-- the first iteration of the atom loop on a character or single-character escape -/
theorem atomGo_first {c : PC} {n : Nat} {cl : List Nat} {a : Atom} {rest' : List Nat} {s : PS}
    (f : Nat) (hch : a.isChar = true) (haok : a.ok c.fl.xsd c.env n cl = true)
    (htext : c.pat.drop s.idx = a.render ++ rest') (hp : s.parens = n + 1) (hc : s.captures = cl) :
    ∃ x s1, parseAtomGo c (f + 1) s [] = parseAtomGo c f s1 [x] ∧
      s1.idx = s.idx + a.render.length ∧ s1.parens = s.parens ∧ s1.captures = s.captures := by
  cases a with
  | chr x =>
    simp only [Atom.render, List.cons_append, List.nil_append] at htext
    obtain ⟨hlt, hat, h1⟩ := drop_cons_facts htext
    have hn : normalChar c.fl.xsd x = true := by simpa [Atom.ok] using haok
    have h92 : c.at s.idx ≠ 92 := by
      rw [hat]; intro h; subst h; revert hn; cases c.fl.xsd <;> decide
    obtain ⟨bq, hla, _, hq0⟩ := lookAhead_plain (ub := []) h92
    rw [hq0 rfl] at hla
    refine ⟨x, { s with idx := s.idx + 1 }, ?_, rfl, rfl, rfl⟩
    rw [parseAtomGo_succ, if_pos hlt, hla]
    simp only []
    rw [dispatch_normal (by rw [hat]; exact hn), hat]
    rfl
  | esc e =>
    have hr : (Atom.esc e).escRes c.env = some (.chr (C09.escVal e)) := rfl
    obtain ⟨s', he, hi, hp', hc'⟩ := escape_atom hr haok htext hp hc rfl
    have htext0 := htext
    simp only [Atom.render, List.cons_append, List.nil_append] at htext
    obtain ⟨hlt, hat, h1⟩ := drop_cons_facts htext
    obtain ⟨hlt1, _, h2⟩ := drop_cons_facts h1
    obtain ⟨bq, hla, _, hq0⟩ := lookAhead_esc (ub := []) hat hlt1 he
    rw [hq0 rfl] at hla
    obtain ⟨s2', he2, hi2, hp2, hc2⟩ :=
      escape_atom (s := { s' with idx := s.idx }) hr haok htext0 (hp' ▸ hp) (hc' ▸ hc) rfl
    refine ⟨C09.escVal e, s2', ?_, hi2, by rw [hp2]; exact hp', by rw [hc2]; exact hc'⟩
    rw [parseAtomGo_succ, if_pos hlt, hla]
    simp only []
    rw [dispatch_esc (s := { s' with idx := s.idx }) hat he2]
    rfl
  | dot => cases hch
  | bol => cases hch
  | eol => cases hch
  | clsEsc e => cases hch
  | prop pos name => cases hch
  | backref ds => cases hch
  | cls e => cases hch
  | group r => cases hch
  | ncgroup r => cases hch

theorem isChar_facts {a : Atom} (hch : a.isChar = true) (n : Nat) (cl : List Nat) :
    a.groups = 0 ∧ a.closed n cl = cl := by
  cases a <;> first | exact ⟨rfl, rfl⟩ | cases hch

/-- `parse_atom` on a piece whose atom is a character or a single-character escape: it succeeds;
    with a quantifier it stops right after the atom, otherwise it may run on over further
    unquantified characters and stops on a piece boundary of the branch -/
theorem parseAtom_char {c : PC} {n : Nat} {cl : List Nat} {a : Atom} {q : Option Quant}
    {b' : Branch} {s : PS} {rest : List Nat} (hch : a.isChar = true)
    (hok : (Branch.cons a q b').ok c.fl.xsd c.env n cl = true)
    (hlim : (Branch.cons a q b').inLimit = true)
    (htext : c.pat.drop s.idx = (Branch.cons a q b').render ++ rest) (hfol : FolB rest)
    (hp : s.parens = n + 1) (hc : s.captures = cl) :
    ∃ op s1 pre b2, parseAtom c s = .ok op s1 ∧ s1.idx = s.idx + a.render.length + pre.length ∧
      s1.parens = s.parens ∧ s1.captures = s.captures ∧ RunTo c.fl.xsd c.env n cl b' pre b2 ∧
      (q.isSome = true → pre = [] ∧ b2 = b') := by
  simp only [Branch.ok, Bool.and_eq_true] at hok
  obtain ⟨⟨⟨haok, hqok⟩, hafol⟩, hb'ok⟩ := hok
  simp only [Branch.inLimit, Bool.and_eq_true] at hlim
  simp only [Branch.render, List.append_assoc] at htext
  obtain ⟨hg, hcl⟩ := isChar_facts hch n cl
  rw [hg, hcl, Nat.add_zero] at hb'ok
  obtain ⟨x, s1, hgo, hi1, hp1, hc1⟩ := atomGo_first (c.len + 1) hch haok htext hp hc
  have h1 : c.pat.drop s1.idx = qRender q ++ (b'.render ++ rest) := by
    rw [hi1]; exact drop_advance htext
  have hrefl : RunTo c.fl.xsd c.env n cl b' [] b' := ⟨by simp, hb'ok, hlim.2, rfl, rfl⟩
  unfold parseAtom
  rw [hgo]
  cases q with
  | some qq =>
    obtain ⟨y, tl, hy, hyq⟩ := Quant.render_head qq
    simp only [qRender, hy, List.cons_append] at h1
    obtain ⟨hlt1, hat1, _⟩ := drop_cons_facts h1
    rw [atomGo_at_quant hlt1 (by rw [hat1]; exact hyq) (by simp)]
    exact ⟨_, s1, [], b', rfl, by simpa using hi1, hp1, hc1, hrefl, fun _ => ⟨rfl, rfl⟩⟩
  | none =>
    simp only [qRender, List.nil_append] at h1
    obtain ⟨ub', s2, pre, b2, e1, e2, e3, e4, e5, e6⟩ :=
      atomGo_run n cl (c.len + 1) b' s1 [x] rest (by simp) h1 hfol hb'ok hlim.2
        (by rw [hp1]; exact hp) (by rw [hc1]; exact hc)
    rw [e1]
    have hne : ub'.isEmpty = false := by
      cases ub' with
      | nil => exact absurd rfl e2
      | cons _ _ => rfl
    simp only [hne, Bool.false_eq_true, if_false]
    exact ⟨_, s2, pre, b2, rfl, by rw [e3, hi1], by rw [e4, hp1], by rw [e5, hc1], e6,
      fun h => by cases h⟩

/-! ### the recursive descent -/

/-- `x` succeeds, consuming `k` characters, opening `g` groups, with `cl'` the closed groups -/
def Acc {α : Type} (x : PRes α) (s : PS) (k g : Nat) (cl' : List Nat) : Prop :=
  ∃ a s', x = .ok a s' ∧ s'.idx = s.idx + k ∧ s'.parens = s.parens + g ∧ s'.captures = cl'

/-- what may follow a regExp: the end or `)` -/
def FolR (rest : List Nat) : Prop := rest = [] ∨ ∃ tl, rest = 41 :: tl

theorem FolR.folB {rest : List Nat} (h : FolR rest) : FolB rest := by
  rcases h with rfl | ⟨tl, rfl⟩
  · exact .inl rfl
  · exact .inr ⟨tl, .inl rfl⟩

/-- the opening-parenthesis phase of `parse_expr` -/
def exprOpen (c : PC) (s : PS) (top : Bool) : PRes Nat :=
  if !top && c.at s.idx == 40 then
    if s.idx + 2 < c.len && c.at (s.idx + 1) == 63 && c.at (s.idx + 2) == 58 then
      (if c.fl.xsd then .err .syntax else .ok 2 { s with idx := s.idx + 3 })
    else .ok 1 { s with idx := s.idx + 1, parens := s.parens + 1 }
  else .ok 0 s

/-- the rest of `parse_expr`: branches and the closing parenthesis -/
def exprBody (c : PC) (f : Nat) (closeParens paren : Nat) (s : PS) : PRes Op :=
  match parseBranch c f s none with
  | .err e => .err e
  | .ok b1 s =>
    match parseBranches c f s [b1] with
    | .err e => .err e
    | .ok branches s =>
      let op := match branches with
        | [b] => b
        | bs => .choice bs
      if paren != 0 then
        if s.idx < c.len && c.at s.idx == 41 then
          let s := { s with idx := s.idx + 1 }
          if paren == 1 then .ok (.capture closeParens op) { s with captures := closeParens :: s.captures }
          else .ok op s
        else .err .syntax
      else .ok (makeSequence op .endProgram) s

theorem parseExpr_succ (c : PC) (f : Nat) (s : PS) (top : Bool) :
    parseExpr c (f + 1) s top =
      match exprOpen c s top with
      | .err e => .err e
      | .ok paren s' => exprBody c f s.parens paren s' := by
  rw [parseExpr]; rfl

theorem parseBranches_stop {c : PC} {f : Nat} {s : PS} {acc : List Op} {rest : List Nat}
    (h : c.pat.drop s.idx = rest) (hr : FolR rest) : parseBranches c (f + 1) s acc = .ok acc s := by
  rw [parseBranches]
  rcases hr with rfl | ⟨tl, rfl⟩
  · have := drop_nil_ge h
    have h1 : ¬ s.idx < c.len := by omega
    simp [h1]
  · obtain ⟨_, hat, _⟩ := drop_cons_facts h
    simp [hat]

theorem parseBranch_stop {c : PC} {f : Nat} {s : PS} {cur : Option Op} {rest : List Nat}
    (h : c.pat.drop s.idx = rest) (hr : FolB rest) :
    parseBranch c (f + 1) s cur = .ok (cur.getD .nothing) s := by
  rw [parseBranch]
  rcases hr with rfl | ⟨tl, rfl | rfl⟩
  · have := drop_nil_ge h
    have h1 : ¬ s.idx < c.len := by omega
    simp [h1]
  · obtain ⟨_, hat, _⟩ := drop_cons_facts h
    simp [hat]
  · obtain ⟨_, hat, _⟩ := drop_cons_facts h
    simp [hat]

/-- `parse_terminal` on a character or single-character escape hands over to `parse_atom` -/
theorem parseTerminal_char {c : PC} {n : Nat} {cl : List Nat} {a : Atom} {rest' : List Nat} {s : PS}
    (f : Nat) (hch : a.isChar = true) (haok : a.ok c.fl.xsd c.env n cl = true)
    (htext : c.pat.drop s.idx = a.render ++ rest') :
    ∃ s0, Sim s0 s ∧ parseTerminal c (f + 1) s = parseAtom c s0 := by
  cases a with
  | chr x =>
    simp only [Atom.render, List.cons_append, List.nil_append] at htext
    obtain ⟨hlt, hat, h1⟩ := drop_cons_facts htext
    have hn : normalChar c.fl.xsd x = true := by simpa [Atom.ok] using haok
    simp only [normalChar, Bool.and_eq_true, Bool.not_eq_true', Bool.or_eq_false_iff,
      beq_eq_false_iff_ne, ne_eq, Bool.or_eq_true] at hn
    obtain ⟨⟨⟨⟨⟨⟨⟨⟨⟨⟨⟨⟨h46, h92⟩, h63⟩, h42⟩, h43⟩, h123⟩, h125⟩, h40⟩, h41⟩, h124⟩, h91⟩, h93⟩, hx⟩ := hn
    refine ⟨s, Sim.rfl', ?_⟩
    rw [parseTerminal]
    have e : ∀ k : Nat, x ≠ k → (x == k) = false := fun k hk => by simpa using hk
    simp only [hat, e 46 h46, e 91 h91, e 40 h40, e 41 h41, e 124 h124, e 93 h93, e 63 h63, e 43 h43,
      e 123 h123, e 42 h42, e 92 h92, Bool.or_self, Bool.false_eq_true, if_false]
    rcases hx with hx | hx
    · simp [hx]
    · simp [e 36 hx.2, e 94 hx.1]
  | esc e =>
    simp only [Atom.ok] at haok
    have he := C09.escape_single (c := c) (s := s) (e := e) (tl := rest') false
      (by simpa [Atom.render] using htext) haok
    simp only [Atom.render, List.cons_append, List.nil_append] at htext
    obtain ⟨hlt, hat, h1⟩ := drop_cons_facts htext
    refine ⟨s, Sim.rfl', ?_⟩
    rw [parseTerminal]
    simp [hat, he]
  | dot => cases hch
  | bol => cases hch
  | eol => cases hch
  | clsEsc e => cases hch
  | prop pos name => cases hch
  | backref ds => cases hch
  | cls e => cases hch
  | group r => cases hch
  | ncgroup r => cases hch

theorem Acc.mk' {α : Type} {x : PRes α} {s : PS} (s' : PS) {k g : Nat} {cl' : List Nat}
    (h : ∃ a, x = .ok a s') (hi : s'.idx = s.idx + k) (hp : s'.parens = s.parens + g)
    (hc : s'.captures = cl') : Acc x s k g cl' := by
  obtain ⟨a, ha⟩ := h
  exact ⟨a, s', ha, hi, hp, hc⟩

/-! ### flag `i` does not change what the class parser accepts -/

/-- the context with flag `i` cleared -/
def cs (c : PC) : PC := { c with fl := { c.fl with caseBlind := false } }

@[simp] theorem cs_at (c : PC) (i : Nat) : (cs c).at i = c.at i := rfl
@[simp] theorem cs_len (c : PC) : (cs c).len = c.len := rfl
@[simp] theorem cs_pat (c : PC) : (cs c).pat = c.pat := rfl
@[simp] theorem cs_env (c : PC) : (cs c).env = c.env := rfl
@[simp] theorem cs_xsd (c : PC) : (cs c).fl.xsd = c.fl.xsd := rfl
@[simp] theorem cs_caseBlind (c : PC) : (cs c).fl.caseBlind = false := rfl
@[simp] theorem cs_thereFollows (c : PC) (i : Nat) (l : List Nat) :
    thereFollows (cs c) i l = thereFollows c i l := rfl

@[simp] theorem cs_findClose (c : PC) (f i : Nat) : findClose (cs c) f i = findClose c f i := by
  induction f generalizing i with
  | zero => rfl
  | succ f ih => simp only [findClose, cs_len, cs_at, ih]

@[simp] theorem cs_backrefDigits (c : PC) (p f i n : Nat) :
    backrefDigits (cs c) p f i n = backrefDigits c p f i n := by
  induction f generalizing i n with
  | zero => rfl
  | succ f ih => simp only [backrefDigits, cs_len, cs_at, ih]; rfl

@[simp] theorem cs_escape (c : PC) (s : PS) (b : Bool) : escape (cs c) s b = escape c s b := by
  simp only [escape, cs_at, cs_len, cs_env, cs_pat, cs_xsd, cs_findClose, cs_backrefDigits]; rfl

/-- class-builder states that steer the loop identically (the sets built may differ) -/
def KEq (k k' : ClsSt) : Prop :=
  k.positive = k'.positive ∧ k.definingRange = k'.definingRange ∧ k.rangeStart = k'.rangeStart

theorem KEq.rfl' {k : ClsSt} : KEq k k := ⟨rfl, rfl, rfl⟩

theorem clsSimple_sim {c : PC} {i : Nat} {k k' : ClsSt} {o : Option Nat} {k1 : ClsSt}
    (hk : KEq k k') (h : clsSimple (cs c) i k o = some k1) :
    ∃ k1', clsSimple c i k' o = some k1' ∧ KEq k1 k1' := by
  obtain ⟨h1, h2, h3⟩ := hk
  unfold clsSimple at h ⊢
  simp only [cs_thereFollows, cs_caseBlind] at h
  rw [h2, h3] at h
  cases hd : k'.definingRange <;> cases hr : k'.rangeStart <;> cases o <;>
    simp only [hd, hr, Bool.false_eq_true, if_false, if_true] at h ⊢
  all_goals repeat' (split at h)
  all_goals first | (cases h; done) | skip
  all_goals (simp only [Option.some.injEq] at h; subst h; simp [*, KEq])


/-- whatever `a` accepts, `b` accepts, ending in the same state (the sets may differ) -/
def PSim (a b : PRes Ranges) : Prop := ∀ R s, a = .ok R s → ∃ R', b = .ok R' s

theorem PSim.err {e : Err} {b : PRes Ranges} : PSim (.err e) b := fun _ _ h => by cases h
theorem PSim.ok {R R' : Ranges} {s : PS} : PSim (.ok R s) (.ok R' s) :=
  fun _ _ h => by cases h; exact ⟨R', rfl⟩
theorem PSim.ite {p : Prop} {i1 i2 : Decidable p} {a a' b b' : PRes Ranges}
    (h1 : p → PSim a a') (h2 : ¬p → PSim b b') : PSim (@ite _ p i1 a b) (@ite _ p i2 a' b') := by
  by_cases hp : p
  · rw [if_pos hp, if_pos hp]; exact h1 hp
  · rw [if_neg hp, if_neg hp]; exact h2 hp

/-- the `clsSimple`-then-loop step -/
theorem psim_simple {c : PC} {f i : Nat} {k k' : ClsSt} {o : Option Nat} {s' : PS}
    (ihL : ∀ s k k', KEq k k' → PSim (classLoop (cs c) f s k) (classLoop c f s k'))
    (hk : KEq k k') :
    PSim (match clsSimple (cs c) i k o with
          | none => .err .syntax
          | some k1 => classLoop (cs c) f s' k1)
         (match clsSimple c i k' o with
          | none => .err .syntax
          | some k1 => classLoop c f s' k1) := by
  cases h : clsSimple (cs c) i k o with
  | none => exact PSim.err
  | some k1 =>
    obtain ⟨k1', h', hk1⟩ := clsSimple_sim hk h
    rw [h']
    exact ihL _ _ _ hk1

theorem class_sim (c : PC) (f : Nat) :
    (∀ s, PSim (parseClass (cs c) f s) (parseClass c f s)) ∧
    (∀ s k k', KEq k k' → PSim (classLoop (cs c) f s k) (classLoop c f s k')) := by
  induction f with
  | zero =>
    refine ⟨fun s => ?_, fun s k k' _ => ?_⟩
    · rw [parseClass]; exact PSim.err
    · rw [classLoop]; exact PSim.err
  | succ f ih =>
    obtain ⟨ihC, ihL⟩ := ih
    refine ⟨fun s => ?_, fun s k k' hk => ?_⟩
    · simp only [parseClass, cs_at, cs_len, cs_thereFollows]
      repeat' first
        | exact PSim.err
        | (apply PSim.ite <;> intro _)
      all_goals exact ihL _ _ _ ⟨rfl, rfl, rfl⟩
    · obtain ⟨h1, h2, h3⟩ := hk
      rw [classLoop, classLoop]
      simp only [cs_at, cs_len, cs_thereFollows, cs_escape, h2, h3]
      apply PSim.ite <;> intro _
      · apply PSim.ite <;> intro _
        · exact PSim.err
        apply PSim.ite <;> intro _
        · cases he : escape c s true with
          | err e => exact PSim.err
          | ok r s' =>
            cases r with
            | chr x => exact psim_simple ihL ⟨h1, h2, h3⟩
            | set rs =>
              simp only []
              apply PSim.ite <;> intro _
              · exact PSim.err
              · exact ihL _ _ _ ⟨h1, rfl, rfl⟩
            | backref n => exact PSim.err
        apply PSim.ite <;> intro _
        · apply PSim.ite <;> intro _
          · intro R s2 h
            cases hc : parseClass (cs c) f { s with idx := s.idx + 1 } with
            | err e => rw [hc] at h; cases h
            | ok sub s' =>
              obtain ⟨sub', hc'⟩ := ihC _ _ _ hc
              rw [hc] at h
              rw [hc']
              simp only [] at h ⊢
              revert h
              revert R s2
              show PSim _ _
              apply PSim.ite <;> intro _
              · exact PSim.err
              · exact psim_simple ihL ⟨h1, rfl, rfl⟩
          apply PSim.ite <;> intro _
          · exact psim_simple ihL ⟨h1, h2, h3⟩
          apply PSim.ite <;> intro _
          · exact ihL _ _ _ ⟨h1, rfl, rfl⟩
          apply PSim.ite <;> intro _
          · exact PSim.err
          apply PSim.ite <;> intro _
          · exact PSim.err
          · exact psim_simple ihL ⟨h1, h2, h3⟩
        · exact psim_simple ihL ⟨h1, h2, h3⟩
      · apply PSim.ite <;> intro _
        · exact PSim.err
        · exact PSim.ok

/-- the class parser accepts every rendered well-formed class expression and consumes exactly it,
    with or without flag `i` (Props/C09c for the case-sensitive compiler, `class_sim` for `i`) -/
theorem parseClass_accepts (c : PC) (e : C09.CExpr) (hok : e.ok c.fl.xsd c.env = true) (s : PS)
    (rest : List Nat) (hpat : c.pat.drop s.idx = e.render ++ rest) :
    ∃ R, parseClass c (c.len + 2) s = .ok R { s with idx := s.idx + e.render.length } :=
  (class_sim c (c.len + 2)).1 s _ _ (C09.parse_class_full_terminal (cs c) rfl e hok s rest hpat)

/-- the atoms `parse_terminal` handles without recursion and without `parse_atom` -/
def Atom.isLeaf : Atom → Bool
  | .dot => true
  | .bol => true
  | .eol => true
  | .clsEsc _ => true
  | .prop _ _ => true
  | .backref _ => true
  | .cls _ => true
  | _ => false

theorem parseTerminal_leaf {c : PC} {n : Nat} {cl : List Nat}
    {a : Atom} {rest : List Nat} {s : PS} (f : Nat) (hleaf : a.isLeaf = true)
    (haok : a.ok c.fl.xsd c.env n cl = true) (htext : c.pat.drop s.idx = a.render ++ rest)
    (hp : s.parens = n + 1) (hc : s.captures = cl) (hfol : a.followOk n rest = true) :
    Acc (parseTerminal c (f + 1) s) s a.render.length 0 cl := by
  cases a with
  | dot =>
    simp only [Atom.render, List.cons_append, List.nil_append] at htext
    obtain ⟨_, hat, _⟩ := drop_cons_facts htext
    refine Acc.mk' { s with idx := s.idx + 1 } ?_ rfl rfl hc
    rw [parseTerminal]; simp [hat]
  | bol =>
    simp only [Atom.render, List.cons_append, List.nil_append] at htext
    obtain ⟨_, hat, _⟩ := drop_cons_facts htext
    have hx : c.fl.xsd = false := by simpa [Atom.ok] using haok
    refine Acc.mk' { s with idx := s.idx + 1 } ?_ rfl rfl hc
    rw [parseTerminal]; simp [hat, hx]
  | eol =>
    simp only [Atom.render, List.cons_append, List.nil_append] at htext
    obtain ⟨_, hat, _⟩ := drop_cons_facts htext
    have hx : c.fl.xsd = false := by simpa [Atom.ok] using haok
    refine Acc.mk' { s with idx := s.idx + 1 } ?_ rfl rfl hc
    rw [parseTerminal]; simp [hat, hx]
  | cls e =>
    simp only [Atom.ok] at haok
    simp only [Atom.render] at htext
    obtain ⟨R, hcl⟩ := parseClass_accepts c e haok s rest htext
    obtain ⟨tl, ht⟩ := CExpr_render_head e
    rw [ht] at htext
    simp only [List.cons_append] at htext
    obtain ⟨_, hat, _⟩ := drop_cons_facts htext
    refine Acc.mk' { s with idx := s.idx + e.render.length } ?_ rfl rfl hc
    rw [parseTerminal]; simp [hat, hcl]
  | clsEsc e =>
    obtain ⟨s', he, hi, hp', hc'⟩ := escape_atom (a := .clsEsc e) rfl haok htext hp hc hfol
    simp only [Atom.render, List.cons_append, List.nil_append] at htext
    obtain ⟨_, hat, _⟩ := drop_cons_facts htext
    refine Acc.mk' s' ?_ hi hp' (by rw [hc', hc])
    rw [parseTerminal]; simp [hat, he]
  | prop pos name =>
    obtain ⟨s', he, hi, hp', hc'⟩ := escape_atom (a := .prop pos name) rfl haok htext hp hc hfol
    simp only [Atom.render, List.cons_append, List.nil_append] at htext
    obtain ⟨_, hat, _⟩ := drop_cons_facts htext
    refine Acc.mk' s' ?_ hi hp' (by rw [hc', hc])
    rw [parseTerminal]; simp [hat, he]
  | backref ds =>
    obtain ⟨s', he, hi, hp', hc'⟩ := escape_atom (a := .backref ds) rfl haok htext hp hc hfol
    simp only [Atom.ok, Bool.and_eq_true, decide_eq_true_eq] at haok
    simp only [Atom.render, List.cons_append, List.nil_append] at htext
    obtain ⟨_, hat, _⟩ := drop_cons_facts htext
    have hle : ¬ s'.parens ≤ Spec.digitsVal ds := by rw [hp', hp]; omega
    refine Acc.mk' s' ?_ hi hp' (by rw [hc', hc])
    rw [parseTerminal]; simp [hat, he, hle]
  | chr x => cases hleaf
  | esc e => cases hleaf
  | group r => cases hleaf
  | ncgroup r => cases hleaf

theorem exprOpen_top (c : PC) (s : PS) : exprOpen c s true = .ok 0 s := by simp [exprOpen]

theorem exprOpen_group {c : PC} {s : PS} {X : List Nat} (h : c.pat.drop s.idx = 40 :: X)
    (hX : X.head? ≠ some 63) :
    exprOpen c s false = .ok 1 { s with idx := s.idx + 1, parens := s.parens + 1 } := by
  obtain ⟨_, hat, h1⟩ := drop_cons_facts h
  have hno : (decide (s.idx + 2 < c.len) && c.at (s.idx + 1) == 63 && c.at (s.idx + 2) == 58) = false := by
    cases X with
    | nil =>
      have := drop_nil_ge h1
      have : ¬ s.idx + 2 < c.len := by omega
      simp [this]
    | cons y tl =>
      obtain ⟨_, hat1, _⟩ := drop_cons_facts h1
      have : y ≠ 63 := fun hy => hX (by rw [hy]; rfl)
      simp [hat1, this]
  simp [exprOpen, hat, hno]

theorem exprOpen_nc {c : PC} {s : PS} {X : List Nat} (h : c.pat.drop s.idx = 40 :: 63 :: 58 :: X)
    (hx : c.fl.xsd = false) : exprOpen c s false = .ok 2 { s with idx := s.idx + 3 } := by
  obtain ⟨_, hat, h1⟩ := drop_cons_facts h
  obtain ⟨_, hat1, h2⟩ := drop_cons_facts h1
  obtain ⟨hlt2, hat2, _⟩ := drop_cons_facts h2
  have h2' : s.idx + 2 < c.len := by omega
  have hat2' : c.at (s.idx + 2) = 58 := hat2
  simp [exprOpen, hat, hat1, hat2', h2', hx]

theorem exprBody_top {c : PC} {f cp : Nat} {s s1 s2 : PS} {b1 : Op} {bs : List Op}
    (h1 : parseBranch c f s none = .ok b1 s1) (h2 : parseBranches c f s1 [b1] = .ok bs s2) :
    ∃ op, exprBody c f cp 0 s = .ok op s2 := by
  simp only [exprBody, h1, h2]
  exact ⟨_, rfl⟩

theorem exprBody_group {c : PC} {f cp : Nat} {s s1 s2 : PS} {b1 : Op} {bs : List Op} {rest : List Nat}
    (h1 : parseBranch c f s none = .ok b1 s1) (h2 : parseBranches c f s1 [b1] = .ok bs s2)
    (h : c.pat.drop s2.idx = 41 :: rest) :
    ∃ op, exprBody c f cp 1 s = .ok op { s2 with idx := s2.idx + 1, captures := cp :: s2.captures } := by
  obtain ⟨hlt, hat, _⟩ := drop_cons_facts h
  simp only [exprBody, h1, h2]
  simp [hlt, hat]

theorem exprBody_nc {c : PC} {f cp : Nat} {s s1 s2 : PS} {b1 : Op} {bs : List Op} {rest : List Nat}
    (h1 : parseBranch c f s none = .ok b1 s1) (h2 : parseBranches c f s1 [b1] = .ok bs s2)
    (h : c.pat.drop s2.idx = 41 :: rest) :
    ∃ op, exprBody c f cp 2 s = .ok op { s2 with idx := s2.idx + 1 } := by
  obtain ⟨hlt, hat, _⟩ := drop_cons_facts h
  simp only [exprBody, h1, h2]
  simp [hlt, hat]

/-- `parse_terminal` on every atom that is not handed to `parse_atom` -/
def PT (c : PC) (f : Nat) : Prop :=
  ∀ (a : Atom) (s : PS) (rest : List Nat) (n : Nat) (cl : List Nat),
    a.isChar = false → a.ok c.fl.xsd c.env n cl = true → a.inLimit = true →
    c.pat.drop s.idx = a.render ++ rest → a.followOk n rest = true →
    s.parens = n + 1 → s.captures = cl → 2 * a.render.length ≤ f →
    Acc (parseTerminal c f s) s a.render.length a.groups (a.closed n cl)

/-- `parse_branch` on a branch followed by the end, `)` or `|` -/
def PB (c : PC) (f : Nat) : Prop :=
  ∀ (b : Branch) (s : PS) (cur : Option Op) (rest : List Nat) (n : Nat) (cl : List Nat),
    b.ok c.fl.xsd c.env n cl = true → b.inLimit = true →
    c.pat.drop s.idx = b.render ++ rest → FolB rest →
    s.parens = n + 1 → s.captures = cl → 2 * b.render.length + 1 ≤ f →
    Acc (parseBranch c f s cur) s b.render.length b.groups (b.closed n cl)

/-- the `|`-loop on `| r` followed by the end or `)` -/
def PBs (c : PC) (f : Nat) : Prop :=
  ∀ (r : RegExp) (s : PS) (acc : List Op) (rest : List Nat) (n : Nat) (cl : List Nat),
    r.ok c.fl.xsd c.env n cl = true → r.inLimit = true →
    c.pat.drop s.idx = 124 :: (r.render ++ rest) → FolR rest →
    s.parens = n + 1 → s.captures = cl → 2 * r.render.length + 3 ≤ f →
    Acc (parseBranches c f s acc) s (r.render.length + 1) r.groups (r.closed n cl)

/-- `parse_expr` on `( r )` and `(?: r )` -/
def PE (c : PC) (f : Nat) : Prop :=
  (∀ (r : RegExp) (s : PS) (rest : List Nat) (n : Nat) (cl : List Nat),
    r.ok c.fl.xsd c.env (n + 1) cl = true → r.inLimit = true →
    c.pat.drop s.idx = 40 :: (r.render ++ 41 :: rest) →
    s.parens = n + 1 → s.captures = cl → 2 * r.render.length + 2 ≤ f →
    Acc (parseExpr c f s false) s (r.render.length + 2) (r.groups + 1)
      ((n + 1) :: r.closed (n + 1) cl)) ∧
  (∀ (r : RegExp) (s : PS) (rest : List Nat) (n : Nat) (cl : List Nat),
    c.fl.xsd = false → r.ok c.fl.xsd c.env n cl = true → r.inLimit = true →
    c.pat.drop s.idx = 40 :: 63 :: 58 :: (r.render ++ 41 :: rest) →
    s.parens = n + 1 → s.captures = cl → 2 * r.render.length + 2 ≤ f →
    Acc (parseExpr c f s false) s (r.render.length + 4) r.groups (r.closed n cl))

/-- quantifier and rest of the branch, after the terminal -/
theorem branch_tail {c : PC} {f : Nat} (hPB : PB c f) {ret : Op} {s1 : PS} {q2 : Option Quant}
    {b2 : Branch} {rest : List Nat} {n' : Nat} {cl' : List Nat}
    (htext : c.pat.drop s1.idx = qRender q2 ++ (b2.render ++ rest))
    (hq : qOk c.fl.xsd q2 = true) (hql : qInLimit q2 = true)
    (hb2 : b2.ok c.fl.xsd c.env n' cl' = true) (hb2l : b2.inLimit = true) (hfol : FolB rest)
    (hp : s1.parens = n' + 1) (hc : s1.captures = cl') (hfuel : 2 * b2.render.length + 1 ≤ f) :
    ∃ op s2, pieceQuant c ret s1 = .ok op s2 ∧
      ∀ cur, Acc (parseBranch c f s2 cur) s1 ((qRender q2).length + b2.render.length) b2.groups
        (b2.closed n' cl') := by
  have hhead := Branch.head_spec hb2 hfol
  cases q2 with
  | none =>
    simp only [qRender, List.nil_append] at htext
    have hnq : s1.idx ≥ c.len ∨ isQuantChar (c.at s1.idx) = false := by
      rcases hhead with h0 | ⟨y, tl, hy, hyq⟩
      · rw [h0] at htext; exact .inl (drop_nil_ge htext)
      · rw [hy] at htext; exact .inr (by rw [(drop_cons_facts htext).2.1]; exact hyq)
    obtain ⟨op, hpq⟩ := pieceQuant_none c ret s1 hnq
    refine ⟨op, s1, hpq, fun cur => ?_⟩
    have := hPB b2 s1 cur rest n' cl' hb2 hb2l htext hfol hp hc hfuel
    simpa [qRender] using this
  | some qq =>
    simp only [qRender] at htext hq hql ⊢
    have hrest : (b2.render ++ rest).head? ≠ some 63 := by
      rcases hhead with h0 | ⟨y, tl, hy, hyq⟩
      · rw [h0]; simp
      · rw [hy]; simp only [List.head?_cons, ne_eq, Option.some.injEq]
        intro h; subst h; revert hyq; decide
    obtain ⟨op, s2, hpq, hi, hp2, hc2⟩ := pieceQuant_some c ret s1 qq _ htext hq hql hrest
    refine ⟨op, s2, hpq, fun cur => ?_⟩
    have h2 : c.pat.drop s2.idx = b2.render ++ rest := by rw [hi]; exact drop_advance htext
    obtain ⟨o, s3, e1, e2, e3, e4⟩ :=
      hPB b2 s2 cur rest n' cl' hb2 hb2l h2 hfol (by rw [hp2]; exact hp) (by rw [hc2]; exact hc) hfuel
    exact ⟨o, s3, e1, by rw [e2, hi]; omega, by rw [e3, hp2], e4⟩

theorem PB_step {c : PC} {f : Nat} (hPB : PB c f) (hPT : PT c f) : PB c (f + 1) := by
  intro b s cur rest n cl hok hlim htext hfol hp hc hfuel
  cases b with
  | nil =>
    simp only [Branch.render, List.nil_append] at htext
    exact Acc.mk' s ⟨_, parseBranch_stop htext hfol⟩ (by simp [Branch.render])
      (by simp [Branch.groups]) (by simp [Branch.closed, hc])
  | cons a q b' =>
    have hok0 := hok
    have hlim0 := hlim
    have htext0 := htext
    simp only [Branch.ok, Bool.and_eq_true] at hok
    obtain ⟨⟨⟨haok, hqok⟩, hafol⟩, hb'ok⟩ := hok
    simp only [Branch.inLimit, Bool.and_eq_true] at hlim
    obtain ⟨⟨hal, hql⟩, hb'l⟩ := hlim
    simp only [Branch.render, List.append_assoc] at htext
    obtain ⟨y, tl, hy, _, hy41, hy124⟩ := Atom.head_spec haok
    have hcond : (decide (s.idx < c.len) && c.at s.idx != 124 && c.at s.idx != 41) = true := by
      have h' := htext
      rw [hy] at h'
      simp only [List.cons_append] at h'
      obtain ⟨hlt, hat, _⟩ := drop_cons_facts h'
      simp [hlt, hat, hy41, hy124]
    have hlen : (Branch.cons a q b').render.length =
        a.render.length + ((qRender q).length + b'.render.length) := by simp [Branch.render]
    have hapos : 0 < a.render.length := by rw [hy]; simp
    have hgr : (Branch.cons a q b').groups = a.groups + b'.groups := rfl
    have hclo : (Branch.cons a q b').closed n cl = b'.closed (n + a.groups) (a.closed n cl) := rfl
    rw [hlen] at hfuel
    rw [hlen, hgr, hclo]
    rw [parseBranch, if_pos hcond]
    cases hch : a.isChar with
    | true =>
      obtain ⟨f', rfl⟩ : ∃ f', f = f' + 1 := ⟨f - 1, by omega⟩
      obtain ⟨s0, hs0, hpt⟩ := parseTerminal_char f' hch haok htext
      obtain ⟨op, s1, pre, b2, hpa, hi1, hp1, hc1, hrun, hqs⟩ :=
        parseAtom_char (s := s0) hch hok0 hlim0 (by rw [hs0.1]; exact htext0) hfol
          (by rw [hs0.2.1]; exact hp) (by rw [hs0.2.2]; exact hc)
      obtain ⟨hr1, hr2, hr3, hr4, hr5⟩ := hrun
      obtain ⟨hg, hcl⟩ := isChar_facts hch n cl
      have ht1 : c.pat.drop s1.idx = qRender q ++ (b2.render ++ rest) := by
        have h1 := drop_advance htext
        cases q with
        | some qq =>
          obtain ⟨rfl, rfl⟩ := hqs rfl
          rw [hi1, hs0.1]; simpa using h1
        | none =>
          simp only [qRender, List.nil_append] at h1 ⊢
          rw [hr1, List.append_assoc] at h1
          have := drop_advance h1
          rw [hi1, hs0.1]; exact this
      have hlen2 : b'.render.length = pre.length + b2.render.length := by rw [hr1]; simp
      obtain ⟨op2, s2, hpq, hrest⟩ := branch_tail hPB (ret := op) ht1 hqok hql hr2 hr3 hfol
        (by rw [hp1, hs0.2.1]; exact hp) (by rw [hc1, hs0.2.2]; exact hc) (by omega)
      rw [hpt, hpa]
      simp only []
      rw [hpq]
      simp only []
      obtain ⟨o, s3, e1, e2, e3, e4⟩ := hrest (some (match cur with
        | some cur => makeSequence cur op2
        | none => op2))
      refine ⟨o, s3, e1, ?_, ?_, ?_⟩
      · rw [e2, hi1, hs0.1]; omega
      · rw [e3, hp1, hs0.2.1, hr4, hg]; omega
      · rw [e4, hr5, hg, hcl]; rfl
    | false =>
      obtain ⟨ret, s1, hpt, hi1, hp1, hc1⟩ := hPT a s _ n cl hch haok hal htext
        (by rw [← List.append_assoc]; exact followOk_append hafol hfol) hp hc (by omega)
      have ht1 : c.pat.drop s1.idx = qRender q ++ (b'.render ++ rest) := by
        rw [hi1]; exact drop_advance htext
      obtain ⟨op2, s2, hpq, hrest⟩ := branch_tail hPB (ret := ret) ht1 hqok hql hb'ok hb'l hfol
        (by rw [hp1, hp]; omega) hc1 (by omega)
      rw [hpt]
      simp only []
      rw [hpq]
      simp only []
      obtain ⟨o, s3, e1, e2, e3, e4⟩ := hrest (some (match cur with
        | some cur => makeSequence cur op2
        | none => op2))
      refine ⟨o, s3, e1, ?_, ?_, e4⟩
      · rw [e2, hi1]; omega
      · rw [e3, hp1]; omega

theorem PBs_step {c : PC} {f : Nat} (hPB : PB c f) (hPBs : PBs c f) : PBs c (f + 1) := by
  intro r s acc rest n cl hok hlim htext hfol hp hc hfuel
  obtain ⟨hlt, hat, h1⟩ := drop_cons_facts htext
  have hcond : (decide (s.idx < c.len) && c.at s.idx == 124) = true := by simp [hlt, hat]
  rw [parseBranches, if_pos hcond]
  cases r with
  | one b =>
    simp only [RegExp.ok] at hok
    simp only [RegExp.inLimit] at hlim
    simp only [RegExp.render] at h1 hfuel ⊢
    simp only [RegExp.groups, RegExp.closed]
    obtain ⟨b1, s1, e1, e2, e3, e4⟩ :=
      hPB b { s with idx := s.idx + 1 } none rest n cl hok hlim h1 hfol.folB hp hc (by omega)
    rw [e1]
    simp only []
    obtain ⟨f', rfl⟩ : ∃ f', f = f' + 1 := ⟨f - 1, by omega⟩
    have ht : c.pat.drop s1.idx = rest := by rw [e2]; exact drop_advance h1
    rw [parseBranches_stop ht hfol]
    exact ⟨_, s1, rfl, by rw [e2]; simp only []; omega, e3, e4⟩
  | alt b r' =>
    simp only [RegExp.ok, Bool.and_eq_true] at hok
    simp only [RegExp.inLimit, Bool.and_eq_true] at hlim
    simp only [RegExp.render, List.append_assoc, List.cons_append] at h1
    have hlen : (RegExp.alt b r').render.length = b.render.length + (r'.render.length + 1) := by
      simp [RegExp.render]
    rw [hlen] at hfuel ⊢
    simp only [RegExp.groups, RegExp.closed]
    obtain ⟨b1, s1, e1, e2, e3, e4⟩ :=
      hPB b { s with idx := s.idx + 1 } none (124 :: (r'.render ++ rest)) n cl hok.1 hlim.1 h1
        (.inr ⟨_, .inr rfl⟩) hp hc (by omega)
    rw [e1]
    simp only []
    have ht : c.pat.drop s1.idx = 124 :: (r'.render ++ rest) := by rw [e2]; exact drop_advance h1
    obtain ⟨bs, s2, g1, g2, g3, g4⟩ :=
      hPBs r' s1 (acc ++ [b1]) rest (n + b.groups) (b.closed n cl) hok.2 hlim.2 ht hfol
        (by rw [e3]; simp only []; omega) e4 (by omega)
    refine ⟨bs, s2, g1, ?_, ?_, g4⟩
    · rw [g2, e2]; simp only []; omega
    · rw [g3, e3]; simp only []; omega

/-- the body of a regExp: first branch and the `|`-loop -/
theorem regexp_body {c : PC} {f : Nat} (hPB : PB c f) (hPBs : PBs c f) {r : RegExp} {s : PS}
    {rest : List Nat} {n : Nat} {cl : List Nat} (hok : r.ok c.fl.xsd c.env n cl = true)
    (hlim : r.inLimit = true) (htext : c.pat.drop s.idx = r.render ++ rest) (hfol : FolR rest)
    (hp : s.parens = n + 1) (hc : s.captures = cl) (hfuel : 2 * r.render.length + 1 ≤ f) :
    ∃ b1 s1 bs s2, parseBranch c f s none = .ok b1 s1 ∧ parseBranches c f s1 [b1] = .ok bs s2 ∧
      s2.idx = s.idx + r.render.length ∧ s2.parens = s.parens + r.groups ∧
      s2.captures = r.closed n cl := by
  cases r with
  | one b =>
    simp only [RegExp.ok] at hok
    simp only [RegExp.inLimit] at hlim
    simp only [RegExp.render] at htext hfuel ⊢
    simp only [RegExp.groups, RegExp.closed]
    obtain ⟨b1, s1, e1, e2, e3, e4⟩ := hPB b s none rest n cl hok hlim htext hfol.folB hp hc hfuel
    obtain ⟨f', rfl⟩ : ∃ f', f = f' + 1 := ⟨f - 1, by omega⟩
    have ht : c.pat.drop s1.idx = rest := by rw [e2]; exact drop_advance htext
    exact ⟨b1, s1, [b1], s1, e1, parseBranches_stop ht hfol, e2, e3, e4⟩
  | alt b r' =>
    simp only [RegExp.ok, Bool.and_eq_true] at hok
    simp only [RegExp.inLimit, Bool.and_eq_true] at hlim
    simp only [RegExp.render, List.append_assoc, List.cons_append] at htext
    have hlen : (RegExp.alt b r').render.length = b.render.length + (r'.render.length + 1) := by
      simp [RegExp.render]
    rw [hlen] at hfuel ⊢
    simp only [RegExp.groups, RegExp.closed]
    obtain ⟨b1, s1, e1, e2, e3, e4⟩ :=
      hPB b s none (124 :: (r'.render ++ rest)) n cl hok.1 hlim.1 htext (.inr ⟨_, .inr rfl⟩) hp hc
        (by omega)
    have ht : c.pat.drop s1.idx = 124 :: (r'.render ++ rest) := by rw [e2]; exact drop_advance htext
    obtain ⟨bs, s2, g1, g2, g3, g4⟩ :=
      hPBs r' s1 [b1] rest (n + b.groups) (b.closed n cl) hok.2 hlim.2 ht hfol
        (by rw [e3]; omega) e4 (by omega)
    exact ⟨b1, s1, bs, s2, e1, g1, by rw [g2, e2]; omega, by rw [g3, e3]; omega, g4⟩

theorem RegExp.head_ne {xsd : Bool} {env : Env} {n : Nat} {cl : List Nat} {r : RegExp}
    (h : r.ok xsd env n cl = true) {rest : List Nat} (hr : FolR rest) :
    (r.render ++ rest).head? ≠ some 63 := by
  have key : ∀ (b : Branch) (rest' : List Nat), b.ok xsd env n cl = true → FolB rest' →
      (b.render ++ rest').head? ≠ some 63 := by
    intro b rest' hb hf
    rcases Branch.head_spec hb hf with h0 | ⟨y, tl, hy, hyq⟩
    · rw [h0]; simp
    · rw [hy]; simp only [List.head?_cons, ne_eq, Option.some.injEq]
      intro h; subst h; revert hyq; decide
  cases r with
  | one b =>
    simp only [RegExp.ok] at h
    exact key b rest h hr.folB
  | alt b r' =>
    simp only [RegExp.ok, Bool.and_eq_true] at h
    simp only [RegExp.render, List.append_assoc, List.cons_append]
    exact key b _ h.1 (.inr ⟨_, .inr rfl⟩)

theorem PE_step {c : PC} {f : Nat} (hPB : PB c f) (hPBs : PBs c f) : PE c (f + 1) := by
  constructor
  · intro r s rest n cl hok hlim htext hp hc hfuel
    have hopen := exprOpen_group htext (RegExp.head_ne hok (.inr ⟨rest, rfl⟩))
    obtain ⟨_, _, h1⟩ := drop_cons_facts htext
    obtain ⟨b1, s1, bs, s2, e1, e2, e3, e4, e5⟩ :=
      regexp_body hPB hPBs (s := { s with idx := s.idx + 1, parens := s.parens + 1 }) hok hlim h1
        (.inr ⟨rest, rfl⟩) (by simp only []; omega) hc (by omega)
    have ht : c.pat.drop s2.idx = 41 :: rest := by rw [e3]; exact drop_advance h1
    obtain ⟨op, hbody⟩ := exprBody_group (cp := s.parens) e1 e2 ht
    rw [parseExpr_succ, hopen]
    simp only []
    rw [hbody]
    refine ⟨op, _, rfl, ?_, ?_, ?_⟩
    · simp only []; rw [e3]; simp only []; omega
    · simp only []; rw [e4]; simp only []; omega
    · simp only []; rw [e5, hp]
  · intro r s rest n cl hx hok hlim htext hp hc hfuel
    have hopen := exprOpen_nc htext hx
    obtain ⟨_, _, h1⟩ := drop_cons_facts htext
    obtain ⟨_, _, h2⟩ := drop_cons_facts h1
    obtain ⟨_, _, h3⟩ := drop_cons_facts h2
    obtain ⟨b1, s1, bs, s2, e1, e2, e3, e4, e5⟩ :=
      regexp_body hPB hPBs (s := { s with idx := s.idx + 3 }) hok hlim h3
        (.inr ⟨rest, rfl⟩) hp hc (by omega)
    have ht : c.pat.drop s2.idx = 41 :: rest := by rw [e3]; exact drop_advance h3
    obtain ⟨op, hbody⟩ := exprBody_nc (cp := s.parens) e1 e2 ht
    rw [parseExpr_succ, hopen]
    simp only []
    rw [hbody]
    refine ⟨op, _, rfl, ?_, ?_, ?_⟩
    · simp only []; rw [e3]; simp only []; omega
    · simp only []; rw [e4]
    · simp only []; rw [e5]

theorem parseTerminal_paren {c : PC} {f : Nat} {s : PS} (h : c.at s.idx = 40) :
    parseTerminal c (f + 1) s = parseExpr c f s false := by
  rw [parseTerminal]; simp [h]

theorem PT_step {c : PC} {f : Nat} (hPE : PE c f) : PT c (f + 1) := by
  intro a s rest n cl hch hok hlim htext hfol hp hc hfuel
  cases hleaf : a.isLeaf with
  | true =>
    have := parseTerminal_leaf f hleaf hok htext hp hc hfol
    have hg : a.groups = 0 ∧ a.closed n cl = cl := by
      cases a <;> first | exact ⟨rfl, rfl⟩ | cases hleaf
    rw [hg.1, hg.2]; exact this
  | false =>
    cases a with
    | group r =>
      simp only [Atom.ok] at hok
      simp only [Atom.inLimit] at hlim
      simp only [Atom.render, List.cons_append, List.append_assoc] at htext hfuel
      have hat := (drop_cons_facts htext).2.1
      rw [parseTerminal_paren hat]
      have := hPE.1 r s rest n cl hok hlim htext hp hc
        (by simp only [List.length_cons, List.length_append, List.length_nil] at hfuel; omega)
      simpa [Atom.render, Atom.groups, Atom.closed] using this
    | ncgroup r =>
      simp only [Atom.ok, Bool.and_eq_true, Bool.not_eq_true'] at hok
      simp only [Atom.inLimit] at hlim
      simp only [Atom.render, List.cons_append, List.append_assoc] at htext hfuel
      have hat := (drop_cons_facts htext).2.1
      rw [parseTerminal_paren hat]
      have := hPE.2 r s rest n cl hok.1 hok.2 hlim htext hp hc
        (by simp only [List.length_cons, List.length_append, List.length_nil] at hfuel; omega)
      simpa [Atom.render, Atom.groups, Atom.closed] using this
    | chr x => cases hch
    | esc e => cases hch
    | dot => cases hleaf
    | bol => cases hleaf
    | eol => cases hleaf
    | clsEsc e => cases hleaf
    | prop pos name => cases hleaf
    | backref ds => cases hleaf
    | cls e => cases hleaf

theorem Atom.render_pos {xsd : Bool} {env : Env} {n : Nat} {cl : List Nat} {a : Atom}
    (h : a.ok xsd env n cl = true) : 0 < a.render.length := by
  obtain ⟨y, tl, hy, _⟩ := Atom.head_spec h
  rw [hy]; simp

/-- all four parser functions, by induction on the fuel -/
theorem parse_all (c : PC) : ∀ f, PE c f ∧ PBs c f ∧ PB c f ∧ PT c f := by
  intro f
  induction f with
  | zero =>
    refine ⟨⟨?_, ?_⟩, ?_, ?_, ?_⟩
    · intro r s rest n cl _ _ _ _ _ hfuel; omega
    · intro r s rest n cl _ _ _ _ _ _ hfuel; omega
    · intro r s acc rest n cl _ _ _ _ _ _ hfuel; omega
    · intro b s cur rest n cl _ _ _ _ _ _ hfuel; omega
    · intro a s rest n cl _ hok _ _ _ _ _ hfuel
      have := Atom.render_pos hok
      omega
  | succ f ih =>
    obtain ⟨hPE, hPBs, hPB, hPT⟩ := ih
    exact ⟨PE_step hPB hPBs, PBs_step hPB hPBs, PB_step hPB hPT, PT_step hPE⟩

/-! ### whole patterns -/

/-- the top-level call on `r` followed by the end or a (stray) `)`: succeeds and stops after `r` -/
theorem parse_top_gen (c : PC) (r : RegExp) (rest : List Nat)
    (hok : r.ok c.fl.xsd c.env 0 [] = true) (hlim : r.inLimit = true)
    (hpat : c.pat = r.render ++ rest) (hfol : FolR rest) :
    ∃ op s', parseExpr c (4 * c.pat.length + 16) {} true = .ok op s' ∧
      s'.idx = r.render.length ∧ s'.parens = r.groups + 1 ∧ s'.captures = r.closed 0 [] := by
  obtain ⟨_, hPBs, hPB, _⟩ := parse_all c (4 * c.pat.length + 15)
  have hlen : r.render.length ≤ c.pat.length := by rw [hpat]; simp
  obtain ⟨b1, s1, bs, s2, e1, e2, e3, e4, e5⟩ :=
    regexp_body hPB hPBs (s := {}) (n := 0) hok hlim (by simpa using hpat) hfol rfl rfl (by omega)
  obtain ⟨op, hbody⟩ := exprBody_top (cp := ({} : PS).parens) e1 e2
  rw [show 4 * c.pat.length + 16 = (4 * c.pat.length + 15) + 1 from rfl, parseExpr_succ,
    exprOpen_top]
  simp only []
  rw [hbody]
  refine ⟨op, s2, rfl, ?_, ?_, e5⟩
  · rw [e3]; simp
  · rw [e4]; simp; omega

theorem mkProgram_maxParens (pat : List Nat) (op : Op) (n : Nat) (fl : CFlags) (hb : Bool) :
    (mkProgram pat op n fl hb).maxParens = n := by
  unfold mkProgram
  simp only []
  split
  · split <;> rfl
  · rfl

/-! ### error propagation (for the rejection theorems) -/

theorem compileCore_eq (env : Env) (fl : CFlags) (pat : List Nat) (opt : Bool)
    (hlit : fl.literal = false) :
    compileCore env fl pat opt =
      match parseExpr { pat := pat, fl := fl, env := env } (4 * pat.length + 16) {} true with
      | .err e => .err e
      | .ok op s =>
        if s.idx != pat.length then .err .syntax else
        if opt then .ok (mkProgram pat (optimize env fl op) s.parens fl s.hasBackrefs)
        else .ok (mkBareProgram pat op s.parens fl s.hasBackrefs) := by
  unfold compileCore
  simp only [hlit, Bool.false_eq_true, if_false]
  rfl

/-- an error in the first branch or in the `|`-loop is the error of the compilation -/
theorem compileCore_err_of_body {env : Env} {fl : CFlags} {pat : List Nat} {opt : Bool} {e : Err}
    (hlit : fl.literal = false)
    (h : exprBody { pat := pat, fl := fl, env := env } (4 * pat.length + 15) 1 0 {} = .err e) :
    compileCore env fl pat opt = .err e := by
  rw [compileCore_eq env fl pat opt hlit,
    show 4 * pat.length + 16 = (4 * pat.length + 15) + 1 from rfl, parseExpr_succ, exprOpen_top]
  simp only []
  rw [h]

theorem exprBody_err_branch {c : PC} {f cp paren : Nat} {s : PS} {e : Err}
    (h : parseBranch c f s none = .err e) : exprBody c f cp paren s = .err e := by
  simp only [exprBody, h]

theorem exprBody_err_branches {c : PC} {f cp paren : Nat} {s s1 : PS} {b1 : Op} {e : Err}
    (h1 : parseBranch c f s none = .ok b1 s1) (h2 : parseBranches c f s1 [b1] = .err e) :
    exprBody c f cp paren s = .err e := by
  simp only [exprBody, h1, h2]

theorem parseBranch_err_terminal {c : PC} {f : Nat} {s : PS} {cur : Option Op} {e : Err} {y : Nat}
    {tl : List Nat} (htext : c.pat.drop s.idx = y :: tl) (hy1 : y ≠ 124) (hy2 : y ≠ 41)
    (h : parseTerminal c f s = .err e) : parseBranch c (f + 1) s cur = .err e := by
  obtain ⟨hlt, hat, _⟩ := drop_cons_facts htext
  have hcond : (decide (s.idx < c.len) && c.at s.idx != 124 && c.at s.idx != 41) = true := by
    simp [hlt, hat, hy1, hy2]
  rw [parseBranch, if_pos hcond, h]

theorem parseBranch_err_quant {c : PC} {f : Nat} {s s1 : PS} {cur : Option Op} {e : Err} {y : Nat}
    {tl : List Nat} {ret : Op} (htext : c.pat.drop s.idx = y :: tl) (hy1 : y ≠ 124) (hy2 : y ≠ 41)
    (h : parseTerminal c f s = .ok ret s1) (hq : pieceQuant c ret s1 = .err e) :
    parseBranch c (f + 1) s cur = .err e := by
  obtain ⟨hlt, hat, _⟩ := drop_cons_facts htext
  have hcond : (decide (s.idx < c.len) && c.at s.idx != 124 && c.at s.idx != 41) = true := by
    simp [hlt, hat, hy1, hy2]
  rw [parseBranch, if_pos hcond, h]
  simp only []
  rw [hq]

theorem parseTerminal_quant {c : PC} {f : Nat} {s : PS} (h : isQuantChar (c.at s.idx) = true) :
    parseTerminal c (f + 1) s = .err .syntax := by
  rw [isQuantChar_iff] at h
  rw [parseTerminal]
  rcases h with h | h | h | h <;> simp [h]

theorem escape_dangling {c : PC} {s : PS} {b : Bool} (h : c.pat.drop s.idx = [92]) :
    escape c s b = .err .syntax := by
  obtain ⟨hlt, hat, h1⟩ := drop_cons_facts h
  have := drop_nil_ge h1
  have c0 : (c.at s.idx != 92) = false := by simp [hat]
  have c1 : s.idx + 1 ≥ c.len := by omega
  unfold escape
  simp only [c0, Bool.false_eq_true, if_false, c1, if_true]

theorem parseTerminal_dangling {c : PC} {f : Nat} {s : PS} (h : c.pat.drop s.idx = [92]) :
    parseTerminal c (f + 1) s = .err .syntax := by
  have hat := (drop_cons_facts h).2.1
  rw [parseTerminal]
  simp [hat, escape_dangling h]

/-- `\N` where no group is closed yet -/
theorem escape_backref_none {c : PC} {s : PS} {d : Nat} {tl : List Nat}
    (h : c.pat.drop s.idx = 92 :: d :: tl) (hd : 49 ≤ d ∧ d ≤ 57) (hc : s.captures = []) :
    escape c s false = .err .syntax := by
  obtain ⟨hlt0, hat0, h1⟩ := drop_cons_facts h
  obtain ⟨hlt1, hat1, h2⟩ := drop_cons_facts h1
  have c0 : (c.at s.idx != 92) = false := by simp [hat0]
  have c1 : ¬ (s.idx + 1 ≥ c.len) := by omega
  unfold escape
  simp only [c0, c1, Bool.false_eq_true, if_false, hat1]
  have e1 : ∀ k : Nat, k < 49 ∨ 57 < k → (d == k) = false := by
    intro k hk; rw [beq_eq_false_iff_ne]; omega
  simp only [e1 110 (by omega), e1 114 (by omega), e1 116 (by omega), e1 92 (by omega),
    e1 124 (by omega), e1 46 (by omega), e1 45 (by omega), e1 94 (by omega), e1 63 (by omega),
    e1 42 (by omega), e1 43 (by omega), e1 123 (by omega), e1 125 (by omega), e1 40 (by omega),
    e1 41 (by omega), e1 91 (by omega), e1 93 (by omega), e1 36 (by omega), e1 115 (by omega),
    e1 83 (by omega), e1 105 (by omega), e1 73 (by omega), e1 99 (by omega), e1 67 (by omega),
    e1 100 (by omega), e1 68 (by omega), e1 119 (by omega), e1 87 (by omega), e1 112 (by omega),
    e1 80 (by omega), e1 48 (by omega), Bool.or_self, Bool.false_eq_true, if_false]
  have e2 : (decide (49 ≤ d) && decide (d ≤ 57)) = true := by simp [hd.1, hd.2]
  simp only [e2, if_true, hc]
  cases c.fl.xsd <;> simp

theorem parseTerminal_backref_none {c : PC} {f : Nat} {s : PS} {d : Nat} {tl : List Nat}
    (h : c.pat.drop s.idx = 92 :: d :: tl) (hd : 49 ≤ d ∧ d ≤ 57) (hc : s.captures = []) :
    parseTerminal c (f + 1) s = .err .syntax := by
  have hat := (drop_cons_facts h).2.1
  rw [parseTerminal]
  simp [hat, escape_backref_none h hd hc]

theorem pieceQuant_err {c : PC} {ret : Op} {s : PS} {e : Err} (hlt : s.idx < c.len)
    (h : quantHead c s = .err e) : pieceQuant c ret s = .err e := by
  rw [pieceQuant, if_neg (by omega)]
  extract_lets q r
  have hr' : r = .err e := h
  clear_value r
  subst hr'
  rfl

theorem quantHead_bracket_err {c : PC} {s : PS} {e : Err} (hat : c.at s.idx = 123)
    (h : bracket c s = .err e) : quantHead c s = .err e := by
  simp [quantHead, hat, h]

/-- a single normal character followed by a quantifier character: `parse_atom` returns it -/
theorem parseTerminal_char_quant {c : PC} {f : Nat} {s : PS} {x y : Nat} {tl : List Nat}
    (h : c.pat.drop s.idx = x :: y :: tl) (hx : normalChar c.fl.xsd x = true)
    (hy : isQuantChar y = true) :
    parseTerminal c (f + 1) s = .ok (.atom [x]) { s with idx := s.idx + 1 } := by
  obtain ⟨hlt, hat, h1⟩ := drop_cons_facts h
  obtain ⟨hlt1, hat1, _⟩ := drop_cons_facts h1
  have hn := hx
  have h92 : c.at s.idx ≠ 92 := by
    rw [hat]; intro hh; subst hh; revert hn; cases c.fl.xsd <;> decide
  obtain ⟨bq, hla, _, hq0⟩ := lookAhead_plain (ub := []) h92
  rw [hq0 rfl] at hla
  have hpt' : parseTerminal c (f + 1) s = parseAtom c s := by
    rw [parseTerminal]
    simp only [normalChar, Bool.and_eq_true, Bool.not_eq_true', Bool.or_eq_false_iff,
      beq_eq_false_iff_ne, ne_eq, Bool.or_eq_true] at hn
    obtain ⟨⟨⟨⟨⟨⟨⟨⟨⟨⟨⟨⟨h46, h92'⟩, h63⟩, h42⟩, h43⟩, h123⟩, h125⟩, h40⟩, h41⟩, h124⟩, h91⟩, h93⟩, hxx⟩ := hn
    have e : ∀ k : Nat, x ≠ k → (x == k) = false := fun k hk => by simpa using hk
    simp only [hat, e 46 h46, e 91 h91, e 40 h40, e 41 h41, e 124 h124, e 93 h93, e 63 h63, e 43 h43,
      e 123 h123, e 42 h42, e 92 h92', Bool.or_self, Bool.false_eq_true, if_false]
    rcases hxx with hxx | hxx
    · simp [hxx]
    · simp [e 36 hxx.2, e 94 hxx.1]
  rw [hpt']
  unfold parseAtom
  rw [show c.len + 2 = (c.len + 1) + 1 from rfl, parseAtomGo_succ, if_pos hlt, hla]
  simp only []
  rw [dispatch_normal (by rw [hat]; exact hx), hat]
  have hq : isQuantChar (c.at ({ s with idx := s.idx + 1 } : PS).idx) = true := by
    simp only []; rw [hat1]; exact hy
  rw [atomGo_at_quant (s := { s with idx := s.idx + 1 }) hlt1 hq (by simp)]
  rfl

/-- a reluctant marker in the XSD dialect -/
theorem pieceQuant_xsd_reluctant {c : PC} {ret : Op} {s : PS} (hlt : s.idx < c.len) {hasQ : Bool}
    {s1 : PS} (hr : quantHead c s = .ok hasQ s1) (hrel : relAt c s1 = true) (hx : c.fl.xsd = true) :
    pieceQuant c ret s = .err .syntax := by
  rw [pieceQuant, if_neg (by omega)]
  extract_lets q r
  have hr' : r = .ok hasQ s1 := hr
  clear_value r
  subst hr'
  dsimp -zeta only
  extract_lets qt0 qt reluctant s2 greedy mm mn mx
  have hrel' : reluctant = relAt c s1 := rfl
  rw [hrel', hrel, hx]
  rfl

theorem exprBody_unclosed {c : PC} {f cp paren : Nat} {s s1 s2 : PS} {b1 : Op} {bs : List Op}
    (h1 : parseBranch c f s none = .ok b1 s1) (h2 : parseBranches c f s1 [b1] = .ok bs s2)
    (hp : paren ≠ 0) (hend : c.len ≤ s2.idx) : exprBody c f cp paren s = .err .syntax := by
  have hlt : ¬ s2.idx < c.len := by omega
  have hp' : (paren != 0) = true := by simpa using hp
  simp only [exprBody, h1, h2, hp', if_true, hlt, decide_false, Bool.false_and, Bool.false_eq_true,
    if_false]

/-- `( r` or `(?: r` with the pattern ending where the `)` should be -/
theorem parseExpr_unclosed {c : PC} {f : Nat} {r : RegExp} {s : PS}
    {n : Nat} {cl : List Nat} (hp : s.parens = n + 1) (hc : s.captures = cl)
    (hlim : r.inLimit = true) (hfuel : 2 * r.render.length + 2 ≤ f + 1) :
    (r.ok c.fl.xsd c.env (n + 1) cl = true → c.pat.drop s.idx = 40 :: r.render →
      parseExpr c (f + 1) s false = .err .syntax) ∧
    (c.fl.xsd = false → r.ok c.fl.xsd c.env n cl = true →
      c.pat.drop s.idx = 40 :: 63 :: 58 :: r.render → parseExpr c (f + 1) s false = .err .syntax) := by
  obtain ⟨_, hPBs, hPB, _⟩ := parse_all c f
  constructor
  · intro hok htext
    have hopen := exprOpen_group htext (by simpa using RegExp.head_ne hok (rest := []) (.inl rfl))
    obtain ⟨_, _, h1⟩ := drop_cons_facts htext
    obtain ⟨b1, s1, bs, s2, e1, e2, e3, e4, e5⟩ :=
      regexp_body hPB hPBs (s := { s with idx := s.idx + 1, parens := s.parens + 1 }) (rest := [])
        hok hlim (by simpa using h1) (.inl rfl) (by simp only []; omega) hc (by omega)
    have hend : c.len ≤ s2.idx := by
      have := drop_len h1
      rw [e3]; simp only []; omega
    rw [parseExpr_succ, hopen]
    exact exprBody_unclosed e1 e2 (by decide) hend
  · intro hx hok htext
    have hopen := exprOpen_nc htext hx
    obtain ⟨_, _, h1⟩ := drop_cons_facts htext
    obtain ⟨_, _, h2⟩ := drop_cons_facts h1
    obtain ⟨_, _, h3⟩ := drop_cons_facts h2
    obtain ⟨b1, s1, bs, s2, e1, e2, e3, e4, e5⟩ :=
      regexp_body hPB hPBs (s := { s with idx := s.idx + 3 }) (rest := [])
        hok hlim (by simpa using h3) (.inl rfl) hp hc (by omega)
    have hend : c.len ≤ s2.idx := by
      have := drop_len h3
      rw [e3]; simp only []; omega
    rw [parseExpr_succ, hopen]
    exact exprBody_unclosed e1 e2 (by decide) hend

/-- `(` followed by anything but `?:` opens a capturing group -/
theorem exprOpen_group' {c : PC} {s : PS} {X : List Nat} (h : c.pat.drop s.idx = 40 :: X)
    (hX : ∀ tl, X ≠ 63 :: 58 :: tl) :
    exprOpen c s false = .ok 1 { s with idx := s.idx + 1, parens := s.parens + 1 } := by
  obtain ⟨_, hat, h1⟩ := drop_cons_facts h
  have hno : (decide (s.idx + 2 < c.len) && c.at (s.idx + 1) == 63 && c.at (s.idx + 2) == 58) = false := by
    cases X with
    | nil =>
      have := drop_nil_ge h1
      have : ¬ s.idx + 2 < c.len := by omega
      simp [this]
    | cons y tl =>
      obtain ⟨_, hat1, h2⟩ := drop_cons_facts h1
      cases tl with
      | nil =>
        have := drop_nil_ge h2
        have : ¬ s.idx + 2 < c.len := by omega
        simp [this]
      | cons z tl' =>
        obtain ⟨_, hat2, _⟩ := drop_cons_facts h2
        have hat2' : c.at (s.idx + 2) = z := hat2
        by_cases hy : y = 63
        · have : z ≠ 58 := fun hz => hX tl' (by rw [hy, hz])
          simp [hat2', this]
        · simp [hat1, hy]
  simp [exprOpen, hat, hno]

theorem exprOpen_nc_xsd {c : PC} {s : PS} {X : List Nat} (h : c.pat.drop s.idx = 40 :: 63 :: 58 :: X)
    (hx : c.fl.xsd = true) : exprOpen c s false = .err .syntax := by
  obtain ⟨_, hat, h1⟩ := drop_cons_facts h
  obtain ⟨_, hat1, h2⟩ := drop_cons_facts h1
  obtain ⟨hlt2, hat2, _⟩ := drop_cons_facts h2
  have h2' : s.idx + 2 < c.len := by omega
  have hat2' : c.at (s.idx + 2) = 58 := hat2
  simp [exprOpen, hat, hat1, hat2', h2', hx]

/-! ### `closed` is the set of groups whose `)` lies to the left -/

mutual
theorem Atom.mem_closed (x : Nat) : (a : Atom) → ∀ (n : Nat) (cl : List Nat),
    x ∈ a.closed n cl ↔ (x ∈ cl ∨ (n < x ∧ x ≤ n + a.groups))
  | .group r, n, cl => by
    simp only [Atom.closed, Atom.groups, List.mem_cons, RegExp.mem_closed x r (n + 1) cl]
    by_cases hm : x ∈ cl <;> simp only [hm, true_or, false_or, or_true, or_false, iff_true] <;> omega
  | .ncgroup r, n, cl => by
    simp only [Atom.closed, Atom.groups, RegExp.mem_closed x r n cl]
  | .chr _, n, cl | .dot, n, cl | .bol, n, cl | .eol, n, cl | .esc _, n, cl | .clsEsc _, n, cl
  | .prop _ _, n, cl | .backref _, n, cl | .cls _, n, cl => by
    simp only [Atom.closed, Atom.groups]
    exact ⟨.inl, fun h => h.elim id (fun h' => by omega)⟩
termination_by structural a => a
theorem Branch.mem_closed (x : Nat) : (b : Branch) → ∀ (n : Nat) (cl : List Nat),
    x ∈ b.closed n cl ↔ (x ∈ cl ∨ (n < x ∧ x ≤ n + b.groups))
  | .nil, n, cl => by
    simp only [Branch.closed, Branch.groups]
    exact ⟨.inl, fun h => h.elim id (fun h' => by omega)⟩
  | .cons a q b, n, cl => by
    simp only [Branch.closed, Branch.groups, Branch.mem_closed x b, Atom.mem_closed x a]
    by_cases hm : x ∈ cl <;> simp only [hm, true_or, false_or, or_true, or_false, iff_true] <;> omega
termination_by structural b => b
theorem RegExp.mem_closed (x : Nat) : (r : RegExp) → ∀ (n : Nat) (cl : List Nat),
    x ∈ r.closed n cl ↔ (x ∈ cl ∨ (n < x ∧ x ≤ n + r.groups))
  | .one b, n, cl => by simp only [RegExp.closed, RegExp.groups, Branch.mem_closed x b]
  | .alt b r, n, cl => by
    simp only [RegExp.closed, RegExp.groups, RegExp.mem_closed x r, Branch.mem_closed x b]
    by_cases hm : x ∈ cl <;> simp only [hm, true_or, false_or, or_true, or_false, iff_true] <;> omega
termination_by structural r => r
end


end Rx.Grammar
