/-
  Proofs/TermCalc — termination calculus for resumption streams.

    `Step.Term I s` : `s` never reaches `.diverge` and every state it exposes satisfies `I`, provided
                      the consumer hands back states satisfying `I`.
  With `I := fun _ => True` this is `Step.NoDiv`; in general it implies `Step.Inv I`.  Both facts
  about a stream are therefore obtained from one proof, generic in `I`.
-/
import RxModel.Proofs.StreamCalc
namespace Rx

inductive Step.Term (I : St → Prop) : Step → Prop
  | nil (st) : I st → Term I (.nil st)
  | cons (n st r) : I st → (∀ st', I st' → Term I (r st')) → Term I (.cons n st r)

namespace Step.Term
variable {I : St → Prop} {P : Nat → Prop}

theorem toInv {s : Step} (h : s.Term I) : s.Inv I := by
  induction h with
  | nil st hi => exact .nil st hi
  | cons n st r hi _ ih => exact .cons n st r hi ih

theorem toNoDiv {s : Step} (hI : ∀ st, I st) (h : s.Term I) : s.NoDiv := by
  induction h with
  | nil st _ => exact .nil st
  | cons n st r _ _ ih => exact .cons n st r (fun st' => ih st' (hI st'))

theorem ofNoDiv {s : Step} (hI : ∀ st, I st) (h : s.NoDiv) : s.Term I := by
  induction h with
  | nil st => exact .nil st (hI st)
  | cons n st r _ ih => exact .cons n st r (hI st) (fun st' _ => ih st')

theorem not_diverge (h : Step.diverge.Term I) : False := by
  cases h

theorem once {n : Nat} {st : St} (h : I st) : (Step.once n st).Term I :=
  .cons _ _ _ h (fun st' h' => .nil st' h')

theorem append {s : Step} {f : St → Step}
    (hs : s.Term I) (hf : ∀ st, I st → (f st).Term I) : (s.append f).Term I := by
  induction hs with
  | nil st hi => exact hf st hi
  | cons n st r hi _ ih => exact .cons _ _ _ hi ih

theorem bind {s : Step} {f : Nat → St → Step}
    (hs : s.Term I) (ha : s.All P) (hf : ∀ n st, P n → I st → (f n st).Term I) :
    (s.bind f).Term I := by
  induction hs with
  | nil st hi => exact .nil st hi
  | cons n st r hi _ ih =>
    cases ha with
    | cons _ _ _ hn hra =>
      exact (hf n st hn hi).append (fun st' h' => ih st' h' (hra st'))

theorem bindFR {s : Step} {f g : Nat → St → Step}
    (hs : s.Term I) (ha : s.All P) (hf : ∀ n st, P n → I st → (f n st).Term I)
    (hg : ∀ n st, P n → I st → (g n st).Term I) : (s.bindFR f g).Term I := by
  cases hs with
  | nil st hi => exact .nil st hi
  | cons n st r hi hr =>
    cases ha with
    | cons _ _ _ hn hra =>
      exact (hf n st hn hi).append (fun st' h' => (hr st' h').bind (hra st') hg)

theorem mapSt {s : Step} {f : Nat → St → St} (hs : s.Term I) (hf : ∀ n st, I st → I (f n st)) :
    (s.mapSt f).Term I := by
  induction hs with
  | nil st hi => exact .nil st hi
  | cons n st r hi _ ih => exact .cons _ _ _ (hf n st hi) ih

theorem onNil {s : Step} {f : St → St} (hs : s.Term I) (hf : ∀ st, I st → I (f st)) :
    (s.onNil f).Term I := by
  induction hs with
  | nil st hi => exact .nil _ (hf st hi)
  | cons n st r hi _ ih => exact .cons _ _ _ hi ih

theorem force {s : Step} (hs : s.Term I) : ∀ cnt cur, (s.force cnt cur).Term I := by
  induction hs with
  | nil st hi => intro _ _; exact .nil _ hi
  | cons n st r hi _ ih =>
    intro cnt cur
    refine .cons _ _ _ hi (fun st' h' => ?_)
    generalize (if (some n == cur) = true then cnt + 1 else 0) = c
    by_cases hc : c > 3
    · simp only [hc, if_true]; exact .nil _ h'
    · simp only [hc, if_false]; exact ih st' h' _ _

/-- the state left by "create an iterator, pull once, drop it" -/
theorem first1 {s : Step} (hs : s.Term I) : I (first1 s).2 := by
  cases hs with
  | nil st hi => exact hi
  | cons n st r hi _ => exact hi

theorem first1_eq {s : Step} (hs : s.Term I) {o : Option (Nat × St)} {st' : St}
    (h : Rx.first1 s = (o, st')) : I st' := by
  have := hs.first1
  rw [h] at this
  exact this

end Step.Term

/- (closure lemmas for `NoDiv` / `Inv` themselves live in Proofs/InvCalc) -/

end Rx
