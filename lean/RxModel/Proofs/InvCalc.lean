/-
  Proofs/InvCalc — closure lemmas for the state-invariant calculus `Step.Inv I` and for
  `Step.NoDiv` (both defined in Proofs/StreamCalc), and what `first1` hands on.
-/
import RxModel.Proofs.StreamCalc
namespace Rx

/-- the state `first1` makes up when the iterator it pulls from does not terminate -/
def junkSt : St := ({} : St).setPanic panicDiverge

theorem Step.All.trivial (s : Step) : s.All (fun _ => True) := by
  induction s with
  | nil st => exact .nil st
  | cons n st r ih => exact .cons _ _ _ True.intro ih
  | diverge => exact .diverge

theorem Step.All.head' {P : Nat → Prop} {n : Nat} {st : St} {r : St → Step}
    (h : (Step.cons n st r).All P) : P n := by
  cases h with
  | cons _ _ _ hn _ => exact hn

theorem Step.All.tail {P : Nat → Prop} {n : Nat} {st : St} {r : St → Step}
    (h : (Step.cons n st r).All P) (st' : St) : (r st').All P := by
  cases h with
  | cons _ _ _ _ hr => exact hr st'

namespace Step.Inv
variable {I : St → Prop} {P : Nat → Prop}

theorem nil_inv {st : St} (h : (Step.nil st).Inv I) : I st := by
  cases h with
  | nil _ h => exact h

theorem head {n : Nat} {st : St} {r : St → Step} (h : (Step.cons n st r).Inv I) : I st := by
  cases h with
  | cons _ _ _ h _ => exact h

theorem tail {n : Nat} {st : St} {r : St → Step} (h : (Step.cons n st r).Inv I)
    (st' : St) (h' : I st') : (r st').Inv I := by
  cases h with
  | cons _ _ _ _ hr => exact hr st' h'

theorem append {s : Step} {f : St → Step}
    (hs : s.Inv I) (hf : ∀ st, I st → (f st).Inv I) : (s.append f).Inv I := by
  induction hs with
  | nil st h => exact hf st h
  | cons n st r h _ ih => exact .cons _ _ _ h ih
  | diverge => exact .diverge

/-- `bind`, with a position predicate carried along -/
theorem bindP {s : Step} {f : Nat → St → Step}
    (hs : s.Inv I) (hp : s.All P) (hf : ∀ n st, P n → I st → (f n st).Inv I) : (s.bind f).Inv I := by
  induction hs with
  | nil st h => exact .nil _ h
  | cons n st r h _ ih =>
    cases hp with
    | cons _ _ _ hn hr => exact (hf n st hn h).append (fun st' h' => ih st' h' (hr st'))
  | diverge => exact .diverge

theorem bind {s : Step} {f : Nat → St → Step}
    (hs : s.Inv I) (hf : ∀ n st, I st → (f n st).Inv I) : (s.bind f).Inv I :=
  bindP hs (Step.All.trivial s) (fun n st _ h => hf n st h)

theorem bindFRP {s : Step} {f g : Nat → St → Step}
    (hs : s.Inv I) (hp : s.All P) (hf : ∀ n st, P n → I st → (f n st).Inv I)
    (hg : ∀ n st, P n → I st → (g n st).Inv I) : (s.bindFR f g).Inv I := by
  cases hs with
  | nil st h => exact .nil _ h
  | cons n st r h hr =>
    cases hp with
    | cons _ _ _ hn hpr => exact (hf n st hn h).append (fun st' h' => bindP (hr st' h') (hpr st') hg)
  | diverge => exact .diverge

theorem bindFR {s : Step} {f g : Nat → St → Step}
    (hs : s.Inv I) (hf : ∀ n st, I st → (f n st).Inv I)
    (hg : ∀ n st, I st → (g n st).Inv I) : (s.bindFR f g).Inv I :=
  bindFRP hs (Step.All.trivial s) (fun n st _ h => hf n st h) (fun n st _ h => hg n st h)

theorem mapSt {s : Step} {f : Nat → St → St} (hs : s.Inv I) (hf : ∀ n st, I st → I (f n st)) :
    (s.mapSt f).Inv I := by
  induction hs with
  | nil st h => exact .nil _ h
  | cons n st r h _ ih => exact .cons _ _ _ (hf n st h) ih
  | diverge => exact .diverge

theorem onNil {s : Step} {f : St → St} (hs : s.Inv I) (hf : ∀ st, I st → I (f st)) :
    (s.onNil f).Inv I := by
  induction hs with
  | nil st h => exact .nil _ (hf st h)
  | cons n st r h _ ih => exact .cons _ _ _ h ih
  | diverge => exact .diverge

theorem force {s : Step} (hs : s.Inv I) : ∀ cnt cur, (s.force cnt cur).Inv I := by
  induction hs with
  | nil st h => intro _ _; exact .nil _ h
  | cons n st r h _ ih =>
    intro cnt cur
    refine .cons _ _ _ h (fun st' h' => ?_)
    generalize (if (some n == cur) = true then cnt + 1 else 0) = c
    by_cases hc : c > 3
    · simp only [hc, if_true]; exact .nil _ h'
    · simp only [hc, if_false]; exact ih st' h' _ _
  | diverge => intro _ _; exact .diverge

theorem once {n : Nat} {st : St} (h : I st) : (Step.once n st).Inv I :=
  .cons _ _ _ h (fun _ h' => .nil _ h')

theorem mono {J : St → Prop} (hij : ∀ st, I st ↔ J st) {s : Step} (hs : s.Inv I) : s.Inv J := by
  induction hs with
  | nil st h => exact .nil _ ((hij st).1 h)
  | cons n st r h _ ih => exact .cons _ _ _ ((hij st).1 h) (fun st' h' => ih st' ((hij st').2 h'))
  | diverge => exact .diverge

end Step.Inv

namespace Step.NoDiv
variable {P : Nat → Prop}

theorem ne_diverge {s : Step} (hs : s.NoDiv) : s ≠ .diverge := by
  intro h
  rw [h] at hs
  cases hs

theorem tail {n : Nat} {st : St} {r : St → Step} (h : (Step.cons n st r).NoDiv) (st' : St) :
    (r st').NoDiv := by
  cases h with
  | cons _ _ _ hr => exact hr st'

theorem append {s : Step} {f : St → Step} (hs : s.NoDiv) (hf : ∀ st, (f st).NoDiv) :
    (s.append f).NoDiv := by
  induction hs with
  | nil st => exact hf st
  | cons n st r _ ih => exact .cons _ _ _ ih

theorem bind {s : Step} {f : Nat → St → Step} (hs : s.NoDiv) (hp : s.All P)
    (hf : ∀ n st, P n → (f n st).NoDiv) : (s.bind f).NoDiv := by
  induction hs with
  | nil st => exact .nil _
  | cons n st r _ ih =>
    cases hp with
    | cons _ _ _ hn hr => exact (hf n st hn).append (fun st' => ih st' (hr st'))

theorem bindFR {s : Step} {f g : Nat → St → Step} (hs : s.NoDiv) (hp : s.All P)
    (hf : ∀ n st, P n → (f n st).NoDiv) (hg : ∀ n st, P n → (g n st).NoDiv) :
    (s.bindFR f g).NoDiv := by
  cases hs with
  | nil st => exact .nil _
  | cons n st r hr =>
    cases hp with
    | cons _ _ _ hn hpr => exact (hf n st hn).append (fun st' => bind (hr st') (hpr st') hg)

theorem mapSt {s : Step} {f : Nat → St → St} (hs : s.NoDiv) : (s.mapSt f).NoDiv := by
  induction hs with
  | nil st => exact .nil _
  | cons n st r _ ih => exact .cons _ _ _ ih

theorem onNil {s : Step} {f : St → St} (hs : s.NoDiv) : (s.onNil f).NoDiv := by
  induction hs with
  | nil st => exact .nil _
  | cons n st r _ ih => exact .cons _ _ _ ih

theorem force {s : Step} (hs : s.NoDiv) : ∀ cnt cur, (s.force cnt cur).NoDiv := by
  induction hs with
  | nil st => intro _ _; exact .nil _
  | cons n st r _ ih =>
    intro cnt cur
    refine .cons _ _ _ (fun st' => ?_)
    generalize (if (some n == cur) = true then cnt + 1 else 0) = c
    by_cases hc : c > 3
    · simp only [hc, if_true]; exact .nil _
    · simp only [hc, if_false]; exact ih st' _ _

theorem once {n : Nat} {st : St} : (Step.once n st).NoDiv :=
  .cons _ _ _ (fun _ => .nil _)

end Step.NoDiv

/-! ### `first1` -/

/-- the state `first1` hands on satisfies the invariant, if the made-up state of the
    non-terminating case does (or that case is excluded) -/
theorem first1_inv {I : St → Prop} {s : Step} (hs : s.Inv I) (hd : s = .diverge → I junkSt) :
    I (first1 s).2 := by
  cases hs with
  | nil st h => exact h
  | cons n st r h _ => exact h
  | diverge => exact hd rfl

theorem first1_inv_nodiv {I : St → Prop} {s : Step} (hs : s.Inv I) (hd : s.NoDiv) :
    I (first1 s).2 :=
  first1_inv hs (fun h => absurd h hd.ne_diverge)

theorem first1_all {P : Nat → Prop} {s : Step} (hs : s.All P) {x : Nat × St} {st' : St}
    (h : first1 s = (some x, st')) : P x.1 := by
  cases hs with
  | nil st => simp [first1] at h
  | cons m st r hm _ =>
    simp only [first1, Prod.mk.injEq, Option.some.injEq] at h
    obtain ⟨rfl, _⟩ := h
    exact hm
  | diverge => simp [first1] at h

theorem first1_snd {s : Step} {o : Option (Nat × St)} {st' : St} (h : first1 s = (o, st')) :
    st' = (first1 s).2 := by
  rw [h]

end Rx
