/-
  Proofs/Enum2Lemmas — helper lemmas for Props/Clean2: the clean fragment enlarged by
  `UnambiguousRepeat` (Spec/Enum2).
    * `unambGen_ex`          the maximal-munch generator yields exactly `enum2`'s single end
    * `sem_ex2_op/any/seq`   `sem` yields exactly `enum2` on `shape2` trees (no disjointness needed)
    * `munch_*`              the maximal run against the iterated relation
    * `unamb_step`           in front of justified followers every member of the language uses the
                             maximal run (from `C08.disjoint_maxmunch_wf`)
    * `comp2_op/any/seq`     `enum2` is complete on the compositional fragment `cleanOp2`
    * `exist2_seq`           existence-completeness for a root sequence (`cleanProg2`)
-/
import RxModel.Spec.Enum2
import RxModel.Proofs.EnumLemmas
import RxModel.Props.C08c
namespace Rx
open Rx.C08 (noEmptyAtoms noEmptyAtomsL clsCanon clsCanonL CaseOK)

/-! ### Boolean canonicity -/

theorem canon_of_canonB : ∀ (rs : Ranges), canonB rs = true → C09.Canon rs
  | [], _ => by simp only [C09.Canon]
  | [(a, b)], h => by
    simp only [canonB, Bool.and_eq_true, decide_eq_true_eq] at h
    simp only [C09.Canon]; exact h
  | (a, b) :: (c, d) :: rs, h => by
    simp only [canonB, Bool.and_eq_true, decide_eq_true_eq] at h
    simp only [C09.Canon]
    exact ⟨h.1.1, h.1.2, canon_of_canonB _ h.2⟩

mutual
theorem clsCanon_of_B : (op : Op) → clsCanonB op = true → clsCanon op
  | .bol, _ | .eol, _ | .nothing, _ | .endProgram, _ | .backref _, _ => by simp only [clsCanon]
  | .atom cs, h => by
    simp only [clsCanonB, List.all_eq_true, decide_eq_true_eq] at h
    simp only [clsCanon]; exact h
  | .cls rs, h => by
    simp only [clsCanonB] at h
    simp only [clsCanon]; exact canon_of_canonB rs h
  | .capture _ c, h => by simp only [clsCanonB] at h; simp only [clsCanon]; exact clsCanon_of_B c h
  | .choice bs, h => by simp only [clsCanonB] at h; simp only [clsCanon]; exact clsCanonL_of_B bs h
  | .seq ops, h => by simp only [clsCanonB] at h; simp only [clsCanon]; exact clsCanonL_of_B ops h
  | .rep _ c _ _ _, h => by simp only [clsCanonB] at h; simp only [clsCanon]; exact clsCanon_of_B c h
  | .gfixed c _ _ _, h => by simp only [clsCanonB] at h; simp only [clsCanon]; exact clsCanon_of_B c h
  | .rfixed c _ _ _, h => by simp only [clsCanonB] at h; simp only [clsCanon]; exact clsCanon_of_B c h
  | .unamb c _ _, h => by simp only [clsCanonB] at h; simp only [clsCanon]; exact clsCanon_of_B c h
termination_by structural op => op
theorem clsCanonL_of_B : (ops : List Op) → clsCanonBL ops = true → clsCanonL ops
  | [], _ => by simp only [clsCanonL]
  | o :: os, h => by
    simp only [clsCanonBL, Bool.and_eq_true] at h
    simp only [clsCanonL]
    exact ⟨clsCanon_of_B o h.1, clsCanonL_of_B os h.2⟩
termination_by structural ops => ops
end

/-! ### a single literal / class -/

theorem leaf_enum2 (ctx : Ctx) (x : Op) (hx : isAtomOrClass x = true) : enum2 ctx x = enum ctx x := by
  cases x with
  | atom cs => funext p; simp only [enum2, enum]
  | cls rs => funext p; simp only [enum2, enum]; cases ctx.input[p]? <;> rfl
  | _ => simp [isAtomOrClass] at hx

theorem leaf_clean (x : Op) (hx : isAtomOrClass x = true) : cleanOp x = true ∧ wfOp x = true := by
  cases x <;> first | exact ⟨rfl, rfl⟩ | (simp [isAtomOrClass] at hx)

/-- a non-empty literal / a class is a fixed-length body (no bound on the literal's length needed) -/
theorem leaf_fixedBody (ctx : Ctx) (x : Op) (hx : isAtomOrClass x = true) (hne : noEmptyAtoms x = true) :
    ∃ len, FixedBody (sem ctx x) (enum2 ctx x) len ctx.len := by
  rw [leaf_enum2 ctx x hx]
  obtain ⟨hc, hw⟩ := leaf_clean x hx
  cases x with
  | atom cs =>
    refine ⟨cs.length, ⟨?_, fun q hq st => sem_ex_op ctx _ hc hw q hq st, ?_⟩⟩
    · cases cs with
      | nil => simp [noEmptyAtoms] at hne
      | cons a t => simp
    · intro q _ n hn
      simp only [enum] at hn
      split at hn
      · rename_i h
        rw [List.mem_singleton.1 hn]; exact ⟨rfl, h.1⟩
      · cases hn
  | cls rs =>
    refine ⟨1, ⟨Nat.one_pos, fun q hq st => sem_ex_op ctx _ hc hw q hq st, ?_⟩⟩
    intro q hq n hn
    have h1 := enum_sound ctx (.cls rs) hc hw hq hn
    have h2 := OpR_bounds_op ctx _ q n hq h1
    simp only [OpR] at h1
    exact ⟨h1.1, h2.2⟩
  | _ => simp [isAtomOrClass] at hx

/-- … whose relation is decided by the head of its enumeration -/
theorem leaf_headDet (ctx : Ctx) (x : Op) (hx : isAtomOrClass x = true) (hne : noEmptyAtoms x = true) :
    HeadDet (fun a b => OpR ctx x a b) (enum2 ctx x) ctx.len := by
  obtain ⟨len, hb⟩ := leaf_fixedBody ctx x hx hne
  obtain ⟨hc, hw⟩ := leaf_clean x hx
  have hb' := hb
  rw [leaf_enum2 ctx x hx] at hb' ⊢
  exact headDet_of ctx x len hb' (fun p q hp h => enum_complete_op ctx x hc hw p q hp h)

theorem leaf_enum2_sound (ctx : Ctx) (x : Op) (hx : isAtomOrClass x = true) {a b : Nat} {t : List Nat}
    (ha : a ≤ ctx.len) (h : enum2 ctx x a = b :: t) : OpR ctx x a b := by
  obtain ⟨hc, hw⟩ := leaf_clean x hx
  rw [leaf_enum2 ctx x hx] at h
  exact enum_sound ctx x hc hw ha (by rw [h]; exact List.mem_cons_self)

/-! ### the maximal-munch generator -/

theorem unambLoop_munch {child : Gen} {e : Nat → List Nat} {len L : Nat} (hb : FixedBody child e len L)
    (mx : Nat) :
    ∀ fuel p m st, m ≤ mx → p ≤ L → (mx - m + 1 ≤ fuel ∨ L + 2 ≤ fuel + p) →
      ∀ r, unambLoop child mx L fuel p m st = r →
        r.1 = (munch e (mx - m) p).2 ∧ r.2.1 = m + (munch e (mx - m) p).1 := by
  intro fuel
  induction fuel with
  | zero => intro p m st _ _ hf; omega
  | succ f ih =>
    intro p m st hm hp hfuel r hr
    have hlen := hb.pos
    unfold unambLoop at hr
    by_cases hlt : m < mx
    · have hcond : (decide (m < mx) && decide (p ≤ L)) = true := by simp [hlt, hp]
      rw [if_pos hcond] at hr
      obtain ⟨b, hbb⟩ : ∃ b, mx - m = b + 1 := ⟨mx - m - 1, by omega⟩
      rw [hbb]
      simp only [munch]
      cases hl : e p with
      | nil =>
        obtain ⟨st', hf⟩ := hb.first_nil hp st hl
        rw [hf] at hr
        simp only at hr
        subst hr
        exact ⟨rfl, rfl⟩
      | cons q t =>
        obtain ⟨⟨st1, hf⟩, hq1, hq2⟩ := hb.first_cons hp st hl
        rw [hf] at hr
        simp only at hr
        have hih := ih q (m + 1) st1 (by omega) hq2 (by omega) r hr
        have hb' : mx - (m + 1) = b := by omega
        rw [hb'] at hih
        simp only
        exact ⟨hih.1, by rw [hih.2]; omega⟩
    · have hcond : ¬ (decide (m < mx) && decide (p ≤ L)) = true := by simp [hlt]
      rw [if_neg hcond] at hr
      subst hr
      have : mx - m = 0 := by omega
      rw [this]
      exact ⟨rfl, rfl⟩

theorem unambGen_ex {child : Gen} {e : Nat → List Nat} {len : Nat} (ctx : Ctx)
    (hb : FixedBody child e len ctx.len) (mn mx p : Nat) (hp : p ≤ ctx.len) (st : St) :
    Step.Ex (unambGen ctx child mn mx p st)
      (if mn ≤ (munch e mx p).1 then [(munch e mx p).2] else []) := by
  unfold unambGen
  simp only
  have hfuel : mx - 0 + 1 ≤ Nat.min mx (ctx.len + 2) + 1 ∨ ctx.len + 2 ≤ Nat.min mx (ctx.len + 2) + 1 + p := by
    show _ ≤ min mx (ctx.len + 2) + 1 ∨ _ ≤ min mx (ctx.len + 2) + 1 + p
    rw [Nat.min_def]
    split <;> omega
  have h := unambLoop_munch hb mx _ p 0 st (Nat.zero_le _) hp hfuel _ rfl
  generalize unambLoop child mx ctx.len (Nat.min mx (ctx.len + 2) + 1) p 0 st = r at h
  rw [Nat.sub_zero, Nat.zero_add] at h
  rw [← h.1, ← h.2]
  by_cases hlt : r.2.1 < mn
  · rw [if_pos hlt, if_neg (by omega)]
    exact .nil _
  · rw [if_neg hlt, if_pos (by omega)]
    exact .once _ _

/-! ### the tree: `sem` yields exactly `enum2` (shape only) -/

theorem fixedBody2_of (ctx : Ctx) (c : Op) (len : Nat) (hwc : wfOp c = true) (hml : matchLen c = some len)
    (hlen0 : 0 < len) (hlen1 : len < usizeMax)
    (hex : ∀ q, q ≤ ctx.len → ∀ st, Step.Ex (sem ctx c q st) (enum2 ctx c q)) :
    FixedBody (sem ctx c) (enum2 ctx c) len ctx.len where
  pos := hlen0
  ex := hex
  fixed := by
    intro q hq n hn
    have h := hex q hq {}
    exact ⟨h.all (matchLen_sound_op ctx c hwc len hml hlen1 q {}) n hn, (ex_sound ctx c hwc hq h n hn).2⟩

mutual
theorem sem_ex2_op (ctx : Ctx) : (op : Op) → shape2 op = true → wfOp op = true →
    noEmptyAtoms op = true →
    ∀ p, p ≤ ctx.len → ∀ st, Step.Ex (sem ctx op p st) (enum2 ctx op p)
  | .bol, _, _, _, p, _, st => by simp only [sem]; exact bolGen_ex ctx p st
  | .eol, _, _, _, p, _, st => by simp only [sem]; exact eolGen_ex ctx p st
  | .nothing, _, _, _, p, _, st => by simp only [sem]; exact nothingGen_ex ctx p st
  | .endProgram, _, _, _, p, _, st => by simp only [sem]; exact endGen_ex ctx p st
  | .atom cs, _, _, _, p, _, st => by simp only [sem]; exact atomGen_ex ctx cs p st
  | .cls rs, _, _, _, p, _, st => by simp only [sem]; exact clsGen_ex ctx rs p st
  | .backref _, hc, _, _, _, _, _ => by simp [shape2] at hc
  | .rep _ _ _ _ _, hc, _, _, _, _, _ => by simp [shape2] at hc
  | .unamb x mn mx, hc, hwf, hne, p, hp, st => by
    simp only [shape2] at hc
    simp only [noEmptyAtoms] at hne
    obtain ⟨len, hb⟩ := leaf_fixedBody ctx x hc hne
    simp only [sem, enum2]
    exact unambGen_ex ctx hb mn mx p hp st
  | .capture g c, hc, hwf, hne, p, hp, st => by
    simp only [shape2] at hc
    simp only [wfOp] at hwf
    simp only [noEmptyAtoms] at hne
    simp only [sem, enum2]
    exact captureGen_ex (fun st' => sem_ex2_op ctx c hc hwf hne p hp st') ctx g st
  | .choice bs, hc, hwf, hne, p, hp, st => by
    simp only [shape2] at hc
    simp only [wfOp, Bool.and_eq_true] at hwf
    simp only [noEmptyAtoms] at hne
    simp only [sem, enum2]
    exact sem_ex2_any ctx bs hc hwf.2 hne p hp st
  | .seq ops, hc, hwf, hne, p, hp, st => by
    simp only [shape2] at hc
    simp only [wfOp, Bool.and_eq_true, Bool.not_eq_true', List.isEmpty_eq_false_iff] at hwf
    simp only [noEmptyAtoms] at hne
    simp only [sem, enum2]
    exact seqGen_ex (fun st' => sem_ex2_seq ctx ops hwf.1 hc hwf.2 hne p hp st') _ st
  | .gfixed c mn mx len, hc, hwf, hne, p, hp, st => by
    simp only [shape2] at hc
    simp only [wfOp, Bool.and_eq_true, decide_eq_true_eq, beq_iff_eq] at hwf
    obtain ⟨⟨⟨⟨⟨hwc, hml⟩, hlen0⟩, hlen1⟩, _⟩, hmx⟩ := hwf
    simp only [noEmptyAtoms] at hne
    simp only [sem, enum2]
    exact gfixedGen_ex ctx
      (fixedBody2_of ctx c len hwc hml hlen0 hlen1 (fun q hq st' => sem_ex2_op ctx c hc hwc hne q hq st'))
      mn mx hmx p hp st
  | .rfixed c mn mx len, hc, hwf, hne, p, hp, st => by
    simp only [shape2] at hc
    simp only [wfOp, Bool.and_eq_true, decide_eq_true_eq, beq_iff_eq] at hwf
    obtain ⟨⟨⟨⟨⟨hwc, hml⟩, hlen0⟩, hlen1⟩, hmm⟩, _⟩ := hwf
    simp only [noEmptyAtoms] at hne
    simp only [sem, enum2]
    exact rfixedGen_ex ctx
      (fixedBody2_of ctx c len hwc hml hlen0 hlen1 (fun q hq st' => sem_ex2_op ctx c hc hwc hne q hq st'))
      mn mx hmm p hp st
termination_by structural op => op
theorem sem_ex2_any (ctx : Ctx) : (bs : List Op) → shape2L bs = true → wfOps bs = true →
    noEmptyAtomsL bs = true →
    ∀ p, p ≤ ctx.len → ∀ st, Step.Ex (choiceGen (semL ctx bs) p st) (enumAny2 ctx bs p)
  | [], _, _, _, p, _, st => by simp only [semL, enumAny2]; exact choiceGen_nil_ex p st
  | b :: bs, hc, hwf, hne, p, hp, st => by
    simp only [shape2L, Bool.and_eq_true] at hc
    simp only [wfOps, Bool.and_eq_true] at hwf
    simp only [noEmptyAtomsL, Bool.and_eq_true] at hne
    simp only [semL, enumAny2]
    exact choiceGen_cons_ex (fun st' => sem_ex2_op ctx b hc.1 hwf.1 hne.1 p hp st')
      (fun st' => sem_ex2_any ctx bs hc.2 hwf.2 hne.2 p hp st') st
termination_by structural bs => bs
theorem sem_ex2_seq (ctx : Ctx) : (ops : List Op) → ops ≠ [] → shape2L ops = true → wfOps ops = true →
    noEmptyAtomsL ops = true →
    ∀ p, p ≤ ctx.len → ∀ st, Step.Ex (seqGo (semL ctx ops) p st) (enumSeq2 ctx ops p)
  | [], hnil, _, _, _, _, _, _ => absurd rfl hnil
  | [o], _, hc, hwf, hne, p, hp, st => by
    simp only [shape2L, Bool.and_eq_true] at hc
    simp only [wfOps, Bool.and_eq_true] at hwf
    simp only [noEmptyAtomsL, Bool.and_eq_true] at hne
    simp only [semL, enumSeq2]
    rw [flatMap_single]
    exact seqGo_single_ex (fun st' => sem_ex2_op ctx o hc.1 hwf.1 hne.1 p hp st') st
  | o :: o2 :: os, _, hc, hwf, hne, p, hp, st => by
    simp only [shape2L, Bool.and_eq_true] at hc
    simp only [wfOps, Bool.and_eq_true] at hwf
    simp only [noEmptyAtomsL, Bool.and_eq_true] at hne
    have hc2 : shape2L (o2 :: os) = true := by simp only [shape2L, Bool.and_eq_true]; exact hc.2
    have hw2 : wfOps (o2 :: os) = true := by simp only [wfOps, Bool.and_eq_true]; exact hwf.2
    have hn2 : noEmptyAtomsL (o2 :: os) = true := by simp only [noEmptyAtomsL, Bool.and_eq_true]; exact hne.2
    have h1 : ∀ st', Step.Ex (sem ctx o p st') (enum2 ctx o p) :=
      fun st' => sem_ex2_op ctx o hc.1 hwf.1 hne.1 p hp st'
    show Step.Ex (seqGo (sem ctx o :: sem ctx o2 :: semL ctx os) p st)
      ((enum2 ctx o p).flatMap (enumSeq2 ctx (o2 :: os)))
    refine seqGo_cons_ex h1 (fun n hn st' => ?_) st
    have hnL : n ≤ ctx.len := (ex_sound ctx o hwf.1 hp (h1 {}) n hn).2
    exact sem_ex2_seq ctx (o2 :: os) (List.cons_ne_nil _ _) hc2 hw2 hn2 n hnL st'
termination_by structural ops => ops
end

theorem enum2_sound_of_shape (ctx : Ctx) (op : Op) (hc : shape2 op = true) (hwf : wfOp op = true)
    (hne : noEmptyAtoms op = true) {p q : Nat} (hp : p ≤ ctx.len) (h : q ∈ enum2 ctx op p) :
    OpR ctx op p q :=
  (ex_sound ctx op hwf hp (sem_ex2_op ctx op hc hwf hne p hp {}) q h).1

/-! ### the maximal run against the iterated relation -/

theorem munch_sound {R : Nat → Nat → Prop} {e : Nat → List Nat} {L : Nat} (hd : HeadDet R e L)
    (hs : ∀ a, a ≤ L → ∀ b t, e a = b :: t → R a b) :
    ∀ b p, p ≤ L → IterR R (munch e b p).1 p (munch e b p).2 ∧ (munch e b p).1 ≤ b ∧ (munch e b p).2 ≤ L := by
  intro b
  induction b with
  | zero => intro p hp; exact ⟨.zero p, Nat.le_refl _, hp⟩
  | succ b ih =>
    intro p hp
    simp only [munch]
    cases hl : e p with
    | nil => exact ⟨.zero p, Nat.zero_le _, hp⟩
    | cons q t =>
      have hr := hs p hp q t hl
      obtain ⟨h1, h2, h3⟩ := ih q (hd.det p hp q hr).2
      exact ⟨IterR.cons hr h1, by simp only; omega, h3⟩

/-- every run is at most the maximal one, and a run that cannot be continued IS the maximal one -/
theorem munch_max {R : Nat → Nat → Prop} {e : Nat → List Nat} {L : Nat} (hd : HeadDet R e L)
    (hs : ∀ a, a ≤ L → ∀ b t, e a = b :: t → R a b) :
    ∀ b p k m, p ≤ L → IterR R k p m → k ≤ b →
      k ≤ (munch e b p).1 ∧
      ((k = b ∨ ¬ ∃ m', R m m') → k = (munch e b p).1 ∧ m = (munch e b p).2) := by
  intro b
  induction b with
  | zero =>
    intro p k m _ hi hk
    have : k = 0 := by omega
    subst this
    rw [IterR.zero_iff.1 hi]
    exact ⟨Nat.le_refl _, fun _ => ⟨rfl, rfl⟩⟩
  | succ b ih =>
    intro p k m hp hi hk
    simp only [munch]
    cases k with
    | zero =>
      rw [IterR.zero_iff.1 hi]
      refine ⟨Nat.zero_le _, fun hmax => ?_⟩
      cases hl : e p with
      | nil => exact ⟨rfl, rfl⟩
      | cons q t =>
        rcases hmax with h | h
        · omega
        · exact absurd ⟨q, hs p hp q t hl⟩ h
    | succ k =>
      obtain ⟨a, ha, hi'⟩ := IterR.uncons hi
      obtain ⟨⟨t, ht⟩, haL⟩ := hd.det p hp a ha
      rw [ht]
      obtain ⟨h1, h2⟩ := ih a k m haL hi' (by omega)
      refine ⟨by simp only; omega, fun hmax => ?_⟩
      have := h2 (by rcases hmax with h | h
                     · exact .inl (by omega)
                     · exact .inr h)
      exact ⟨by simp only; omega, this.2⟩

/-! ### what the theorems assume of the case data and of the input -/

/-- the hypotheses of `C08.disjoint_maxmunch_wf`: the case data are adequate when matching is
    case-blind (vacuous otherwise), closures are code points, the input consists of scalar values -/
structure InputOK (env : Env) (ctx : Ctx) : Prop where
  hcase : ctx.caseBlind = true → CaseOK env ctx.lower
  hce : ∀ a x, x ∈ env.closure a → x < cpLimit
  hin : ∀ c ∈ ctx.input, c < cpLimit
  hsc : ∀ c ∈ ctx.input, isSurrogate c = false

/-- case-sensitive matching: no assumption on the case tables is left -/
theorem InputOK.of_caseSensitive {env : Env} {ctx : Ctx} (hcb : ctx.caseBlind = false)
    (hce : ∀ a x, x ∈ env.closure a → x < cpLimit)
    (hin : ∀ c ∈ ctx.input, c < cpLimit) (hsc : ∀ c ∈ ctx.input, isSurrogate c = false) :
    InputOK env ctx :=
  ⟨fun h => (by rw [hcb] at h; cases h), hce, hin, hsc⟩

/-! ### justified followers force the maximal run -/

theorem unambJust_cases (env : Env) (cb ml top : Bool) (x nxt : Op) (rest : List Op)
    (h : unambJust env cb ml top x (nxt :: rest) = true) :
    (nxt = .eol ∧ ml = false) ∨ (nxt = .endProgram ∧ rest = [] ∧ top = true) ∨
    isDisjoint (initialClass env cb x) (initialClass env cb nxt) = true := by
  simp only [unambJust, Bool.or_eq_true, Bool.and_eq_true, Bool.not_eq_true', List.isEmpty_iff] at h
  rcases h with (⟨h1, h2⟩ | ⟨⟨h1, h2⟩, h3⟩) | h
  · left
    cases nxt <;> first | exact ⟨rfl, h2⟩ | (simp [isEol] at h1)
  · right; left
    cases nxt <;> first | exact ⟨rfl, h2, h3⟩ | (simp [isEnd] at h1)
  · exact .inr (.inr h)

theorem unamb_maximal (env : Env) (ctx : Ctx) (hI : InputOK env ctx) (top : Bool) (x : Op) (mn mx : Nat)
    (F : List Op) (hx : isAtomOrClass x = true) (hnx : noEmptyAtoms x = true) (hcx : clsCanon x)
    (hj : mn = mx ∨ unambJust env ctx.caseBlind ctx.multiLine top x F = true)
    (hwF : wfOps F = true) (hnF : noEmptyAtomsL F = true) (hcF : clsCanonL F)
    (k p m q : Nat) (hp : p ≤ ctx.len) (hk1 : mn ≤ k) (hk2 : k ≤ mx)
    (hi : IterR (fun a b => OpR ctx x a b) k p m) (hF : OpRSeq ctx F m q) :
    (k = mx ∨ ¬ ∃ m', OpR ctx x m m') ∨ (F = [.endProgram] ∧ top = true) := by
  rcases hj with hj | hj
  · exact .inl (.inl (by omega))
  · cases F with
    | nil => simp [unambJust] at hj
    | cons nxt rest =>
      simp only [wfOps, Bool.and_eq_true] at hwF
      simp only [noEmptyAtomsL, Bool.and_eq_true] at hnF
      simp only [clsCanonL] at hcF
      simp only [OpRSeq] at hF
      obtain ⟨m2, hn, _⟩ := hF
      rcases unambJust_cases _ _ _ _ _ _ _ hj with ⟨rfl, hml⟩ | ⟨rfl, rfl, ht⟩ | hdis
      · left; right
        intro ⟨m', hm'⟩
        have hmL := FirstL.iter_bounds ctx x hi hp
        have h1 := PreL.atomcls_nonempty ctx x hx hnx m m' hm'
        have h2 := (OpR_bounds_op ctx x m m' hmL hm').2
        simp only [OpR] at hn
        rcases hn.2 with h | h
        · omega
        · rw [hml] at h; cases h.1
      · exact .inr ⟨rfl, ht⟩
      · exact .inl (C08.disjoint_maxmunch_wf env ctx hI.hcase hI.hce hI.hin hI.hsc x nxt hx hcx hcF.1
          hnx hnF.1 hwF.1 hdis k p m m2 hp hi hn mx hk2)

/-! ### the fragment: structural facts -/

def isUnamb : Op → Bool
  | .unamb _ _ _ => true
  | _ => false

theorem isUnamb_true {o : Op} (h : isUnamb o = true) : ∃ x mn mx, o = .unamb x mn mx := by
  cases o <;> first | exact ⟨_, _, _, rfl⟩ | (simp [isUnamb] at h)

theorem cleanOp2F_irrel (env : Env) (cb ml top : Bool) (F : List Op) (o : Op) (h : ¬ isUnamb o = true) :
    cleanOp2F env cb ml top F o = cleanOp2F env cb ml false [] o := by
  cases o with
  | unamb x mn mx => exact absurd rfl h
  | _ => simp only [cleanOp2F]

mutual
theorem shape_of_clean2 (env : Env) (cb ml : Bool) : (op : Op) → ∀ top F,
    cleanOp2F env cb ml top F op = true → shape2 op = true
  | .bol, _, _, _ | .eol, _, _, _ | .nothing, _, _, _ | .endProgram, _, _, _
  | .atom _, _, _, _ | .cls _, _, _, _ => rfl
  | .backref _, _, _, h => by simp [cleanOp2F] at h
  | .rep _ _ _ _ _, _, _, h => by simp [cleanOp2F] at h
  | .unamb x mn mx, _, _, h => by
    simp only [cleanOp2F, Bool.and_eq_true] at h
    simp only [shape2]; exact h.1
  | .capture _ c, _, _, h => by
    simp only [cleanOp2F] at h; simp only [shape2]; exact shape_of_clean2 env cb ml c _ _ h
  | .choice bs, _, _, h => by
    simp only [cleanOp2F] at h; simp only [shape2]; exact shape_of_cleanAll2 env cb ml bs h
  | .seq ops, _, _, h => by
    simp only [cleanOp2F] at h; simp only [shape2]; exact shape_of_cleanSeq2 env cb ml ops _ h
  | .gfixed c _ _ _, _, _, h => by
    simp only [cleanOp2F] at h; simp only [shape2]; exact shape_of_clean2 env cb ml c _ _ h
  | .rfixed c _ _ _, _, _, h => by
    simp only [cleanOp2F] at h; simp only [shape2]; exact shape_of_clean2 env cb ml c _ _ h
termination_by structural op => op
theorem shape_of_cleanAll2 (env : Env) (cb ml : Bool) : (ops : List Op) →
    cleanAll2 env cb ml ops = true → shape2L ops = true
  | [], _ => rfl
  | o :: os, h => by
    simp only [cleanAll2, Bool.and_eq_true] at h
    simp only [shape2L, Bool.and_eq_true]
    exact ⟨shape_of_clean2 env cb ml o _ _ h.1, shape_of_cleanAll2 env cb ml os h.2⟩
termination_by structural ops => ops
theorem shape_of_cleanSeq2 (env : Env) (cb ml : Bool) : (ops : List Op) → ∀ top,
    cleanSeq2 env cb ml top ops = true → shape2L ops = true
  | [], _, _ => rfl
  | o :: os, top, h => by
    simp only [cleanSeq2, Bool.and_eq_true] at h
    simp only [shape2L, Bool.and_eq_true]
    exact ⟨shape_of_clean2 env cb ml o _ _ h.1, shape_of_cleanSeq2 env cb ml os top h.2⟩
termination_by structural ops => ops
end

theorem shape_of_cleanProg2 (env : Env) (cb ml : Bool) (op : Op) (h : cleanProg2 env cb ml op = true) :
    shape2 op = true := by
  cases op with
  | seq ops =>
    simp only [cleanProg2] at h
    simp only [shape2]; exact shape_of_cleanSeq2 env cb ml ops true h
  | _ => exact shape_of_clean2 env cb ml _ false [] h

/-! ### the element `.unamb x mn mx` of a sequence -/

/-- the (unique) end of the element when the language of `unamb · F` has a member through `m` -/
theorem unamb_elem (env : Env) (ctx : Ctx) (hI : InputOK env ctx) (top : Bool) (x : Op) (mn mx : Nat)
    (F : List Op) (hc : cleanOp2F env ctx.caseBlind ctx.multiLine top F (.unamb x mn mx) = true)
    (hnx : noEmptyAtoms x = true) (hcx : clsCanon x)
    (hwF : wfOps F = true) (hnF : noEmptyAtomsL F = true) (hcF : clsCanonL F)
    (p m q : Nat) (hp : p ≤ ctx.len) (h1 : OpR ctx (.unamb x mn mx) p m) (hF : OpRSeq ctx F m q) :
    (enum2 ctx (.unamb x mn mx) p = [m] ∧ m ≤ ctx.len) ∨
    (F = [.endProgram] ∧ top = true ∧ ∃ m', enum2 ctx (.unamb x mn mx) p = [m'] ∧ m' ≤ ctx.len) := by
  simp only [cleanOp2F, Bool.and_eq_true, Bool.or_eq_true, beq_iff_eq] at hc
  obtain ⟨hx, hj⟩ := hc
  simp only [OpR] at h1
  obtain ⟨k, hk1, hk2, hi⟩ := h1
  have hd := leaf_headDet ctx x hx hnx
  have hs : ∀ a, a ≤ ctx.len → ∀ b t, enum2 ctx x a = b :: t → OpR ctx x a b :=
    fun a ha b t h => leaf_enum2_sound ctx x hx ha h
  obtain ⟨hle, hmax⟩ := munch_max hd hs mx p k m hp hi hk2
  obtain ⟨_, _, hmL⟩ := munch_sound hd hs mx p hp
  simp only [enum2]
  rw [if_pos (by omega)]
  rcases unamb_maximal env ctx hI top x mn mx F hx hnx hcx hj hwF hnF hcF k p m q hp hk1 hk2 hi hF with h | h
  · left
    obtain ⟨_, h2⟩ := hmax h
    rw [← h2]
    exact ⟨rfl, by rw [h2]; exact hmL⟩
  · exact .inr ⟨h.1, h.2, _, rfl, hmL⟩

/-! ### `enum2` is complete on the compositional fragment -/

mutual
theorem comp2_op (env : Env) (ctx : Ctx) (hI : InputOK env ctx) : (op : Op) →
    cleanOp2F env ctx.caseBlind ctx.multiLine false [] op = true → wfOp op = true →
    noEmptyAtoms op = true → clsCanon op →
    ∀ p q, p ≤ ctx.len → OpR ctx op p q → q ∈ enum2 ctx op p
  | .bol, _, _, _, _, p, q, _, h => by
    simp only [OpR] at h
    simp only [enum2]
    rw [if_pos h.2, h.1]; exact List.mem_singleton.2 rfl
  | .eol, _, _, _, _, p, q, _, h => by
    simp only [OpR] at h
    simp only [enum2]
    rw [if_pos h.2, h.1]; exact List.mem_singleton.2 rfl
  | .nothing, _, _, _, _, p, q, _, h => by
    simp only [OpR] at h
    simp only [enum2]
    rw [h]; exact List.mem_singleton.2 rfl
  | .endProgram, _, _, _, _, p, q, _, h => by
    simp only [OpR] at h
    simp only [enum2]
    rw [h]; exact List.mem_singleton.2 rfl
  | .atom cs, _, _, _, _, p, q, _, h => by
    simp only [OpR] at h
    obtain ⟨rfl, h2, h3⟩ := h
    simp only [enum2]
    rw [if_pos ⟨h2, h3⟩]; exact List.mem_singleton.2 rfl
  | .cls rs, _, _, _, _, p, q, _, h => by
    simp only [OpR] at h
    obtain ⟨rfl, c, h2, h3⟩ := h
    simp only [enum2]
    rw [h2]
    simp only
    rw [if_pos h3]; exact List.mem_singleton.2 rfl
  | .backref _, hc, _, _, _, _, _, _, _ => by simp [cleanOp2F] at hc
  | .rep _ _ _ _ _, hc, _, _, _, _, _, _, _ => by simp [cleanOp2F] at hc
  | .unamb x mn mx, hc, hwf, hne, hcc, p, q, hp, h => by
    simp only [noEmptyAtoms] at hne
    simp only [clsCanon] at hcc
    rcases unamb_elem env ctx hI false x mn mx [] hc hne hcc rfl rfl (by simp only [clsCanonL])
      p q q hp h (by simp only [OpRSeq]) with ⟨h1, _⟩ | ⟨h1, _⟩
    · rw [h1]; exact List.mem_singleton.2 rfl
    · cases h1
  | .capture g c, hc, hwf, hne, hcc, p, q, hp, h => by
    simp only [cleanOp2F] at hc
    simp only [wfOp] at hwf
    simp only [noEmptyAtoms] at hne
    simp only [clsCanon] at hcc
    simp only [OpR] at h
    simp only [enum2]
    exact comp2_op env ctx hI c hc hwf hne hcc p q hp h
  | .choice bs, hc, hwf, hne, hcc, p, q, hp, h => by
    simp only [cleanOp2F] at hc
    simp only [wfOp, Bool.and_eq_true] at hwf
    simp only [noEmptyAtoms] at hne
    simp only [clsCanon] at hcc
    simp only [OpR] at h
    simp only [enum2]
    exact comp2_any env ctx hI bs hc hwf.2 hne hcc p q hp h
  | .seq ops, hc, hwf, hne, hcc, p, q, hp, h => by
    simp only [cleanOp2F] at hc
    simp only [wfOp, Bool.and_eq_true] at hwf
    simp only [noEmptyAtoms] at hne
    simp only [clsCanon] at hcc
    simp only [OpR] at h
    simp only [enum2]
    exact comp2_seq env ctx hI ops hc hwf.2 hne hcc p q hp h
  | .gfixed c mn mx len, hc, hwf, hne, hcc, p, q, hp, h => by
    simp only [cleanOp2F] at hc
    simp only [wfOp, Bool.and_eq_true, decide_eq_true_eq, beq_iff_eq] at hwf
    obtain ⟨⟨⟨⟨⟨hwc, hml⟩, hlen0⟩, hlen1⟩, _⟩, hmx⟩ := hwf
    simp only [noEmptyAtoms] at hne
    simp only [clsCanon] at hcc
    simp only [OpR] at h
    obtain ⟨k, hk1, hk2, hi⟩ := h
    simp only [enum2]
    have hsh := shape_of_clean2 env _ _ c _ _ hc
    have hb := fixedBody2_of ctx c len hwc hml hlen0 hlen1
      (fun q hq st' => sem_ex2_op ctx c hsh hwc hne q hq st')
    have hd : HeadDet (fun a b => OpR ctx c a b) (enum2 ctx c) ctx.len := by
      constructor
      intro a ha b hr
      have hmem := comp2_op env ctx hI c hc hwc hne hcc a b ha hr
      have hb1 := hb.fixed a ha b hmem
      cases hl : enum2 ctx c a with
      | nil => rw [hl] at hmem; cases hmem
      | cons x t =>
        have hx := hb.fixed a ha x (by rw [hl]; exact List.mem_cons_self)
        have : x = b := by omega
        subst this
        exact ⟨⟨t, rfl⟩, hb1.2⟩
    exact greedyIter_complete hd mn mx 0 p k q hp hi hk2 (by omega)
  | .rfixed c mn mx len, hc, hwf, hne, hcc, p, q, hp, h => by
    simp only [cleanOp2F] at hc
    simp only [wfOp, Bool.and_eq_true, decide_eq_true_eq, beq_iff_eq] at hwf
    obtain ⟨⟨⟨⟨⟨hwc, hml⟩, hlen0⟩, hlen1⟩, _⟩, hmx⟩ := hwf
    simp only [noEmptyAtoms] at hne
    simp only [clsCanon] at hcc
    simp only [OpR] at h
    obtain ⟨k, hk1, hk2, hi⟩ := h
    simp only [enum2]
    have hsh := shape_of_clean2 env _ _ c _ _ hc
    have hb := fixedBody2_of ctx c len hwc hml hlen0 hlen1
      (fun q hq st' => sem_ex2_op ctx c hsh hwc hne q hq st')
    have hd : HeadDet (fun a b => OpR ctx c a b) (enum2 ctx c) ctx.len := by
      constructor
      intro a ha b hr
      have hmem := comp2_op env ctx hI c hc hwc hne hcc a b ha hr
      have hb1 := hb.fixed a ha b hmem
      cases hl : enum2 ctx c a with
      | nil => rw [hl] at hmem; cases hmem
      | cons x t =>
        have hx := hb.fixed a ha x (by rw [hl]; exact List.mem_cons_self)
        have : x = b := by omega
        subst this
        exact ⟨⟨t, rfl⟩, hb1.2⟩
    exact reluctIter_complete hd mn mx 0 p k q hp hi hk2 (by omega)
termination_by structural op => op
theorem comp2_any (env : Env) (ctx : Ctx) (hI : InputOK env ctx) : (bs : List Op) →
    cleanAll2 env ctx.caseBlind ctx.multiLine bs = true → wfOps bs = true →
    noEmptyAtomsL bs = true → clsCanonL bs →
    ∀ p q, p ≤ ctx.len → OpRAny ctx bs p q → q ∈ enumAny2 ctx bs p
  | [], _, _, _, _, p, q, _, h => by simp only [OpRAny] at h
  | b :: bs, hc, hwf, hne, hcc, p, q, hp, h => by
    simp only [cleanAll2, Bool.and_eq_true] at hc
    simp only [wfOps, Bool.and_eq_true] at hwf
    simp only [noEmptyAtomsL, Bool.and_eq_true] at hne
    simp only [clsCanonL] at hcc
    simp only [OpRAny] at h
    simp only [enumAny2, List.mem_append]
    rcases h with h | h
    · exact .inl (comp2_op env ctx hI b hc.1 hwf.1 hne.1 hcc.1 p q hp h)
    · exact .inr (comp2_any env ctx hI bs hc.2 hwf.2 hne.2 hcc.2 p q hp h)
termination_by structural bs => bs
theorem comp2_seq (env : Env) (ctx : Ctx) (hI : InputOK env ctx) : (ops : List Op) →
    cleanSeq2 env ctx.caseBlind ctx.multiLine false ops = true → wfOps ops = true →
    noEmptyAtomsL ops = true → clsCanonL ops →
    ∀ p q, p ≤ ctx.len → OpRSeq ctx ops p q → q ∈ enumSeq2 ctx ops p
  | [], _, _, _, _, p, q, _, h => by
    simp only [OpRSeq] at h
    simp only [enumSeq2]
    rw [h]; exact List.mem_singleton.2 rfl
  | o :: os, hc, hwf, hne, hcc, p, q, hp, h => by
    simp only [cleanSeq2, Bool.and_eq_true] at hc
    simp only [wfOps, Bool.and_eq_true] at hwf
    simp only [noEmptyAtomsL, Bool.and_eq_true] at hne
    simp only [clsCanonL] at hcc
    simp only [OpRSeq] at h
    obtain ⟨m, h1, h2⟩ := h
    simp only [enumSeq2, List.mem_flatMap]
    by_cases hu : isUnamb o = true
    · obtain ⟨x, mn, mx, rfl⟩ := isUnamb_true hu
      have hnx : noEmptyAtoms x = true := by simpa only [noEmptyAtoms] using hne.1
      have hcx : clsCanon x := by simpa only [clsCanon] using hcc.1
      rcases unamb_elem env ctx hI false x mn mx os hc.1 hnx hcx hwf.2 hne.2 hcc.2 p m q hp h1 h2 with
        ⟨he, hmL⟩ | ⟨_, ht, _⟩
      · exact ⟨m, by rw [he]; exact List.mem_singleton.2 rfl,
          comp2_seq env ctx hI os hc.2 hwf.2 hne.2 hcc.2 m q hmL h2⟩
      · cases ht
    · have hco : cleanOp2F env ctx.caseBlind ctx.multiLine false [] o = true := by
        rw [← cleanOp2F_irrel env _ _ false os o hu]; exact hc.1
      have hm := (OpR_bounds_op ctx o p m hp h1).2
      exact ⟨m, comp2_op env ctx hI o hco hwf.1 hne.1 hcc.1 p m hp h1,
        comp2_seq env ctx hI os hc.2 hwf.2 hne.2 hcc.2 m q hm h2⟩
termination_by structural ops => ops
end

/-! ### existence-completeness for a root sequence -/

theorem exist2_seq (env : Env) (ctx : Ctx) (hI : InputOK env ctx) : ∀ (ops : List Op),
    cleanSeq2 env ctx.caseBlind ctx.multiLine true ops = true → wfOps ops = true →
    noEmptyAtomsL ops = true → clsCanonL ops →
    ∀ p q, p ≤ ctx.len → OpRSeq ctx ops p q → enumSeq2 ctx ops p ≠ [] := by
  intro ops
  induction ops with
  | nil => intro _ _ _ _ p q _ _; simp [enumSeq2]
  | cons o os ih =>
    intro hc hwf hne hcc p q hp h
    simp only [cleanSeq2, Bool.and_eq_true] at hc
    simp only [wfOps, Bool.and_eq_true] at hwf
    simp only [noEmptyAtomsL, Bool.and_eq_true] at hne
    simp only [clsCanonL] at hcc
    simp only [OpRSeq] at h
    obtain ⟨m, h1, h2⟩ := h
    simp only [enumSeq2]
    have key : ∀ m', m' ∈ enum2 ctx o p → enumSeq2 ctx os m' ≠ [] →
        (enum2 ctx o p).flatMap (enumSeq2 ctx os) ≠ [] := by
      intro m' hm' hne' hnil
      rw [List.flatMap_eq_nil_iff] at hnil
      exact hne' (hnil m' hm')
    by_cases hu : isUnamb o = true
    · obtain ⟨x, mn, mx, rfl⟩ := isUnamb_true hu
      have hnx : noEmptyAtoms x = true := by simpa only [noEmptyAtoms] using hne.1
      have hcx : clsCanon x := by simpa only [clsCanon] using hcc.1
      rcases unamb_elem env ctx hI true x mn mx os hc.1 hnx hcx hwf.2 hne.2 hcc.2 p m q hp h1 h2 with
        ⟨he, hmL⟩ | ⟨rfl, _, m', he, hmL⟩
      · exact key m (by rw [he]; exact List.mem_singleton.2 rfl) (ih hc.2 hwf.2 hne.2 hcc.2 m q hmL h2)
      · refine key m' (by rw [he]; exact List.mem_singleton.2 rfl) ?_
        simp [enumSeq2, enum2]
    · have hco : cleanOp2F env ctx.caseBlind ctx.multiLine false [] o = true := by
        rw [← cleanOp2F_irrel env _ _ true os o hu]; exact hc.1
      have hm := (OpR_bounds_op ctx o p m hp h1).2
      exact key m (comp2_op env ctx hI o hco hwf.1 hne.1 hcc.1 p m hp h1)
        (ih hc.2 hwf.2 hne.2 hcc.2 m q hm h2)

end Rx
