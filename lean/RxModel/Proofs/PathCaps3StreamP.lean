/-
  Proofs/PathCaps3ScanLemmas — helper lemmas for Props/C03g: the results of Props/C03f (`straightCaps3`:
  captures and back-references next to capture-free variable-length repeats) lifted through the search
  loop (`matchesFrom`, all shortcuts) and to `replace_all`, as Proofs/C03cLemmas does for Props/C03b.

  Re-used from Proofs/C03cLemmas unchanged (generic in the enumerator): `ReprP` and its closure lemmas,
  `Good`, `HasP`, `grpOf`, `replText`, `checkPre_good`, `preHolds_good`, `quietAll_simplePre`.
  Twins (the originals mention `straightCaps` / `enumC` concretely): `sem_seqCP3`, `StraightOK3`, `MatchRes3`,
  `matchAt_casesP3`, `tryCands_specP3`, `OutcomeP3`, `matchesFrom_outcomeP3`, `PathR_zero3`, `firstMatch3`,
  `specSpans3`, `SearchOK3`, `replaceLoop_straight3`.
-/
import RxModel.Spec.PathCaps3
import RxModel.Proofs.PathCaps3Lemmas
import RxModel.Proofs.C03cLemmas
import RxModel.Props.C03f
namespace Rx
open Rx.C08 (noEmptyAtoms noEmptyAtomsL clsCanon clsCanonL)

theorem ReprP.setHist {ctx : Ctx} {T : List Nat} {st : St} {e : CEnv} (h : ReprP ctx T st e)
    (hs : List (Nat × Nat)) : ReprP ctx T { st with hist := hs } e :=
  ⟨h.repr.setHist hs, h.pc, h.pc0⟩

/-- the repeat node, for the stronger relation `ReprP` -/
theorem rep_seqCP3 (env : Env) (ctx : Ctx) (hI : InputOK env ctx) (id : Nat) (c : Op) (mn mx : Nat) (g : Bool)
    (hs : straightCaps3 env ctx.caseBlind ctx.multiLine (.rep id c mn mx g) = true)
    (hwf : wfOp (.rep id c mn mx g) = true) (hne : noEmptyAtoms (.rep id c mn mx g) = true)
    (hcc : clsCanon (.rep id c mn mx g))
    (T : List Nat) (e : CEnv) (lo p : Nat) (hpl : p ≤ ctx.len) (he : EnvIn e lo p) (st : St)
    (hst : ReprP ctx T st e) :
    Step.SeqC (ReprP ctx T) (fun st' => ReprP ctx T st' e) (sem ctx (.rep id c mn mx g) p st)
      ((enum4 ctx (.rep id c mn mx g) p).map (fun q => (q, e))) :=
  Step.SeqC.of_ex_inv e (sem_ex4_op env ctx hI _ false [] (rep3_split hs).1 hwf hne hcc p hpl st)
    (frame_inv (writesFrom_reprP ctx T e lo p he) (fun _ hs h => h.setHist hs) ctx _ (rep3_split hs).2 hwf p st
      ⟨Nat.le_refl _, hpl⟩ hst)

theorem plain_caseP3 (ctx : Ctx) (op : Op) (hp : plainOp op = true) (hwf : wfOp op = true)
    (T : List Nat) (e : CEnv) (lo p : Nat) (hpl : p ≤ ctx.len) (he : EnvIn e lo p) (st : St)
    (henum : enumC3 ctx op p e = (enum ctx op p).map (fun q => (q, e)))
    (hst : ReprP ctx (capsOf op ++ T) st e) :
    Step.SeqC (ReprP ctx T) (fun st' => ReprP ctx (capsOf op ++ T) st' e) (sem ctx op p st)
      (enumC3 ctx op p e) := by
  rw [henum]
  rw [plain_capsOf op hp] at hst ⊢
  exact plain_seqCP ctx op hp hwf T e lo p hpl he st hst

mutual
/-- **the engine is an exact, ordered enumerator of (end, environment) pairs on `straightCaps3`** -/
theorem sem_seqCP3 (env : Env) (ctx : Ctx) (hI : InputOK env ctx) (lo : Nat) : (op : Op) →
    straightCaps3 env ctx.caseBlind ctx.multiLine op = true → wfOp op = true →
    noEmptyAtoms op = true → clsCanon op →
    ∀ cl T, scopeOK ctx.hasBackrefs ctx.maxParens op cl T = true →
    ∀ p e st, p ≤ ctx.len → lo ≤ p → EnvIn e lo p → Dom cl e → ReprP ctx (capsOf op ++ T) st e →
    Step.SeqC (ReprP ctx T) (fun st' => ReprP ctx (capsOf op ++ T) st' e) (sem ctx op p st)
      (enumC3 ctx op p e)
  | .bol, _, hwf, _, _, _, T, _, p, e, st, hpl, _, he, _, hst =>
    plain_caseP3 ctx .bol rfl hwf T e lo p hpl he st (by simp only [enumC3]) hst
  | .eol, _, hwf, _, _, _, T, _, p, e, st, hpl, _, he, _, hst =>
    plain_caseP3 ctx .eol rfl hwf T e lo p hpl he st (by simp only [enumC3]) hst
  | .nothing, _, hwf, _, _, _, T, _, p, e, st, hpl, _, he, _, hst =>
    plain_caseP3 ctx .nothing rfl hwf T e lo p hpl he st (by simp only [enumC3]) hst
  | .endProgram, _, hwf, _, _, _, T, _, p, e, st, hpl, _, he, _, hst =>
    plain_caseP3 ctx .endProgram rfl hwf T e lo p hpl he st (by simp only [enumC3]) hst
  | .atom cs, _, hwf, _, _, _, T, _, p, e, st, hpl, _, he, _, hst =>
    plain_caseP3 ctx (.atom cs) rfl hwf T e lo p hpl he st (by simp only [enumC3]) hst
  | .cls rs, _, hwf, _, _, _, T, _, p, e, st, hpl, _, he, _, hst =>
    plain_caseP3 ctx (.cls rs) rfl hwf T e lo p hpl he st (by simp only [enumC3]) hst
  | .choice bs, hs, hwf, _, _, _, T, _, p, e, st, hpl, _, he, _, hst =>
    plain_caseP3 ctx (.choice bs) (by simpa only [straightCaps3, plainOp] using hs) hwf T e lo p hpl he st
      (by simp only [enumC3]) hst
  | .gfixed c mn mx l, hs, hwf, _, _, _, T, _, p, e, st, hpl, _, he, _, hst =>
    plain_caseP3 ctx (.gfixed c mn mx l) (by simpa only [straightCaps3, plainOp] using hs) hwf T e lo p hpl he st
      (by simp only [enumC3]) hst
  | .rfixed c mn mx l, hs, hwf, _, _, _, T, _, p, e, st, hpl, _, he, _, hst =>
    plain_caseP3 ctx (.rfixed c mn mx l) (by simpa only [straightCaps3, plainOp] using hs) hwf T e lo p hpl he st
      (by simp only [enumC3]) hst
  | .unamb _ _ _, hs, _, _, _, _, _, _, _, _, _, _, _, _, _, _ => by
    simp [straightCaps3] at hs
  | .rep id c mn mx g, hs, hwf, hne, hcc, _, T, _, p, e, st, hpl, _, he, _, hst => by
    simp only [enumC3]
    rw [noCapBr_capsOf _ (rep3_split hs).2] at hst ⊢
    exact rep_seqCP3 env ctx hI id c mn mx g hs hwf hne hcc T e lo p hpl he st hst
  | .backref g, _, _, _, _, cl, T, hsc, p, e, st, hpl, _, he, hd, hst => by
    simp only [scopeOK, Bool.and_eq_true, decide_eq_true_eq, List.contains_eq_mem, Bool.not_eq_true',
      decide_eq_false_iff_not] at hsc
    obtain ⟨⟨⟨hbr, hg1⟩, hgcl⟩, hgT⟩ := hsc
    simp only [capsOf, List.nil_append] at hst ⊢
    have hsome := hd g hgcl
    cases hg : e g with
    | none => rw [hg] at hsome; cases hsome
    | some ab =>
      obtain ⟨a, b⟩ := ab
      have hag := hst.repr.agree g hg1 hgT
      rw [hg] at hag
      have hbrs := hag.2.2 hbr
      have hab := (he g a b hg).2.1
      simp only [sem, enumC3, hg]
      rw [backrefGen_eval ctx g p st a b hpl hbrs.1 hbrs.2 hab]
      split
      · exact Step.SeqC.once hst (fun _ h => h)
      · exact .nil st hst
  | .capture g c, hs, hwf, hne, hcc, cl, T, hsc, p, e, st, hpl, hlo, he, hd, hst => by
    simp only [straightCaps3] at hs
    simp only [wfOp] at hwf
    simp only [noEmptyAtoms] at hne
    simp only [clsCanon] at hcc
    simp only [scopeOK, Bool.and_eq_true, decide_eq_true_eq] at hsc
    obtain ⟨⟨hg1, hgm⟩, hsc⟩ := hsc
    simp only [capsOf] at hst ⊢
    have hperm : ∀ k, k ∈ g :: capsOf c ++ T ↔ k ∈ capsOf c ++ g :: T := by
      intro k; simp only [List.cons_append, List.mem_cons, List.mem_append]
      constructor
      · rintro (h | h | h)
        · exact .inr (.inl h)
        · exact .inl h
        · exact .inr (.inr h)
      · rintro (h | h | h)
        · exact .inr (.inl h)
        · exact .inl h
        · exact .inr (.inr h)
    have hst1 := (hst.capturePre g p (by simp) hgm).mono (fun k hk => (hperm k).1 hk)
    have ih := sem_seqCP3 env ctx hI lo c hs hwf hne hcc cl (g :: T) hsc p e _ hpl hlo he hd hst1
    simp only [sem, enumC3]
    unfold captureGen
    simp only
    refine (Step.SeqC.mapSt (R' := ReprP ctx T) (fun x => x.2.set g p x.1) ih ?_ ?_).monoN ?_
    · intro x _ st' h'
      exact h'.captureWrite g p x.1 hgm
    · intro x _ st' h'
      exact h'.unset
    · intro st' h'
      exact h'.mono (fun k hk => (hperm k).2 hk)
  | .seq ops, hs, hwf, hne, hcc, cl, T, hsc, p, e, st, hpl, hlo, he, hd, hst => by
    simp only [straightCaps3] at hs
    simp only [wfOp, Bool.and_eq_true, Bool.not_eq_true', List.isEmpty_eq_false_iff] at hwf
    simp only [noEmptyAtoms] at hne
    simp only [clsCanon] at hcc
    simp only [scopeOK] at hsc
    simp only [capsOf] at hst ⊢
    simp only [sem, enumC3]
    unfold seqGen
    simp only
    refine (seqGo_seqCP3 env ctx hI lo ops hwf.1 hs hwf.2 hne hcc cl T hsc p e st hpl hlo he hd hst).onNil
      (fun st' h' => ?_)
    split
    · exact hst.restore h'
    · exact h'
termination_by structural op => op
theorem seqGo_seqCP3 (env : Env) (ctx : Ctx) (hI : InputOK env ctx) (lo : Nat) : (ops : List Op) → ops ≠ [] →
    straightCaps3L env ctx.caseBlind ctx.multiLine ops = true → wfOps ops = true →
    noEmptyAtomsL ops = true → clsCanonL ops →
    ∀ cl T, scopeOKL ctx.hasBackrefs ctx.maxParens ops cl T = true →
    ∀ p e st, p ≤ ctx.len → lo ≤ p → EnvIn e lo p → Dom cl e → ReprP ctx (capsOfL ops ++ T) st e →
    Step.SeqC (ReprP ctx T) (fun st' => ReprP ctx (capsOfL ops ++ T) st' e) (seqGo (semL ctx ops) p st)
      (enumC3Seq ctx ops p e)
  | [], hne, _, _, _, _, _, _, _, _, _, _, _, _, _, _, _ => absurd rfl hne
  | [o], _, hs, hwf, hne, hcc, cl, T, hsc, p, e, st, hpl, hlo, he, hd, hst => by
    simp only [straightCaps3L, Bool.and_eq_true] at hs
    simp only [wfOps, Bool.and_eq_true] at hwf
    simp only [noEmptyAtomsL, Bool.and_eq_true] at hne
    simp only [clsCanonL] at hcc
    simp only [scopeOKL, capsOfL, List.nil_append, Bool.and_true] at hsc
    simp only [capsOfL, List.append_nil] at hst ⊢
    have ih := sem_seqCP3 env ctx hI lo o hs.1 hwf.1 hne.1 hcc.1 cl T hsc p e st hpl hlo he hd hst
    simp only [semL, enumC3Seq]
    rw [flatMap_pair_single]
    unfold seqGo
    refine Step.SeqC.mapSt_same ih (fun x hx st' h' => ?_)
    exact h'.clear (enumC3_facts env ctx hI lo o hs.1 hwf.1 hne.1 hcc.1 cl p e hpl hlo he hd x hx).env
  | o :: o2 :: os, _, hs, hwf, hne, hcc, cl, T, hsc, p, e, st, hpl, hlo, he, hd, hst => by
    simp only [straightCaps3L, Bool.and_eq_true] at hs
    simp only [wfOps, Bool.and_eq_true] at hwf
    simp only [noEmptyAtomsL, Bool.and_eq_true] at hne
    simp only [clsCanonL] at hcc
    have hs2 : straightCaps3L env ctx.caseBlind ctx.multiLine (o2 :: os) = true := by
      simp only [straightCaps3L, Bool.and_eq_true]; exact hs.2
    have hw2 : wfOps (o2 :: os) = true := by simp only [wfOps, Bool.and_eq_true]; exact hwf.2
    have hn2 : noEmptyAtomsL (o2 :: os) = true := by simp only [noEmptyAtomsL, Bool.and_eq_true]; exact hne.2
    have hcc2 : clsCanonL (o2 :: os) := by simp only [clsCanonL]; exact hcc.2
    rw [scopeOKL, Bool.and_eq_true] at hsc
    rw [capsOfL, List.append_assoc] at hst
    have ih := sem_seqCP3 env ctx hI lo o hs.1 hwf.1 hne.1 hcc.1 cl (capsOfL (o2 :: os) ++ T) hsc.1 p e st
      hpl hlo he hd hst
    have hfacts := enumC3_facts env ctx hI lo o hs.1 hwf.1 hne.1 hcc.1 cl p e hpl hlo he hd
    show Step.SeqC _ _ (seqGo (sem ctx o :: sem ctx o2 :: semL ctx os) p st)
      ((enumC3 ctx o p e).flatMap (fun x => enumC3Seq ctx (o2 :: os) x.1 x.2))
    unfold seqGo
    have h1 := Step.SeqC.mapSt_same (f := fun n st' => clearBeyond st' n) ih
      (fun x hx st' h' => h'.clear (hfacts x hx).env)
    have h2 := Step.SeqC.bind (R := ReprP ctx T) (f := seqGo (sem ctx o2 :: semL ctx os))
      (g := fun x => enumC3Seq ctx (o2 :: os) x.1 x.2) h1 (fun x hx st' h' => by
        have hf := hfacts x hx
        exact seqGo_seqCP3 env ctx hI lo (o2 :: os) (List.cons_ne_nil _ _) hs2 hw2 hn2 hcc2 (capsOf o ++ cl) T hsc.2
          x.1 x.2 st' hf.len (Nat.le_trans hlo hf.le) hf.env hf.dom h')
    refine h2.monoN (fun st' h' => ?_)
    rw [capsOfL, List.append_assoc]
    exact h'
termination_by structural ops => ops
end

end Rx
