/-
  Proofs/Clean4OptLemmas — helper lemmas for Props/Clean4Opt: the parser-tree predicate `src4` (the old
  clean fragment plus general repeats whose body is an old-fragment tree) and the induction over `optimize`
  showing that the optimised tree is in the fragment of Spec/Enum4 (`OptOK4`, `optOK4`, `optOK4_seq`).
-/
import RxModel.Props.Clean2Opt
import RxModel.Props.Clean4
namespace Rx.Clean4OptL
open Rx Rx.Clean2Opt
open Rx.OptL (seqElem optimizeSeq_cons2)

/-! ### the predicate on the UN-optimised (parser) tree -/

mutual
/-- the un-optimised fragment: leaves, captures, alternations, sequences, fixed-length quantifiers as in
    `cleanOp`, plus the general repeat `.rep id c mn mx g` (greedy only with `1 ≤ mn`) whose body `c` is a
    tree of the OLD fragment (`cleanOp`: no repeat inside), not a single literal / class (the parser builds
    `gfixed` / `rfixed` for those), not nullable and end-deterministic — both before and after `optimize`
    (all conjuncts are decidable on the parser tree). -/
def src4 (env : Env) (fl : CFlags) : Op → Bool
  | .bol | .eol | .nothing | .endProgram | .atom _ | .cls _ => true
  | .capture _ c => src4 env fl c
  | .choice bs => src4L env fl bs
  | .seq ops => src4L env fl ops
  | .gfixed c _ _ _ => src4 env fl c
  | .rfixed c _ _ _ => src4 env fl c
  | .rep _ c mn _ g =>
      (!g || decide (1 ≤ mn)) && cleanOp c && !isAtomOrClass c && nonNull c && detB env fl.caseBlind c &&
        nonNull (optimize env fl c) && detB env fl.caseBlind (optimize env fl c)
  | .backref _ | .unamb _ _ _ => false
termination_by structural o => o
def src4L (env : Env) (fl : CFlags) : List Op → Bool
  | [] => true
  | o :: os => src4 env fl o && src4L env fl os
termination_by structural l => l
end

/-! ### small facts -/

/-- a non-nullable well-formed tree never has `matches_empty_string = ANYWHERE` -/
theorem nonNull_mzs (c : Op) (hw : wfOp c = true) (hn : nonNull c = true) :
    (mzs c == ZLS_ANYWHERE) = false := by
  cases h : mzs c == ZLS_ANYWHERE with
  | false => rfl
  | true =>
    exfalso
    have h7 : mzs c = 7 := by simpa [ZLS_ANYWHERE] using h
    let ctx : Ctx :=
      { input := [], caseBlind := false, multiLine := false, hasBackrefs := false, maxParens := 1, lower := id }
    have h0 := OptL.anywhere_op ctx c (OptL.bnd_of_wf c hw) h7 0 (Nat.zero_le _)
    exact Nat.lt_irrefl 0 (nonNull_sound ctx c hn 0 0 h0)

/-- `optimize` does not turn a tree of the old fragment into a single literal / class -/
theorem isAtomOrClass_optimize (env : Env) (fl : CFlags) (c : Op) (hw : wfOp c = true) (h2 : seqGe2 c = true)
    (h : isAtomOrClass (optimize env fl c) = true) : isAtomOrClass c = true := by
  cases c with
  | atom cs => rfl
  | cls rs => rfl
  | gfixed c0 a b l => rw [Clean2End.optimize_gfixed_wf env fl c0 a b l hw] at h; simp [isAtomOrClass] at h
  | seq ops =>
    simp only [seqGe2, Bool.and_eq_true, decide_eq_true_eq] at h2
    cases ops with
    | nil => simp at h2
    | cons a t =>
      cases t with
      | nil => simp at h2
      | cons b r => simp [optimize, isAtomOrClass] at h
  | _ => simp [optimize, isAtomOrClass] at h

/-! ### what `optimize` preserves / establishes -/

structure OptOK4 (env : Env) (fl : CFlags) (op : Op) : Prop where
  mzs_eq : mzs (optimize env fl op) = mzs op
  ic_eq : initialClass env fl.caseBlind (optimize env fl op) = initialClass env fl.caseBlind op
  clean : cleanOp4F env fl.caseBlind fl.multiLine false [] (optimize env fl op) = true
  notUnamb : isUnamb (optimize env fl op) = false
  repBody : ∀ id c mn mx g, optimize env fl op = .rep id c mn mx g → isAtomOrClass c = false

theorem OptOK4.of_id {env : Env} {fl : CFlags} {op : Op} (h : optimize env fl op = op)
    (hc : cleanOp4F env fl.caseBlind fl.multiLine false [] op = true) (hu : isUnamb op = false)
    (hr : ∀ id c mn mx g, op = .rep id c mn mx g → isAtomOrClass c = false) :
    OptOK4 env fl op :=
  ⟨by rw [h], by rw [h], by rw [h]; exact hc, by rw [h]; exact hu, by rw [h]; exact hr⟩

/-- a repeat with a literal / class body that is neither `.unamb` nor `.rep` is `gfixed` or `rfixed` -/
theorem repeat_shape4 {opt child : Op} {mn mx : Nat} {g : Bool}
    (h : repeatParts opt = some (child, mn, mx, g)) (hac : isAtomOrClass child = true)
    (hu : isUnamb opt = false)
    (hr : ∀ id c mn mx g, opt = .rep id c mn mx g → isAtomOrClass c = false) :
    (∃ len, opt = .gfixed child mn mx len) ∨ (∃ len, opt = .rfixed child mn mx len) := by
  cases opt with
  | gfixed c a b l =>
    simp only [repeatParts, Option.some.injEq, Prod.mk.injEq] at h
    obtain ⟨rfl, rfl, rfl, _⟩ := h
    exact .inl ⟨l, rfl⟩
  | rfixed c a b l =>
    simp only [repeatParts, Option.some.injEq, Prod.mk.injEq] at h
    obtain ⟨rfl, rfl, rfl, _⟩ := h
    exact .inr ⟨l, rfl⟩
  | rep id c a b g' =>
    simp only [repeatParts, Option.some.injEq, Prod.mk.injEq] at h
    obtain ⟨rfl, _, _, _⟩ := h
    have := hr id c a b g' rfl
    rw [hac] at this
    cases this
  | unamb => simp [isUnamb] at hu
  | _ => simp [repeatParts] at h

/-- the replaced element has the same `matches_empty_string` value and the same first set -/
theorem seqElem_same4 (env : Env) (fl : CFlags) (opt nxt : Op) (hu : isUnamb opt = false)
    (hr : ∀ id c mn mx g, opt = .rep id c mn mx g → isAtomOrClass c = false) :
    mzs (seqElem env fl opt nxt) = mzs opt ∧
    initialClass env fl.caseBlind (seqElem env fl opt nxt) = initialClass env fl.caseBlind opt ∧
    (isEol opt = true → isEol (seqElem env fl opt nxt) = true) ∧
    (isEnd opt = true → isEnd (seqElem env fl opt nxt) = true) := by
  rcases seqElem_cases' env fl opt nxt with h | ⟨child, mn, mx, g, hrp, hac, _, h⟩
  · rw [h]; exact ⟨rfl, rfl, id, id⟩
  · rw [h]
    rcases repeat_shape4 hrp hac hu hr with ⟨len, rfl⟩ | ⟨len, rfl⟩
    · exact ⟨by simp only [mzs], by simp only [initialClass], by simp [isEol], by simp [isEnd]⟩
    · exact ⟨by simp only [mzs], by simp only [initialClass], by simp [isEol], by simp [isEnd]⟩

/-! ### the induction over `optimize` -/

structure SeqOK4 (env : Env) (fl : CFlags) (top : Bool) (l : List Op) : Prop where
  mzs_eq : mzsL (optimizeSeq env fl l) = mzsL l
  ic_eq : initialClassSeq env fl.caseBlind (optimizeSeq env fl l) = initialClassSeq env fl.caseBlind l
  clean : cleanSeq4 env fl.caseBlind fl.multiLine top (optimizeSeq env fl l) = true
  head : ∀ o os, l = o :: os → ∃ h t, optimizeSeq env fl l = h :: t ∧
    initialClass env fl.caseBlind h = initialClass env fl.caseBlind o ∧
    (isEol o = true → isEol h = true) ∧ (isEnd o = true → os = [] → isEnd h = true ∧ t = [])

/-- the general repeat: the body is optimised by the OLD induction (`Clean2Opt.optOK`), `min` is not rewritten -/
theorem optOK4_rep (env : Env) (fl : CFlags) (id : Nat) (c : Op) (mn mx : Nat) (g : Bool)
    (hs : src4 env fl (.rep id c mn mx g) = true) (hwf : wfOp (.rep id c mn mx g) = true)
    (h2 : seqGe2 (.rep id c mn mx g) = true) (he : noEnd (.rep id c mn mx g) = true) :
    optimize env fl (.rep id c mn mx g) = .rep id (optimize env fl c) mn mx g ∧
    OptOK4 env fl (.rep id c mn mx g) := by
  simp only [src4, Bool.and_eq_true, Bool.not_eq_true'] at hs
  obtain ⟨⟨⟨⟨⟨⟨hg, hc⟩, hna⟩, _⟩, _⟩, hnn⟩, hdet⟩ := hs
  have hwc : wfOp c = true := by simp only [wfOp, Bool.and_eq_true] at hwf; exact hwf.1.1
  simp only [seqGe2] at h2
  simp only [noEnd] at he
  have ih := Clean2Opt.optOK env fl c hc hwc h2 he
  have hm : (mzs (optimize env fl c) == ZLS_ANYWHERE) = false :=
    nonNull_mzs _ (WF.optimize_wf env fl c hwc) hnn
  have hopt : optimize env fl (.rep id c mn mx g) = .rep id (optimize env fl c) mn mx g := by
    simp only [optimize, hm, Bool.and_false, Bool.false_eq_true, if_false]
  refine ⟨hopt, ?_, ?_, ?_, ?_, ?_⟩
  · rw [hopt]; simp only [mzs]; rw [ih.mzs_eq]
  · rw [hopt]; simp only [initialClass]; rw [ih.ic_eq]
  · rw [hopt]
    simp only [cleanOp4F, Bool.and_eq_true]
    exact ⟨⟨⟨hg, ih.clean⟩, hnn⟩, hdet⟩
  · rw [hopt]; simp only [isUnamb]
  · intro id' c' a b g' heq
    rw [hopt] at heq
    simp only [Op.rep.injEq] at heq
    obtain ⟨_, rfl, _⟩ := heq
    cases hx : isAtomOrClass (optimize env fl c) with
    | false => rfl
    | true =>
      have := isAtomOrClass_optimize env fl c hwc h2 hx
      rw [hna] at this
      cases this

mutual
theorem optOK4 (env : Env) (fl : CFlags) : (op : Op) → src4 env fl op = true → wfOp op = true →
    seqGe2 op = true → noEnd op = true → OptOK4 env fl op
  | .bol, _, _, _, _ => .of_id (by simp only [optimize]) rfl rfl (fun _ _ _ _ _ h => by cases h)
  | .eol, _, _, _, _ => .of_id (by simp only [optimize]) rfl rfl (fun _ _ _ _ _ h => by cases h)
  | .nothing, _, _, _, _ => .of_id (by simp only [optimize]) rfl rfl (fun _ _ _ _ _ h => by cases h)
  | .atom _, _, _, _, _ => .of_id (by simp only [optimize]) rfl rfl (fun _ _ _ _ _ h => by cases h)
  | .cls _, _, _, _, _ => .of_id (by simp only [optimize]) rfl rfl (fun _ _ _ _ _ h => by cases h)
  | .endProgram, _, _, _, he => by simp [noEnd] at he
  | .backref _, hc, _, _, _ => by simp [src4] at hc
  | .unamb _ _ _, hc, _, _, _ => by simp [src4] at hc
  | .rep id c mn mx g, hc, hwf, h2, he => (optOK4_rep env fl id c mn mx g hc hwf h2 he).2
  | .capture g c, hc, hwf, h2, he => by
    simp only [src4] at hc
    simp only [wfOp] at hwf
    simp only [seqGe2] at h2
    simp only [noEnd] at he
    have ih := optOK4 env fl c hc hwf h2 he
    exact ⟨by simp only [optimize, mzs]; exact ih.mzs_eq, by simp only [optimize, initialClass],
      by simp only [optimize, cleanOp4F]; exact ih.clean, by simp only [optimize, isUnamb],
      fun _ _ _ _ _ h => by simp only [optimize] at h; cases h⟩
  | .choice bs, hc, hwf, h2, he => by
    simp only [src4] at hc
    simp only [wfOp, Bool.and_eq_true] at hwf
    simp only [seqGe2] at h2
    simp only [noEnd] at he
    obtain ⟨i1, i2, i3⟩ := optOK4_choice env fl bs hc hwf.2 h2 he
    exact ⟨by simp only [optimize, mzs]; exact i1, by simp only [optimize, initialClass]; exact i2,
      by simp only [optimize, cleanOp4F]; exact i3, by simp only [optimize, isUnamb],
      fun _ _ _ _ _ h => by simp only [optimize] at h; cases h⟩
  | .seq ops, hc, hwf, h2, he => by
    simp only [src4] at hc
    simp only [wfOp, Bool.and_eq_true] at hwf
    simp only [seqGe2, Bool.and_eq_true, decide_eq_true_eq] at h2
    simp only [noEnd] at he
    have ih := optOK4_seq env fl ops hc hwf.2 h2.2 (endLast_of_noEndL ops he) false (fun _ => he)
    obtain ⟨o, o2, os, rfl⟩ : ∃ o o2 os, ops = o :: o2 :: os := by
      cases ops with
      | nil => simp at h2
      | cons o t =>
        cases t with
        | nil => simp at h2
        | cons o2 os => exact ⟨o, o2, os, rfl⟩
    exact ⟨by simp only [optimize, mzs]; rw [ih.mzs_eq], by simp only [optimize, initialClass]; exact ih.ic_eq,
      by simp only [optimize, cleanOp4F]; exact ih.clean, by simp only [optimize, isUnamb],
      fun _ _ _ _ _ h => by simp only [optimize] at h; cases h⟩
  | .gfixed c mn mx len, hc, hwf, h2, he => by
    simp only [src4] at hc
    have hopt := Clean2End.optimize_gfixed_wf env fl c mn mx len hwf
    simp only [wfOp, Bool.and_eq_true] at hwf
    have hwc : wfOp c = true := hwf.1.1.1.1.1
    simp only [seqGe2] at h2
    simp only [noEnd] at he
    have ih := optOK4 env fl c hc hwc h2 he
    exact ⟨by rw [hopt]; simp only [mzs]; rw [ih.mzs_eq], by rw [hopt]; simp only [initialClass],
      by rw [hopt]; simp only [cleanOp4F]; exact ih.clean, by rw [hopt]; simp only [isUnamb],
      fun _ _ _ _ _ h => by rw [hopt] at h; cases h⟩
  | .rfixed c mn mx len, hc, hwf, h2, he => by
    simp only [src4] at hc
    have hwc : wfOp c = true := by simp only [wfOp, Bool.and_eq_true] at hwf; exact hwf.1.1.1.1.1
    simp only [seqGe2] at h2
    simp only [noEnd] at he
    have ih := optOK4 env fl c hc hwc h2 he
    exact ⟨by simp only [optimize, mzs]; rw [ih.mzs_eq], by simp only [optimize, initialClass],
      by simp only [optimize, cleanOp4F]; exact ih.clean, by simp only [optimize, isUnamb],
      fun _ _ _ _ _ h => by simp only [optimize] at h; cases h⟩
termination_by structural op => op
theorem optOK4_choice (env : Env) (fl : CFlags) : (bs : List Op) → src4L env fl bs = true → wfOps bs = true →
    seqGe2L bs = true → noEndL bs = true →
    mzsChoice (optimizeL env fl bs) = mzsChoice bs ∧
    initialClassChoice env fl.caseBlind (optimizeL env fl bs) = initialClassChoice env fl.caseBlind bs ∧
    cleanAll4 env fl.caseBlind fl.multiLine (optimizeL env fl bs) = true
  | [], _, _, _, _ => ⟨by simp only [optimizeL], by simp only [optimizeL], by simp only [optimizeL, cleanAll4]⟩
  | b :: bs, hc, hwf, h2, he => by
    simp only [src4L, Bool.and_eq_true] at hc
    simp only [wfOps, Bool.and_eq_true] at hwf
    simp only [seqGe2L, Bool.and_eq_true] at h2
    simp only [noEndL, Bool.and_eq_true] at he
    have i := optOK4 env fl b hc.1 hwf.1 h2.1 he.1
    obtain ⟨j1, j2, j3⟩ := optOK4_choice env fl bs hc.2 hwf.2 h2.2 he.2
    exact ⟨by simp only [optimizeL, mzsChoice]; rw [i.mzs_eq, j1],
      by simp only [optimizeL, initialClassChoice]; rw [i.ic_eq, j2],
      by simp only [optimizeL, cleanAll4, i.clean, j3, Bool.and_self]⟩
termination_by structural bs => bs
theorem optOK4_seq (env : Env) (fl : CFlags) : (l : List Op) → src4L env fl l = true → wfOps l = true →
    seqGe2L l = true → endLast l = true → ∀ top, (top = false → noEndL l = true) → SeqOK4 env fl top l
  | [], _, _, _, _, top, _ =>
    ⟨by simp only [optimizeSeq], by simp only [optimizeSeq], by simp only [optimizeSeq, cleanSeq4],
      fun o os h => by cases h⟩
  | [o], hc, hwf, h2, he, top, hno => by
    simp only [src4L, Bool.and_eq_true] at hc
    simp only [wfOps, Bool.and_eq_true] at hwf
    simp only [seqGe2L, Bool.and_eq_true] at h2
    simp only [endLast, List.isEmpty_nil, if_true, Bool.or_eq_true] at he
    have key : mzs (optimize env fl o) = mzs o ∧
        initialClass env fl.caseBlind (optimize env fl o) = initialClass env fl.caseBlind o ∧
        cleanOp4F env fl.caseBlind fl.multiLine top [] (optimize env fl o) = true ∧
        (isEol o = true → isEol (optimize env fl o) = true) ∧
        (isEnd o = true → isEnd (optimize env fl o) = true) := by
      rcases he with he | he
      · have : o = .endProgram := by cases o <;> first | rfl | (simp [isEnd] at he)
        subst this
        exact ⟨by simp only [optimize], by simp only [optimize], by simp only [optimize, cleanOp4F],
          by simp [isEol], by simp [optimize, isEnd]⟩
      · have i := optOK4 env fl o hc.1 hwf.1 h2.1 he
        refine ⟨i.mzs_eq, i.ic_eq, ?_, ?_, ?_⟩
        · rw [cleanOp4F_irrel _ _ _ top [] _ (by rw [i.notUnamb]; simp)]; exact i.clean
        · intro h; have : o = .eol := by cases o <;> first | rfl | (simp [isEol] at h)
          subst this; simp [optimize, isEol]
        · intro h; have : o = .endProgram := by cases o <;> first | rfl | (simp [isEnd] at h)
          subst this; simp [noEnd] at he
    obtain ⟨k1, k2, k3, k4, k5⟩ := key
    exact ⟨by simp only [optimizeSeq, mzsL]; rw [k1],
      by simp only [optimizeSeq, initialClassSeq]; rw [k1, k2],
      by simp only [optimizeSeq, cleanSeq4, k3, Bool.and_self],
      fun o' os h => by
        simp only [List.cons.injEq] at h
        obtain ⟨rfl, rfl⟩ := h
        exact ⟨_, [], by simp only [optimizeSeq], k2, k4, fun h _ => ⟨k5 h, rfl⟩⟩⟩
  | o :: nxt :: os, hc, hwf, h2, he, top, hno => by
    simp only [src4L, Bool.and_eq_true] at hc
    simp only [wfOps, Bool.and_eq_true] at hwf
    simp only [seqGe2L, Bool.and_eq_true] at h2
    have he1 : noEnd o = true ∧ endLast (nxt :: os) = true := by
      simpa [endLast] using he
    have hcr : src4L env fl (nxt :: os) = true := by simp only [src4L, Bool.and_eq_true]; exact hc.2
    have hwr : wfOps (nxt :: os) = true := by simp only [wfOps, Bool.and_eq_true]; exact hwf.2
    have h2r : seqGe2L (nxt :: os) = true := by simp only [seqGe2L, Bool.and_eq_true]; exact h2.2
    have hnor : top = false → noEndL (nxt :: os) = true := by
      intro ht
      have := hno ht
      simp only [noEndL, Bool.and_eq_true] at this ⊢
      exact this.2
    have i := optOK4 env fl o hc.1 hwf.1 h2.1 he1.1
    have ih := optOK4_seq env fl (nxt :: os) hcr hwr h2r he1.2 top hnor
    obtain ⟨h, t, hht, hic, heol, hend⟩ := ih.head nxt os rfl
    obtain ⟨s1, s2, s3, s4⟩ := seqElem_same4 env fl (optimize env fl o) nxt i.notUnamb i.repBody
    rw [i.mzs_eq] at s1
    rw [i.ic_eq] at s2
    have hclean : cleanOp4F env fl.caseBlind fl.multiLine top (optimizeSeq env fl (nxt :: os))
        (seqElem env fl (optimize env fl o) nxt) = true := by
      rcases seqElem_cases' env fl (optimize env fl o) nxt with hs | ⟨child, mn, mx, g, _, hac, hj, hs⟩
      · rw [hs, cleanOp4F_irrel _ _ _ top _ _ (by rw [i.notUnamb]; simp)]; exact i.clean
      · rw [hs]
        simp only [cleanOp4F, Bool.and_eq_true, Bool.or_eq_true, beq_iff_eq]
        refine ⟨hac, ?_⟩
        rcases hj with hj | hj
        · exact .inl hj
        · right
          rw [hht]
          refine just_of_noAmbiguity env _ _ top child nxt h t _ hj hic heol ?_
          intro hen
          have hnx : nxt = .endProgram := by cases nxt <;> first | rfl | (simp [isEnd] at hen)
          have hos : os = [] := by
            cases os with
            | nil => rfl
            | cons y r =>
              have := he1.2
              rw [hnx] at this
              simp [endLast, noEnd] at this
          have ht : top = true := by
            cases top with
            | true => rfl
            | false =>
              have := hnor rfl
              rw [hnx] at this
              simp [noEndL, noEnd] at this
          obtain ⟨a, b⟩ := hend hen hos
          exact ⟨a, b, ht⟩
    refine ⟨?_, ?_, ?_, ?_⟩
    · rw [optimizeSeq_cons2]; simp only [mzsL]; rw [s1, ih.mzs_eq]; rfl
    · have e : ∀ a l, initialClassSeq env fl.caseBlind (a :: l) =
          (if mzs a == ZLS_NEVER then initialClass env fl.caseBlind a
           else unionR (initialClass env fl.caseBlind a) (initialClassSeq env fl.caseBlind l)) := by
        intro a l; simp only [initialClassSeq]
      rw [optimizeSeq_cons2, e, e o, s1, s2, ih.ic_eq]
    · rw [optimizeSeq_cons2]; simp only [cleanSeq4, Bool.and_eq_true]; exact ⟨hclean, ih.clean⟩
    · intro o' os' heq
      simp only [List.cons.injEq] at heq
      obtain ⟨rfl, rfl⟩ := heq
      refine ⟨_, _, optimizeSeq_cons2 env fl o nxt os, s2, ?_, ?_⟩
      · intro h'; have : o = .eol := by cases o <;> first | rfl | (simp [isEol] at h')
        subst this
        exact s3 (by simp [optimize, isEol])
      · intro _ h'; cases h'
termination_by structural l => l
end

/-! ### the un-optimised tree itself is in the fragment -/

mutual
theorem src4_clean (env : Env) (fl : CFlags) : (op : Op) → src4 env fl op = true → ∀ top F,
    cleanOp4F env fl.caseBlind fl.multiLine top F op = true
  | .bol, _, _, _ | .eol, _, _, _ | .nothing, _, _, _ | .endProgram, _, _, _ | .atom _, _, _, _
  | .cls _, _, _, _ => by simp only [cleanOp4F]
  | .backref _, h, _, _ => by simp [src4] at h
  | .unamb _ _ _, h, _, _ => by simp [src4] at h
  | .capture g c, h, _, _ => by
    simp only [src4] at h; simp only [cleanOp4F]; exact src4_clean env fl c h false []
  | .choice bs, h, _, _ => by
    simp only [src4] at h; simp only [cleanOp4F]; exact src4_cleanAll env fl bs h
  | .seq ops, h, _, _ => by
    simp only [src4] at h; simp only [cleanOp4F]; exact src4_cleanSeq env fl ops h false
  | .gfixed c _ _ _, h, _, _ => by
    simp only [src4] at h; simp only [cleanOp4F]; exact src4_clean env fl c h false []
  | .rfixed c _ _ _, h, _, _ => by
    simp only [src4] at h; simp only [cleanOp4F]; exact src4_clean env fl c h false []
  | .rep id c mn mx g, h, _, _ => by
    simp only [src4, Bool.and_eq_true, Bool.not_eq_true'] at h
    obtain ⟨⟨⟨⟨⟨⟨hg, hc⟩, _⟩, hn⟩, hd⟩, _⟩, _⟩ := h
    simp only [cleanOp4F, Bool.and_eq_true]
    exact ⟨⟨⟨hg, Clean2.cleanOp2_of_cleanOp env _ _ c hc⟩, hn⟩, hd⟩
termination_by structural op => op
theorem src4_cleanAll (env : Env) (fl : CFlags) : (bs : List Op) → src4L env fl bs = true →
    cleanAll4 env fl.caseBlind fl.multiLine bs = true
  | [], _ => by simp only [cleanAll4]
  | b :: bs, h => by
    simp only [src4L, Bool.and_eq_true] at h
    simp only [cleanAll4, Bool.and_eq_true]
    exact ⟨src4_clean env fl b h.1 false [], src4_cleanAll env fl bs h.2⟩
termination_by structural bs => bs
theorem src4_cleanSeq (env : Env) (fl : CFlags) : (l : List Op) → src4L env fl l = true → ∀ top,
    cleanSeq4 env fl.caseBlind fl.multiLine top l = true
  | [], _, _ => by simp only [cleanSeq4]
  | o :: os, h, top => by
    simp only [src4L, Bool.and_eq_true] at h
    simp only [cleanSeq4, Bool.and_eq_true]
    exact ⟨src4_clean env fl o h.1 top os, src4_cleanSeq env fl os h.2 top⟩
termination_by structural l => l
end

end Rx.Clean4OptL
