/-
  Proofs/PathCaps2Lemmas — the engine against the path semantics with environments on the fragment
  `altCaps` (captures inside alternatives).  Used by Props/C03e.
-/
import RxModel.Spec.PathCaps2
import RxModel.Proofs.PathCapsLemmas
import RxModel.Proofs.C03cLemmas
namespace Rx

/-! ### tidy pairs -/

theorem TPair.toSome {s e : Option Nat} (h : TPair s e none) (p : Nat) : TPair s e (some p) := by
  simp only [TPair] at h ⊢
  rcases h with h | h
  · exact .inl h
  · exact .inr (.inl h)

theorem TPair.anti {s e : Option Nat} {p p' : Nat} (h : TPair s e (some p)) (hp : p' ≤ p) : TPair s e (some p') := by
  simp only [TPair] at h ⊢
  rcases h with h | h | ⟨a, h1, h2⟩
  · exact .inl h
  · exact .inr (.inl h)
  · exact .inr (.inr ⟨a, h1, by omega⟩)

/-- a level is at least as strong as another -/
def LvlLe : Option Nat → Option Nat → Prop
  | _, none => True
  | some p', some p => p' ≤ p
  | none, some _ => False

theorem TPair.weaken {s e : Option Nat} {l l' : Option Nat} (h : TPair s e l) (hl : LvlLe l' l) : TPair s e l' := by
  cases l with
  | none =>
    cases l' with
    | none => exact h
    | some p' => exact h.toSome p'
  | some p =>
    cases l' with
    | none => exact absurd hl (by simp [LvlLe])
    | some p' => exact h.anti hl

/-- clearing at or before the level empties whatever was not yet tidy -/
theorem TPair.clear_all {s e : Option Nat} {l : Option Nat} (h : TPair s e l) (x : Nat)
    (hx : ∀ p, l = some p → x ≤ p) : TPair s (if optGe s x = true then s else e) none := by
  cases l with
  | none =>
    simp only [TPair] at h ⊢
    rcases h with h | h
    · exact .inl h
    · right; split <;> simp [h]
  | some p =>
    simp only [TPair] at h ⊢
    rcases h with h | h | ⟨a, h1, h2⟩
    · exact .inl h
    · right; split <;> simp [h]
    · right
      have := hx p rfl
      have : optGe s x = true := by rw [h1]; simp [optGe]; omega
      rw [if_pos this]

/-- a clearing step never makes a pair less tidy -/
theorem TPair.clear_keep {s e : Option Nat} {l : Option Nat} (h : TPair s e l) (x : Nat) :
    TPair s (if optGe s x = true then s else e) l := by
  cases l with
  | none =>
    simp only [TPair] at h ⊢
    rcases h with h | h
    · exact .inl h
    · right; split <;> simp [h]
  | some p =>
    simp only [TPair] at h ⊢
    rcases h with h | h | h
    · exact .inl h
    · right; left; split <;> simp [h]
    · exact .inr (.inr h)

/-! ### the state writes of the engine against `ReprT` -/

namespace ReprT
variable {ctx : Ctx} {opn : List (Nat × Nat)} {fut : List Nat} {lvl : Option Nat} {st : St} {e : CEnv}

theorem weaken {lvl' : Option Nat} (h : ReprT ctx opn fut lvl st e) (hl : LvlLe lvl' lvl) :
    ReprT ctx opn fut lvl' st e :=
  ⟨h.agree, h.lens, h.np, h.pc, h.pc0, fun k h1 h2 h3 h4 => (h.tidy k h1 h2 h3 h4).weaken hl, h.tidyO⟩

theorem toSome (h : ReprT ctx opn fut none st e) (p : Nat) : ReprT ctx opn fut (some p) st e :=
  h.weaken (by simp [LvlLe])

theorem anti {p p' : Nat} (h : ReprT ctx opn fut (some p) st e) (hp : p' ≤ p) : ReprT ctx opn fut (some p') st e :=
  h.weaken (by simpa [LvlLe] using hp)

theorem congrFut {fut' : List Nat} (h : ReprT ctx opn fut lvl st e) (hf : ∀ k, k ∈ fut ↔ k ∈ fut') :
    ReprT ctx opn fut' lvl st e :=
  ⟨fun k h1 h2 => h.agree k h1 (h2.imp (fun hn hm => hn ((hf k).1 hm)) id), h.lens, h.np, h.pc, h.pc0,
   fun k h1 h2 h3 h4 => h.tidy k h1 ((hf k).2 h2) h3 h4, h.tidyO⟩

theorem clear {lo x : Nat} (h : ReprT ctx opn fut lvl st e) (he : EnvIn e lo x)
    (hx : ∀ p, lvl = some p → x ≤ p) : ReprT ctx opn fut none (clearBeyond st x) e := by
  refine ⟨fun k hk hc => ?_, fun hb => ?_, h.np, h.pc, h.pc0, fun k h1 h2 h3 h4 => ?_, fun k pg h1 h2 => ?_⟩
  · obtain ⟨a1, a2, a3⟩ := h.agree k hk hc
    have hv : ∀ a b, e k = some (a, b) → a ≤ b ∧ b ≤ x := fun a b hab => (he k a b hab).2
    refine ⟨a1, ?_, fun hb => ⟨(a3 hb).1, ?_⟩⟩
    · show getO (clearArr st.cap.startn st.cap.endn x) k = _
      rw [getO_clearArr]
      exact clear_val x (e k) hv _ _ a1 a2
    · show getO (clearArr st.startBr st.endBr x) k = _
      rw [getO_clearArr]
      exact clear_val x (e k) hv _ _ (a3 hb).1 (a3 hb).2
  · have := h.lens hb
    exact ⟨this.1, Nat.le_trans this.2 (length_clearArr_ge _ _ _)⟩
  · show TPair (getO st.cap.startn k) (getO (clearArr st.cap.startn st.cap.endn x) k) none
    rw [getO_clearArr]
    exact (h.tidy k h1 h2 h3 h4).clear_all x hx
  · show TPair (getO st.cap.startn k) (getO (clearArr st.cap.startn st.cap.endn x) k) (some pg)
    rw [getO_clearArr]
    exact (h.tidyO k pg h1 h2).clear_keep x

theorem setDiv (h : ReprT ctx opn fut lvl st e) : ReprT ctx opn fut lvl (st.setPanic panicDiverge) e := by
  have hnp : NoRealPanic (st.setPanic panicDiverge) := NoRealPanic.setDiv h.np
  revert hnp
  unfold St.setPanic
  split
  · exact fun _ => h
  · exact fun hnp => ⟨h.agree, h.lens, hnp, h.pc, h.pc0, h.tidy, h.tidyO⟩

theorem restore {st' : St} (h : ReprT ctx opn fut lvl st e) (h' : ReprT ctx opn fut lvl st' e) :
    ReprT ctx opn fut lvl { st' with cap := st.cap } e :=
  ⟨fun k hk hc => ⟨(h.agree k hk hc).1, (h.agree k hk hc).2.1, (h'.agree k hk hc).2.2⟩, h'.lens, h'.np,
   h.pc, h.pc0, h.tidy, h.tidyO⟩

theorem setEnd0 (h : ReprT ctx opn fut lvl st e) (p : Nat) :
    ReprT ctx opn fut lvl { st with cap := st.cap.setEnd 0 p } e := by
  have he : ∀ k, 1 ≤ k → getO (st.cap.setEnd 0 p).endn k = getO st.cap.endn k := by
    intro k hk
    show getO (setAt st.cap.endn 0 (some p)) k = _
    rw [getO_setAt, if_neg (by omega)]
  refine ⟨fun k hk hc => ?_, h.lens, h.np, h.pc, h.pc0, fun k h1 h2 h3 h4 => ?_, fun k pg h1 h2 => ?_⟩
  · exact (h.agree k hk hc).congr rfl (he k hk) rfl rfl
  · show TPair (getO st.cap.startn k) (getO (st.cap.setEnd 0 p).endn k) lvl
    rw [he k h1]; exact h.tidy k h1 h2 h3 h4
  · show TPair (getO st.cap.startn k) (getO (st.cap.setEnd 0 p).endn k) (some pg)
    rw [he k h1]; exact h.tidyO k pg h1 h2

/-- the write `captureGen` does before it runs the body only touches the back-reference start of the
    group itself, which is unbound and in `fut` -/
theorem capturePre (h : ReprT ctx opn fut lvl st e) (g p : Nat) (hg : g ∈ fut) (hge : e g = none)
    (hgm : g < ctx.maxParens) :
    ReprT ctx opn fut lvl (if ctx.hasBackrefs then
      (if g ≥ st.startBr.length then st.setPanic panicCaptureIndex
       else { st with startBr := setIn st.startBr g (some p) }) else st) e := by
  split
  · split
    · rename_i hb hge'
      have := (h.lens hb).1
      omega
    · refine ⟨fun k hk hc => ?_, fun hb => ?_, h.np, h.pc, h.pc0, h.tidy, h.tidyO⟩
      · refine (h.agree k hk hc).congr rfl rfl ?_ rfl
        show getO (setIn st.startBr g (some p)) k = _
        rw [getO_setIn, if_neg]
        intro hc'
        rcases hc with hc | hc
        · exact hc (hc'.1 ▸ hg)
        · rw [hc'.1, hge] at hc; cases hc
      · have := h.lens hb
        exact ⟨by show _ ≤ (setIn st.startBr g (some p)).length; rw [length_setIn]; exact this.1, this.2⟩
  · exact h

/-- a group of `fut` that is unbound and not yet open becomes open at `p` -/
theorem openG (h : ReprT ctx opn fut none st e) (g p : Nat) (hg : g ∈ fut) (hge : e g = none)
    (hno : ∀ pg, (g, pg) ∉ opn) : ReprT ctx ((g, p) :: opn) fut none st e := by
  refine ⟨h.agree, h.lens, h.np, h.pc, h.pc0, fun k h1 h2 h3 h4 => ?_, fun k pg h1 h2 => ?_⟩
  · exact h.tidy k h1 h2 h3 (fun pg hm => h4 pg (List.mem_cons_of_mem _ hm))
  · rcases List.mem_cons.1 h2 with heq | h2
    · simp only [Prod.mk.injEq] at heq
      obtain ⟨rfl, rfl⟩ := heq
      exact (h.tidy k h1 hg hge hno).toSome _
    · exact h.tidyO k pg h1 h2

/-- at exhaustion of the body the group is an ordinary (stale) group of `fut` again -/
theorem closeG {g p : Nat} (h : ReprT ctx ((g, p) :: opn) fut (some p) st e) (hno : ∀ pg, (g, pg) ∉ opn) :
    ReprT ctx opn fut (some p) st e := by
  refine ⟨h.agree, h.lens, h.np, h.pc, h.pc0, fun k h1 h2 h3 h4 => ?_, fun k pg h1 h2 => ?_⟩
  · by_cases hkg : k = g
    · subst hkg
      exact h.tidyO k p h1 List.mem_cons_self
    · exact h.tidy k h1 h2 h3 (fun pg hm => by
        rcases List.mem_cons.1 hm with heq | hm
        · simp only [Prod.mk.injEq] at heq; exact hkg heq.1
        · exact h4 pg hm)
  · exact h.tidyO k pg h1 (List.mem_cons_of_mem _ h2)

theorem captureWrite_cap (ctx : Ctx) (g p n : Nat) (st : St) (k : Nat) :
    getO (Rx.captureWrite ctx g p n st).cap.startn k = (if k = g then some p else getO st.cap.startn k) ∧
    getO (Rx.captureWrite ctx g p n st).cap.endn k = (if k = g then some n else getO st.cap.endn k) := by
  have hcap : ∀ c : Cap,
      getO ((c.setStart g p).setEnd g n).startn k = (if k = g then some p else getO c.startn k) ∧
      getO ((c.setStart g p).setEnd g n).endn k = (if k = g then some n else getO c.endn k) := by
    intro c
    simp only [Cap.setStart, Cap.setEnd]
    exact ⟨getO_setAt _ _ _ _, getO_setAt _ _ _ _⟩
  unfold Rx.captureWrite
  simp only
  split <;> (split <;> exact hcap _)

theorem captureWrite_br (ctx : Ctx) (g p n : Nat) (st : St) (hb : ctx.hasBackrefs = true) (k : Nat) :
    getO (Rx.captureWrite ctx g p n st).startBr k = (if k = g ∧ g < st.startBr.length then some p else getO st.startBr k) ∧
    getO (Rx.captureWrite ctx g p n st).endBr k = (if k = g ∧ g < st.endBr.length then some n else getO st.endBr k) := by
  unfold Rx.captureWrite
  simp only [hb, if_true]
  exact ⟨getO_setIn _ _ _ _, getO_setIn _ _ _ _⟩

theorem captureWrite_panic (ctx : Ctx) (g p n : Nat) (st : St) : (Rx.captureWrite ctx g p n st).panic = st.panic := by
  unfold Rx.captureWrite
  simp only
  split <;> rfl

/-- the write at a yield of a capturing group: the group is bound, and no longer open -/
theorem captureWrite {e1 : CEnv} (g p n : Nat) (hg1 : g < ctx.maxParens) (hge : e1 g = none)
    (hno : ∀ pg, (g, pg) ∉ opn)
    (h : ReprT ctx ((g, p) :: opn) fut lvl st e1) :
    ReprT ctx opn fut lvl (Rx.captureWrite ctx g p n st) (e1.set g p n) := by
  refine ⟨fun k hk hc => ?_, fun hb => ?_, by rw [captureWrite_panic]; exact h.np, fun k hk hs => ?_, ?_,
    fun k h1 h2 h3 h4 => ?_, fun k pg h1 h2 => ?_⟩
  · by_cases hkg : k = g
    · subst hkg
      rw [CEnv.set_same]
      refine ⟨?_, ?_, fun hb => ?_⟩
      · rw [(captureWrite_cap ctx k p n st k).1, if_pos rfl]; rfl
      · rw [(captureWrite_cap ctx k p n st k).2, if_pos rfl]; rfl
      · have hl := h.lens hb
        rw [(captureWrite_br ctx k p n st hb k).1, (captureWrite_br ctx k p n st hb k).2,
          if_pos ⟨rfl, by omega⟩, if_pos ⟨rfl, by omega⟩]
        exact ⟨rfl, rfl⟩
    · rw [CEnv.set_other _ _ _ _ _ hkg] at hc ⊢
      have ha := h.agree k hk hc
      refine ⟨?_, ?_, fun hb => ?_⟩
      · rw [(captureWrite_cap ctx g p n st k).1, if_neg hkg]; exact ha.1
      · rw [(captureWrite_cap ctx g p n st k).2, if_neg hkg]; exact ha.2.1
      · rw [(captureWrite_br ctx g p n st hb k).1, (captureWrite_br ctx g p n st hb k).2,
          if_neg (fun hc' => hkg hc'.1), if_neg (fun hc' => hkg hc'.1)]
        exact ha.2.2 hb
  · have hl := h.lens hb
    unfold Rx.captureWrite
    simp only [hb, if_true]
    exact ⟨by show _ ≤ (setIn st.startBr g (some p)).length; rw [length_setIn]; exact hl.1,
           by show _ ≤ (setIn st.endBr g (some n)).length; rw [length_setIn]; exact hl.2⟩
  · rw [ReprP.captureWrite_pc]
    by_cases hkg : k = g
    · subst hkg; split <;> omega
    · rw [CEnv.set_other _ _ _ _ _ hkg] at hs
      have := h.pc k hk hs
      split <;> omega
  · rw [ReprP.captureWrite_pc]
    have := h.pc0
    split <;> omega
  · have hkg : k ≠ g := by
      intro hc; subst hc; rw [CEnv.set_same] at h3; cases h3
    rw [CEnv.set_other _ _ _ _ _ hkg] at h3
    rw [(captureWrite_cap ctx g p n st k).1, (captureWrite_cap ctx g p n st k).2, if_neg hkg, if_neg hkg]
    exact h.tidy k h1 h2 h3 (fun pg hm => by
      rcases List.mem_cons.1 hm with heq | hm
      · simp only [Prod.mk.injEq] at heq; exact hkg heq.1
      · exact h4 pg hm)
  · have hkg : k ≠ g := fun hc => hno pg (hc ▸ h2)
    rw [(captureWrite_cap ctx g p n st k).1, (captureWrite_cap ctx g p n st k).2, if_neg hkg, if_neg hkg]
    exact h.tidyO k pg h1 (List.mem_cons_of_mem _ h2)

/-- at a resumption the group is open again -/
theorem unset {e1 : CEnv} {g p n : Nat} (hge : e1 g = none) (hg1 : 1 ≤ g) (hgf : g ∈ fut)
    (h : ReprT ctx opn fut lvl st (e1.set g p n)) : ReprT ctx ((g, p) :: opn) fut lvl st e1 := by
  have hag := h.agree g hg1 (.inr (by rw [CEnv.set_same]; rfl))
  rw [CEnv.set_same] at hag
  refine ⟨fun k hk hc => ?_, h.lens, h.np, fun k hk hs => ?_, h.pc0, fun k h1 h2 h3 h4 => ?_, fun k pg h1 h2 => ?_⟩
  · have hkg : k ≠ g := by
      intro hc'; subst hc'
      rcases hc with hc | hc
      · exact hc hgf
      · rw [hge] at hc; cases hc
    have := h.agree k hk (by rw [CEnv.set_other _ _ _ _ _ hkg]; exact hc)
    rw [CEnv.set_other _ _ _ _ _ hkg] at this
    exact this
  · have hkg : k ≠ g := by intro hc'; subst hc'; rw [hge] at hs; cases hs
    exact h.pc k hk (by rw [CEnv.set_other _ _ _ _ _ hkg]; exact hs)
  · have hkg : k ≠ g := fun hc' => h4 p (by rw [hc']; exact List.mem_cons_self)
    exact h.tidy k h1 h2 (by rw [CEnv.set_other _ _ _ _ _ hkg]; exact h3)
      (fun pg hm => h4 pg (List.mem_cons_of_mem _ hm))
  · rcases List.mem_cons.1 h2 with heq | h2
    · simp only [Prod.mk.injEq] at heq
      obtain ⟨rfl, rfl⟩ := heq
      rw [hag.1, hag.2.1]
      simp only [Option.map_some, TPair]
      exact .inr (.inr ⟨pg, rfl, Nat.le_refl _⟩)
    · exact h.tidyO k pg h1 h2

end ReprT

/-! ### the calculus of exact lists with position-aware relations -/

namespace Step.SeqT
variable {Y Y1 Y' R R1 R' : Nat → St → CEnv → Prop} {N N1 N' : St → Prop}

theorem monoN {s : Step} {l : List (Nat × CEnv)} (h : Step.SeqT Y R N s l) (hN : ∀ st, N st → N' st) :
    Step.SeqT Y R N' s l := by
  induction h with
  | nil st h => exact .nil st (hN st h)
  | cons n st r e' l hr _ ih => exact .cons n st r e' l hr ih

theorem monoY {s : Step} {l : List (Nat × CEnv)} (h : Step.SeqT Y R N s l)
    (hY : ∀ n st e, Y n st e → Y' n st e) : Step.SeqT Y' R N s l := by
  induction h with
  | nil st h => exact .nil st h
  | cons n st r e' l hr _ ih => exact .cons n st r e' l (hY _ _ _ hr) ih

theorem append {s : Step} {f : St → Step} {l1 l2 : List (Nat × CEnv)}
    (hs : Step.SeqT Y R N1 s l1) (hf : ∀ st, N1 st → Step.SeqT Y R N (f st) l2) :
    Step.SeqT Y R N (s.append f) (l1 ++ l2) := by
  induction hs with
  | nil st h => exact hf st h
  | cons n st r e' l hr _ ih => exact .cons n st _ e' _ hr ih

theorem bind {s : Step} {f : Nat → St → Step} {l : List (Nat × CEnv)} {g : Nat × CEnv → List (Nat × CEnv)}
    (hs : Step.SeqT Y1 R1 N1 s l)
    (hf : ∀ x, x ∈ l → ∀ st, Y1 x.1 st x.2 → Step.SeqT Y R (fun st' => R1 x.1 st' x.2) (f x.1 st) (g x)) :
    Step.SeqT Y R N1 (s.bind f) (l.flatMap g) := by
  induction hs with
  | nil st h => exact .nil st h
  | cons n st r e' l hr _ ih =>
    rw [List.flatMap_cons]
    exact append (hf (n, e') List.mem_cons_self st hr)
      (fun st' h' => ih st' h' (fun x hx => hf x (List.mem_cons_of_mem _ hx)))

theorem mapSt {s : Step} {f : Nat → St → St} {l : List (Nat × CEnv)} (φ : Nat × CEnv → CEnv)
    (hs : Step.SeqT Y R N s l)
    (h1 : ∀ x, x ∈ l → ∀ st, Y x.1 st x.2 → Y' x.1 (f x.1 st) (φ x))
    (h2 : ∀ x, x ∈ l → ∀ st', R' x.1 st' (φ x) → R x.1 st' x.2) :
    Step.SeqT Y' R' N (s.mapSt f) (l.map (fun x => (x.1, φ x))) := by
  induction hs with
  | nil st h => exact .nil st h
  | cons n st r e' l hr _ ih =>
    rw [List.map_cons]
    refine .cons n _ _ (φ (n, e')) _ (h1 (n, e') List.mem_cons_self st hr) (fun st' h' => ?_)
    exact ih st' (h2 (n, e') List.mem_cons_self st' h')
      (fun x hx => h1 x (List.mem_cons_of_mem _ hx)) (fun x hx => h2 x (List.mem_cons_of_mem _ hx))

theorem mapSt_same {s : Step} {f : Nat → St → St} {l : List (Nat × CEnv)}
    (hs : Step.SeqT Y R N s l) (h1 : ∀ x, x ∈ l → ∀ st, Y x.1 st x.2 → Y' x.1 (f x.1 st) x.2) :
    Step.SeqT Y' R N (s.mapSt f) l := by
  have := mapSt (Y' := Y') (R' := R) (fun x => x.2) hs h1 (fun _ _ _ h => h)
  simpa using this

theorem onNil {s : Step} {f : St → St} {l : List (Nat × CEnv)} (hs : Step.SeqT Y R N s l)
    (hf : ∀ st, N st → N' (f st)) : Step.SeqT Y R N' (s.onNil f) l := by
  induction hs with
  | nil st h => exact .nil _ (hf st h)
  | cons n st r e' l hr _ ih => exact .cons n st _ e' _ hr ih

theorem once {n : Nat} {st : St} {e : CEnv} (h : Y n st e) (hn : ∀ st', R n st' e → N st') :
    Step.SeqT Y R N (Step.once n st) [(n, e)] :=
  .cons n st _ e [] h (fun st' h' => .nil st' (hn st' h'))

/-- an iterator with the exact position list `l` that keeps a position-indexed invariant about `e` -/
theorem of_ex_invAt (e : CEnv) {p0 : Nat} {s : Step} {l : List Nat} (hx : Step.Ex s l)
    (hi : s.InvAt (fun n st => Y n st e) (fun n st => R n st e) p0) :
    Step.SeqT Y R (fun st => R p0 st e) s (l.map (fun q => (q, e))) := by
  induction hx with
  | nil st => cases hi with | nil _ h => exact .nil st h
  | cons n st r l _ ih =>
    cases hi with
    | cons _ _ _ hy hr =>
      rw [List.map_cons]
      exact .cons n st r e _ hy (fun st' h' => ih st' trivial (hr st' h'))

/-- soundness-style reading -/
theorem caps {s : Step} {l : List (Nat × CEnv)} {Q : Nat → CEnv → Prop} (hs : Step.SeqT Y R N s l)
    (hq : ∀ x, x ∈ l → Q x.1 x.2) : ∀ {R0 : St → CEnv → Prop},
    (∀ n st e, Y n st e → R0 st e) → (∀ n st e, Q n e → R0 st e → R n st e) → Step.Caps R0 Q N s := by
  intro R0 h1 h2
  induction hs with
  | nil st h => exact .nil st h
  | cons n st r e' l hr _ ih =>
    have hqn := hq (n, e') List.mem_cons_self
    exact .cons n st r e' hqn (h1 _ _ _ hr)
      (fun st' h' => ih st' (h2 n st' e' hqn h') (fun x hx => hq x (List.mem_cons_of_mem _ hx)))

end Step.SeqT

/-! ### the calculus of position-indexed invariants -/

namespace Step.InvAt
variable {Y Y' I : Nat → St → Prop} {p0 : Nat}

theorem monoY {s : Step} (h : s.InvAt Y I p0) (hY : ∀ n st, Y n st → Y' n st) : s.InvAt Y' I p0 := by
  induction h with
  | nil st h => exact .nil st h
  | cons n st r hy _ ih => exact .cons n st r (hY _ _ hy) ih
  | diverge => exact .diverge

theorem append {s : Step} {f : St → Step} {p1 : Nat}
    (hs : s.InvAt Y I p1) (hf : ∀ st, I p1 st → (f st).InvAt Y I p0) : (s.append f).InvAt Y I p0 := by
  induction hs with
  | nil st h => exact hf st h
  | cons n st r hy _ ih => exact .cons _ _ _ hy ih
  | diverge => exact .diverge

theorem bindP {P : Nat → Prop} {s : Step} {f : Nat → St → Step}
    (hs : s.InvAt Y' I p0) (hp : s.All P) (hf : ∀ n st, P n → Y' n st → (f n st).InvAt Y I n) :
    (s.bind f).InvAt Y I p0 := by
  induction hs with
  | nil st h => exact .nil _ h
  | cons n st r hy _ ih =>
    cases hp with
    | cons _ _ _ hn hr => exact (hf n st hn hy).append (fun st' h' => ih st' h' (hr st'))
  | diverge => exact .diverge

theorem mapStP {P : Nat → Prop} {s : Step} {f : Nat → St → St}
    (hs : s.InvAt Y I p0) (hp : s.All P) (hf : ∀ n st, P n → Y n st → Y' n (f n st)) :
    (s.mapSt f).InvAt Y' I p0 := by
  induction hs with
  | nil st h => exact .nil _ h
  | cons n st r hy _ ih =>
    cases hp with
    | cons _ _ _ hn hr => exact .cons _ _ _ (hf n st hn hy) (fun st' h' => ih st' h' (hr st'))
  | diverge => exact .diverge

theorem onNil {s : Step} {f : St → St} (hs : s.InvAt Y I p0) (hf : ∀ st, I p0 st → I p0 (f st)) :
    (s.onNil f).InvAt Y I p0 := by
  induction hs with
  | nil st h => exact .nil _ (hf st h)
  | cons n st r hy _ ih => exact .cons _ _ _ hy ih
  | diverge => exact .diverge

theorem once {n : Nat} {st : St} (h : Y n st) (hn : ∀ st', I n st' → I p0 st') : (Step.once n st).InvAt Y I p0 :=
  .cons _ _ _ h (fun st' h' => .nil _ (hn st' h'))

end Step.InvAt

/-! ### plain trees keep a position-indexed invariant

  `IA` ("all tidy") holds wherever an operation starts: every start is preceded by a clearing step at
  that very position.  `I n` is what holds at a yield at `n` and at the resumption after it: groups to
  the right of `n` may be transiently untidy. -/

structure WritesAt (p0 : Nat) (IA : St → Prop) (I : Nat → St → Prop) : Prop where
  weak : ∀ p st, IA st → I p st
  anti : ∀ p p' st, p' ≤ p → I p st → I p' st
  clearA : ∀ st x, p0 ≤ x → IA st → IA (clearBeyond st x)
  clearI : ∀ p st x, p0 ≤ x → x ≤ p → I p st → IA (clearBeyond st x)
  div : ∀ st, IA st → IA (st.setPanic panicDiverge)
  restoreA : ∀ st st', IA st → IA st' → IA { st' with cap := st.cap }
  restoreI : ∀ p st st', I p st → I p st' → I p { st' with cap := st.cap }
  setEnd0 : ∀ st p, IA st → IA { st with cap := st.cap.setEnd 0 p }

theorem WritesAt.writesFrom {p0 : Nat} {IA : St → Prop} {I : Nat → St → Prop} (W : WritesAt p0 IA I) :
    WritesFrom p0 IA where
  clear := fun st p hp h => W.clearA st p hp h
  div := W.div
  restore := W.restoreA
  setEnd0 := W.setEnd0

section at_
variable {p0 L : Nat} {IA : St → Prop} {I : Nat → St → Prop}

/-- started in an all-tidy state -/
def GenAt (p0 L : Nat) (IA : St → Prop) (I : Nat → St → Prop) (g : Gen) : Prop :=
  ∀ p st, PosFrom p0 L p → IA st → (g p st).InvAt I I p

/-- an alternation clears before its first branch, so `I p` is enough to start it -/
def ChoiceAt (p0 L : Nat) (I : Nat → St → Prop) (g : Gen) : Prop :=
  ∀ p st, PosFrom p0 L p → I p st → (g p st).InvAt I I p

theorem once_at (W : WritesAt p0 IA I) {p n : Nat} {st : St} (h : IA st) (hn : p ≤ n) :
    (Step.once n st).InvAt I I p :=
  Step.InvAt.once (W.weak n st h) (fun st' h' => W.anti n p st' hn h')

theorem atomGen_at (W : WritesAt p0 IA I) (ctx : Ctx) (cs : List Nat) : GenAt p0 L IA I (atomGen ctx cs) := by
  intro p st _ h
  unfold atomGen
  split
  · exact .nil _ (W.weak p st h)
  · split
    · exact once_at W h (Nat.le_add_right _ _)
    · exact .nil _ (W.weak p st h)

theorem clsGen_at (W : WritesAt p0 IA I) (ctx : Ctx) (rs : Ranges) : GenAt p0 L IA I (clsGen ctx rs) := by
  intro p st _ h
  unfold clsGen
  split
  · split
    · exact once_at W h (Nat.le_add_right _ _)
    · exact .nil _ (W.weak p st h)
  · exact .nil _ (W.weak p st h)

theorem bolGen_at (W : WritesAt p0 IA I) (ctx : Ctx) : GenAt p0 L IA I (bolGen ctx) := by
  intro p st _ h
  unfold bolGen
  split
  · split
    · exact once_at W h (Nat.le_refl _)
    · exact .nil _ (W.weak p st h)
  · exact once_at W h (Nat.le_refl _)

theorem eolGen_at (W : WritesAt p0 IA I) (ctx : Ctx) : GenAt p0 L IA I (eolGen ctx) := by
  intro p st _ h
  unfold eolGen
  split
  · split
    · exact once_at W h (Nat.le_refl _)
    · exact .nil _ (W.weak p st h)
  · split
    · exact once_at W h (Nat.le_refl _)
    · exact .nil _ (W.weak p st h)

theorem nothingGen_at (W : WritesAt p0 IA I) : GenAt p0 L IA I nothingGen := by
  intro p st _ h
  exact once_at W h (Nat.le_refl _)

theorem endGen_at (W : WritesAt p0 IA I) : GenAt p0 L IA I endGen := by
  intro p st _ h
  exact once_at W (W.setEnd0 st p h) (Nat.le_refl _)

theorem choiceGen_nil_at : ChoiceAt p0 L I (choiceGen []) := by
  intro p st _ h
  exact .nil _ h

theorem choiceGen_cons_at (W : WritesAt p0 IA I) {g : Gen} {gs : List Gen}
    (h1 : GenAt p0 L IA I g) (h2 : ChoiceAt p0 L I (choiceGen gs)) : ChoiceAt p0 L I (choiceGen (g :: gs)) := by
  intro p st hp h
  unfold choiceGen
  exact (h1 p _ hp (W.clearI p st p hp.1 (Nat.le_refl _) h)).append (fun st' h' => h2 p st' hp h')

theorem ChoiceAt.genAt (W : WritesAt p0 IA I) {g : Gen} (h : ChoiceAt p0 L I g) : GenAt p0 L IA I g :=
  fun p st hp hs => h p st hp (W.weak p st hs)

theorem seqGo_nil_at (W : WritesAt p0 IA I) : GenAt p0 L IA I (seqGo []) := by
  intro p st _ h
  exact .nil _ (W.weak p st h)

theorem seqGo_cons_at (W : WritesAt p0 IA I) {g : Gen} {gs : List Gen}
    (h1 : GenAt p0 L IA I g) (hpos : ∀ p st, PosFrom p0 L p → (g p st).All (PosFrom p0 L))
    (h2 : GenAt p0 L IA I (seqGo gs)) : GenAt p0 L IA I (seqGo (g :: gs)) := by
  intro p st hp h
  cases gs with
  | nil =>
    unfold seqGo
    exact (h1 p st hp h).mapStP (hpos p st hp)
      (fun n st' hn hy => W.weak n _ (W.clearI n st' n hn.1 (Nat.le_refl _) hy))
  | cons g2 gs =>
    unfold seqGo
    exact Step.InvAt.bindP
      ((h1 p st hp h).mapStP (Y' := fun _ st => IA st) (hpos p st hp)
        (fun n st' hn hy => W.clearI n st' n hn.1 (Nat.le_refl _) hy))
      (hpos p st hp).mapSt (fun n st' hn hy => h2 n st' hn hy)

theorem seqGen_at (W : WritesAt p0 IA I) {gs : List Gen} (h : GenAt p0 L IA I (seqGo gs)) (hasCap : Bool) :
    GenAt p0 L IA I (seqGen hasCap gs) := by
  intro p st hp hst
  unfold seqGen
  simp only
  refine (h p st hp hst).onNil (fun st' h' => ?_)
  split
  · exact W.restoreI p st st' (W.weak p st hst) h'
  · exact h'

theorem descend_at (W : WritesAt p0 IA I) (len limit p : Nat) (hpl : p ≤ limit) :
    ∀ fuel cur st, p ≤ cur → I cur st → (descend len limit fuel cur st).InvAt I I p := by
  intro fuel
  induction fuel with
  | zero => intro cur st _ _; exact .diverge
  | succ f ih =>
    intro cur st hpc h
    unfold descend
    split
    · refine .cons _ _ _ h (fun st' h' => ?_)
      split
      · exact ih _ _ (by omega) (W.anti cur _ st' (Nat.sub_le _ _) h')
      · exact .nil _ (W.anti cur p st' hpc h')
    · exact .nil _ (W.anti cur p st hpc h)

/-- what the loops need of a plain body, besides `ChildOK`: its results do not lie before its start -/
structure ChildGe (L : Nat) (child : Gen) : Prop where
  ge : ∀ p st, p ≤ L → (child p st).All (fun n => p ≤ n ∧ n ≤ L)

theorem gfixedLoop_ge {child : Gen} (len max guard : Nat) :
    ∀ fuel p m st, p ≤ (gfixedLoop child len max guard fuel p m st).1 := by
  intro fuel
  induction fuel with
  | zero => intro p m st; exact Nat.le_refl _
  | succ f ih =>
    intro p m st
    unfold gfixedLoop
    split
    · split
      · simp only
        split
        · exact Nat.le_add_right _ _
        · exact Nat.le_trans (Nat.le_add_right _ _) (ih _ _ _)
      · exact Nat.le_refl _
    · exact Nat.le_refl _

theorem gfixedGen_at (W : WritesAt p0 IA I) {child : Gen} (C : ChildOK (PosFrom p0 L) IA child) (ctx : Ctx)
    (hL : ctx.len = L) (min max len : Nat) : GenAt p0 L IA I (gfixedGen ctx child min max len) := by
  intro p st hp h
  unfold gfixedGen
  simp only
  have hguard : (if max < usizeMax then Nat.min ctx.len (p + len * max) else ctx.len) ≤ ctx.len := by
    split
    · exact Nat.min_le_left _ _
    · exact Nat.le_refl _
  generalize (if max < usizeMax then Nat.min ctx.len (p + len * max) else ctx.len) = guard at hguard
  split
  · exact .nil _ (W.weak p st h)
  · have hr := gfixedLoop_invF W.writesFrom C len max guard (by omega) (ctx.len + 2) p 0 st hp.1 h
    have hge := gfixedLoop_ge (child := child) len max guard (ctx.len + 2) p 0 st
    generalize gfixedLoop child len max guard (ctx.len + 2) p 0 st = r at hr hge
    split
    · exact .nil _ (W.weak p _ hr)
    · rename_i hmin
      have hlim : p + len * min ≤ r.1 ∨ True := .inr trivial
      by_cases hpl : p ≤ p + len * min
      · exact descend_at W len (p + len * min) p hpl _ r.1 r.2.2 hge (W.weak r.1 _ hr)
      · exact absurd (Nat.le_add_right _ _) hpl

theorem iterMin_ge {L : Nat} {child : Gen} (G : ChildGe L child) (min : Nat) :
    ∀ fuel count pos st c q, pos ≤ L → (iterMin child min fuel count pos st).1 = some (c, q) → pos ≤ q := by
  intro fuel
  induction fuel with
  | zero => intro count pos st c q _ h; simp [iterMin] at h
  | succ f ih =>
    intro count pos st c q hpl h
    unfold iterMin at h
    split at h
    · split at h
      · rename_i n x st' heq
        have hn := first1_all (G.ge pos st hpl) heq
        exact Nat.le_trans hn.1 (ih _ _ _ _ _ hn.2 h)
      · simp at h
    · simp only [Option.some.injEq, Prod.mk.injEq] at h
      omega

theorem rfixedMore_at (W : WritesAt p0 IA I) {child : Gen} (C : ChildOK (PosFrom p0 L) IA child) (G : ChildGe L child)
    (max position : Nat) (hpos : p0 ≤ position) :
    ∀ fuel count pos st, PosFrom p0 L pos → position ≤ pos → I pos st →
      (rfixedMore child max position fuel count pos st).InvAt I I position := by
  intro fuel
  induction fuel with
  | zero => intro count pos st _ _ _; exact .diverge
  | succ f ih =>
    intro count pos st hp hle h
    unfold rfixedMore
    split
    · simp only
      have hf := C.fst pos _ hp (W.clearI pos st position hpos hle h)
      split
      · rename_i n x st' heq
        rw [← first1_snd heq] at hf
        have hn : PosFrom p0 L n := first1_all (C.pos pos _ hp) heq
        have hge : pos ≤ n := (first1_all (G.ge pos _ hp.2) heq).1
        exact .cons _ _ _ (W.weak n _ hf) (fun st'' h'' => ih _ _ _ hn (by omega) h'')
      · rename_i st' heq
        rw [← first1_snd heq] at hf
        exact .nil _ (W.weak position _ hf)
    · exact .nil _ (W.anti pos position st hle h)

theorem rfixedGen_at (W : WritesAt p0 IA I) {child : Gen} (C : ChildOK (PosFrom p0 L) IA child) (G : ChildGe L child)
    (ctx : Ctx) (min max : Nat) : GenAt p0 L IA I (rfixedGen ctx child min max) := by
  intro p st hp h
  unfold rfixedGen
  have hi := iterMin_invF W.writesFrom C min (loopFuel ctx min) 0 p st hp h
  have hge := iterMin_ge G min (loopFuel ctx min) 0 p st
  split
  · rename_i st' heq
    rw [heq] at hi
    exact .nil _ (W.weak p _ hi.1)
  · rename_i count pos st' heq
    rw [heq] at hi hge
    have hpp : p ≤ pos := hge count pos hp.2 rfl
    exact .cons _ _ _ (W.weak pos _ hi.1)
      (fun st'' h'' => rfixedMore_at W C G max p hp.1 _ _ _ _ (hi.2 _ _ rfl) hpp h'')

end at_

theorem childGe_sem (ctx : Ctx) (c : Op) (hwc : wfOp c = true) : ChildGe ctx.len (sem ctx c) where
  ge := fun p st hp => sem_bounds_op ctx c hwc p hp st

mutual
theorem plain_at {p0 : Nat} {IA : St → Prop} {I : Nat → St → Prop} (W : WritesAt p0 IA I) (ctx : Ctx) :
    (op : Op) → plainOp op = true → wfOp op = true → GenAt p0 ctx.len IA I (sem ctx op)
  | .bol, _, _ => by simp only [sem]; exact bolGen_at W ctx
  | .eol, _, _ => by simp only [sem]; exact eolGen_at W ctx
  | .nothing, _, _ => by simp only [sem]; exact nothingGen_at W
  | .endProgram, _, _ => by simp only [sem]; exact endGen_at W
  | .atom cs, _, _ => by simp only [sem]; exact atomGen_at W ctx cs
  | .cls rs, _, _ => by simp only [sem]; exact clsGen_at W ctx rs
  | .backref _, hc, _ | .capture _ _, hc, _ | .rep _ _ _ _ _, hc, _ | .unamb _ _ _, hc, _ => by
    simp [plainOp] at hc
  | .choice bs, hc, hwf => by
    simp only [wfOp, Bool.and_eq_true] at hwf
    simp only [plainOp] at hc
    simp only [sem]
    exact (plain_at_choice W ctx bs hc hwf.2).genAt W
  | .seq ops, hc, hwf => by
    simp only [wfOp, Bool.and_eq_true] at hwf
    simp only [plainOp] at hc
    simp only [sem]
    exact seqGen_at W (plain_at_seq W ctx ops hc hwf.2) _
  | .gfixed c mn mx len, hc, hwf => by
    simp only [wfOp, Bool.and_eq_true, decide_eq_true_eq, beq_iff_eq] at hwf
    obtain ⟨⟨⟨⟨⟨hwc, hml⟩, hlen0⟩, hlen1⟩, hmm⟩, hmx⟩ := hwf
    simp only [plainOp] at hc
    have C := childOK_from ctx c hwc (plain_inv W.writesFrom ctx c hc hwc)
    simp only [sem]
    exact gfixedGen_at W C ctx rfl mn mx len
  | .rfixed c mn mx len, hc, hwf => by
    simp only [wfOp, Bool.and_eq_true, decide_eq_true_eq, beq_iff_eq] at hwf
    obtain ⟨⟨⟨⟨⟨hwc, hml⟩, hlen0⟩, hlen1⟩, hmm⟩, hmx⟩ := hwf
    simp only [plainOp] at hc
    have C := childOK_from ctx c hwc (plain_inv W.writesFrom ctx c hc hwc)
    simp only [sem]
    exact rfixedGen_at W C (childGe_sem ctx c hwc) ctx mn mx
termination_by structural op => op
theorem plain_at_choice {p0 : Nat} {IA : St → Prop} {I : Nat → St → Prop} (W : WritesAt p0 IA I) (ctx : Ctx) :
    (bs : List Op) → plainOps bs = true → wfOps bs = true → ChoiceAt p0 ctx.len I (choiceGen (semL ctx bs))
  | [], _, _ => by simp only [semL]; exact choiceGen_nil_at
  | b :: bs, hc, hwf => by
    simp only [wfOps, Bool.and_eq_true] at hwf
    simp only [plainOps, Bool.and_eq_true] at hc
    simp only [semL]
    exact choiceGen_cons_at W (plain_at W ctx b hc.1 hwf.1) (plain_at_choice W ctx bs hc.2 hwf.2)
termination_by structural bs => bs
theorem plain_at_seq {p0 : Nat} {IA : St → Prop} {I : Nat → St → Prop} (W : WritesAt p0 IA I) (ctx : Ctx) :
    (ops : List Op) → plainOps ops = true → wfOps ops = true → GenAt p0 ctx.len IA I (seqGo (semL ctx ops))
  | [], _, _ => by simp only [semL]; exact seqGo_nil_at W
  | o :: os, hc, hwf => by
    simp only [wfOps, Bool.and_eq_true] at hwf
    simp only [plainOps, Bool.and_eq_true] at hc
    simp only [semL]
    exact seqGo_cons_at W (plain_at W ctx o hc.1 hwf.1)
      (fun p st hp => (sem_bounds_op ctx o hwf.1 p hp.2 st).mono (fun _ hn => ⟨Nat.le_trans hp.1 hn.1, hn.2⟩))
      (plain_at_seq W ctx os hc.2 hwf.2)
termination_by structural ops => ops
end

theorem writesAt_reprT (ctx : Ctx) (opn : List (Nat × Nat)) (fut : List Nat) (e : CEnv) (lo p0 : Nat)
    (he : EnvIn e lo p0) :
    WritesAt p0 (fun st => ReprT ctx opn fut none st e) (fun p st => ReprT ctx opn fut (some p) st e) where
  weak := fun p _ h => h.toSome p
  anti := fun _ _ _ hp h => h.anti hp
  clearA := fun _ x hx h => h.clear (he.mono hx) (fun p hc => by cases hc)
  clearI := fun p _ x hx hxp h => h.clear (he.mono hx) (fun p' hc => by cases hc; exact hxp)
  div := fun _ h => h.setDiv
  restoreA := fun _ _ h h' => h.restore h'
  restoreI := fun _ _ _ h h' => h.restore h'
  setEnd0 := fun _ p h => h.setEnd0 p

/-- a plain tree, started in an all-tidy state representing `e`: exactly the ordered enumeration of its
    ends, each yield at `n` in a state representing `e` tidy at level `n` -/
theorem plain_seqT (ctx : Ctx) (op : Op) (hp : plainOp op = true) (hwf : wfOp op = true)
    (opn : List (Nat × Nat)) (fut : List Nat) (e : CEnv) (lo p : Nat) (hpl : p ≤ ctx.len) (he : EnvIn e lo p)
    (st : St) (hst : ReprT ctx opn fut none st e) :
    Step.SeqT (fun n st' e' => ReprT ctx opn fut (some n) st' e') (fun n st' e' => ReprT ctx opn fut (some n) st' e')
      (fun st' => ReprT ctx opn fut (some p) st' e) (sem ctx op p st) ((enum ctx op p).map (fun q => (q, e))) :=
  Step.SeqT.of_ex_invAt e (sem_ex_op ctx op (plain_clean op hp) hwf p hpl st)
    (plain_at (writesAt_reprT ctx opn fut e lo p he) ctx op hp hwf p st ⟨Nat.le_refl _, hpl⟩ hst)

/-! ### what every member of `enumC2` satisfies -/

structure PathFacts2 (ctx : Ctx) (lo : Nat) (sure caps cl : List Nat) (P : Nat → CEnv → Prop)
    (p : Nat) (e : CEnv) (q : Nat) (e' : CEnv) : Prop where
  le : p ≤ q
  len : q ≤ ctx.len
  env : EnvIn e' lo q
  dom : Dom (sure ++ cl) e'
  frame : ∀ k, k ∉ caps → e' k = e k
  path : P q e'

theorem plain_facts2 (ctx : Ctx) (op : Op) (hp : plainOp op = true) (hwf : wfOp op = true)
    (lo : Nat) (cl : List Nat) (p : Nat) (e : CEnv) (hpl : p ≤ ctx.len) (he : EnvIn e lo p) (hd : Dom cl e)
    (hsure : sureOf op = [])
    (x : Nat × CEnv) (hx : x ∈ (enum ctx op p).map (fun q => (q, e))) :
    PathFacts2 ctx lo (sureOf op) (capsOf op) cl (PathR ctx op p e) p e x.1 x.2 := by
  obtain ⟨q, hq, rfl⟩ := List.mem_map.1 hx
  have hr := enum_sound ctx op (plain_clean op hp) hwf hpl hq
  have hb := OpR_bounds_op ctx op p q hpl hr
  rw [hsure]
  exact ⟨hb.1, hb.2, he.mono hb.1, hd, fun _ _ => rfl, (PathR_plain ctx op hp p e q e).2 ⟨rfl, hr⟩⟩

mutual
theorem enumC2_facts (ctx : Ctx) (lo : Nat) : (op : Op) → altCaps op = true → wfOp op = true →
    ∀ cl p e, p ≤ ctx.len → lo ≤ p → EnvIn e lo p → Dom cl e →
    ∀ x, x ∈ enumC2 ctx op p e → PathFacts2 ctx lo (sureOf op) (capsOf op) cl (PathR ctx op p e) p e x.1 x.2
  | .bol, _, hwf, cl, p, e, hpl, _, he, hd, x, hx =>
    plain_facts2 ctx .bol rfl hwf lo cl p e hpl he hd rfl x (by simpa only [enumC2] using hx)
  | .eol, _, hwf, cl, p, e, hpl, _, he, hd, x, hx =>
    plain_facts2 ctx .eol rfl hwf lo cl p e hpl he hd rfl x (by simpa only [enumC2] using hx)
  | .nothing, _, hwf, cl, p, e, hpl, _, he, hd, x, hx =>
    plain_facts2 ctx .nothing rfl hwf lo cl p e hpl he hd rfl x (by simpa only [enumC2] using hx)
  | .endProgram, _, hwf, cl, p, e, hpl, _, he, hd, x, hx =>
    plain_facts2 ctx .endProgram rfl hwf lo cl p e hpl he hd rfl x (by simpa only [enumC2] using hx)
  | .atom cs, _, hwf, cl, p, e, hpl, _, he, hd, x, hx =>
    plain_facts2 ctx (.atom cs) rfl hwf lo cl p e hpl he hd rfl x (by simpa only [enumC2] using hx)
  | .cls rs, _, hwf, cl, p, e, hpl, _, he, hd, x, hx =>
    plain_facts2 ctx (.cls rs) rfl hwf lo cl p e hpl he hd rfl x (by simpa only [enumC2] using hx)
  | .gfixed c mn mx l, hs, hwf, cl, p, e, hpl, _, he, hd, x, hx =>
    plain_facts2 ctx (.gfixed c mn mx l) (by simpa only [altCaps, plainOp] using hs) hwf lo cl p e hpl he hd rfl x
      (by simpa only [enumC2] using hx)
  | .rfixed c mn mx l, hs, hwf, cl, p, e, hpl, _, he, hd, x, hx =>
    plain_facts2 ctx (.rfixed c mn mx l) (by simpa only [altCaps, plainOp] using hs) hwf lo cl p e hpl he hd rfl x
      (by simpa only [enumC2] using hx)
  | .rep _ _ _ _ _, hs, _, _, _, _, _, _, _, _, _, _ | .unamb _ _ _, hs, _, _, _, _, _, _, _, _, _, _ => by
    simp [altCaps] at hs
  | .backref g, _, _, cl, p, e, hpl, _, he, hd, x, hx => by
    simp only [enumC2] at hx
    simp only [capsOf, sureOf]
    cases hg : e g with
    | none =>
      rw [hg] at hx
      simp only [List.mem_singleton] at hx
      subst hx
      refine ⟨Nat.le_refl _, hpl, he, hd, fun _ _ => rfl, ?_⟩
      simp only [PathR, hg, BackrefR, true_and]
    | some ab =>
      obtain ⟨a, b⟩ := ab
      rw [hg] at hx
      simp only at hx
      split at hx
      · rename_i hc
        simp only [List.mem_singleton] at hx
        subst hx
        refine ⟨Nat.le_add_right _ _, hc.1, he.mono (Nat.le_add_right _ _), hd, fun _ _ => rfl, ?_⟩
        simp only [PathR, hg, BackrefR, true_and]
        exact ⟨hc.1, hc.2⟩
      · cases hx
  | .capture g c, hs, hwf, cl, p, e, hpl, hlo, he, hd, x, hx => by
    simp only [altCaps] at hs
    simp only [wfOp] at hwf
    simp only [enumC2, List.mem_map] at hx
    obtain ⟨y, hy, rfl⟩ := hx
    have ih := enumC2_facts ctx lo c hs hwf cl p e hpl hlo he hd y hy
    simp only [capsOf, sureOf]
    refine ⟨ih.le, ih.len, ih.env.set g p y.1 hlo ih.le (Nat.le_refl _) (Nat.le_refl _), ?_, ?_, ?_⟩
    · exact Dom.set ih.dom g p y.1
    · intro k hk
      simp only [List.mem_cons, not_or] at hk
      rw [CEnv.set_other _ _ _ _ _ hk.1]
      exact ih.frame k hk.2
    · simp only [PathR]
      exact ⟨y.2, ih.path, rfl⟩
  | .seq ops, hs, hwf, cl, p, e, hpl, hlo, he, hd, x, hx => by
    simp only [altCaps] at hs
    simp only [wfOp, Bool.and_eq_true] at hwf
    simp only [enumC2] at hx
    simp only [capsOf, sureOf, PathR]
    exact enumC2Seq_facts ctx lo ops hs hwf.2 cl p e hpl hlo he hd x hx
  | .choice bs, hs, hwf, cl, p, e, hpl, hlo, he, hd, x, hx => by
    simp only [altCaps] at hs
    simp only [wfOp, Bool.and_eq_true] at hwf
    simp only [enumC2] at hx
    simp only [capsOf, sureOf, PathR]
    exact enumC2Any_facts ctx lo bs hs hwf.2 cl p e hpl hlo he hd x hx
termination_by structural op => op
theorem enumC2Seq_facts (ctx : Ctx) (lo : Nat) : (ops : List Op) → altCapsL ops = true → wfOps ops = true →
    ∀ cl p e, p ≤ ctx.len → lo ≤ p → EnvIn e lo p → Dom cl e →
    ∀ x, x ∈ enumC2Seq ctx ops p e →
      PathFacts2 ctx lo (sureOfL ops) (capsOfL ops) cl (PathRSeq ctx ops p e) p e x.1 x.2
  | [], _, _, cl, p, e, hpl, _, he, hd, x, hx => by
    simp only [enumC2Seq, List.mem_singleton] at hx
    subst hx
    simp only [capsOfL, sureOfL]
    exact ⟨Nat.le_refl _, hpl, he, hd, fun _ _ => rfl, by simp only [PathRSeq, and_self]⟩
  | o :: os, hs, hwf, cl, p, e, hpl, hlo, he, hd, x, hx => by
    simp only [altCapsL, Bool.and_eq_true] at hs
    simp only [wfOps, Bool.and_eq_true] at hwf
    simp only [enumC2Seq, List.mem_flatMap] at hx
    obtain ⟨y, hy, hx⟩ := hx
    have h1 := enumC2_facts ctx lo o hs.1 hwf.1 cl p e hpl hlo he hd y hy
    have h2 := enumC2Seq_facts ctx lo os hs.2 hwf.2 (sureOf o ++ cl) y.1 y.2 h1.len
      (Nat.le_trans hlo h1.le) h1.env h1.dom x hx
    simp only [capsOfL, sureOfL]
    refine ⟨Nat.le_trans h1.le h2.le, h2.len, h2.env, ?_, ?_, ?_⟩
    · intro g hg
      apply h2.dom g
      simp only [List.mem_append] at *
      rcases hg with (hg | hg) | hg
      · exact .inr (.inl hg)
      · exact .inl hg
      · exact .inr (.inr hg)
    · intro k hk
      simp only [List.mem_append, not_or] at hk
      rw [h2.frame k hk.2, h1.frame k hk.1]
    · simp only [PathRSeq]
      exact ⟨y.1, y.2, h1.path, h2.path⟩
termination_by structural ops => ops
theorem enumC2Any_facts (ctx : Ctx) (lo : Nat) : (bs : List Op) → altCapsL bs = true → wfOps bs = true →
    ∀ cl p e, p ≤ ctx.len → lo ≤ p → EnvIn e lo p → Dom cl e →
    ∀ x, x ∈ enumC2Any ctx bs p e →
      PathFacts2 ctx lo [] (capsOfL bs) cl (PathRAny ctx bs p e) p e x.1 x.2
  | [], _, _, _, _, _, _, _, _, _, x, hx => by simp [enumC2Any] at hx
  | b :: bs, hs, hwf, cl, p, e, hpl, hlo, he, hd, x, hx => by
    simp only [altCapsL, Bool.and_eq_true] at hs
    simp only [wfOps, Bool.and_eq_true] at hwf
    simp only [enumC2Any, List.mem_append] at hx
    simp only [capsOfL]
    rcases hx with hx | hx
    · have h1 := enumC2_facts ctx lo b hs.1 hwf.1 cl p e hpl hlo he hd x hx
      refine ⟨h1.le, h1.len, h1.env, ?_, ?_, ?_⟩
      · exact fun g hg => h1.dom g (List.mem_append_right _ (by simpa using hg))
      · intro k hk
        simp only [List.mem_append, not_or] at hk
        exact h1.frame k hk.1
      · simp only [PathRAny]; exact .inl h1.path
    · have h1 := enumC2Any_facts ctx lo bs hs.2 hwf.2 cl p e hpl hlo he hd x hx
      refine ⟨h1.le, h1.len, h1.env, h1.dom, ?_, ?_⟩
      · intro k hk
        simp only [List.mem_append, not_or] at hk
        exact h1.frame k hk.2
      · simp only [PathRAny]; exact .inr h1.path
termination_by structural bs => bs
end

/-! ### scoping: every group of the tree is fresh -/

mutual
theorem scope_fresh (hbr : Bool) (mp : Nat) : (op : Op) → altCaps op = true → ∀ cl ub, scopeOK2 hbr mp op cl ub = true →
    ∀ k, k ∈ capsOf op → k ∉ ub
  | .capture g c, hs, cl, ub, h, k, hk => by
    simp only [altCaps] at hs
    simp only [scopeOK2, Bool.and_eq_true, decide_eq_true_eq, Bool.not_eq_true', List.contains_eq_mem,
      decide_eq_false_iff_not] at h
    simp only [capsOf, List.mem_cons] at hk
    rcases hk with rfl | hk
    · exact h.1.2
    · have := scope_fresh hbr mp c hs cl (g :: ub) h.2 k hk
      exact fun hc => this (List.mem_cons_of_mem _ hc)
  | .seq ops, hs, cl, ub, h, k, hk => by
    simp only [altCaps] at hs
    simp only [scopeOK2] at h
    simp only [capsOf] at hk
    exact scope_freshL hbr mp ops hs cl ub h k hk
  | .choice bs, hs, cl, ub, h, k, hk => by
    simp only [altCaps] at hs
    simp only [scopeOK2] at h
    simp only [capsOf] at hk
    exact scope_freshA hbr mp bs hs cl ub h k hk
  | .bol, _, _, _, _, _, hk | .eol, _, _, _, _, _, hk | .nothing, _, _, _, _, _, hk | .endProgram, _, _, _, _, _, hk
  | .atom _, _, _, _, _, _, hk | .cls _, _, _, _, _, _, hk | .backref _, _, _, _, _, _, hk => by simp [capsOf] at hk
  | .gfixed c mn mx l, hs, _, _, _, _, hk => by
    rw [plain_capsOf (.gfixed c mn mx l) (by simpa only [altCaps, plainOp] using hs)] at hk; cases hk
  | .rfixed c mn mx l, hs, _, _, _, _, hk => by
    rw [plain_capsOf (.rfixed c mn mx l) (by simpa only [altCaps, plainOp] using hs)] at hk; cases hk
  | .rep _ _ _ _ _, hs, _, _, _, _, _ | .unamb _ _ _, hs, _, _, _, _, _ => by simp [altCaps] at hs
termination_by structural op => op
theorem scope_freshL (hbr : Bool) (mp : Nat) : (ops : List Op) → altCapsL ops = true → ∀ cl ub,
    scopeOK2L hbr mp ops cl ub = true → ∀ k, k ∈ capsOfL ops → k ∉ ub
  | [], _, _, _, _, _, hk => by simp [capsOfL] at hk
  | o :: os, hs, cl, ub, h, k, hk => by
    simp only [altCapsL, Bool.and_eq_true] at hs
    simp only [scopeOK2L, Bool.and_eq_true] at h
    simp only [capsOfL, List.mem_append] at hk
    rcases hk with hk | hk
    · exact scope_fresh hbr mp o hs.1 cl ub h.1 k hk
    · have := scope_freshL hbr mp os hs.2 _ _ h.2 k hk
      exact fun hc => this (List.mem_append_right _ hc)
termination_by structural ops => ops
theorem scope_freshA (hbr : Bool) (mp : Nat) : (bs : List Op) → altCapsL bs = true → ∀ cl ub,
    scopeOK2A hbr mp bs cl ub = true → ∀ k, k ∈ capsOfL bs → k ∉ ub
  | [], _, _, _, _, _, hk => by simp [capsOfL] at hk
  | b :: bs, hs, cl, ub, h, k, hk => by
    simp only [altCapsL, Bool.and_eq_true] at hs
    simp only [scopeOK2A, Bool.and_eq_true] at h
    simp only [capsOfL, List.mem_append] at hk
    rcases hk with hk | hk
    · exact scope_fresh hbr mp b hs.1 cl ub h.1 k hk
    · exact scope_freshA hbr mp bs hs.2 cl ub h.2 k hk
termination_by structural bs => bs
end

/-! ### the engine yields exactly `enumC2`, in states that represent the path and are tidy elsewhere -/

/-- the relation at a yield / resumption at `n` -/
abbrev RT (ctx : Ctx) (opn : List (Nat × Nat)) (fut : List Nat) : Nat → St → CEnv → Prop :=
  fun n st e' => ReprT ctx opn fut (some n) st e'

theorem plain_caseT (ctx : Ctx) (op : Op) (hp : plainOp op = true) (hwf : wfOp op = true)
    (opn : List (Nat × Nat)) (fut : List Nat) (e : CEnv) (lo p : Nat) (hpl : p ≤ ctx.len) (he : EnvIn e lo p) (st : St)
    (henum : enumC2 ctx op p e = (enum ctx op p).map (fun q => (q, e)))
    (hst : ReprT ctx opn fut none st e) :
    Step.SeqT (RT ctx opn fut) (RT ctx opn fut) (fun st' => ReprT ctx opn fut (some p) st' e) (sem ctx op p st)
      (enumC2 ctx op p e) := by
  rw [henum]
  exact plain_seqT ctx op hp hwf opn fut e lo p hpl he st hst

mutual
theorem sem_seqT (ctx : Ctx) (lo : Nat) : (op : Op) → altCaps op = true → wfOp op = true →
    ∀ cl ub opn fut, scopeOK2 ctx.hasBackrefs ctx.maxParens op cl ub = true →
    (∀ g ∈ capsOf op, g ∈ fut) → (∀ g pg, (g, pg) ∈ opn → g ∈ ub) →
    ∀ p e st, p ≤ ctx.len → lo ≤ p → EnvIn e lo p → Dom cl e → (∀ k, (e k).isSome = true → k ∈ ub) →
    ReprT ctx opn fut none st e →
    Step.SeqT (RT ctx opn fut) (RT ctx opn fut) (fun st' => ReprT ctx opn fut (some p) st' e) (sem ctx op p st)
      (enumC2 ctx op p e)
  | .bol, _, hwf, _, _, opn, fut, _, _, _, p, e, st, hpl, _, he, _, _, hst =>
    plain_caseT ctx .bol rfl hwf opn fut e lo p hpl he st (by simp only [enumC2]) hst
  | .eol, _, hwf, _, _, opn, fut, _, _, _, p, e, st, hpl, _, he, _, _, hst =>
    plain_caseT ctx .eol rfl hwf opn fut e lo p hpl he st (by simp only [enumC2]) hst
  | .nothing, _, hwf, _, _, opn, fut, _, _, _, p, e, st, hpl, _, he, _, _, hst =>
    plain_caseT ctx .nothing rfl hwf opn fut e lo p hpl he st (by simp only [enumC2]) hst
  | .endProgram, _, hwf, _, _, opn, fut, _, _, _, p, e, st, hpl, _, he, _, _, hst =>
    plain_caseT ctx .endProgram rfl hwf opn fut e lo p hpl he st (by simp only [enumC2]) hst
  | .atom cs, _, hwf, _, _, opn, fut, _, _, _, p, e, st, hpl, _, he, _, _, hst =>
    plain_caseT ctx (.atom cs) rfl hwf opn fut e lo p hpl he st (by simp only [enumC2]) hst
  | .cls rs, _, hwf, _, _, opn, fut, _, _, _, p, e, st, hpl, _, he, _, _, hst =>
    plain_caseT ctx (.cls rs) rfl hwf opn fut e lo p hpl he st (by simp only [enumC2]) hst
  | .gfixed c mn mx l, hs, hwf, _, _, opn, fut, _, _, _, p, e, st, hpl, _, he, _, _, hst =>
    plain_caseT ctx (.gfixed c mn mx l) (by simpa only [altCaps, plainOp] using hs) hwf opn fut e lo p hpl he st
      (by simp only [enumC2]) hst
  | .rfixed c mn mx l, hs, hwf, _, _, opn, fut, _, _, _, p, e, st, hpl, _, he, _, _, hst =>
    plain_caseT ctx (.rfixed c mn mx l) (by simpa only [altCaps, plainOp] using hs) hwf opn fut e lo p hpl he st
      (by simp only [enumC2]) hst
  | .rep _ _ _ _ _, hs, _, _, _, _, _, _, _, _, _, _, _, _, _, _, _, _, _
  | .unamb _ _ _, hs, _, _, _, _, _, _, _, _, _, _, _, _, _, _, _, _, _ => by
    simp [altCaps] at hs
  | .backref g, _, _, cl, ub, opn, fut, hsc, _, _, p, e, st, hpl, _, he, hd, _, hst => by
    simp only [scopeOK2, Bool.and_eq_true, decide_eq_true_eq, List.contains_eq_mem] at hsc
    obtain ⟨⟨hbr, hg1⟩, hgcl⟩ := hsc
    have hsome := hd g hgcl
    cases hg : e g with
    | none => rw [hg] at hsome; cases hsome
    | some ab =>
      obtain ⟨a, b⟩ := ab
      have hag := hst.agree g hg1 (.inr (by rw [hg]; rfl))
      rw [hg] at hag
      have hbrs := hag.2.2 hbr
      have hab := (he g a b hg).2.1
      simp only [sem, enumC2, hg]
      rw [backrefGen_eval ctx g p st a b hpl hbrs.1 hbrs.2 hab]
      split
      · exact Step.SeqT.once (hst.toSome _) (fun st' h' => h'.anti (Nat.le_add_right _ _))
      · exact .nil st (hst.toSome _)
  | .capture g c, hs, hwf, cl, ub, opn, fut, hsc, hfut, hopn, p, e, st, hpl, hlo, he, hd, hsub, hst => by
    simp only [altCaps] at hs
    simp only [wfOp] at hwf
    simp only [scopeOK2, Bool.and_eq_true, decide_eq_true_eq, Bool.not_eq_true', List.contains_eq_mem,
      decide_eq_false_iff_not] at hsc
    obtain ⟨⟨⟨hg1, hgm⟩, hgub⟩, hsc⟩ := hsc
    simp only [capsOf] at hfut
    have hgf : g ∈ fut := hfut g List.mem_cons_self
    have hge : e g = none := by
      cases h : e g with
      | none => rfl
      | some ab => exact absurd (hsub g (by rw [h]; rfl)) hgub
    have hno : ∀ pg, (g, pg) ∉ opn := fun pg hm => hgub (hopn g pg hm)
    have hgc : g ∉ capsOf c := fun hc => scope_fresh _ _ c hs cl (g :: ub) hsc g hc List.mem_cons_self
    have hst1 := (hst.capturePre g p hgf hge hgm).openG g p hgf hge hno
    have ih := sem_seqT ctx lo c hs hwf cl (g :: ub) ((g, p) :: opn) fut hsc
      (fun k hk => hfut k (List.mem_cons_of_mem _ hk))
      (fun k pg hm => by
        rcases List.mem_cons.1 hm with heq | hm
        · simp only [Prod.mk.injEq] at heq; rw [heq.1]; exact List.mem_cons_self
        · exact List.mem_cons_of_mem _ (hopn k pg hm))
      p e _ hpl hlo he hd (fun k hk => List.mem_cons_of_mem _ (hsub k hk)) hst1
    have hfacts := enumC2_facts ctx lo c hs hwf cl p e hpl hlo he hd
    simp only [sem, enumC2]
    unfold captureGen
    simp only
    refine (Step.SeqT.mapSt (Y' := RT ctx opn fut) (R' := RT ctx opn fut) (fun x => x.2.set g p x.1) ih ?_ ?_).monoN ?_
    · intro x hx st' h'
      have hxg : x.2 g = none := by rw [(hfacts x hx).frame g hgc]; exact hge
      exact h'.captureWrite g p x.1 hgm hxg hno
    · intro x hx st' h'
      have hxg : x.2 g = none := by rw [(hfacts x hx).frame g hgc]; exact hge
      exact ReprT.unset hxg hg1 hgf h'
    · intro st' h'
      exact h'.closeG hno
  | .seq ops, hs, hwf, cl, ub, opn, fut, hsc, hfut, hopn, p, e, st, hpl, hlo, he, hd, hsub, hst => by
    simp only [altCaps] at hs
    simp only [wfOp, Bool.and_eq_true, Bool.not_eq_true', List.isEmpty_eq_false_iff] at hwf
    simp only [scopeOK2] at hsc
    simp only [capsOf] at hfut
    simp only [sem, enumC2]
    unfold seqGen
    simp only
    refine ((seqGo_seqT ctx lo ops hwf.1 hs hwf.2 cl ub opn fut hsc hfut hopn p e st hpl hlo he hd hsub hst).onNil
      (fun st' h' => ?_)).monoY (fun n st' e' h' => h'.toSome n)
    split
    · exact (hst.toSome p).restore h'
    · exact h'
  | .choice bs, hs, hwf, cl, ub, opn, fut, hsc, hfut, hopn, p, e, st, hpl, hlo, he, hd, hsub, hst => by
    simp only [altCaps] at hs
    simp only [wfOp, Bool.and_eq_true] at hwf
    simp only [scopeOK2] at hsc
    simp only [capsOf] at hfut
    simp only [sem, enumC2]
    exact choice_seqT ctx lo bs hs hwf.2 cl ub opn fut hsc hfut hopn p e st hpl hlo he hd hsub (hst.toSome p)
termination_by structural op => op
theorem seqGo_seqT (ctx : Ctx) (lo : Nat) : (ops : List Op) → ops ≠ [] → altCapsL ops = true → wfOps ops = true →
    ∀ cl ub opn fut, scopeOK2L ctx.hasBackrefs ctx.maxParens ops cl ub = true →
    (∀ g ∈ capsOfL ops, g ∈ fut) → (∀ g pg, (g, pg) ∈ opn → g ∈ ub) →
    ∀ p e st, p ≤ ctx.len → lo ≤ p → EnvIn e lo p → Dom cl e → (∀ k, (e k).isSome = true → k ∈ ub) →
    ReprT ctx opn fut none st e →
    Step.SeqT (fun _ st' e' => ReprT ctx opn fut none st' e') (RT ctx opn fut)
      (fun st' => ReprT ctx opn fut (some p) st' e) (seqGo (semL ctx ops) p st) (enumC2Seq ctx ops p e)
  | [], hne, _, _, _, _, _, _, _, _, _, _, _, _, _, _, _, _, _, _ => absurd rfl hne
  | [o], _, hs, hwf, cl, ub, opn, fut, hsc, hfut, hopn, p, e, st, hpl, hlo, he, hd, hsub, hst => by
    simp only [altCapsL, Bool.and_eq_true] at hs
    simp only [wfOps, Bool.and_eq_true] at hwf
    simp only [scopeOK2L, Bool.and_true] at hsc
    simp only [capsOfL, List.append_nil] at hfut
    have ih := sem_seqT ctx lo o hs.1 hwf.1 cl ub opn fut hsc hfut hopn p e st hpl hlo he hd hsub hst
    simp only [semL, enumC2Seq]
    rw [flatMap_pair_single]
    unfold seqGo
    refine Step.SeqT.mapSt_same ih (fun x hx st' h' => ?_)
    exact h'.clear (enumC2_facts ctx lo o hs.1 hwf.1 cl p e hpl hlo he hd x hx).env
      (fun p' hc => by cases hc; exact Nat.le_refl _)
  | o :: o2 :: os, _, hs, hwf, cl, ub, opn, fut, hsc, hfut, hopn, p, e, st, hpl, hlo, he, hd, hsub, hst => by
    simp only [altCapsL, Bool.and_eq_true] at hs
    simp only [wfOps, Bool.and_eq_true] at hwf
    have hs2 : altCapsL (o2 :: os) = true := by simp only [altCapsL, Bool.and_eq_true]; exact hs.2
    have hw2 : wfOps (o2 :: os) = true := by simp only [wfOps, Bool.and_eq_true]; exact hwf.2
    rw [scopeOK2L, Bool.and_eq_true] at hsc
    rw [capsOfL] at hfut
    have ih := sem_seqT ctx lo o hs.1 hwf.1 cl ub opn fut hsc.1
      (fun g hg => hfut g (List.mem_append_left _ hg)) hopn p e st hpl hlo he hd hsub hst
    have hfacts := enumC2_facts ctx lo o hs.1 hwf.1 cl p e hpl hlo he hd
    show Step.SeqT _ _ _ (seqGo (sem ctx o :: sem ctx o2 :: semL ctx os) p st)
      ((enumC2 ctx o p e).flatMap (fun x => enumC2Seq ctx (o2 :: os) x.1 x.2))
    unfold seqGo
    have h1 := Step.SeqT.mapSt_same (Y' := fun _ st' e' => ReprT ctx opn fut none st' e')
      (f := fun n st' => clearBeyond st' n) ih
      (fun x hx st' h' => h'.clear (hfacts x hx).env (fun p' hc => by cases hc; exact Nat.le_refl _))
    refine Step.SeqT.bind (f := seqGo (sem ctx o2 :: semL ctx os))
      (g := fun x => enumC2Seq ctx (o2 :: os) x.1 x.2) h1 (fun x hx st' h' => ?_)
    have hf := hfacts x hx
    exact seqGo_seqT ctx lo (o2 :: os) (List.cons_ne_nil _ _) hs2 hw2 (sureOf o ++ cl) (capsOf o ++ ub) opn fut
      hsc.2 (fun g hg => hfut g (List.mem_append_right _ hg))
      (fun g pg hm => List.mem_append_right _ (hopn g pg hm))
      x.1 x.2 st' hf.len (Nat.le_trans hlo hf.le) hf.env hf.dom
      (fun k hk => by
        by_cases hkc : k ∈ capsOf o
        · exact List.mem_append_left _ hkc
        · rw [hf.frame k hkc] at hk
          exact List.mem_append_right _ (hsub k hk))
      h'
termination_by structural ops => ops
theorem choice_seqT (ctx : Ctx) (lo : Nat) : (bs : List Op) → altCapsL bs = true → wfOps bs = true →
    ∀ cl ub opn fut, scopeOK2A ctx.hasBackrefs ctx.maxParens bs cl ub = true →
    (∀ g ∈ capsOfL bs, g ∈ fut) → (∀ g pg, (g, pg) ∈ opn → g ∈ ub) →
    ∀ p e st, p ≤ ctx.len → lo ≤ p → EnvIn e lo p → Dom cl e → (∀ k, (e k).isSome = true → k ∈ ub) →
    ReprT ctx opn fut (some p) st e →
    Step.SeqT (RT ctx opn fut) (RT ctx opn fut) (fun st' => ReprT ctx opn fut (some p) st' e)
      (choiceGen (semL ctx bs) p st) (enumC2Any ctx bs p e)
  | [], _, _, _, _, _, _, _, _, _, p, e, st, _, _, _, _, _, hst => by
    simp only [semL, enumC2Any, choiceGen]
    exact .nil st hst
  | b :: bs, hs, hwf, cl, ub, opn, fut, hsc, hfut, hopn, p, e, st, hpl, hlo, he, hd, hsub, hst => by
    simp only [altCapsL, Bool.and_eq_true] at hs
    simp only [wfOps, Bool.and_eq_true] at hwf
    simp only [scopeOK2A, Bool.and_eq_true] at hsc
    simp only [capsOfL] at hfut
    simp only [semL, enumC2Any]
    unfold choiceGen
    have hcl := hst.clear he (fun p' hc => by cases hc; exact Nat.le_refl _)
    exact (sem_seqT ctx lo b hs.1 hwf.1 cl ub opn fut hsc.1 (fun g hg => hfut g (List.mem_append_left _ hg)) hopn
      p e _ hpl hlo he hd hsub hcl).append
      (fun st' h' => choice_seqT ctx lo bs hs.2 hwf.2 cl ub opn fut hsc.2
        (fun g hg => hfut g (List.mem_append_right _ hg)) hopn p e st' hpl hlo he hd hsub h')
termination_by structural bs => bs
end

/-- a sequence clears at its own yields: there every unbound group is absent or EMPTY (level `none`) -/
theorem sem_seqT_seq (ctx : Ctx) (lo : Nat) (ops : List Op) (hs : altCaps (.seq ops) = true)
    (hwf : wfOp (.seq ops) = true) (cl ub : List Nat) (opn : List (Nat × Nat)) (fut : List Nat)
    (hsc : scopeOK2 ctx.hasBackrefs ctx.maxParens (.seq ops) cl ub = true)
    (hfut : ∀ g ∈ capsOf (.seq ops), g ∈ fut) (hopn : ∀ g pg, (g, pg) ∈ opn → g ∈ ub)
    (p : Nat) (e : CEnv) (st : St) (hpl : p ≤ ctx.len) (hlo : lo ≤ p) (he : EnvIn e lo p) (hd : Dom cl e)
    (hsub : ∀ k, (e k).isSome = true → k ∈ ub) (hst : ReprT ctx opn fut none st e) :
    Step.SeqT (fun _ st' e' => ReprT ctx opn fut none st' e') (RT ctx opn fut)
      (fun st' => ReprT ctx opn fut (some p) st' e ∧ (containsCapL ops = true → st'.cap = st.cap))
      (sem ctx (.seq ops) p st) (enumC2 ctx (.seq ops) p e) := by
  simp only [altCaps] at hs
  simp only [wfOp, Bool.and_eq_true, Bool.not_eq_true', List.isEmpty_eq_false_iff] at hwf
  simp only [scopeOK2] at hsc
  simp only [capsOf] at hfut
  simp only [sem, enumC2]
  unfold seqGen
  simp only
  refine (seqGo_seqT ctx lo ops hwf.1 hs hwf.2 cl ub opn fut hsc hfut hopn p e st hpl hlo he hd hsub hst).onNil
    (fun st' h' => ?_)
  split
  · exact ⟨(hst.toSome p).restore h', fun _ => rfl⟩
  · rename_i hc
    exact ⟨h', fun h => absurd h hc⟩

/-! ### `enumC2` lists every path -/

mutual
theorem enumC2_complete (ctx : Ctx) : (op : Op) → altCaps op = true → wfOp op = true →
    ∀ p e q e', p ≤ ctx.len → PathR ctx op p e q e' → (q, e') ∈ enumC2 ctx op p e
  | .bol, _, hwf, p, e, q, e', hp, h => by simp only [enumC2]; exact plain_complete ctx .bol rfl hwf hp h
  | .eol, _, hwf, p, e, q, e', hp, h => by simp only [enumC2]; exact plain_complete ctx .eol rfl hwf hp h
  | .nothing, _, hwf, p, e, q, e', hp, h => by simp only [enumC2]; exact plain_complete ctx .nothing rfl hwf hp h
  | .endProgram, _, hwf, p, e, q, e', hp, h => by
    simp only [enumC2]; exact plain_complete ctx .endProgram rfl hwf hp h
  | .atom cs, _, hwf, p, e, q, e', hp, h => by simp only [enumC2]; exact plain_complete ctx (.atom cs) rfl hwf hp h
  | .cls rs, _, hwf, p, e, q, e', hp, h => by simp only [enumC2]; exact plain_complete ctx (.cls rs) rfl hwf hp h
  | .gfixed c mn mx l, hs, hwf, p, e, q, e', hp, h => by
    simp only [enumC2]
    exact plain_complete ctx (.gfixed c mn mx l) (by simpa only [altCaps, plainOp] using hs) hwf hp h
  | .rfixed c mn mx l, hs, hwf, p, e, q, e', hp, h => by
    simp only [enumC2]
    exact plain_complete ctx (.rfixed c mn mx l) (by simpa only [altCaps, plainOp] using hs) hwf hp h
  | .rep _ _ _ _ _, hs, _, _, _, _, _, _, _ | .unamb _ _ _, hs, _, _, _, _, _, _, _ => by
    simp [altCaps] at hs
  | .backref g, _, _, p, e, q, e', _, h => by
    simp only [PathR] at h
    obtain ⟨rfl, h⟩ := h
    simp only [enumC2]
    cases hg : e' g with
    | none =>
      rw [hg] at h
      simp only [BackrefR] at h
      subst h
      simp
    | some ab =>
      obtain ⟨a, b⟩ := ab
      rw [hg] at h
      simp only [BackrefR] at h
      obtain ⟨rfl, h2, h3⟩ := h
      simp only
      rw [if_pos ⟨h2, h3⟩]
      simp
  | .capture g c, hs, hwf, p, e, q, e', hp, h => by
    simp only [altCaps] at hs
    simp only [wfOp] at hwf
    simp only [PathR] at h
    obtain ⟨e1, h1, rfl⟩ := h
    simp only [enumC2, List.mem_map]
    exact ⟨(q, e1), enumC2_complete ctx c hs hwf p e q e1 hp h1, rfl⟩
  | .seq ops, hs, hwf, p, e, q, e', hp, h => by
    simp only [altCaps] at hs
    simp only [wfOp, Bool.and_eq_true] at hwf
    simp only [PathR] at h
    simp only [enumC2]
    exact enumC2Seq_complete ctx ops hs hwf.2 p e q e' hp h
  | .choice bs, hs, hwf, p, e, q, e', hp, h => by
    simp only [altCaps] at hs
    simp only [wfOp, Bool.and_eq_true] at hwf
    simp only [PathR] at h
    simp only [enumC2]
    exact enumC2Any_complete ctx bs hs hwf.2 p e q e' hp h
termination_by structural op => op
theorem enumC2Seq_complete (ctx : Ctx) : (ops : List Op) → altCapsL ops = true → wfOps ops = true →
    ∀ p e q e', p ≤ ctx.len → PathRSeq ctx ops p e q e' → (q, e') ∈ enumC2Seq ctx ops p e
  | [], _, _, p, e, q, e', _, h => by
    simp only [PathRSeq] at h
    obtain ⟨rfl, rfl⟩ := h
    simp [enumC2Seq]
  | o :: os, hs, hwf, p, e, q, e', hp, h => by
    simp only [altCapsL, Bool.and_eq_true] at hs
    simp only [wfOps, Bool.and_eq_true] at hwf
    simp only [PathRSeq] at h
    obtain ⟨m, e1, h1, h2⟩ := h
    simp only [enumC2Seq, List.mem_flatMap]
    exact ⟨(m, e1), enumC2_complete ctx o hs.1 hwf.1 p e m e1 hp h1,
      enumC2Seq_complete ctx os hs.2 hwf.2 m e1 q e' (PathR_bounds ctx o hp h1).2 h2⟩
termination_by structural ops => ops
theorem enumC2Any_complete (ctx : Ctx) : (bs : List Op) → altCapsL bs = true → wfOps bs = true →
    ∀ p e q e', p ≤ ctx.len → PathRAny ctx bs p e q e' → (q, e') ∈ enumC2Any ctx bs p e
  | [], _, _, _, _, _, _, _, h => by simp only [PathRAny] at h
  | b :: bs, hs, hwf, p, e, q, e', hp, h => by
    simp only [altCapsL, Bool.and_eq_true] at hs
    simp only [wfOps, Bool.and_eq_true] at hwf
    simp only [PathRAny] at h
    simp only [enumC2Any, List.mem_append]
    rcases h with h | h
    · exact .inl (enumC2_complete ctx b hs.1 hwf.1 p e q e' hp h)
    · exact .inr (enumC2Any_complete ctx bs hs.2 hwf.2 p e q e' hp h)
termination_by structural bs => bs
end

/-! ### `match_at` on the enlarged fragment -/

mutual
theorem containsCap_false : (op : Op) → containsCap op = false → isCapture op = false → capsOf op = []
  | .capture _ _, _, h => by simp [isCapture] at h
  | .seq ops, h, _ => by simp only [containsCap] at h; simp only [capsOf]; exact containsCapL_false ops h
  | .choice bs, h, _ => by simp only [containsCap] at h; simp only [capsOf]; exact containsCapL_false bs h
  | .rep _ c _ _ _, h, _ => by
    simp only [containsCap, Bool.or_eq_false_iff] at h; simp only [capsOf]; exact containsCap_false c h.2 h.1
  | .gfixed c _ _ _, h, _ => by
    simp only [containsCap, Bool.or_eq_false_iff] at h; simp only [capsOf]; exact containsCap_false c h.2 h.1
  | .rfixed c _ _ _, h, _ => by
    simp only [containsCap, Bool.or_eq_false_iff] at h; simp only [capsOf]; exact containsCap_false c h.2 h.1
  | .unamb c _ _, h, _ => by
    simp only [containsCap, Bool.or_eq_false_iff] at h; simp only [capsOf]; exact containsCap_false c h.2 h.1
  | .bol, _, _ | .eol, _, _ | .nothing, _, _ | .endProgram, _, _ | .atom _, _, _ | .cls _, _, _
  | .backref _, _, _ => rfl
termination_by structural op => op
theorem containsCapL_false : (ops : List Op) → containsCapL ops = false → capsOfL ops = []
  | [], _ => rfl
  | o :: os, h => by
    simp only [containsCapL, Bool.or_eq_false_iff] at h
    simp only [capsOfL, containsCap_false o h.1.2 h.1.1, containsCapL_false os h.2, List.append_nil]
termination_by structural ops => ops
end

mutual
theorem alt_smallMin (n : Nat) : (op : Op) → altCaps op = true → C06.smallMin n op = true
  | .bol, _ | .eol, _ | .nothing, _ | .endProgram, _ | .atom _, _ | .cls _, _ | .backref _, _ => rfl
  | .rep _ _ _ _ _, h | .unamb _ _ _, h => by simp [altCaps] at h
  | .capture _ c, h => by simp only [altCaps] at h; simp only [C06.smallMin]; exact alt_smallMin n c h
  | .seq ops, h => by simp only [altCaps] at h; simp only [C06.smallMin]; exact alt_smallMinL n ops h
  | .choice bs, h => by simp only [altCaps] at h; simp only [C06.smallMin]; exact alt_smallMinL n bs h
  | .gfixed c mn mx l, h =>
    Clean.clean_smallMin n (.gfixed c mn mx l) (plain_clean _ (by simpa only [altCaps, plainOp] using h))
  | .rfixed c mn mx l, h =>
    Clean.clean_smallMin n (.rfixed c mn mx l) (plain_clean _ (by simpa only [altCaps, plainOp] using h))
termination_by structural op => op
theorem alt_smallMinL (n : Nat) : (ops : List Op) → altCapsL ops = true → C06.smallMinL n ops = true
  | [], _ => rfl
  | o :: os, h => by
    simp only [altCapsL, Bool.and_eq_true] at h
    simp only [C06.smallMinL, Bool.and_eq_true]
    exact ⟨alt_smallMin n o h.1, alt_smallMinL n os h.2⟩
termination_by structural ops => ops
end

/-- the program-side hypotheses on the enlarged fragment; the tree is a sequence (as every compiled
    program's is) -/
structure AltOK (ctx : Ctx) (ops : List Op) : Prop where
  alt : altCaps (.seq ops) = true
  wf : wfOp (.seq ops) = true
  capsPos : C02.capsPos (.seq ops) = true
  scope : scopeOK2 ctx.hasBackrefs ctx.maxParens (.seq ops) [] [] = true

/-- the reported arrays between two attempts: clear outside the groups of the tree, tidy (absent or
    empty) on them -/
def Cap2 (op : Op) (st : St) : Prop :=
  ∀ k, 1 ≤ k → (k ∉ capsOf op → getO st.cap.startn k = none ∧ getO st.cap.endn k = none) ∧
    TPair (getO st.cap.startn k) (getO st.cap.endn k) none

def Good2 (op : Op) (st : St) : Prop := Cap2 op st ∧ st.panic = none

theorem cap2_of_nil (op : Op) (st : St) (h1 : st.cap.startn = []) (h2 : st.cap.endn = []) : Cap2 op st := by
  intro k _
  rw [h1, h2]
  exact ⟨fun _ => ⟨getO_nil k, getO_nil k⟩, .inl (getO_nil k)⟩

theorem matchStart_reprT (ctx : Ctx) (op : Op) (i : Nat) (st : St) (h : Good2 op st) :
    ReprT ctx [] (capsOf op) none (matchStart ctx i st) CEnv.empty := by
  have hs : ∀ k, 1 ≤ k → getO (({ st.cap with parenCount := 1 } : Cap).setStart 0 i).startn k = getO st.cap.startn k := by
    intro k hk
    simp only [Cap.setStart]
    rw [getO_setAt, if_neg (by omega)]
  have hcap : (matchStart ctx i st).cap = ({ st.cap with parenCount := 1 } : Cap).setStart 0 i := by
    unfold matchStart; simp only; split <;> rfl
  have hpanic : (matchStart ctx i st).panic = st.panic := by
    unfold matchStart; simp only; split <;> rfl
  refine ⟨fun k hk hc => ?_, fun hb => ?_, by rw [hpanic]; exact .inl h.2,
    fun k _ hs' => by simp [CEnv.empty] at hs', by rw [hcap]; exact Nat.le_refl _,
    fun k h1 _ _ _ => ?_, fun k pg _ hm => by cases hm⟩
  · rcases hc with hc | hc
    · have := (h.1 k hk).1 hc
      refine ⟨?_, ?_, fun hb => ?_⟩
      · rw [hcap, hs k hk]; exact this.1
      · rw [hcap]; exact this.2
      · unfold matchStart
        simp only [hb, if_true]
        exact ⟨getO_replicate_none _ _, getO_replicate_none _ _⟩
    · simp [CEnv.empty] at hc
  · unfold matchStart
    simp only [hb, if_true, List.length_replicate]
    exact ⟨Nat.le_refl _, Nat.le_refl _⟩
  · rw [hcap, hs k h1]
    exact (h.1 k h1).2

/-- what a successful `match_at(j)` leaves on the enlarged fragment: the first path of the priority order,
    group 0, and a state in which every group the path binds is exact and every other group is absent
    or EMPTY -/
structure MatchRes2 (ctx : Ctx) (op : Op) (j n : Nat) (e' : CEnv) (st' : St) : Prop where
  path : PathR ctx op j CEnv.empty n e'
  first : (enumC2 ctx op j CEnv.empty).head? = some (n, e')
  start0 : getParenStart st' 0 = some j
  end0 : getParenEnd st' 0 = some n
  le : j ≤ n
  len : n ≤ ctx.len
  reprT : ReprT ctx [] (capsOf op) none st' e'
  env : EnvIn e' j n
  frame : ∀ k, k ∉ capsOf op → e' k = none
  clean : st'.panic = none

theorem matchAt_casesT (ctx : Ctx) (ops : List Op) (H : AltOK ctx ops) (j : Nat) (hj : j ≤ ctx.len)
    (st : St) (hst : Good2 (.seq ops) st) :
    (HasP ctx (.seq ops) j ∧ ∃ st' n e', matchAt ctx (.seq ops) j st = (true, st') ∧
        MatchRes2 ctx (.seq ops) j n e' st') ∨
    (¬ HasP ctx (.seq ops) j ∧ ∃ st', matchAt ctx (.seq ops) j st = (false, st') ∧ Good2 (.seq ops) st') := by
  have hnd := C06.matchAt_no_diverge ctx (.seq ops) H.wf (alt_smallMin _ _ H.alt) j hj st
    (by unfold C06.NoDivMark; rw [hst.2]; exact fun hc => by cases hc)
  have hrepr := matchStart_reprT ctx (.seq ops) j st hst
  have hseq := sem_seqT_seq ctx j ops H.alt H.wf [] [] [] (capsOf (.seq ops)) H.scope (fun _ h => h)
    (fun _ _ hm => by cases hm) j CEnv.empty (matchStart ctx j st) hj (Nat.le_refl _) (EnvIn.empty _ _)
    (Dom.nil _) (fun k hk => by simp [CEnv.empty] at hk) hrepr
  have hfacts := enumC2_facts ctx j (.seq ops) H.alt H.wf [] j CEnv.empty hj (Nat.le_refl _) (EnvIn.empty _ _)
    (Dom.nil _)
  have hcompl := enumC2_complete ctx (.seq ops) H.alt H.wf j CEnv.empty
  have hinv := sem_s0 ctx j (.seq ops) H.wf (by rw [← C02.capsPos_eq]; exact H.capsPos) j (matchStart ctx j st) hj
    (matchStart_s0 ctx j st)
  have hcapS : ∀ k, 1 ≤ k → getO (matchStart ctx j st).cap.startn k = getO st.cap.startn k ∧
      getO (matchStart ctx j st).cap.endn k = getO st.cap.endn k := by
    intro k hk
    have hcap : (matchStart ctx j st).cap = ({ st.cap with parenCount := 1 } : Cap).setStart 0 j := by
      unfold matchStart; simp only; split <;> rfl
    rw [hcap]
    simp only [Cap.setStart]
    exact ⟨by rw [getO_setAt, if_neg (by omega)], trivial⟩
  rw [matchAt_eq] at hnd ⊢
  generalize hl : enumC2 ctx (.seq ops) j CEnv.empty = l at hseq hfacts hcompl
  generalize hsd : sem ctx (.seq ops) j (matchStart ctx j st) = s at hnd hseq hinv
  cases hseq with
  | nil st2 hn =>
    right
    refine ⟨?_, _, rfl, ?_, ?_⟩
    · rintro ⟨n, e', hp⟩
      have := hcompl n e' hj hp
      cases this
    · intro k hk
      by_cases hcc : containsCapL ops = true
      · have hc2 := hn.2 hcc
        show (k ∉ capsOf (.seq ops) → getO st2.cap.startn k = none ∧ getO st2.cap.endn k = none) ∧
          TPair (getO st2.cap.startn k) (getO st2.cap.endn k) none
        rw [hc2, (hcapS k hk).1, (hcapS k hk).2]
        exact hst.1 k hk
      · have hnil : capsOf (.seq ops) = [] := by
          simp only [capsOf]
          exact containsCapL_false ops (by simpa using hcc)
        have hag := hn.1.agree k hk (.inl (by rw [hnil]; simp))
        simp only [CEnv.empty] at hag
        exact ⟨fun _ => ⟨hag.1, hag.2.1⟩, .inl hag.1⟩
    · simp only at hnd
      rcases hn.1.np with h | h
      · exact h
      · exact absurd h hnd
  | cons n st2 r e' l' hr _ =>
    left
    have f := hfacts (n, e') List.mem_cons_self
    refine ⟨⟨n, e', f.path⟩, _, n, e', rfl, ?_⟩
    have hr' := hr.setEnd0 n
    have hg0 : getParenStart { st2 with cap := st2.cap.setEnd 0 n } 0 = some j := hinv.head
    have hend : getParenEnd { st2 with cap := st2.cap.setEnd 0 n } 0 = some n := by
      simp only [getParenEnd, Cap.setEnd]
      exact getO_setAt_zero _ _
    refine ⟨f.path, by rw [hl]; rfl, hg0, hend, f.le, f.len, hr', f.env, fun k hk => ?_, ?_⟩
    · have := f.frame k hk
      simp only at this
      rw [this]; rfl
    · simp only at hnd
      rcases hr'.np with h | h
      · exact h
      · exact absurd h hnd

/-! ### the search loop on the enlarged fragment (the development of Proofs/C03cLemmas, for `Good2` /
    `MatchRes2`) -/

/-- the program-side hypotheses, for a tree that is a sequence -/
def AltOK2 (ctx : Ctx) (op : Op) : Prop := ∃ ops, op = .seq ops ∧ AltOK ctx ops

theorem matchAt_casesT2 (ctx : Ctx) (op : Op) (H : AltOK2 ctx op) (j : Nat) (hj : j ≤ ctx.len)
    (st : St) (hst : Good2 op st) :
    (HasP ctx op j ∧ ∃ st' n e', matchAt ctx op j st = (true, st') ∧ MatchRes2 ctx op j n e' st') ∨
    (¬ HasP ctx op j ∧ ∃ st', matchAt ctx op j st = (false, st') ∧ Good2 op st') := by
  obtain ⟨ops, rfl, H'⟩ := H
  exact matchAt_casesT ctx ops H' j hj st hst

theorem writes_cap2 (op : Op) : Writes (Cap2 op) where
  clear := by
    intro st p h k hk
    obtain ⟨h1, h2⟩ := h k hk
    have he : getO (clearBeyond st p).cap.endn k =
        (if optGe (getO st.cap.startn k) p = true then getO st.cap.startn k else getO st.cap.endn k) :=
      getO_clearArr _ _ _ _
    refine ⟨fun hn => ?_, ?_⟩
    · obtain ⟨a1, a2⟩ := h1 hn
      refine ⟨a1, ?_⟩
      rw [he, a1]
      simp [optGe, a2]
    · show TPair (getO st.cap.startn k) (getO (clearBeyond st p).cap.endn k) none
      rw [he]
      exact h2.clear_keep p
  div := by
    intro st h
    have hc : (st.setPanic panicDiverge).cap = st.cap := by unfold St.setPanic; split <;> rfl
    intro k hk
    rw [hc]; exact h k hk
  hist := fun _ _ h => h
  restore := fun _ _ h _ => h
  setEnd0 := by
    intro st p h k hk
    obtain ⟨h1, h2⟩ := h k hk
    have he : getO (st.cap.setEnd 0 p).endn k = getO st.cap.endn k := by
      show getO (setAt st.cap.endn 0 (some p)) k = _
      rw [getO_setAt, if_neg (by omega)]
    refine ⟨fun hn => ⟨(h1 hn).1, by rw [he]; exact (h1 hn).2⟩, ?_⟩
    show TPair (getO st.cap.startn k) (getO (st.cap.setEnd 0 p).endn k) none
    rw [he]; exact h2

theorem preHolds_good2 (ctx : Ctx) (op o : Op) (ho : C06.simplePre o = true) (j : Nat) (st : St)
    (hst : Good2 op st) : Good2 op (preHolds ctx o j st).2 := by
  have hndm : C06.NoDivMark st := by unfold C06.NoDivMark; rw [hst.2]; exact fun hc => by cases hc
  obtain ⟨hnd, hdm⟩ := C06.pre_no_diverge ctx o ho j st hndm
  refine ⟨preHolds_inv (simplePre_inv (writes_cap2 op) ctx o ho j st trivial hst.1) hnd, ?_⟩
  have h1 : NoRealPanic (preHolds ctx o j st).2 :=
    preHolds_inv (simplePre_inv writes_np ctx o ho j st trivial (.inl hst.2)) hnd
  have h2 : C06.NoDivMark (preHolds ctx o j st).2 := preHolds_inv hdm hnd
  rcases h1 with h | h
  · exact h
  · exact absurd h h2

/-- a precondition tree is quiet at every start whatsoever — also in a program with back-references
    (`SearchComplete.quietAll_of_simplePre` assumes `hasBackrefs = false`) -/

theorem findFrom_good2 (ctx : Ctx) (op o : Op) (ho : C06.simplePre o = true) :
    ∀ (fuel j : Nat) (st : St), Good2 op st → Good2 op (findFrom ctx o fuel j st).2 := by
  intro fuel
  induction fuel with
  | zero => intro j st hst; exact hst
  | succ f ih =>
    intro j st hst
    unfold findFrom
    split
    · have hp := preHolds_good2 ctx op o ho j st hst
      split
      · rename_i st' heq
        rw [heq] at hp; exact hp
      · rename_i st' heq
        rw [heq] at hp
        split
        · exact hp
        · exact ih _ _ hp
    · exact hst

/-- `check_preconditions` keeps a good state good -/
theorem checkPre_good2 (ctx : Ctx) (op : Op) (start : Nat) :
    ∀ (pres : List Pre) (st : St), (∀ q ∈ pres, C06.simplePre q.op = true) → Good2 op st →
      Good2 op (checkPre ctx start pres st).2 := by
  intro pres
  induction pres with
  | nil => intro st _ hst; exact hst
  | cons pre rest ih =>
    intro st hq hst
    have hpre := hq pre List.mem_cons_self
    have hrest : ∀ q ∈ rest, C06.simplePre q.op = true := fun q hm => hq q (List.mem_cons_of_mem _ hm)
    unfold checkPre
    split
    · rename_i fixed _
      have hp := preHolds_good2 ctx op pre.op hpre fixed st hst
      split
      · rename_i st' heq
        rw [heq] at hp
        exact ih _ hrest hp
      · rename_i st' heq
        rw [heq] at hp; exact hp
    · simp only
      have hp := findFrom_good2 ctx op pre.op hpre (ctx.len + 1)
        (if start < pre.minPos then pre.minPos else start) st hst
      split
      · rename_i st' heq
        rw [heq] at hp
        exact ih _ hrest hp
      · rename_i st' heq
        rw [heq] at hp; exact hp

open SearchComplete in
/-- `tryCands` on a good state: it stops at the FIRST candidate from which a path exists (and
    `match_at` succeeds there, leaving the first path of the priority order), or no candidate has a
    path and it fails in a good state -/
theorem tryCands_specT (ctx : Ctx) (op : Op) (H : AltOK2 ctx op) :
    ∀ (cands : List Nat) (st : St), (∀ j ∈ cands, j ≤ ctx.len) → Good2 op st →
    (∃ pre j post stj st' n e', cands = pre ++ j :: post ∧ (∀ k ∈ pre, ¬ HasP ctx op k) ∧
        tryCands ctx op cands st = (true, st') ∧ matchAt ctx op j stj = (true, st') ∧
        MatchRes2 ctx op j n e' st') ∨
    ((∀ k ∈ cands, ¬ HasP ctx op k) ∧ ∃ st', tryCands ctx op cands st = (false, st') ∧ Good2 op st') := by
  intro cands
  induction cands with
  | nil =>
    intro st _ hst
    right
    exact ⟨fun k hk => (by cases hk), st, rfl, hst⟩
  | cons j js ih =>
    intro st hb hst
    have hj := hb j List.mem_cons_self
    have hb' : ∀ k ∈ js, k ≤ ctx.len := fun k hk => hb k (List.mem_cons_of_mem _ hk)
    rcases matchAt_casesT2 ctx op H j hj st hst with ⟨_, st', n, e', he, hres⟩ | ⟨hm, st1, he, hg⟩
    · left
      refine ⟨[], j, js, st, st', n, e', rfl, fun k hk => (by cases hk), ?_, he, hres⟩
      unfold tryCands
      rw [he]
    · have hp : ¬ st1.panic.isSome = true := by rw [hg.2]; simp
      have hstep : tryCands ctx op (j :: js) st = tryCands ctx op js st1 := tryCands_cons_false he hp
      rcases ih st1 hb' hg with ⟨pre, j', post, stj, st', n, e', hcs, hpre, ht, hma, hres⟩ | ⟨hall, st', ht, hg'⟩
      · left
        refine ⟨j :: pre, j', post, stj, st', n, e', by rw [hcs]; rfl, ?_, by rw [hstep]; exact ht, hma, hres⟩
        intro k hk
        rcases List.mem_cons.1 hk with rfl | hk
        · exact hm
        · exact hpre k hk
      · right
        refine ⟨?_, st', by rw [hstep]; exact ht, hg'⟩
        intro k hk
        rcases List.mem_cons.1 hk with rfl | hk
        · exact hm
        · exact hall k hk

/-- what a search for the first match starting at or after `i` returns on a straight-capture
    program: `true` by a successful `match_at(j)` at the LEAST `j ≥ i` from which a path exists, leaving
    the first path of the priority order from `j` and a state representing its environment; or `false`,
    a good state, and no path from any `j ≥ i` inside the input -/
def OutcomeT (ctx : Ctx) (op : Op) (i : Nat) (r : Bool × St) : Prop :=
  (r.1 = true ∧ ∃ j stj n e', i ≤ j ∧ j ≤ ctx.len ∧ (∀ k, i ≤ k → k < j → ¬ HasP ctx op k) ∧
      matchAt ctx op j stj = r ∧ MatchRes2 ctx op j n e' r.2) ∨
  (r.1 = false ∧ Good2 op r.2 ∧ ∀ j, i ≤ j → j ≤ ctx.len → ¬ HasP ctx op j)

theorem tryCands_outcomeT (ctx : Ctx) (op : Op) (H : AltOK2 ctx op) (i : Nat)
    (cands : List Nat) (hsort : cands.Pairwise (· < ·)) (hb : ∀ j ∈ cands, i ≤ j ∧ j ≤ ctx.len)
    (hcover : ∀ j, i ≤ j → j ≤ ctx.len → HasP ctx op j → j ∈ cands)
    (st : St) (hst : Good2 op st) : OutcomeT ctx op i (tryCands ctx op cands st) := by
  rcases tryCands_specT ctx op H cands st (fun j hj => (hb j hj).2) hst with
    ⟨pre, j, post, stj, st', n, e', hcs, hpre, ht, hma, hres⟩ | ⟨hall, st', ht, hg⟩
  · rw [ht]
    refine .inl ⟨rfl, j, stj, n, e', ?_, ?_, ?_, hma, hres⟩
    · exact (hb j (by rw [hcs]; simp)).1
    · exact (hb j (by rw [hcs]; simp)).2
    · intro k hik hkj hmk
      have hjl := (hb j (by rw [hcs]; simp)).2
      have hk := hcover k hik (by omega) hmk
      rw [hcs] at hk hsort
      rw [List.pairwise_append] at hsort
      obtain ⟨_, hs2, _⟩ := hsort
      rw [List.pairwise_cons] at hs2
      rcases List.mem_append.1 hk with hk | hk
      · exact hpre k hk hmk
      · rcases List.mem_cons.1 hk with rfl | hk
        · omega
        · have := hs2.1 k hk
          omega
  · rw [ht]
    refine .inr ⟨rfl, hg, ?_⟩
    intro j hij hjl hmj
    exact hall j (hcover j hij hjl hmj) hmj

theorem matchAt_outcomeT (ctx : Ctx) (op : Op) (H : AltOK2 ctx op) (i : Nat)
    (hi : i ≤ ctx.len) (honly : ∀ j, i ≤ j → j ≤ ctx.len → HasP ctx op j → j = i)
    (st : St) (hst : Good2 op st) : OutcomeT ctx op i (matchAt ctx op i st) := by
  rcases matchAt_casesT2 ctx op H i hi st hst with ⟨_, st', n, e', he, hres⟩ | ⟨hm, st', he, hg⟩
  · rw [he]
    exact .inl ⟨rfl, i, st, n, e', Nat.le_refl _, hi, fun k h1 h2 => by omega, he, hres⟩
  · rw [he]
    refine .inr ⟨rfl, hg, fun j hij hjl hmj => ?_⟩
    have := honly j hij hjl hmj
    subst this
    exact hm hmj

open SearchComplete in
/-- the "preconditions, then candidates" tail shared by two branches of `matches` -/
theorem pre_thenT {ctx : Ctx} {pr : Prog} (F : SearchFacts ctx pr)
    (hP : ∀ q ∈ pr.pres, CompleteAt ctx q.op ∧ C06.simplePre q.op = true)
    (i : Nat) (st : St) (hst : Good2 pr.op st) (k : St → Bool × St)
    (hk : ∀ st', Good2 pr.op st' → OutcomeT ctx pr.op i (k st')) :
    OutcomeT ctx pr.op i
      (match checkPre ctx i pr.pres st with
       | (false, st') => (false, st')
       | (true, st') => k st') := by
  have hcl := checkPre_good2 ctx pr.op i pr.pres st (fun q hq => (hP q hq).2) hst
  cases h : checkPre ctx i pr.pres st with
  | mk b st' =>
    rw [h] at hcl
    cases b with
    | true => exact hk st' hcl
    | false =>
      refine .inr ⟨rfl, hcl, fun j hij hjl hmj => ?_⟩
      obtain ⟨q, hq⟩ := hmj.has hjl
      have hf := F.pres i j q hij hjl hq
      rcases checkPre_spec i pr.pres st
          (fun p hp => ⟨(hP p hp).1, (quietAll_simplePre ctx p.op (hP p hp).2).quiet⟩)
          (fun p hp => (hf p hp).2) hst.2 with ⟨_, st2, he, _⟩ | ⟨hno, _⟩
      · rw [h] at he; cases he
      · exact hno (fun p hp => (hf p hp).1)

open SearchComplete in
/-- THE SEARCH LOOP on a straight-capture program: with all five shortcuts, `matches(i)` returns the
    right outcome -/
theorem matchesFrom_outcomeT {ctx : Ctx} {pr : Prog} (F : SearchFacts ctx pr) (hlen : ctx.len < usizeMax)
    (H : AltOK2 ctx pr.op)
    (hP : ∀ q ∈ pr.pres, CompleteAt ctx q.op ∧ C06.simplePre q.op = true)
    (i : Nat) (hi : i ≤ ctx.len) (st0 : St) (hst0 : st0.panic = none) :
    OutcomeT ctx pr.op i (matchesFrom ctx pr i st0) := by
  unfold matchesFrom
  simp only
  have hst : Good2 pr.op ({ st0 with cap := {} } : St) := ⟨cap2_of_nil _ _ rfl rfl, hst0⟩
  generalize ({ st0 with cap := {} } : St) = st at hst
  have hcov : ∀ j, j ≤ ctx.len → HasP ctx pr.op j → ∃ q, OpR ctx pr.op j q := fun j hj h => h.has hj
  by_cases hbol : pr.hasBol = true
  · rw [if_pos hbol]
    cases hml : ctx.multiLine with
    | false =>
      simp only [Bool.not_false, if_true]
      have honly : ∀ j, j ≤ ctx.len → HasP ctx pr.op j → j = 0 := by
        intro j hj hm
        obtain ⟨q, hq⟩ := hcov j hj hm
        rcases F.bol hbol j q hq with h | h
        · exact h
        · rw [hml] at h; cases h.1
      by_cases h0 : i = 0
      · subst h0
        simp only [bne_self_eq_false, Bool.false_eq_true, if_false]
        exact pre_thenT F hP 0 st hst _ (fun st' hc =>
          matchAt_outcomeT ctx pr.op H 0 hi (fun j _ hjl hm => honly j hjl hm) st' hc)
      · have hne : (i != 0) = true := by simp [h0]
        rw [if_pos hne]
        refine .inr ⟨rfl, hst, fun j hij hjl hmj => ?_⟩
        have := honly j hjl hmj
        omega
    | true =>
      simp only [Bool.not_true, Bool.false_eq_true, if_false]
      apply tryCands_outcomeT ctx pr.op H i _ _ _ _ st hst
      · rw [List.pairwise_cons]
        refine ⟨?_, ?_⟩
        · intro a ha
          simp only [List.mem_filter, List.mem_map, decide_eq_true_eq] at ha
          obtain ⟨⟨k, ⟨hk, _⟩, rfl⟩, _⟩ := ha
          have := mem_rangeFrom hk
          omega
        · apply List.Pairwise.filter
          apply List.Pairwise.map _ _ (List.Pairwise.filter _ (rangeFrom_pairwise i ctx.len))
          intro a b hab
          exact Nat.add_lt_add_right hab 1
      · intro j hj
        simp only [List.mem_cons, List.mem_filter, List.mem_map, decide_eq_true_eq] at hj
        rcases hj with rfl | ⟨⟨k, ⟨hk, _⟩, rfl⟩, hlt⟩
        · exact ⟨Nat.le_refl _, hi⟩
        · have := mem_rangeFrom hk
          omega
      · intro j hij hjl hm
        obtain ⟨q, hq⟩ := hcov j hjl hm
        by_cases hji : j = i
        · subst hji; exact List.mem_cons_self
        · apply List.mem_cons_of_mem
          rcases F.bol hbol j q hq with h | ⟨_, hnl, hlt⟩
          · omega
          · simp only [List.mem_filter, List.mem_map, decide_eq_true_eq]
            refine ⟨⟨j - 1, ⟨?_, ?_⟩, by omega⟩, hlt⟩
            · rw [mem_rangeFrom_iff]
              omega
            · simp only [Ctx.nlAt, hnl, beq_self_eq_true]
  · rw [if_neg hbol]
    rw [if_neg (by omega : ¬ i > ctx.len)]
    by_cases hcut : ctx.len - i < pr.minLen
    · rw [if_pos hcut]
      refine .inr ⟨rfl, hst, ?_⟩
      intro j hij hjl hm
      obtain ⟨q, hq⟩ := hcov j hjl hm
      have h1 := F.minLen j q hq
      have h2 := (C01.OpR_bounds ctx pr.op j q hjl hq).2
      omega
    · rw [if_neg hcut]
      cases hpre : pr.prefix_ with
      | some cs =>
        simp only
        have hcs : ¬ cs.length > ctx.len + 1 := by
          rcases F.prefixLen cs hpre with h | h <;> omega
        rw [if_neg hcs]
        apply tryCands_outcomeT ctx pr.op H i _ _ _ _ st hst
        · exact List.Pairwise.filter _ (rangeFrom_pairwise _ _)
        · intro j hj
          simp only [List.mem_filter] at hj
          have := mem_rangeFrom hj.1
          omega
        · intro j hij hjl hm
          obtain ⟨q, hq⟩ := hcov j hjl hm
          obtain ⟨h1, h2⟩ := F.prefix_ cs hpre j q hq
          simp only [List.mem_filter]
          refine ⟨?_, h2⟩
          rw [mem_rangeFrom_iff]
          omega
      | none =>
        simp only
        cases hicc : pr.icc with
        | some rs =>
          simp only
          apply tryCands_outcomeT ctx pr.op H i _ _ _ _ st hst
          · exact List.Pairwise.filter _ (rangeFrom_pairwise _ _)
          · intro j hj
            simp only [List.mem_filter] at hj
            have := mem_rangeFrom hj.1
            omega
          · intro j hij hjl hm
            obtain ⟨q, hq⟩ := hcov j hjl hm
            obtain ⟨c, h1, h2⟩ := F.icc rs hicc j q hq
            simp only [List.mem_filter]
            refine ⟨?_, by rw [h1]; exact h2⟩
            rw [mem_rangeFrom_iff]
            obtain ⟨hlt, _⟩ := List.getElem?_eq_some_iff.1 h1
            exact ⟨hij, hlt⟩
        | none =>
          simp only
          refine pre_thenT F hP i st hst _ (fun st' hc => ?_)
          apply tryCands_outcomeT ctx pr.op H i _ _ _ _ st' hc
          · exact rangeFrom_pairwise _ _
          · intro j hj
            have := mem_rangeFrom hj
            omega
          · intro j hij hjl _
            rw [mem_rangeFrom_iff]
            omega

end Rx
