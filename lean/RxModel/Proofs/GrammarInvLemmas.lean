/-
  Proofs/GrammarInvLemmas — inversion of the parser: whatever `parseExpr` / `parseBranches` /
  `parseBranch` / `parseTerminal` accept is the rendering of a well-formed tree of Spec/Grammar.
  Inversion lemmas for `bracket`, `pieceQuant`, `escape`, `parseAtomGo`, then one induction on the
  fuel (any fuel).  The class parser enters through the hypothesis `ClassInv`.
-/
import RxModel.Model.Compile
import RxModel.Spec.Grammar
import RxModel.Proofs.GrammarLemmas
import RxModel.Proofs.AnalyzeLemmas
namespace Rx.Grammar
open Rx
open Rx.C03 (SOk)
open Rx.C09 (drop_cons_facts drop_len)
set_option linter.unusedSimpArgs false
set_option linter.unusedVariables false

/-! ### reading the pattern -/

theorem at_lt_of_ne_zero {c : PC} {i : Nat} (h : c.at i ≠ 0) : i < c.len := by
  apply Classical.byContradiction
  intro hn
  apply h
  unfold PC.at
  rw [List.getD_eq_getElem?_getD, List.getElem?_eq_none (by simp only [PC.len] at hn; omega)]
  rfl

theorem drop_at {c : PC} {i : Nat} (h : i < c.len) : c.pat.drop i = c.at i :: c.pat.drop (i + 1) := by
  have hl : i < c.pat.length := h
  rw [List.drop_eq_getElem_cons hl]
  congr 1
  unfold PC.at
  rw [List.getD_eq_getElem?_getD, List.getElem?_eq_getElem hl]
  rfl

/-- the parser went from `s` to `s'` over the text `txt`, opening `g` groups, ending with the closed
    groups `cl'` -/
structure Span (c : PC) (s s' : PS) (txt : List Nat) (g : Nat) (cl' : List Nat) : Prop where
  text : c.pat.drop s.idx = txt ++ c.pat.drop s'.idx
  idx : s'.idx = s.idx + txt.length
  parens : s'.parens = s.parens + g
  caps : s'.captures = cl'

theorem Span.le_len {c : PC} {s s' : PS} {txt : List Nat} {g : Nat} {cl' : List Nat}
    (h : Span c s s' txt g cl') (hs : s.idx ≤ c.len) : s'.idx ≤ c.len := by
  have h1 := congrArg List.length h.text
  simp only [List.length_drop, List.length_append] at h1
  have := h.idx
  simp only [PC.len] at *
  omega

theorem Span.refl (c : PC) (s : PS) : Span c s s [] 0 s.captures :=
  ⟨by simp, by simp, rfl, rfl⟩

theorem Span.trans {c : PC} {s s1 s2 : PS} {t1 t2 : List Nat} {g1 g2 : Nat} {cl1 cl2 : List Nat}
    (h1 : Span c s s1 t1 g1 cl1) (h2 : Span c s1 s2 t2 g2 cl2) :
    Span c s s2 (t1 ++ t2) (g1 + g2) cl2 :=
  ⟨by rw [h1.text, h2.text, List.append_assoc],
   by rw [h2.idx, h1.idx, List.length_append]; omega,
   by rw [h2.parens, h1.parens]; omega, h2.caps⟩

/-! ### digit runs and `{n,m}` -/

theorem takeDigitRun_inv (c : PC) : ∀ (fuel idx acc : Nat), idx ≤ c.len →
    ∃ ds, ds.all isDigit = true ∧
      c.pat.drop idx = ds ++ c.pat.drop (takeDigitRun c fuel idx acc).1 ∧
      (takeDigitRun c fuel idx acc).1 = idx + ds.length ∧
      (takeDigitRun c fuel idx acc).2 = ds.foldl (fun n d => n * 10 + (d - 48)) acc := by
  intro fuel
  induction fuel with
  | zero => intro idx acc _; exact ⟨[], rfl, by simp [takeDigitRun], rfl, rfl⟩
  | succ f ih =>
    intro idx acc hle
    rw [takeDigitRun]
    by_cases hc : (decide (idx < c.len) && isDigit (c.at idx)) = true
    · rw [if_pos hc]
      simp only [Bool.and_eq_true, decide_eq_true_eq] at hc
      obtain ⟨ds, h1, h2, h3, h4⟩ := ih (idx + 1) (acc * 10 + (c.at idx - 48)) (by omega)
      refine ⟨c.at idx :: ds, by simp [hc.2, h1], ?_, ?_, ?_⟩
      · rw [drop_at hc.1, h2]; rfl
      · rw [h3]; simp; omega
      · rw [h4]; rfl
    · rw [if_neg hc]
      exact ⟨[], rfl, by simp, rfl, rfl⟩

/-- a digit run started at a digit is a numeral -/
theorem takeDigitRun_numeral (c : PC) (idx : Nat) (hlt : idx < c.len) (hd : isDigit (c.at idx) = true) :
    ∃ ds, numeral ds = true ∧
      c.pat.drop idx = ds ++ c.pat.drop (takeDigitRun c (c.len + 1) idx 0).1 ∧
      (takeDigitRun c (c.len + 1) idx 0).1 = idx + ds.length ∧
      (takeDigitRun c (c.len + 1) idx 0).2 = Spec.digitsVal ds := by
  rw [takeDigitRun]
  have hc : (decide (idx < c.len) && isDigit (c.at idx)) = true := by simp [hlt, hd]
  rw [if_pos hc]
  obtain ⟨ds, h1, h2, h3, h4⟩ := takeDigitRun_inv c c.len (idx + 1) (0 * 10 + (c.at idx - 48)) (by omega)
  refine ⟨c.at idx :: ds, by simp [numeral, hd, h1], ?_, ?_, ?_⟩
  · rw [drop_at hlt, h2]; rfl
  · rw [h3]; simp; omega
  · rw [h4]; rfl

theorem bracketTail_inv (c : PC) (s s' : PS) (mn idx : Nat) (hlt : idx < c.len)
    (h : bracketTail c s mn idx = .ok () s') :
    (c.pat.drop (idx + 1) = 125 :: c.pat.drop s'.idx ∧ s'.idx = idx + 2 ∧ s'.parens = s.parens ∧
      s'.captures = s.captures) ∨
    (∃ m, numeral m = true ∧ Spec.digitsVal m ≤ usizeMax ∧ mn ≤ Spec.digitsVal m ∧
      c.pat.drop (idx + 1) = m ++ 125 :: c.pat.drop s'.idx ∧ s'.idx = idx + 1 + m.length + 1 ∧
      s'.parens = s.parens ∧ s'.captures = s.captures) := by
  simp only [bracketTail] at h
  by_cases h1 : idx + 1 ≥ c.len
  · rw [if_pos h1] at h; cases h
  rw [if_neg h1] at h
  by_cases h2 : (c.at (idx + 1) == 125) = true
  · rw [if_pos h2] at h
    simp only [PRes.ok.injEq, true_and] at h
    subst h
    left
    refine ⟨?_, rfl, rfl, rfl⟩
    rw [drop_at (by omega), eq_of_beq h2]
  rw [if_neg h2] at h
  by_cases h3 : (!isDigit (c.at (idx + 1))) = true
  · rw [if_pos h3] at h; cases h
  rw [if_neg h3] at h
  have hd : isDigit (c.at (idx + 1)) = true := by simpa using h3
  obtain ⟨m, hm, ht, hi, hv⟩ := takeDigitRun_numeral c (idx + 1) (by omega) hd
  by_cases h4 : (takeDigitRun c (c.len + 1) (idx + 1) 0).2 > usizeMax
  · rw [if_pos h4] at h; cases h
  rw [if_neg h4] at h
  by_cases h5 : (takeDigitRun c (c.len + 1) (idx + 1) 0).2 < mn
  · rw [if_pos h5] at h; cases h
  rw [if_neg h5] at h
  by_cases h6 : (decide ((takeDigitRun c (c.len + 1) (idx + 1) 0).1 ≥ c.len) ||
      c.at (takeDigitRun c (c.len + 1) (idx + 1) 0).1 != 125) = true
  · rw [if_pos h6] at h; cases h
  rw [if_neg h6] at h
  simp only [Bool.or_eq_true, decide_eq_true_eq, bne_iff_ne, ne_eq, not_or, Classical.not_not] at h6
  simp only [PRes.ok.injEq, true_and] at h
  subst h
  right
  refine ⟨m, hm, by rw [← hv]; omega, by rw [← hv]; omega, ?_, ?_, rfl, rfl⟩
  · rw [ht, drop_at (by omega), h6.2]
  · simp only []; rw [hi]

/-- `bracket` accepts exactly `{n}`, `{n,}`, `{n,m}` with numerals below 2^64 and `n ≤ m` -/
theorem bracket_inv (c : PC) (s s' : PS) (h : bracket c s = .ok () s') :
    ∃ k : QKind, k.ok = true ∧ k.inLimit = true ∧ isQuantChar (c.at s.idx) = true ∧
      c.pat.drop s.idx = k.render ++ c.pat.drop s'.idx ∧ s'.idx = s.idx + k.render.length ∧
      s'.parens = s.parens ∧ s'.captures = s.captures := by
  rw [bracket_eq] at h
  by_cases h0 : s.idx ≥ c.len
  · rw [if_pos h0] at h; cases h
  rw [if_neg h0] at h
  by_cases h1 : (c.at s.idx != 123) = true
  · rw [if_pos h1] at h; cases h
  rw [if_neg h1] at h
  have hat : c.at s.idx = 123 := by simpa using h1
  by_cases h2 : (decide (s.idx + 1 ≥ c.len) || !isDigit (c.at (s.idx + 1))) = true
  · rw [if_pos h2] at h; cases h
  rw [if_neg h2] at h
  simp only [Bool.or_eq_true, decide_eq_true_eq, Bool.not_eq_true', not_or, Bool.not_eq_false] at h2
  obtain ⟨n, hn, ht, hi, hv⟩ := takeDigitRun_numeral c (s.idx + 1) (by omega) h2.2
  simp only [] at h
  by_cases h3 : (takeDigitRun c (c.len + 1) (s.idx + 1) 0).2 > usizeMax
  · rw [if_pos h3] at h; cases h
  rw [if_neg h3] at h
  by_cases h4 : (takeDigitRun c (c.len + 1) (s.idx + 1) 0).1 ≥ c.len
  · rw [if_pos h4] at h; cases h
  rw [if_neg h4] at h
  have hq : isQuantChar (c.at s.idx) = true := by rw [hat]; decide
  by_cases h5 : (c.at (takeDigitRun c (c.len + 1) (s.idx + 1) 0).1 == 125) = true
  · rw [if_pos h5] at h
    simp only [PRes.ok.injEq, true_and] at h
    subst h
    refine ⟨.exact n, hn, by simp [QKind.inLimit, ← hv]; omega, hq, ?_, ?_, rfl, rfl⟩
    · rw [drop_at (by omega), hat, ht, drop_at (by omega), eq_of_beq h5]
      simp [QKind.render]
    · simp only [QKind.render, List.length_cons, List.length_append, List.length_nil]; rw [hi]; omega
  rw [if_neg h5] at h
  by_cases h6 : (c.at (takeDigitRun c (c.len + 1) (s.idx + 1) 0).1 != 44) = true
  · rw [if_pos h6] at h; cases h
  rw [if_neg h6] at h
  have h44 : c.at (takeDigitRun c (c.len + 1) (s.idx + 1) 0).1 = 44 := by simpa using h6
  have hpre : c.pat.drop s.idx = 123 :: (n ++ 44 :: c.pat.drop ((takeDigitRun c (c.len + 1) (s.idx + 1) 0).1 + 1)) := by
    rw [drop_at (by omega), hat, ht, drop_at (by omega), h44]
  rcases bracketTail_inv c s s' _ _ (by omega) h with ⟨t1, t2, t3, t4⟩ | ⟨m, hm, hml, hle, t1, t2, t3, t4⟩
  · refine ⟨.atLeast n, hn, by simp [QKind.inLimit, ← hv]; omega, hq, ?_, ?_, t3, t4⟩
    · rw [hpre, t1]; simp [QKind.render]
    · simp only [QKind.render, List.length_cons, List.length_append, List.length_nil]; rw [t2, hi]; omega
  · refine ⟨.range n m, ?_, ?_, hq, ?_, ?_, t3, t4⟩
    · simp only [QKind.ok, hn, hm, Bool.and_self, Bool.true_and, decide_eq_true_eq]
      rw [← hv]; exact hle
    · simp only [QKind.inLimit, Bool.and_eq_true, decide_eq_true_eq]
      exact ⟨by rw [← hv]; omega, hml⟩
    · rw [hpre, t1]; simp [QKind.render]
    · simp only [QKind.render, List.length_cons, List.length_append, List.length_nil]; rw [t2, hi]; omega

/-! ### quantifiers -/

theorem quantHead_inv (c : PC) (s : PS) (hasQ : Bool) (s1 : PS) (hlt : s.idx < c.len)
    (h : quantHead c s = .ok hasQ s1) :
    (hasQ = false ∧ s1 = s ∧ isQuantChar (c.at s.idx) = false) ∨
    (hasQ = true ∧ ∃ k : QKind, k.ok = true ∧ k.inLimit = true ∧
      c.pat.drop s.idx = k.render ++ c.pat.drop s1.idx ∧ s1.idx = s.idx + k.render.length ∧
      s1.parens = s.parens ∧ s1.captures = s.captures) := by
  unfold quantHead at h
  simp only [] at h
  by_cases h63 : c.at s.idx = 63
  · simp only [h63, beq_self_eq_true, Bool.true_or, if_true, PRes.ok.injEq] at h
    obtain ⟨rfl, rfl⟩ := h
    exact .inr ⟨rfl, .opt, rfl, rfl, by rw [drop_at hlt, h63]; rfl, rfl, rfl, rfl⟩
  by_cases h42 : c.at s.idx = 42
  · simp only [h42, beq_self_eq_true, Bool.true_or, Bool.or_true, if_true, PRes.ok.injEq,
      Nat.reduceBEq, Bool.false_or] at h
    obtain ⟨rfl, rfl⟩ := h
    exact .inr ⟨rfl, .star, rfl, rfl, by rw [drop_at hlt, h42]; rfl, rfl, rfl, rfl⟩
  by_cases h43 : c.at s.idx = 43
  · simp only [h43, beq_self_eq_true, Bool.or_true, if_true, PRes.ok.injEq, Nat.reduceBEq,
      Bool.false_or] at h
    obtain ⟨rfl, rfl⟩ := h
    exact .inr ⟨rfl, .plus, rfl, rfl, by rw [drop_at hlt, h43]; rfl, rfl, rfl, rfl⟩
  have e1 : (c.at s.idx == 63 || c.at s.idx == 42 || c.at s.idx == 43) = false := by
    simp [h63, h42, h43]
  rw [e1] at h
  simp only [Bool.false_eq_true, if_false] at h
  by_cases h123 : c.at s.idx = 123
  · simp only [h123, beq_self_eq_true, if_true] at h
    cases hb : bracket c s with
    | err e => rw [hb] at h; cases h
    | ok u s2 =>
      rw [hb] at h
      simp only [PRes.ok.injEq] at h
      obtain ⟨rfl, rfl⟩ := h
      obtain ⟨k, k1, k2, _, k3, k4, k5, k6⟩ := bracket_inv c s s2 hb
      exact .inr ⟨rfl, k, k1, k2, k3, k4, k5, k6⟩
  · have e2 : (c.at s.idx == 123) = false := by simp [h123]
    rw [e2] at h
    simp only [Bool.false_eq_true, if_false, PRes.ok.injEq] at h
    obtain ⟨rfl, rfl⟩ := h
    exact .inl ⟨rfl, rfl, by rw [isQuantChar_false]; exact ⟨h123, h63, h42, h43⟩⟩

/-- `pieceQuant` consumes nothing, or exactly one well-formed quantifier within the parser's limit -/
theorem pieceQuant_inv (c : PC) (ret : Op) (s : PS) (op : Op) (s' : PS) (hs : s.idx ≤ c.len)
    (h : pieceQuant c ret s = .ok op s') :
    ∃ q : Option Quant, qOk c.fl.xsd q = true ∧ qInLimit q = true ∧
      Span c s s' (qRender q) 0 s.captures := by
  by_cases hge : s.idx ≥ c.len
  · rw [pieceQuant, if_pos hge] at h
    simp only [PRes.ok.injEq] at h
    obtain ⟨_, rfl⟩ := h
    exact ⟨none, rfl, rfl, Span.refl c s⟩
  have hlt : s.idx < c.len := by omega
  cases hq : quantHead c s with
  | err e => rw [pieceQuant_err hlt hq] at h; cases h
  | ok hasQ s1 =>
    have hx : (relAt c s1 && c.fl.xsd) = false := by
      cases hb : (relAt c s1 && c.fl.xsd) with
      | false => rfl
      | true =>
        simp only [Bool.and_eq_true] at hb
        rw [pieceQuant_xsd_reluctant hlt hq hb.1 hb.2] at h
        cases h
    obtain ⟨op', hp⟩ := pieceQuant_ok c ret s hlt hasQ s1 hq hx
    rw [hp] at h
    simp only [PRes.ok.injEq] at h
    obtain ⟨_, rfl⟩ := h
    rcases quantHead_inv c s hasQ s1 hlt hq with ⟨rfl, rfl, hnq⟩ | ⟨rfl, k, k1, k2, k3, k4, k5, k6⟩
    · have hrel : relAt c s1 = false := by
        rw [isQuantChar_false] at hnq
        simp [relAt, hnq.2.1]
      rw [hrel]
      exact ⟨none, rfl, rfl, Span.refl c s1⟩
    · cases hrel : relAt c s1 with
      | false =>
        refine ⟨some ⟨k, false⟩, ?_, k2, ?_⟩
        · simp [qOk, Quant.ok, k1]
        · simp only [Bool.false_eq_true, if_false]
          exact ⟨by simpa [qRender, Quant.render] using k3,
            by simpa [qRender, Quant.render] using k4, by simpa using k5, k6⟩
      | true =>
        have hxsd : c.fl.xsd = false := by rw [hrel] at hx; simpa using hx
        simp only [relAt, Bool.and_eq_true, decide_eq_true_eq, beq_iff_eq] at hrel
        refine ⟨some ⟨k, true⟩, ?_, k2, ?_⟩
        · simp [qOk, Quant.ok, k1, hxsd]
        · simp only [if_true]
          refine ⟨?_, ?_, by simpa using k5, k6⟩
          · simp only [qRender, Quant.render, if_true, List.append_assoc]
            rw [k3, drop_at hrel.1, hrel.2]; rfl
          · simp only [qRender, Quant.render, if_true, List.length_append, List.length_cons,
              List.length_nil]
            omega

/-! ### escapes -/

theorem findClose_inv (c : PC) : ∀ (fuel i j : Nat), findClose c fuel i = some j →
    ∃ name, c.pat.drop i = name ++ 125 :: c.pat.drop (j + 1) ∧ name.all (· != 125) = true ∧
      j = i + name.length := by
  intro fuel
  induction fuel with
  | zero => intro i j h; simp [findClose] at h
  | succ f ih =>
    intro i j h
    rw [findClose] at h
    by_cases h1 : i ≥ c.len
    · rw [if_pos h1] at h; cases h
    rw [if_neg h1] at h
    by_cases h2 : (c.at i == 125) = true
    · rw [if_pos h2] at h
      simp only [Option.some.injEq] at h
      subst h
      exact ⟨[], by rw [drop_at (by omega), eq_of_beq h2]; rfl, rfl, rfl⟩
    · rw [if_neg h2] at h
      obtain ⟨name, n1, n2, n3⟩ := ih (i + 1) j h
      refine ⟨c.at i :: name, by rw [drop_at (by omega), n1]; rfl, ?_, by rw [n3]; simp; omega⟩
      simp only [List.all_cons, n2, Bool.and_true, bne_iff_ne, ne_eq]
      simpa using h2

theorem backrefDigits_inv (c : PC) (parens : Nat) : ∀ (fuel idx acc : Nat), idx ≤ c.len →
    c.len - idx < fuel →
    ∃ ds, ds.all isDigit = true ∧
      c.pat.drop idx = ds ++ c.pat.drop (backrefDigits c parens fuel idx acc).1 ∧
      (backrefDigits c parens fuel idx acc).1 = idx + ds.length ∧
      (backrefDigits c parens fuel idx acc).2 = ds.foldl (fun n d => n * 10 + (d - 48)) acc ∧
      backrefFollowOk (parens - 1) (backrefDigits c parens fuel idx acc).2
        (c.pat.drop (backrefDigits c parens fuel idx acc).1) = true := by
  intro fuel
  induction fuel with
  | zero => intro idx acc _ hf; omega
  | succ f ih =>
    intro idx acc hle hf
    rw [backrefDigits]
    by_cases hc : (decide (idx < c.len) && isDigit (c.at idx)) = true
    · rw [if_pos hc]
      simp only [Bool.and_eq_true, decide_eq_true_eq] at hc
      simp only []
      by_cases hgt : acc * 10 + (c.at idx - 48) > parens - 1
      · rw [if_pos hgt]
        refine ⟨[], rfl, by simp, rfl, rfl, ?_⟩
        simp only []
        rw [drop_at hc.1]
        simp only [backrefFollowOk, Bool.not_eq_true', Bool.and_eq_false_iff, decide_eq_false_iff_not]
        right; omega
      · rw [if_neg hgt]
        obtain ⟨ds, h1, h2, h3, h4, h5⟩ := ih (idx + 1) (acc * 10 + (c.at idx - 48)) (by omega) (by omega)
        refine ⟨c.at idx :: ds, by simp [hc.2, h1], ?_, ?_, ?_, h5⟩
        · rw [drop_at hc.1, h2]; rfl
        · rw [h3]; simp; omega
        · rw [h4]; rfl
    · rw [if_neg hc]
      refine ⟨[], rfl, by simp, rfl, rfl, ?_⟩
      simp only []
      by_cases hlt : idx < c.len
      · rw [drop_at hlt]
        have : isDigit (c.at idx) = false := by simpa [hlt] using hc
        simp [backrefFollowOk, this]
      · rw [List.drop_eq_nil_of_le (by simp only [PC.len] at hlt; omega)]; rfl

/-- what `escape` (outside a class) accepts -/
inductive EscInv (c : PC) (s : PS) : Esc → PS → Prop where
  | single (e : Nat) (h : c.pat.drop s.idx = 92 :: e :: c.pat.drop (s.idx + 2))
      (hok : C09.escSingleOk c.fl.xsd e = true) :
      EscInv c s (.chr (C09.escVal e)) { s with idx := s.idx + 2 }
  | cls (e : Nat) (h : c.pat.drop s.idx = 92 :: e :: c.pat.drop (s.idx + 2))
      (hok : C09.clsEscOk e = true) :
      EscInv c s (.set (C09.clsSet c.env e)) { s with idx := s.idx + 2 }
  | prop (pos : Bool) (name : List Nat)
      (h : c.pat.drop s.idx = 92 :: (if pos then 112 else 80) :: 123 ::
        (name ++ 125 :: c.pat.drop (s.idx + 4 + name.length)))
      (hall : name.all (· != 125) = true) (hl : (C09.propLookup c.env name).isSome = true) :
      EscInv c s (.set (C09.propSet c.env pos name)) { s with idx := s.idx + 4 + name.length }
  | backref (ds : List Nat) (hx : c.fl.xsd = false) (hnum : backrefNumeral ds = true)
      (h : c.pat.drop s.idx = 92 :: (ds ++ c.pat.drop (s.idx + 1 + ds.length)))
      (hmem : Spec.digitsVal ds ∈ s.captures)
      (hfol : backrefFollowOk (s.parens - 1) (Spec.digitsVal ds)
        (c.pat.drop (s.idx + 1 + ds.length)) = true) :
      EscInv c s (.backref (Spec.digitsVal ds))
        { s with idx := s.idx + 1 + ds.length, hasBackrefs := true }

theorem escape_head {c : PC} {s : PS} {b : Bool} {r : Esc} {s' : PS} (h : escape c s b = .ok r s') :
    c.at s.idx = 92 ∧ s.idx + 1 < c.len := by
  unfold escape at h
  by_cases h0 : (c.at s.idx != 92) = true
  · rw [if_pos h0] at h; cases h
  rw [if_neg h0] at h
  by_cases h1 : s.idx + 1 ≥ c.len
  · rw [if_pos h1] at h; cases h
  exact ⟨by simpa using h0, by omega⟩

theorem escape_inv_other {c : PC} {s : PS} {r : Esc} {s' : PS} (h : escape c s false = .ok r s')
    (hS : C09.escSingleOk c.fl.xsd (c.at (s.idx + 1)) = false)
    (hC : C09.clsEscOk (c.at (s.idx + 1)) = false)
    (hp : c.at (s.idx + 1) ≠ 112) (hP : c.at (s.idx + 1) ≠ 80)
    (hd : ¬ (49 ≤ c.at (s.idx + 1) ∧ c.at (s.idx + 1) ≤ 57)) : False := by
  obtain ⟨hat0, hlt1⟩ := escape_head h
  have c0 : (c.at s.idx != 92) = false := by simp [hat0]
  have c1 : ¬ (s.idx + 1 ≥ c.len) := by omega
  unfold escape at h
  simp only [c0, c1, Bool.false_eq_true, if_false] at h
  generalize c.at (s.idx + 1) = e at *
  simp only [C09.escSingleOk, Bool.or_eq_false_iff, beq_eq_false_iff_ne, ne_eq, Bool.and_eq_false_iff,
    Bool.not_eq_false] at hS
  simp only [C09.clsEscOk, Bool.or_eq_false_iff, beq_eq_false_iff_ne, ne_eq] at hC
  obtain ⟨⟨⟨⟨⟨⟨⟨⟨⟨⟨⟨⟨⟨⟨⟨⟨⟨s110, s114⟩, s116⟩, s92⟩, s124⟩, s46⟩, s45⟩, s94⟩, s63⟩, s42⟩, s43⟩, s123⟩,
    s125⟩, s40⟩, s41⟩, s91⟩, s93⟩, s36⟩ := hS
  obtain ⟨⟨⟨⟨⟨⟨⟨⟨⟨k115, k83⟩, k105⟩, k73⟩, k99⟩, k67⟩, k100⟩, k68⟩, k119⟩, k87⟩ := hC
  have e1 : ∀ k : Nat, e ≠ k → (e == k) = false := fun k hk => by simpa using hk
  simp only [e1 110 s110, e1 114 s114, e1 116 s116, e1 92 s92, e1 124 s124, e1 46 s46, e1 45 s45,
    e1 94 s94, e1 63 s63, e1 42 s42, e1 43 s43, e1 123 s123, e1 125 s125, e1 40 s40, e1 41 s41,
    e1 91 s91, e1 93 s93, e1 115 k115, e1 83 k83, e1 105 k105, e1 73 k73, e1 99 k99, e1 67 k67,
    e1 100 k100, e1 68 k68, e1 119 k119, e1 87 k87, e1 112 hp, e1 80 hP, Bool.or_self,
    Bool.false_eq_true, if_false] at h
  by_cases h36 : e = 36
  · subst h36
    have hx : c.fl.xsd = true := by simpa using s36
    simp [hx] at h
  · simp only [e1 36 h36, Bool.false_eq_true, if_false] at h
    by_cases h48 : e = 48
    · subst h48; simp at h
    · have e2 : (decide (49 ≤ e) && decide (e ≤ 57)) = false := by
        simp only [Bool.and_eq_false_iff, decide_eq_false_iff_not]
        by_cases h49 : 49 ≤ e
        · right; intro h57; exact hd ⟨h49, h57⟩
        · left; exact h49
      simp only [e1 48 h48, e2, Bool.false_eq_true, if_false] at h
      cases h

theorem escape_inv_prop {c : PC} {s : PS} {r : Esc} {s' : PS} (h : escape c s false = .ok r s')
    (pos : Bool) (he : c.at (s.idx + 1) = if pos then 112 else 80) : EscInv c s r s' := by
  obtain ⟨hat0, hlt1⟩ := escape_head h
  have c0 : (c.at s.idx != 92) = false := by simp [hat0]
  have c1 : ¬ (s.idx + 1 ≥ c.len) := by omega
  unfold escape at h
  simp only [c0, c1, Bool.false_eq_true, if_false] at h
  have hpp : ((c.at (s.idx + 1) == 112 || c.at (s.idx + 1) == 80) = true) ∧
      (c.at (s.idx + 1) == 112) = pos := by
    cases pos <;> simp [he]
  have hchain : ∀ k : Nat, k ≠ 112 → k ≠ 80 → (c.at (s.idx + 1) == k) = false := by
    intro k h1 h2; cases pos <;> simp [he] <;> omega
  simp only [hchain 110 (by decide) (by decide), hchain 114 (by decide) (by decide),
    hchain 116 (by decide) (by decide), hchain 92 (by decide) (by decide),
    hchain 124 (by decide) (by decide), hchain 46 (by decide) (by decide),
    hchain 45 (by decide) (by decide), hchain 94 (by decide) (by decide),
    hchain 63 (by decide) (by decide), hchain 42 (by decide) (by decide),
    hchain 43 (by decide) (by decide), hchain 123 (by decide) (by decide),
    hchain 125 (by decide) (by decide), hchain 40 (by decide) (by decide),
    hchain 41 (by decide) (by decide), hchain 91 (by decide) (by decide),
    hchain 93 (by decide) (by decide), hchain 36 (by decide) (by decide),
    hchain 115 (by decide) (by decide), hchain 83 (by decide) (by decide),
    hchain 105 (by decide) (by decide), hchain 73 (by decide) (by decide),
    hchain 99 (by decide) (by decide), hchain 67 (by decide) (by decide),
    hchain 100 (by decide) (by decide), hchain 68 (by decide) (by decide),
    hchain 119 (by decide) (by decide), hchain 87 (by decide) (by decide),
    Bool.or_self, Bool.false_eq_true, if_false, hpp.1, if_true] at h
  simp only [hpp.2] at h
  by_cases h2 : (s.idx + 2 == c.len) = true
  · rw [if_pos h2] at h; cases h
  rw [if_neg h2] at h
  have hlt2 : s.idx + 2 < c.len := by
    have : s.idx + 2 ≠ c.len := by simpa using h2
    omega
  by_cases h3 : (c.at (s.idx + 2) != 123) = true
  · rw [if_pos h3] at h; cases h
  rw [if_neg h3] at h
  have hat2 : c.at (s.idx + 2) = 123 := by simpa using h3
  cases hfc : findClose c (c.len + 1) (s.idx + 2 + 1) with
  | none => rw [hfc] at h; cases h
  | some close =>
    rw [hfc] at h
    obtain ⟨name, n1, n2, n3⟩ := findClose_inv c _ _ _ hfc
    have hblock : (c.pat.drop (s.idx + 2 + 1)).take (close - (s.idx + 2 + 1)) = name := by
      rw [n1, n3, Nat.add_sub_cancel_left]; simp
    simp only [hblock] at h
    have htext : c.pat.drop s.idx = 92 :: (if pos then 112 else 80) :: 123 ::
        (name ++ 125 :: c.pat.drop (s.idx + 4 + name.length)) := by
      rw [drop_at (by omega), hat0, drop_at hlt1, he, show s.idx + 1 + 1 = s.idx + 2 from rfl,
        drop_at hlt2, hat2, n1, n3,
        show s.idx + 2 + 1 + name.length + 1 = s.idx + 4 + name.length by omega]
    have hfin : ∀ rs, C09.propLookup c.env name = some rs →
        EscInv c s (.set (if pos = true then rs else complR rs))
          { s with idx := close + 1 } := by
      intro rs hl
      have hidx : close + 1 = s.idx + 4 + name.length := by omega
      rw [hidx]
      have := EscInv.prop (c := c) (s := s) pos name htext n2 (by rw [hl]; rfl)
      simpa [C09.propSet, hl] using this
    by_cases hlen : (name.length == 1 || name.length == 2) = true
    · rw [if_pos hlen] at h
      cases hcat : c.env.category name with
      | none => rw [hcat] at h; cases h
      | some rs =>
        rw [hcat] at h
        simp only [PRes.ok.injEq] at h
        obtain ⟨rfl, rfl⟩ := h
        exact hfin rs (by simp [C09.propLookup, hlen, hcat])
    · rw [if_neg hlen] at h
      by_cases hIs : (name.take 2 == [73, 115]) = true
      · rw [if_pos hIs] at h
        cases hblk : c.env.block (name.drop 2) with
        | none => rw [hblk] at h; cases h
        | some rs =>
          rw [hblk] at h
          simp only [PRes.ok.injEq] at h
          obtain ⟨rfl, rfl⟩ := h
          exact hfin rs (by simp [C09.propLookup, hlen, hIs, hblk])
      · rw [if_neg hIs] at h; cases h

theorem escape_inv_backref {c : PC} {s : PS} {r : Esc} {s' : PS} (h : escape c s false = .ok r s')
    (hd : 49 ≤ c.at (s.idx + 1) ∧ c.at (s.idx + 1) ≤ 57) : EscInv c s r s' := by
  obtain ⟨hat0, hlt1⟩ := escape_head h
  have c0 : (c.at s.idx != 92) = false := by simp [hat0]
  have c1 : ¬ (s.idx + 1 ≥ c.len) := by omega
  unfold escape at h
  simp only [c0, c1, Bool.false_eq_true, if_false] at h
  have htext0 : c.pat.drop s.idx = 92 :: c.at (s.idx + 1) :: c.pat.drop (s.idx + 2) := by
    rw [drop_at (by omega), hat0, drop_at hlt1]
  generalize c.at (s.idx + 1) = d at *
  have e1 : ∀ k : Nat, k < 49 ∨ 57 < k → (d == k) = false := by
    intro k hk; rw [beq_eq_false_iff_ne]; omega
  simp only [e1 110 (by omega), e1 114 (by omega), e1 116 (by omega), e1 92 (by omega),
    e1 124 (by omega), e1 46 (by omega), e1 45 (by omega), e1 94 (by omega), e1 63 (by omega),
    e1 42 (by omega), e1 43 (by omega), e1 123 (by omega), e1 125 (by omega), e1 40 (by omega),
    e1 41 (by omega), e1 91 (by omega), e1 93 (by omega), e1 36 (by omega), e1 115 (by omega),
    e1 83 (by omega), e1 105 (by omega), e1 73 (by omega), e1 99 (by omega), e1 67 (by omega),
    e1 100 (by omega), e1 68 (by omega), e1 119 (by omega), e1 87 (by omega), e1 112 (by omega),
    e1 80 (by omega), e1 48 (by omega), Bool.or_self, Bool.false_eq_true, if_false] at h
  have e2 : (decide (49 ≤ d) && decide (d ≤ 57)) = true := by simp [hd.1, hd.2]
  simp only [e2, if_true] at h
  cases hx : c.fl.xsd with
  | true => rw [hx] at h; simp at h
  | false =>
    rw [hx] at h
    simp only [Bool.false_eq_true, if_false] at h
    obtain ⟨ds, b1, b2, b3, b4, b5⟩ :=
      backrefDigits_inv c s.parens (c.len + 1) (s.idx + 2) (d - 48) (by omega) (by omega)
    by_cases hm : (!decide ((backrefDigits c s.parens (c.len + 1) (s.idx + 2) (d - 48)).2 ∈ s.captures)) = true
    · rw [if_pos hm] at h; cases h
    rw [if_neg hm] at h
    simp only [PRes.ok.injEq] at h
    obtain ⟨rfl, rfl⟩ := h
    have hmem : (backrefDigits c s.parens (c.len + 1) (s.idx + 2) (d - 48)).2 ∈ s.captures := by
      simpa using hm
    have hv : Spec.digitsVal (d :: ds) = (backrefDigits c s.parens (c.len + 1) (s.idx + 2) (d - 48)).2 := by
      rw [b4]; simp [Spec.digitsVal]
    have hidx : (backrefDigits c s.parens (c.len + 1) (s.idx + 2) (d - 48)).1 =
        s.idx + 1 + (d :: ds).length := by rw [b3]; simp; omega
    have hnum : backrefNumeral (d :: ds) = true := by
      have hdig : isDigit d = true := by simp [isDigit]; omega
      simp only [backrefNumeral, List.all_cons, hdig, b1, Bool.and_self, Bool.true_and, bne_iff_ne, ne_eq]
      omega
    rw [← hv, hidx]
    refine EscInv.backref (d :: ds) hx hnum ?_ (by rw [hv]; exact hmem) ?_
    · rw [htext0, b2, hidx]; rfl
    · rw [hv, ← hidx]; exact b5

/-- inversion of `escape` outside a class -/
theorem escape_inv {c : PC} {s : PS} {r : Esc} {s' : PS} (h : escape c s false = .ok r s') :
    EscInv c s r s' := by
  obtain ⟨hat0, hlt1⟩ := escape_head h
  have htext : c.pat.drop s.idx = 92 :: c.at (s.idx + 1) :: c.pat.drop (s.idx + 2) := by
    rw [drop_at (by omega), hat0, drop_at hlt1]
  cases hS : C09.escSingleOk c.fl.xsd (c.at (s.idx + 1)) with
  | true =>
    rw [C09.escape_single false htext hS] at h
    simp only [PRes.ok.injEq] at h
    obtain ⟨rfl, rfl⟩ := h
    exact EscInv.single _ htext hS
  | false =>
    cases hC : C09.clsEscOk (c.at (s.idx + 1)) with
    | true =>
      rw [C09.escape_cls false htext hC] at h
      simp only [PRes.ok.injEq] at h
      obtain ⟨rfl, rfl⟩ := h
      exact EscInv.cls _ htext hC
    | false =>
      by_cases hp : c.at (s.idx + 1) = 112
      · exact escape_inv_prop h true (by simpa using hp)
      by_cases hP : c.at (s.idx + 1) = 80
      · exact escape_inv_prop h false (by simpa using hP)
      by_cases hd : 49 ≤ c.at (s.idx + 1) ∧ c.at (s.idx + 1) ≤ 57
      · exact escape_inv_backref h hd
      exact (escape_inv_other h hS hC hp hP hd).elim

/-- `escape` keeps the group bookkeeping -/
theorem EscInv.sim {c : PC} {s : PS} {r : Esc} {s' : PS} (h : EscInv c s r s') :
    s'.parens = s.parens ∧ s'.captures = s.captures ∧ s.idx < s'.idx := by
  cases h <;> exact ⟨rfl, rfl, by simp only []; omega⟩

/-! ### runs of characters -/

def renderAtoms : List Atom → List Nat
  | [] => []
  | a :: as => a.render ++ renderAtoms as

/-- atoms that are characters or single-character escapes, each well formed -/
def CharAtoms (xsd : Bool) (env : Env) (L : List Atom) : Prop :=
  ∀ a ∈ L, a.isChar = true ∧ a.ok xsd env 0 [] = true

/-- the pieces `L` (unquantified) in front of the branch `b` -/
def consChars (L : List Atom) (b : Branch) : Branch := L.foldr (fun a b => .cons a none b) b

theorem isChar_ok_any {xsd : Bool} {env : Env} {a : Atom} (h : a.isChar = true) (n : Nat)
    (cl : List Nat) : a.ok xsd env n cl = a.ok xsd env 0 [] := by
  cases a <;> first | rfl | cases h

theorem consChars_render (L : List Atom) (b : Branch) :
    (consChars L b).render = renderAtoms L ++ b.render := by
  induction L with
  | nil => rfl
  | cons a as ih =>
    simp only [consChars, List.foldr_cons] at ih ⊢
    simp only [Branch.render, qRender, List.nil_append, renderAtoms, ih, List.append_assoc]

theorem consChars_facts {xsd : Bool} {env : Env} (L : List Atom) (hL : CharAtoms xsd env L)
    (b : Branch) (n : Nat) (cl : List Nat) :
    (consChars L b).ok xsd env n cl = b.ok xsd env n cl ∧ (consChars L b).groups = b.groups ∧
      (consChars L b).closed n cl = b.closed n cl ∧ (consChars L b).inLimit = b.inLimit := by
  induction L with
  | nil => exact ⟨rfl, rfl, rfl, rfl⟩
  | cons a as ih =>
    have ha := hL a (List.mem_cons_self ..)
    obtain ⟨i1, i2, i3, i4⟩ := ih (fun x hx => hL x (List.mem_cons_of_mem _ hx))
    obtain ⟨hg, hcl⟩ := isChar_facts ha.1 n cl
    have hch := ha.1
    have hlim : a.inLimit = true := by cases a <;> first | rfl | cases hch
    have hfol : ∀ X, a.followOk n X = true := by
      intro X; cases a <;> first | rfl | cases hch
    simp only [consChars, List.foldr_cons] at i1 i2 i3 i4 ⊢
    refine ⟨?_, ?_, ?_, ?_⟩
    · simp only [Branch.ok, isChar_ok_any ha.1, ha.2, qOk, hfol, hg, hcl, Nat.add_zero, i1,
        Bool.true_and]
    · simp only [Branch.groups, hg, i2, Nat.zero_add]
    · simp only [Branch.closed, hg, hcl, Nat.add_zero, i3]
    · simp only [Branch.inLimit, hlim, qInLimit, i4, Bool.true_and]

theorem Span.of_sim {c : PC} {s s2 s' : PS} {t : List Nat} {g : Nat} {cl : List Nat}
    (hs : Sim s2 s) (h : Span c s2 s' t g cl) : Span c s s' t g cl :=
  ⟨by rw [← hs.1]; exact h.text, by rw [← hs.1]; exact h.idx, by rw [← hs.2.1]; exact h.parens, h.caps⟩

theorem Span.sim {c : PC} {s s' : PS} (hs : Sim s' s) : Span c s s' [] 0 s.captures :=
  ⟨by rw [hs.1]; simp, by rw [hs.1]; simp, by rw [hs.2.1]; simp, hs.2.2⟩

theorem lookAhead_inv {c : PC} {s : PS} {ub : List Nat} {bq : Bool} {s2 : PS}
    (h : lookAhead c s ub = .ok bq s2) : Sim s2 s := by
  unfold lookAhead at h
  by_cases h1 : s.idx + 1 < c.len
  · rw [if_pos h1] at h
    by_cases h2 : (c.at s.idx == 92) = true
    · rw [if_pos h2] at h
      cases he : escape c s false with
      | err e => rw [he] at h; cases h
      | ok r s' =>
        rw [he] at h
        simp only [PRes.ok.injEq] at h
        obtain ⟨_, rfl⟩ := h
        obtain ⟨p1, p2, _⟩ := (escape_inv he).sim
        exact ⟨rfl, p1, p2⟩
    · rw [if_neg h2] at h
      simp only [PRes.ok.injEq] at h
      obtain ⟨_, rfl⟩ := h
      exact Sim.rfl'
  · rw [if_neg h1] at h
    simp only [PRes.ok.injEq] at h
    obtain ⟨_, rfl⟩ := h
    exact Sim.rfl'

/-- one pass through the character dispatch: the loop stops, or takes one character atom -/
theorem dispatch_inv {c : PC} {f : Nat} {s : PS} {ub ub' : List Nat} {s' : PS}
    (hlt : s.idx < c.len) (h : dispatch c f s ub = .ok ub' s') :
    (ub' = ub ∧ Sim s' s) ∨
    (∃ (a : Atom) (s1 : PS) (x : Nat), a.isChar = true ∧ a.ok c.fl.xsd c.env 0 [] = true ∧
      Span c s s1 a.render 0 s.captures ∧ parseAtomGo c f s1 (ub ++ [x]) = .ok ub' s') := by
  unfold dispatch at h
  simp only [] at h
  by_cases h1 : (c.at s.idx == 93 || c.at s.idx == 46 || c.at s.idx == 91 || c.at s.idx == 40 ||
      c.at s.idx == 41 || c.at s.idx == 124) = true
  · rw [if_pos h1] at h
    simp only [PRes.ok.injEq] at h
    exact .inl ⟨h.1.symm, h.2 ▸ Sim.rfl'⟩
  rw [if_neg h1] at h
  by_cases h2 : isQuantChar (c.at s.idx) = true
  · rw [if_pos h2] at h
    by_cases h3 : ub.isEmpty = true
    · rw [if_pos h3] at h; cases h
    · rw [if_neg h3] at h
      simp only [PRes.ok.injEq] at h
      exact .inl ⟨h.1.symm, h.2 ▸ Sim.rfl'⟩
  rw [if_neg h2] at h
  by_cases h4 : (c.at s.idx == 125) = true
  · rw [if_pos h4] at h; cases h
  rw [if_neg h4] at h
  by_cases h5 : (c.at s.idx == 92) = true
  · rw [if_pos h5] at h
    cases he : escape c s false with
    | err e => rw [he] at h; cases h
    | ok r s1 =>
      rw [he] at h
      have hinv := escape_inv he
      obtain ⟨p1, p2, _⟩ := hinv.sim
      cases r with
      | chr x =>
        simp only [] at h
        cases hinv with
        | single e ht hok =>
          exact .inr ⟨Atom.esc e, { s with idx := s.idx + 2 }, _, rfl, hok,
            ⟨by simpa [Atom.render] using ht, rfl, rfl, rfl⟩, h⟩
      | set rs =>
        simp only [PRes.ok.injEq] at h
        exact .inl ⟨h.1.symm, h.2 ▸ ⟨rfl, p1, p2⟩⟩
      | backref k =>
        simp only [PRes.ok.injEq] at h
        exact .inl ⟨h.1.symm, h.2 ▸ ⟨rfl, p1, p2⟩⟩
  rw [if_neg h5] at h
  by_cases h6 : ((c.at s.idx == 94 || c.at s.idx == 36) && !c.fl.xsd) = true
  · rw [if_pos h6] at h
    simp only [PRes.ok.injEq] at h
    exact .inl ⟨h.1.symm, h.2 ▸ Sim.rfl'⟩
  rw [if_neg h6] at h
  refine .inr ⟨Atom.chr (c.at s.idx), { s with idx := s.idx + 1 }, _, rfl, ?_,
    ⟨by simpa [Atom.render] using drop_at hlt, rfl, rfl, rfl⟩, h⟩
  simp only [Atom.ok, normalChar]
  simp only [Bool.or_eq_true, beq_iff_eq, not_or] at h1
  rw [Bool.not_eq_true, isQuantChar_false] at h2
  simp only [beq_iff_eq] at h4 h5
  obtain ⟨⟨⟨⟨⟨a93, a46⟩, a91⟩, a40⟩, a41⟩, a124⟩ := h1
  obtain ⟨a123, a63, a42, a43⟩ := h2
  have e : ∀ k : Nat, c.at s.idx ≠ k → (c.at s.idx == k) = false := fun k hk => by simpa using hk
  simp only [e 46 a46, e 92 h5, e 63 a63, e 42 a42, e 43 a43, e 123 a123, e 125 h4, e 40 a40,
    e 41 a41, e 124 a124, e 91 a91, e 93 a93, Bool.or_self, Bool.not_false, Bool.true_and]
  cases hx : c.fl.xsd with
  | true => rfl
  | false =>
    rw [hx] at h6
    simpa using h6

theorem CharAtoms.nil {xsd : Bool} {env : Env} : CharAtoms xsd env [] := fun _ h => by cases h

theorem CharAtoms.cons {xsd : Bool} {env : Env} {a : Atom} {L : List Atom} (h1 : a.isChar = true)
    (h2 : a.ok xsd env 0 [] = true) (hL : CharAtoms xsd env L) : CharAtoms xsd env (a :: L) := by
  intro x hx
  rcases List.mem_cons.1 hx with rfl | hx
  · exact ⟨h1, h2⟩
  · exact hL x hx

/-- the atom loop consumes a run of well-formed character atoms, one per literal character -/
theorem parseAtomGo_inv (c : PC) : ∀ (f : Nat) (s : PS) (ub ub' : List Nat) (s' : PS),
    parseAtomGo c f s ub = .ok ub' s' →
    ∃ L, CharAtoms c.fl.xsd c.env L ∧ Span c s s' (renderAtoms L) 0 s.captures ∧
      ub'.length = ub.length + L.length := by
  intro f
  induction f with
  | zero =>
    intro s ub ub' s' h
    rw [parseAtomGo] at h
    simp only [PRes.ok.injEq] at h
    obtain ⟨rfl, rfl⟩ := h
    exact ⟨[], CharAtoms.nil, Span.refl c s, rfl⟩
  | succ f ih =>
    intro s ub ub' s' h
    rw [parseAtomGo_succ] at h
    by_cases hge : ¬ s.idx < c.len
    · rw [if_neg hge] at h
      simp only [PRes.ok.injEq] at h
      obtain ⟨rfl, rfl⟩ := h
      exact ⟨[], CharAtoms.nil, Span.refl c s, rfl⟩
    have hlt : s.idx < c.len := Classical.not_not.mp hge
    rw [if_pos hlt] at h
    cases hla : lookAhead c s ub with
    | err e => rw [hla] at h; cases h
    | ok bq s2 =>
      rw [hla] at h
      have hs2 := lookAhead_inv hla
      cases bq with
      | true =>
        simp only [PRes.ok.injEq] at h
        obtain ⟨rfl, rfl⟩ := h
        exact ⟨[], CharAtoms.nil, Span.sim hs2, rfl⟩
      | false =>
        simp only [] at h
        rcases dispatch_inv (by rw [hs2.1]; exact hlt) h with ⟨rfl, hs'⟩ | ⟨a, s1, x, a1, a2, a3, a4⟩
        · exact ⟨[], CharAtoms.nil,
            Span.sim ⟨hs'.1.trans hs2.1, hs'.2.1.trans hs2.2.1, hs'.2.2.trans hs2.2.2⟩, rfl⟩
        · obtain ⟨L, l1, l2, l3⟩ := ih s1 _ _ _ a4
          refine ⟨a :: L, CharAtoms.cons a1 a2 l1, ?_, by rw [l3]; simp; omega⟩
          have := Span.trans a3 (a3.caps ▸ l2)
          simpa [renderAtoms, hs2.2.2] using Span.of_sim hs2 this

theorem renderAtoms_append (L1 L2 : List Atom) :
    renderAtoms (L1 ++ L2) = renderAtoms L1 ++ renderAtoms L2 := by
  induction L1 with
  | nil => rfl
  | cons a as ih => simp only [List.cons_append, renderAtoms, ih, List.append_assoc]

theorem exists_snoc {α : Type} : ∀ (L : List α), L ≠ [] → ∃ front a, L = front ++ [a]
  | [], h => absurd rfl h
  | [a], _ => ⟨[], a, rfl⟩
  | a :: b :: t, _ => by
    obtain ⟨front, x, hx⟩ := exists_snoc (b :: t) (by simp)
    exact ⟨a :: front, x, by rw [hx]; rfl⟩

/-- `parse_atom` returns a non-empty run of well-formed character atoms -/
theorem parseAtom_inv {c : PC} {s : PS} {op : Op} {s' : PS} (h : parseAtom c s = .ok op s') :
    ∃ (front : List Atom) (a : Atom), CharAtoms c.fl.xsd c.env front ∧ a.isChar = true ∧
      a.ok c.fl.xsd c.env 0 [] = true ∧ Span c s s' (renderAtoms front ++ a.render) 0 s.captures := by
  unfold parseAtom at h
  cases hg : parseAtomGo c (c.len + 2) s [] with
  | err e => rw [hg] at h; cases h
  | ok ub s1 =>
    rw [hg] at h
    simp only [] at h
    by_cases he : ub.isEmpty = true
    · rw [if_pos he] at h; cases h
    rw [if_neg he] at h
    simp only [PRes.ok.injEq] at h
    obtain ⟨_, rfl⟩ := h
    obtain ⟨L, l1, l2, l3⟩ := parseAtomGo_inv c _ _ _ _ _ hg
    have hne : L ≠ [] := by
      intro hL; subst hL
      simp only [List.length_nil, Nat.add_zero] at l3
      have : ub = [] := List.length_eq_zero_iff.1 l3
      subst this; exact he rfl
    obtain ⟨front, a, rfl⟩ := exists_snoc L hne
    refine ⟨front, a, fun x hx => l1 x (List.mem_append_left _ hx), (l1 a (by simp)).1,
      (l1 a (by simp)).2, ?_⟩
    simpa [renderAtoms_append, renderAtoms] using l2

/-! ### the class parser: bookkeeping, and its inversion as a hypothesis -/

/-- group counter and closed groups are `p`, `cl` -/
def FX (p : Nat) (cl : List Nat) : PS → Prop := fun s => s.parens = p ∧ s.captures = cl

macro "fx_next" h:term "with" h1:ident : tactic =>
  `(tactic| (split <;> first | exact SOk.err | (rename_i heq; have $h1 := ($h) _ _ heq)))

theorem escape_fx (c : PC) (p : Nat) (cl : List Nat) (s : PS) (hst : FX p cl s) (inB : Bool) :
    SOk (FX p cl) (escape c s inB) := by
  unfold escape
  dsimp only
  repeat' first
    | exact SOk.err
    | apply SOk.ite
    | exact SOk.ok hst
    | split

theorem class_fx (c : PC) (p : Nat) (cl : List Nat) (f : Nat) :
    (∀ s, FX p cl s → SOk (FX p cl) (parseClass c f s)) ∧
    (∀ s k, FX p cl s → SOk (FX p cl) (classLoop c f s k)) := by
  induction f with
  | zero =>
    refine ⟨fun s _ => ?_, fun s k _ => ?_⟩
    · rw [parseClass]; exact SOk.err
    · rw [classLoop]; exact SOk.err
  | succ f ih =>
    obtain ⟨ihC, ihL⟩ := ih
    refine ⟨fun s hb => ?_, fun s k hb => ?_⟩
    · simp only [parseClass]
      repeat' first
        | exact SOk.err
        | apply SOk.ite
        | exact ihL _ _ hb
    · simp only [classLoop]
      repeat' first
        | exact SOk.err
        | apply SOk.ite
        | exact ihL _ _ hb
        | (apply SOk.ok; exact hb)
      all_goals first
        | (fx_next (escape_fx c p cl s hb true) with h1 <;>
            repeat' first
              | exact SOk.err | apply SOk.ite | exact ihL _ _ h1 | split)
        | (fx_next (ihC { s with idx := s.idx + 1 } hb) with h1 <;>
            repeat' first
              | exact SOk.err | apply SOk.ite | exact ihL _ _ h1 | split)
        | (repeat' first | exact SOk.err | exact ihL _ _ hb | split)

/-- INVERSION OF THE CLASS PARSER (proved elsewhere, plugged in as a hypothesis): whatever
    `parse_character_class` accepts is the rendering of a well-formed class expression -/
def ClassInv (c : PC) : Prop :=
  ∀ fuel s R s', parseClass c fuel s = .ok R s' →
    ∃ e : C09.CExpr, e.ok c.fl.xsd c.env = true ∧
      (c.pat.drop s.idx).take (s'.idx - s.idx) = e.render ∧ s.idx < s'.idx ∧ s'.idx ≤ c.len

theorem ClassInv.span {c : PC} (hcls : ClassInv c) {fuel : Nat} {s : PS} {R : Ranges} {s' : PS}
    (h : parseClass c fuel s = .ok R s') :
    ∃ e : C09.CExpr, e.ok c.fl.xsd c.env = true ∧ Span c s s' e.render 0 s.captures := by
  obtain ⟨e, e1, e2, e3, e4⟩ := hcls fuel s R s' h
  have hfx := (class_fx c s.parens s.captures fuel).1 s ⟨rfl, rfl⟩ R s' h
  refine ⟨e, e1, ?_, ?_, by rw [hfx.1]; rfl, hfx.2⟩
  · have := (List.take_append_drop (s'.idx - s.idx) (c.pat.drop s.idx)).symm
    rw [e2, List.drop_drop] at this
    rw [this]
    congr 2
    omega
  · have := congrArg List.length e2
    rw [List.length_take, List.length_drop] at this
    simp only [PC.len] at e4
    omega

/-- a pattern without `[` never reaches the class parser -/
theorem classInv_of_no_bracket (c : PC) (h : 91 ∉ c.pat) : ClassInv c := by
  intro fuel s R s' hp
  exfalso
  cases fuel with
  | zero => rw [parseClass] at hp; cases hp
  | succ f =>
    rw [parseClass] at hp
    by_cases h1 : (c.at s.idx != 91) = true
    · rw [if_pos h1] at hp; cases hp
    · have hat : c.at s.idx = 91 := by simpa using h1
      have hlt : s.idx < c.len := at_lt_of_ne_zero (by rw [hat]; decide)
      apply h
      have := drop_at hlt
      rw [hat] at this
      have hm : 91 ∈ c.pat.drop s.idx := by rw [this]; simp
      exact List.mem_of_mem_drop hm

/-! ### the recursive descent, inverted -/

theorem exprOpen_inv {c : PC} {s : PS} {top : Bool} {paren : Nat} {s1 : PS}
    (h : exprOpen c s top = .ok paren s1) :
    (paren = 0 ∧ s1 = s ∧ (top = true ∨ c.at s.idx ≠ 40)) ∨
    (paren = 1 ∧ top = false ∧ c.at s.idx = 40 ∧
      s1 = { s with idx := s.idx + 1, parens := s.parens + 1 }) ∨
    (paren = 2 ∧ top = false ∧ c.fl.xsd = false ∧ s.idx + 2 < c.len ∧ c.at s.idx = 40 ∧
      c.at (s.idx + 1) = 63 ∧ c.at (s.idx + 2) = 58 ∧ s1 = { s with idx := s.idx + 3 }) := by
  unfold exprOpen at h
  by_cases h1 : (!top && c.at s.idx == 40) = true
  · rw [if_pos h1] at h
    simp only [Bool.and_eq_true, Bool.not_eq_true', beq_iff_eq] at h1
    by_cases h2 : (decide (s.idx + 2 < c.len) && c.at (s.idx + 1) == 63 && c.at (s.idx + 2) == 58) = true
    · rw [if_pos h2] at h
      simp only [Bool.and_eq_true, decide_eq_true_eq, beq_iff_eq] at h2
      cases hx : c.fl.xsd with
      | true => rw [hx] at h; simp at h
      | false =>
        rw [hx] at h
        simp only [Bool.false_eq_true, if_false, PRes.ok.injEq] at h
        exact .inr (.inr ⟨h.1.symm, h1.1, rfl, h2.1.1, h1.2, h2.1.2, h2.2, h.2.symm⟩)
    · rw [if_neg h2] at h
      simp only [PRes.ok.injEq] at h
      exact .inr (.inl ⟨h.1.symm, h1.1, h1.2, h.2.symm⟩)
  · rw [if_neg h1] at h
    simp only [PRes.ok.injEq] at h
    refine .inl ⟨h.1.symm, h.2.symm, ?_⟩
    cases top with
    | true => exact .inl rfl
    | false => right; intro h40; apply h1; simp [h40]

theorem exprBody_inv {c : PC} {f cp paren : Nat} {s1 : PS} {op : Op} {s' : PS}
    (h : exprBody c f cp paren s1 = .ok op s') :
    ∃ b1 sA bs sB, parseBranch c f s1 none = .ok b1 sA ∧ parseBranches c f sA [b1] = .ok bs sB ∧
      ((paren = 0 ∧ s' = sB) ∨
       (paren ≠ 0 ∧ sB.idx < c.len ∧ c.at sB.idx = 41 ∧
         s' = if paren = 1 then { sB with idx := sB.idx + 1, captures := cp :: sB.captures }
              else { sB with idx := sB.idx + 1 })) := by
  unfold exprBody at h
  cases hb : parseBranch c f s1 none with
  | err e => rw [hb] at h; cases h
  | ok b1 sA =>
    rw [hb] at h
    simp only [] at h
    cases hbs : parseBranches c f sA [b1] with
    | err e => rw [hbs] at h; cases h
    | ok bs sB =>
      rw [hbs] at h
      simp only [] at h
      refine ⟨b1, sA, bs, sB, rfl, hbs, ?_⟩
      by_cases hp : paren = 0
      · subst hp
        simp only [bne_self_eq_false, Bool.false_eq_true, if_false, PRes.ok.injEq] at h
        exact .inl ⟨rfl, h.2.symm⟩
      · have hp' : (paren != 0) = true := by simpa using hp
        rw [if_pos hp'] at h
        by_cases hc : (decide (sB.idx < c.len) && c.at sB.idx == 41) = true
        · rw [if_pos hc] at h
          simp only [Bool.and_eq_true, decide_eq_true_eq, beq_iff_eq] at hc
          refine .inr ⟨hp, hc.1, hc.2, ?_⟩
          by_cases h1 : paren = 1
          · subst h1
            simp only [beq_self_eq_true, if_true, PRes.ok.injEq] at h
            simp only [if_true]; exact h.2.symm
          · have h1' : (paren == 1) = false := by simpa using h1
            rw [h1'] at h
            simp only [Bool.false_eq_true, if_false, PRes.ok.injEq] at h
            rw [if_neg h1]; exact h.2.symm
        · rw [if_neg hc] at h; cases h

/-- `parse_terminal`: a (possibly merged) run of character pieces ending in the atom `a`, or a
    single atom `a` of any other kind -/
def IT (c : PC) (f : Nat) : Prop :=
  ∀ (s : PS) (ret : Op) (s' : PS) (n : Nat), parseTerminal c f s = .ok ret s' → s.parens = n + 1 →
    s.idx ≤ c.len →
    ∃ (front : List Atom) (a : Atom), CharAtoms c.fl.xsd c.env front ∧
      a.ok c.fl.xsd c.env n s.captures = true ∧ a.inLimit = true ∧
      a.followOk n (c.pat.drop s'.idx) = true ∧
      Span c s s' (renderAtoms front ++ a.render) a.groups (a.closed n s.captures)

def IB (c : PC) (f : Nat) : Prop :=
  ∀ (s : PS) (cur : Option Op) (op : Op) (s' : PS) (n : Nat), parseBranch c f s cur = .ok op s' →
    s.parens = n + 1 → s.idx ≤ c.len →
    ∃ b : Branch, b.ok c.fl.xsd c.env n s.captures = true ∧ b.inLimit = true ∧
      Span c s s' b.render b.groups (b.closed n s.captures)

def IBs (c : PC) (f : Nat) : Prop :=
  ∀ (s : PS) (acc l : List Op) (s' : PS) (n : Nat), parseBranches c f s acc = .ok l s' →
    s.parens = n + 1 → s.idx ≤ c.len →
    Span c s s' [] 0 s.captures ∨
    ∃ r : RegExp, r.ok c.fl.xsd c.env n s.captures = true ∧ r.inLimit = true ∧
      Span c s s' (124 :: r.render) r.groups (r.closed n s.captures)

def IE (c : PC) (f : Nat) : Prop :=
  ∀ (s : PS) (op : Op) (s' : PS) (n : Nat), parseExpr c f s false = .ok op s' → c.at s.idx = 40 →
    s.parens = n + 1 →
    ∃ a : Atom, a.ok c.fl.xsd c.env n s.captures = true ∧ a.inLimit = true ∧
      (∀ X, a.followOk n X = true) ∧ Span c s s' a.render a.groups (a.closed n s.captures)

/-- first branch and `|`-loop together make a regExp -/
theorem body_inv {c : PC} {f : Nat} (hB : IB c f) (hBs : IBs c f) {s sA sB : PS} {b1 : Op}
    {bs : List Op} {n : Nat} (h1 : parseBranch c f s none = .ok b1 sA)
    (h2 : parseBranches c f sA [b1] = .ok bs sB) (hp : s.parens = n + 1) (hs : s.idx ≤ c.len) :
    ∃ r : RegExp, r.ok c.fl.xsd c.env n s.captures = true ∧ r.inLimit = true ∧
      Span c s sB r.render r.groups (r.closed n s.captures) := by
  obtain ⟨b, b1', b2, b3⟩ := hB s none b1 sA n h1 hp hs
  have hpA : sA.parens = (n + b.groups) + 1 := by rw [b3.parens, hp]; omega
  rcases hBs sA [b1] bs sB (n + b.groups) h2 hpA (b3.le_len hs) with hsp | ⟨r, r1, r2, r3⟩
  · refine ⟨.one b, b1', b2, ?_⟩
    have := Span.trans b3 hsp
    rw [b3.caps] at this
    simpa [RegExp.render, RegExp.groups, RegExp.closed] using this
  · rw [b3.caps] at r1 r3
    refine ⟨.alt b r, by simp [RegExp.ok, b1', r1], by simp [RegExp.inLimit, b2, r2], ?_⟩
    have := Span.trans b3 r3
    simpa [RegExp.render, RegExp.groups, RegExp.closed] using this

theorem IBs_step {c : PC} {f : Nat} (hB : IB c f) (hBs : IBs c f) : IBs c (f + 1) := by
  intro s acc l s' n h hp hs
  rw [parseBranches] at h
  by_cases hc : (decide (s.idx < c.len) && c.at s.idx == 124) = true
  · rw [if_pos hc] at h
    simp only [Bool.and_eq_true, decide_eq_true_eq, beq_iff_eq] at hc
    cases hb : parseBranch c f { s with idx := s.idx + 1 } none with
    | err e => rw [hb] at h; cases h
    | ok b1 sA =>
      rw [hb] at h
      simp only [] at h
      obtain ⟨b, b1', b2, b3⟩ := hB { s with idx := s.idx + 1 } none b1 sA n hb hp (by simp only []; omega)
      have hbar : Span c s { s with idx := s.idx + 1 } [124] 0 s.captures :=
        ⟨by rw [drop_at hc.1, hc.2]; rfl, rfl, rfl, rfl⟩
      have hpA : sA.parens = (n + b.groups) + 1 := by rw [b3.parens]; simp only []; omega
      have hsA : sA.idx ≤ c.len := b3.le_len (by simp only []; omega)
      right
      rcases hBs sA (acc ++ [b1]) l s' (n + b.groups) h hpA hsA with hsp | ⟨r, r1, r2, r3⟩
      · refine ⟨.one b, b1', b2, ?_⟩
        have := Span.trans hbar (Span.trans b3 hsp)
        rw [b3.caps] at this
        simpa [RegExp.render, RegExp.groups, RegExp.closed] using this
      · rw [b3.caps] at r1 r3
        refine ⟨.alt b r, by simp [RegExp.ok, b1', r1], by simp [RegExp.inLimit, b2, r2], ?_⟩
        have := Span.trans hbar (Span.trans b3 r3)
        simpa [RegExp.render, RegExp.groups, RegExp.closed, Nat.add_assoc] using this
  · rw [if_neg hc] at h
    simp only [PRes.ok.injEq] at h
    obtain ⟨_, rfl⟩ := h
    exact .inl (Span.refl c s)

theorem IE_step {c : PC} {f : Nat} (hB : IB c f) (hBs : IBs c f) : IE c (f + 1) := by
  intro s op s' n h h40 hp
  have hlt : s.idx < c.len := at_lt_of_ne_zero (by rw [h40]; decide)
  rw [parseExpr_succ] at h
  cases ho : exprOpen c s false with
  | err e => rw [ho] at h; cases h
  | ok paren s1 =>
    rw [ho] at h
    simp only [] at h
    obtain ⟨b1, sA, bs, sB, e1, e2, e3⟩ := exprBody_inv h
    rcases exprOpen_inv ho with ⟨_, _, h0 | h0⟩ | ⟨rfl, _, _, rfl⟩ | ⟨rfl, _, hx, hl2, _, h63, h58, rfl⟩
    · cases h0
    · exact absurd h40 h0
    · -- capturing group
      obtain ⟨r, r1, r2, r3⟩ := body_inv hB hBs (n := n + 1) e1 e2 (by simp only []; omega)
        (by simp only []; omega)
      rcases e3 with ⟨h0, _⟩ | ⟨_, hl, h41, hs'⟩
      · cases h0
      simp only [if_true] at hs'
      subst hs'
      refine ⟨.group r, by simpa [Atom.ok] using r1, by simpa [Atom.inLimit] using r2, fun _ => rfl, ?_⟩
      simp only [] at r1 r3
      refine ⟨?_, ?_, ?_, ?_⟩
      · simp only [Atom.render, List.cons_append, List.append_assoc]
        rw [drop_at hlt, h40, r3.text, drop_at hl, h41]; rfl
      · simp only [Atom.render, List.length_cons, List.length_append, List.length_nil]
        have := r3.idx; simp only [] at this; omega
      · simp only [Atom.groups]
        have := r3.parens; simp only [] at this; omega
      · simp only [Atom.closed]
        rw [r3.caps, hp]
    · -- non-capturing group
      obtain ⟨r, r1, r2, r3⟩ := body_inv hB hBs (n := n) e1 e2 hp (by simp only []; omega)
      rcases e3 with ⟨h0, _⟩ | ⟨_, hl, h41, hs'⟩
      · cases h0
      simp only [show (2 : Nat) ≠ 1 by decide, if_false] at hs'
      subst hs'
      refine ⟨.ncgroup r, by simpa [Atom.ok, hx] using r1, by simpa [Atom.inLimit] using r2,
        fun _ => rfl, ?_⟩
      simp only [] at r1 r3
      refine ⟨?_, ?_, ?_, ?_⟩
      · simp only [Atom.render, List.cons_append, List.append_assoc]
        rw [drop_at hlt, h40, drop_at (by omega), h63, show s.idx + 1 + 1 = s.idx + 2 from rfl,
          drop_at hl2, h58, show s.idx + 2 + 1 = s.idx + 3 from rfl, r3.text, drop_at hl, h41]; rfl
      · simp only [Atom.render, List.length_cons, List.length_append, List.length_nil]
        have := r3.idx; simp only [] at this; omega
      · simp only [Atom.groups]; exact r3.parens
      · simp only [Atom.closed]; exact r3.caps

theorem followOk_prefix {n : Nat} {a : Atom} {X Y : List Nat} (h : a.followOk n (X ++ Y) = true) :
    a.followOk n X = true := by
  cases a with
  | backref ds =>
    cases X with
    | nil => rfl
    | cons x tl => simpa [Atom.followOk, backrefFollowOk] using h
  | _ => rfl

/-- the conclusion of `IT` for a run of character atoms -/
theorem IT_of_chars {c : PC} {s s' : PS} {n : Nat} {front : List Atom} {a : Atom}
    (hf : CharAtoms c.fl.xsd c.env front) (hch : a.isChar = true)
    (hok : a.ok c.fl.xsd c.env 0 [] = true)
    (hsp : Span c s s' (renderAtoms front ++ a.render) 0 s.captures) :
    ∃ (front : List Atom) (a : Atom), CharAtoms c.fl.xsd c.env front ∧
      a.ok c.fl.xsd c.env n s.captures = true ∧ a.inLimit = true ∧
      a.followOk n (c.pat.drop s'.idx) = true ∧
      Span c s s' (renderAtoms front ++ a.render) a.groups (a.closed n s.captures) := by
  obtain ⟨hg, hcl⟩ := isChar_facts hch n s.captures
  refine ⟨front, a, hf, by rw [isChar_ok_any hch]; exact hok, ?_, ?_, by rw [hg, hcl]; exact hsp⟩
  · cases a <;> first | rfl | cases hch
  · cases a <;> first | rfl | cases hch

/-- the conclusion of `IT` for a single atom without groups -/
theorem IT_of_leaf {c : PC} {s s' : PS} {n : Nat} (a : Atom) (hg : a.groups = 0)
    (hcl : a.closed n s.captures = s.captures) (hok : a.ok c.fl.xsd c.env n s.captures = true)
    (hlim : a.inLimit = true) (hfol : a.followOk n (c.pat.drop s'.idx) = true)
    (hsp : Span c s s' a.render 0 s.captures) :
    ∃ (front : List Atom) (a : Atom), CharAtoms c.fl.xsd c.env front ∧
      a.ok c.fl.xsd c.env n s.captures = true ∧ a.inLimit = true ∧
      a.followOk n (c.pat.drop s'.idx) = true ∧
      Span c s s' (renderAtoms front ++ a.render) a.groups (a.closed n s.captures) :=
  ⟨[], a, CharAtoms.nil, hok, hlim, hfol, by rw [hg, hcl]; simpa [renderAtoms] using hsp⟩

theorem IT_step {c : PC} (hcls : ClassInv c) {f : Nat} (hE : IE c f) : IT c (f + 1) := by
  intro s ret s' n h hp hs
  rw [parseTerminal] at h
  have one : ∀ x, c.at s.idx = x → x ≠ 0 →
      Span c s { s with idx := s.idx + 1 } [x] 0 s.captures := by
    intro x hx h0
    have hlt : s.idx < c.len := at_lt_of_ne_zero (by rw [hx]; exact h0)
    exact ⟨by rw [drop_at hlt, hx]; rfl, rfl, rfl, rfl⟩
  by_cases c1 : (c.at s.idx == 36 && !c.fl.xsd) = true
  · rw [if_pos c1] at h
    simp only [Bool.and_eq_true, beq_iff_eq, Bool.not_eq_true'] at c1
    simp only [PRes.ok.injEq] at h
    obtain ⟨_, rfl⟩ := h
    exact IT_of_leaf .eol rfl rfl (by simp [Atom.ok, c1.2]) rfl rfl (one 36 c1.1 (by decide))
  rw [if_neg c1] at h
  by_cases c2 : (c.at s.idx == 94 && !c.fl.xsd) = true
  · rw [if_pos c2] at h
    simp only [Bool.and_eq_true, beq_iff_eq, Bool.not_eq_true'] at c2
    simp only [PRes.ok.injEq] at h
    obtain ⟨_, rfl⟩ := h
    exact IT_of_leaf .bol rfl rfl (by simp [Atom.ok, c2.2]) rfl rfl (one 94 c2.1 (by decide))
  rw [if_neg c2] at h
  by_cases c3 : (c.at s.idx == 46) = true
  · rw [if_pos c3] at h
    simp only [PRes.ok.injEq] at h
    obtain ⟨_, rfl⟩ := h
    exact IT_of_leaf .dot rfl rfl rfl rfl rfl (one 46 (eq_of_beq c3) (by decide))
  rw [if_neg c3] at h
  by_cases c4 : (c.at s.idx == 91) = true
  · rw [if_pos c4] at h
    cases hc : parseClass c (c.len + 2) s with
    | err e => rw [hc] at h; cases h
    | ok rs s1 =>
      rw [hc] at h
      simp only [PRes.ok.injEq] at h
      obtain ⟨_, rfl⟩ := h
      obtain ⟨e, e1, e2⟩ := hcls.span hc
      exact IT_of_leaf (.cls e) rfl rfl (by simpa [Atom.ok] using e1) rfl rfl
        (by simpa [Atom.render] using e2)
  rw [if_neg c4] at h
  by_cases c5 : (c.at s.idx == 40) = true
  · rw [if_pos c5] at h
    obtain ⟨a, a1, a2, a3, a4⟩ := hE s ret s' n h (eq_of_beq c5) hp
    exact ⟨[], a, CharAtoms.nil, a1, a2, a3 _, by simpa [renderAtoms] using a4⟩
  rw [if_neg c5] at h
  by_cases c6 : (c.at s.idx == 41) = true
  · rw [if_pos c6] at h; cases h
  rw [if_neg c6] at h
  by_cases c7 : (c.at s.idx == 124) = true
  · rw [if_pos c7] at h; cases h
  rw [if_neg c7] at h
  by_cases c8 : (c.at s.idx == 93) = true
  · rw [if_pos c8] at h; cases h
  rw [if_neg c8] at h
  by_cases c9 : (c.at s.idx == 63 || c.at s.idx == 43 || c.at s.idx == 123 || c.at s.idx == 42) = true
  · rw [if_pos c9] at h; cases h
  rw [if_neg c9] at h
  by_cases c10 : (c.at s.idx == 92) = true
  · rw [if_pos c10] at h
    cases he : escape c s false with
    | err e => rw [he] at h; cases h
    | ok r s1 =>
      rw [he] at h
      have hinv := escape_inv he
      cases hinv with
      | single e ht hok =>
        simp only [] at h
        obtain ⟨front, a, f1, f2, f3, f4⟩ := parseAtom_inv h
        exact IT_of_chars f1 f2 f3 f4
      | cls e ht hok =>
        simp only [PRes.ok.injEq] at h
        obtain ⟨_, rfl⟩ := h
        exact IT_of_leaf (.clsEsc e) rfl rfl (by simpa [Atom.ok] using hok) rfl rfl
          ⟨by simpa [Atom.render] using ht, rfl, rfl, rfl⟩
      | prop pos name ht hall hl =>
        simp only [PRes.ok.injEq] at h
        obtain ⟨_, rfl⟩ := h
        exact IT_of_leaf (.prop pos name) rfl rfl (by simp [Atom.ok, hall, hl]) rfl rfl
          ⟨by simpa [Atom.render] using ht, by simp [Atom.render]; omega, rfl, rfl⟩
      | backref ds hx hnum ht hmem hfol =>
        simp only [] at h
        by_cases hle : s.parens ≤ Spec.digitsVal ds
        · rw [if_pos hle] at h; cases h
        rw [if_neg hle] at h
        simp only [PRes.ok.injEq] at h
        obtain ⟨_, rfl⟩ := h
        refine IT_of_leaf (.backref ds) rfl rfl ?_ rfl ?_
          ⟨by simpa [Atom.render] using ht, by simp [Atom.render]; omega, rfl, rfl⟩
        · simp only [Atom.ok, hx, hnum, Bool.not_false, Bool.true_and, Bool.and_eq_true,
            decide_eq_true_eq]
          exact ⟨by omega, hmem⟩
        · simp only [Atom.followOk]
          rw [hp] at hfol
          simpa using hfol
  rw [if_neg c10] at h
  obtain ⟨front, a, f1, f2, f3, f4⟩ := parseAtom_inv h
  exact IT_of_chars f1 f2 f3 f4

theorem IB_step {c : PC} {f : Nat} (hT : IT c f) (hB : IB c f) : IB c (f + 1) := by
  intro s cur op s' n h hp hs
  rw [parseBranch] at h
  by_cases hc : (decide (s.idx < c.len) && c.at s.idx != 124 && c.at s.idx != 41) = true
  · rw [if_pos hc] at h
    cases ht : parseTerminal c f s with
    | err e => rw [ht] at h; cases h
    | ok ret s1 =>
      rw [ht] at h
      simp only [] at h
      cases hq : pieceQuant c ret s1 with
      | err e => rw [hq] at h; cases h
      | ok op1 s2 =>
        rw [hq] at h
        simp only [] at h
        obtain ⟨front, a, t1, t2, t3, t4, t5⟩ := hT s ret s1 n ht hp hs
        have hs1 : s1.idx ≤ c.len := t5.le_len hs
        obtain ⟨q, q1, q2, q3⟩ := pieceQuant_inv c ret s1 op1 s2 hs1 hq
        have hs2 : s2.idx ≤ c.len := q3.le_len hs1
        have hp2 : s2.parens = (n + a.groups) + 1 := by rw [q3.parens, t5.parens, hp]; omega
        obtain ⟨b2, b21, b22, b23⟩ := hB s2 _ op s' (n + a.groups) h hp2 hs2
        have hc2 : s2.captures = a.closed n s.captures := by rw [q3.caps, t5.caps]
        rw [hc2] at b21 b23
        obtain ⟨k1, k2, k3, k4⟩ := consChars_facts front t1 (.cons a q b2) n s.captures
        refine ⟨consChars front (.cons a q b2), ?_, ?_, ?_⟩
        · rw [k1]
          have hfol : a.followOk n (qRender q ++ b2.render) = true := by
            apply followOk_prefix (Y := c.pat.drop s'.idx)
            rw [List.append_assoc, ← b23.text, ← q3.text]
            exact t4
          simp only [Branch.ok, t2, q1, hfol, b21, Bool.and_self]
        · rw [k4]; simp only [Branch.inLimit, t3, q2, b22, Bool.and_self]
        · rw [consChars_render, k2, k3]
          have := Span.trans t5 (Span.trans q3 b23)
          simpa [Branch.render, Branch.groups, Branch.closed, List.append_assoc] using this
  · rw [if_neg hc] at h
    simp only [PRes.ok.injEq] at h
    obtain ⟨_, rfl⟩ := h
    exact ⟨.nil, rfl, rfl, Span.refl c s⟩

/-- all four parser functions, inverted, for any fuel -/
theorem parse_inv_all (c : PC) (hcls : ClassInv c) : ∀ f, IE c f ∧ IBs c f ∧ IB c f ∧ IT c f := by
  intro f
  induction f with
  | zero =>
    refine ⟨?_, ?_, ?_, ?_⟩
    · intro s op s' n h; rw [parseExpr] at h; cases h
    · intro s acc l s' n h; rw [parseBranches] at h; cases h
    · intro s cur op s' n h; rw [parseBranch] at h; cases h
    · intro s ret s' n h; rw [parseTerminal] at h; cases h
  | succ f ih =>
    obtain ⟨hE, hBs, hB, hT⟩ := ih
    exact ⟨IE_step hB hBs, IBs_step hB hBs, IB_step hT hB, IT_step hcls hE⟩

/-- the top-level call, inverted: the consumed text is the rendering of a well-formed regExp -/
theorem parse_top_inv (c : PC) (hcls : ClassInv c) (f : Nat) (s : PS) (op : Op) (s' : PS) (n : Nat)
    (h : parseExpr c f s true = .ok op s') (hp : s.parens = n + 1) (hs : s.idx ≤ c.len) :
    ∃ r : RegExp, r.ok c.fl.xsd c.env n s.captures = true ∧ r.inLimit = true ∧
      Span c s s' r.render r.groups (r.closed n s.captures) := by
  cases f with
  | zero => rw [parseExpr] at h; cases h
  | succ f =>
    obtain ⟨_, hBs, hB, _⟩ := parse_inv_all c hcls f
    rw [parseExpr_succ, exprOpen_top] at h
    simp only [] at h
    obtain ⟨b1, sA, bs, sB, e1, e2, e3⟩ := exprBody_inv h
    rcases e3 with ⟨_, rfl⟩ | ⟨h0, _⟩
    · exact body_inv hB hBs e1 e2 hp hs
    · exact absurd rfl h0

/-! ### `Error::Internal` is unreachable -/

/-- not the internal error -/
def NI {α : Type} (x : PRes α) : Prop := x ≠ .err .internal

theorem NI.ok {α : Type} {a : α} {s : PS} : NI (.ok a s) := fun h => by cases h
theorem NI.syn {α : Type} : NI (.err .syntax : PRes α) := fun h => by cases h
theorem NI.ite {α : Type} {p : Prop} {i1 : Decidable p} {a b : PRes α} (h1 : p → NI a)
    (h2 : ¬p → NI b) : NI (@ite _ p i1 a b) := by
  by_cases hp : p
  · rw [if_pos hp]; exact h1 hp
  · rw [if_neg hp]; exact h2 hp

theorem escape_ni {c : PC} {s : PS} {b : Bool} (hat : c.at s.idx = 92) : NI (escape c s b) := by
  unfold escape
  dsimp only
  apply NI.ite
  · intro h0; simp [hat] at h0
  · intro _
    repeat' first
      | exact NI.syn
      | exact NI.ok
      | (apply NI.ite <;> intro _)
      | split

/-- not a back-reference -/
def NBk (x : PRes Esc) : Prop := ∀ n s', x ≠ .ok (.backref n) s'

theorem NBk.err {e : Err} : NBk (.err e) := fun _ _ h => by cases h
theorem NBk.chr {x : Nat} {s : PS} : NBk (.ok (.chr x) s) := fun _ _ h => by cases h
theorem NBk.set {rs : Ranges} {s : PS} : NBk (.ok (.set rs) s) := fun _ _ h => by cases h
theorem NBk.ite {p : Prop} {i1 : Decidable p} {a b : PRes Esc} (h1 : p → NBk a) (h2 : ¬p → NBk b) :
    NBk (@ite _ p i1 a b) := by
  by_cases hp : p
  · rw [if_pos hp]; exact h1 hp
  · rw [if_neg hp]; exact h2 hp

/-- inside a class `escape` never returns a back-reference -/
theorem escape_true_not_backref (c : PC) (s : PS) : NBk (escape c s true) := by
  unfold escape
  dsimp only
  simp only [if_true]
  repeat' first
    | exact NBk.err
    | exact NBk.chr
    | exact NBk.set
    | (apply NBk.ite <;> intro _)
    | split

theorem thereFollows_two {c : PC} {i a b : Nat} (h : thereFollows c i [a, b] = true) :
    i + 1 < c.len ∧ c.at i = a ∧ c.at (i + 1) = b := by
  unfold thereFollows at h
  simp only [List.length_cons, List.length_nil, Bool.and_eq_true, decide_eq_true_eq] at h
  obtain ⟨h1, h2⟩ := h
  have h1' : i + 1 < c.len := by omega
  rw [drop_at (by omega), drop_at h1'] at h2
  simp only [List.take_succ_cons, List.take_zero] at h2
  have := eq_of_beq h2
  simp only [List.cons.injEq, and_true] at this
  exact ⟨h1', this.1, this.2⟩

theorem ni_simple {c : PC} {f i : Nat} {k : ClsSt} {o : Option Nat} {s' : PS}
    (h : ∀ k', NI (classLoop c f s' k')) :
    NI (match clsSimple c i k o with
        | none => .err .syntax
        | some k' => classLoop c f s' k') := by
  cases clsSimple c i k o with
  | none => exact NI.syn
  | some k' => exact h k'

/-- the class parser never reports `Internal` when started at a `[` with the fuel
    `parse_terminal` gives it -/
theorem class_ni (c : PC) : ∀ f,
    (∀ s, c.at s.idx = 91 → c.len - s.idx + 1 ≤ f → NI (parseClass c f s)) ∧
    (∀ s k, s.idx ≤ c.len → c.len - s.idx + 1 ≤ f → NI (classLoop c f s k)) := by
  intro f
  induction f with
  | zero =>
    refine ⟨fun s _ hf => ?_, fun s k _ hf => ?_⟩ <;> omega
  | succ f ih =>
    obtain ⟨ihC, ihL⟩ := ih
    refine ⟨fun s hat hf => ?_, fun s k hs hf => ?_⟩
    · rw [parseClass]
      dsimp only
      apply NI.ite
      · intro h0; simp [hat] at h0
      intro _
      apply NI.ite
      · intro _; exact NI.syn
      intro hn
      simp only [Bool.or_eq_true, decide_eq_true_eq, not_or] at hn
      repeat' first
        | exact NI.syn
        | (apply NI.ite <;> intro _)
        | exact ihL _ _ (by simp only []; omega) (by simp only []; omega)
    · rw [classLoop]
      dsimp only
      apply NI.ite
      · intro hcond
        simp only [Bool.and_eq_true, decide_eq_true_eq] at hcond
        have hlt := hcond.1
        have next : ∀ k', NI (classLoop c f { s with idx := s.idx + 1 } k') :=
          fun k' => ihL _ k' (by simp only []; omega) (by simp only []; omega)
        apply NI.ite
        · intro _; exact NI.syn
        intro _
        apply NI.ite
        · intro h92
          have hat : c.at s.idx = 92 := eq_of_beq h92
          cases he : escape c s true with
          | err e =>
            intro h
            simp only [PRes.err.injEq] at h
            subst h
            exact escape_ni hat he
          | ok r s' =>
            cases r with
            | chr x =>
              obtain ⟨p1, p2⟩ := C09.escape_idx he (by intro n h; cases h)
              exact ni_simple (fun k' => ihL _ k' p2 (by omega))
            | set rs =>
              obtain ⟨p1, p2⟩ := C09.escape_idx he (by intro n h; cases h)
              dsimp only
              apply NI.ite
              · intro _; exact NI.syn
              · intro _; exact ihL _ _ p2 (by omega)
            | backref n => exact absurd he (escape_true_not_backref c s n s')
        intro _
        apply NI.ite
        · intro _
          apply NI.ite
          · intro htf
            obtain ⟨t1, t2, t3⟩ := thereFollows_two htf
            cases hp : parseClass c f { s with idx := s.idx + 1 } with
            | err e =>
              intro h
              simp only [PRes.err.injEq] at h
              subst h
              exact ihC { s with idx := s.idx + 1 } t3 (by simp only []; omega) hp
            | ok sub s' =>
              obtain ⟨p1, p2, _⟩ := C09.accepted_class_closed c f _ s' sub hp
              simp only [] at p1
              dsimp only
              apply NI.ite
              · intro _; exact NI.syn
              · intro _; exact ni_simple (fun k' => ihL _ k' p2 (by omega))
          intro _
          apply NI.ite
          · intro _; exact ni_simple next
          intro _
          apply NI.ite
          · intro _; exact next _
          intro _
          apply NI.ite
          · intro _; exact NI.syn
          intro _
          apply NI.ite
          · intro _; exact NI.syn
          · intro _; exact ni_simple next
        · intro _; exact ni_simple next
      · intro _
        apply NI.ite
        · intro _; exact NI.syn
        · intro _; exact NI.ok

theorem lookAhead_ni (c : PC) (s : PS) (ub : List Nat) : NI (lookAhead c s ub) := by
  unfold lookAhead
  apply NI.ite
  · intro _
    apply NI.ite
    · intro h92
      cases he : escape c s false with
      | err e =>
        intro h
        simp only [PRes.err.injEq] at h
        subst h
        exact escape_ni (eq_of_beq h92) he
      | ok r s' => exact NI.ok
    · intro _; exact NI.ok
  · intro _; exact NI.ok

theorem dispatch_ni {c : PC} {f : Nat} (ih : ∀ s ub, NI (parseAtomGo c f s ub)) (s : PS)
    (ub : List Nat) : NI (dispatch c f s ub) := by
  unfold dispatch
  dsimp only
  apply NI.ite
  · intro _; exact NI.ok
  intro _
  apply NI.ite
  · intro _
    apply NI.ite
    · intro _; exact NI.syn
    · intro _; exact NI.ok
  intro _
  apply NI.ite
  · intro _; exact NI.syn
  intro _
  apply NI.ite
  · intro h92
    cases he : escape c s false with
    | err e =>
      intro h
      simp only [PRes.err.injEq] at h
      subst h
      exact escape_ni (eq_of_beq h92) he
    | ok r s' =>
      cases r with
      | chr x => exact ih _ _
      | set rs => exact NI.ok
      | backref n => exact NI.ok
  intro _
  apply NI.ite
  · intro _; exact NI.ok
  · intro _; exact ih _ _

theorem parseAtomGo_ni (c : PC) : ∀ (f : Nat) (s : PS) (ub : List Nat), NI (parseAtomGo c f s ub) := by
  intro f
  induction f with
  | zero => intro s ub; rw [parseAtomGo]; exact NI.ok
  | succ f ih =>
    intro s ub
    rw [parseAtomGo_succ]
    apply NI.ite
    · intro _
      cases hla : lookAhead c s ub with
      | err e =>
        intro h
        simp only [PRes.err.injEq] at h
        subst h
        exact lookAhead_ni c s ub hla
      | ok bq s2 =>
        cases bq with
        | true => exact NI.ok
        | false => exact dispatch_ni ih s2 ub
    · intro _; exact NI.ok

/-- `parse_atom` whose first step takes a character: never `Internal` -/
theorem parseAtom_ni_of_first {c : PC} {s s1 : PS} {x : Nat}
    (h : parseAtomGo c (c.len + 2) s [] = parseAtomGo c (c.len + 1) s1 [x]) : NI (parseAtom c s) := by
  unfold parseAtom
  rw [h]
  cases hg : parseAtomGo c (c.len + 1) s1 [x] with
  | err e =>
    intro h'
    simp only [PRes.err.injEq] at h'
    subst h'
    exact parseAtomGo_ni c _ _ _ hg
  | ok ub s' =>
    obtain ⟨L, _, _, l3⟩ := parseAtomGo_inv c _ _ _ _ _ hg
    have hne : ub.isEmpty = false := by
      cases ub with
      | nil => simp only [List.length_nil, List.length_cons] at l3; omega
      | cons _ _ => rfl
    simp only [hne, Bool.false_eq_true, if_false]
    exact NI.ok

/-- the default branch of `parse_terminal` -/
theorem parseAtom_ni_default {c : PC} {s : PS} (hlt : s.idx < c.len)
    (h1 : (c.at s.idx == 93 || c.at s.idx == 46 || c.at s.idx == 91 || c.at s.idx == 40 ||
      c.at s.idx == 41 || c.at s.idx == 124) = false)
    (h2 : isQuantChar (c.at s.idx) = false) (h92 : c.at s.idx ≠ 92)
    (ha : ((c.at s.idx == 94 || c.at s.idx == 36) && !c.fl.xsd) = false) : NI (parseAtom c s) := by
  obtain ⟨bq, hla, _, hq0⟩ := lookAhead_plain (ub := []) h92
  rw [hq0 rfl] at hla
  by_cases h125 : c.at s.idx = 125
  · -- `}`: syntax error
    unfold parseAtom
    rw [show c.len + 2 = (c.len + 1) + 1 from rfl, parseAtomGo_succ, if_pos hlt, hla]
    simp only []
    unfold dispatch
    simp [h125, isQuantChar]
    exact NI.syn
  · have hn : normalChar c.fl.xsd (c.at s.idx) = true := by
      simp only [Bool.or_eq_false_iff, beq_eq_false_iff_ne, ne_eq] at h1
      rw [isQuantChar_false] at h2
      obtain ⟨⟨⟨⟨⟨a93, a46⟩, a91⟩, a40⟩, a41⟩, a124⟩ := h1
      obtain ⟨a123, a63, a42, a43⟩ := h2
      have e : ∀ k : Nat, c.at s.idx ≠ k → (c.at s.idx == k) = false := fun k hk => by simpa using hk
      simp only [normalChar, e 46 a46, e 92 h92, e 63 a63, e 42 a42, e 43 a43, e 123 a123, e 125 h125,
        e 40 a40, e 41 a41, e 124 a124, e 91 a91, e 93 a93, Bool.or_self, Bool.not_false,
        Bool.true_and]
      cases hx : c.fl.xsd with
      | true => rfl
      | false => rw [hx] at ha; simpa using ha
    apply parseAtom_ni_of_first (s1 := { s with idx := s.idx + 1 }) (x := c.at s.idx)
    rw [show c.len + 2 = (c.len + 1) + 1 from rfl, parseAtomGo_succ, if_pos hlt, hla]
    simp only []
    rw [dispatch_normal hn]
    rfl

/-- the `\`-character branch of `parse_terminal` -/
theorem parseAtom_ni_esc {c : PC} {s : PS} {e : Nat}
    (ht : c.pat.drop s.idx = 92 :: e :: c.pat.drop (s.idx + 2))
    (hok : C09.escSingleOk c.fl.xsd e = true) : NI (parseAtom c s) := by
  have he := C09.escape_single (c := c) (s := s) false ht hok
  obtain ⟨hlt, hat, h1⟩ := drop_cons_facts ht
  obtain ⟨hlt1, _, _⟩ := drop_cons_facts h1
  obtain ⟨bq, hla, _, hq0⟩ := lookAhead_esc (ub := []) hat hlt1 he
  rw [hq0 rfl] at hla
  apply parseAtom_ni_of_first (s1 := { s with idx := s.idx + 2 }) (x := C09.escVal e)
  rw [show c.len + 2 = (c.len + 1) + 1 from rfl, parseAtomGo_succ, if_pos hlt, hla]
  simp only []
  have he2 : escape c ({ ({ s with idx := s.idx + 2 } : PS) with idx := s.idx }) false =
      .ok (.chr (C09.escVal e)) { s with idx := s.idx + 2 } := he
  rw [dispatch_esc (s := { ({ s with idx := s.idx + 2 } : PS) with idx := s.idx }) hat he2]
  rfl

theorem pieceQuant_ni (c : PC) (ret : Op) (s : PS) : NI (pieceQuant c ret s) := by
  by_cases hge : s.idx ≥ c.len
  · rw [pieceQuant, if_pos hge]; exact NI.ok
  have hlt : s.idx < c.len := by omega
  cases hq : quantHead c s with
  | err e =>
    rw [pieceQuant_err hlt hq]
    intro h
    simp only [PRes.err.injEq] at h
    subst h
    unfold quantHead at hq
    simp only [] at hq
    split at hq
    · cases hq
    · split at hq
      · rename_i h123
        cases hb : bracket c s with
        | ok u s2 => rw [hb] at hq; cases hq
        | err e2 =>
          rw [hb] at hq
          simp only [PRes.err.injEq] at hq
          subst hq
          exact C07.bracket_no_internal c s hlt (eq_of_beq h123) hb
      · cases hq
  | ok hasQ s1 =>
    cases hb : (relAt c s1 && c.fl.xsd) with
    | false =>
      obtain ⟨op', hp⟩ := pieceQuant_ok c ret s hlt hasQ s1 hq hb
      rw [hp]; exact NI.ok
    | true =>
      simp only [Bool.and_eq_true] at hb
      rw [pieceQuant_xsd_reluctant hlt hq hb.1 hb.2]; exact NI.syn

/-- not `Internal`, and on success the position is at least `lo` and inside the pattern -/
def Fine (c : PC) (lo : Nat) {α : Type} (x : PRes α) : Prop :=
  NI x ∧ ∀ a s', x = .ok a s' → lo ≤ s'.idx ∧ s'.idx ≤ c.len

theorem Fine.syn {c : PC} {lo : Nat} {α : Type} : Fine c lo (.err .syntax : PRes α) :=
  ⟨NI.syn, fun _ _ h => by cases h⟩

theorem Fine.ok {c : PC} {lo : Nat} {α : Type} {a : α} {s : PS} (h1 : lo ≤ s.idx)
    (h2 : s.idx ≤ c.len) : Fine c lo (.ok a s) :=
  ⟨NI.ok, fun _ _ h => by cases h; exact ⟨h1, h2⟩⟩

theorem Fine.ite {c : PC} {lo : Nat} {α : Type} {p : Prop} {i1 : Decidable p} {a b : PRes α}
    (h1 : p → Fine c lo a) (h2 : ¬p → Fine c lo b) : Fine c lo (@ite _ p i1 a b) := by
  by_cases hp : p
  · rw [if_pos hp]; exact h1 hp
  · rw [if_neg hp]; exact h2 hp

theorem Fine.mono {c : PC} {lo lo' : Nat} {α : Type} {x : PRes α} (h : Fine c lo x) (hl : lo' ≤ lo) :
    Fine c lo' x :=
  ⟨h.1, fun a s' hx => ⟨Nat.le_trans hl (h.2 a s' hx).1, (h.2 a s' hx).2⟩⟩

theorem Fine.of_err {c : PC} {lo : Nat} {α β : Type} {x : PRes α} {e : Err} (h : NI x)
    (hx : x = .err e) : Fine c lo (.err e : PRes β) := by
  refine ⟨?_, fun _ _ h' => by cases h'⟩
  intro h'
  simp only [PRes.err.injEq] at h'
  subst h'
  exact h hx

theorem parseAtom_progress {c : PC} {s : PS} {op : Op} {s' : PS} (hs : s.idx ≤ c.len)
    (h : parseAtom c s = .ok op s') : s.idx + 1 ≤ s'.idx ∧ s'.idx ≤ c.len := by
  obtain ⟨front, a, _, a1, _, sp⟩ := parseAtom_inv h
  refine ⟨?_, sp.le_len hs⟩
  have : 0 < a.render.length := by cases a <;> first | (simp [Atom.render]; done) | cases a1
  rw [sp.idx, List.length_append]; omega

theorem escape_progress {c : PC} {s : PS} {r : Esc} {s' : PS} (hs : s.idx ≤ c.len)
    (h : escape c s false = .ok r s') : s.idx + 1 ≤ s'.idx ∧ s'.idx ≤ c.len := by
  have hinv := escape_inv h
  refine ⟨hinv.sim.2.2, ?_⟩
  have key : ∀ (txt : List Nat), c.pat.drop s.idx = txt ++ c.pat.drop s'.idx →
      s'.idx = s.idx + txt.length → s'.idx ≤ c.len := by
    intro txt h1 h2
    have h3 := congrArg List.length h1
    simp only [List.length_drop, List.length_append] at h3
    simp only [PC.len] at *
    omega
  cases hinv with
  | single e ht hok => exact key [92, e] ht rfl
  | cls e ht hok => exact key [92, e] ht rfl
  | prop pos name ht hall hl =>
    exact key (92 :: (if pos then 112 else 80) :: 123 :: (name ++ [125])) (by simpa using ht)
      (by simp; omega)
  | backref ds hx hnum ht hmem hfol => exact key (92 :: ds) (by simpa using ht) (by simp; omega)

def FT (c : PC) (f : Nat) : Prop :=
  ∀ s : PS, s.idx < c.len → c.at s.idx ≠ 124 → 3 * (c.len - s.idx) ≤ f →
    Fine c (s.idx + 1) (parseTerminal c f s)
def FB (c : PC) (f : Nat) : Prop :=
  ∀ (s : PS) (cur : Option Op), s.idx ≤ c.len → 3 * (c.len - s.idx) + 1 ≤ f →
    Fine c s.idx (parseBranch c f s cur)
def FBs (c : PC) (f : Nat) : Prop :=
  ∀ (s : PS) (acc : List Op), s.idx ≤ c.len → 3 * (c.len - s.idx) + 1 ≤ f →
    Fine c s.idx (parseBranches c f s acc)
def FE (c : PC) (f : Nat) : Prop :=
  ∀ s : PS, c.at s.idx = 40 → 3 * (c.len - s.idx) ≤ f + 1 →
    Fine c (s.idx + 1) (parseExpr c f s false)

theorem body_fine {c : PC} {f : Nat} (hB : FB c f) (hBs : FBs c f) (cp paren : Nat) (s1 : PS)
    (hs : s1.idx ≤ c.len) (hf : 3 * (c.len - s1.idx) + 1 ≤ f) :
    Fine c s1.idx (exprBody c f cp paren s1) := by
  unfold exprBody
  have h1 := hB s1 none hs hf
  cases hb : parseBranch c f s1 none with
  | err e => exact Fine.of_err h1.1 hb
  | ok b1 sA =>
    obtain ⟨a1, a2⟩ := h1.2 b1 sA hb
    have h2 := hBs sA [b1] a2 (by omega)
    dsimp only
    cases hbs : parseBranches c f sA [b1] with
    | err e => exact Fine.of_err h2.1 hbs
    | ok bs sB =>
      obtain ⟨b1', b2'⟩ := h2.2 bs sB hbs
      dsimp only
      apply Fine.ite
      · intro _
        apply Fine.ite
        · intro hc
          simp only [Bool.and_eq_true, decide_eq_true_eq] at hc
          apply Fine.ite <;> intro _ <;> exact Fine.ok (by simp only []; omega) (by simp only []; omega)
        · intro _; exact Fine.syn
      · intro _; exact Fine.ok (by omega) b2'

theorem FE_step {c : PC} {f : Nat} (hB : FB c f) (hBs : FBs c f) : FE c (f + 1) := by
  intro s h40 hf
  have hlt : s.idx < c.len := at_lt_of_ne_zero (by rw [h40]; decide)
  rw [parseExpr_succ]
  cases ho : exprOpen c s false with
  | err e =>
    unfold exprOpen at ho
    refine Fine.of_err (x := exprOpen c s false) ?_ (by unfold exprOpen; exact ho)
    unfold exprOpen
    repeat' first | exact NI.ok | exact NI.syn | (apply NI.ite <;> intro _)
  | ok paren s1 =>
    dsimp only
    rcases exprOpen_inv ho with ⟨_, _, h0 | h0⟩ | ⟨_, _, _, rfl⟩ | ⟨_, _, _, hl2, _, _, _, rfl⟩
    · cases h0
    · exact absurd h40 h0
    · exact body_fine hB hBs _ _ _ (by simp only []; omega) (by simp only []; omega)
    · exact (body_fine hB hBs _ _ _ (by simp only []; omega) (by simp only []; omega)).mono
        (by simp only []; omega)

theorem FBs_step {c : PC} {f : Nat} (hB : FB c f) (hBs : FBs c f) : FBs c (f + 1) := by
  intro s acc hs hf
  rw [parseBranches]
  apply Fine.ite
  · intro hc
    simp only [Bool.and_eq_true, decide_eq_true_eq] at hc
    have h1 := hB { s with idx := s.idx + 1 } none (by simp only []; omega) (by simp only []; omega)
    cases hb : parseBranch c f { s with idx := s.idx + 1 } none with
    | err e => exact Fine.of_err h1.1 hb
    | ok b1 sA =>
      obtain ⟨a1, a2⟩ := h1.2 b1 sA hb
      simp only [] at a1
      dsimp only
      exact (hBs sA _ a2 (by omega)).mono (by omega)
  · intro _; exact Fine.ok (Nat.le_refl _) hs

theorem FB_step {c : PC} {f : Nat} (hT : FT c f) (hB : FB c f) : FB c (f + 1) := by
  intro s cur hs hf
  rw [parseBranch]
  apply Fine.ite
  · intro hc
    simp only [Bool.and_eq_true, decide_eq_true_eq, bne_iff_ne, ne_eq] at hc
    have h1 := hT s hc.1.1 hc.1.2 (by omega)
    cases ht : parseTerminal c f s with
    | err e => exact Fine.of_err h1.1 ht
    | ok ret s1 =>
      obtain ⟨a1, a2⟩ := h1.2 ret s1 ht
      dsimp only
      cases hq : pieceQuant c ret s1 with
      | err e => exact Fine.of_err (pieceQuant_ni c ret s1) hq
      | ok op1 s2 =>
        obtain ⟨q, _, _, q3⟩ := pieceQuant_inv c ret s1 op1 s2 a2 hq
        have b1 : s1.idx ≤ s2.idx := by rw [q3.idx]; omega
        have b2 := q3.le_len a2
        dsimp only
        exact (hB s2 _ b2 (by omega)).mono (by omega)
  · intro _; exact Fine.ok (Nat.le_refl _) hs

theorem FT_step {c : PC} {f : Nat} (hE : FE c f) : FT c (f + 1) := by
  intro s hlt h124 hf
  have hs : s.idx ≤ c.len := by omega
  have one : ∀ {α : Type} (a : α), Fine c (s.idx + 1) (.ok a { s with idx := s.idx + 1 } : PRes α) :=
    fun a => Fine.ok (Nat.le_refl _) (by simp only []; omega)
  rw [parseTerminal]
  apply Fine.ite
  · intro _; exact one _
  intro n1
  apply Fine.ite
  · intro _; exact one _
  intro n2
  apply Fine.ite
  · intro _; exact one _
  intro n3
  apply Fine.ite
  · intro h91
    have hni := (class_ni c (c.len + 2)).1 s (eq_of_beq h91) (by omega)
    cases hc : parseClass c (c.len + 2) s with
    | err e => exact Fine.of_err hni hc
    | ok rs s1 =>
      obtain ⟨p1, p2, _⟩ := C09.accepted_class_closed c _ s s1 rs hc
      exact Fine.ok (by omega) p2
  intro n4
  apply Fine.ite
  · intro h40; exact hE s (eq_of_beq h40) (by omega)
  intro n5
  apply Fine.ite
  · intro _; exact Fine.syn
  intro n6
  apply Fine.ite
  · intro h; exact absurd (eq_of_beq h) h124
  intro n7
  apply Fine.ite
  · intro _; exact Fine.syn
  intro n8
  apply Fine.ite
  · intro _; exact Fine.syn
  intro n9
  apply Fine.ite
  · intro h92
    have hat : c.at s.idx = 92 := eq_of_beq h92
    cases he : escape c s false with
    | err e => exact Fine.of_err (escape_ni hat) he
    | ok r s1 =>
      obtain ⟨p1, p2⟩ := escape_progress hs he
      have hinv := escape_inv he
      cases hinv with
      | single e ht hok =>
        dsimp only
        have hni : NI (parseAtom c s) := parseAtom_ni_esc ht hok
        cases hp : parseAtom c s with
        | err e2 => exact Fine.of_err hni hp
        | ok op s2 =>
          obtain ⟨q1, q2⟩ := parseAtom_progress hs hp
          exact Fine.ok q1 q2
      | cls e ht hok => exact Fine.ok p1 p2
      | prop pos name ht hall hl => exact Fine.ok p1 p2
      | backref ds hx hnum ht hmem hfol =>
        dsimp only
        apply Fine.ite
        · intro _; exact Fine.syn
        · intro _; exact Fine.ok p1 p2
  intro n10
  have hni : NI (parseAtom c s) := by
    apply parseAtom_ni_default hlt
    · simp only [Bool.not_eq_true] at n3 n4 n5 n6 n7 n8
      simp [n3, n4, n5, n6, n7, n8]
    · simp only [Bool.not_eq_true] at n9
      simp only [Bool.or_eq_false_iff, beq_eq_false_iff_ne, ne_eq] at n9
      rw [isQuantChar_false]
      exact ⟨n9.1.2, n9.1.1.1, n9.2, n9.1.1.2⟩
    · simpa using n10
    · simp only [Bool.not_eq_true] at n1 n2
      cases hx : c.fl.xsd with
      | true => simp
      | false =>
        rw [hx] at n1 n2
        simp only [Bool.not_false, Bool.and_true] at n1 n2
        simp [n1, n2]
  cases hp : parseAtom c s with
  | err e2 => exact Fine.of_err hni hp
  | ok op s2 =>
    obtain ⟨q1, q2⟩ := parseAtom_progress hs hp
    exact Fine.ok q1 q2

theorem fine_all (c : PC) : ∀ f, FE c f ∧ FBs c f ∧ FB c f ∧ FT c f := by
  intro f
  induction f with
  | zero =>
    refine ⟨?_, ?_, ?_, ?_⟩
    · intro s h40 hf
      have : s.idx < c.len := at_lt_of_ne_zero (by rw [h40]; decide)
      omega
    · intro s acc _ hf; omega
    · intro s cur _ hf; omega
    · intro s hlt _ hf; omega
  | succ f ih =>
    obtain ⟨hE, hBs, hB, hT⟩ := ih
    exact ⟨FE_step hB hBs, FBs_step hB hBs, FB_step hT hB, FT_step hE⟩

/-- the parser, with the fuel `compileCore` gives it, never reports `Error::Internal` -/
theorem parseExpr_top_ni (c : PC) : NI (parseExpr c (4 * c.pat.length + 16) {} true) := by
  obtain ⟨_, hBs, hB, _⟩ := fine_all c (4 * c.pat.length + 15)
  rw [show 4 * c.pat.length + 16 = (4 * c.pat.length + 15) + 1 from rfl, parseExpr_succ, exprOpen_top]
  dsimp only
  exact (body_fine hB hBs _ _ {} (Nat.zero_le _) (by
    show 3 * (c.pat.length - 0) + 1 ≤ 4 * c.pat.length + 15
    omega)).1

end Rx.Grammar
