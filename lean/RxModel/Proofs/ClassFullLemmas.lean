/-
  Proofs/ClassFullLemmas — the full class-expression grammar of Props/C09c (definitions here so that
  the helper lemmas can mention them) and the step lemmas that drive `parseClass` / `classLoop`
  through a rendered class expression: plain and escaped single characters, ranges with plain or
  escaped end points, literal hyphens, class escapes (`\d`, `\p{..}`, ...), negation and (nested)
  subtraction.  Case-sensitive only (`c.fl.caseBlind = false`).
-/
import RxModel.Model.Parser
import RxModel.Props.C09
import RxModel.Proofs.ClassParseLemmas
namespace Rx.C09
open Rx
set_option linter.unusedSimpArgs false

/-! ### syntax -/

/-- a character that stands for itself inside a class: not `\`, `[`, `]`, `-`
    (`^` is plain except directly after the `[` of a positive class, see `CExpr.ok`) -/
def plainC (x : Nat) : Bool := !(x == 92 || x == 91 || x == 93 || x == 45)

/-- the characters `e` for which `\e` is a single-character escape inside a class:
    `\n \r \t \\ \| \. \- \^ \? \* \+ \{ \} \( \) \[ \]`, and `\$` in the XPath dialect only -/
def escSingleOk (xsd : Bool) (e : Nat) : Bool :=
  e == 110 || e == 114 || e == 116 || e == 92 || e == 124 || e == 46 || e == 45 || e == 94 ||
  e == 63 || e == 42 || e == 43 || e == 123 || e == 125 || e == 40 || e == 41 || e == 91 ||
  e == 93 || (e == 36 && !xsd)

/-- the character `\e` stands for -/
def escVal (e : Nat) : Nat := if e == 110 then 10 else if e == 114 then 13 else if e == 116 then 9 else e

/-- a single character, written plainly or escaped -/
inductive Single where
  | plain (x : Nat)
  | esc (e : Nat)
deriving Repr, DecidableEq

def Single.render : Single → List Nat
  | .plain x => [x]
  | .esc e => [92, e]

def Single.val : Single → Nat
  | .plain x => x
  | .esc e => escVal e

def Single.ok (xsd : Bool) : Single → Bool
  | .plain x => plainC x
  | .esc e => escSingleOk xsd e

/-- the letters of the class escapes `\s \S \i \I \c \C \d \D \w \W` -/
def clsEscOk (e : Nat) : Bool :=
  e == 115 || e == 83 || e == 105 || e == 73 || e == 99 || e == 67 || e == 100 || e == 68 ||
  e == 119 || e == 87

/-- the table behind a class-escape letter (either case) -/
def clsBase (env : Env) (e : Nat) : Ranges :=
  if e == 115 || e == 83 then escapeS
  else if e == 105 || e == 73 then env.nameStart
  else if e == 99 || e == 67 then env.nameChar
  else if e == 100 || e == 68 then env.digit
  else env.word

/-- lower-case letter = the table, upper-case letter = its complement -/
def clsPos (e : Nat) : Bool := e == 115 || e == 105 || e == 99 || e == 100 || e == 119

def clsSet (env : Env) (e : Nat) : Ranges :=
  if clsPos e then clsBase env e else complR (clsBase env e)

/-- the environment lookup behind `\p{name}`: a one- or two-letter general category, or `IsBlock` -/
def propLookup (env : Env) (name : List Nat) : Option Ranges :=
  if name.length == 1 || name.length == 2 then env.category name
  else if name.take 2 == [73, 115] then env.block (name.drop 2)
  else none

def propSet (env : Env) (pos : Bool) (name : List Nat) : Ranges :=
  match propLookup env name with
  | some rs => if pos then rs else complR rs
  | none => []

/-- the members of a class expression -/
inductive Item where
  | one (a : Single)                       -- `x`, `\x`
  | range (a b : Single)                   -- `a-b`
  | hyphen                                 -- a literal `-`
  | cls (e : Nat)                          -- `\d`, `\S`, ...
  | prop (pos : Bool) (name : List Nat)    -- `\p{name}` / `\P{name}`
deriving Repr, DecidableEq

def Item.render : Item → List Nat
  | .one a => a.render
  | .range a b => a.render ++ 45 :: b.render
  | .hyphen => [45]
  | .cls e => [92, e]
  | .prop pos name => 92 :: (if pos then 112 else 80) :: 123 :: (name ++ [125])

def renderAll : List Item → List Nat
  | [] => []
  | i :: is => i.render ++ renderAll is

def Item.isHyphen : Item → Bool
  | .hyphen => true
  | _ => false

def Item.isOne : Item → Bool
  | .one _ => true
  | _ => false

/-- well-formed item; all characters are code points -/
def Item.ok (xsd : Bool) (env : Env) : Item → Bool
  | .one a => a.ok xsd && decide (a.val < cpLimit)
  | .range a b => a.ok xsd && b.ok xsd && decide (a.val ≤ b.val) && decide (b.val < cpLimit)
  | .hyphen => true
  | .cls e => clsEscOk e
  | .prop _ name => name.all (· != 125) && (propLookup env name).isSome

/-- where a literal hyphen may stand: no two hyphens in a row, and a hyphen directly after a
    single character must be the last member (otherwise `x-` starts a range).  So a hyphen is legal
    as the first member, as the last member, and (parser leniency) after a range or class escape. -/
def adjOk (i : Item) : List Item → Bool
  | [] => true
  | j :: more => !j.isHyphen || (!i.isHyphen && (!i.isOne || more.isEmpty))

def itemsOk (xsd : Bool) (env : Env) : List Item → Bool
  | [] => true
  | i :: is => i.ok xsd env && adjOk i is && itemsOk xsd env is

/-- `[items]`, `[^items]`, `[items-[sub]]`, `[^items-[sub]]` -/
inductive CExpr where
  | leaf (neg : Bool) (items : List Item)
  | minus (neg : Bool) (items : List Item) (sub : CExpr)
deriving Repr

def CExpr.neg : CExpr → Bool
  | .leaf n _ => n
  | .minus n _ _ => n

def CExpr.items : CExpr → List Item
  | .leaf _ is => is
  | .minus _ is _ => is

def CExpr.sub : CExpr → Option CExpr
  | .leaf _ _ => none
  | .minus _ _ s => some s

def CExpr.render : CExpr → List Nat
  | .leaf neg items => 91 :: ((if neg then [94] else []) ++ (renderAll items ++ [93]))
  | .minus neg items sub =>
    91 :: ((if neg then [94] else []) ++ (renderAll items ++ 45 :: (sub.render ++ [93])))

/-- the members are non-empty and well-formed; a positive class does not begin with `^` -/
def headOk (xsd : Bool) (env : Env) (neg : Bool) (items : List Item) : Bool :=
  !items.isEmpty && itemsOk xsd env items && (neg || (renderAll items).head? != some 94)

def CExpr.ok (xsd : Bool) (env : Env) : CExpr → Bool
  | .leaf neg items => headOk xsd env neg items
  | .minus neg items sub => headOk xsd env neg items && sub.ok xsd env

/-! ### denotation, in the shape the parser builds it -/

/-- effect of a member on the character builder -/
def Item.addB (b : Ranges) : Item → Ranges
  | .one a => addChar a.val b
  | .range a b' => addRange a.val (b'.val + 1) b
  | .hyphen => addChar 45 b
  | _ => b

/-- `add_set` into the (initially absent) set of class escapes -/
def addU (ad : Option Ranges) (S : Ranges) : Ranges :=
  match ad with
  | some a => unionR a S
  | none => S

/-- effect of a member on the set of class escapes -/
def Item.addA (env : Env) (ad : Option Ranges) : Item → Option Ranges
  | .cls e => some (addU ad (clsSet env e))
  | .prop pos name => some (addU ad (propSet env pos name))
  | _ => ad

def Item.step (env : Env) (k : ClsSt) (i : Item) : ClsSt :=
  { k with builder := i.addB k.builder, addend := i.addA env k.addend }

/-- the inversion list of a class expression: (characters ∪ class escapes), complemented for `^`,
    minus the subtrahend -/
def CExpr.denote (env : Env) : CExpr → Ranges
  | .leaf neg items => (items.foldl (Item.step env) { positive := !neg }).finish
  | .minus neg items sub =>
    ({ items.foldl (Item.step env) { positive := !neg } with
        subtrahend := some (sub.denote env) }).finish

/-- loop iterations an item takes -/
def Item.steps : Item → Nat
  | .range _ _ => 3
  | _ => 1

def stepsAll : List Item → Nat
  | [] => 0
  | i :: is => i.steps + stepsAll is

/-! ### `escape` on the items -/

theorem escape_single {c : PC} {s : PS} {e : Nat} {tl : List Nat} (b : Bool)
    (h : c.pat.drop s.idx = 92 :: e :: tl) (hok : escSingleOk c.fl.xsd e = true) :
    escape c s b = .ok (.chr (escVal e)) { s with idx := s.idx + 2 } := by
  obtain ⟨hlt0, hat0, h1⟩ := drop_cons_facts h
  obtain ⟨hlt1, hat1, _⟩ := drop_cons_facts h1
  have c0 : (c.at s.idx != 92) = false := by simp [hat0]
  have c1 : ¬ (s.idx + 1 ≥ c.len) := by omega
  unfold escape
  simp only [c0, c1, Bool.false_eq_true, if_false, hat1]
  simp only [escSingleOk, Bool.or_eq_true, beq_iff_eq, Bool.and_eq_true, Bool.not_eq_true',
    or_assoc] at hok
  rcases hok with rfl | rfl | rfl | rfl | rfl | rfl | rfl | rfl | rfl | rfl | rfl | rfl | rfl |
    rfl | rfl | rfl | rfl | ⟨rfl, hx⟩
  all_goals simp [escVal, *]

theorem escape_cls {c : PC} {s : PS} {e : Nat} {tl : List Nat} (b : Bool)
    (h : c.pat.drop s.idx = 92 :: e :: tl) (hok : clsEscOk e = true) :
    escape c s b = .ok (.set (clsSet c.env e)) { s with idx := s.idx + 2 } := by
  obtain ⟨hlt0, hat0, h1⟩ := drop_cons_facts h
  obtain ⟨hlt1, hat1, _⟩ := drop_cons_facts h1
  have c0 : (c.at s.idx != 92) = false := by simp [hat0]
  have c1 : ¬ (s.idx + 1 ≥ c.len) := by omega
  unfold escape
  simp only [c0, c1, Bool.false_eq_true, if_false, hat1]
  simp only [clsEscOk, Bool.or_eq_true, beq_iff_eq, or_assoc] at hok
  rcases hok with rfl | rfl | rfl | rfl | rfl | rfl | rfl | rfl | rfl | rfl
  all_goals simp [clsSet, clsPos, clsBase]

theorem findClose_name {c : PC} : ∀ (name : List Nat) (i fuel : Nat) (tl : List Nat),
    c.pat.drop i = name ++ 125 :: tl → name.all (· != 125) = true → name.length < fuel →
    findClose c fuel i = some (i + name.length) := by
  intro name
  induction name with
  | nil =>
    intro i fuel tl h _ hf
    obtain ⟨f, rfl⟩ : ∃ f, fuel = f + 1 := ⟨fuel - 1, by simp at hf; omega⟩
    obtain ⟨hlt, hat, _⟩ := drop_cons_facts (by simpa using h)
    have c1 : ¬ (i ≥ c.len) := by omega
    simp [findClose, c1, hat]
  | cons y more ih =>
    intro i fuel tl h hall hf
    obtain ⟨f, rfl⟩ : ∃ f, fuel = f + 1 := ⟨fuel - 1, by simp at hf; omega⟩
    rw [List.cons_append] at h
    obtain ⟨hlt, hat, h1⟩ := drop_cons_facts h
    rw [List.all_cons, Bool.and_eq_true] at hall
    have hy : (y == 125) = false := by simpa using hall.1
    have c1 : ¬ (i ≥ c.len) := by omega
    rw [findClose]
    simp only [c1, if_false, hat, hy, Bool.false_eq_true]
    rw [ih (i + 1) f tl h1 hall.2 (by simp at hf; omega)]
    simp only [List.length_cons]
    congr 1
    omega

theorem escape_prop {c : PC} {s : PS} {pos : Bool} {name tl : List Nat} {rs : Ranges} (b : Bool)
    (h : c.pat.drop s.idx = 92 :: (if pos then 112 else 80) :: 123 :: (name ++ 125 :: tl))
    (hall : name.all (· != 125) = true) (hl : propLookup c.env name = some rs) :
    escape c s b =
      .ok (.set (if pos then rs else complR rs)) { s with idx := s.idx + 4 + name.length } := by
  obtain ⟨hlt0, hat0, h1⟩ := drop_cons_facts h
  obtain ⟨hlt1, hat1, h2⟩ := drop_cons_facts h1
  obtain ⟨hlt2, hat2, h3⟩ := drop_cons_facts h2
  have c0 : (c.at s.idx != 92) = false := by simp [hat0]
  have c1 : ¬ (s.idx + 1 ≥ c.len) := by omega
  have c2 : (s.idx + 2 == c.len) = false := by rw [beq_eq_false_iff_ne]; omega
  have c3 : (c.at (s.idx + 2) != 123) = false := by
    rw [show s.idx + 2 = s.idx + 1 + 1 from rfl]; simp [hat2]
  have hfc : findClose c (c.len + 1) (s.idx + 2 + 1) = some (s.idx + 2 + 1 + name.length) := by
    apply findClose_name name _ _ tl h3 hall
    have := drop_len h3
    simp only [List.length_append, List.length_cons] at this
    omega
  have hblock : (c.pat.drop (s.idx + 2 + 1)).take (s.idx + 2 + 1 + name.length - (s.idx + 2 + 1)) = name := by
    rw [show s.idx + 2 + 1 = s.idx + 1 + 1 + 1 from rfl, h3, Nat.add_sub_cancel_left]
    simp
  unfold escape
  simp only [c0, c1, Bool.false_eq_true, if_false, hat1]
  unfold propLookup at hl
  cases pos with
  | true =>
    simp only [if_true] at *
    simp only [c2, c3, hfc, hblock, Bool.false_eq_true, if_false, Nat.reduceBEq, Bool.or_false,
      Bool.or_true, if_true, Bool.false_or]
    split at hl
    · rename_i hlen
      simp only [hlen, if_true, hl]
      congr 2
      omega
    · rename_i hlen
      split at hl
      · rename_i hIs
        simp only [hlen, hIs, if_true, hl, Bool.false_eq_true, if_false]
        congr 2
        omega
      · cases hl
  | false =>
    simp only [Bool.false_eq_true, if_false] at *
    simp only [c2, c3, hfc, hblock, Bool.false_eq_true, if_false, Nat.reduceBEq, Bool.or_false,
      Bool.or_true, if_true, Bool.false_or]
    split at hl
    · rename_i hlen
      simp only [hlen, if_true, hl]
      congr 2
      omega
    · rename_i hlen
      split at hl
      · rename_i hIs
        simp only [hlen, hIs, if_true, hl, Bool.false_eq_true, if_false]
        congr 2
        omega
      · cases hl

/-! ### what may follow a member -/

/-- text after a single character that makes it a member (not a range start) -/
def FolS (l : List Nat) : Prop :=
  (∀ tl, l ≠ 45 :: tl) ∨ (∃ tl, l = 45 :: 93 :: tl) ∨ (∃ tl, l = 45 :: 91 :: tl) ∨
    (∃ tl, l = 45 :: 45 :: 91 :: tl)

/-- text after a literal hyphen -/
def FolH (l : List Nat) : Prop :=
  (∃ tl, l = 93 :: tl) ∨ (∃ tl, l = 45 :: 91 :: tl) ∨
    (∃ y tl, l = y :: tl ∧ y ≠ 45 ∧ y ≠ 91 ∧ y ≠ 93)

/-- text after the last member: `]` or `-[` -/
def FolOk (l : List Nat) : Prop := (∃ tl, l = 93 :: tl) ∨ (∃ tl, l = 45 :: 91 :: tl)

theorem FolH.folS {l : List Nat} (h : FolH l) : FolS l := by
  rcases h with ⟨tl, rfl⟩ | ⟨tl, rfl⟩ | ⟨y, tl, rfl, hy, _, _⟩
  · left; intro tl' h; cases h
  · right; right; left; exact ⟨tl, rfl⟩
  · left; intro tl' h; injection h with h1 _; exact hy h1

/-- a character followed by anything but a range-forming `-` is added to the builder -/
theorem clsSimple_add {c : PC} (hci : c.fl.caseBlind = false) {i : Nat} {k : ClsSt} {x : Nat}
    {l : List Nat} (h : c.pat.drop i = l) (hf : FolS l) (hk : k.definingRange = false) :
    clsSimple c i k (some x) = some { k with builder := addChar x k.builder } := by
  unfold clsSimple
  rcases hf with hn | ⟨tl, rfl⟩ | ⟨tl, rfl⟩ | ⟨tl, rfl⟩
  · have t : thereFollows c i [45] = false := by
      rw [thereFollows_eq h (by simp)]
      cases l with
      | nil => rfl
      | cons y tl =>
        have : y ≠ 45 := fun hy => hn tl (by rw [hy])
        simp [this]
    simp only [hk, t, Bool.false_eq_true, if_false, addCharCI, hci]
  · have t : thereFollows c i [45, 93] = true := by
      rw [thereFollows_eq h (by simp)]; simp
    simp only [hk, t, Bool.false_eq_true, if_false, addCharCI, hci, Bool.or_true, Bool.true_or,
      if_true, ite_self]
  · have t : thereFollows c i [45, 91] = true := by
      rw [thereFollows_eq h (by simp)]; simp
    simp only [hk, t, Bool.false_eq_true, if_false, addCharCI, hci, Bool.or_true, Bool.true_or,
      if_true, ite_self]
  · have t : thereFollows c i [45, 45, 91] = true := by
      rw [thereFollows_eq h (by simp)]; simp
    simp only [hk, t, Bool.false_eq_true, if_false, addCharCI, hci, Bool.or_true, Bool.true_or,
      if_true, ite_self]

/-! ### single steps of `classLoop` -/

theorem Single.render_head {xsd : Bool} {a : Single} (ha : a.ok xsd = true) :
    ∃ y tl, a.render = y :: tl ∧ y ≠ 45 ∧ y ≠ 91 ∧ y ≠ 93 := by
  cases a with
  | plain x =>
    simp only [Single.ok, plainC, Bool.not_eq_true', Bool.or_eq_false_iff,
      beq_eq_false_iff_ne, ne_eq] at ha
    exact ⟨x, [], rfl, ha.2, ha.1.1.2, ha.1.2⟩
  | esc e => exact ⟨92, [e], rfl, by decide, by decide, by decide⟩

/-- one loop step on a single character (plain or escaped): `clsSimple` decides what it is -/
theorem classLoop_single {c : PC} {f : Nat} {st : PS} {k : ClsSt} {a : Single} {nxt : List Nat}
    (h : c.pat.drop st.idx = a.render ++ nxt) (ha : a.ok c.fl.xsd = true) :
    classLoop c (f + 1) st k =
      match clsSimple c (st.idx + a.render.length) k (some a.val) with
      | none => .err .syntax
      | some k' => classLoop c f { st with idx := st.idx + a.render.length } k' := by
  cases a with
  | plain x =>
    simp only [Single.ok, plainC, Bool.not_eq_true', Bool.or_eq_false_iff,
      beq_eq_false_iff_ne, ne_eq] at ha
    obtain ⟨⟨⟨h92, h91⟩, h93⟩, h45⟩ := ha
    simp only [Single.render, List.cons_append, List.nil_append] at h
    obtain ⟨hlt, hat, _⟩ := drop_cons_facts h
    have h1 : (decide (st.idx < c.len) && c.at st.idx != 93) = true := by simp [hat, hlt, h93]
    rw [classLoop, if_pos h1]
    have e91 : (x == 91) = false := by simp [h91]
    have e92 : (x == 92) = false := by simp [h92]
    have e45 : (x == 45) = false := by simp [h45]
    simp only [hat, e91, e92, e45, Bool.false_eq_true, if_false, Single.render, Single.val,
      List.length_cons, List.length_nil, Nat.zero_add]
    rfl
  | esc e =>
    simp only [Single.ok] at ha
    simp only [Single.render, List.cons_append, List.nil_append] at h
    obtain ⟨hlt, hat, _⟩ := drop_cons_facts h
    have h1 : (decide (st.idx < c.len) && c.at st.idx != 93) = true := by simp [hat, hlt]
    rw [classLoop, if_pos h1]
    have e91 : ((92 : Nat) == 91) = false := by decide
    simp only [hat, e91, beq_self_eq_true, Bool.false_eq_true, if_false, if_true,
      escape_single true h ha, Single.render, Single.val, List.length_cons, List.length_nil,
      Nat.zero_add]
    rfl

/-- a single character that is a member -/
theorem classLoop_one {c : PC} (hci : c.fl.caseBlind = false) {f : Nat} {st : PS} {k : ClsSt}
    {a : Single} {nxt : List Nat} (h : c.pat.drop st.idx = a.render ++ nxt)
    (ha : a.ok c.fl.xsd = true) (hf : FolS nxt) (hk : k.definingRange = false) :
    classLoop c (f + 1) st k =
      classLoop c f { st with idx := st.idx + a.render.length }
        { k with builder := addChar a.val k.builder } := by
  have hn : c.pat.drop (st.idx + a.render.length) = nxt := by
    rw [← List.drop_drop, h, List.drop_left]
  rw [classLoop_single h ha, clsSimple_add hci hn hf hk]

/-- a class escape (any `escape` result that is a set) outside a range -/
theorem classLoop_set {c : PC} {f : Nat} {st st' : PS} {k : ClsSt} {rs : Ranges} {tl : List Nat}
    (h : c.pat.drop st.idx = 92 :: tl) (he : escape c st true = .ok (.set rs) st')
    (hk : k.definingRange = false) :
    classLoop c (f + 1) st k =
      classLoop c f st'
        { k with addend := some (match k.addend with | some a => unionR a rs | none => rs) } := by
  obtain ⟨hlt, hat, _⟩ := drop_cons_facts h
  have h1 : (decide (st.idx < c.len) && c.at st.idx != 93) = true := by simp [hat, hlt]
  rw [classLoop, if_pos h1]
  have e91 : ((92 : Nat) == 91) = false := by decide
  simp only [hat, e91, beq_self_eq_true, Bool.false_eq_true, if_false, if_true, he, hk]
  rfl

/-- a literal hyphen -/
theorem classLoop_hyphen {c : PC} (hci : c.fl.caseBlind = false) {f : Nat} {st : PS} {k : ClsSt}
    {nxt : List Nat} (h : c.pat.drop st.idx = 45 :: nxt) (hf : FolH nxt)
    (hk : k.definingRange = false) (hr : k.rangeStart = none) :
    classLoop c (f + 1) st k =
      classLoop c f { st with idx := st.idx + 1 } { k with builder := addChar 45 k.builder } := by
  obtain ⟨hlt, hat, hn⟩ := drop_cons_facts h
  have h1 : (decide (st.idx < c.len) && c.at st.idx != 93) = true := by simp [hat, hlt]
  have hcs := clsSimple_add (x := 45) hci hn hf.folS hk
  rw [classLoop, if_pos h1]
  have e91 : ((45 : Nat) == 91) = false := by decide
  have e92 : ((45 : Nat) == 92) = false := by decide
  have hrs : k.rangeStart.isSome = false := by rw [hr]; rfl
  rcases hf with ⟨tl, rfl⟩ | ⟨tl, rfl⟩ | ⟨y, tl, rfl, hy45, hy91, hy93⟩
  · have t1 : thereFollows c st.idx [45, 91] = false := by
      rw [thereFollows_eq h (by simp)]; simp
    have t2 : thereFollows c st.idx [45, 93] = true := by
      rw [thereFollows_eq h (by simp)]; simp
    simp only [hat, e91, e92, t1, t2, hcs, beq_self_eq_true, Bool.false_eq_true, if_false, if_true]
  · have t1 : thereFollows c st.idx [45, 91] = false := by
      rw [thereFollows_eq h (by simp)]; simp
    have t2 : thereFollows c st.idx [45, 93] = false := by
      rw [thereFollows_eq h (by simp)]; simp
    have t3 : thereFollows c st.idx [45, 45, 91] = true := by
      rw [thereFollows_eq h (by simp)]; simp
    simp only [hat, e91, e92, t1, t2, t3, hrs, hk, hcs, beq_self_eq_true, Bool.false_eq_true,
      if_false, if_true, Bool.not_true, Bool.and_false]
  · have t1 : thereFollows c st.idx [45, 91] = false := by
      rw [thereFollows_eq h (by simp)]; simp [hy91]
    have t2 : thereFollows c st.idx [45, 93] = false := by
      rw [thereFollows_eq h (by simp)]; simp [hy93]
    have t3 : thereFollows c st.idx [45, 45] = false := by
      rw [thereFollows_eq h (by simp)]; simp [hy45]
    simp only [hat, e91, e92, t1, t2, t3, hrs, hk, hcs, beq_self_eq_true, Bool.false_eq_true,
      if_false, if_true, Bool.false_and]

/-- a range `a-b` with plain or escaped end points: three loop steps -/
theorem classLoop_range2 {c : PC} (hci : c.fl.caseBlind = false) {f : Nat} {st : PS} {k : ClsSt}
    {a b : Single} {nxt : List Nat}
    (h : c.pat.drop st.idx = (a.render ++ 45 :: b.render) ++ nxt)
    (ha : a.ok c.fl.xsd = true) (hb : b.ok c.fl.xsd = true) (hab : a.val ≤ b.val)
    (hk : k.definingRange = false) (hr : k.rangeStart = none) :
    classLoop c (f + 3) st k =
      classLoop c f { st with idx := st.idx + (a.render ++ 45 :: b.render).length }
        { k with builder := addRange a.val (b.val + 1) k.builder } := by
  obtain ⟨y, btl, hby, hy45, hy91, hy93⟩ := Single.render_head hb
  have h0 : c.pat.drop st.idx = a.render ++ (45 :: b.render ++ nxt) := by
    rw [h]; simp
  have h1 : c.pat.drop (st.idx + a.render.length) = 45 :: (b.render ++ nxt) := by
    rw [← List.drop_drop, h0, List.drop_left]; rfl
  have h1' : c.pat.drop (st.idx + a.render.length) = 45 :: y :: (btl ++ nxt) := by
    rw [h1, hby]; rfl
  have h2 : c.pat.drop (st.idx + a.render.length + 1) = b.render ++ nxt := (drop_cons_facts h1).2.2
  rw [classLoop_single (f := f + 2) h0 ha, clsSimple_rangeStart h1' hy91 hy93 hy45 hk]
  simp only
  rw [classLoop_dash (f := f + 1) (st := { st with idx := st.idx + a.render.length }) h1' hy91 hy93 rfl]
  rw [classLoop_single (f := f) (st := { st with idx := st.idx + a.render.length + 1 }) h2 hb,
    clsSimple_rangeEnd hci rfl rfl hab]
  simp only [List.length_append, List.length_cons]
  have : st.idx + a.render.length + 1 + b.render.length = st.idx + (a.render.length + (b.render.length + 1)) := by
    omega
  rw [this]
  congr 1
  cases k
  simp only at hk hr
  subst hk; subst hr
  rfl

/-- at `-[`: the nested class is parsed, `]` must follow, and the loop ends with the subtrahend set -/
theorem classLoop_sub {c : PC} {f : Nat} {st s' : PS} {k : ClsSt} {sub : Ranges} {tl tl' : List Nat}
    (h : c.pat.drop st.idx = 45 :: 91 :: tl)
    (hp : parseClass c (f + 1) { st with idx := st.idx + 1 } = .ok sub s')
    (h' : c.pat.drop s'.idx = 93 :: tl') (hk : k.definingRange = false) :
    classLoop c (f + 2) st k =
      .ok ({ k with subtrahend := some sub }).finish { s' with idx := s'.idx + 1 } := by
  obtain ⟨hlt, hat, _⟩ := drop_cons_facts h
  have h1 : (decide (st.idx < c.len) && c.at st.idx != 93) = true := by simp [hat, hlt]
  rw [classLoop, if_pos h1]
  have e91 : ((45 : Nat) == 91) = false := by decide
  have e92 : ((45 : Nat) == 92) = false := by decide
  have t1 : thereFollows c st.idx [45, 91] = true := by
    rw [thereFollows_eq h (by simp)]; simp
  have t2 : thereFollows c s'.idx [93] = true := by
    rw [thereFollows_eq h' (by simp)]; simp
  have t3 : thereFollows c s'.idx [45] = false := by
    rw [thereFollows_eq h' (by simp)]; simp
  have hcs : clsSimple c s'.idx { k with subtrahend := some sub } none =
      some { k with subtrahend := some sub } := by
    unfold clsSimple
    simp only [hk, t3, Bool.false_eq_true, if_false]
  simp only [hat, e91, e92, t1, t2, hp, hcs, beq_self_eq_true, Bool.false_eq_true, if_false,
    if_true, Bool.not_true]
  exact classLoop_stop h'

/-! ### the shape of the text after a member -/

theorem Item.render_head {xsd : Bool} {env : Env} {j : Item} (hj : j.ok xsd env = true)
    (hh : j.isHyphen = false) : ∃ y tl, j.render = y :: tl ∧ y ≠ 45 ∧ y ≠ 91 ∧ y ≠ 93 := by
  cases j with
  | one a =>
    simp only [Item.ok, Bool.and_eq_true] at hj
    exact Single.render_head hj.1
  | range a b =>
    simp only [Item.ok, Bool.and_eq_true] at hj
    obtain ⟨y, tl, h, h45, h91, h93⟩ := Single.render_head hj.1.1.1
    exact ⟨y, tl ++ 45 :: b.render, by simp [Item.render, h], h45, h91, h93⟩
  | hyphen => cases hh
  | cls e => exact ⟨92, [e], rfl, by decide, by decide, by decide⟩
  | prop pos name => exact ⟨92, _, rfl, by decide, by decide, by decide⟩

theorem folH_of {xsd : Bool} {env : Env} {is : List Item} {fol : List Nat}
    (hok : itemsOk xsd env is = true) (hadj : adjOk .hyphen is = true) (hfol : FolOk fol) :
    FolH (renderAll is ++ fol) := by
  cases is with
  | nil =>
    rcases hfol with ⟨tl, rfl⟩ | ⟨tl, rfl⟩
    · left; exact ⟨tl, rfl⟩
    · right; left; exact ⟨tl, rfl⟩
  | cons j more =>
    simp only [itemsOk, Bool.and_eq_true] at hok
    have hh : j.isHyphen = false := by
      simp only [adjOk, Item.isHyphen, Bool.not_true, Bool.false_and, Bool.or_false,
        Bool.not_eq_true'] at hadj
      exact hadj
    obtain ⟨y, tl, h, h45, h91, h93⟩ := Item.render_head hok.1.1 hh
    right; right
    exact ⟨y, tl ++ (renderAll more ++ fol), by simp [renderAll, h], h45, h91, h93⟩

theorem folS_of {xsd : Bool} {env : Env} {a : Single} {is : List Item} {fol : List Nat}
    (hok : itemsOk xsd env is = true) (hadj : adjOk (.one a) is = true) (hfol : FolOk fol) :
    FolS (renderAll is ++ fol) := by
  cases is with
  | nil =>
    rcases hfol with ⟨tl, rfl⟩ | ⟨tl, rfl⟩
    · left; intro tl' h; cases h
    · right; right; left; exact ⟨tl, rfl⟩
  | cons j more =>
    simp only [itemsOk, Bool.and_eq_true] at hok
    cases hh : j.isHyphen with
    | false =>
      obtain ⟨y, tl, h, h45, _, _⟩ := Item.render_head hok.1.1 hh
      left
      intro tl' he
      simp only [renderAll, h, List.cons_append] at he
      injection he with h1 _
      exact h45 h1
    | true =>
      cases j <;> simp only [Item.isHyphen] at hh <;> try cases hh
      simp only [adjOk, Item.isHyphen, Item.isOne, Bool.not_true, Bool.not_false, Bool.false_or,
        Bool.true_and, List.isEmpty_iff] at hadj
      subst hadj
      rcases hfol with ⟨tl, rfl⟩ | ⟨tl, rfl⟩
      · right; left; exact ⟨tl, rfl⟩
      · right; right; right; exact ⟨tl, rfl⟩

theorem FolOk.ne_nil {fol : List Nat} (h : FolOk fol) : fol ≠ [] := by
  rcases h with ⟨tl, rfl⟩ | ⟨tl, rfl⟩ <;> simp

/-- the text of a non-empty member list and what follows: at least two characters, the first is
    neither `[` nor `]`, and it does not begin with `-[` -/
theorem body_head {xsd : Bool} {env : Env} {items : List Item} {fol : List Nat}
    (hne : items ≠ []) (hok : itemsOk xsd env items = true) (hfol : FolOk fol) :
    ∃ y z tl, renderAll items ++ fol = y :: z :: tl ∧ (renderAll items).head? = some y ∧
      y ≠ 91 ∧ y ≠ 93 ∧ (y = 45 → z ≠ 91) := by
  cases items with
  | nil => exact absurd rfl hne
  | cons j more =>
    have hok' := hok
    simp only [itemsOk, Bool.and_eq_true] at hok
    cases hh : j.isHyphen with
    | false =>
      obtain ⟨y, tl, h, h45, h91, h93⟩ := Item.render_head hok.1.1 hh
      have hne2 : tl ++ (renderAll more ++ fol) ≠ [] := by
        simp [hfol.ne_nil]
      obtain ⟨z, tl2, hz⟩ := List.exists_cons_of_ne_nil hne2
      exact ⟨y, z, tl2, by simp [renderAll, h, ← hz], by simp [renderAll, h], h91, h93,
        fun h => absurd h h45⟩
    | true =>
      cases j <;> simp only [Item.isHyphen] at hh <;> try cases hh
      have hf := folH_of hok.2 hok.1.2 hfol
      rcases hf with ⟨tl, h⟩ | ⟨tl, h⟩ | ⟨y, tl, h, h45, h91, h93⟩
      · exact ⟨45, 93, tl, by simp [renderAll, Item.render, h], rfl, by decide, by decide, by decide⟩
      · exact ⟨45, 45, 91 :: tl, by simp [renderAll, Item.render, h], rfl, by decide, by decide,
          by decide⟩
      · exact ⟨45, y, tl, by simp [renderAll, Item.render, h], rfl, by decide, by decide,
          fun _ => h91⟩

/-! ### the member loop -/

theorem stepsAll_le (items : List Item) : stepsAll items ≤ (renderAll items).length := by
  induction items with
  | nil => exact Nat.le_refl _
  | cons i more ih =>
    simp only [stepsAll, renderAll, List.length_append]
    have : i.steps ≤ i.render.length := by
      cases i with
      | one a => cases a <;> simp [Item.steps, Item.render, Single.render]
      | range a b =>
        cases a <;> cases b <;> simp [Item.steps, Item.render, Single.render]
      | hyphen => simp [Item.steps, Item.render]
      | cls e => simp [Item.steps, Item.render]
      | prop pos name => simp [Item.steps, Item.render]
    omega

theorem drop_add_of_append {c : PC} {i : Nat} {l r : List Nat} (h : c.pat.drop i = l ++ r) :
    c.pat.drop (i + l.length) = r := by
  rw [← List.drop_drop, h, List.drop_left]

/-- the loop over a rendered member list, from any state outside a range, up to the text that
    follows the members -/
theorem classLoop_all {c : PC} (hci : c.fl.caseBlind = false) (fol : List Nat) (hfol : FolOk fol) :
    ∀ (items : List Item) (fuel : Nat) (st : PS) (k : ClsSt),
      itemsOk c.fl.xsd c.env items = true →
      c.pat.drop st.idx = renderAll items ++ fol →
      k.definingRange = false → k.rangeStart = none →
      stepsAll items ≤ fuel →
      classLoop c fuel st k =
        classLoop c (fuel - stepsAll items) { st with idx := st.idx + (renderAll items).length }
          (items.foldl (Item.step c.env) k) := by
  intro items
  induction items with
  | nil =>
    intro fuel st k _ _ _ _ _
    rfl
  | cons it more ih =>
    intro fuel st k hok hpat hk hr hfuel
    simp only [itemsOk, Bool.and_eq_true] at hok
    obtain ⟨⟨hit, hadj⟩, hmore⟩ := hok
    simp only [renderAll, List.append_assoc] at hpat
    have hnext := drop_add_of_append hpat
    simp only [stepsAll] at hfuel ⊢
    simp only [renderAll, List.length_append, List.foldl_cons]
    cases it with
    | one a =>
      simp only [Item.ok, Bool.and_eq_true] at hit
      simp only [Item.steps] at hfuel ⊢
      obtain ⟨f, rfl⟩ : ∃ f, fuel = f + 1 := ⟨fuel - 1, by omega⟩
      simp only [Item.render] at hpat hnext ⊢
      rw [classLoop_one hci hpat hit.1 (folS_of hmore hadj hfol) hk]
      rw [ih f { st with idx := st.idx + a.render.length }
            { k with builder := addChar a.val k.builder } hmore hnext hk hr (by omega)]
      have e1 : f + 1 - (1 + stepsAll more) = f - stepsAll more := by omega
      rw [e1, Nat.add_assoc]
      rfl
    | range a b =>
      simp only [Item.ok, Bool.and_eq_true, decide_eq_true_eq] at hit
      simp only [Item.steps] at hfuel ⊢
      obtain ⟨f, rfl⟩ : ∃ f, fuel = f + 3 := ⟨fuel - 3, by omega⟩
      simp only [Item.render] at hpat hnext ⊢
      rw [classLoop_range2 hci (by rw [hpat, List.append_assoc]) hit.1.1.1 hit.1.1.2 hit.1.2 hk hr]
      rw [ih f { st with idx := st.idx + (a.render ++ 45 :: b.render).length }
            { k with builder := addRange a.val (b.val + 1) k.builder } hmore hnext hk hr (by omega)]
      have e1 : f + 3 - (3 + stepsAll more) = f - stepsAll more := by omega
      rw [e1, Nat.add_assoc]
      rfl
    | hyphen =>
      simp only [Item.steps] at hfuel ⊢
      obtain ⟨f, rfl⟩ : ∃ f, fuel = f + 1 := ⟨fuel - 1, by omega⟩
      simp only [Item.render, List.cons_append, List.nil_append, List.length_cons,
        List.length_nil] at hpat hnext ⊢
      rw [classLoop_hyphen hci hpat (folH_of hmore hadj hfol) hk hr]
      rw [ih f { st with idx := st.idx + 1 } { k with builder := addChar 45 k.builder } hmore hnext
            hk hr (by omega)]
      have e1 : f + 1 - (1 + stepsAll more) = f - stepsAll more := by omega
      rw [e1, Nat.add_assoc]
      rfl
    | cls e =>
      simp only [Item.ok] at hit
      simp only [Item.steps] at hfuel ⊢
      obtain ⟨f, rfl⟩ : ∃ f, fuel = f + 1 := ⟨fuel - 1, by omega⟩
      simp only [Item.render, List.cons_append, List.nil_append, List.length_cons,
        List.length_nil] at hpat hnext ⊢
      rw [classLoop_set hpat (escape_cls true hpat hit) hk]
      refine (ih f { st with idx := st.idx + 2 } (Item.step c.env k (.cls e)) hmore hnext hk hr
        (by omega)).trans ?_
      have e1 : f + 1 - (1 + stepsAll more) = f - stepsAll more := by omega
      rw [e1, Nat.add_assoc]
    | prop pos name =>
      simp only [Item.ok, Bool.and_eq_true] at hit
      obtain ⟨hall, hsome⟩ := hit
      obtain ⟨rs, hrs⟩ := Option.isSome_iff_exists.1 hsome
      simp only [Item.steps] at hfuel ⊢
      obtain ⟨f, rfl⟩ : ∃ f, fuel = f + 1 := ⟨fuel - 1, by omega⟩
      simp only [Item.render, List.cons_append, List.append_assoc, List.nil_append,
        List.length_cons, List.length_append, List.length_nil] at hpat hnext ⊢
      rw [classLoop_set hpat (escape_prop true hpat hall hrs) hk]
      have hnext' : c.pat.drop (st.idx + 4 + name.length) = renderAll more ++ fol := by
        rw [← hnext]; congr 1; omega
      have hk' : Item.step c.env k (.prop pos name) =
          { k with addend := some (match k.addend with
              | some a => unionR a (if pos = true then rs else complR rs)
              | none => if pos = true then rs else complR rs) } := by
        simp only [Item.step, Item.addB, Item.addA, addU, propSet, hrs]
      rw [hk']
      refine (ih f { st with idx := st.idx + 4 + name.length }
        { k with addend := some (match k.addend with
              | some a => unionR a (if pos = true then rs else complR rs)
              | none => if pos = true then rs else complR rs) } hmore hnext' hk hr (by omega)).trans ?_
      have e1 : f + 1 - (1 + stepsAll more) = f - stepsAll more := by omega
      have e2 : st.idx + 4 + name.length + (renderAll more).length =
          st.idx + (name.length + (0 + 1) + 1 + 1 + 1 + (renderAll more).length) := by omega
      rw [e1]
      simp only [e2]

/-! ### the whole expression -/

theorem foldl_step_fields (env : Env) : ∀ (items : List Item) (k : ClsSt),
    (items.foldl (Item.step env) k).definingRange = k.definingRange ∧
    (items.foldl (Item.step env) k).rangeStart = k.rangeStart ∧
    (items.foldl (Item.step env) k).positive = k.positive ∧
    (items.foldl (Item.step env) k).subtrahend = k.subtrahend := by
  intro items
  induction items with
  | nil => intro k; exact ⟨rfl, rfl, rfl, rfl⟩
  | cons i more ih => intro k; exact ih (Item.step env k i)

/-- the first lines of `parse_character_class`: `[` or `[^`, then the loop -/
theorem parseClass_open {c : PC} {f : Nat} {s : PS} {neg : Bool} {y z : Nat} {tl : List Nat}
    (h : c.pat.drop s.idx = 91 :: ((if neg then [94] else []) ++ y :: z :: tl))
    (h93 : y ≠ 93) (h45 : y = 45 → z ≠ 91) (h94 : neg = false → y ≠ 94) :
    parseClass c (f + 1) s =
      classLoop c f { s with idx := s.idx + 1 + (if neg then 1 else 0) } { positive := !neg } := by
  obtain ⟨hlt, hat, h1⟩ := drop_cons_facts h
  have c0 : (c.at s.idx != 91) = false := by simp [hat]
  cases neg with
  | false =>
    simp only [Bool.false_eq_true, if_false, List.nil_append] at h1 ⊢
    obtain ⟨_, hat1, _⟩ := drop_cons_facts h1
    have hlen := drop_len h1
    simp only [List.length_cons] at hlen
    have c1 : (decide (s.idx + 1 + 1 ≥ c.len) || c.at (s.idx + 1) == 93) = false := by
      simp [hat1, h93]; omega
    have t94 : thereFollows c (s.idx + 1) [94] = false := by
      rw [thereFollows_eq h1 (by simp)]; simp [h94 rfl]
    have t45 : thereFollows c (s.idx + 1) [45, 91] = false := by
      rw [thereFollows_eq h1 (by simp)]
      simp only [List.length_cons, List.length_nil, List.take_succ_cons, List.take_zero]
      by_cases hy : y = 45
      · simp [h45 hy]
      · simp [hy]
    rw [parseClass]
    simp only [c0, c1, t94, t45, Bool.false_eq_true, if_false]
    rfl
  | true =>
    simp only [if_true, List.cons_append, List.nil_append] at h1 ⊢
    obtain ⟨_, hat1, h2⟩ := drop_cons_facts h1
    have hlen := drop_len h1
    simp only [List.length_cons] at hlen
    have c1 : (decide (s.idx + 1 + 1 ≥ c.len) || c.at (s.idx + 1) == 93) = false := by
      simp [hat1]; omega
    have t94 : thereFollows c (s.idx + 1) [94] = true := by
      rw [thereFollows_eq h1 (by simp)]; simp
    have t1 : thereFollows c (s.idx + 1) [94, 45, 91] = false := by
      rw [thereFollows_eq h1 (by simp)]
      simp only [List.length_cons, List.length_nil, List.take_succ_cons, List.take_zero]
      by_cases hy : y = 45
      · simp [h45 hy]
      · simp [hy]
    have t2 : thereFollows c (s.idx + 1) [94, 93] = false := by
      rw [thereFollows_eq h1 (by simp)]; simp [h93]
    rw [parseClass]
    simp only [c0, c1, t94, t1, t2, Bool.false_eq_true, if_false, if_true]
    rfl

theorem CExpr.render_cons (e : CExpr) : ∃ tl, e.render = 91 :: tl := by
  cases e <;> exact ⟨_, rfl⟩

/-- explicit fuel: one unit per `[`, per member step and per `]`/`-[` -/
theorem CExpr.render_len_pos (e : CExpr) : 2 ≤ e.render.length := by
  cases e <;> simp [CExpr.render] <;> omega

/-- `parse_character_class` on a rendered well-formed class expression returns its inversion list
    and consumes exactly the expression -/
theorem parseClass_render {c : PC} (hci : c.fl.caseBlind = false) :
    ∀ (e : CExpr) (s : PS) (rest : List Nat) (fuel : Nat),
      e.ok c.fl.xsd c.env = true →
      c.pat.drop s.idx = e.render ++ rest →
      e.render.length ≤ fuel →
      parseClass c fuel s = .ok (e.denote c.env) { s with idx := s.idx + e.render.length } := by
  intro e
  induction e with
  | leaf neg items =>
    intro s rest fuel hok hpat hfuel
    simp only [CExpr.ok, headOk, Bool.and_eq_true, Bool.not_eq_true', List.isEmpty_eq_false_iff,
      Bool.or_eq_true] at hok
    obtain ⟨⟨hne, hitems⟩, hfirst⟩ := hok
    have hfol : FolOk (93 :: rest) := Or.inl ⟨rest, rfl⟩
    obtain ⟨y, z, tl, hbody, hhead, _, h93, h45⟩ := body_head hne hitems hfol
    have hpat' : c.pat.drop s.idx = 91 :: ((if neg then [94] else []) ++ (renderAll items ++ 93 :: rest)) := by
      rw [hpat]; simp [CExpr.render]
    have hpat2 := hpat'
    rw [hbody] at hpat2
    have h94 : neg = false → y ≠ 94 := by
      intro hn
      rcases hfirst with h | h
      · rw [hn] at h; cases h
      · rw [hhead] at h
        intro hy
        rw [hy] at h
        simp at h
    have hlenR : (CExpr.leaf neg items).render.length =
        1 + (if neg then 1 else 0) + (renderAll items).length + 1 := by
      cases neg <;> simp [CExpr.render] <;> omega
    rw [hlenR] at hfuel ⊢
    have hsteps := stepsAll_le items
    obtain ⟨f, rfl⟩ : ∃ f, fuel = f + 1 := ⟨fuel - 1, by omega⟩
    rw [parseClass_open hpat2 h93 h45 h94]
    have hst1 : c.pat.drop (s.idx + 1 + (if neg then 1 else 0)) = renderAll items ++ 93 :: rest := by
      have := drop_add_of_append (l := 91 :: (if neg then [94] else [])) (r := renderAll items ++ 93 :: rest)
        (by rw [hpat']; simp)
      rw [← this]
      cases neg <;> rfl
    rw [classLoop_all hci (93 :: rest) hfol items f
          { s with idx := s.idx + 1 + (if neg then 1 else 0) } { positive := !neg } hitems hst1 rfl rfl
          (by omega)]
    obtain ⟨f2, hf2⟩ : ∃ f2, f - stepsAll items = f2 + 1 := ⟨f - stepsAll items - 1, by omega⟩
    rw [hf2]
    have hst2 : c.pat.drop (s.idx + 1 + (if neg then 1 else 0) + (renderAll items).length) = 93 :: rest :=
      drop_add_of_append hst1
    rw [classLoop_stop (st := { s with idx := s.idx + 1 + (if neg then 1 else 0) + (renderAll items).length })
          hst2]
    simp only [CExpr.denote]
    congr 2
    omega
  | minus neg items sub ih =>
    intro s rest fuel hok hpat hfuel
    simp only [CExpr.ok, headOk, Bool.and_eq_true, Bool.not_eq_true', List.isEmpty_eq_false_iff,
      Bool.or_eq_true] at hok
    obtain ⟨⟨⟨hne, hitems⟩, hfirst⟩, hsub⟩ := hok
    obtain ⟨stl, hstl⟩ := sub.render_cons
    have hfol : FolOk (45 :: (sub.render ++ 93 :: rest)) := Or.inr ⟨stl ++ 93 :: rest, by rw [hstl]; rfl⟩
    obtain ⟨y, z, tl, hbody, hhead, _, h93, h45⟩ := body_head hne hitems hfol
    have hpat' : c.pat.drop s.idx =
        91 :: ((if neg then [94] else []) ++ (renderAll items ++ 45 :: (sub.render ++ 93 :: rest))) := by
      rw [hpat]; simp [CExpr.render]
    have hpat2 := hpat'
    rw [hbody] at hpat2
    have h94 : neg = false → y ≠ 94 := by
      intro hn
      rcases hfirst with h | h
      · rw [hn] at h; cases h
      · rw [hhead] at h
        intro hy
        rw [hy] at h
        simp at h
    have hlenR : (CExpr.minus neg items sub).render.length =
        1 + (if neg then 1 else 0) + (renderAll items).length + 1 + sub.render.length + 1 := by
      cases neg <;> simp [CExpr.render] <;> omega
    rw [hlenR] at hfuel ⊢
    have hsteps := stepsAll_le items
    obtain ⟨f, rfl⟩ : ∃ f, fuel = f + 1 := ⟨fuel - 1, by omega⟩
    rw [parseClass_open hpat2 h93 h45 h94]
    have hst1 : c.pat.drop (s.idx + 1 + (if neg then 1 else 0)) =
        renderAll items ++ 45 :: (sub.render ++ 93 :: rest) := by
      have := drop_add_of_append (l := 91 :: (if neg then [94] else []))
        (r := renderAll items ++ 45 :: (sub.render ++ 93 :: rest)) (by rw [hpat']; simp)
      rw [← this]
      cases neg <;> rfl
    rw [classLoop_all hci _ hfol items f
          { s with idx := s.idx + 1 + (if neg then 1 else 0) } { positive := !neg } hitems hst1 rfl rfl
          (by omega)]
    obtain ⟨f2, hf2⟩ : ∃ f2, f - stepsAll items = f2 + 2 := ⟨f - stepsAll items - 2, by omega⟩
    rw [hf2]
    have hst2 : c.pat.drop (s.idx + 1 + (if neg then 1 else 0) + (renderAll items).length) =
        45 :: (sub.render ++ 93 :: rest) := drop_add_of_append hst1
    have hst2' : c.pat.drop (s.idx + 1 + (if neg then 1 else 0) + (renderAll items).length) =
        45 :: 91 :: (stl ++ 93 :: rest) := by rw [hst2, hstl]; rfl
    have hst3 := (drop_cons_facts hst2).2.2
    have hp := ih { s with idx := s.idx + 1 + (if neg then 1 else 0) + (renderAll items).length + 1 }
      (93 :: rest) (f2 + 1) hsub hst3 (by omega)
    have hst4 : c.pat.drop (s.idx + 1 + (if neg then 1 else 0) + (renderAll items).length + 1
        + sub.render.length) = 93 :: rest := drop_add_of_append hst3
    have hdr := (foldl_step_fields c.env items { positive := !neg }).1
    rw [classLoop_sub (st := { s with idx := s.idx + 1 + (if neg then 1 else 0) + (renderAll items).length })
          hst2' hp hst4 hdr]
    simp only [CExpr.denote]
    congr 2
    omega

/-! ### what the inversion list denotes -/

/-- the environment's tables are canonical inversion lists -/
structure EnvCanon (env : Env) : Prop where
  digit : Canon env.digit
  word : Canon env.word
  nameStart : Canon env.nameStart
  nameChar : Canon env.nameChar
  category : ∀ n rs, env.category n = some rs → Canon rs
  block : ∀ n rs, env.block n = some rs → Canon rs

/-- membership of `x` in one member of a class expression -/
def Item.mem (env : Env) (x : Nat) : Item → Bool
  | .one a => decide (x = a.val)
  | .range a b => decide (a.val ≤ x) && decide (x ≤ b.val)
  | .hyphen => decide (x = 45)
  | .cls e => if clsPos e then clsContains (clsBase env e) x else !clsContains (clsBase env e) x
  | .prop pos name =>
    match propLookup env name with
    | some rs => if pos then clsContains rs x else !clsContains rs x
    | none => false

/-- the set-algebra reading, as a Boolean: (member of some item) XOR negated, and not in the
    subtrahend -/
def CExpr.mem (env : Env) (x : Nat) : CExpr → Bool
  | .leaf neg items => (items.any (Item.mem env x)) ^^ neg
  | .minus neg items sub => ((items.any (Item.mem env x)) ^^ neg) && !(sub.mem env x)

theorem canon_escapeS : Canon escapeS := by
  have : escapeS = [(9, 11), (13, 14), (32, 33)] := by decide
  rw [this]
  simp [Canon, cpLimit]

theorem canon_clsBase {env : Env} (henv : EnvCanon env) (e : Nat) : Canon (clsBase env e) := by
  unfold clsBase
  split
  · exact canon_escapeS
  · split
    · exact henv.nameStart
    · split
      · exact henv.nameChar
      · split
        · exact henv.digit
        · exact henv.word

theorem canon_clsSet {env : Env} (henv : EnvCanon env) (e : Nat) : Canon (clsSet env e) := by
  unfold clsSet
  split
  · exact canon_clsBase henv e
  · exact canon_complR _ (canon_clsBase henv e)

theorem contains_clsSet {env : Env} (henv : EnvCanon env) (e x : Nat) (hx : x < cpLimit) :
    clsContains (clsSet env e) x = (Item.cls e).mem env x := by
  simp only [clsSet, Item.mem]
  split
  · rfl
  · exact contains_complR _ (canon_clsBase henv e) x hx

theorem canon_propLookup {env : Env} (henv : EnvCanon env) {name : List Nat} {rs : Ranges}
    (h : propLookup env name = some rs) : Canon rs := by
  unfold propLookup at h
  split at h
  · exact henv.category _ _ h
  · split at h
    · exact henv.block _ _ h
    · cases h

theorem canon_propSet {env : Env} (henv : EnvCanon env) (pos : Bool) (name : List Nat) :
    Canon (propSet env pos name) := by
  unfold propSet
  cases h : propLookup env name with
  | none => simp [Canon]
  | some rs =>
    simp only
    split
    · exact canon_propLookup henv h
    · exact canon_complR _ (canon_propLookup henv h)

theorem contains_propSet {env : Env} (henv : EnvCanon env) (pos : Bool) (name : List Nat) (x : Nat)
    (hx : x < cpLimit) : clsContains (propSet env pos name) x = (Item.prop pos name).mem env x := by
  simp only [propSet, Item.mem]
  cases h : propLookup env name with
  | none => rfl
  | some rs =>
    simp only
    split
    · rfl
    · exact contains_complR _ (canon_propLookup henv h) x hx

/-- membership in an optional set -/
def optC (o : Option Ranges) (x : Nat) : Bool := (o.map (clsContains · x)).getD false

theorem addend_spec {ad : Option Ranges} {S : Ranges} (hS : Canon S)
    (had : ∀ a, ad = some a → Canon a) (x : Nat) :
    Canon (addU ad S) ∧ clsContains (addU ad S) x = (clsContains S x || optC ad x) := by
  cases ad with
  | none => exact ⟨hS, by simp [addU, optC]⟩
  | some a =>
    refine ⟨canon_unionR _ _ (had a rfl) hS, ?_⟩
    simp only [addU, optC, Option.map_some, Option.getD_some]
    rw [contains_unionR _ _ (had a rfl) hS, Bool.or_comm]

/-- one member: the builder and the addend stay canonical and gain exactly the member -/
theorem step_spec {env : Env} (henv : EnvCanon env) {xsd : Bool} (x : Nat) (hx : x < cpLimit)
    (i : Item) (hi : i.ok xsd env = true) (k : ClsSt) (hb : Canon k.builder)
    (had : ∀ a, k.addend = some a → Canon a) :
    Canon (Item.step env k i).builder ∧ (∀ a, (Item.step env k i).addend = some a → Canon a) ∧
    (clsContains (Item.step env k i).builder x || optC (Item.step env k i).addend x) =
      (i.mem env x || (clsContains k.builder x || optC k.addend x)) := by
  cases i with
  | one a =>
    simp only [Item.ok, Bool.and_eq_true, decide_eq_true_eq] at hi
    refine ⟨canon_addRange _ hb _ _ (by omega), had, ?_⟩
    simp only [Item.step, Item.addB, Item.addA, Item.mem]
    rw [contains_addChar _ hb, Bool.or_assoc]
  | range a b =>
    simp only [Item.ok, Bool.and_eq_true, decide_eq_true_eq] at hi
    refine ⟨canon_addRange _ hb _ _ (by omega), had, ?_⟩
    simp only [Item.step, Item.addB, Item.addA, Item.mem]
    rw [contains_addRange _ hb, Bool.or_assoc]
    have e : decide (x < b.val + 1) = decide (x ≤ b.val) := by
      rw [Bool.eq_iff_iff]; simp only [decide_eq_true_eq]; omega
    rw [e]
  | hyphen =>
    refine ⟨canon_addRange _ hb _ _ (by simp [cpLimit]), had, ?_⟩
    simp only [Item.step, Item.addB, Item.addA, Item.mem]
    rw [contains_addChar _ hb, Bool.or_assoc]
  | cls e =>
    obtain ⟨h1, h2⟩ := addend_spec (canon_clsSet henv e) had x
    refine ⟨hb, ?_, ?_⟩
    · intro a ha
      simp only [Item.step, Item.addA, Option.some.injEq] at ha
      rw [← ha]; exact h1
    · simp only [Item.step, Item.addB, Item.addA]
      rw [show optC (some (addU k.addend (clsSet env e))) x =
          clsContains (addU k.addend (clsSet env e)) x from rfl, h2, contains_clsSet henv e x hx]
      cases (Item.cls e).mem env x <;> cases clsContains k.builder x <;> cases optC k.addend x <;> rfl
  | prop pos name =>
    obtain ⟨h1, h2⟩ := addend_spec (canon_propSet henv pos name) had x
    refine ⟨hb, ?_, ?_⟩
    · intro a ha
      simp only [Item.step, Item.addA, Option.some.injEq] at ha
      rw [← ha]; exact h1
    · simp only [Item.step, Item.addB, Item.addA]
      rw [show optC (some (addU k.addend (propSet env pos name))) x =
          clsContains (addU k.addend (propSet env pos name)) x from rfl, h2,
        contains_propSet henv pos name x hx]
      cases (Item.prop pos name).mem env x <;> cases clsContains k.builder x <;>
        cases optC k.addend x <;> rfl

theorem foldl_step_spec {env : Env} (henv : EnvCanon env) {xsd : Bool} (x : Nat) (hx : x < cpLimit) :
    ∀ (items : List Item) (k : ClsSt), itemsOk xsd env items = true → Canon k.builder →
      (∀ a, k.addend = some a → Canon a) →
      Canon (items.foldl (Item.step env) k).builder ∧
      (∀ a, (items.foldl (Item.step env) k).addend = some a → Canon a) ∧
      (clsContains (items.foldl (Item.step env) k).builder x ||
          optC (items.foldl (Item.step env) k).addend x) =
        (items.any (Item.mem env x) || (clsContains k.builder x || optC k.addend x)) := by
  intro items
  induction items with
  | nil => intro k _ hb had; exact ⟨hb, had, by simp⟩
  | cons i more ih =>
    intro k hok hb had
    simp only [itemsOk, Bool.and_eq_true] at hok
    obtain ⟨h1, h2, h3⟩ := step_spec henv x hx i hok.1.1 k hb had
    obtain ⟨g1, g2, g3⟩ := ih (Item.step env k i) hok.2 h1 h2
    refine ⟨g1, g2, ?_⟩
    simp only [List.foldl_cons, List.any_cons]
    rw [g3, h3]
    cases List.any more (Item.mem env x) <;> cases i.mem env x <;> rfl

theorem canon_finish (k : ClsSt) (hb : Canon k.builder) (ha : ∀ a, k.addend = some a → Canon a)
    (hs : ∀ s, k.subtrahend = some s → Canon s) : Canon k.finish := by
  obtain ⟨positive, definingRange, rangeStart, builder, addend, subtrahend⟩ := k
  simp only at hb ha hs
  have h1 : ∀ r, Canon r → Canon (if positive = true then r else complR r) := by
    intro r hr
    cases positive
    · exact canon_complR _ hr
    · exact hr
  unfold ClsSt.finish
  cases addend with
  | none =>
    cases subtrahend with
    | none => exact h1 _ hb
    | some sub => exact canon_diffR _ _ (h1 _ hb) (hs sub rfl)
  | some a =>
    have hu := canon_unionR _ _ hb (ha a rfl)
    cases subtrahend with
    | none => exact h1 _ hu
    | some sub => exact canon_diffR _ _ (h1 _ hu) (hs sub rfl)

/-- the inversion list of a well-formed class expression is canonical and contains exactly the
    characters of the set-algebra reading -/
theorem denote_spec {env : Env} (henv : EnvCanon env) {xsd : Bool} (x : Nat) (hx : x < cpLimit) :
    ∀ (e : CExpr), e.ok xsd env = true →
      Canon (e.denote env) ∧ clsContains (e.denote env) x = e.mem env x := by
  intro e
  induction e with
  | leaf neg items =>
    intro hok
    simp only [CExpr.ok, headOk, Bool.and_eq_true] at hok
    obtain ⟨g1, g2, g3⟩ := foldl_step_spec henv x hx items { positive := !neg } hok.1.2
      (by simp [Canon]) (by intro a h; cases h)
    obtain ⟨_, _, f3, f4⟩ := foldl_step_fields env items { positive := !neg }
    have hs : ∀ s, (items.foldl (Item.step env) { positive := !neg }).subtrahend = some s → Canon s := by
      intro s h; rw [f4] at h; cases h
    refine ⟨canon_finish _ g1 g2 hs, ?_⟩
    have key := finish_denotes _ g1 g2 hs x hx
    simp only [optC] at g3
    rw [g3, f3, f4] at key
    simp only [CExpr.denote, CExpr.mem]
    rw [key]
    simp only [Option.map_none, Option.getD_none, Bool.or_false, clsContains, Bool.not_false,
      Bool.and_true]
    cases neg <;> cases List.any items (Item.mem env x) <;> rfl
  | minus neg items sub ih =>
    intro hok
    simp only [CExpr.ok, headOk, Bool.and_eq_true] at hok
    obtain ⟨hcs, hms⟩ := ih hok.2
    obtain ⟨g1, g2, g3⟩ := foldl_step_spec henv x hx items { positive := !neg } hok.1.1.2
      (by simp [Canon]) (by intro a h; cases h)
    obtain ⟨_, _, f3, _⟩ := foldl_step_fields env items { positive := !neg }
    have hs : ∀ s, ({ items.foldl (Item.step env) { positive := !neg } with
        subtrahend := some (sub.denote env) } : ClsSt).subtrahend = some s → Canon s := by
      intro s h
      simp only [Option.some.injEq] at h
      rw [← h]; exact hcs
    refine ⟨canon_finish _ g1 g2 hs, ?_⟩
    simp only [CExpr.denote, CExpr.mem]
    rw [finish_denotes ({ items.foldl (Item.step env) { positive := !neg } with
        subtrahend := some (sub.denote env) }) g1 g2 hs x hx]
    simp only [optC] at g3
    simp only [g3, f3, Option.map_some, Option.getD_some, hms]
    simp only [Option.map_none, Option.getD_none, Bool.or_false, clsContains]
    cases neg <;> cases List.any items (Item.mem env x) <;> rfl

/-! ### rejections -/

/-- `[]…` -/
theorem parseClass_empty {c : PC} {f : Nat} {s : PS} {rest : List Nat}
    (h : c.pat.drop s.idx = 91 :: 93 :: rest) : parseClass c (f + 1) s = .err .syntax := by
  obtain ⟨_, hat, h1⟩ := drop_cons_facts h
  obtain ⟨_, hat1, _⟩ := drop_cons_facts h1
  have c0 : (c.at s.idx != 91) = false := by simp [hat]
  have c1 : (decide (s.idx + 1 + 1 ≥ c.len) || c.at (s.idx + 1) == 93) = true := by simp [hat1]
  rw [parseClass]
  simp only [c0, c1, Bool.false_eq_true, if_false, if_true]

/-- `[^]…` -/
theorem parseClass_neg_empty {c : PC} {f : Nat} {s : PS} {rest : List Nat}
    (h : c.pat.drop s.idx = 91 :: 94 :: 93 :: rest) : parseClass c (f + 1) s = .err .syntax := by
  obtain ⟨_, hat, h1⟩ := drop_cons_facts h
  obtain ⟨_, hat1, _⟩ := drop_cons_facts h1
  have hlen := drop_len h1
  simp only [List.length_cons] at hlen
  have c0 : (c.at s.idx != 91) = false := by simp [hat]
  have c1 : (decide (s.idx + 1 + 1 ≥ c.len) || c.at (s.idx + 1) == 93) = false := by
    simp [hat1]; omega
  have t94 : thereFollows c (s.idx + 1) [94] = true := by
    rw [thereFollows_eq h1 (by simp)]; simp
  have t1 : thereFollows c (s.idx + 1) [94, 45, 91] = false := by
    rw [thereFollows_eq h1 (by simp)]; simp
  have t2 : thereFollows c (s.idx + 1) [94, 93] = true := by
    rw [thereFollows_eq h1 (by simp)]; simp
  rw [parseClass]
  simp only [c0, c1, t94, t1, t2, Bool.false_eq_true, if_false, if_true]

/-- `[-[…`: a subtraction from nothing -/
theorem parseClass_sub_only {c : PC} {f : Nat} {s : PS} {rest : List Nat}
    (h : c.pat.drop s.idx = 91 :: 45 :: 91 :: rest) : parseClass c (f + 1) s = .err .syntax := by
  obtain ⟨_, hat, h1⟩ := drop_cons_facts h
  obtain ⟨_, hat1, _⟩ := drop_cons_facts h1
  have hlen := drop_len h1
  simp only [List.length_cons] at hlen
  have c0 : (c.at s.idx != 91) = false := by simp [hat]
  have c1 : (decide (s.idx + 1 + 1 ≥ c.len) || c.at (s.idx + 1) == 93) = false := by
    simp [hat1]; omega
  have t94 : thereFollows c (s.idx + 1) [94] = false := by
    rw [thereFollows_eq h1 (by simp)]; simp
  have t1 : thereFollows c (s.idx + 1) [45, 91] = true := by
    rw [thereFollows_eq h1 (by simp)]; simp
  rw [parseClass]
  simp only [c0, c1, t94, t1, Bool.false_eq_true, if_false, if_true]

/-- `[^-[…` -/
theorem parseClass_neg_sub_only {c : PC} {f : Nat} {s : PS} {rest : List Nat}
    (h : c.pat.drop s.idx = 91 :: 94 :: 45 :: 91 :: rest) : parseClass c (f + 1) s = .err .syntax := by
  obtain ⟨_, hat, h1⟩ := drop_cons_facts h
  obtain ⟨_, hat1, _⟩ := drop_cons_facts h1
  have hlen := drop_len h1
  simp only [List.length_cons] at hlen
  have c0 : (c.at s.idx != 91) = false := by simp [hat]
  have c1 : (decide (s.idx + 1 + 1 ≥ c.len) || c.at (s.idx + 1) == 93) = false := by
    simp [hat1]; omega
  have t94 : thereFollows c (s.idx + 1) [94] = true := by
    rw [thereFollows_eq h1 (by simp)]; simp
  have t1 : thereFollows c (s.idx + 1) [94, 45, 91] = true := by
    rw [thereFollows_eq h1 (by simp)]; simp
  rw [parseClass]
  simp only [c0, c1, t94, t1, Bool.false_eq_true, if_false, if_true]

/-- the pattern ends one character after `[` (or at it) -/
theorem parseClass_short {c : PC} {f : Nat} {s : PS} {tl : List Nat}
    (h : c.pat.drop s.idx = 91 :: tl) (hl : tl.length ≤ 1) : parseClass c (f + 1) s = .err .syntax := by
  obtain ⟨_, hat, h1⟩ := drop_cons_facts h
  have hlen := drop_len h1
  have c0 : (c.at s.idx != 91) = false := by simp [hat]
  have c1 : (decide (s.idx + 1 + 1 ≥ c.len) || c.at (s.idx + 1) == 93) = true := by
    simp only [Bool.or_eq_true, decide_eq_true_eq]; left; omega
  rw [parseClass]
  simp only [c0, c1, Bool.false_eq_true, if_false, if_true]

/-- the pattern ends inside the class: the loop reports a syntax error -/
theorem classLoop_eof {c : PC} {f : Nat} {st : PS} {k : ClsSt} (h : st.idx = c.len) :
    classLoop c (f + 1) st k = .err .syntax := by
  rw [classLoop]
  have h1 : (decide (st.idx < c.len) && c.at st.idx != 93) = false := by simp [h]
  have h2 : (st.idx == c.len) = true := by simp [h]
  simp only [h1, h2, Bool.false_eq_true, if_false, if_true]

theorem clsSimple_rangeRev {c : PC} {i : Nat} {k : ClsSt} {a b : Nat}
    (hk : k.definingRange = true) (hs : k.rangeStart = some a) (hab : a > b) :
    clsSimple c i k (some b) = none := by
  unfold clsSimple
  simp only [hk, hs, hab, if_true]

/-- a reversed range `a-b` (b < a) anywhere in the member list -/
theorem classLoop_range_rev {c : PC} {f : Nat} {st : PS} {k : ClsSt} {a b : Single} {nxt : List Nat}
    (h : c.pat.drop st.idx = (a.render ++ 45 :: b.render) ++ nxt)
    (ha : a.ok c.fl.xsd = true) (hb : b.ok c.fl.xsd = true) (hab : b.val < a.val)
    (hk : k.definingRange = false) :
    classLoop c (f + 3) st k = .err .syntax := by
  obtain ⟨y, btl, hby, hy45, hy91, hy93⟩ := Single.render_head hb
  have h0 : c.pat.drop st.idx = a.render ++ (45 :: b.render ++ nxt) := by
    rw [h]; simp
  have h1 : c.pat.drop (st.idx + a.render.length) = 45 :: (b.render ++ nxt) := by
    rw [← List.drop_drop, h0, List.drop_left]; rfl
  have h1' : c.pat.drop (st.idx + a.render.length) = 45 :: y :: (btl ++ nxt) := by
    rw [h1, hby]; rfl
  have h2 : c.pat.drop (st.idx + a.render.length + 1) = b.render ++ nxt := (drop_cons_facts h1).2.2
  rw [classLoop_single (f := f + 2) h0 ha, clsSimple_rangeStart h1' hy91 hy93 hy45 hk]
  simp only
  rw [classLoop_dash (f := f + 1) (st := { st with idx := st.idx + a.render.length }) h1' hy91 hy93 rfl]
  rw [classLoop_single (f := f) (st := { st with idx := st.idx + a.render.length + 1 }) h2 hb,
    clsSimple_rangeRev rfl rfl hab]

/-- `[b-a…` / `[^b-a…` with `a < b` -/
theorem parseClass_reversed {c : PC} {f : Nat} {s : PS} {neg : Bool} {a b : Single} {rest : List Nat}
    (h : c.pat.drop s.idx = 91 :: ((if neg then [94] else []) ++ ((a.render ++ 45 :: b.render) ++ rest)))
    (ha : a.ok c.fl.xsd = true) (hb : b.ok c.fl.xsd = true) (hab : b.val < a.val)
    (h94 : neg = false → a ≠ .plain 94) :
    parseClass c (f + 4) s = .err .syntax := by
  obtain ⟨y, atl, hay, hy45, hy91, hy93⟩ := Single.render_head ha
  have hne : atl ++ 45 :: b.render ++ rest ≠ [] := by simp
  obtain ⟨z, tl, hz⟩ := List.exists_cons_of_ne_nil hne
  have hbody : (a.render ++ 45 :: b.render) ++ rest = y :: z :: tl := by
    rw [hay, ← hz]; simp
  have h' := h
  rw [hbody] at h'
  have hy94 : neg = false → y ≠ 94 := by
    intro hn hy
    apply h94 hn
    cases a with
    | plain x => simp only [Single.render, List.cons.injEq] at hay; rw [hay.1, hy]
    | esc e => simp only [Single.render, List.cons.injEq] at hay; omega
  rw [parseClass_open (f := f + 3) h' hy93 (fun h => absurd h hy45) hy94]
  have hst1 : c.pat.drop (s.idx + 1 + (if neg then 1 else 0)) = (a.render ++ 45 :: b.render) ++ rest := by
    have := drop_add_of_append (l := 91 :: (if neg then [94] else []))
      (r := (a.render ++ 45 :: b.render) ++ rest) (by rw [h]; simp)
    rw [← this]
    cases neg <;> rfl
  exact classLoop_range_rev (st := { s with idx := s.idx + 1 + (if neg then 1 else 0) }) hst1 ha hb hab rfl

/-! ### whatever is accepted ends with `]` -/

theorem findClose_bounds {c : PC} : ∀ (fuel i k : Nat), findClose c fuel i = some k → i ≤ k ∧ k < c.len := by
  intro fuel
  induction fuel with
  | zero => intro i k h; simp [findClose] at h
  | succ f ih =>
    intro i k h
    rw [findClose] at h
    split at h
    · cases h
    · split at h
      · cases h; omega
      · have := ih (i + 1) k h; omega

theorem escape_idx {c : PC} {s s' : PS} {b : Bool} {r : Esc}
    (h : escape c s b = .ok r s') (hr : ∀ n, r ≠ .backref n) : s.idx < s'.idx ∧ s'.idx ≤ c.len := by
  unfold escape at h
  simp only at h
  by_cases k1 : (c.at s.idx != 92) = true
  · rw [if_pos k1] at h; cases h
  rw [if_neg k1] at h
  by_cases k2 : s.idx + 1 ≥ c.len
  · rw [if_pos k2] at h; cases h
  rw [if_neg k2] at h
  by_cases k3 : (c.at (s.idx + 1) == 110) = true
  · rw [if_pos k3] at h; cases h; simp only; omega
  rw [if_neg k3] at h
  by_cases k4 : (c.at (s.idx + 1) == 114) = true
  · rw [if_pos k4] at h; cases h; simp only; omega
  rw [if_neg k4] at h
  by_cases k5 : (c.at (s.idx + 1) == 116) = true
  · rw [if_pos k5] at h; cases h; simp only; omega
  rw [if_neg k5] at h
  by_cases k6 : (c.at (s.idx + 1) == 92 || c.at (s.idx + 1) == 124 || c.at (s.idx + 1) == 46 || c.at (s.idx + 1) == 45 || c.at (s.idx + 1) == 94 || c.at (s.idx + 1) == 63 || c.at (s.idx + 1) == 42 || c.at (s.idx + 1) == 43 || c.at (s.idx + 1) == 123 || c.at (s.idx + 1) == 125 || c.at (s.idx + 1) == 40 || c.at (s.idx + 1) == 41 || c.at (s.idx + 1) == 91 || c.at (s.idx + 1) == 93) = true
  · rw [if_pos k6] at h; cases h; simp only; omega
  rw [if_neg k6] at h
  by_cases k7 : (c.at (s.idx + 1) == 36) = true
  · rw [if_pos k7] at h
    split at h
    · cases h
    · cases h; simp only; omega
  rw [if_neg k7] at h
  by_cases k8 : (c.at (s.idx + 1) == 115) = true
  · rw [if_pos k8] at h; cases h; simp only; omega
  rw [if_neg k8] at h
  by_cases k9 : (c.at (s.idx + 1) == 83) = true
  · rw [if_pos k9] at h; cases h; simp only; omega
  rw [if_neg k9] at h
  by_cases k10 : (c.at (s.idx + 1) == 105) = true
  · rw [if_pos k10] at h; cases h; simp only; omega
  rw [if_neg k10] at h
  by_cases k11 : (c.at (s.idx + 1) == 73) = true
  · rw [if_pos k11] at h; cases h; simp only; omega
  rw [if_neg k11] at h
  by_cases k12 : (c.at (s.idx + 1) == 99) = true
  · rw [if_pos k12] at h; cases h; simp only; omega
  rw [if_neg k12] at h
  by_cases k13 : (c.at (s.idx + 1) == 67) = true
  · rw [if_pos k13] at h; cases h; simp only; omega
  rw [if_neg k13] at h
  by_cases k14 : (c.at (s.idx + 1) == 100) = true
  · rw [if_pos k14] at h; cases h; simp only; omega
  rw [if_neg k14] at h
  by_cases k15 : (c.at (s.idx + 1) == 68) = true
  · rw [if_pos k15] at h; cases h; simp only; omega
  rw [if_neg k15] at h
  by_cases k16 : (c.at (s.idx + 1) == 119) = true
  · rw [if_pos k16] at h; cases h; simp only; omega
  rw [if_neg k16] at h
  by_cases k17 : (c.at (s.idx + 1) == 87) = true
  · rw [if_pos k17] at h; cases h; simp only; omega
  rw [if_neg k17] at h
  by_cases k18 : (c.at (s.idx + 1) == 112 || c.at (s.idx + 1) == 80) = true
  · rw [if_pos k18] at h
    split at h
    · cases h
    split at h
    · cases h
    split at h
    · cases h
    · rename_i close hfc
      have := findClose_bounds _ _ _ hfc
      split at h
      · split at h
        · cases h
        · cases h; simp only; omega
      · split at h
        · split at h
          · cases h
          · cases h; simp only; omega
        · cases h
  rw [if_neg k18] at h
  by_cases k19 : (c.at (s.idx + 1) == 48) = true
  · rw [if_pos k19] at h; cases h
  rw [if_neg k19] at h
  by_cases k20 : (decide (49 ≤ c.at (s.idx + 1)) && decide (c.at (s.idx + 1) ≤ 57)) = true
  · rw [if_pos k20] at h
    split at h
    · cases h
    split at h
    · cases h
    split at h
    · cases h
    · cases h; exact absurd rfl (hr _)
  rw [if_neg k20] at h
  cases h

/-- the result state is just past a `]`, further on, and inside the pattern -/
def Closes (c : PC) (s s' : PS) : Prop := s.idx < s'.idx ∧ s'.idx ≤ c.len ∧ c.at (s'.idx - 1) = 93

theorem Closes.trans_lt {c : PC} {s s1 s' : PS} (h : s.idx ≤ s1.idx) (h' : Closes c s1 s') : Closes c s s' :=
  ⟨Nat.lt_of_le_of_lt h h'.1, h'.2⟩

theorem class_ok_closes (c : PC) : ∀ fuel,
    (∀ s R s', parseClass c fuel s = .ok R s' → Closes c s s') ∧
    (∀ s k R s', s.idx ≤ c.len → classLoop c fuel s k = .ok R s' → Closes c s s') := by
  intro fuel
  induction fuel with
  | zero =>
    constructor
    · intro s R s' h; simp [parseClass] at h
    · intro s k R s' _ h; simp [classLoop] at h
  | succ f ih =>
    obtain ⟨ihP, ihL⟩ := ih
    constructor
    · intro s R s' h
      rw [parseClass] at h
      simp only at h
      split at h
      · cases h
      split at h
      · cases h
      rename_i hlen
      simp only [Bool.or_eq_true, decide_eq_true_eq, not_or] at hlen
      split at h
      · split at h
        · cases h
        split at h
        · cases h
        exact Closes.trans_lt (by simp only; omega) (ihL _ _ _ _ (by simp only; omega) h)
      · split at h
        · cases h
        exact Closes.trans_lt (by simp only; omega) (ihL _ _ _ _ (by simp only; omega) h)
    · intro s k R s' hs h
      rw [classLoop] at h
      simp only at h
      split at h
      · rename_i hcond
        simp only [Bool.and_eq_true, decide_eq_true_eq] at hcond
        split at h
        · cases h
        split at h
        · split at h
          · cases h
          · rename_i x s1 hesc
            have hi := escape_idx hesc (by intro n hn; cases hn)
            split at h
            · cases h
            · exact Closes.trans_lt (by omega) (ihL _ _ _ _ hi.2 h)
          · rename_i rs s1 hesc
            have hi := escape_idx hesc (by intro n hn; cases hn)
            split at h
            · cases h
            · exact Closes.trans_lt (by omega) (ihL _ _ _ _ hi.2 h)
          · cases h
        split at h
        · split at h
          · split at h
            · cases h
            · rename_i sub s1 hp
              have hc1 := ihP _ _ _ hp
              split at h
              · cases h
              · split at h
                · cases h
                · have hc2 := ihL _ _ _ _ hc1.2.1 h
                  exact Closes.trans_lt (by have := hc1.1; simp only at this; omega) hc2
          split at h
          · split at h
            · cases h
            · exact Closes.trans_lt (by simp only; omega) (ihL _ _ _ _ (by simp only; omega) h)
          split at h
          · exact Closes.trans_lt (by simp only; omega) (ihL _ _ _ _ (by simp only; omega) h)
          split at h
          · cases h
          split at h
          · cases h
          split at h
          · cases h
          · exact Closes.trans_lt (by simp only; omega) (ihL _ _ _ _ (by simp only; omega) h)
        · split at h
          · cases h
          · exact Closes.trans_lt (by simp only; omega) (ihL _ _ _ _ (by simp only; omega) h)
      · rename_i hcond
        split at h
        · cases h
        · rename_i hne
          cases h
          simp only [Bool.and_eq_true, decide_eq_true_eq, not_and, bne_iff_ne, ne_eq, Decidable.not_not] at hcond
          simp only [beq_iff_eq] at hne
          have hlt : s.idx < c.len := by omega
          exact ⟨by simp only; omega, by simp only; omega, by simpa using hcond hlt⟩


theorem mem_drop_of_at {c : PC} {i j : Nat} {x : Nat} (hij : i ≤ j) (hj : j < c.len) (h : c.at j = x) :
    x ∈ c.pat.drop i := by
  have hj' : j < c.pat.length := hj
  have hx : c.pat[j] = x := by
    rw [← h]; unfold PC.at
    rw [List.getD_eq_getElem?_getD, List.getElem?_eq_getElem hj']; rfl
  rw [List.mem_iff_getElem]
  refine ⟨j - i, by rw [List.length_drop]; omega, ?_⟩
  rw [List.getElem_drop, ← hx]
  congr 1
  omega

end Rx.C09
