/-
  Proofs/BrScanLemmas — the three scan loops of Model/Scan add no panic of their own, for every
  matcher whose `find` (called with `pos ≤ len`) never fails with a real panic and reports a span
  `pos ≤ a ≤ b ≤ len` on success (`SafeFind`).  Unlike `C04.GoodFind` nothing is assumed about the
  outcome: the statements are about ALL runs, including those that end in `.err` / `.diverge`.
-/
import RxModel.Model.Scan
import RxModel.Model.Basic
namespace Rx
variable {σ : Type}

/-- the hypothesis on the matcher: started at `pos ≤ len` from a state satisfying `Inv`, `find` keeps
    `Inv`, the only failure marker it may leave is the fuel marker, and a successful search reports
    a span at or after `pos` inside the input -/
structure SafeFind (M : MatcherI σ) (len : Nat) (Inv : σ → Prop) : Prop where
  step : ∀ st pos st' m, Inv st → pos ≤ len → M.find st pos = (m, st') →
    Inv st' ∧ (∀ c, M.failed st' = some c → c = panicDiverge) ∧
    (m = true → M.failed st' = none →
      ∃ a b, M.start0 st' = some a ∧ M.end0 st' = some b ∧ pos ≤ a ∧ a ≤ b ∧ b ≤ len)

theorem ofFailed_diverge_ne_panic {α : Type} (c : Nat) : (Out.ofFailed panicDiverge : Out α) ≠ .panic c := by
  simp [Out.ofFailed]

/-! ### replace -/

theorem replaceLoop_no_panic (M : MatcherI σ) (Inv : σ → Prop) (input : List Nat) (lit : Bool)
    (subst : Subst σ) (hM : SafeFind M input.length Inv) (c : Nat) :
    ∀ fuel pos st first simple acc, Inv st →
      replaceLoop M subst input lit fuel pos st first simple acc ≠ .panic c := by
  intro fuel
  induction fuel with
  | zero => intro pos st first simple acc _ hx; simp [replaceLoop] at hx
  | succ f ih =>
    intro pos st first simple acc hI
    rw [replaceLoop]
    split
    · rename_i hlt
      cases hfind : M.find st pos with
      | mk m st' =>
        obtain ⟨hI', hf, hspan⟩ := hM.step st pos st' m hI (Nat.le_of_lt hlt) hfind
        cases m with
        | false =>
          dsimp only
          split
          · rename_i c' hc'
            rw [hf c' hc']
            exact ofFailed_diverge_ne_panic c
          · split <;> (intro hx; cases hx)
        | true =>
          dsimp only
          split
          · rename_i c' hc'
            rw [hf c' hc']
            exact ofFailed_diverge_ne_panic c
          · rename_i hnone
            obtain ⟨a, b, ha, hb, hpa, hab, hbl⟩ := hspan rfl hnone
            rw [ha]
            dsimp only
            rw [if_neg (by omega)]
            split
            · intro hx; cases hx
            · rw [hb]
              dsimp only
              exact ih _ _ _ _ _ hI'
    · split <;> (intro hx; cases hx)

theorem replaceWith_no_panic (M : MatcherI σ) (Inv : σ → Prop) (input : List Nat) (lit : Bool)
    (subst : Subst σ) (hM : SafeFind M input.length Inv) (st : σ) (h0 : Inv st) (c : Nat) :
    replaceWith M subst input lit st ≠ .panic c :=
  replaceLoop_no_panic M Inv input lit subst hM c _ _ _ _ _ _ h0

/-! ### tokenize -/

theorem tokenNext_no_panic (M : MatcherI σ) (Inv : σ → Prop) (input : List Nat)
    (hM : SafeFind M input.length Inv) (prevEnd : Option Nat) (st : σ) (h0 : Inv st)
    (hpe : ∀ pe, prevEnd = some pe → pe ≤ input.length) :
    (∀ c, (tokenNext M input prevEnd st).1 ≠ .panic c) ∧ Inv (tokenNext M input prevEnd st).2.2 ∧
    (∀ pe, (tokenNext M input prevEnd st).2.1 = some pe → pe ≤ input.length) := by
  unfold tokenNext
  cases prevEnd with
  | none => exact ⟨(fun c hx => by cases hx), h0, (fun pe hx => by cases hx)⟩
  | some pe =>
    dsimp only
    cases hfind : M.find st pe with
    | mk m st' =>
      obtain ⟨hI', hf, hspan⟩ := hM.step st pe st' m h0 (hpe pe rfl) hfind
      cases m with
      | true =>
        dsimp only
        split
        · rename_i c' hc'
          rw [hf c' hc']
          exact ⟨fun c => ofFailed_diverge_ne_panic c, hI', (fun pe hx => by cases hx)⟩
        · rename_i hnone
          obtain ⟨a, b, ha, hb, hpa, hab, hbl⟩ := hspan rfl hnone
          rw [ha]
          dsimp only
          rw [if_neg (by omega)]
          refine ⟨(fun c hx => by cases hx), hI', fun x hx => ?_⟩
          dsimp only at hx
          rw [hb] at hx
          simp only [Option.some.injEq] at hx
          omega
      | false =>
        dsimp only
        split
        · rename_i c' hc'
          rw [hf c' hc']
          exact ⟨fun c => ofFailed_diverge_ne_panic c, hI', (fun pe hx => by cases hx)⟩
        · exact ⟨(fun c hx => by cases hx), hI', (fun pe hx => by cases hx)⟩

theorem tokenLoop_no_panic (M : MatcherI σ) (Inv : σ → Prop) (input : List Nat)
    (hM : SafeFind M input.length Inv) (c : Nat) :
    ∀ limit prevEnd st acc, Inv st → (∀ pe, prevEnd = some pe → pe ≤ input.length) →
      tokenLoop M input limit prevEnd st acc ≠ .panic c := by
  intro limit
  induction limit with
  | zero =>
    intro prevEnd st acc h0 hpe
    obtain ⟨h1, _, _⟩ := tokenNext_no_panic M Inv input hM prevEnd st h0 hpe
    rw [tokenLoop]
    split
    · intro hx; cases hx
    · intro hx; cases hx
    · intro hx; cases hx
    · rename_i c' _ _ heq
      exact absurd (congrArg Prod.fst heq) (h1 c')
    · intro hx; cases hx
  | succ l ih =>
    intro prevEnd st acc h0 hpe
    obtain ⟨h1, h2, h3⟩ := tokenNext_no_panic M Inv input hM prevEnd st h0 hpe
    rw [tokenLoop]
    split
    · intro hx; cases hx
    · rename_i t pe' st' heq
      rw [heq] at h2 h3
      exact ih pe' st' _ h2 h3
    · intro hx; cases hx
    · rename_i c' _ _ heq
      exact absurd (congrArg Prod.fst heq) (h1 c')
    · intro hx; cases hx

/-! ### analyze: the loop adds nothing to the panics of `entry` (`process_matching_substring`) -/

/-- invariant of the iterator state -/
structure AInv (M : MatcherI σ) (Inv : σ → Prop) (len : Nat) (a : AState σ) : Prop where
  inv : Inv a.st
  pe : ∀ pe, a.prevEnd = some pe → pe ≤ len
  sub : a.nextSub.isSome = true → ∀ b, M.end0 a.st = some b → b ≤ len

theorem analyzeNext_panic (M : MatcherI σ) (Inv : σ → Prop) (entry : σ → List Nat → Out (List MEntry))
    (input : List Nat) (hM : SafeFind M input.length Inv) (a : AState σ) (ha : AInv M Inv input.length a) :
    (∀ c, (analyzeNext M entry input a).1 = .panic c → ∃ st t, entry st t = .panic c) ∧
    AInv M Inv input.length (analyzeNext M entry input a).2 := by
  unfold analyzeNext
  cases hpe : a.prevEnd with
  | none => exact ⟨(fun c hx => by cases hx), ha⟩
  | some pe =>
    have hpel : pe ≤ input.length := ha.pe pe hpe
    dsimp only
    cases hsub : a.nextSub with
    | some sub =>
      dsimp only
      have hA' : AInv M Inv input.length { a with nextSub := none, prevEnd := M.end0 a.st } :=
        ⟨ha.inv, fun b hb => ha.sub (by rw [hsub]; rfl) b hb, (fun hx => by cases hx)⟩
      split
      · split
        · exact ⟨(fun c hx => by cases hx), hA'⟩
        · exact ⟨(fun c hx => by cases hx), hA'⟩
        · rename_i c' heq
          refine ⟨fun c hx => ?_, hA'⟩
          simp only [Out.panic.injEq] at hx
          subst hx
          exact ⟨_, _, heq⟩
        · exact ⟨(fun c hx => by cases hx), hA'⟩
      · exact ⟨(fun c hx => by cases hx), hA'⟩
    | none =>
      dsimp only
      split
      · exact ⟨(fun c hx => by cases hx), ⟨ha.inv, (fun b hb => by cases hb), (fun hx => by cases hx)⟩⟩
      · rename_i hstop
        have hss : (if a.skip = true then pe + 1 else pe) ≤ input.length := by
          split
          · rename_i hsk
            simp only [hsk, Bool.true_and, Bool.and_eq_true, decide_eq_true_eq, Bool.not_eq_true',
              decide_eq_false_iff_not, not_and, Nat.not_lt] at hstop
            omega
          · exact hpel
        cases hfind : M.find a.st (if a.skip = true then pe + 1 else pe) with
        | mk m st' =>
          obtain ⟨hI', hf, hspan⟩ := hM.step a.st _ st' m ha.inv hss hfind
          have hAst : AInv M Inv input.length { st := st', nextSub := none, prevEnd := some pe, skip := a.skip } :=
            ⟨hI', (fun b hb => by simp only [Option.some.injEq] at hb; omega), (fun hx => by cases hx)⟩
          cases m with
          | true =>
            dsimp only
            split
            · rename_i c' hc'
              rw [hf c' hc']
              exact ⟨fun c hx => absurd hx (ofFailed_diverge_ne_panic c), hAst⟩
            · rename_i hnone
              obtain ⟨s0, e0, hs0, he0, hpa, hab, hbl⟩ := hspan rfl hnone
              rw [hs0, he0]
              dsimp only
              have hA1 : AInv M Inv input.length
                  { st := st', nextSub := none, prevEnd := some e0, skip := s0 == e0 } :=
                ⟨hI', (fun b hb => by simp only [Option.some.injEq] at hb; omega), (fun hx => by cases hx)⟩
              split
              · split
                · exact ⟨(fun c hx => by cases hx), hA1⟩
                · exact ⟨(fun c hx => by cases hx), hA1⟩
                · rename_i c' heq
                  refine ⟨fun c hx => ?_, hA1⟩
                  simp only [Out.panic.injEq] at hx
                  subst hx
                  exact ⟨_, _, heq⟩
                · exact ⟨(fun c hx => by cases hx), hA1⟩
              · rename_i hne
                have hlt : ¬ s0 < pe := by
                  have : pe ≤ s0 := by
                    have h1 : pe ≤ (if a.skip = true then pe + 1 else pe) := by split <;> omega
                    omega
                  omega
                rw [if_neg hlt]
                refine ⟨(fun c hx => by cases hx), ⟨hI', fun b hb => ?_, fun _ b hb => ?_⟩⟩
                · simp only [Option.some.injEq] at hb; omega
                · dsimp only at hb
                  rw [he0] at hb
                  simp only [Option.some.injEq] at hb
                  omega
          | false =>
            dsimp only
            split
            · rename_i c' hc'
              rw [hf c' hc']
              exact ⟨fun c hx => absurd hx (ofFailed_diverge_ne_panic c), hAst⟩
            · split
              · exact ⟨(fun c hx => by cases hx), ⟨hI', (fun b hb => by cases hb), (fun hx => by cases hx)⟩⟩
              · exact ⟨(fun c hx => by cases hx), ⟨hI', (fun b hb => by cases hb),
                  (fun hx => by cases hx)⟩⟩

theorem analyzeLoop_panic (M : MatcherI σ) (Inv : σ → Prop) (entry : σ → List Nat → Out (List MEntry))
    (input : List Nat) (hM : SafeFind M input.length Inv) (c : Nat) :
    ∀ limit a acc, AInv M Inv input.length a → analyzeLoop M entry input limit a acc = .panic c →
      ∃ st t, entry st t = .panic c := by
  intro limit
  induction limit with
  | zero =>
    intro a acc ha hx
    obtain ⟨h1, _⟩ := analyzeNext_panic M Inv entry input hM a ha
    rw [analyzeLoop] at hx
    split at hx
    · cases hx
    · cases hx
    · cases hx
    · rename_i c' _ heq
      simp only [Out.panic.injEq] at hx
      subst hx
      exact h1 c' (congrArg Prod.fst heq)
    · cases hx
  | succ l ih =>
    intro a acc ha hx
    obtain ⟨h1, h2⟩ := analyzeNext_panic M Inv entry input hM a ha
    rw [analyzeLoop] at hx
    split at hx
    · cases hx
    · rename_i e a' heq
      rw [heq] at h2
      exact ih a' _ h2 hx
    · cases hx
    · rename_i c' _ heq
      simp only [Out.panic.injEq] at hx
      subst hx
      exact h1 c' (congrArg Prod.fst heq)
    · cases hx

end Rx
