/-
  Proofs/CaseLemmas — helper lemmas for Props/C11b (case invariance of the language of a compiled
  tree under flag i): congruence of `IterR`, `prefixMatch` under pointwise case-equivalent
  pattern / input characters, position tests under case-equivalent inputs, and the association-list
  lookup `lookupN` behind `Env.std.lower`.
-/
import RxModel.Spec.OpLang
import RxModel.Props.C11
import RxModel.Model.Unicode
namespace Rx.CaseL
open Rx

/-! ### k-fold composition -/

theorem IterR_mono {R S : Nat → Nat → Prop} (h : ∀ a b, R a b → S a b) {k p q : Nat}
    (hi : IterR R k p q) : IterR S k p q := by
  induction hi with
  | zero p => exact .zero p
  | succ _ hr ih => exact .succ ih (h _ _ hr)

theorem IterR_congr {R S : Nat → Nat → Prop} (h : ∀ a b, R a b ↔ S a b) (k p q : Nat) :
    IterR R k p q ↔ IterR S k p q :=
  ⟨IterR_mono (fun a b => (h a b).1), IterR_mono (fun a b => (h a b).2)⟩

/-- the shape shared by the four repetition operators -/
theorem rep_congr {R S : Nat → Nat → Prop} (h : ∀ a b, R a b ↔ S a b) (mn mx p q : Nat) :
    (∃ k, mn ≤ k ∧ k ≤ mx ∧ IterR R k p q) ↔ (∃ k, mn ≤ k ∧ k ≤ mx ∧ IterR S k p q) :=
  exists_congr (fun k => and_congr Iff.rfl (and_congr Iff.rfl (IterR_congr h k p q)))

/-! ### literals -/

/-- `prefixMatch` reads only the comparison settings of the context, not its input -/
theorem prefixMatch_settings (ctx ctx' : Ctx) (hcb : ctx'.caseBlind = ctx.caseBlind)
    (hl : ctx'.lower = ctx.lower) (cs xs : List Nat) :
    prefixMatch ctx' cs xs = prefixMatch ctx cs xs := by
  induction cs generalizing xs with
  | nil => simp [prefixMatch]
  | cons c cs ih =>
    cases xs with
    | nil => simp [prefixMatch]
    | cons x xs => simp only [prefixMatch, Ctx.eqAt, hcb, hl, ih]

/-- pattern characters and input characters may both be replaced by case counterparts -/
theorem prefixMatch_case_congr (ctx : Ctx) (hcb : ctx.caseBlind = true) (cs ds xs ys : List Nat)
    (hcl : cs.length = ds.length)
    (hc : ∀ k (h1 : k < cs.length) (h2 : k < ds.length), eqCB ctx.lower cs[k] ds[k] = true)
    (hxl : xs.length = ys.length)
    (hx : ∀ k (h1 : k < xs.length) (h2 : k < ys.length), eqCB ctx.lower xs[k] ys[k] = true) :
    prefixMatch ctx cs xs = prefixMatch ctx ds ys := by
  rw [C11.atom_pattern_case_invariant ctx hcb cs ds xs hcl
        (fun k h1 h2 => (C11.eqCB_iff_lower _ _ _).1 (hc k h1 h2)),
      C11.atom_input_case_invariant ctx hcb ds xs ys hxl
        (fun k h1 h2 => (C11.eqCB_iff_lower _ _ _).1 (hx k h1 h2))]

/-- pointwise equivalence survives `drop` -/
theorem drop_pointwise (lower : Nat → Nat) (xs ys : List Nat) (hxl : xs.length = ys.length)
    (hx : ∀ k (h1 : k < xs.length) (h2 : k < ys.length), eqCB lower xs[k] ys[k] = true) (p : Nat) :
    (xs.drop p).length = (ys.drop p).length ∧
    ∀ k (h1 : k < (xs.drop p).length) (h2 : k < (ys.drop p).length),
      eqCB lower (xs.drop p)[k] (ys.drop p)[k] = true := by
  refine ⟨by simp only [List.length_drop, hxl], ?_⟩
  intro k h1 h2
  simp only [List.getElem_drop]
  simp only [List.length_drop] at h1 h2
  exact hx (p + k) (by omega) (by omega)

/-! ### position tests -/

/-- pointwise equivalence, read through `[i]?` -/
theorem getElem?_pointwise (lower : Nat → Nat) (xs ys : List Nat) (hxl : xs.length = ys.length)
    (hx : ∀ k (h1 : k < xs.length) (h2 : k < ys.length), eqCB lower xs[k] ys[k] = true)
    (i c : Nat) (hc : xs[i]? = some c) : ∃ d, ys[i]? = some d ∧ eqCB lower c d = true := by
  obtain ⟨hi, hci⟩ := List.getElem?_eq_some_iff.1 hc
  have hi' : i < ys.length := by omega
  exact ⟨ys[i], List.getElem?_eq_getElem hi', hci ▸ hx i hi hi'⟩

/-- "the character at `i` is U+000A" is the same in both inputs, when U+000A has no case counterpart -/
theorem nl_congr (lower : Nat → Nat) (hnl : ∀ a, eqCB lower a 10 = true → a = 10)
    (xs ys : List Nat) (hxl : xs.length = ys.length)
    (hx : ∀ k (h1 : k < xs.length) (h2 : k < ys.length), eqCB lower xs[k] ys[k] = true) (i : Nat) :
    xs[i]? = some 10 ↔ ys[i]? = some 10 := by
  constructor
  · intro h
    obtain ⟨d, hd, he⟩ := getElem?_pointwise lower xs ys hxl hx i 10 h
    rw [C11.eqCB_symm] at he
    rw [hd, hnl d he]
  · intro h
    have hx' : ∀ k (h1 : k < ys.length) (h2 : k < xs.length), eqCB lower ys[k] xs[k] = true :=
      fun k h1 h2 => by rw [C11.eqCB_symm]; exact hx k h2 h1
    obtain ⟨d, hd, he⟩ := getElem?_pointwise lower ys xs hxl.symm hx' i 10 h
    rw [C11.eqCB_symm] at he
    rw [hd, hnl d he]

/-- a class closed under case on the alphabet `A` contains the character at `i` of one input iff
    of the other, for inputs over `A` -/
theorem cls_congr (A : Nat → Bool) (lower : Nat → Nat) (rs : Ranges)
    (hcl : ∀ a b, A a = true → A b = true → eqCB lower a b = true → clsContains rs a = clsContains rs b)
    (xs ys : List Nat) (hxl : xs.length = ys.length)
    (hx : ∀ k (h1 : k < xs.length) (h2 : k < ys.length), eqCB lower xs[k] ys[k] = true)
    (hxa : ∀ x ∈ xs, A x = true) (hya : ∀ y ∈ ys, A y = true) (i : Nat) :
    (∃ c, xs[i]? = some c ∧ clsContains rs c = true) ↔ (∃ c, ys[i]? = some c ∧ clsContains rs c = true) := by
  constructor
  · rintro ⟨c, hc, hm⟩
    obtain ⟨d, hd, he⟩ := getElem?_pointwise lower xs ys hxl hx i c hc
    exact ⟨d, hd, by
      rw [← hcl c d (hxa c (List.mem_of_getElem? hc)) (hya d (List.mem_of_getElem? hd)) he]; exact hm⟩
  · rintro ⟨c, hc, hm⟩
    have hx' : ∀ k (h1 : k < ys.length) (h2 : k < xs.length), eqCB lower ys[k] xs[k] = true :=
      fun k h1 h2 => by rw [C11.eqCB_symm]; exact hx k h2 h1
    obtain ⟨d, hd, he⟩ := getElem?_pointwise lower ys xs hxl.symm hx' i c hc
    exact ⟨d, hd, by
      rw [← hcl c d (hya c (List.mem_of_getElem? hc)) (hxa d (List.mem_of_getElem? hd)) he]; exact hm⟩

/-! ### the lower-casing table -/

theorem lookupN_mem {β : Type} (tbl : List (Nat × β)) (k : Nat) (v : β) (h : lookupN tbl k = some v) :
    (k, v) ∈ tbl := by
  induction tbl with
  | nil => simp [lookupN] at h
  | cons e t ih =>
    obtain ⟨a, b⟩ := e
    simp only [lookupN] at h
    by_cases hak : a = k
    · subst hak
      simp only [beq_self_eq_true, if_true, Option.some.injEq] at h
      subst h
      exact List.mem_cons_self
    · have hne : (a == k) = false := by simpa using hak
      simp only [hne, Bool.false_eq_true, if_false] at h
      exact List.mem_cons_of_mem _ (ih h)

/-- the lower-casing function of a table: the table's value at a key, the identity elsewhere -/
def tableLower (tbl : List (Nat × Nat)) (c : Nat) : Nat := (lookupN tbl c).getD c

/-- a property of all entries of the table transfers to the function -/
theorem tableLower_cases (tbl : List (Nat × Nat)) (c : Nat) :
    tableLower tbl c = c ∨ (c, tableLower tbl c) ∈ tbl := by
  unfold tableLower
  cases h : lookupN tbl c with
  | none => exact .inl rfl
  | some v => exact .inr (lookupN_mem tbl c v h)

/-- if no entry of the table has `n` as key or as value, only `n` is case-blind equal to `n` -/
theorem tableLower_isolated (tbl : List (Nat × Nat)) (n : Nat)
    (hchk : tbl.all (fun e => e.1 != n && e.2 != n) = true) (a : Nat)
    (h : eqCB (tableLower tbl) a n = true) : a = n := by
  rw [List.all_eq_true] at hchk
  rw [C11.eqCB_iff_lower] at h
  have hn : tableLower tbl n = n := by
    rcases tableLower_cases tbl n with h0 | h0
    · exact h0
    · have := hchk _ h0
      simp at this
  rw [hn] at h
  rcases tableLower_cases tbl a with h0 | h0
  · rw [← h0]; exact h
  · have := hchk _ h0
    rw [h] at this
    simp at this

/-- a class is closed under the table's case equivalence on the alphabet `A` as soon as key and value
    of every entry whose key is in `A` agree on membership (a decidable, sufficient check) -/
theorem tableLower_closed (A : Nat → Bool) (tbl : List (Nat × Nat)) (rs : Ranges)
    (hchk : tbl.all (fun e => !A e.1 || clsContains rs e.1 == clsContains rs e.2) = true) (a b : Nat)
    (ha : A a = true) (hb : A b = true)
    (h : eqCB (tableLower tbl) a b = true) : clsContains rs a = clsContains rs b := by
  rw [List.all_eq_true] at hchk
  rw [C11.eqCB_iff_lower] at h
  have key : ∀ c, A c = true → clsContains rs c = clsContains rs (tableLower tbl c) := by
    intro c hc
    rcases tableLower_cases tbl c with h0 | h0
    · rw [h0]
    · simpa [hc] using hchk _ h0
  rw [key a ha, key b hb, h]

end Rx.CaseL
