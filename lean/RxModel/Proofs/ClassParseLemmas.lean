/-
  Proofs/ClassParseLemmas — the item grammar of Props/C09b (definitions moved here unchanged so
  that the helper lemmas can mention them) and the step lemmas for the `while` loop of
  `parse_character_class` (`classLoop`) on plain characters and ranges of plain characters.
-/
import RxModel.Model.Parser
import RxModel.Props.C09
namespace Rx.C09
open Rx

/-! ### the item grammar (statement-level definitions of Props/C09b) -/

inductive CItem where
  | chr (c : Nat)
  | range (a b : Nat)
deriving Repr, DecidableEq

/-- a character that stands for itself inside a class: not `\`, `[`, `]`, `-`, `^` -/
def plainCh (c : Nat) : Bool := !(c == 92 || c == 91 || c == 93 || c == 45 || c == 94)

def CItem.ok : CItem → Bool
  | .chr c => plainCh c
  | .range a b => plainCh a && plainCh b && decide (a ≤ b)

def CItem.render : CItem → List Nat
  | .chr c => [c]
  | .range a b => [a, 45, b]

def renderItems : List CItem → List Nat
  | [] => []
  | i :: is => i.render ++ renderItems is

def CItem.addTo (rs : Ranges) : CItem → Ranges
  | .chr c => addChar c rs
  | .range a b => addRange a (b + 1) rs

/-- the set a list of items denotes: the union, built left to right -/
def denoteItems (items : List CItem) : Ranges := items.foldl CItem.addTo []

/-! ### reading the pattern -/

/-- what `c.pat.drop i = x :: tl` says about position `i` -/
theorem drop_cons_facts {c : PC} {i x : Nat} {tl : List Nat} (h : c.pat.drop i = x :: tl) :
    i < c.len ∧ c.at i = x ∧ c.pat.drop (i + 1) = tl := by
  have hlt : i < c.pat.length := by
    apply Classical.byContradiction
    intro hn
    rw [List.drop_eq_nil_of_le (by omega)] at h
    cases h
  refine ⟨hlt, ?_, ?_⟩
  · have h0 : (c.pat.drop i)[0]? = some x := by rw [h]; rfl
    rw [List.getElem?_drop] at h0
    unfold PC.at
    rw [List.getD_eq_getElem?_getD]
    simp only [Nat.add_zero] at h0
    rw [h0]; rfl
  · have : c.pat.drop (i + 1) = (c.pat.drop i).drop 1 := by
      rw [List.drop_drop]
    rw [this, h]; rfl

theorem drop_len {c : PC} {i : Nat} {l : List Nat} (h : c.pat.drop i = l) :
    l.length = c.len - i := by
  rw [← h, List.length_drop]; rfl

/-- with the text at `i` known, `there_follows` is a comparison of list prefixes -/
theorem thereFollows_eq {c : PC} {i : Nat} {l s : List Nat} (h : c.pat.drop i = l) (hs : s ≠ []) :
    thereFollows c i s = (l.take s.length == s) := by
  unfold thereFollows
  rw [h]
  cases hb : (l.take s.length == s)
  · simp
  · simp only [Bool.and_true, decide_eq_true_eq]
    have h1 := congrArg List.length (eq_of_beq hb)
    rw [List.length_take] at h1
    have hl := drop_len h
    have h2 : 0 < s.length := List.length_pos_iff.mpr hs
    omega

/-! ### `clsSimple` -/

/-- a character not followed by `-` is added to the builder -/
theorem clsSimple_char {c : PC} (hci : c.fl.caseBlind = false) {i : Nat} {k : ClsSt} {x y : Nat}
    {tl : List Nat} (h : c.pat.drop i = y :: tl) (hy : y ≠ 45) (hk : k.definingRange = false) :
    clsSimple c i k (some x) = some { k with builder := addChar x k.builder } := by
  have t : thereFollows c i [45] = false := by
    rw [thereFollows_eq h (by simp)]; simp [hy]
  unfold clsSimple
  simp only [hk, t, Bool.false_eq_true, if_false, addCharCI, hci]

/-- a character followed by `-` and a plain character starts a range -/
theorem clsSimple_rangeStart {c : PC} {i : Nat} {k : ClsSt} {x y : Nat} {tl : List Nat}
    (h : c.pat.drop i = 45 :: y :: tl) (h91 : y ≠ 91) (h93 : y ≠ 93) (h45 : y ≠ 45)
    (hk : k.definingRange = false) :
    clsSimple c i k (some x) = some { k with rangeStart := some x } := by
  have t0 : thereFollows c i [45] = true := by
    rw [thereFollows_eq h (by simp)]; simp
  have t1 : thereFollows c i [45, 91] = false := by
    rw [thereFollows_eq h (by simp)]; simp [h91]
  have t2 : thereFollows c i [45, 93] = false := by
    rw [thereFollows_eq h (by simp)]; simp [h93]
  have t3 : thereFollows c i [45, 45, 91] = false := by
    rw [thereFollows_eq h (by simp)]; simp [h45]
  have t4 : thereFollows c i [45, 45] = false := by
    rw [thereFollows_eq h (by simp)]; simp [h45]
  unfold clsSimple
  simp only [hk, t0, t1, t2, t3, t4, Bool.false_eq_true, if_false, if_true, Bool.or_self]

/-- the end of a range -/
theorem clsSimple_rangeEnd {c : PC} (hci : c.fl.caseBlind = false) {i : Nat} {k : ClsSt} {a b : Nat}
    (hk : k.definingRange = true) (hs : k.rangeStart = some a) (hab : a ≤ b) :
    clsSimple c i k (some b) =
      some { k with builder := addRange a (b + 1) k.builder, definingRange := false,
                    rangeStart := none } := by
  have hgt : ¬ a > b := by omega
  unfold clsSimple
  simp only [hk, hs, hgt, hci, Bool.false_eq_true, if_false, if_true]

/-! ### single steps of `classLoop` -/

/-- at `]` the loop ends -/
theorem classLoop_stop {c : PC} {f : Nat} {st : PS} {k : ClsSt} {tl : List Nat}
    (h : c.pat.drop st.idx = 93 :: tl) :
    classLoop c (f + 1) st k = .ok k.finish { st with idx := st.idx + 1 } := by
  obtain ⟨hlt, hat, _⟩ := drop_cons_facts h
  rw [classLoop]
  have h1 : (decide (st.idx < c.len) && c.at st.idx != 93) = false := by simp [hat]
  have h2 : (st.idx == c.len) = false := by
    rw [beq_eq_false_iff_ne]; omega
  simp only [h1, h2, Bool.false_eq_true, if_false]

/-- one loop step on a character that is none of `[ \ - ]` -/
theorem classLoop_simple {c : PC} {f : Nat} {st : PS} {k k' : ClsSt} {x : Nat} {tl : List Nat}
    (h : c.pat.drop st.idx = x :: tl) (h91 : x ≠ 91) (h92 : x ≠ 92) (h93 : x ≠ 93) (h45 : x ≠ 45)
    (hk : clsSimple c (st.idx + 1) k (some x) = some k') :
    classLoop c (f + 1) st k = classLoop c f { st with idx := st.idx + 1 } k' := by
  obtain ⟨hlt, hat, _⟩ := drop_cons_facts h
  have h1 : (decide (st.idx < c.len) && c.at st.idx != 93) = true := by simp [hat, hlt, h93]
  rw [classLoop, if_pos h1]
  have e91 : (x == 91) = false := by simp [h91]
  have e92 : (x == 92) = false := by simp [h92]
  have e45 : (x == 45) = false := by simp [h45]
  simp only [hat, e91, e92, e45, hk, Bool.false_eq_true, if_false]

/-- the loop step on the `-` of a range `a-b` -/
theorem classLoop_dash {c : PC} {f : Nat} {st : PS} {k : ClsSt} {y : Nat} {tl : List Nat}
    (h : c.pat.drop st.idx = 45 :: y :: tl) (h91 : y ≠ 91) (h93 : y ≠ 93)
    (hk : k.rangeStart.isSome = true) :
    classLoop c (f + 1) st k =
      classLoop c f { st with idx := st.idx + 1 } { k with definingRange := true } := by
  obtain ⟨hlt, hat, _⟩ := drop_cons_facts h
  have h1 : (decide (st.idx < c.len) && c.at st.idx != 93) = true := by simp [hat, hlt]
  rw [classLoop, if_pos h1]
  have t1 : thereFollows c st.idx [45, 91] = false := by
    rw [thereFollows_eq h (by simp)]; simp [h91]
  have t2 : thereFollows c st.idx [45, 93] = false := by
    rw [thereFollows_eq h (by simp)]; simp [h93]
  have e91 : ((45 : Nat) == 91) = false := by decide
  have e92 : ((45 : Nat) == 92) = false := by decide
  simp only [hat, e91, e92, t1, t2, hk, beq_self_eq_true, Bool.false_eq_true, if_false, if_true]

/-! ### whole items -/

/-- a plain character item -/
theorem classLoop_chr {c : PC} (hci : c.fl.caseBlind = false) {f : Nat} {st : PS} {k : ClsSt}
    {x y : Nat} {tl : List Nat} (h : c.pat.drop st.idx = x :: y :: tl)
    (h91 : x ≠ 91) (h92 : x ≠ 92) (h93 : x ≠ 93) (h45 : x ≠ 45) (hy : y ≠ 45)
    (hk : k.definingRange = false) :
    classLoop c (f + 1) st k =
      classLoop c f { st with idx := st.idx + 1 } { k with builder := addChar x k.builder } :=
  classLoop_simple h h91 h92 h93 h45 (clsSimple_char hci (drop_cons_facts h).2.2 hy hk)

/-- a range item `a-b`: three loop steps -/
theorem classLoop_range {c : PC} (hci : c.fl.caseBlind = false) {f : Nat} {st : PS} {k : ClsSt}
    {a b : Nat} {tl : List Nat} (h : c.pat.drop st.idx = a :: 45 :: b :: tl)
    (ha91 : a ≠ 91) (ha92 : a ≠ 92) (ha93 : a ≠ 93) (ha45 : a ≠ 45)
    (hb91 : b ≠ 91) (hb92 : b ≠ 92) (hb93 : b ≠ 93) (hb45 : b ≠ 45) (hab : a ≤ b)
    (hk : k.definingRange = false) :
    classLoop c (f + 3) st k =
      classLoop c f { st with idx := st.idx + 3 }
        { k with builder := addRange a (b + 1) k.builder, definingRange := false,
                 rangeStart := none } := by
  obtain ⟨_, _, h1⟩ := drop_cons_facts h
  obtain ⟨_, _, h2⟩ := drop_cons_facts h1
  rw [classLoop_simple (f := f + 2) h ha91 ha92 ha93 ha45 (clsSimple_rangeStart h1 hb91 hb93 hb45 hk)]
  rw [classLoop_dash (f := f + 1) (st := { st with idx := st.idx + 1 }) h1 hb91 hb93 rfl]
  rw [classLoop_simple (f := f) (st := { st with idx := st.idx + 1 + 1 }) h2 hb91 hb92 hb93 hb45
        (clsSimple_rangeEnd hci rfl rfl hab)]

/-! ### the item list -/

theorem plainCh_iff (x : Nat) :
    plainCh x = true ↔ x ≠ 92 ∧ x ≠ 91 ∧ x ≠ 93 ∧ x ≠ 45 ∧ x ≠ 94 := by
  unfold plainCh
  simp only [Bool.not_eq_true', Bool.or_eq_false_iff, beq_eq_false_iff_ne, ne_eq]
  omega

/-- the rendering of a non-empty list of good items starts with a plain character -/
theorem render_head_plain (items : List CItem) (hne : items ≠ []) (hok : items.all CItem.ok = true) :
    ∃ y tl, renderItems items = y :: tl ∧ plainCh y = true := by
  cases items with
  | nil => exact absurd rfl hne
  | cons it more =>
    rw [List.all_cons, Bool.and_eq_true] at hok
    cases it with
    | chr x => exact ⟨x, renderItems more, rfl, hok.1⟩
    | range a b =>
      have h := hok.1
      simp only [CItem.ok, Bool.and_eq_true] at h
      exact ⟨a, 45 :: b :: renderItems more, rfl, h.1.1⟩

/-- what follows an item is never `-` -/
theorem render_next (more : List CItem) (hok : more.all CItem.ok = true) (rest : List Nat) :
    ∃ y tl, renderItems more ++ 93 :: rest = y :: tl ∧ y ≠ 45 := by
  by_cases hne : more = []
  · subst hne
    exact ⟨93, rest, rfl, by decide⟩
  · obtain ⟨y, tl, hy, hp⟩ := render_head_plain more hne hok
    refine ⟨y, tl ++ 93 :: rest, by rw [hy]; rfl, ?_⟩
    exact ((plainCh_iff y).1 hp).2.2.2.1

/-- the loop over a rendered item list, from any state outside a range -/
theorem classLoop_items {c : PC} (hci : c.fl.caseBlind = false) (rest : List Nat) :
    ∀ (items : List CItem) (fuel : Nat) (st : PS) (k : ClsSt),
      items.all CItem.ok = true →
      c.pat.drop st.idx = renderItems items ++ 93 :: rest →
      k.definingRange = false → k.rangeStart = none →
      (renderItems items).length + 1 ≤ fuel →
      classLoop c fuel st k =
        .ok ({ k with builder := items.foldl CItem.addTo k.builder }).finish
            { st with idx := st.idx + (renderItems items).length + 1 } := by
  intro items
  induction items with
  | nil =>
    intro fuel st k _ hpat _ _ hfuel
    obtain ⟨f, rfl⟩ : ∃ f, fuel = f + 1 := ⟨fuel - 1, by omega⟩
    simp only [renderItems, List.nil_append] at hpat
    rw [classLoop_stop hpat]
    rfl
  | cons it more ih =>
    intro fuel st k hok hpat hdr hrs hfuel
    rw [List.all_cons, Bool.and_eq_true] at hok
    obtain ⟨hit, hmore⟩ := hok
    cases it with
    | chr x =>
      simp only [CItem.ok] at hit
      obtain ⟨h92, h91, h93, h45, _⟩ := (plainCh_iff x).1 hit
      obtain ⟨y, tl, hy, hy45⟩ := render_next more hmore rest
      simp only [renderItems, CItem.render, List.cons_append, List.nil_append,
        List.length_cons] at hpat hfuel ⊢
      obtain ⟨f, rfl⟩ : ∃ f, fuel = f + 1 := ⟨fuel - 1, by omega⟩
      have hpat' := hpat
      rw [hy] at hpat'
      rw [classLoop_chr hci hpat' h91 h92 h93 h45 hy45 hdr]
      rw [ih f { st with idx := st.idx + 1 } { k with builder := addChar x k.builder } hmore
            (drop_cons_facts hpat).2.2 hdr hrs (by omega)]
      simp only [List.foldl_cons, CItem.addTo]
      congr 2
      omega
    | range a b =>
      simp only [CItem.ok, Bool.and_eq_true, decide_eq_true_eq] at hit
      obtain ⟨⟨hpa, hpb⟩, hab⟩ := hit
      obtain ⟨ha92, ha91, ha93, ha45, _⟩ := (plainCh_iff a).1 hpa
      obtain ⟨hb92, hb91, hb93, hb45, _⟩ := (plainCh_iff b).1 hpb
      simp only [renderItems, CItem.render, List.cons_append, List.nil_append,
        List.length_cons] at hpat hfuel ⊢
      obtain ⟨f, rfl⟩ : ∃ f, fuel = f + 3 := ⟨fuel - 3, by omega⟩
      rw [classLoop_range hci hpat ha91 ha92 ha93 ha45 hb91 hb92 hb93 hb45 hab hdr]
      have h3 : c.pat.drop (st.idx + 3) = renderItems more ++ 93 :: rest :=
        (drop_cons_facts (drop_cons_facts (drop_cons_facts hpat).2.2).2.2).2.2
      rw [ih f { st with idx := st.idx + 3 }
            { k with builder := addRange a (b + 1) k.builder, definingRange := false,
                     rangeStart := none } hmore h3 rfl rfl (by omega)]
      simp only [List.foldl_cons, CItem.addTo, hdr, hrs]
      congr 2
      omega

/-! ### membership in the denoted set -/

theorem foldl_addTo_spec (x : Nat) : ∀ (items : List CItem) (rs : Ranges), Canon rs →
    items.all CItem.ok = true →
    (∀ i ∈ items, match i with | .chr c => c < cpLimit | .range _ b => b < cpLimit) →
    Canon (items.foldl CItem.addTo rs) ∧
    clsContains (items.foldl CItem.addTo rs) x =
      (items.any (fun i => match i with
          | .chr c => decide (x = c)
          | .range a b => decide (a ≤ x) && decide (x ≤ b)) || clsContains rs x) := by
  intro items
  induction items with
  | nil => intro rs hc _ _; exact ⟨hc, by simp⟩
  | cons it more ih =>
    intro rs hc hok hlim
    rw [List.all_cons, Bool.and_eq_true] at hok
    have hl := hlim it (by simp)
    have hlim' : ∀ i ∈ more, match i with | .chr c => c < cpLimit | .range _ b => b < cpLimit :=
      fun i hi => hlim i (List.mem_cons_of_mem _ hi)
    cases it with
    | chr c =>
      have hc' : Canon (addChar c rs) := canon_addRange rs hc c (c + 1) (by simp only at hl; omega)
      obtain ⟨h1, h2⟩ := ih (addChar c rs) hc' hok.2 hlim'
      refine ⟨h1, ?_⟩
      simp only [List.foldl_cons, CItem.addTo, List.any_cons]
      rw [h2, contains_addChar rs hc]
      cases List.any more _ <;> cases decide (x = c) <;> cases clsContains rs x <;> rfl
    | range a b =>
      have hc' : Canon (addRange a (b + 1) rs) :=
        canon_addRange rs hc a (b + 1) (by simp only at hl; omega)
      obtain ⟨h1, h2⟩ := ih (addRange a (b + 1) rs) hc' hok.2 hlim'
      refine ⟨h1, ?_⟩
      simp only [List.foldl_cons, CItem.addTo, List.any_cons]
      rw [h2, contains_addRange rs hc]
      have e : decide (x < b + 1) = decide (x ≤ b) := by
        rw [Bool.eq_iff_iff]; simp only [decide_eq_true_eq]; omega
      rw [e]
      cases List.any more _ <;> cases decide (a ≤ x) <;> cases decide (x ≤ b) <;>
        cases clsContains rs x <;> rfl

end Rx.C09
