/-
  Proofs/PathCaps3Lemmas — helper lemmas for Props/C03f (Spec/PathCaps3): capture-free general repeats
  next to groups and back-references.
    * `frame_inv`        FRAME LEMMA: the iterator of a capture-free, back-reference-free tree (ANY node kinds,
                         general repeats and `unamb` included) started at `p ≥ p0` keeps every state invariant
                         that survives `clear_captured_groups_beyond(pos)` for `pos ≥ p0`, the divergence
                         marker, a write of the zero-length-match memo, the sequence restore and the group-0
                         end write — at every yield, under every consumer that keeps it, and at exhaustion
    * `frame_repr`       … instance: "the arrays represent the environment `e`" (`ReprOff`)
    * `rep_seqC`         NODE LEVEL: a capture-free repeat of the Clean4 fragment yields exactly its `enum4`
                         ends paired with the unchanged environment
    * `PathR_noCap`      on capture-free, back-reference-free trees `PathR` is `OpR` with the environment unchanged
    * `enumC3_facts`, `sem_seqC3`, `enumC3_complete`, `PathR_frame3`   the inductions of Proofs/PathCapsLemmas with the new node
-/
import RxModel.Spec.PathCaps3
import RxModel.Proofs.PathCapsLemmas
import RxModel.Proofs.Enum4Lemmas
namespace Rx
open Rx.C08 (noEmptyAtoms noEmptyAtomsL clsCanon clsCanonL)

/-! ### the loops of Proofs/InvLemmas under position-dependent clearing (`WritesFrom`) -/

section posfrom3
variable {p0 L : Nat} {I : St → Prop}

theorem iterMinZ_invF (W : WritesFrom p0 I) {child : Gen} (C : ChildOK (PosFrom p0 L) I child) (min : Nat) :
    ∀ fuel count pos st, PosFrom p0 L pos → I st →
      I (iterMinZ child min fuel count pos st).2 ∧
      ∀ c q, (iterMinZ child min fuel count pos st).1 = some (c, q) → PosFrom p0 L q := by
  intro fuel
  induction fuel with
  | zero =>
    intro count pos st _ h
    exact ⟨W.div _ h, fun c q hq => by simp [iterMinZ] at hq⟩
  | succ f ih =>
    intro count pos st hp h
    unfold iterMinZ
    split
    · have hf := C.fst pos st hp h
      split
      · rename_i n x st' heq
        rw [← first1_snd heq] at hf
        have hn : PosFrom p0 L n := first1_all (C.pos pos st hp) heq
        split
        · refine ⟨hf, fun c q hq => ?_⟩
          simp only [Option.some.injEq, Prod.mk.injEq] at hq
          rw [← hq.2]; exact hp
        · exact ih _ _ _ hn hf
      · rename_i st' heq
        rw [← first1_snd heq] at hf
        exact ⟨hf, fun c q hq => by simp at hq⟩
    · refine ⟨h, fun c q hq => ?_⟩
      simp only [Option.some.injEq, Prod.mk.injEq] at hq
      rw [← hq.2]; exact hp

theorem repReluctantGen_invF (W : WritesFrom p0 I) {child : Gen} (C : ChildOK (PosFrom p0 L) I child)
    (ctx : Ctx) (min max : Nat) : GenInv (PosFrom p0 L) I (repReluctantGen ctx child min max) := by
  intro p st hp h
  unfold repReluctantGen
  have hi := iterMinZ_invF W C min (loopFuel ctx min) 0 p st hp h
  split
  · rename_i st' heq
    rw [heq] at hi
    exact .nil _ hi.1
  · rename_i count pos st' heq
    rw [heq] at hi
    apply Step.Inv.force
    exact .cons _ _ _ hi.1 (fun st'' h'' => relMore_inv C max _ _ _ _ (hi.2 _ _ rfl) h'')

theorem repGreedyGen_invF (hh : ∀ st (h : List (Nat × Nat)), I st → I { st with hist := h })
    {child : Gen} (C : ChildOK (PosFrom p0 L) I child) (ctx : Ctx)
    (id min max : Nat) : GenInv (PosFrom p0 L) I (repGreedyGen ctx id child min max) := by
  intro p st hp h
  unfold repGreedyGen
  simp only
  generalize Nat.min max (ctx.len + 1 - p) = bound
  have hfirst : ∀ fuel pl, (((child p st).bindFR
        (fun n st2 => greedyNode child min bound fuel 1 pl n st2)
        (fun n st2 => greedyNode child min bound fuel 1 none n st2)).force 0 none).Inv I := by
    intro fuel pl
    apply Step.Inv.force
    exact Step.Inv.bindFRP (C.inv p st hp h) (C.pos p st hp)
      (fun n st2 hn h2 => greedyNode_inv C min bound fuel 1 _ n st2 hn h2)
      (fun n st2 hn h2 => greedyNode_inv C min bound fuel 1 _ n st2 hn h2)
  split
  · split
    · split
      · exact .nil _ h
      · exact hfirst _ _
    · apply Step.Inv.force
      apply Step.Inv.append
      · exact greedyNode_inv C min bound _ 1 _ p _ hp (hh _ _ h)
      · intro st2 h2
        exact greedyNode_inv C min bound _ 1 _ p _ hp h2
  · split
    · exact .nil _ h
    · exact hfirst _ _

theorem unambLoop_invF (W : WritesFrom p0 I) {child : Gen} (C : ChildOK (PosFrom p0 L) I child)
    (max guard : Nat) (hg : guard ≤ L) :
    ∀ fuel p m st, p0 ≤ p → I st → I (unambLoop child max guard fuel p m st).2.2 := by
  intro fuel
  induction fuel with
  | zero => intro p m st _ h; exact W.div _ h
  | succ f ih =>
    intro p m st hp h
    unfold unambLoop
    split
    · rename_i hc1
      simp only [Bool.and_eq_true, decide_eq_true_eq] at hc1
      have hpp : PosFrom p0 L p := ⟨hp, Nat.le_trans hc1.2 hg⟩
      have hf := C.fst p st hpp h
      split
      · rename_i n x st' heq
        rw [← first1_snd heq] at hf
        have hn : PosFrom p0 L n := first1_all (C.pos p st hpp) heq
        exact ih _ _ _ hn.1 hf
      · rename_i st' heq
        rw [← first1_snd heq] at hf
        exact hf
    · exact h

theorem unambGen_invF (W : WritesFrom p0 I) {child : Gen} (C : ChildOK (PosFrom p0 L) I child) (ctx : Ctx)
    (hL : ctx.len = L) (min max : Nat) : GenInv (PosFrom p0 L) I (unambGen ctx child min max) := by
  intro p st hp h
  unfold unambGen
  simp only
  have hr := unambLoop_invF W C max ctx.len (by omega) (Nat.min max (ctx.len + 2) + 1) p 0 st hp.1 h
  generalize unambLoop child max ctx.len (Nat.min max (ctx.len + 2) + 1) p 0 st = r at hr
  split
  · exact .nil _ hr
  · exact .once hr

end posfrom3

/-! ### the frame lemma -/

mutual
/-- **frame lemma.**  The iterator of a capture-free, back-reference-free tree keeps every invariant `I`
    that the primitive writes at positions `≥ p0` keep. -/
theorem frame_inv {p0 : Nat} {I : St → Prop} (W : WritesFrom p0 I)
    (hh : ∀ st (h : List (Nat × Nat)), I st → I { st with hist := h }) (ctx : Ctx) :
    (op : Op) → noCapBr op = true → wfOp op = true → GenInv (PosFrom p0 ctx.len) I (sem ctx op)
  | .bol, _, _ => by simp only [sem]; exact bolGen_inv ctx
  | .eol, _, _ => by simp only [sem]; exact eolGen_inv ctx
  | .nothing, _, _ => by simp only [sem]; exact nothingGen_inv
  | .endProgram, _, _ => by simp only [sem]; exact endGen_invF W
  | .atom cs, _, _ => by simp only [sem]; exact atomGen_inv ctx cs
  | .cls rs, _, _ => by simp only [sem]; exact clsGen_inv ctx rs
  | .backref _, hc, _ | .capture _ _, hc, _ => by simp [noCapBr] at hc
  | .choice bs, hc, hwf => by
    simp only [wfOp, Bool.and_eq_true] at hwf
    simp only [noCapBr] at hc
    simp only [sem]
    exact frame_inv_choice W hh ctx bs hc hwf.2
  | .seq ops, hc, hwf => by
    simp only [wfOp, Bool.and_eq_true] at hwf
    simp only [noCapBr] at hc
    simp only [sem]
    exact seqGen_invF W (frame_inv_seq W hh ctx ops hc hwf.2) _
  | .gfixed c mn mx len, hc, hwf => by
    simp only [wfOp, Bool.and_eq_true, decide_eq_true_eq, beq_iff_eq] at hwf
    obtain ⟨⟨⟨⟨⟨hwc, hml⟩, hlen0⟩, hlen1⟩, hmm⟩, hmx⟩ := hwf
    simp only [noCapBr] at hc
    have C := childOK_from ctx c hwc (frame_inv W hh ctx c hc hwc)
    simp only [sem]
    exact gfixedGen_invF W C ctx rfl mn mx len
  | .rfixed c mn mx len, hc, hwf => by
    simp only [wfOp, Bool.and_eq_true, decide_eq_true_eq, beq_iff_eq] at hwf
    obtain ⟨⟨⟨⟨⟨hwc, hml⟩, hlen0⟩, hlen1⟩, hmm⟩, hmx⟩ := hwf
    simp only [noCapBr] at hc
    have C := childOK_from ctx c hwc (frame_inv W hh ctx c hc hwc)
    simp only [sem]
    exact rfixedGen_invF W C ctx mn mx
  | .unamb c mn mx, hc, hwf => by
    simp only [wfOp, Bool.and_eq_true, decide_eq_true_eq] at hwf
    simp only [noCapBr] at hc
    have C := childOK_from ctx c hwf.1.1 (frame_inv W hh ctx c hc hwf.1.1)
    simp only [sem]
    exact unambGen_invF W C ctx rfl mn mx
  | .rep id c mn mx g, hc, hwf => by
    simp only [wfOp, Bool.and_eq_true, decide_eq_true_eq] at hwf
    simp only [noCapBr] at hc
    have C := childOK_from ctx c hwf.1.1 (frame_inv W hh ctx c hc hwf.1.1)
    cases g with
    | true =>
      simp only [sem, if_true]
      exact repGreedyGen_invF hh C ctx id mn mx
    | false =>
      simp only [sem, Bool.false_eq_true, if_false]
      exact repReluctantGen_invF W C ctx mn mx
termination_by structural op => op
theorem frame_inv_choice {p0 : Nat} {I : St → Prop} (W : WritesFrom p0 I)
    (hh : ∀ st (h : List (Nat × Nat)), I st → I { st with hist := h }) (ctx : Ctx) :
    (bs : List Op) → noCapBrL bs = true → wfOps bs = true →
    GenInv (PosFrom p0 ctx.len) I (choiceGen (semL ctx bs))
  | [], _, _ => by simp only [semL]; exact choiceGen_nil_inv
  | b :: bs, hc, hwf => by
    simp only [wfOps, Bool.and_eq_true] at hwf
    simp only [noCapBrL, Bool.and_eq_true] at hc
    simp only [semL]
    exact choiceGen_cons_invF W (frame_inv W hh ctx b hc.1 hwf.1) (frame_inv_choice W hh ctx bs hc.2 hwf.2)
termination_by structural bs => bs
theorem frame_inv_seq {p0 : Nat} {I : St → Prop} (W : WritesFrom p0 I)
    (hh : ∀ st (h : List (Nat × Nat)), I st → I { st with hist := h }) (ctx : Ctx) :
    (ops : List Op) → noCapBrL ops = true → wfOps ops = true →
    GenInv (PosFrom p0 ctx.len) I (seqGo (semL ctx ops))
  | [], _, _ => by simp only [semL]; exact seqGo_nil_inv
  | o :: os, hc, hwf => by
    simp only [wfOps, Bool.and_eq_true] at hwf
    simp only [noCapBrL, Bool.and_eq_true] at hc
    simp only [semL]
    exact seqGo_cons_invF W (frame_inv W hh ctx o hc.1 hwf.1)
      (fun p st hp => (sem_bounds_op ctx o hwf.1 p hp.2 st).mono (fun _ hn => ⟨Nat.le_trans hp.1 hn.1, hn.2⟩))
      (frame_inv_seq W hh ctx os hc.2 hwf.2)
termination_by structural ops => ops
end

theorem ReprOff.setHist {ctx : Ctx} {T : List Nat} {st : St} {e : CEnv} (h : ReprOff ctx T st e)
    (hs : List (Nat × Nat)) : ReprOff ctx T { st with hist := hs } e :=
  ⟨h.agree, h.lens, h.np⟩

/-- **frame lemma for the capture arrays.**  A capture-free, back-reference-free tree started at `p` in a
    state representing `e` (every span of `e` ending at or before `p`) leaves a state representing `e` at
    every yield — under every consumer that resumes it with such a state — and at exhaustion: it neither
    writes the reported arrays nor the arrays back-references read (on the groups `≥ 1`). -/
theorem frame_repr (ctx : Ctx) (op : Op) (hc : noCapBr op = true) (hwf : wfOp op = true)
    (T : List Nat) (e : CEnv) (lo p : Nat) (hpl : p ≤ ctx.len) (he : EnvIn e lo p) (st : St)
    (hst : ReprOff ctx T st e) : (sem ctx op p st).Inv (fun st' => ReprOff ctx T st' e) :=
  frame_inv (writesFrom_repr ctx T e lo p he) (fun _ hs h => h.setHist hs) ctx op hc hwf p st
    ⟨Nat.le_refl _, hpl⟩ hst

mutual
theorem noCapBr_capsOf : (op : Op) → noCapBr op = true → capsOf op = []
  | .bol, _ | .eol, _ | .nothing, _ | .endProgram, _ | .atom _, _ | .cls _, _ => rfl
  | .backref _, h | .capture _ _, h => by simp [noCapBr] at h
  | .choice bs, h => by simp only [noCapBr] at h; simp only [capsOf]; exact noCapBr_capsOfL bs h
  | .seq ops, h => by simp only [noCapBr] at h; simp only [capsOf]; exact noCapBr_capsOfL ops h
  | .gfixed c _ _ _, h => by simp only [noCapBr] at h; simp only [capsOf]; exact noCapBr_capsOf c h
  | .rfixed c _ _ _, h => by simp only [noCapBr] at h; simp only [capsOf]; exact noCapBr_capsOf c h
  | .unamb c _ _, h => by simp only [noCapBr] at h; simp only [capsOf]; exact noCapBr_capsOf c h
  | .rep _ c _ _ _, h => by simp only [noCapBr] at h; simp only [capsOf]; exact noCapBr_capsOf c h
termination_by structural op => op
theorem noCapBr_capsOfL : (ops : List Op) → noCapBrL ops = true → capsOfL ops = []
  | [], _ => rfl
  | o :: os, h => by
    simp only [noCapBrL, Bool.and_eq_true] at h
    simp only [capsOfL, noCapBr_capsOf o h.1, noCapBr_capsOfL os h.2, List.append_nil]
termination_by structural ops => ops
end

/-! ### capture-free trees: the path semantics is the language, the environment is untouched -/

mutual
theorem PathR_noCap (ctx : Ctx) : (op : Op) → noCapBr op = true → ∀ p e q e',
    PathR ctx op p e q e' ↔ (e' = e ∧ OpR ctx op p q)
  | .bol, _, _, _, _, _ | .eol, _, _, _, _, _ | .nothing, _, _, _, _, _ | .endProgram, _, _, _, _, _
  | .atom _, _, _, _, _, _ | .cls _, _, _, _, _, _ => by simp only [PathR]
  | .backref _, h, _, _, _, _ | .capture _ _, h, _, _, _, _ => by simp [noCapBr] at h
  | .choice bs, h, p, e, q, e' => by
    simp only [noCapBr] at h
    simp only [PathR, OpR]
    exact PathRAny_noCap ctx bs h p e q e'
  | .seq ops, h, p, e, q, e' => by
    simp only [noCapBr] at h
    simp only [PathR, OpR]
    exact PathRSeq_noCap ctx ops h p e q e'
  | .gfixed c mn mx _, h, p, e, q, e' => by
    simp only [noCapBr] at h
    simp only [PathR, OpR]
    have hi := fun k => @IterP_plain _ (fun a b => OpR ctx c a b)
      (fun a x b y => PathR_noCap ctx c h a x b y) k p q e e'
    constructor
    · rintro ⟨k, h1, h2, h3⟩
      exact ⟨((hi k).1 h3).1, k, h1, h2, ((hi k).1 h3).2⟩
    · rintro ⟨h0, k, h1, h2, h3⟩
      exact ⟨k, h1, h2, (hi k).2 ⟨h0, h3⟩⟩
  | .rfixed c mn mx _, h, p, e, q, e' => by
    simp only [noCapBr] at h
    simp only [PathR, OpR]
    have hi := fun k => @IterP_plain _ (fun a b => OpR ctx c a b)
      (fun a x b y => PathR_noCap ctx c h a x b y) k p q e e'
    constructor
    · rintro ⟨k, h1, h2, h3⟩
      exact ⟨((hi k).1 h3).1, k, h1, h2, ((hi k).1 h3).2⟩
    · rintro ⟨h0, k, h1, h2, h3⟩
      exact ⟨k, h1, h2, (hi k).2 ⟨h0, h3⟩⟩
  | .unamb c mn mx, h, p, e, q, e' => by
    simp only [noCapBr] at h
    simp only [PathR, OpR]
    have hi := fun k => @IterP_plain _ (fun a b => OpR ctx c a b)
      (fun a x b y => PathR_noCap ctx c h a x b y) k p q e e'
    constructor
    · rintro ⟨k, h1, h2, h3⟩
      exact ⟨((hi k).1 h3).1, k, h1, h2, ((hi k).1 h3).2⟩
    · rintro ⟨h0, k, h1, h2, h3⟩
      exact ⟨k, h1, h2, (hi k).2 ⟨h0, h3⟩⟩
  | .rep _ c mn mx _, h, p, e, q, e' => by
    simp only [noCapBr] at h
    simp only [PathR, OpR]
    have hi := fun k => @IterP_plain _ (fun a b => OpR ctx c a b)
      (fun a x b y => PathR_noCap ctx c h a x b y) k p q e e'
    constructor
    · rintro ⟨k, h1, h2, h3⟩
      exact ⟨((hi k).1 h3).1, k, h1, h2, ((hi k).1 h3).2⟩
    · rintro ⟨h0, k, h1, h2, h3⟩
      exact ⟨k, h1, h2, (hi k).2 ⟨h0, h3⟩⟩
termination_by structural op => op
theorem PathRAny_noCap (ctx : Ctx) : (bs : List Op) → noCapBrL bs = true → ∀ p e q e',
    PathRAny ctx bs p e q e' ↔ (e' = e ∧ OpRAny ctx bs p q)
  | [], _, _, _, _, _ => by simp [PathRAny, OpRAny]
  | b :: bs, h, p, e, q, e' => by
    simp only [noCapBrL, Bool.and_eq_true] at h
    simp only [PathRAny, OpRAny, PathR_noCap ctx b h.1 p e q e', PathRAny_noCap ctx bs h.2 p e q e']
    constructor
    · rintro (⟨h1, h2⟩ | ⟨h1, h2⟩)
      · exact ⟨h1, .inl h2⟩
      · exact ⟨h1, .inr h2⟩
    · rintro ⟨h1, h2 | h2⟩
      · exact .inl ⟨h1, h2⟩
      · exact .inr ⟨h1, h2⟩
termination_by structural bs => bs
theorem PathRSeq_noCap (ctx : Ctx) : (ops : List Op) → noCapBrL ops = true → ∀ p e q e',
    PathRSeq ctx ops p e q e' ↔ (e' = e ∧ OpRSeq ctx ops p q)
  | [], _, _, _, _, _ => by
    simp only [PathRSeq, OpRSeq]
    exact ⟨fun h => ⟨h.2, h.1⟩, fun h => ⟨h.2, h.1⟩⟩
  | o :: os, h, p, e, q, e' => by
    simp only [noCapBrL, Bool.and_eq_true] at h
    simp only [PathRSeq, OpRSeq]
    constructor
    · rintro ⟨m, e1, h1, h2⟩
      obtain ⟨rfl, h1'⟩ := (PathR_noCap ctx o h.1 p e m e1).1 h1
      obtain ⟨rfl, h2'⟩ := (PathRSeq_noCap ctx os h.2 m _ q e').1 h2
      exact ⟨rfl, m, h1', h2'⟩
    · rintro ⟨rfl, m, h1, h2⟩
      exact ⟨m, e', (PathR_noCap ctx o h.1 p _ m _).2 ⟨rfl, h1⟩, (PathRSeq_noCap ctx os h.2 m _ q _).2 ⟨rfl, h2⟩⟩
termination_by structural ops => ops
end

/-! ### the repeat node -/

/-- the side conditions of a repeat node of the fragment, unfolded -/
theorem rep3_split {env : Env} {cb ml : Bool} {id : Nat} {c : Op} {mn mx : Nat} {g : Bool}
    (hs : straightCaps3 env cb ml (.rep id c mn mx g) = true) :
    cleanOp4F env cb ml false [] (.rep id c mn mx g) = true ∧ noCapBr (.rep id c mn mx g) = true := by
  simp only [straightCaps3, Bool.and_eq_true] at hs
  exact ⟨hs.1, by simpa only [noCapBr] using hs.2⟩

/-- **node level.**  A capture-free general repeat of the Clean4 fragment, started at `p` in a state that
    represents `e`, yields exactly its `enum4` ends (greedy: most iterations first; reluctant: fewest
    first), every time in a state that still represents `e`, and ends in such a state. -/
theorem rep_seqC (env : Env) (ctx : Ctx) (hI : InputOK env ctx) (id : Nat) (c : Op) (mn mx : Nat) (g : Bool)
    (hs : straightCaps3 env ctx.caseBlind ctx.multiLine (.rep id c mn mx g) = true)
    (hwf : wfOp (.rep id c mn mx g) = true) (hne : noEmptyAtoms (.rep id c mn mx g) = true)
    (hcc : clsCanon (.rep id c mn mx g))
    (T : List Nat) (e : CEnv) (lo p : Nat) (hpl : p ≤ ctx.len) (he : EnvIn e lo p) (st : St)
    (hst : ReprOff ctx T st e) :
    Step.SeqC (ReprOff ctx T) (fun st' => ReprOff ctx T st' e) (sem ctx (.rep id c mn mx g) p st)
      ((enum4 ctx (.rep id c mn mx g) p).map (fun q => (q, e))) :=
  Step.SeqC.of_ex_inv e (sem_ex4_op env ctx hI _ false [] (rep3_split hs).1 hwf hne hcc p hpl st)
    (frame_repr ctx _ (rep3_split hs).2 hwf T e lo p hpl he st hst)

theorem rep_facts (env : Env) (ctx : Ctx) (hI : InputOK env ctx) (id : Nat) (c : Op) (mn mx : Nat) (g : Bool)
    (hs : straightCaps3 env ctx.caseBlind ctx.multiLine (.rep id c mn mx g) = true)
    (hwf : wfOp (.rep id c mn mx g) = true) (hne : noEmptyAtoms (.rep id c mn mx g) = true)
    (hcc : clsCanon (.rep id c mn mx g))
    (lo : Nat) (cl : List Nat) (p : Nat) (e : CEnv) (hpl : p ≤ ctx.len) (he : EnvIn e lo p) (hd : Dom cl e)
    (x : Nat × CEnv) (hx : x ∈ (enum4 ctx (.rep id c mn mx g) p).map (fun q => (q, e))) :
    PathFacts ctx lo (capsOf (.rep id c mn mx g)) cl (PathR ctx (.rep id c mn mx g) p e) p x.1 x.2 := by
  obtain ⟨q, hq, rfl⟩ := List.mem_map.1 hx
  have hr := enum4_sound_op env ctx hI _ false [] (rep3_split hs).1 hwf hne hcc hpl hq
  have hb := OpR_bounds_op ctx _ p q hpl hr
  rw [noCapBr_capsOf _ (rep3_split hs).2]
  exact ⟨hb.1, hb.2, he.mono hb.1, hd, (PathR_noCap ctx _ (rep3_split hs).2 p e q e).2 ⟨rfl, hr⟩⟩

theorem rep_complete (env : Env) (ctx : Ctx) (hI : InputOK env ctx) (id : Nat) (c : Op) (mn mx : Nat) (g : Bool)
    (hs : straightCaps3 env ctx.caseBlind ctx.multiLine (.rep id c mn mx g) = true)
    (hwf : wfOp (.rep id c mn mx g) = true) (hne : noEmptyAtoms (.rep id c mn mx g) = true)
    (hcc : clsCanon (.rep id c mn mx g))
    {p q : Nat} {e e' : CEnv} (hpl : p ≤ ctx.len) (h : PathR ctx (.rep id c mn mx g) p e q e') :
    (q, e') ∈ (enum4 ctx (.rep id c mn mx g) p).map (fun q => (q, e)) := by
  obtain ⟨rfl, hr⟩ := (PathR_noCap ctx _ (rep3_split hs).2 p e q e').1 h
  exact List.mem_map.2 ⟨q, comp4_op env ctx hI _ (rep3_split hs).1 hwf hne hcc p q hpl hr, rfl⟩

/-! ### what every member of `enumC3` satisfies -/

mutual
theorem enumC3_facts (env : Env) (ctx : Ctx) (hI : InputOK env ctx) (lo : Nat) : (op : Op) →
    straightCaps3 env ctx.caseBlind ctx.multiLine op = true → wfOp op = true →
    noEmptyAtoms op = true → clsCanon op →
    ∀ cl p e, p ≤ ctx.len → lo ≤ p → EnvIn e lo p → Dom cl e →
    ∀ x, x ∈ enumC3 ctx op p e → PathFacts ctx lo (capsOf op) cl (PathR ctx op p e) p x.1 x.2
  | .bol, _, hwf, _, _, cl, p, e, hpl, _, he, hd, x, hx =>
    plain_facts ctx .bol rfl hwf lo cl p e hpl he hd x (by simpa only [enumC3] using hx)
  | .eol, _, hwf, _, _, cl, p, e, hpl, _, he, hd, x, hx =>
    plain_facts ctx .eol rfl hwf lo cl p e hpl he hd x (by simpa only [enumC3] using hx)
  | .nothing, _, hwf, _, _, cl, p, e, hpl, _, he, hd, x, hx =>
    plain_facts ctx .nothing rfl hwf lo cl p e hpl he hd x (by simpa only [enumC3] using hx)
  | .endProgram, _, hwf, _, _, cl, p, e, hpl, _, he, hd, x, hx =>
    plain_facts ctx .endProgram rfl hwf lo cl p e hpl he hd x (by simpa only [enumC3] using hx)
  | .atom cs, _, hwf, _, _, cl, p, e, hpl, _, he, hd, x, hx =>
    plain_facts ctx (.atom cs) rfl hwf lo cl p e hpl he hd x (by simpa only [enumC3] using hx)
  | .cls rs, _, hwf, _, _, cl, p, e, hpl, _, he, hd, x, hx =>
    plain_facts ctx (.cls rs) rfl hwf lo cl p e hpl he hd x (by simpa only [enumC3] using hx)
  | .choice bs, hs, hwf, _, _, cl, p, e, hpl, _, he, hd, x, hx =>
    plain_facts ctx (.choice bs) (by simpa only [straightCaps3, plainOp] using hs) hwf lo cl p e hpl he hd x
      (by simpa only [enumC3] using hx)
  | .gfixed c mn mx l, hs, hwf, _, _, cl, p, e, hpl, _, he, hd, x, hx =>
    plain_facts ctx (.gfixed c mn mx l) (by simpa only [straightCaps3, plainOp] using hs) hwf lo cl p e hpl he hd x
      (by simpa only [enumC3] using hx)
  | .rfixed c mn mx l, hs, hwf, _, _, cl, p, e, hpl, _, he, hd, x, hx =>
    plain_facts ctx (.rfixed c mn mx l) (by simpa only [straightCaps3, plainOp] using hs) hwf lo cl p e hpl he hd x
      (by simpa only [enumC3] using hx)
  | .unamb _ _ _, hs, _, _, _, _, _, _, _, _, _, _, _, _ => by
    simp [straightCaps3] at hs
  | .rep id c mn mx g, hs, hwf, hne, hcc, cl, p, e, hpl, _, he, hd, x, hx =>
    rep_facts env ctx hI id c mn mx g hs hwf hne hcc lo cl p e hpl he hd x (by simpa only [enumC3] using hx)
  | .backref g, _, _, _, _, cl, p, e, hpl, _, he, hd, x, hx => by
    simp only [enumC3] at hx
    simp only [capsOf]
    cases hg : e g with
    | none =>
      rw [hg] at hx
      simp only [List.mem_singleton] at hx
      subst hx
      refine ⟨Nat.le_refl _, hpl, he, hd, ?_⟩
      simp only [PathR, hg, BackrefR, true_and]
    | some ab =>
      obtain ⟨a, b⟩ := ab
      rw [hg] at hx
      simp only at hx
      split at hx
      · rename_i hc
        simp only [List.mem_singleton] at hx
        subst hx
        refine ⟨Nat.le_add_right _ _, hc.1, he.mono (Nat.le_add_right _ _), hd, ?_⟩
        simp only [PathR, hg, BackrefR, true_and]
        exact ⟨hc.1, hc.2⟩
      · cases hx
  | .capture g c, hs, hwf, hne, hcc, cl, p, e, hpl, hlo, he, hd, x, hx => by
    simp only [straightCaps3] at hs
    simp only [wfOp] at hwf
    simp only [noEmptyAtoms] at hne
    simp only [clsCanon] at hcc
    simp only [enumC3, List.mem_map] at hx
    obtain ⟨y, hy, rfl⟩ := hx
    have ih := enumC3_facts env ctx hI lo c hs hwf hne hcc cl p e hpl hlo he hd y hy
    simp only [capsOf]
    refine ⟨ih.le, ih.len, ih.env.set g p y.1 hlo ih.le (Nat.le_refl _) (Nat.le_refl _), ?_, ?_⟩
    · exact Dom.set ih.dom g p y.1
    · simp only [PathR]
      exact ⟨y.2, ih.path, rfl⟩
  | .seq ops, hs, hwf, hne, hcc, cl, p, e, hpl, hlo, he, hd, x, hx => by
    simp only [straightCaps3] at hs
    simp only [wfOp, Bool.and_eq_true] at hwf
    simp only [noEmptyAtoms] at hne
    simp only [clsCanon] at hcc
    simp only [enumC3] at hx
    simp only [capsOf, PathR]
    exact enumC3Seq_facts env ctx hI lo ops hs hwf.2 hne hcc cl p e hpl hlo he hd x hx
termination_by structural op => op
theorem enumC3Seq_facts (env : Env) (ctx : Ctx) (hI : InputOK env ctx) (lo : Nat) : (ops : List Op) →
    straightCaps3L env ctx.caseBlind ctx.multiLine ops = true → wfOps ops = true →
    noEmptyAtomsL ops = true → clsCanonL ops →
    ∀ cl p e, p ≤ ctx.len → lo ≤ p → EnvIn e lo p → Dom cl e →
    ∀ x, x ∈ enumC3Seq ctx ops p e → PathFacts ctx lo (capsOfL ops) cl (PathRSeq ctx ops p e) p x.1 x.2
  | [], _, _, _, _, cl, p, e, hpl, _, he, hd, x, hx => by
    simp only [enumC3Seq, List.mem_singleton] at hx
    subst hx
    simp only [capsOfL]
    exact ⟨Nat.le_refl _, hpl, he, hd, by simp only [PathRSeq, and_self]⟩
  | o :: os, hs, hwf, hne, hcc, cl, p, e, hpl, hlo, he, hd, x, hx => by
    simp only [straightCaps3L, Bool.and_eq_true] at hs
    simp only [wfOps, Bool.and_eq_true] at hwf
    simp only [noEmptyAtomsL, Bool.and_eq_true] at hne
    simp only [clsCanonL] at hcc
    simp only [enumC3Seq, List.mem_flatMap] at hx
    obtain ⟨y, hy, hx⟩ := hx
    have h1 := enumC3_facts env ctx hI lo o hs.1 hwf.1 hne.1 hcc.1 cl p e hpl hlo he hd y hy
    have h2 := enumC3Seq_facts env ctx hI lo os hs.2 hwf.2 hne.2 hcc.2 (capsOf o ++ cl) y.1 y.2 h1.len
      (Nat.le_trans hlo h1.le) h1.env h1.dom x hx
    simp only [capsOfL]
    refine ⟨Nat.le_trans h1.le h2.le, h2.len, h2.env, ?_, ?_⟩
    · intro g hg
      apply h2.dom g
      simp only [List.mem_append] at *
      rcases hg with (hg | hg) | hg
      · exact .inr (.inl hg)
      · exact .inl hg
      · exact .inr (.inr hg)
    · simp only [PathRSeq]
      exact ⟨y.1, y.2, h1.path, h2.path⟩
termination_by structural ops => ops
end

/-! ### the engine yields exactly `enumC3` -/

theorem plain_case3 (ctx : Ctx) (op : Op) (hp : plainOp op = true) (hwf : wfOp op = true)
    (T : List Nat) (e : CEnv) (lo p : Nat) (hpl : p ≤ ctx.len) (he : EnvIn e lo p) (st : St)
    (henum : enumC3 ctx op p e = (enum ctx op p).map (fun q => (q, e)))
    (hst : ReprOff ctx (capsOf op ++ T) st e) :
    Step.SeqC (ReprOff ctx T) (fun st' => ReprOff ctx (capsOf op ++ T) st' e) (sem ctx op p st)
      (enumC3 ctx op p e) := by
  rw [henum]
  rw [plain_capsOf op hp] at hst ⊢
  exact plain_seqC ctx op hp hwf T e lo p hpl he st hst

mutual
/-- **the engine is an exact, ordered enumerator of (end, environment) pairs on `straightCaps3`** -/
theorem sem_seqC3 (env : Env) (ctx : Ctx) (hI : InputOK env ctx) (lo : Nat) : (op : Op) →
    straightCaps3 env ctx.caseBlind ctx.multiLine op = true → wfOp op = true →
    noEmptyAtoms op = true → clsCanon op →
    ∀ cl T, scopeOK ctx.hasBackrefs ctx.maxParens op cl T = true →
    ∀ p e st, p ≤ ctx.len → lo ≤ p → EnvIn e lo p → Dom cl e → ReprOff ctx (capsOf op ++ T) st e →
    Step.SeqC (ReprOff ctx T) (fun st' => ReprOff ctx (capsOf op ++ T) st' e) (sem ctx op p st)
      (enumC3 ctx op p e)
  | .bol, _, hwf, _, _, _, T, _, p, e, st, hpl, _, he, _, hst =>
    plain_case3 ctx .bol rfl hwf T e lo p hpl he st (by simp only [enumC3]) hst
  | .eol, _, hwf, _, _, _, T, _, p, e, st, hpl, _, he, _, hst =>
    plain_case3 ctx .eol rfl hwf T e lo p hpl he st (by simp only [enumC3]) hst
  | .nothing, _, hwf, _, _, _, T, _, p, e, st, hpl, _, he, _, hst =>
    plain_case3 ctx .nothing rfl hwf T e lo p hpl he st (by simp only [enumC3]) hst
  | .endProgram, _, hwf, _, _, _, T, _, p, e, st, hpl, _, he, _, hst =>
    plain_case3 ctx .endProgram rfl hwf T e lo p hpl he st (by simp only [enumC3]) hst
  | .atom cs, _, hwf, _, _, _, T, _, p, e, st, hpl, _, he, _, hst =>
    plain_case3 ctx (.atom cs) rfl hwf T e lo p hpl he st (by simp only [enumC3]) hst
  | .cls rs, _, hwf, _, _, _, T, _, p, e, st, hpl, _, he, _, hst =>
    plain_case3 ctx (.cls rs) rfl hwf T e lo p hpl he st (by simp only [enumC3]) hst
  | .choice bs, hs, hwf, _, _, _, T, _, p, e, st, hpl, _, he, _, hst =>
    plain_case3 ctx (.choice bs) (by simpa only [straightCaps3, plainOp] using hs) hwf T e lo p hpl he st
      (by simp only [enumC3]) hst
  | .gfixed c mn mx l, hs, hwf, _, _, _, T, _, p, e, st, hpl, _, he, _, hst =>
    plain_case3 ctx (.gfixed c mn mx l) (by simpa only [straightCaps3, plainOp] using hs) hwf T e lo p hpl he st
      (by simp only [enumC3]) hst
  | .rfixed c mn mx l, hs, hwf, _, _, _, T, _, p, e, st, hpl, _, he, _, hst =>
    plain_case3 ctx (.rfixed c mn mx l) (by simpa only [straightCaps3, plainOp] using hs) hwf T e lo p hpl he st
      (by simp only [enumC3]) hst
  | .unamb _ _ _, hs, _, _, _, _, _, _, _, _, _, _, _, _, _, _ => by
    simp [straightCaps3] at hs
  | .rep id c mn mx g, hs, hwf, hne, hcc, _, T, _, p, e, st, hpl, _, he, _, hst => by
    simp only [enumC3]
    rw [noCapBr_capsOf _ (rep3_split hs).2] at hst ⊢
    exact rep_seqC env ctx hI id c mn mx g hs hwf hne hcc T e lo p hpl he st hst
  | .backref g, _, _, _, _, cl, T, hsc, p, e, st, hpl, _, he, hd, hst => by
    simp only [scopeOK, Bool.and_eq_true, decide_eq_true_eq, List.contains_eq_mem, Bool.not_eq_true',
      decide_eq_false_iff_not] at hsc
    obtain ⟨⟨⟨hbr, hg1⟩, hgcl⟩, hgT⟩ := hsc
    simp only [capsOf, List.nil_append] at hst ⊢
    have hsome := hd g hgcl
    cases hg : e g with
    | none => rw [hg] at hsome; cases hsome
    | some ab =>
      obtain ⟨a, b⟩ := ab
      have hag := hst.agree g hg1 hgT
      rw [hg] at hag
      have hbrs := hag.2.2 hbr
      have hab := (he g a b hg).2.1
      simp only [sem, enumC3, hg]
      rw [backrefGen_eval ctx g p st a b hpl hbrs.1 hbrs.2 hab]
      split
      · exact Step.SeqC.once hst (fun _ h => h)
      · exact .nil st hst
  | .capture g c, hs, hwf, hne, hcc, cl, T, hsc, p, e, st, hpl, hlo, he, hd, hst => by
    simp only [straightCaps3] at hs
    simp only [wfOp] at hwf
    simp only [noEmptyAtoms] at hne
    simp only [clsCanon] at hcc
    simp only [scopeOK, Bool.and_eq_true, decide_eq_true_eq] at hsc
    obtain ⟨⟨hg1, hgm⟩, hsc⟩ := hsc
    simp only [capsOf] at hst ⊢
    have hperm : ∀ k, k ∈ g :: capsOf c ++ T ↔ k ∈ capsOf c ++ g :: T := by
      intro k; simp only [List.cons_append, List.mem_cons, List.mem_append]
      constructor
      · rintro (h | h | h)
        · exact .inr (.inl h)
        · exact .inl h
        · exact .inr (.inr h)
      · rintro (h | h | h)
        · exact .inr (.inl h)
        · exact .inl h
        · exact .inr (.inr h)
    have hst1 := (hst.capturePre g p (by simp) hgm).mono (fun k hk => (hperm k).1 hk)
    have ih := sem_seqC3 env ctx hI lo c hs hwf hne hcc cl (g :: T) hsc p e _ hpl hlo he hd hst1
    simp only [sem, enumC3]
    unfold captureGen
    simp only
    refine (Step.SeqC.mapSt (R' := ReprOff ctx T) (fun x => x.2.set g p x.1) ih ?_ ?_).monoN ?_
    · intro x _ st' h'
      exact h'.captureWrite g p x.1 hgm
    · intro x _ st' h'
      exact h'.unset
    · intro st' h'
      exact h'.mono (fun k hk => (hperm k).2 hk)
  | .seq ops, hs, hwf, hne, hcc, cl, T, hsc, p, e, st, hpl, hlo, he, hd, hst => by
    simp only [straightCaps3] at hs
    simp only [wfOp, Bool.and_eq_true, Bool.not_eq_true', List.isEmpty_eq_false_iff] at hwf
    simp only [noEmptyAtoms] at hne
    simp only [clsCanon] at hcc
    simp only [scopeOK] at hsc
    simp only [capsOf] at hst ⊢
    simp only [sem, enumC3]
    unfold seqGen
    simp only
    refine (seqGo_seqC3 env ctx hI lo ops hwf.1 hs hwf.2 hne hcc cl T hsc p e st hpl hlo he hd hst).onNil
      (fun st' h' => ?_)
    split
    · exact hst.restore h'
    · exact h'
termination_by structural op => op
theorem seqGo_seqC3 (env : Env) (ctx : Ctx) (hI : InputOK env ctx) (lo : Nat) : (ops : List Op) → ops ≠ [] →
    straightCaps3L env ctx.caseBlind ctx.multiLine ops = true → wfOps ops = true →
    noEmptyAtomsL ops = true → clsCanonL ops →
    ∀ cl T, scopeOKL ctx.hasBackrefs ctx.maxParens ops cl T = true →
    ∀ p e st, p ≤ ctx.len → lo ≤ p → EnvIn e lo p → Dom cl e → ReprOff ctx (capsOfL ops ++ T) st e →
    Step.SeqC (ReprOff ctx T) (fun st' => ReprOff ctx (capsOfL ops ++ T) st' e) (seqGo (semL ctx ops) p st)
      (enumC3Seq ctx ops p e)
  | [], hne, _, _, _, _, _, _, _, _, _, _, _, _, _, _, _ => absurd rfl hne
  | [o], _, hs, hwf, hne, hcc, cl, T, hsc, p, e, st, hpl, hlo, he, hd, hst => by
    simp only [straightCaps3L, Bool.and_eq_true] at hs
    simp only [wfOps, Bool.and_eq_true] at hwf
    simp only [noEmptyAtomsL, Bool.and_eq_true] at hne
    simp only [clsCanonL] at hcc
    simp only [scopeOKL, capsOfL, List.nil_append, Bool.and_true] at hsc
    simp only [capsOfL, List.append_nil] at hst ⊢
    have ih := sem_seqC3 env ctx hI lo o hs.1 hwf.1 hne.1 hcc.1 cl T hsc p e st hpl hlo he hd hst
    simp only [semL, enumC3Seq]
    rw [flatMap_pair_single]
    unfold seqGo
    refine Step.SeqC.mapSt_same ih (fun x hx st' h' => ?_)
    exact h'.clear (enumC3_facts env ctx hI lo o hs.1 hwf.1 hne.1 hcc.1 cl p e hpl hlo he hd x hx).env
  | o :: o2 :: os, _, hs, hwf, hne, hcc, cl, T, hsc, p, e, st, hpl, hlo, he, hd, hst => by
    simp only [straightCaps3L, Bool.and_eq_true] at hs
    simp only [wfOps, Bool.and_eq_true] at hwf
    simp only [noEmptyAtomsL, Bool.and_eq_true] at hne
    simp only [clsCanonL] at hcc
    have hs2 : straightCaps3L env ctx.caseBlind ctx.multiLine (o2 :: os) = true := by
      simp only [straightCaps3L, Bool.and_eq_true]; exact hs.2
    have hw2 : wfOps (o2 :: os) = true := by simp only [wfOps, Bool.and_eq_true]; exact hwf.2
    have hn2 : noEmptyAtomsL (o2 :: os) = true := by simp only [noEmptyAtomsL, Bool.and_eq_true]; exact hne.2
    have hcc2 : clsCanonL (o2 :: os) := by simp only [clsCanonL]; exact hcc.2
    rw [scopeOKL, Bool.and_eq_true] at hsc
    rw [capsOfL, List.append_assoc] at hst
    have ih := sem_seqC3 env ctx hI lo o hs.1 hwf.1 hne.1 hcc.1 cl (capsOfL (o2 :: os) ++ T) hsc.1 p e st
      hpl hlo he hd hst
    have hfacts := enumC3_facts env ctx hI lo o hs.1 hwf.1 hne.1 hcc.1 cl p e hpl hlo he hd
    show Step.SeqC _ _ (seqGo (sem ctx o :: sem ctx o2 :: semL ctx os) p st)
      ((enumC3 ctx o p e).flatMap (fun x => enumC3Seq ctx (o2 :: os) x.1 x.2))
    unfold seqGo
    have h1 := Step.SeqC.mapSt_same (f := fun n st' => clearBeyond st' n) ih
      (fun x hx st' h' => h'.clear (hfacts x hx).env)
    have h2 := Step.SeqC.bind (R := ReprOff ctx T) (f := seqGo (sem ctx o2 :: semL ctx os))
      (g := fun x => enumC3Seq ctx (o2 :: os) x.1 x.2) h1 (fun x hx st' h' => by
        have hf := hfacts x hx
        exact seqGo_seqC3 env ctx hI lo (o2 :: os) (List.cons_ne_nil _ _) hs2 hw2 hn2 hcc2 (capsOf o ++ cl) T hsc.2
          x.1 x.2 st' hf.len (Nat.le_trans hlo hf.le) hf.env hf.dom h')
    refine h2.monoN (fun st' h' => ?_)
    rw [capsOfL, List.append_assoc]
    exact h'
termination_by structural ops => ops
end

/-! ### `enumC3` lists every path; a path only re-binds the groups of the tree -/

mutual
theorem enumC3_complete (env : Env) (ctx : Ctx) (hI : InputOK env ctx) : (op : Op) →
    straightCaps3 env ctx.caseBlind ctx.multiLine op = true → wfOp op = true →
    noEmptyAtoms op = true → clsCanon op →
    ∀ p e q e', p ≤ ctx.len → PathR ctx op p e q e' → (q, e') ∈ enumC3 ctx op p e
  | .bol, _, hwf, _, _, p, e, q, e', hp, h => by simp only [enumC3]; exact plain_complete ctx .bol rfl hwf hp h
  | .eol, _, hwf, _, _, p, e, q, e', hp, h => by simp only [enumC3]; exact plain_complete ctx .eol rfl hwf hp h
  | .nothing, _, hwf, _, _, p, e, q, e', hp, h => by
    simp only [enumC3]; exact plain_complete ctx .nothing rfl hwf hp h
  | .endProgram, _, hwf, _, _, p, e, q, e', hp, h => by
    simp only [enumC3]; exact plain_complete ctx .endProgram rfl hwf hp h
  | .atom cs, _, hwf, _, _, p, e, q, e', hp, h => by
    simp only [enumC3]; exact plain_complete ctx (.atom cs) rfl hwf hp h
  | .cls rs, _, hwf, _, _, p, e, q, e', hp, h => by
    simp only [enumC3]; exact plain_complete ctx (.cls rs) rfl hwf hp h
  | .choice bs, hs, hwf, _, _, p, e, q, e', hp, h => by
    simp only [enumC3]
    exact plain_complete ctx (.choice bs) (by simpa only [straightCaps3, plainOp] using hs) hwf hp h
  | .gfixed c mn mx l, hs, hwf, _, _, p, e, q, e', hp, h => by
    simp only [enumC3]
    exact plain_complete ctx (.gfixed c mn mx l) (by simpa only [straightCaps3, plainOp] using hs) hwf hp h
  | .rfixed c mn mx l, hs, hwf, _, _, p, e, q, e', hp, h => by
    simp only [enumC3]
    exact plain_complete ctx (.rfixed c mn mx l) (by simpa only [straightCaps3, plainOp] using hs) hwf hp h
  | .unamb _ _ _, hs, _, _, _, _, _, _, _, _, _ => by simp [straightCaps3] at hs
  | .rep id c mn mx g, hs, hwf, hne, hcc, p, e, q, e', hp, h => by
    simp only [enumC3]
    exact rep_complete env ctx hI id c mn mx g hs hwf hne hcc hp h
  | .backref g, _, _, _, _, p, e, q, e', _, h => by
    simp only [PathR] at h
    obtain ⟨rfl, h⟩ := h
    simp only [enumC3]
    cases hg : e' g with
    | none =>
      rw [hg] at h
      simp only [BackrefR] at h
      subst h
      simp
    | some ab =>
      obtain ⟨a, b⟩ := ab
      rw [hg] at h
      simp only [BackrefR] at h
      obtain ⟨rfl, h2, h3⟩ := h
      simp only
      rw [if_pos ⟨h2, h3⟩]
      simp
  | .capture g c, hs, hwf, hne, hcc, p, e, q, e', hp, h => by
    simp only [straightCaps3] at hs
    simp only [wfOp] at hwf
    simp only [noEmptyAtoms] at hne
    simp only [clsCanon] at hcc
    simp only [PathR] at h
    obtain ⟨e1, h1, rfl⟩ := h
    simp only [enumC3, List.mem_map]
    exact ⟨(q, e1), enumC3_complete env ctx hI c hs hwf hne hcc p e q e1 hp h1, rfl⟩
  | .seq ops, hs, hwf, hne, hcc, p, e, q, e', hp, h => by
    simp only [straightCaps3] at hs
    simp only [wfOp, Bool.and_eq_true] at hwf
    simp only [noEmptyAtoms] at hne
    simp only [clsCanon] at hcc
    simp only [PathR] at h
    simp only [enumC3]
    exact enumC3Seq_complete env ctx hI ops hs hwf.2 hne hcc p e q e' hp h
termination_by structural op => op
theorem enumC3Seq_complete (env : Env) (ctx : Ctx) (hI : InputOK env ctx) : (ops : List Op) →
    straightCaps3L env ctx.caseBlind ctx.multiLine ops = true → wfOps ops = true →
    noEmptyAtomsL ops = true → clsCanonL ops →
    ∀ p e q e', p ≤ ctx.len → PathRSeq ctx ops p e q e' → (q, e') ∈ enumC3Seq ctx ops p e
  | [], _, _, _, _, p, e, q, e', _, h => by
    simp only [PathRSeq] at h
    obtain ⟨rfl, rfl⟩ := h
    simp [enumC3Seq]
  | o :: os, hs, hwf, hne, hcc, p, e, q, e', hp, h => by
    simp only [straightCaps3L, Bool.and_eq_true] at hs
    simp only [wfOps, Bool.and_eq_true] at hwf
    simp only [noEmptyAtomsL, Bool.and_eq_true] at hne
    simp only [clsCanonL] at hcc
    simp only [PathRSeq] at h
    obtain ⟨m, e1, h1, h2⟩ := h
    simp only [enumC3Seq, List.mem_flatMap]
    exact ⟨(m, e1), enumC3_complete env ctx hI o hs.1 hwf.1 hne.1 hcc.1 p e m e1 hp h1,
      enumC3Seq_complete env ctx hI os hs.2 hwf.2 hne.2 hcc.2 m e1 q e' (PathR_bounds ctx o hp h1).2 h2⟩
termination_by structural ops => ops
end

mutual
/-- a path only re-binds the groups of the tree -/
theorem PathR_frame3 (env : Env) (cb ml : Bool) (ctx : Ctx) : (op : Op) → straightCaps3 env cb ml op = true →
    ∀ p e q e', PathR ctx op p e q e' → ∀ k, k ∉ capsOf op → e' k = e k
  | .bol, _, _, _, _, _, h, _, _ => by rw [plain_frame ctx .bol rfl h]
  | .eol, _, _, _, _, _, h, _, _ => by rw [plain_frame ctx .eol rfl h]
  | .nothing, _, _, _, _, _, h, _, _ => by rw [plain_frame ctx .nothing rfl h]
  | .endProgram, _, _, _, _, _, h, _, _ => by rw [plain_frame ctx .endProgram rfl h]
  | .atom cs, _, _, _, _, _, h, _, _ => by rw [plain_frame ctx (.atom cs) rfl h]
  | .cls rs, _, _, _, _, _, h, _, _ => by rw [plain_frame ctx (.cls rs) rfl h]
  | .choice bs, hs, _, _, _, _, h, _, _ => by
    rw [plain_frame ctx (.choice bs) (by simpa only [straightCaps3, plainOp] using hs) h]
  | .gfixed c mn mx l, hs, _, _, _, _, h, _, _ => by
    rw [plain_frame ctx (.gfixed c mn mx l) (by simpa only [straightCaps3, plainOp] using hs) h]
  | .rfixed c mn mx l, hs, _, _, _, _, h, _, _ => by
    rw [plain_frame ctx (.rfixed c mn mx l) (by simpa only [straightCaps3, plainOp] using hs) h]
  | .unamb _ _ _, hs, _, _, _, _, _, _, _ => by simp [straightCaps3] at hs
  | .rep id c mn mx g, hs, p, e, q, e', h, _, _ => by
    rw [((PathR_noCap ctx _ (rep3_split hs).2 p e q e').1 h).1]
  | .backref _, _, _, _, _, _, h, _, _ => by simp only [PathR] at h; rw [h.1]
  | .capture g c, hs, p, e, q, e', h, k, hk => by
    simp only [straightCaps3] at hs
    simp only [PathR] at h
    obtain ⟨e1, h1, rfl⟩ := h
    simp only [capsOf, List.mem_cons, not_or] at hk
    rw [CEnv.set_other _ _ _ _ _ hk.1]
    exact PathR_frame3 env cb ml ctx c hs p e q e1 h1 k hk.2
  | .seq ops, hs, p, e, q, e', h, k, hk => by
    simp only [straightCaps3] at hs
    simp only [PathR] at h
    simp only [capsOf] at hk
    exact PathRSeq_frame3 env cb ml ctx ops hs p e q e' h k hk
termination_by structural op => op
theorem PathRSeq_frame3 (env : Env) (cb ml : Bool) (ctx : Ctx) : (ops : List Op) →
    straightCaps3L env cb ml ops = true → ∀ p e q e',
    PathRSeq ctx ops p e q e' → ∀ k, k ∉ capsOfL ops → e' k = e k
  | [], _, _, _, _, _, h, _, _ => by simp only [PathRSeq] at h; rw [h.2]
  | o :: os, hs, p, e, q, e', h, k, hk => by
    simp only [straightCaps3L, Bool.and_eq_true] at hs
    simp only [PathRSeq] at h
    obtain ⟨m, e1, h1, h2⟩ := h
    simp only [capsOfL, List.mem_append, not_or] at hk
    rw [PathRSeq_frame3 env cb ml ctx os hs.2 m e1 q e' h2 k hk.2]
    exact PathR_frame3 env cb ml ctx o hs.1 p e m e1 h1 k hk.1
termination_by structural ops => ops
end

end Rx
