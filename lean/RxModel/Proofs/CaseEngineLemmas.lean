/-
  Proofs/CaseEngineLemmas — helpers for Props/C11c (case invariance of the ENGINE's answers on the
  fragments where the engine is proved complete):
    * two generic "agreement" lemmas: two searches that each report (least start with a match, head
      of the enumeration from it) agree as soon as the languages and the enumeration heads agree;
    * the exact comparison implies the case-blind one (monotonicity in flag i for a fixed tree).
-/
import RxModel.Props.C11b
import RxModel.Props.Clean2Complete
namespace Rx.CaseE
open Rx Rx.C11b Rx.SearchComplete

/-! ### agreement of two searches -/

/-- what `clean_match_is_leftmost_first` / `clean2_match_is_leftmost_first` say of a final state:
    group 0 is `(j, n)`, `j` the least start `≥ i` with a member of the language `L`, `n` the head of
    the enumeration `e` from `j` -/
def Reports (L : Nat → Nat → Prop) (e : Nat → List Nat) (i : Nat) (st : St) : Prop :=
  ∃ j n, getParenStart st 0 = some j ∧ getParenEnd st 0 = some n ∧ (e j).head? = some n ∧ i ≤ j ∧
    L j n ∧ ∀ k q, i ≤ k → k < j → ¬ L k q

theorem Reports.agree {L1 L2 : Nat → Nat → Prop} {e1 e2 : Nat → List Nat} {i : Nat} {s1 s2 : St}
    (hL : ∀ p q, L1 p q ↔ L2 p q) (he : ∀ j, (e1 j).head? = (e2 j).head?)
    (h1 : Reports L1 e1 i s1) (h2 : Reports L2 e2 i s2) :
    getParenStart s1 0 = getParenStart s2 0 ∧ getParenEnd s1 0 = getParenEnd s2 0 := by
  obtain ⟨j1, n1, hs1, he1, hh1, hi1, hm1, hmin1⟩ := h1
  obtain ⟨j2, n2, hs2, he2, hh2, hi2, hm2, hmin2⟩ := h2
  have hj : j1 = j2 := by
    rcases Nat.lt_trichotomy j1 j2 with h | h | h
    · exact absurd ((hL j1 n1).1 hm1) (hmin2 j1 n1 hi1 h)
    · exact h
    · exact absurd ((hL j2 n2).2 hm2) (hmin1 j2 n2 hi2 h)
  subst hj
  have hn : n1 = n2 := by
    rw [he j1, hh2] at hh1
    exact (Option.some.inj hh1).symm
  subst hn
  exact ⟨hs1.trans hs2.symm, he1.trans he2.symm⟩

/-- two `is_match` calls that each answer `.ok` of "some span is in the language" agree when the
    languages and the input lengths agree -/
theorem isMatch_agree {L1 L2 : Nat → Nat → Prop} {n1 n2 : Nat} {r1 r2 : Out Bool}
    (hL : ∀ p q, L1 p q ↔ L2 p q) (hn : n1 = n2)
    (h1 : ∃ b, r1 = .ok b ∧ (b = true ↔ ∃ j q, j ≤ n1 ∧ L1 j q))
    (h2 : ∃ b, r2 = .ok b ∧ (b = true ↔ ∃ j q, j ≤ n2 ∧ L2 j q)) : r1 = r2 := by
  obtain ⟨b1, hb1, hi1⟩ := h1
  obtain ⟨b2, hb2, hi2⟩ := h2
  subst hn
  have : b1 = b2 := by
    rw [Bool.eq_iff_iff, hi1, hi2]
    constructor
    · rintro ⟨j, q, a, b⟩; exact ⟨j, q, a, (hL j q).1 b⟩
    · rintro ⟨j, q, a, b⟩; exact ⟨j, q, a, (hL j q).2 b⟩
  rw [hb1, hb2, this]

/-- two `matches(i)` Booleans, each "some start `≥ i` has a member", agree likewise -/
theorem found_agree {L1 L2 : Nat → Nat → Prop} {n1 n2 i : Nat} {b1 b2 : Bool}
    (hL : ∀ p q, L1 p q ↔ L2 p q) (hn : n1 = n2)
    (h1 : b1 = true ↔ ∃ j q, i ≤ j ∧ j ≤ n1 ∧ L1 j q)
    (h2 : b2 = true ↔ ∃ j q, i ≤ j ∧ j ≤ n2 ∧ L2 j q) : b1 = b2 := by
  subst hn
  rw [Bool.eq_iff_iff, h1, h2]
  constructor
  · rintro ⟨j, q, a, b, c⟩; exact ⟨j, q, a, b, (hL j q).1 c⟩
  · rintro ⟨j, q, a, b, c⟩; exact ⟨j, q, a, b, (hL j q).2 c⟩

/-! ### programs built from clean trees -/

theorem shape2_of_cleanOp (op : Op) (hc : cleanOp op = true) : shape2 op = true :=
  Clean2.cleanOp2_shape Env.std false false op (Clean2.cleanOp2_of_cleanOp Env.std false false op hc)

/-- the main tree of a program built from a clean tree is that tree -/
theorem mkProgram_op_clean (pat : List Nat) (op : Op) (mp : Nat) (fl : CFlags) (hb : Bool)
    (hc : cleanOp op = true) : (mkProgram pat op mp fl hb).op = op :=
  mkProgram_op_shape2 pat op mp fl hb (shape2_of_cleanOp op hc)

/-- the matcher context depends on the flags and `max_parens` only -/
theorem ctx_eq' (pat pat' : List Nat) (op op' : Op) (mp : Nat) (fl : CFlags) (hb : Bool)
    (lower : Nat → Nat) (input : List Nat) :
    (mkProgram pat op mp fl hb).ctx lower input = (mkProgram pat' op' mp fl hb).ctx lower input := by
  obtain ⟨_, a1, a2, a3, a4, _⟩ := mkProgram_shape pat op mp fl hb
  obtain ⟨_, b1, b2, b3, b4, _⟩ := mkProgram_shape pat' op' mp fl hb
  unfold Prog.ctx
  rw [a1, a2, a3, a4, b1, b2, b3, b4]

/-! ### monotonicity in flag i, for a fixed tree -/

/-- the exact comparison implies the case-blind one -/
theorem prefixMatch_mono_i (ctx : Ctx) (hcb : ctx.caseBlind = false) (cs xs : List Nat)
    (h : prefixMatch ctx cs xs = true) : prefixMatch { ctx with caseBlind := true } cs xs = true := by
  induction cs generalizing xs with
  | nil => simp [prefixMatch]
  | cons c cs ih =>
    cases xs with
    | nil => simp [prefixMatch] at h
    | cons x xs =>
      simp only [prefixMatch, Ctx.eqAt, hcb, Bool.false_eq_true, if_false, Bool.and_eq_true] at h
      simp only [prefixMatch, Ctx.eqAt, if_true, Bool.and_eq_true, eqCB, Bool.or_eq_true]
      exact ⟨.inl h.1, ih xs h.2⟩

end Rx.CaseE
