/-
  Proofs/ApiGenericLemmas — Proofs/ApiCompleteLemmas (from `firstSpan` on), PARAMETRIC in the enumerator's head:
  a verbatim copy in which `(enum2 ctx op j).head?` is the field `hd` of the class `HeadFn`
  (instance-implicit, so that the copied statements and proofs are unchanged).  `outcome_firstSpan` and
  `findOK_of_outcome` take as hypotheses the three facts the development needs about the head:
  the `Outcome` of every search, "no member ⇒ no head", and "the reported span ends at the head".
-/
import RxModel.Proofs.ApiCompleteLemmas
namespace Rx.ApiGeneric
open Rx Rx.SearchComplete Rx.Spec
open Rx.C08 (noEmptyAtoms)
open Rx.ApiComplete hiding firstSpan spansFrom spansFrom_cons spansFrom_none spansFrom_ge FindOK outcome_firstSpan findOK_of_clean2 FindOK.goodFind PostMatch spansOf_map spansOf_eq tokenLoop_spec tokenLoop_total spansFrom_ordered grp0 Dep0 dollar0Only dep0_of_dollar0Only expandSpec_plain dep0_of_plain expandSpec_dollar0 dep0_dollar0 replText getParen_post subst_post replaceLoop_spec replaced_const' replaced_self' AInv analyzeNext_step analyzeLoop_total AInv.init processMatch_cases replaceLoop_total entries_text' 

/-- the head of the priority enumeration of ends, as a parameter -/
class HeadFn where
  hd : Ctx → Op → Nat → Option Nat

variable [HeadFn]

-- the copied lemmas that do not mention the head keep an (unused) instance argument
set_option linter.unusedSectionVars false


/-- the least start `≥ pos` (inside the input) from which the priority enumeration `enum2` is
    non-empty, paired with the head of that enumeration -/
def firstSpan (ctx : Ctx) (op : Op) (pos : Nat) : Option (Nat × Nat) :=
  firstFrom (fun j => HeadFn.hd ctx op j) (ctx.len + 1 - pos) pos

/-- search from `pos`, then from the end of each span (the shape of `C04.spansOf`, without states) -/
def spansFrom (ctx : Ctx) (op : Op) : (fuel : Nat) → (pos : Nat) → List (Nat × Nat)
  | 0, _ => []
  | f+1, pos =>
    if pos < ctx.len then
      match firstSpan ctx op pos with
      | some (a, b) => (a, b) :: spansFrom ctx op f b
      | none => []
    else []

theorem spansFrom_cons (ctx : Ctx) (op : Op) (f pos a b : Nat) (hlt : pos < ctx.len)
    (h : firstSpan ctx op pos = some (a, b)) :
    spansFrom ctx op (f + 1) pos = (a, b) :: spansFrom ctx op f b := by
  rw [spansFrom, if_pos hlt, h]

theorem spansFrom_none (ctx : Ctx) (op : Op) (f pos : Nat) (h : firstSpan ctx op pos = none) :
    spansFrom ctx op f pos = [] := by
  cases f with
  | zero => rfl
  | succ f =>
    rw [spansFrom]
    split
    · rw [h]
    · rfl

theorem spansFrom_ge (ctx : Ctx) (op : Op) (f pos : Nat) (h : ¬ pos < ctx.len) :
    spansFrom ctx op f pos = [] := by
  cases f with
  | zero => rfl
  | succ f => rw [spansFrom, if_neg h]

/-! ## what one `matches(pos)` does -/

/-- one search of a NON-NULLABLE program of the fragment, from a clean state: it succeeds exactly when
    `firstSpan` is defined, reports that span (non-empty), stays clean, leaves `parenCount ≥ 1` -/
structure FindOK (ctx : Ctx) (pr : Prog) : Prop where
  step : ∀ pos st, pos ≤ ctx.len → st.panic = none →
    (∃ st' j n, matchesFrom ctx pr pos st = (true, st') ∧ st'.panic = none ∧
        firstSpan ctx pr.op pos = some (j, n) ∧
        getParenStart st' 0 = some j ∧ getParenEnd st' 0 = some n ∧ pos ≤ j ∧ j < n ∧ n ≤ ctx.len ∧
        1 ≤ st'.cap.parenCount ∧ (hasCapNode pr.op = false → st'.cap.parenCount = 1)) ∨
    (∃ st', matchesFrom ctx pr pos st = (false, st') ∧ st'.panic = none ∧ firstSpan ctx pr.op pos = none)
  /-- what `firstSpan` means in terms of the language -/
  sem : ∀ pos, pos ≤ ctx.len →
    (∀ j n, firstSpan ctx pr.op pos = some (j, n) →
      OpR ctx pr.op j n ∧ ∀ k q, pos ≤ k → k < j → ¬ OpR ctx pr.op k q) ∧
    (firstSpan ctx pr.op pos = none → ∀ k q, pos ≤ k → k ≤ ctx.len → ¬ OpR ctx pr.op k q)

/-- an `Outcome`, read through `firstSpan` -/
theorem outcome_firstSpan {ctx : Ctx} {o : Op} (hwf : wfOp o = true) (hcp : C02.capsPos o = true)
    (hsound : ∀ k, k ≤ ctx.len → (¬ ∃ q, OpR ctx o k q) → HeadFn.hd ctx o k = none)
    (hspan : ∀ {i : Nat} {r : Bool × St}, Outcome ctx o i r → r.1 = true →
      ∃ j n, getParenStart r.2 0 = some j ∧ getParenEnd r.2 0 = some n ∧
        HeadFn.hd ctx o j = some n ∧ i ≤ j ∧ j ≤ n ∧ n ≤ ctx.len ∧ OpR ctx o j n ∧
        ∀ k q, i ≤ k → k < j → ¬ OpR ctx o k q)
    (hnz : ∀ j, ¬ OpR ctx o j j)
    {pos : Nat} (hpos : pos ≤ ctx.len) {r : Bool × St} (h : Outcome ctx o pos r) :
    (∃ j n, r.1 = true ∧ r.2.panic = none ∧ firstSpan ctx o pos = some (j, n) ∧
        getParenStart r.2 0 = some j ∧ getParenEnd r.2 0 = some n ∧ pos ≤ j ∧ j < n ∧ n ≤ ctx.len ∧
        1 ≤ r.2.cap.parenCount ∧ (hasCapNode o = false → r.2.cap.parenCount = 1) ∧
        OpR ctx o j n ∧ (∀ k q, pos ≤ k → k < j → ¬ OpR ctx o k q)) ∨
    (r.1 = false ∧ r.2.panic = none ∧ firstSpan ctx o pos = none ∧
      ∀ k q, pos ≤ k → k ≤ ctx.len → ¬ OpR ctx o k q) := by
  rcases h.2 with ⟨ht, j, stj, h1, h2, _, hmin, hma⟩ | ⟨hf, hno⟩
  · left
    obtain ⟨j', n, hs0, he, hh, a1, a2, a3, a4, a5⟩ := hspan h ht
    have hjj : j' = j := by
      obtain ⟨b, st'⟩ := r
      simp only at ht
      subst ht
      have := (C02.matchAt_span ctx o hwf hcp j h2 stj st' hma).1
      rw [this] at hs0
      exact (Option.some.inj hs0).symm
    subst hjj
    have hpc : 1 ≤ r.2.cap.parenCount ∧ (hasCapNode o = false → r.2.cap.parenCount = 1) := by
      obtain ⟨b, st'⟩ := r
      simp only at ht
      subst ht
      exact matchAt_pc ctx o hwf j' h2 stj st' hma
    refine ⟨j', n, ht, h.1, ?_, hs0, he, a1, ?_, a3, hpc.1, hpc.2, a4, a5⟩
    · unfold firstSpan
      apply firstFrom_eq_some _ _ _ _ _ a1 (by omega) hh
      intro k hk1 hk2
      exact hsound k (by omega) (fun ⟨q, hq⟩ => a5 k q hk1 hk2 hq)
    · rcases Nat.lt_or_ge j' n with hlt | hge
      · exact hlt
      · have : j' = n := by omega
        subst this
        exact absurd a4 (hnz j')
  · right
    refine ⟨hf, h.1, ?_, fun k q hk1 hk2 hq => hno k hk1 hk2 ⟨q, hq⟩⟩
    unfold firstSpan
    apply firstFrom_eq_none
    intro k hk1 hk2
    exact hsound k (by omega) (hno k hk1 (by omega))

/-- a matcher whose every search has the right `Outcome`, over a language without zero-length members,
    with a sound head that the reported spans end at, satisfies `FindOK` -/
theorem findOK_of_outcome {ctx : Ctx} {pr : Prog} (hwf : wfOp pr.op = true) (hcp : C02.capsPos pr.op = true)
    (hsound : ∀ k, k ≤ ctx.len → (¬ ∃ q, OpR ctx pr.op k q) → HeadFn.hd ctx pr.op k = none)
    (hspan : ∀ {i : Nat} {r : Bool × St}, Outcome ctx pr.op i r → r.1 = true →
      ∃ j n, getParenStart r.2 0 = some j ∧ getParenEnd r.2 0 = some n ∧
        HeadFn.hd ctx pr.op j = some n ∧ i ≤ j ∧ j ≤ n ∧ n ≤ ctx.len ∧ OpR ctx pr.op j n ∧
        ∀ k q, i ≤ k → k < j → ¬ OpR ctx pr.op k q)
    (hnz : ∀ j, ¬ OpR ctx pr.op j j)
    (hout : ∀ pos st, pos ≤ ctx.len → st.panic = none → Outcome ctx pr.op pos (matchesFrom ctx pr pos st)) :
    FindOK ctx pr := by
  constructor
  · intro pos st hpos hst
    have ho := hout pos st hpos hst
    rcases outcome_firstSpan hwf hcp hsound hspan hnz hpos ho with
      ⟨j, n, a1, a2, a3, a4, a5, a6, a7, a8, a9, a10, _⟩ | ⟨a1, a2, a3, _⟩
    · left
      exact ⟨_, j, n, Prod.ext a1 rfl, a2, a3, a4, a5, a6, a7, a8, a9, a10⟩
    · right
      exact ⟨_, Prod.ext a1 rfl, a2, a3⟩
  · intro pos hpos
    have ho := hout pos {} hpos rfl
    rcases outcome_firstSpan hwf hcp hsound hspan hnz hpos ho with
      ⟨j, n, _, _, a3, _, _, _, _, _, _, _, b1, b2⟩ | ⟨_, _, a3, b1⟩
    · refine ⟨fun j' n' h' => ?_, fun h' => ?_⟩
      · rw [a3] at h'
        simp only [Option.some.injEq, Prod.mk.injEq] at h'
        obtain ⟨rfl, rfl⟩ := h'
        exact ⟨b1, b2⟩
      · rw [a3] at h'; cases h'
    · refine ⟨fun j' n' h' => ?_, fun _ => b1⟩
      rw [a3] at h'; cases h'

/-! ## the scan loops over a matcher satisfying `FindOK` -/

section loops
variable {pr : Prog} {lower : Nat → Nat} {input : List Nat}

/-- `FindOK` gives the hypothesis of the C04 theorems -/
theorem FindOK.goodFind (F : FindOK (pr.ctx lower input) pr) :
    C04.GoodFind (pr.matcher lower input) input.length (fun st => st.panic = none) := by
  constructor
  intro st pos st' m hinv hpos hfind hfailed
  refine ⟨hfailed, fun hm => ?_⟩
  subst hm
  have hfind' : matchesFrom (pr.ctx lower input) pr pos st = (true, st') := hfind
  rcases F.step pos st hpos hinv with ⟨st2, j, n, he, _, _, a4, a5, a6, a7, a8, _⟩ | ⟨st2, he, _⟩
  · rw [hfind'] at he
    simp only [Prod.mk.injEq, true_and] at he
    subst he
    exact ⟨j, n, a4, a5, a6, a7, a8⟩
  · rw [hfind'] at he; cases he

/-- what holds of the state in which a span was found -/
structure PostMatch (pr : Prog) (input : List Nat) (st : St) (j n : Nat) : Prop where
  clean : st.panic = none
  start0 : getParenStart st 0 = some j
  end0 : getParenEnd st 0 = some n
  lt : j < n
  le : n ≤ input.length
  pc : 1 ≤ st.cap.parenCount
  pc1 : hasCapNode pr.op = false → st.cap.parenCount = 1

/-- **the scan sees exactly the semantic spans** (with any data computed from the state of a match
    that is determined by the span) -/
theorem spansOf_map (F : FindOK (pr.ctx lower input) pr) {α : Type}
    (f : St → Nat → Nat → α) (g : Nat → Nat → α)
    (hfg : ∀ st j n, PostMatch pr input st j n → f st j n = g j n) :
    ∀ (k pos : Nat) (st : St), st.panic = none → pos ≤ input.length →
      (C04.spansOf (pr.matcher lower input) input.length k pos st).map (fun x => (x.1, x.2.1, f x.2.2 x.1 x.2.1)) =
      (spansFrom (pr.ctx lower input) pr.op k pos).map (fun y => (y.1, y.2, g y.1 y.2)) := by
  intro k
  induction k with
  | zero => intro pos st _ _; rfl
  | succ k ih =>
    intro pos st hst hpos
    have hlen : (pr.ctx lower input).len = input.length := rfl
    by_cases hlt : pos < input.length
    · have hfind : (pr.matcher lower input).find st pos = matchesFrom (pr.ctx lower input) pr pos st := rfl
      rcases F.step pos st hpos hst with ⟨st', j, n, he, a2, a3, a4, a5, a6, a7, a8, a9, a10⟩ | ⟨st', he, _, a3⟩
      · rw [C04.spansOf_true _ _ _ _ j n st st' hlt (hfind.trans he) a4 a5]
        rw [spansFrom_cons _ _ _ _ j n hlt a3]
        simp only [List.map_cons]
        rw [ih n st' a2 a8, hfg st' j n ⟨a2, a4, a5, a7, a8, a9, a10⟩]
      · rw [C04.spansOf_false _ _ _ _ st st' (hfind.trans he), spansFrom_none _ _ _ _ a3]
        rfl
    · rw [C04.spansOf_ge _ _ _ _ _ hlt, spansFrom_ge _ _ _ _ hlt]
      rfl

theorem spansOf_eq (F : FindOK (pr.ctx lower input) pr) (k pos : Nat) (st : St)
    (hst : st.panic = none) (hpos : pos ≤ input.length) :
    C04.spanPairs (C04.spansOf (pr.matcher lower input) input.length k pos st) =
      spansFrom (pr.ctx lower input) pr.op k pos := by
  have := spansOf_map F (fun _ _ _ => ()) (fun _ _ => ()) (fun _ _ _ _ => rfl) k pos st hst hpos
  have h2 := congrArg (List.map (fun x : Nat × Nat × Unit => (x.1, x.2.1))) this
  simpa only [C04.spanPairs, List.map_map, Function.comp_def, List.map_id'] using h2

/-! ### tokenize -/

/-- the token loop is total and yields exactly the pieces between the semantic spans -/
theorem tokenLoop_spec (F : FindOK (pr.ctx lower input) pr) :
    ∀ (l k pe : Nat) (st : St) (acc : List (List Nat)), st.panic = none → pe ≤ input.length →
      input.length - pe + 1 ≤ l → input.length - pe ≤ k →
      tokenLoop (pr.matcher lower input) input l (some pe) st acc =
        .ok (acc ++ pieces input pe (spansFrom (pr.ctx lower input) pr.op k pe), false) := by
  intro l
  induction l with
  | zero => intro k pe st acc _ _ hl; omega
  | succ l ih =>
    intro k pe st acc hst hpe hl hk
    have hlen : (pr.ctx lower input).len = input.length := rfl
    have hfind : (pr.matcher lower input).find st pe = matchesFrom (pr.ctx lower input) pr pe st := rfl
    unfold tokenLoop
    simp only [tokenNext, hfind]
    rcases F.step pe st hpe hst with ⟨st', j, n, he, a2, a3, a4, a5, a6, a7, a8, _⟩ | ⟨st', he, a2, a3⟩
    · have hf : (pr.matcher lower input).failed st' = none := a2
      have hs0 : (pr.matcher lower input).start0 st' = some j := a4
      have he0 : (pr.matcher lower input).end0 st' = some n := a5
      have hnlt : ¬ j < pe := by omega
      simp only [he, hf, hs0, he0, hnlt, if_false]
      obtain ⟨k', rfl⟩ : ∃ k', k = k' + 1 := ⟨k - 1, by omega⟩
      rw [ih k' n st' _ a2 a8 (by omega) (by omega)]
      have hlt : pe < input.length := by omega
      rw [spansFrom_cons _ _ _ _ j n hlt a3]
      simp only [pieces, List.append_assoc, List.singleton_append]
    · have hf : (pr.matcher lower input).failed st' = none := a2
      simp only [he, hf, C04.tokenLoop_none]
      rw [spansFrom_none _ _ _ _ a3]
      simp only [pieces]

/-- … and total for every limit -/
theorem tokenLoop_total (F : FindOK (pr.ctx lower input) pr) :
    ∀ (l : Nat) (pe : Option Nat) (st : St) (acc : List (List Nat)), st.panic = none →
      (∀ p, pe = some p → p ≤ input.length) →
      ∃ toks more, tokenLoop (pr.matcher lower input) input l pe st acc = .ok (toks, more) := by
  intro l
  induction l with
  | zero =>
    intro pe st acc hst hpe
    cases pe with
    | none => exact ⟨acc, false, C04.tokenLoop_none _ _ _ _ _⟩
    | some p =>
      have hfind : (pr.matcher lower input).find st p = matchesFrom (pr.ctx lower input) pr p st := rfl
      unfold tokenLoop
      simp only [tokenNext, hfind]
      rcases F.step p st (hpe p rfl) hst with ⟨st', j, n, he, a2, a3, a4, a5, a6, a7, a8, _⟩ | ⟨st', he, a2, a3⟩
      · have hf : (pr.matcher lower input).failed st' = none := a2
        have hs0 : (pr.matcher lower input).start0 st' = some j := a4
        have hnlt : ¬ j < p := by omega
        simp only [he, hf, hs0, hnlt, if_false]
        exact ⟨_, _, rfl⟩
      · have hf : (pr.matcher lower input).failed st' = none := a2
        simp only [he, hf]
        exact ⟨_, _, rfl⟩
  | succ l ih =>
    intro pe st acc hst hpe
    cases pe with
    | none => exact ⟨acc, false, C04.tokenLoop_none _ _ _ _ _⟩
    | some p =>
      have hfind : (pr.matcher lower input).find st p = matchesFrom (pr.ctx lower input) pr p st := rfl
      unfold tokenLoop
      simp only [tokenNext, hfind]
      rcases F.step p st (hpe p rfl) hst with ⟨st', j, n, he, a2, a3, a4, a5, a6, a7, a8, _⟩ | ⟨st', he, a2, a3⟩
      · have hf : (pr.matcher lower input).failed st' = none := a2
        have hs0 : (pr.matcher lower input).start0 st' = some j := a4
        have he0 : (pr.matcher lower input).end0 st' = some n := a5
        have hnlt : ¬ j < p := by omega
        simp only [he, hf, hs0, he0, hnlt, if_false]
        exact ih (some n) st' _ a2 (fun q hq => by cases hq; exact a8)
      · have hf : (pr.matcher lower input).failed st' = none := a2
        simp only [he, hf]
        exact ih none st' _ a2 (fun q hq => by cases hq)

/-- the span sequence is strictly left to right, non-empty spans, inside the input -/
theorem spansFrom_ordered (F : FindOK (pr.ctx lower input) pr) :
    ∀ (k pos : Nat), pos ≤ input.length →
      C04.Ordered input.length pos (spansFrom (pr.ctx lower input) pr.op k pos) := by
  intro k
  induction k with
  | zero => intro pos _; exact trivial
  | succ k ih =>
    intro pos hpos
    have hlen : (pr.ctx lower input).len = input.length := rfl
    by_cases hlt : pos < input.length
    · rcases F.step pos {} hpos rfl with ⟨st', j, n, _, _, a3, _, _, a6, a7, a8, _⟩ | ⟨st', _, _, a3⟩
      · rw [spansFrom_cons _ _ _ _ j n hlt a3]
        exact ⟨a6, a7, a8, ih n a8⟩
      · rw [spansFrom_none _ _ _ _ a3]; exact trivial
    · rw [spansFrom_ge _ _ _ _ hlt]; exact trivial

/-! ### replace -/

/-- the groups as seen by a replacement string that only refers to the whole match -/
def grp0 (input : List Nat) (j n : Nat) : Nat → Option (List Nat) :=
  fun g => if g = 0 then some (slice input j n) else none

/-- the replacement string is well formed and its expansion depends on group 0 only
    (no `$N` with `N ≥ 1`); holds of every plain replacement, of `$0`, and is implied by the
    decidable `dollar0Only` -/
def Dep0 (mc : Nat) (repl : List Nat) : Prop :=
  ∀ grp grp' : Nat → Option (List Nat), grp 0 = grp' 0 →
    expandSpec mc grp repl = expandSpec mc grp' repl ∧ (expandSpec mc grp repl).isSome = true

/-- decidable: well formed, and every group reference is `$0` -/
def dollar0Only (mc : Nat) (repl : List Nat) : Bool :=
  match tokens mc (repl.length + 1) repl with
  | some ts => ts.all (fun t => match t with | .lit _ => true | .group n => n == 0)
  | none => false

theorem dep0_of_dollar0Only (mc : Nat) (repl : List Nat) (h : dollar0Only mc repl = true) : Dep0 mc repl := by
  intro grp grp' h0
  unfold dollar0Only at h
  unfold expandSpec
  cases ht : tokens mc (repl.length + 1) repl with
  | none => rw [ht] at h; cases h
  | some ts =>
    rw [ht] at h
    simp only [List.all_eq_true] at h
    refine ⟨?_, rfl⟩
    simp only [Option.map_some, Option.some.injEq]
    congr 1
    apply List.map_congr_left
    intro t htm
    have := h t htm
    cases t with
    | lit c => rfl
    | group n =>
      simp only [beq_iff_eq] at this
      subst this
      simp only [tokText, h0]

theorem expandSpec_plain (mc : Nat) (grp : Nat → Option (List Nat)) (repl : List Nat)
    (h : plainRepl repl = true) : expandSpec mc grp repl = some repl := by
  rw [← C15.expand_spec, C15.expand_plain mc grp repl h]; rfl

theorem dep0_of_plain (mc : Nat) (repl : List Nat) (h : plainRepl repl = true) : Dep0 mc repl := by
  intro grp grp' _
  rw [expandSpec_plain mc grp repl h, expandSpec_plain mc grp' repl h]
  exact ⟨rfl, rfl⟩

theorem expandSpec_dollar0 (mc : Nat) (grp : Nat → Option (List Nat)) :
    expandSpec mc grp [36, 48] = some ((grp 0).getD []) := by
  rw [← C15.expand_spec, C15.expand_dollar0]

theorem dep0_dollar0 (mc : Nat) : Dep0 mc [36, 48] := by
  intro grp grp' h0
  rw [expandSpec_dollar0, expandSpec_dollar0, h0]
  exact ⟨rfl, rfl⟩

/-- the text a match `[j, n)` is replaced by -/
def replText (pr : Prog) (input repl : List Nat) (j n : Nat) : List Nat :=
  if pr.literal then repl else (expandSpec (pr.maxParens - 1) (grp0 input j n) repl).getD []

theorem getParen_post {st : St} {j n : Nat} (h : PostMatch pr input st j n) :
    getParen input st 0 = some (slice input j n) := by
  unfold getParen
  rw [if_pos (show 0 < st.cap.parenCount from h.pc), h.start0, h.end0]

/-- the substitution in the state of a match -/
theorem subst_post (repl : List Nat) (hmp : pr.maxParens ≠ 0) (hd : Dep0 (pr.maxParens - 1) repl)
    {st : St} {j n : Nat} (h : PostMatch pr input st j n) (simple : Bool)
    (h1 : pr.literal = true → simple = true)
    (h2 : simple = true → pr.literal = true ∨ plainRepl repl = true) :
    ∃ s', pr.subst input repl st simple = some (replText pr input repl j n, s') ∧
      (pr.literal = true → s' = true) ∧ (s' = true → pr.literal = true ∨ plainRepl repl = true) := by
  cases simple with
  | true =>
    refine ⟨true, ?_, fun _ => rfl, fun _ => h2 rfl⟩
    simp only [Prog.subst, if_true]
    unfold replText
    rcases h2 rfl with hl | hp
    · rw [hl]; rfl
    · cases hlit : pr.literal with
      | true => rfl
      | false =>
        simp only [Bool.false_eq_true, if_false]
        rw [expandSpec_plain _ _ _ hp]; rfl
  | false =>
    have hl : pr.literal = false := by
      cases hlit : pr.literal with
      | false => rfl
      | true => exact absurd (h1 hlit) (by decide)
    have hmp' : (pr.maxParens == 0) = false := by simp [hmp]
    simp only [Prog.subst, Bool.false_eq_true, if_false, hmp']
    have hg : getParen input st 0 = grp0 input j n 0 := by
      rw [getParen_post h]; rfl
    obtain ⟨hc, hs⟩ := hd (getParen input st) (grp0 input j n) hg
    have hspec := C15.expand_spec (pr.maxParens - 1) (getParen input st) repl
    cases he : expand (pr.maxParens - 1) (getParen input st) repl with
    | none =>
      rw [he] at hspec
      rw [← hspec] at hs
      cases hs
    | some ts =>
      obtain ⟨t, s'⟩ := ts
      rw [he] at hspec
      simp only [Option.map_some] at hspec
      refine ⟨s', ?_, (fun hlt => by rw [hl] at hlt; cases hlt), fun hs' => ?_⟩
      · unfold replText
        simp only [hl, Bool.false_eq_true, if_false]
        rw [← hc, ← hspec]; rfl
      · subst hs'
        exact .inr (C15.latch_sound _ _ _ _ he).1

/-- the replace loop is total and equals its specification over the semantic spans -/
theorem replaceLoop_spec (F : FindOK (pr.ctx lower input) pr) (repl : List Nat)
    (hmp : pr.maxParens ≠ 0) (hd : Dep0 (pr.maxParens - 1) repl) :
    ∀ (f pos : Nat) (st : St) (first simple : Bool) (acc : List Nat),
    st.panic = none → pos ≤ input.length → input.length + 1 ≤ f + pos →
    (first = true → acc = [] ∧ pos = 0) →
    (first = false → pr.literal = true → simple = true) →
    (first = false → simple = true → pr.literal = true ∨ plainRepl repl = true) →
    replaceLoop (pr.matcher lower input) (pr.subst input repl) input pr.literal f pos st first simple acc =
      .ok (acc ++ replaced input pos
        ((spansFrom (pr.ctx lower input) pr.op f pos).map (fun x => (x.1, x.2, replText pr input repl x.1 x.2)))) := by
  intro f
  induction f with
  | zero => intro pos st first simple acc _ hp hf; omega
  | succ f ih =>
    intro pos st first simple acc hst hp hf hfirst hs1 hs2
    have hlen : (pr.ctx lower input).len = input.length := rfl
    unfold replaceLoop
    by_cases hlt : pos < input.length
    · simp only [hlt, if_true]
      have hfind : (pr.matcher lower input).find st pos = matchesFrom (pr.ctx lower input) pr pos st := rfl
      rw [hfind]
      rcases F.step pos st hp hst with ⟨st', j, n, he, a2, a3, a4, a5, a6, a7, a8, a9, a10⟩ | ⟨st', he, a2, a3⟩
      · have hfl : (pr.matcher lower input).failed st' = none := a2
        have hs0 : (pr.matcher lower input).start0 st' = some j := a4
        have he0 : (pr.matcher lower input).end0 st' = some n := a5
        have hnlt : ¬ j < pos := by omega
        have hne : (n == pos) = false := by simp; omega
        have PM : PostMatch pr input st' j n := ⟨a2, a4, a5, a7, a8, a9, a10⟩
        obtain ⟨s', hsub, b1, b2⟩ := subst_post repl hmp hd PM (if first = true then pr.literal else simple)
          (by
            intro hl
            cases first with
            | true => simpa using hl
            | false => simpa using hs1 rfl hl)
          (by
            intro hsim
            cases first with
            | true => left; simpa using hsim
            | false => exact hs2 rfl (by simpa using hsim))
        simp only [he, hfl, hs0, he0, hnlt, if_false, hsub, hne, Bool.false_eq_true]
        rw [ih n st' false s' _ a2 a8 (by omega) (by simp) (fun _ hl => b1 hl) (fun _ hs' => b2 hs')]
        rw [spansFrom_cons _ _ _ _ j n hlt a3]
        simp only [List.map_cons, replaced, List.append_assoc]
      · have hfl : (pr.matcher lower input).failed st' = none := a2
        simp only [he, hfl, C04.first_end input acc pos first hfirst]
        rw [spansFrom_none _ _ _ _ a3]
        simp only [List.map_nil, replaced]
    · simp only [hlt, if_false, C04.first_end input acc pos first hfirst]
      rw [spansFrom_ge _ _ _ _ hlt]
      simp only [List.map_nil, replaced]

/-- a replacement that is the same text for every span: the pieces joined by it -/
theorem replaced_const' (input R : List Nat) : ∀ (l : List (Nat × Nat)) (pos : Nat),
    replaced input pos (l.map (fun x => (x.1, x.2, R))) = joinWith R (pieces input pos l)
  | [], pos => by simp [replaced, pieces, joinWith]
  | (a, b) :: rest, pos => by
    have ih := replaced_const' input R rest b
    obtain ⟨t, ts, e⟩ := C04.pieces_ne_nil input rest b
    simp only [List.map_cons, replaced, pieces, ih, e, joinWith]

/-- replacing every span by its own text gives the input back -/
theorem replaced_self' (input : List Nat) (len : Nat) : ∀ (l : List (Nat × Nat)) (pos : Nat),
    C04.Ordered len pos l →
    replaced input pos (l.map (fun x => (x.1, x.2, slice input x.1 x.2))) = input.drop pos
  | [], pos, _ => by simp [replaced]
  | (a, b) :: rest, pos, ho => by
    obtain ⟨h1, h2, _, h4⟩ := ho
    have ih := replaced_self' input len rest b h4
    simp only [List.map_cons, replaced, ih, List.append_assoc]
    exact C04.slice_slice_drop input pos a b h1 (by omega)

/-! ### analyze -/

/-- the invariant of the analyze iterator over a `FindOK` matcher -/
structure AInv (pr : Prog) (input : List Nat) (a : AState St) : Prop where
  clean : a.st.panic = none
  skip : a.skip = false
  pe : ∀ p, a.prevEnd = some p → p ≤ input.length
  sub : ∀ s, a.nextSub = some s → ∃ j n, PostMatch pr input a.st j n

/-- one `next()` of the analyze iterator: it never diverges and never panics by itself — the only
    possible failure is a panic of the entry builder, called in the state of a match -/
theorem analyzeNext_step (F : FindOK (pr.ctx lower input) pr) (entry : St → List Nat → Out (List MEntry))
    (P : Nat → Prop)
    (hentry : ∀ st t j n, PostMatch pr input st j n →
      (∃ es, entry st t = .ok es) ∨ (∃ c, entry st t = .panic c ∧ P c))
    (a : AState St) (hA : AInv pr input a) :
    (∃ o a', analyzeNext (pr.matcher lower input) entry input a = (.ok o, a') ∧ AInv pr input a') ∨
    (∃ c a', analyzeNext (pr.matcher lower input) entry input a = (.panic c, a') ∧ P c) := by
  obtain ⟨st, nextSub, prevEnd, skip⟩ := a
  obtain ⟨hcl, hsk, hpe, hsub⟩ := hA
  simp only at hcl hsk hpe hsub
  subst hsk
  unfold analyzeNext
  cases prevEnd with
  | none => exact .inl ⟨none, _, rfl, ⟨hcl, rfl, hpe, hsub⟩⟩
  | some pe =>
    have hpel := hpe pe rfl
    cases nextSub with
    | some sub =>
      obtain ⟨j, n, PM⟩ := hsub sub rfl
      have he0 : (pr.matcher lower input).end0 st = some n := PM.end0
      simp only [he0]
      rcases hentry st sub j n PM with ⟨es, hes⟩ | ⟨c, hc, hP⟩
      · rw [hes]
        exact .inl ⟨_, _, rfl, ⟨hcl, rfl, fun p hp => by cases hp; exact PM.le, fun s hs => by cases hs⟩⟩
      · rw [hc]
        exact .inr ⟨c, _, rfl, hP⟩
    | none =>
      have hfind : (pr.matcher lower input).find st pe = matchesFrom (pr.ctx lower input) pr pe st := rfl
      simp only [Bool.false_and, Bool.false_eq_true, if_false, hfind]
      rcases F.step pe st hpel hcl with ⟨st', j, n, he, a2, a3, a4, a5, a6, a7, a8, a9, a10⟩ | ⟨st', he, a2, a3⟩
      · have hfl : (pr.matcher lower input).failed st' = none := a2
        have hs0 : (pr.matcher lower input).start0 st' = some j := a4
        have he0 : (pr.matcher lower input).end0 st' = some n := a5
        have PM : PostMatch pr input st' j n := ⟨a2, a4, a5, a7, a8, a9, a10⟩
        have hjn : (j == n) = false := by simp; omega
        simp only [he, hfl, hs0, he0, hjn]
        by_cases hpj : (pe == j) = true
        · rw [if_pos hpj]
          rcases hentry st' (slice input j n) j n PM with ⟨es, hes⟩ | ⟨c, hc, hP⟩
          · rw [hes]
            exact .inl ⟨_, _, rfl, ⟨a2, rfl, fun p hp => by cases hp; exact a8, fun s hs => by cases hs⟩⟩
          · rw [hc]
            exact .inr ⟨c, _, rfl, hP⟩
        · rw [if_neg hpj, if_neg (by omega : ¬ j < pe)]
          exact .inl ⟨_, _, rfl, ⟨a2, rfl, fun p hp => by cases hp; exact hpel, fun s _ => ⟨j, n, PM⟩⟩⟩
      · have hfl : (pr.matcher lower input).failed st' = none := a2
        simp only [he, hfl]
        split
        · exact .inl ⟨_, _, rfl, ⟨a2, rfl, fun p hp => (by cases hp), fun s hs => (by cases hs)⟩⟩
        · exact .inl ⟨_, _, rfl, ⟨a2, rfl, fun p hp => (by cases hp), fun s hs => (by cases hs)⟩⟩

/-- hence the analyze loop: `.ok`, or a panic of the entry builder -/
theorem analyzeLoop_total (F : FindOK (pr.ctx lower input) pr) (entry : St → List Nat → Out (List MEntry))
    (P : Nat → Prop)
    (hentry : ∀ st t j n, PostMatch pr input st j n →
      (∃ es, entry st t = .ok es) ∨ (∃ c, entry st t = .panic c ∧ P c)) :
    ∀ (l : Nat) (a : AState St) (acc : List AEntry), AInv pr input a →
      (∃ es more, analyzeLoop (pr.matcher lower input) entry input l a acc = .ok (es, more)) ∨
      (∃ c, analyzeLoop (pr.matcher lower input) entry input l a acc = .panic c ∧ P c) := by
  intro l
  induction l with
  | zero =>
    intro a acc hA
    unfold analyzeLoop
    rcases analyzeNext_step F entry P hentry a hA with ⟨o, a', he, _⟩ | ⟨c, a', he, hP⟩
    · rw [he]
      cases o with
      | none => exact .inl ⟨_, _, rfl⟩
      | some e => exact .inl ⟨_, _, rfl⟩
    · rw [he]
      exact .inr ⟨c, rfl, hP⟩
  | succ l ih =>
    intro a acc hA
    unfold analyzeLoop
    rcases analyzeNext_step F entry P hentry a hA with ⟨o, a', he, hA'⟩ | ⟨c, a', he, hP⟩
    · rw [he]
      cases o with
      | none => exact .inl ⟨_, _, rfl⟩
      | some e => exact ih a' _ hA'
    · rw [he]
      exact .inr ⟨c, rfl, hP⟩

theorem AInv.init (pr : Prog) (input : List Nat) : AInv pr input { st := ({} : St) } :=
  ⟨rfl, rfl, fun p hp => by cases hp; exact Nat.zero_le _, fun s hs => by cases hs⟩

/-- `process_matching_substring` answers `.ok` or panics at its own site — nothing else -/
theorem processMatch_cases (tbl : List (Nat × Nat)) (st : St) (cur : List Nat) :
    (∃ es, processMatch tbl st cur = .ok es) ∨ processMatch tbl st cur = .panic panicAnalyze := by
  unfold processMatch
  dsimp only
  repeat' split
  all_goals first
    | exact .inl ⟨_, rfl⟩
    | exact .inr rfl

end loops

/-! ## further loop facts -/

section loops2
variable {pr : Prog} {lower : Nat → Nat} {input : List Nat}

/-- the replace loop with ANY substitution: `.ok`, or `InvalidReplacementString` — never a panic,
    never out of fuel -/
theorem replaceLoop_total (F : FindOK (pr.ctx lower input) pr) (subst : Subst St) (lit : Bool) :
    ∀ (f pos : Nat) (st : St) (first simple : Bool) (acc : List Nat),
    st.panic = none → pos ≤ input.length → input.length + 1 ≤ f + pos →
    (∃ r, replaceLoop (pr.matcher lower input) subst input lit f pos st first simple acc = .ok r) ∨
    replaceLoop (pr.matcher lower input) subst input lit f pos st first simple acc = .err .invalidReplacement := by
  intro f
  induction f with
  | zero => intro pos st first simple acc _ hp hf; omega
  | succ f ih =>
    intro pos st first simple acc hst hp hf
    unfold replaceLoop
    by_cases hlt : pos < input.length
    · simp only [hlt, if_true]
      have hfind : (pr.matcher lower input).find st pos = matchesFrom (pr.ctx lower input) pr pos st := rfl
      rw [hfind]
      rcases F.step pos st hp hst with ⟨st', j, n, he, a2, a3, a4, a5, a6, a7, a8, _⟩ | ⟨st', he, a2, a3⟩
      · have hfl : (pr.matcher lower input).failed st' = none := a2
        have hs0 : (pr.matcher lower input).start0 st' = some j := a4
        have he0 : (pr.matcher lower input).end0 st' = some n := a5
        have hnlt : ¬ j < pos := by omega
        have hne : (n == pos) = false := by simp; omega
        simp only [he, hfl, hs0, hnlt, if_false]
        cases hs : subst st' (if first = true then lit else simple) with
        | none => exact .inr rfl
        | some ts =>
          obtain ⟨text, s'⟩ := ts
          simp only [he0, hne, Bool.false_eq_true, if_false]
          exact ih n st' false s' _ a2 a8 (by omega)
      · have hfl : (pr.matcher lower input).failed st' = none := a2
        simp only [he, hfl]
        cases first <;> exact .inl ⟨_, rfl⟩
    · simp only [hlt, if_false]
      cases first <;> exact .inl ⟨_, rfl⟩

/-- entries whose Match entry is the matched text: all texts concatenate to the input -/
theorem entries_text' (input : List Nat) : ∀ (l : List (Nat × Nat)) (pos : Nat),
    C04.Ordered input.length pos l →
    aTextL (entries input pos (l.map (fun x => (x.1, x.2, [MEntry.str (slice input x.1 x.2)])))) = input.drop pos
  | [], pos, _ => by
    simp only [List.map_nil, entries]
    split
    · simp [aTextL, aText]
    · rw [List.drop_eq_nil_of_le (by omega)]; rfl
  | (a, b) :: rest, pos, ho => by
    obtain ⟨h1, h2, _, h4⟩ := ho
    have ih := entries_text' input rest b h4
    simp only [List.map_cons, entries]
    rw [C04.aTextL_append, C04.aTextL_append, ih]
    have hm : aTextL [AEntry.isMatch [MEntry.str (slice input a b)]] = slice input a b := by
      simp [aTextL, aText, mTextL, mText]
    rw [hm]
    split
    · have : aTextL [AEntry.nonMatch (slice input pos a)] = slice input pos a := by simp [aTextL, aText]
      rw [this, List.append_assoc]
      exact C04.slice_slice_drop input pos a b h1 (by omega)
    · have hpa : pos = a := by omega
      subst hpa
      have := C04.slice_slice_drop input pos pos b (Nat.le_refl _) (by omega)
      rw [C04.slice_self] at this
      simpa [aTextL] using this

end loops2

end Rx.ApiGeneric
