/-
  Proofs/MemoSpansLemmas — the scan-loop layer of Proofs/ApiGenericLemmas for a matcher whose searches are
  only correct under a POSITION-DEPENDENT state invariant `I pos st` (the memo fragment: `HRfrom pos st`).

  `FindOKI I ctx pr` is `ApiGeneric.FindOK` with: the hypothesis `I pos st` for the search from `pos`, the
  conclusion `I n st'` after a success reporting `[j, n)` (the position every scan loop continues from), and
  `I pos {}` for the fresh matcher.  The loop lemmas are those of Proofs/ApiGenericLemmas with the invariant
  threaded (suffix `I`); the state-free definitions (`firstSpan`, `spansFrom`, `PostMatch`, `Dep0`, `replText`,
  `subst_post`, …) are re-used from there.
-/
import RxModel.Proofs.ApiGenericLemmas
namespace Rx.ApiMemo
open Rx Rx.SearchComplete Rx.Spec Rx.ApiGeneric
open Rx.C08 (noEmptyAtoms)
open Rx.ApiComplete (firstFrom firstFrom_some firstFrom_none firstFrom_eq_some firstFrom_eq_none hasCapNode matchAt_pc)

variable [HeadFn]

/-- one search of a non-nullable program from a clean state satisfying the invariant for the search
    position: succeeds exactly when `firstSpan` is defined, reports that span, re-establishes the invariant
    for the END of the span -/
structure FindOKI (I : Nat → St → Prop) (ctx : Ctx) (pr : Prog) : Prop where
  fresh : ∀ pos, I pos {}
  step : ∀ pos st, pos ≤ ctx.len → st.panic = none → I pos st →
    (∃ st' j n, matchesFrom ctx pr pos st = (true, st') ∧ st'.panic = none ∧
        firstSpan ctx pr.op pos = some (j, n) ∧
        getParenStart st' 0 = some j ∧ getParenEnd st' 0 = some n ∧ pos ≤ j ∧ j < n ∧ n ≤ ctx.len ∧
        1 ≤ st'.cap.parenCount ∧ (hasCapNode pr.op = false → st'.cap.parenCount = 1) ∧ I n st') ∨
    (∃ st', matchesFrom ctx pr pos st = (false, st') ∧ st'.panic = none ∧ firstSpan ctx pr.op pos = none)
  sem : ∀ pos, pos ≤ ctx.len →
    (∀ j n, firstSpan ctx pr.op pos = some (j, n) →
      OpR ctx pr.op j n ∧ ∀ k q, pos ≤ k → k < j → ¬ OpR ctx pr.op k q) ∧
    (firstSpan ctx pr.op pos = none → ∀ k q, pos ≤ k → k ≤ ctx.len → ¬ OpR ctx pr.op k q)

/-- an `Outcome` whose reported span (this one) ends at the head, read through `firstSpan` -/
theorem outcome_firstSpanI {ctx : Ctx} {o : Op} (hwf : wfOp o = true) (hcp : C02.capsPos o = true)
    (hsound : ∀ k, k ≤ ctx.len → (¬ ∃ q, OpR ctx o k q) → HeadFn.hd ctx o k = none)
    (hnz : ∀ j, ¬ OpR ctx o j j)
    {pos : Nat} (hpos : pos ≤ ctx.len) {r : Bool × St} (h : Outcome ctx o pos r)
    (hspan : r.1 = true →
      ∃ j n, getParenStart r.2 0 = some j ∧ getParenEnd r.2 0 = some n ∧
        HeadFn.hd ctx o j = some n ∧ pos ≤ j ∧ j ≤ n ∧ n ≤ ctx.len ∧ OpR ctx o j n ∧
        ∀ k q, pos ≤ k → k < j → ¬ OpR ctx o k q) :
    (∃ j n, r.1 = true ∧ r.2.panic = none ∧ firstSpan ctx o pos = some (j, n) ∧
        getParenStart r.2 0 = some j ∧ getParenEnd r.2 0 = some n ∧ pos ≤ j ∧ j < n ∧ n ≤ ctx.len ∧
        1 ≤ r.2.cap.parenCount ∧ (hasCapNode o = false → r.2.cap.parenCount = 1) ∧
        OpR ctx o j n ∧ (∀ k q, pos ≤ k → k < j → ¬ OpR ctx o k q)) ∨
    (r.1 = false ∧ r.2.panic = none ∧ firstSpan ctx o pos = none ∧
      ∀ k q, pos ≤ k → k ≤ ctx.len → ¬ OpR ctx o k q) := by
  rcases h.2 with ⟨ht, j, stj, h1, h2, _, hmin, hma⟩ | ⟨hf, hno⟩
  · left
    obtain ⟨j', n, hs0, he, hh, a1, a2, a3, a4, a5⟩ := hspan ht
    have hjj : j' = j := by
      obtain ⟨b, st'⟩ := r
      simp only at ht
      subst ht
      have := (C02.matchAt_span ctx o hwf hcp j h2 stj st' hma).1
      rw [this] at hs0
      exact (Option.some.inj hs0).symm
    subst hjj
    have hpc : 1 ≤ r.2.cap.parenCount ∧ (hasCapNode o = false → r.2.cap.parenCount = 1) := by
      obtain ⟨b, st'⟩ := r
      simp only at ht
      subst ht
      exact matchAt_pc ctx o hwf j' h2 stj st' hma
    refine ⟨j', n, ht, h.1, ?_, hs0, he, a1, ?_, a3, hpc.1, hpc.2, a4, a5⟩
    · unfold firstSpan
      apply firstFrom_eq_some _ _ _ _ _ a1 (by omega) hh
      intro k hk1 hk2
      exact hsound k (by omega) (fun ⟨q, hq⟩ => a5 k q hk1 hk2 hq)
    · rcases Nat.lt_or_ge j' n with hlt | hge
      · exact hlt
      · have : j' = n := by omega
        subst this
        exact absurd a4 (hnz j')
  · right
    refine ⟨hf, h.1, ?_, fun k q hk1 hk2 hq => hno k hk1 hk2 ⟨q, hq⟩⟩
    unfold firstSpan
    apply firstFrom_eq_none
    intro k hk1 hk2
    exact hsound k (by omega) (hno k hk1 (by omega))

/-- a matcher whose every search FROM A STATE SATISFYING THE INVARIANT has the right `Outcome`, reports a
    span ending at the (sound) head, and re-establishes the invariant at the end of the span -/
theorem findOKI_of_outcome {I : Nat → St → Prop} {ctx : Ctx} {pr : Prog}
    (hwf : wfOp pr.op = true) (hcp : C02.capsPos pr.op = true)
    (hfresh : ∀ pos, I pos {})
    (hsound : ∀ k, k ≤ ctx.len → (¬ ∃ q, OpR ctx pr.op k q) → HeadFn.hd ctx pr.op k = none)
    (hnz : ∀ j, ¬ OpR ctx pr.op j j)
    (hout : ∀ pos st, pos ≤ ctx.len → st.panic = none → I pos st →
      Outcome ctx pr.op pos (matchesFrom ctx pr pos st))
    (hspan : ∀ pos st st', pos ≤ ctx.len → st.panic = none → I pos st →
      matchesFrom ctx pr pos st = (true, st') →
      ∃ j n, getParenStart st' 0 = some j ∧ getParenEnd st' 0 = some n ∧
        HeadFn.hd ctx pr.op j = some n ∧ pos ≤ j ∧ j ≤ n ∧ n ≤ ctx.len ∧ OpR ctx pr.op j n ∧
        (∀ k q, pos ≤ k → k < j → ¬ OpR ctx pr.op k q) ∧ I n st') :
    FindOKI I ctx pr := by
  have key : ∀ pos st, pos ≤ ctx.len → st.panic = none → I pos st →
      (∃ st' j n, matchesFrom ctx pr pos st = (true, st') ∧ st'.panic = none ∧
        firstSpan ctx pr.op pos = some (j, n) ∧
        getParenStart st' 0 = some j ∧ getParenEnd st' 0 = some n ∧ pos ≤ j ∧ j < n ∧ n ≤ ctx.len ∧
        1 ≤ st'.cap.parenCount ∧ (hasCapNode pr.op = false → st'.cap.parenCount = 1) ∧ I n st' ∧
        OpR ctx pr.op j n ∧ (∀ k q, pos ≤ k → k < j → ¬ OpR ctx pr.op k q)) ∨
      (∃ st', matchesFrom ctx pr pos st = (false, st') ∧ st'.panic = none ∧ firstSpan ctx pr.op pos = none ∧
        ∀ k q, pos ≤ k → k ≤ ctx.len → ¬ OpR ctx pr.op k q) := by
    intro pos st hpos hst hI
    have ho := hout pos st hpos hst hI
    have hsp : (matchesFrom ctx pr pos st).1 = true →
        ∃ j n, getParenStart (matchesFrom ctx pr pos st).2 0 = some j ∧
          getParenEnd (matchesFrom ctx pr pos st).2 0 = some n ∧
          HeadFn.hd ctx pr.op j = some n ∧ pos ≤ j ∧ j ≤ n ∧ n ≤ ctx.len ∧ OpR ctx pr.op j n ∧
          ∀ k q, pos ≤ k → k < j → ¬ OpR ctx pr.op k q := by
      intro ht
      obtain ⟨j, n, b1, b2, b3, b4, b5, b6, b7, b8, _⟩ :=
        hspan pos st (matchesFrom ctx pr pos st).2 hpos hst hI (Prod.ext ht rfl)
      exact ⟨j, n, b1, b2, b3, b4, b5, b6, b7, b8⟩
    rcases outcome_firstSpanI hwf hcp hsound hnz hpos ho hsp with
      ⟨j, n, a1, a2, a3, a4, a5, a6, a7, a8, a9, a10, a11, a12⟩ | ⟨a1, a2, a3, a4⟩
    · left
      obtain ⟨j', n', _, b2, _, _, _, _, _, _, bI⟩ :=
        hspan pos st (matchesFrom ctx pr pos st).2 hpos hst hI (Prod.ext a1 rfl)
      have hn : n' = n := Option.some.inj (by rw [← b2, ← a5])
      subst hn
      exact ⟨_, j, n', Prod.ext a1 rfl, a2, a3, a4, a5, a6, a7, a8, a9, a10, bI, a11, a12⟩
    · right
      exact ⟨_, Prod.ext a1 rfl, a2, a3, a4⟩
  refine ⟨hfresh, ?_, ?_⟩
  · intro pos st hpos hst hI
    rcases key pos st hpos hst hI with ⟨st', j, n, a1, a2, a3, a4, a5, a6, a7, a8, a9, a10, a11, _⟩ | ⟨st', a1, a2, a3, _⟩
    · exact .inl ⟨st', j, n, a1, a2, a3, a4, a5, a6, a7, a8, a9, a10, a11⟩
    · exact .inr ⟨st', a1, a2, a3⟩
  · intro pos hpos
    rcases key pos {} hpos rfl (hfresh pos) with
      ⟨st', j, n, _, _, a3, _, _, _, _, _, _, _, _, b1, b2⟩ | ⟨st', _, _, a3, b1⟩
    · refine ⟨fun j' n' h' => ?_, fun h' => ?_⟩
      · rw [a3] at h'
        simp only [Option.some.injEq, Prod.mk.injEq] at h'
        obtain ⟨rfl, rfl⟩ := h'
        exact ⟨b1, b2⟩
      · rw [a3] at h'; cases h'
    · refine ⟨fun j' n' h' => ?_, fun _ => b1⟩
      rw [a3] at h'; cases h'

/-! ## the scan loops over a matcher satisfying `FindOKI` -/

section loops
variable {I : Nat → St → Prop} {pr : Prog} {lower : Nat → Nat} {input : List Nat}

/-- **the scan sees exactly the state-free spans** (with any data computed from the state of a match that
    is determined by the span) -/
theorem spansOf_mapI (F : FindOKI I (pr.ctx lower input) pr) {α : Type}
    (f : St → Nat → Nat → α) (g : Nat → Nat → α)
    (hfg : ∀ st j n, PostMatch pr input st j n → f st j n = g j n) :
    ∀ (k pos : Nat) (st : St), st.panic = none → pos ≤ input.length → I pos st →
      (C04.spansOf (pr.matcher lower input) input.length k pos st).map (fun x => (x.1, x.2.1, f x.2.2 x.1 x.2.1)) =
      (spansFrom (pr.ctx lower input) pr.op k pos).map (fun y => (y.1, y.2, g y.1 y.2)) := by
  intro k
  induction k with
  | zero => intro pos st _ _ _; rfl
  | succ k ih =>
    intro pos st hst hpos hI
    have hlen : (pr.ctx lower input).len = input.length := rfl
    by_cases hlt : pos < input.length
    · have hfind : (pr.matcher lower input).find st pos = matchesFrom (pr.ctx lower input) pr pos st := rfl
      rcases F.step pos st hpos hst hI with ⟨st', j, n, he, a2, a3, a4, a5, a6, a7, a8, a9, a10, aI⟩ | ⟨st', he, _, a3⟩
      · rw [C04.spansOf_true _ _ _ _ j n st st' hlt (hfind.trans he) a4 a5]
        rw [spansFrom_cons _ _ _ _ j n hlt a3]
        simp only [List.map_cons]
        rw [ih n st' a2 a8 aI, hfg st' j n ⟨a2, a4, a5, a7, a8, a9, a10⟩]
      · rw [C04.spansOf_false _ _ _ _ st st' (hfind.trans he), spansFrom_none _ _ _ _ a3]
        rfl
    · rw [C04.spansOf_ge _ _ _ _ _ hlt, spansFrom_ge _ _ _ _ hlt]
      rfl

theorem spansOf_eqI (F : FindOKI I (pr.ctx lower input) pr) (k pos : Nat) (st : St)
    (hst : st.panic = none) (hpos : pos ≤ input.length) (hI : I pos st) :
    C04.spanPairs (C04.spansOf (pr.matcher lower input) input.length k pos st) =
      spansFrom (pr.ctx lower input) pr.op k pos := by
  have := spansOf_mapI F (fun _ _ _ => ()) (fun _ _ => ()) (fun _ _ _ _ => rfl) k pos st hst hpos hI
  have h2 := congrArg (List.map (fun x : Nat × Nat × Unit => (x.1, x.2.1))) this
  simpa only [C04.spanPairs, List.map_map, Function.comp_def, List.map_id'] using h2

/-- the span sequence is strictly left to right, non-empty spans, inside the input -/
theorem spansFrom_orderedI (F : FindOKI I (pr.ctx lower input) pr) :
    ∀ (k pos : Nat), pos ≤ input.length →
      C04.Ordered input.length pos (spansFrom (pr.ctx lower input) pr.op k pos) := by
  intro k
  induction k with
  | zero => intro pos _; exact trivial
  | succ k ih =>
    intro pos hpos
    have hlen : (pr.ctx lower input).len = input.length := rfl
    by_cases hlt : pos < input.length
    · rcases F.step pos {} hpos rfl (F.fresh pos) with ⟨st', j, n, _, _, a3, _, _, a6, a7, a8, _⟩ | ⟨st', _, _, a3⟩
      · rw [spansFrom_cons _ _ _ _ j n hlt a3]
        exact ⟨a6, a7, a8, ih n a8⟩
      · rw [spansFrom_none _ _ _ _ a3]; exact trivial
    · rw [spansFrom_ge _ _ _ _ hlt]; exact trivial

/-! ### tokenize -/

theorem tokenLoop_specI (F : FindOKI I (pr.ctx lower input) pr) :
    ∀ (l k pe : Nat) (st : St) (acc : List (List Nat)), st.panic = none → pe ≤ input.length → I pe st →
      input.length - pe + 1 ≤ l → input.length - pe ≤ k →
      tokenLoop (pr.matcher lower input) input l (some pe) st acc =
        .ok (acc ++ pieces input pe (spansFrom (pr.ctx lower input) pr.op k pe), false) := by
  intro l
  induction l with
  | zero => intro k pe st acc _ _ _ hl; omega
  | succ l ih =>
    intro k pe st acc hst hpe hI hl hk
    have hlen : (pr.ctx lower input).len = input.length := rfl
    have hfind : (pr.matcher lower input).find st pe = matchesFrom (pr.ctx lower input) pr pe st := rfl
    unfold tokenLoop
    simp only [tokenNext, hfind]
    rcases F.step pe st hpe hst hI with ⟨st', j, n, he, a2, a3, a4, a5, a6, a7, a8, _, _, aI⟩ | ⟨st', he, a2, a3⟩
    · have hf : (pr.matcher lower input).failed st' = none := a2
      have hs0 : (pr.matcher lower input).start0 st' = some j := a4
      have he0 : (pr.matcher lower input).end0 st' = some n := a5
      have hnlt : ¬ j < pe := by omega
      simp only [he, hf, hs0, he0, hnlt, if_false]
      obtain ⟨k', rfl⟩ : ∃ k', k = k' + 1 := ⟨k - 1, by omega⟩
      rw [ih k' n st' _ a2 a8 aI (by omega) (by omega)]
      have hlt : pe < input.length := by omega
      rw [spansFrom_cons _ _ _ _ j n hlt a3]
      simp only [pieces, List.append_assoc, List.singleton_append]
    · have hf : (pr.matcher lower input).failed st' = none := a2
      simp only [he, hf, C04.tokenLoop_none]
      rw [spansFrom_none _ _ _ _ a3]
      simp only [pieces]

theorem tokenLoop_totalI (F : FindOKI I (pr.ctx lower input) pr) :
    ∀ (l : Nat) (pe : Option Nat) (st : St) (acc : List (List Nat)), st.panic = none →
      (∀ p, pe = some p → p ≤ input.length ∧ I p st) →
      ∃ toks more, tokenLoop (pr.matcher lower input) input l pe st acc = .ok (toks, more) := by
  intro l
  induction l with
  | zero =>
    intro pe st acc hst hpe
    cases pe with
    | none => exact ⟨acc, false, C04.tokenLoop_none _ _ _ _ _⟩
    | some p =>
      have hfind : (pr.matcher lower input).find st p = matchesFrom (pr.ctx lower input) pr p st := rfl
      unfold tokenLoop
      simp only [tokenNext, hfind]
      rcases F.step p st (hpe p rfl).1 hst (hpe p rfl).2 with
        ⟨st', j, n, he, a2, a3, a4, a5, a6, a7, a8, _⟩ | ⟨st', he, a2, a3⟩
      · have hf : (pr.matcher lower input).failed st' = none := a2
        have hs0 : (pr.matcher lower input).start0 st' = some j := a4
        have hnlt : ¬ j < p := by omega
        simp only [he, hf, hs0, hnlt, if_false]
        exact ⟨_, _, rfl⟩
      · have hf : (pr.matcher lower input).failed st' = none := a2
        simp only [he, hf]
        exact ⟨_, _, rfl⟩
  | succ l ih =>
    intro pe st acc hst hpe
    cases pe with
    | none => exact ⟨acc, false, C04.tokenLoop_none _ _ _ _ _⟩
    | some p =>
      have hfind : (pr.matcher lower input).find st p = matchesFrom (pr.ctx lower input) pr p st := rfl
      unfold tokenLoop
      simp only [tokenNext, hfind]
      rcases F.step p st (hpe p rfl).1 hst (hpe p rfl).2 with
        ⟨st', j, n, he, a2, a3, a4, a5, a6, a7, a8, _, _, aI⟩ | ⟨st', he, a2, a3⟩
      · have hf : (pr.matcher lower input).failed st' = none := a2
        have hs0 : (pr.matcher lower input).start0 st' = some j := a4
        have he0 : (pr.matcher lower input).end0 st' = some n := a5
        have hnlt : ¬ j < p := by omega
        simp only [he, hf, hs0, he0, hnlt, if_false]
        exact ih (some n) st' _ a2 (fun q hq => by cases hq; exact ⟨a8, aI⟩)
      · have hf : (pr.matcher lower input).failed st' = none := a2
        simp only [he, hf]
        exact ih none st' _ a2 (fun q hq => by cases hq)

/-! ### replace -/

theorem replaceLoop_specI (F : FindOKI I (pr.ctx lower input) pr) (repl : List Nat)
    (hmp : pr.maxParens ≠ 0) (hd : Dep0 (pr.maxParens - 1) repl) :
    ∀ (f pos : Nat) (st : St) (first simple : Bool) (acc : List Nat),
    st.panic = none → pos ≤ input.length → I pos st → input.length + 1 ≤ f + pos →
    (first = true → acc = [] ∧ pos = 0) →
    (first = false → pr.literal = true → simple = true) →
    (first = false → simple = true → pr.literal = true ∨ plainRepl repl = true) →
    replaceLoop (pr.matcher lower input) (pr.subst input repl) input pr.literal f pos st first simple acc =
      .ok (acc ++ replaced input pos
        ((spansFrom (pr.ctx lower input) pr.op f pos).map (fun x => (x.1, x.2, replText pr input repl x.1 x.2)))) := by
  intro f
  induction f with
  | zero => intro pos st first simple acc _ hp _ hf; omega
  | succ f ih =>
    intro pos st first simple acc hst hp hI hf hfirst hs1 hs2
    have hlen : (pr.ctx lower input).len = input.length := rfl
    unfold replaceLoop
    by_cases hlt : pos < input.length
    · simp only [hlt, if_true]
      have hfind : (pr.matcher lower input).find st pos = matchesFrom (pr.ctx lower input) pr pos st := rfl
      rw [hfind]
      rcases F.step pos st hp hst hI with ⟨st', j, n, he, a2, a3, a4, a5, a6, a7, a8, a9, a10, aI⟩ | ⟨st', he, a2, a3⟩
      · have hfl : (pr.matcher lower input).failed st' = none := a2
        have hs0 : (pr.matcher lower input).start0 st' = some j := a4
        have he0 : (pr.matcher lower input).end0 st' = some n := a5
        have hnlt : ¬ j < pos := by omega
        have hne : (n == pos) = false := by simp; omega
        have PM : PostMatch pr input st' j n := ⟨a2, a4, a5, a7, a8, a9, a10⟩
        obtain ⟨s', hsub, b1, b2⟩ := subst_post repl hmp hd PM (if first = true then pr.literal else simple)
          (by
            intro hl
            cases first with
            | true => simpa using hl
            | false => simpa using hs1 rfl hl)
          (by
            intro hsim
            cases first with
            | true => left; simpa using hsim
            | false => exact hs2 rfl (by simpa using hsim))
        simp only [he, hfl, hs0, he0, hnlt, if_false, hsub, hne, Bool.false_eq_true]
        rw [ih n st' false s' _ a2 a8 aI (by omega) (by simp) (fun _ hl => b1 hl) (fun _ hs' => b2 hs')]
        rw [spansFrom_cons _ _ _ _ j n hlt a3]
        simp only [List.map_cons, replaced, List.append_assoc]
      · have hfl : (pr.matcher lower input).failed st' = none := a2
        simp only [he, hfl, C04.first_end input acc pos first hfirst]
        rw [spansFrom_none _ _ _ _ a3]
        simp only [List.map_nil, replaced]
    · simp only [hlt, if_false, C04.first_end input acc pos first hfirst]
      rw [spansFrom_ge _ _ _ _ hlt]
      simp only [List.map_nil, replaced]

theorem replaceLoop_totalI (F : FindOKI I (pr.ctx lower input) pr) (subst : Subst St) (lit : Bool) :
    ∀ (f pos : Nat) (st : St) (first simple : Bool) (acc : List Nat),
    st.panic = none → pos ≤ input.length → I pos st → input.length + 1 ≤ f + pos →
    (∃ r, replaceLoop (pr.matcher lower input) subst input lit f pos st first simple acc = .ok r) ∨
    replaceLoop (pr.matcher lower input) subst input lit f pos st first simple acc = .err .invalidReplacement := by
  intro f
  induction f with
  | zero => intro pos st first simple acc _ hp _ hf; omega
  | succ f ih =>
    intro pos st first simple acc hst hp hI hf
    unfold replaceLoop
    by_cases hlt : pos < input.length
    · simp only [hlt, if_true]
      have hfind : (pr.matcher lower input).find st pos = matchesFrom (pr.ctx lower input) pr pos st := rfl
      rw [hfind]
      rcases F.step pos st hp hst hI with ⟨st', j, n, he, a2, a3, a4, a5, a6, a7, a8, _, _, aI⟩ | ⟨st', he, a2, a3⟩
      · have hfl : (pr.matcher lower input).failed st' = none := a2
        have hs0 : (pr.matcher lower input).start0 st' = some j := a4
        have he0 : (pr.matcher lower input).end0 st' = some n := a5
        have hnlt : ¬ j < pos := by omega
        have hne : (n == pos) = false := by simp; omega
        simp only [he, hfl, hs0, hnlt, if_false]
        cases hs : subst st' (if first = true then lit else simple) with
        | none => exact .inr rfl
        | some ts =>
          obtain ⟨text, s'⟩ := ts
          simp only [he0, hne, Bool.false_eq_true, if_false]
          exact ih n st' false s' _ a2 a8 aI (by omega)
      · have hfl : (pr.matcher lower input).failed st' = none := a2
        simp only [he, hfl]
        cases first <;> exact .inl ⟨_, rfl⟩
    · simp only [hlt, if_false]
      cases first <;> exact .inl ⟨_, rfl⟩

/-! ### analyze -/

/-- the invariant of the analyze iterator over a `FindOKI` matcher -/
structure AInvI (I : Nat → St → Prop) (pr : Prog) (input : List Nat) (a : AState St) : Prop where
  clean : a.st.panic = none
  skip : a.skip = false
  pe : ∀ p, a.prevEnd = some p → p ≤ input.length
  inv : ∀ p, a.prevEnd = some p → a.nextSub = none → I p a.st
  sub : ∀ s, a.nextSub = some s → ∃ j n, PostMatch pr input a.st j n ∧ I n a.st

theorem analyzeNext_stepI (F : FindOKI I (pr.ctx lower input) pr) (entry : St → List Nat → Out (List MEntry))
    (P : Nat → Prop)
    (hentry : ∀ st t j n, PostMatch pr input st j n →
      (∃ es, entry st t = .ok es) ∨ (∃ c, entry st t = .panic c ∧ P c))
    (a : AState St) (hA : AInvI I pr input a) :
    (∃ o a', analyzeNext (pr.matcher lower input) entry input a = (.ok o, a') ∧ AInvI I pr input a') ∨
    (∃ c a', analyzeNext (pr.matcher lower input) entry input a = (.panic c, a') ∧ P c) := by
  obtain ⟨st, nextSub, prevEnd, skip⟩ := a
  obtain ⟨hcl, hsk, hpe, hinv, hsub⟩ := hA
  simp only at hcl hsk hpe hinv hsub
  subst hsk
  unfold analyzeNext
  cases prevEnd with
  | none => exact .inl ⟨none, _, rfl, ⟨hcl, rfl, hpe, hinv, hsub⟩⟩
  | some pe =>
    have hpel := hpe pe rfl
    cases nextSub with
    | some sub =>
      obtain ⟨j, n, PM, hIn⟩ := hsub sub rfl
      have he0 : (pr.matcher lower input).end0 st = some n := PM.end0
      simp only [he0]
      rcases hentry st sub j n PM with ⟨es, hes⟩ | ⟨c, hc, hP⟩
      · rw [hes]
        exact .inl ⟨_, _, rfl, ⟨hcl, rfl, fun p hp => by cases hp; exact PM.le,
          fun p hp _ => by cases hp; exact hIn, fun s hs => by cases hs⟩⟩
      · rw [hc]
        exact .inr ⟨c, _, rfl, hP⟩
    | none =>
      have hIpe := hinv pe rfl rfl
      have hfind : (pr.matcher lower input).find st pe = matchesFrom (pr.ctx lower input) pr pe st := rfl
      simp only [Bool.false_and, Bool.false_eq_true, if_false, hfind]
      rcases F.step pe st hpel hcl hIpe with ⟨st', j, n, he, a2, a3, a4, a5, a6, a7, a8, a9, a10, aI⟩ | ⟨st', he, a2, a3⟩
      · have hfl : (pr.matcher lower input).failed st' = none := a2
        have hs0 : (pr.matcher lower input).start0 st' = some j := a4
        have he0 : (pr.matcher lower input).end0 st' = some n := a5
        have PM : PostMatch pr input st' j n := ⟨a2, a4, a5, a7, a8, a9, a10⟩
        have hjn : (j == n) = false := by simp; omega
        simp only [he, hfl, hs0, he0, hjn]
        by_cases hpj : (pe == j) = true
        · rw [if_pos hpj]
          rcases hentry st' (slice input j n) j n PM with ⟨es, hes⟩ | ⟨c, hc, hP⟩
          · rw [hes]
            exact .inl ⟨_, _, rfl, ⟨a2, rfl, fun p hp => by cases hp; exact a8,
              fun p hp _ => by cases hp; exact aI, fun s hs => by cases hs⟩⟩
          · rw [hc]
            exact .inr ⟨c, _, rfl, hP⟩
        · rw [if_neg hpj, if_neg (by omega : ¬ j < pe)]
          exact .inl ⟨_, _, rfl, ⟨a2, rfl, fun p hp => by cases hp; exact hpel,
            fun p _ hs => (by cases hs), fun s _ => ⟨j, n, PM, aI⟩⟩⟩
      · have hfl : (pr.matcher lower input).failed st' = none := a2
        simp only [he, hfl]
        split
        · exact .inl ⟨_, _, rfl, ⟨a2, rfl, fun p hp => (by cases hp), fun p hp _ => (by cases hp),
            fun s hs => (by cases hs)⟩⟩
        · exact .inl ⟨_, _, rfl, ⟨a2, rfl, fun p hp => (by cases hp), fun p hp _ => (by cases hp),
            fun s hs => (by cases hs)⟩⟩

theorem analyzeLoop_totalI (F : FindOKI I (pr.ctx lower input) pr) (entry : St → List Nat → Out (List MEntry))
    (P : Nat → Prop)
    (hentry : ∀ st t j n, PostMatch pr input st j n →
      (∃ es, entry st t = .ok es) ∨ (∃ c, entry st t = .panic c ∧ P c)) :
    ∀ (l : Nat) (a : AState St) (acc : List AEntry), AInvI I pr input a →
      (∃ es more, analyzeLoop (pr.matcher lower input) entry input l a acc = .ok (es, more)) ∨
      (∃ c, analyzeLoop (pr.matcher lower input) entry input l a acc = .panic c ∧ P c) := by
  intro l
  induction l with
  | zero =>
    intro a acc hA
    unfold analyzeLoop
    rcases analyzeNext_stepI F entry P hentry a hA with ⟨o, a', he, _⟩ | ⟨c, a', he, hP⟩
    · rw [he]
      cases o with
      | none => exact .inl ⟨_, _, rfl⟩
      | some e => exact .inl ⟨_, _, rfl⟩
    · rw [he]
      exact .inr ⟨c, rfl, hP⟩
  | succ l ih =>
    intro a acc hA
    unfold analyzeLoop
    rcases analyzeNext_stepI F entry P hentry a hA with ⟨o, a', he, hA'⟩ | ⟨c, a', he, hP⟩
    · rw [he]
      cases o with
      | none => exact .inl ⟨_, _, rfl⟩
      | some e => exact ih a' _ hA'
    · rw [he]
      exact .inr ⟨c, rfl, hP⟩

theorem AInvI.init (F : FindOKI I (pr.ctx lower input) pr) : AInvI I pr input { st := ({} : St) } :=
  ⟨rfl, rfl, fun p hp => (by cases hp; exact Nat.zero_le _), fun p _ _ => F.fresh p, fun s hs => (by cases hs)⟩

end loops

end Rx.ApiMemo
