/-
  Proofs/Clean2ApiLemmas — helper lemmas for Props/Clean2Api:
    * `parse_SG`        by induction over the parser (style of `parse_NE`, Proofs/CleanSearchLemmas):
                        every tree `parseExpr` returns has only sequences of ≥ 2 elements (`seqGe2`), and
                        EndProgram occurs only as the last element of the root sequence (`endTop`);
                        inner results (groups, branches, terminals, pieces) contain no EndProgram at all
    * `shape2_numberReps`  numbering keeps the shape of the enlarged fragment (so that a condition on the
                        compiled program's tree is a condition on the tree handed to `ReProgram::new`)
    * `Regex.new` unfolded to `compileProg`
-/
import RxModel.Props.Clean2End
import RxModel.Props.CleanComplete
namespace Rx.Clean2Api
open Rx Rx.Clean2Opt
open Rx.C17 (POk)

/-! ## the parser's shape invariant -/

/-- sequences have ≥ 2 elements and there is no EndProgram -/
abbrev SG (op : Op) : Prop := seqGe2 op = true ∧ noEnd op = true
abbrev SGL (l : List Op) : Prop := seqGe2L l = true ∧ noEndL l = true

theorem seqGe2L_append (l1 l2 : List Op) : seqGe2L (l1 ++ l2) = (seqGe2L l1 && seqGe2L l2) := by
  induction l1 with
  | nil => simp [seqGe2L]
  | cons a t ih => simp [seqGe2L, ih, Bool.and_assoc]

theorem noEndL_append (l1 l2 : List Op) : noEndL (l1 ++ l2) = (noEndL l1 && noEndL l2) := by
  induction l1 with
  | nil => simp [noEndL]
  | cons a t ih => simp [noEndL, ih, Bool.and_assoc]

theorem SGL_append {l1 l2 : List Op} (h1 : SGL l1) (h2 : SGL l2) : SGL (l1 ++ l2) :=
  ⟨by rw [seqGe2L_append, h1.1, h2.1]; rfl, by rw [noEndL_append, h1.2, h2.2]; rfl⟩

theorem SGL_single {o : Op} (h : SG o) : SGL [o] :=
  ⟨by simp [seqGe2L, h.1], by simp [noEndL, h.2]⟩

theorem SG_seq {l : List Op} (h : SG (.seq l)) : 2 ≤ l.length ∧ SGL l := by
  obtain ⟨h1, h2⟩ := h
  simp only [seqGe2, Bool.and_eq_true, decide_eq_true_eq] at h1
  simp only [noEnd] at h2
  exact ⟨h1.1, h1.2, h2⟩

theorem SG_mk_seq {l : List Op} (hlen : 2 ≤ l.length) (h : SGL l) : SG (.seq l) :=
  ⟨by simp only [seqGe2, Bool.and_eq_true, decide_eq_true_eq]; exact ⟨hlen, h.1⟩, by simp only [noEnd]; exact h.2⟩

theorem SG_makeSequence (a b : Op) (ha : SG a) (hb : SG b) : SG (makeSequence a b) := by
  unfold makeSequence
  split
  · obtain ⟨la, sa⟩ := SG_seq ha
    obtain ⟨lb, sb⟩ := SG_seq hb
    exact SG_mk_seq (by rw [List.length_append]; omega) (SGL_append sa sb)
  · obtain ⟨la, sa⟩ := SG_seq ha
    exact SG_mk_seq (by rw [List.length_append]; simp; omega) (SGL_append sa (SGL_single hb))
  · obtain ⟨lb, sb⟩ := SG_seq hb
    exact SG_mk_seq (by simp; omega) (SGL_append (SGL_single ha) sb)
  · exact SG_mk_seq (by simp) (SGL_append (SGL_single ha) (SGL_single hb))

theorem endLast_snoc : ∀ (l : List Op), noEndL l = true → endLast (l ++ [.endProgram]) = true
  | [], _ => by simp [endLast, isEnd]
  | o :: t, h => by
    simp only [noEndL, Bool.and_eq_true] at h
    have ih := endLast_snoc t h.2
    cases t with
    | nil => simp [endLast, h.1, isEnd]
    | cons a r =>
      simp only [List.cons_append] at ih ⊢
      have e : endLast (o :: a :: (r ++ [.endProgram])) = (noEnd o && endLast (a :: (r ++ [.endProgram]))) := by
        rw [endLast]; rfl
      rw [e, h.1, ih]; rfl

/-- closing the top-level tree with EndProgram -/
theorem top_makeSequence (a : Op) (ha : SG a) :
    seqGe2 (makeSequence a .endProgram) = true ∧ endTop (makeSequence a .endProgram) = true := by
  by_cases hs : ∃ l, a = .seq l
  · obtain ⟨l, rfl⟩ := hs
    obtain ⟨la, sa⟩ := SG_seq ha
    have : makeSequence (.seq l) .endProgram = .seq (l ++ [.endProgram]) := rfl
    rw [this]
    refine ⟨?_, ?_⟩
    · simp only [seqGe2, Bool.and_eq_true, decide_eq_true_eq]
      exact ⟨by rw [List.length_append]; simp; omega, by rw [seqGe2L_append, sa.1]; rfl⟩
    · simp only [endTop]; exact endLast_snoc l sa.2
  · have : makeSequence a .endProgram = .seq [a, .endProgram] := by
      cases a <;> first | rfl | exact absurd ⟨_, rfl⟩ hs
    rw [this]
    refine ⟨?_, ?_⟩
    · simp [seqGe2, seqGe2L, ha.1]
    · simp [endTop, endLast, ha.2, isEnd]

theorem parseAtom_SG (c : PC) (s : PS) : POk (fun op _ => SG op) (parseAtom c s) := by
  rw [parseAtom]
  split
  · exact POk.err
  · apply POk.ite <;> intro _
    · exact POk.err
    · exact POk.ok ⟨rfl, rfl⟩

theorem pieceQuant_SG (c : PC) (ret : Op) (s : PS) (h : SG ret) :
    POk (fun op _ => SG op) (pieceQuant c ret s) := by
  rw [pieceQuant]
  apply POk.ite <;> intro _
  · exact POk.ok h
  · extract_lets q r
    clear_value r
    cases r with
    | err e => exact POk.err
    | ok hasQ s1 =>
      dsimp -zeta only
      extract_lets +onlyGivenNames qt0
      generalize hpr : (if (hasQ && isAnchor ret) = true then
          (if (qt0 == 63 || qt0 == 42 || (qt0 == 123 && s1.bmin == 0)) = true then
            ((Op.nothing, 0) : Op × Nat) else (ret, 0)) else (ret, qt0)) = pr
      have hp1 : SG pr.1 := by
        subst hpr
        split
        · split
          · exact ⟨rfl, rfl⟩
          · exact h
        · exact h
      clear_value qt0
      clear hpr
      extract_lets qt reluctant s2 greedy mm mn mx
      clear_value mx mn mm greedy s2 qt
      have hg : ∀ a b l, SG (.gfixed pr.1 a b l) := fun _ _ _ =>
        ⟨by simp only [seqGe2]; exact hp1.1, by simp only [noEnd]; exact hp1.2⟩
      have hr : ∀ a b l, SG (.rfixed pr.1 a b l) := fun _ _ _ =>
        ⟨by simp only [seqGe2]; exact hp1.1, by simp only [noEnd]; exact hp1.2⟩
      have hrep : ∀ a b g, SG (.rep 0 pr.1 a b g) := fun _ _ _ =>
        ⟨by simp only [seqGe2]; exact hp1.1, by simp only [noEnd]; exact hp1.2⟩
      have hnothing : SG .nothing := ⟨rfl, rfl⟩
      apply POk.ite <;> intro _
      · exact POk.err
      apply POk.ite <;> intro _
      · exact POk.ok hnothing
      apply POk.ite <;> intro _
      · exact POk.ok hp1
      apply POk.ite <;> intro _
      · apply POk.ite <;> intro _
        · exact POk.ok hnothing
        · exact POk.ok hp1
      apply POk.ite <;> intro _
      · split
        · apply POk.ite <;> intro _
          · exact POk.ok (hg _ _ _)
          · exact POk.ok hnothing
        · exact POk.ok (hrep _ _ _)
      · split
        · exact POk.ok (hr _ _ _)
        · exact POk.ok (hrep _ _ _)

/-- what `parseExpr` returns: always `seqGe2` and `endTop`; without EndProgram when it was entered at
    an opening parenthesis below the top level (the only way `parseTerminal` calls it) -/
abbrev ExprShape (c : PC) (s : PS) (top : Bool) : Op → PS → Prop := fun op _ =>
  seqGe2 op = true ∧ endTop op = true ∧ ((top = false ∧ c.at s.idx = 40) → noEnd op = true)

theorem endTop_of_noEnd (op : Op) (h : noEnd op = true) : endTop op = true := by
  cases op with
  | seq l => simp only [noEnd] at h; simp only [endTop]; exact endLast_of_noEndL l h
  | _ => exact h

/-- every tree the parser builds has the shape -/
theorem parse_SG (c : PC) (f : Nat) :
    (∀ s top, POk (ExprShape c s top) (parseExpr c f s top)) ∧
    (∀ s acc, SGL acc → POk (fun l _ => SGL l) (parseBranches c f s acc)) ∧
    (∀ s cur, (∀ o, cur = some o → SG o) → POk (fun op _ => SG op) (parseBranch c f s cur)) ∧
    (∀ s, POk (fun op _ => SG op) (parseTerminal c f s)) := by
  induction f with
  | zero =>
    refine ⟨fun s top => ?_, fun s acc _ => ?_, fun s cur _ => ?_, fun s => ?_⟩
    · rw [parseExpr]; exact POk.err
    · rw [parseBranches]; exact POk.err
    · rw [parseBranch]; exact POk.err
    · rw [parseTerminal]; exact POk.err
  | succ f ih =>
    obtain ⟨ihE, ihBs, ihB, ihT⟩ := ih
    refine ⟨fun s top => ?_, fun s acc hacc => ?_, fun s cur hcur => ?_, fun s => ?_⟩
    · rw [parseExpr]
      split
      · exact POk.err
      · rename_i paren s1 heq
        split
        · exact POk.err
        · rename_i b1 s2 heq2
          have g2 : SG b1 := ihB s1 none (by simp) _ _ heq2
          split
          · exact POk.err
          · rename_i branches s3 heq3
            have g3 : SGL branches := ihBs s2 [b1] (SGL_single g2) _ _ heq3
            extract_lets op
            have hop : SG op := by
              simp only [op]
              cases branches with
              | nil => exact ⟨rfl, rfl⟩
              | cons b t =>
                cases t with
                | nil =>
                  obtain ⟨a1, a2⟩ := g3
                  simp only [seqGe2L, noEndL, Bool.and_true] at a1 a2
                  exact ⟨a1, a2⟩
                | cons b2 t2 =>
                  exact ⟨by simp only [seqGe2]; exact g3.1, by simp only [noEnd]; exact g3.2⟩
            clear_value op
            -- the paren kind is 0 exactly when we are not at an opening parenthesis below the top
            have hparen : paren = 0 → ¬ (top = false ∧ c.at s.idx = 40) := by
              intro hp0 ⟨ht, h40⟩
              subst hp0
              rw [ht] at heq
              simp only [Bool.not_false, Bool.true_and, h40, beq_self_eq_true, if_true] at heq
              split at heq
              · split at heq <;> cases heq
              · cases heq
            apply POk.ite <;> intro hpn
            · apply POk.ite <;> intro _
              · apply POk.ite <;> intro _
                · exact POk.ok ⟨by simp only [seqGe2]; exact hop.1,
                    by simp only [endTop, noEnd]; exact hop.2, fun _ => by simp only [noEnd]; exact hop.2⟩
                · exact POk.ok ⟨hop.1, endTop_of_noEnd _ hop.2, fun _ => hop.2⟩
              · exact POk.err
            · have hp0 : paren = 0 := by simpa using hpn
              obtain ⟨t1, t2⟩ := top_makeSequence op hop
              exact POk.ok ⟨t1, t2, fun hh => absurd hh (hparen hp0)⟩
    · rw [parseBranches]
      apply POk.ite <;> intro _
      · split
        · exact POk.err
        · rename_i b s1 heq
          have g1 : SG b := ihB { s with idx := s.idx + 1 } none (by simp) _ _ heq
          exact ihBs s1 _ (SGL_append hacc (SGL_single g1))
      · exact POk.ok hacc
    · rw [parseBranch]
      apply POk.ite <;> intro _
      · split
        · exact POk.err
        · rename_i ret s1 heq
          have g1 : SG ret := ihT s _ _ heq
          split
          · exact POk.err
          · rename_i op s2 heq2
            have gop : SG op := pieceQuant_SG c ret s1 g1 _ _ heq2
            refine ihB s2 _ ?_
            intro o ho
            cases cur with
            | none => cases ho; exact gop
            | some cu => cases ho; exact SG_makeSequence _ _ (hcur cu rfl) gop
      · refine POk.ok ?_
        cases cur with
        | none => exact ⟨rfl, rfl⟩
        | some cu => exact hcur cu rfl
    · rw [parseTerminal]
      have leaf : ∀ {o : Op} {s' : PS}, seqGe2 o = true → noEnd o = true → POk (fun op _ => SG op) (.ok o s') :=
        fun h1 h2 => POk.ok ⟨h1, h2⟩
      apply POk.ite <;> intro _
      · exact leaf rfl rfl
      apply POk.ite <;> intro _
      · exact leaf rfl rfl
      apply POk.ite <;> intro _
      · exact leaf rfl rfl
      apply POk.ite <;> intro _
      · split
        · exact POk.err
        · exact leaf rfl rfl
      apply POk.ite <;> intro h40
      · exact POk.mono (ihE s false) (fun op s' h => ⟨h.1, h.2.2 ⟨rfl, by simpa using h40⟩⟩)
      apply POk.ite <;> intro _
      · exact POk.err
      apply POk.ite <;> intro _
      · exact POk.err
      apply POk.ite <;> intro _
      · exact POk.err
      apply POk.ite <;> intro _
      · exact POk.err
      apply POk.ite <;> intro _
      · split
        · exact POk.err
        · apply POk.ite <;> intro _
          · exact POk.err
          · exact leaf rfl rfl
        · exact parseAtom_SG c _
        · exact leaf rfl rfl
      · exact parseAtom_SG c s

/-- `parse_shape`: the tree `parseExpr` returns — at the top level, as `compileCore` calls it, i.e.
    after `makeSequence … EndProgram` — has only sequences of ≥ 2 elements, and EndProgram occurs only as
    the last element of its root sequence.  ALWAYS: no pattern produces a one-element sequence (every
    `.seq` is built by `makeSequence`, which joins two trees) or an inner EndProgram. -/
theorem parse_shape (c : PC) (fuel : Nat) (s : PS) (top : Bool) (op : Op) (s' : PS)
    (h : parseExpr c fuel s top = .ok op s') : seqGe2 op = true ∧ endTop op = true :=
  let g := (parse_SG c fuel).1 s top op s' h
  ⟨g.1, g.2.1⟩

/-! ## numbering keeps the shape -/

theorem isAtomOrClass_numberReps (c : Op) (n : Nat) : isAtomOrClass (numberReps c n).1 = isAtomOrClass c := by
  cases c <;> simp only [numberReps, isAtomOrClass]

mutual
theorem shape2_numberReps : (op : Op) → ∀ n, shape2 (numberReps op n).1 = shape2 op
  | .bol, n | .eol, n | .nothing, n | .endProgram, n => by simp only [numberReps]
  | .atom _, n | .cls _, n | .backref _, n => by simp only [numberReps]
  | .capture g c, n => by simp only [numberReps, shape2]; exact shape2_numberReps c n
  | .choice bs, n => by simp only [numberReps, shape2]; exact shape2L_numberRepsL bs n
  | .seq ops, n => by simp only [numberReps, shape2]; exact shape2L_numberRepsL ops n
  | .rep id c mn mx g, n => by simp only [numberReps, shape2]
  | .gfixed c mn mx len, n => by simp only [numberReps, shape2]; exact shape2_numberReps c n
  | .rfixed c mn mx len, n => by simp only [numberReps, shape2]; exact shape2_numberReps c n
  | .unamb c mn mx, n => by simp only [numberReps, shape2]; exact isAtomOrClass_numberReps c n
termination_by structural op => op
theorem shape2L_numberRepsL : (l : List Op) → ∀ n, shape2L (numberRepsL l n).1 = shape2L l
  | [], n => by simp only [numberRepsL]
  | o :: os, n => by
    simp only [numberRepsL, shape2L]
    rw [shape2_numberReps o n, shape2L_numberRepsL os]
termination_by structural l => l
end

/-- a tree whose numbered form has the shape is its own numbered form -/
theorem numberReps_id_of_shape (op : Op) (h : shape2 (numberReps op 0).1 = true) : (numberReps op 0).1 = op := by
  rw [shape2_numberReps] at h
  rw [SearchComplete.numberReps_shape2 op h 0]

/-! ## `Regex::new` is `compileProg` + the nullability test -/

theorem new_compile (env : Env) (p fs : List Nat) (xsd opt : Bool) (fl : Flags) (r : Regex)
    (hf : parseFlags fs xsd = some fl) (h : Regex.new env p fs xsd opt = .ok r) :
    compileProg env fl p opt = .ok r.prog := by
  unfold Regex.new at h
  rw [hf] at h
  dsimp only at h
  cases hc : compileProg env fl p opt with
  | ok pr =>
    rw [hc] at h
    dsimp only at h
    cases hn : pr.nullable env.lower with
    | ok n => rw [hn] at h; simp only [Out.ok.injEq] at h; subst h; rfl
    | err e => rw [hn] at h; cases h
    | panic c => rw [hn] at h; cases h
    | diverge => rw [hn] at h; cases h
  | err e => rw [hc] at h; cases h
  | panic c => rw [hc] at h; cases h
  | diverge => rw [hc] at h; cases h

/-- the pattern the compiler sees after the whitespace pre-pass -/
def effPat (fl : Flags) (p : List Nat) : List Nat :=
  if !fl.literal && fl.allowWs then stripWs p 0 false else p

theorem compileProg_core (env : Env) (fl : Flags) (p : List Nat) (opt : Bool) :
    compileProg env fl p opt = compileCore env fl.core (effPat fl p) opt := rfl

/-- the facts about the un-optimised compilation of a non-literal pattern that come from the parser
    (well-formedness under `noSat`, group numbering, no empty literal, the two shape facts); only
    `cleanOp` has to be checked -/
theorem bare_facts (env : Env) (fl : CFlags) (pat : List Nat) (bare : Prog) (hlit : fl.literal = false)
    (h0 : compileCore env fl pat false = .ok bare)
    (hns : ∀ op s, parseExpr { pat := pat, fl := fl, env := env } (4 * pat.length + 16) {} true = .ok op s →
      WF.noSat op = true)
    (hc : cleanOp bare.op = true) :
    wfOp bare.op = true ∧ seqGe2 bare.op = true ∧ endTop bare.op = true ∧
    C08.noEmptyAtoms bare.op = true ∧ C02.capsPos bare.op = true := by
  unfold compileCore at h0
  rw [hlit] at h0
  simp only [Bool.false_eq_true, if_false] at h0
  cases hp : parseExpr { pat := pat, fl := fl, env := env } (4 * pat.length + 16) {} true with
  | err e => rw [hp] at h0; cases h0
  | ok op s =>
    rw [hp] at h0
    dsimp only at h0
    split at h0
    · cases h0
    · simp only [Out.ok.injEq] at h0
      subst h0
      have hb : (mkBareProgram pat op s.parens fl s.hasBackrefs).op = (numberReps op 0).1 := rfl
      rw [hb] at hc ⊢
      rw [SearchComplete.cleanOp_numberReps] at hc
      have hs := Clean2.cleanOp2_shape env fl.caseBlind fl.multiLine op (Clean2.cleanOp2_of_cleanOp env _ _ op hc)
      rw [SearchComplete.numberReps_shape2 op hs 0]
      obtain ⟨w1, w2, _⟩ := WF.parse_wf _ _ _ _ _ _ hp (Nat.le_refl 1) (hns op s hp)
      obtain ⟨g1, g2⟩ := parse_shape _ _ _ _ _ _ hp
      exact ⟨w1, g1, g2, (SearchComplete.parse_NE _ _).1 _ _ _ _ hp, w2⟩

end Rx.Clean2Api
