/-
  Proofs/LawLemmas — helper lemmas for Props/C20 (regular-expression laws on `OpR`, and the
  quantifier spellings `{1}` / `{0}` that `pieceQuant` identifies).
-/
import RxModel.Spec.OpLang
import RxModel.Model.Parser
import RxModel.Proofs.MiscLemmas
namespace Rx

/-! ## `IterR` arithmetic -/

theorem IterR.add {Rel : Nat → Nat → Prop} {m n p q r : Nat}
    (h1 : IterR Rel m p q) (h2 : IterR Rel n q r) : IterR Rel (m + n) p r := by
  induction h2 with
  | zero => exact h1
  | succ _ hr ih => exact IterR.succ (ih h1) hr

theorem IterR.split {Rel : Nat → Nat → Prop} (m : Nat) : ∀ (n : Nat) {p r : Nat},
    IterR Rel (m + n) p r → ∃ q, IterR Rel m p q ∧ IterR Rel n q r := by
  intro n
  induction n with
  | zero => intro p r h; exact ⟨r, h, IterR.zero r⟩
  | succ n ih =>
    intro p r h
    have h' : IterR Rel ((m + n) + 1) p r := h
    cases h' with
    | succ h0 hr =>
      obtain ⟨q, hq1, hq2⟩ := ih h0
      exact ⟨q, hq1, IterR.succ hq2 hr⟩

theorem IterR.zero_iff {Rel : Nat → Nat → Prop} {p q : Nat} : IterR Rel 0 p q ↔ q = p := by
  constructor
  · intro h; cases h; rfl
  · intro h; subst h; exact IterR.zero _

theorem IterR.one_iff {Rel : Nat → Nat → Prop} {p q : Nat} : IterR Rel 1 p q ↔ Rel p q := by
  constructor
  · intro h
    cases h with
    | succ h0 hr => cases h0; exact hr
  · intro h; exact IterR.succ (IterR.zero _) h

theorem IterR.single {Rel : Nat → Nat → Prop} {p q : Nat} (h : Rel p q) : IterR Rel 1 p q :=
  IterR.one_iff.2 h

/-- prepend a step -/
theorem IterR.cons {Rel : Nat → Nat → Prop} {k p q r : Nat} (h : Rel p q) (ht : IterR Rel k q r) :
    IterR Rel (k + 1) p r := by
  have := IterR.add (IterR.single h) ht
  rwa [Nat.add_comm] at this

/-- inversion at the first step -/
theorem IterR.uncons {Rel : Nat → Nat → Prop} {k p r : Nat} (h : IterR Rel (k + 1) p r) :
    ∃ q, Rel p q ∧ IterR Rel k q r := by
  have h' : IterR Rel (1 + k) p r := by rwa [Nat.add_comm]
  obtain ⟨q, h1, h2⟩ := IterR.split 1 k h'
  exact ⟨q, IterR.one_iff.1 h1, h2⟩

/-! ## the quantifier spellings `{1}` and `{0}` -/

/-- `ret{…}` with bounds (1,1), not followed by `?`: the terminal itself -/
theorem pieceQuant_brace_one (c : PC) (ret : Op) (s s' : PS) (hlt : s.idx < c.len) (hq : c.at s.idx = 123)
    (hb : bracket c s = .ok () s') (hmin : s'.bmin = 1) (hmax : s'.bmax = 1)
    (hnr : (decide (s'.idx < c.len) && c.at s'.idx == 63) = false)
    (hna : isAnchor ret = false) (hnz : mzs ret ≠ ZLS_ANYWHERE) :
    pieceQuant c ret s = .ok ret s' := by
  unfold pieceQuant
  rw [if_neg (by omega)]
  simp only [hq, hb]
  simp [hna, hnz, hnr, hmin, hmax]

/-- `ret{…}` with bounds (0,0), not followed by `?`: nothing -/
theorem pieceQuant_brace_zero (c : PC) (ret : Op) (s s' : PS) (hlt : s.idx < c.len) (hq : c.at s.idx = 123)
    (hb : bracket c s = .ok () s') (hmin : s'.bmin = 0) (hmax : s'.bmax = 0)
    (hnr : (decide (s'.idx < c.len) && c.at s'.idx == 63) = false)
    (hnz : mzs ret ≠ ZLS_ANYWHERE) :
    pieceQuant c ret s = .ok .nothing s' := by
  unfold pieceQuant
  rw [if_neg (by omega)]
  simp only [hq, hb]
  cases hna : isAnchor ret
  · simp [hnz, hnr, hmin, hmax]
  · simp [hnr, hmin, mzs]

/-- no reluctant marker at position `i` when the pattern continues with `rest`, `rest` not
    starting with `?` -/
theorem PC.no_reluctant {c : PC} {i : Nat} {rest : List Nat} (h : c.pat.drop i = rest)
    (hnr : rest.head? ≠ some 63) : (decide (i < c.len) && c.at i == 63) = false := by
  cases rest with
  | nil => simp [PC.drop_nil h]
  | cons x t =>
    obtain ⟨_, hx, _⟩ := PC.drop_cons h
    have : x ≠ 63 := by intro e; apply hnr; simp [e]
    simp [hx, this]

/-- `{d}` for a single digit `d`, not followed by `?` -/
theorem bracket_one_digit (c : PC) (s : PS) (d : Nat) (rest : List Nat) (hd : isDigit d = true)
    (hv : Spec.digitsVal [d] ≤ usizeMax)
    (hpat : c.pat.drop s.idx = 123 :: d :: 125 :: rest) (hnr : rest.head? ≠ some 63) :
    s.idx < c.len ∧ c.at s.idx = 123 ∧
    bracket c s = .ok () { s with idx := s.idx + 3, bmin := Spec.digitsVal [d], bmax := Spec.digitsVal [d] } ∧
    (decide (s.idx + 3 < c.len) && c.at (s.idx + 3) == 63) = false := by
  obtain ⟨h1, h2, h3⟩ := PC.drop_cons hpat
  obtain ⟨_, _, h4⟩ := PC.drop_cons h3
  obtain ⟨_, _, h5⟩ := PC.drop_cons h4
  refine ⟨h1, h2, ?_, PC.no_reluctant h5 hnr⟩
  exact bracket_exact' c s [d] rest (by simp) (by simp [hd]) hv hpat

end Rx
