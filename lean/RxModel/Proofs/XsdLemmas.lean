/-
  Proofs/XsdLemmas — helper lemmas for Props/C17 (XSD dialect vs. XPath dialect of the compiler).
-/
import RxModel.Model.Compile
namespace Rx.C17
open Rx

/-- the pattern contains neither `^` nor `$` -/
def noAnchorChars (pat : List Nat) : Bool := pat.all (fun c => c != 94 && c != 36)

mutual
/-- no XPath-only construct in a compiled tree: no anchors, no reluctant repeat, no back-reference -/
def xsdOnly : Op → Bool
  | .bol | .eol => false
  | .backref _ => false
  | .rfixed _ _ _ _ => false
  | .rep _ c _ _ g => g && xsdOnly c
  | .capture _ c => xsdOnly c
  | .choice bs => xsdOnlyL bs
  | .seq ops => xsdOnlyL ops
  | .gfixed c _ _ _ => xsdOnly c
  | .unamb c _ _ => xsdOnly c
  | _ => true
termination_by structural o => o
def xsdOnlyL : List Op → Bool
  | [] => true
  | o :: os => xsdOnly o && xsdOnlyL os
termination_by structural l => l
end

/-! ### the same context with the dialect bit cleared -/

/-- the context `c` with `xsd := false` -/
def nx (c : PC) : PC := { c with fl := { c.fl with xsd := false } }

@[simp] theorem nx_at (c : PC) (i : Nat) : (nx c).at i = c.at i := rfl
@[simp] theorem nx_len (c : PC) : (nx c).len = c.len := rfl
@[simp] theorem nx_pat (c : PC) : (nx c).pat = c.pat := rfl
@[simp] theorem nx_env (c : PC) : (nx c).env = c.env := rfl
@[simp] theorem nx_xsd (c : PC) : (nx c).fl.xsd = false := rfl
@[simp] theorem nx_caseBlind (c : PC) : (nx c).fl.caseBlind = c.fl.caseBlind := rfl
@[simp] theorem nx_singleLine (c : PC) : (nx c).fl.singleLine = c.fl.singleLine := rfl
@[simp] theorem nx_thereFollows (c : PC) (i : Nat) (l : List Nat) :
    thereFollows (nx c) i l = thereFollows c i l := rfl

@[simp] theorem nx_takeDigitRun (c : PC) (f i a : Nat) :
    takeDigitRun (nx c) f i a = takeDigitRun c f i a := by
  induction f generalizing i a with
  | zero => rfl
  | succ f ih => simp only [takeDigitRun, nx_len, nx_at, ih]; rfl

@[simp] theorem nx_findClose (c : PC) (f i : Nat) :
    findClose (nx c) f i = findClose c f i := by
  induction f generalizing i with
  | zero => rfl
  | succ f ih => simp only [findClose, nx_len, nx_at, ih]

@[simp] theorem nx_bracket (c : PC) (s : PS) : bracket (nx c) s = bracket c s := by
  simp only [bracket, nx_len, nx_at, nx_takeDigitRun]; rfl

@[simp] theorem nx_addCharCI (c : PC) (ch : Nat) (rs : Ranges) :
    addCharCI (nx c) ch rs = addCharCI c ch rs := rfl

@[simp] theorem nx_addClosureRange (c : PC) (f a b : Nat) (rs : Ranges) :
    addClosureRange (nx c) f a b rs = addClosureRange c f a b rs := by
  induction f generalizing a rs with
  | zero => rfl
  | succ f ih => simp only [addClosureRange, nx_env, ih]

@[simp] theorem nx_clsSimple (c : PC) (i : Nat) (k : ClsSt) (o : Option Nat) :
    clsSimple (nx c) i k o = clsSimple c i k o := by
  simp only [clsSimple, nx_thereFollows, nx_caseBlind, nx_addClosureRange, nx_addCharCI]; rfl

/-! ### refinement of parser results -/

/-- whatever `a` accepts, `b` accepts with the same result -/
def PLe {α : Type} (a b : PRes α) : Prop := ∀ r s, a = .ok r s → b = .ok r s

theorem PLe.rfl' {α : Type} {a : PRes α} : PLe a a := fun _ _ h => h
theorem PLe.err {α : Type} {e : Err} {b : PRes α} : PLe (.err e) b := fun _ _ h => by cases h
theorem PLe.ite {α : Type} {p : Prop} {i1 i2 : Decidable p} {a a' b b' : PRes α}
    (h1 : p → PLe a a') (h2 : ¬p → PLe b b') : PLe (@ite _ p i1 a b) (@ite _ p i2 a' b') := by
  by_cases hp : p
  · rw [if_pos hp, if_pos hp]; exact h1 hp
  · rw [if_neg hp, if_neg hp]; exact h2 hp
theorem PLe.ite_err_left {α : Type} {p : Prop} {i1 : Decidable p} {e : Err} {b b' : PRes α}
    (h : ¬p → PLe b b') : PLe (@_root_.ite _ p i1 (PRes.err e) b) b' := by
  by_cases hp : p
  · rw [if_pos hp]; exact PLe.err
  · rw [if_neg hp]; exact h hp
theorem PLe.cases {α : Type} {a b : PRes α} (h : PLe a b) : (∃ e, a = .err e) ∨ b = a := by
  cases a with
  | err e => exact .inl ⟨e, rfl⟩
  | ok r s => exact .inr (h r s rfl)

/-- follow the common branch structure of the two runs -/
macro "ple_auto" : tactic =>
  `(tactic| repeat' (first | exact PLe.err | exact PLe.rfl' | (apply PLe.ite <;> intro _) | split))

/-- use `h : PLe x y` where the goal matches on `x` (left) and `y` (right) -/
macro "ple_bind" h:term : tactic =>
  `(tactic| (rcases (PLe.cases $h) with ⟨e, he⟩ | he <;> rw [he]))

/-- split the left match on a sub-parser call and transport the `ok` case to the right with `h` -/
macro "ple_next" h:term : tactic =>
  `(tactic| (split <;> first | exact PLe.err | (rename_i heq; rw [($h) _ _ heq]; dsimp -zeta only)))

/-! ### `escape` -/

theorem escape_le (c : PC) (hx : c.fl.xsd = true) (s : PS) (b : Bool) :
    PLe (escape c s b) (escape (nx c) s b) := by
  unfold escape
  simp only [nx_at, nx_len, nx_env, nx_pat, nx_xsd, nx_findClose, hx, if_true]
  ple_auto

/-! ### character classes -/

theorem class_le (c : PC) (hx : c.fl.xsd = true) (f : Nat) :
    (∀ s, PLe (parseClass c f s) (parseClass (nx c) f s)) ∧
    (∀ s k, PLe (classLoop c f s k) (classLoop (nx c) f s k)) := by
  induction f with
  | zero =>
    refine ⟨fun s => ?_, fun s k => ?_⟩
    · rw [parseClass]; exact PLe.err
    · rw [classLoop]; exact PLe.err
  | succ f ih =>
    obtain ⟨ihC, ihL⟩ := ih
    refine ⟨fun s => ?_, fun s k => ?_⟩
    · simp only [parseClass, nx_at, nx_len, nx_thereFollows]
      ple_auto
      all_goals exact ihL _ _
    · simp only [classLoop, nx_at, nx_len, nx_thereFollows, nx_clsSimple]
      ple_bind (escape_le c hx s true) <;>
      ple_bind (ihC { s with idx := s.idx + 1 }) <;>
      ple_auto
      all_goals exact ihL _ _

/-! ### atoms -/

/-- no character of the pattern is `^` or `$` (also beyond the end, where `PC.at` is 0) -/
def NoAnch (c : PC) : Prop := ∀ i, (c.at i == 94) = false ∧ (c.at i == 36) = false

theorem noAnch_of (pat : List Nat) (fl : CFlags) (env : Env) (h : noAnchorChars pat = true) :
    NoAnch { pat := pat, fl := fl, env := env } := by
  intro i
  simp only [PC.at, List.getD_eq_getElem?_getD]
  simp only [noAnchorChars, List.all_eq_true, Bool.and_eq_true, bne_iff_ne, ne_eq] at h
  cases hi : pat[i]? with
  | none => simp
  | some x =>
    have := h x (List.mem_of_getElem? hi)
    simp [this.1, this.2]

/-- replace `c.len`, `(nx c).len` by one variable and `c.at`, `(nx c).at` by another, everywhere
    (also inside `Decidable` instances, which `simp` does not rewrite) -/
macro "nx_gen" c:term "with" n:ident g:ident : tactic =>
  `(tactic| (
    generalize hn : PC.len $c = $n at *
    generalize hn' : PC.len (nx $c) = n' at *
    have e1 : $n = n' := hn.symm.trans hn'
    subst e1
    generalize hg : PC.at $c = $g at *
    generalize hg' : PC.at (nx $c) = g' at *
    have e2 : $g = g' := hg.symm.trans hg'
    subst e2
    clear hn hn' hg hg'))

theorem parseAtomGo_le (c : PC) (hx : c.fl.xsd = true) (hna : NoAnch c) (f : Nat) :
    ∀ s ub, PLe (parseAtomGo c f s ub) (parseAtomGo (nx c) f s ub) := by
  induction f with
  | zero => intro s ub; rw [parseAtomGo, parseAtomGo]; exact PLe.rfl'
  | succ f ih =>
    intro s ub
    simp only [parseAtomGo, nx_xsd, hx]
    unfold NoAnch at hna
    nx_gen c with n g
    simp only [(hna _).1, (hna _).2, Bool.or_self,
      Bool.false_and, Bool.not_true, Bool.and_false, Bool.false_eq_true, if_false]
    have tail : ∀ s2 : PS, PLe
        (if (g s2.idx == 93 || g s2.idx == 46 || g s2.idx == 91 || g s2.idx == 40 || g s2.idx == 41 ||
            g s2.idx == 124) = true then PRes.ok ub s2
          else if isQuantChar (g s2.idx) = true then
            if ub.isEmpty = true then PRes.err Err.syntax else PRes.ok ub s2
          else if (g s2.idx == 125) = true then PRes.err Err.syntax
          else if (g s2.idx == 92) = true then
            match escape c s2 false with
            | PRes.err e => PRes.err e
            | PRes.ok (Esc.chr x) s' => parseAtomGo c f s' (ub ++ [x])
            | PRes.ok _ s' => PRes.ok ub { s' with idx := s2.idx }
          else parseAtomGo c f { s2 with idx := s2.idx + 1 } (ub ++ [g s2.idx]))
        (if (g s2.idx == 93 || g s2.idx == 46 || g s2.idx == 91 || g s2.idx == 40 || g s2.idx == 41 ||
            g s2.idx == 124) = true then PRes.ok ub s2
          else if isQuantChar (g s2.idx) = true then
            if ub.isEmpty = true then PRes.err Err.syntax else PRes.ok ub s2
          else if (g s2.idx == 125) = true then PRes.err Err.syntax
          else if (g s2.idx == 92) = true then
            match escape (nx c) s2 false with
            | PRes.err e => PRes.err e
            | PRes.ok (Esc.chr x) s' => parseAtomGo (nx c) f s' (ub ++ [x])
            | PRes.ok _ s' => PRes.ok ub { s' with idx := s2.idx }
          else parseAtomGo (nx c) f { s2 with idx := s2.idx + 1 } (ub ++ [g s2.idx])) := by
      intro s2
      ple_bind (escape_le c hx s2 false) <;> ple_auto
      all_goals exact ih _ _
    apply PLe.ite <;> intro h1
    · by_cases hA : s.idx + 1 < n
      · by_cases hB : (g s.idx == 92) = true
        · simp only [hA, hB, if_true]
          ple_bind (escape_le c hx s false)
          · exact PLe.err
          · split
            · exact PLe.rfl'
            · exact PLe.rfl'
            · exact tail _
        · simp only [hA, hB, Bool.false_eq_true, if_true, if_false]
          split
          · exact PLe.rfl'
          · exact PLe.rfl'
          · exact tail _
      · simp only [hA, if_false]
        exact tail _
    · exact PLe.rfl'

theorem parseAtom_le (c : PC) (hx : c.fl.xsd = true) (hna : NoAnch c) (s : PS) :
    PLe (parseAtom c s) (parseAtom (nx c) s) := by
  simp only [parseAtom, nx_len]
  ple_bind (parseAtomGo_le c hx hna (c.len + 2) s []) <;> ple_auto

/-! ### quantifiers -/

theorem pieceQuant_le (c : PC) (hx : c.fl.xsd = true) (ret : Op) (s : PS) :
    PLe (pieceQuant c ret s) (pieceQuant (nx c) ret s) := by
  unfold pieceQuant
  simp -zeta only [nx_xsd, nx_bracket, hx, Bool.and_true, Bool.and_false, Bool.false_eq_true, if_false]
  nx_gen c with n g
  apply PLe.ite <;> intro h1
  · exact PLe.rfl'
  · extract_lets q r
    clear_value r
    cases r with
    | err e => exact PLe.err
    | ok hasQ s1 =>
      dsimp -zeta only
      extract_lets qt0 qt reluctant
      apply PLe.ite_err_left
      intro _
      exact PLe.rfl'

/-! ### the expression parser -/

theorem parse_le (c : PC) (hx : c.fl.xsd = true) (hna : NoAnch c) (f : Nat) :
    (∀ s top, PLe (parseExpr c f s top) (parseExpr (nx c) f s top)) ∧
    (∀ s acc, PLe (parseBranches c f s acc) (parseBranches (nx c) f s acc)) ∧
    (∀ s cur, PLe (parseBranch c f s cur) (parseBranch (nx c) f s cur)) ∧
    (∀ s, PLe (parseTerminal c f s) (parseTerminal (nx c) f s)) := by
  induction f with
  | zero =>
    refine ⟨fun s top => ?_, fun s acc => ?_, fun s cur => ?_, fun s => ?_⟩
    · rw [parseExpr]; exact PLe.err
    · rw [parseBranches]; exact PLe.err
    · rw [parseBranch]; exact PLe.err
    · rw [parseTerminal]; exact PLe.err
  | succ f ih =>
    obtain ⟨ihE, ihBs, ihB, ihT⟩ := ih
    refine ⟨fun s top => ?_, fun s acc => ?_, fun s cur => ?_, fun s => ?_⟩
    · simp only [parseExpr, nx_xsd, hx, if_true, Bool.false_eq_true, if_false]
      nx_gen c with n g
      by_cases hP : (!top && g s.idx == 40) = true <;>
      by_cases hA : (decide (s.idx + 2 < n) && g (s.idx + 1) == 63 && g (s.idx + 2) == 58) = true <;>
      simp only [hP, hA, if_true, if_false, Bool.false_eq_true] <;>
      first
        | exact PLe.err
        | (ple_next (ihB _ _); ple_next (ihBs _ _); exact PLe.rfl')
    · simp only [parseBranches, nx_at, nx_len]
      apply PLe.ite <;> intro _
      · ple_next (ihB _ _)
        exact ihBs _ _
      · exact PLe.rfl'
    · simp only [parseBranch, nx_at, nx_len]
      apply PLe.ite <;> intro _
      · ple_next (ihT _)
        ple_next (pieceQuant_le c hx _ _)
        exact ihB _ _
      · exact PLe.rfl'
    · simp only [parseTerminal, nx_xsd, nx_singleLine, nx_len, nx_at, hx, (hna _).1, (hna _).2,
        Bool.false_and, Bool.not_true, Bool.and_false, Bool.false_eq_true, if_false]
      repeat' first
        | exact PLe.err | (apply PLe.ite <;> intro _) | exact ihE _ _ | exact parseAtom_le c hx hna _
        | with_reducible exact PLe.rfl'
      · exact PLe.rfl'
      · ple_next ((class_le c hx _).1 _)
        exact PLe.rfl'
      · ple_next (escape_le c hx _ _)
        all_goals first | exact PLe.rfl' | exact parseAtom_le c hx hna _

/-! ### nothing after the parser reads the dialect bit -/

mutual
theorem optimize_xsd (env : Env) (fl : CFlags) :
    ∀ o : Op, optimize env { fl with xsd := false } o = optimize env fl o
  | .capture g c => by simp only [optimize, optimize_xsd env fl c]
  | .choice bs => by simp only [optimize, optimizeL_xsd env fl bs]
  | .seq [] => by simp only [optimize]
  | .seq [o] => by simp only [optimize]
  | .seq (o :: o2 :: os) => by simp only [optimize, optimizeSeq_xsd env fl (o :: o2 :: os)]
  | .rep id c mn mx g => by simp only [optimize, optimize_xsd env fl c]
  | .gfixed c mn mx len => by simp only [optimize, optimize_xsd env fl c]
  | .rfixed c mn mx len => by simp only [optimize, optimize_xsd env fl c]
  | .unamb c mn mx => by simp only [optimize, optimize_xsd env fl c]
  | .bol | .eol | .nothing | .endProgram | .atom _ | .cls _ | .backref _ => by simp only [optimize]
theorem optimizeL_xsd (env : Env) (fl : CFlags) :
    ∀ l : List Op, optimizeL env { fl with xsd := false } l = optimizeL env fl l
  | [] => by simp only [optimizeL]
  | o :: os => by simp only [optimizeL, optimize_xsd env fl o, optimizeL_xsd env fl os]
theorem optimizeSeq_xsd (env : Env) (fl : CFlags) :
    ∀ l : List Op, optimizeSeq env { fl with xsd := false } l = optimizeSeq env fl l
  | [] => by simp only [optimizeSeq]
  | [o] => by simp only [optimizeSeq, optimize_xsd env fl o]
  | o :: nxt :: os => by
    simp only [optimizeSeq, optimize_xsd env fl o, optimizeSeq_xsd env fl (nxt :: os)]
end

theorem mkProgram_xsd (pat : List Nat) (op : Op) (n : Nat) (fl : CFlags) (hb : Bool) :
    mkProgram pat op n { fl with xsd := false } hb = mkProgram pat op n fl hb := rfl

theorem mkBareProgram_xsd (pat : List Nat) (op : Op) (n : Nat) (fl : CFlags) (hb : Bool) :
    mkBareProgram pat op n { fl with xsd := false } hb = mkBareProgram pat op n fl hb := rfl

theorem compileCore_le (env : Env) (fl : CFlags) (hx : fl.xsd = true) (pat : List Nat)
    (hna : NoAnch { pat := pat, fl := fl, env := env }) (opt : Bool) (pr : Prog)
    (h : compileCore env fl pat opt = .ok pr) :
    compileCore env { fl with xsd := false } pat opt = .ok pr := by
  unfold compileCore at h ⊢
  by_cases hl : fl.literal = true
  · rw [if_pos hl] at h
    rw [if_pos (show ({ fl with xsd := false } : CFlags).literal = true from hl)]
    exact h
  · rw [if_neg hl] at h
    rw [if_neg (show ¬ ({ fl with xsd := false } : CFlags).literal = true from hl)]
    dsimp only at h ⊢
    cases hp : parseExpr { pat := pat, fl := fl, env := env } (4 * pat.length + 16) {} true with
    | err e => rw [hp] at h; cases h
    | ok op s =>
      rw [hp] at h
      have hp' : parseExpr { pat := pat, fl := { fl with xsd := false }, env := env }
          (4 * pat.length + 16) {} true = .ok op s :=
        (parse_le { pat := pat, fl := fl, env := env } hx hna _).1 _ _ op s hp
      rw [hp']
      simp only [optimize_xsd, mkProgram_xsd, mkBareProgram_xsd] at h ⊢
      exact h

/-- in the XSD dialect the atom loop takes `^` / `$` into the atom -/
theorem parseAtomGo_anchor_pushed (c : PC) (hx : c.fl.xsd = true) (f : Nat) (s : PS) (ub : List Nat)
    (hlt : s.idx < c.len) (h : c.at s.idx = 94 ∨ c.at s.idx = 36)
    (hnq : ¬ (s.idx + 1 < c.len ∧ isQuantChar (c.at (s.idx + 1)) = true ∧ ub ≠ [])) :
    parseAtomGo c (f + 1) s ub = parseAtomGo c f { s with idx := s.idx + 1 } (ub ++ [c.at s.idx]) := by
  rw [parseAtomGo]
  have h92 : (c.at s.idx == 92) = false := by rcases h with h | h <;> simp [h]
  have hlook : (if s.idx + 1 < c.len then
        (PRes.ok (isQuantChar (c.at (s.idx + 1)) && !ub.isEmpty) s : PRes Bool) else .ok false s)
      = .ok false s := by
    by_cases h1 : s.idx + 1 < c.len
    · rw [if_pos h1]
      cases hq : isQuantChar (c.at (s.idx + 1)) with
      | false => rfl
      | true =>
        cases ub with
        | nil => rfl
        | cons a as => exact absurd ⟨h1, hq, List.cons_ne_nil _ _⟩ hnq
    · rw [if_neg h1]
  simp only [hlt, if_true, h92, Bool.false_eq_true, if_false, hlook]
  rcases h with h | h <;> simp [h, hx, isQuantChar]

/-! ### flags -/

/-- whatever `a` accepts, `b` accepts with the dialect bit cleared -/
def OLe (a b : Option Flags) : Prop := ∀ fl, a = some fl → b = some { fl with xsd := false }

theorem OLe.none {b : Option Flags} : OLe none b := fun _ h => by cases h
theorem OLe.ite {p : Prop} {i1 i2 : Decidable p} {a a' b b' : Option Flags}
    (h1 : p → OLe a a') (h2 : ¬p → OLe b b') : OLe (@_root_.ite _ p i1 a b) (@_root_.ite _ p i2 a' b') := by
  by_cases hp : p
  · rw [if_pos hp, if_pos hp]; exact h1 hp
  · rw [if_neg hp, if_neg hp]; exact h2 hp
theorem OLe.ite_none_left {p : Prop} {i1 : Decidable p} {b b' : Option Flags}
    (h : ¬p → OLe b b') : OLe (@_root_.ite _ p i1 Option.none b) b' := by
  by_cases hp : p
  · rw [if_pos hp]; exact OLe.none
  · rw [if_neg hp]; exact h hp

theorem parseFlagsTail_dialect (fs : List Nat) :
    ∀ r : Flags, OLe (parseFlagsTail fs r) (parseFlagsTail fs { r with xsd := false }) := by
  induction fs with
  | nil => intro r fl h; simp only [parseFlagsTail, Option.some.injEq] at h ⊢; rw [← h]
  | cons c cs ih =>
    intro r
    rw [parseFlagsTail, parseFlagsTail]
    repeat' first | exact OLe.none | exact ih _ | (apply OLe.ite <;> intro _)

theorem parseFlagsGo_dialect (fs : List Nat) :
    ∀ r : Flags, OLe (parseFlagsGo fs r) (parseFlagsGo fs { r with xsd := false }) := by
  induction fs with
  | nil => intro r fl h; simp only [parseFlagsGo, Option.some.injEq] at h ⊢; rw [← h]
  | cons c cs ih =>
    intro r
    rw [parseFlagsGo, parseFlagsGo]
    simp only [Bool.false_eq_true, if_false]
    repeat' first
      | exact OLe.none | exact ih _ | exact parseFlagsTail_dialect _ _
      | (apply OLe.ite <;> intro _) | (apply OLe.ite_none_left; intro _)

theorem parseFlagsGo_q (pre post : List Nat) (hpre : ∀ c ∈ pre, c ≠ 59) :
    ∀ r : Flags, r.xsd = true → parseFlagsGo (pre ++ 113 :: post) r = none := by
  induction pre with
  | nil => intro r hr; simp [parseFlagsGo, hr]
  | cons c cs ih =>
    intro r hr
    have hc : c ≠ 59 := hpre c (List.mem_cons_self ..)
    have ih' := ih (fun x hx => hpre x (List.mem_cons_of_mem _ hx))
    simp only [List.cons_append, parseFlagsGo, beq_iff_eq, hc, if_false, hr, if_true]
    repeat' split
    all_goals first | rfl | exact ih' _ hr | exact ih' _ rfl

/-! ### what the XSD parser can produce -/

/-- every accepted result satisfies `P` -/
def POk {α : Type} (P : α → PS → Prop) (x : PRes α) : Prop := ∀ r s, x = .ok r s → P r s

theorem POk.err {α : Type} {P : α → PS → Prop} {e : Err} : POk P (.err e) := fun _ _ h => by cases h
theorem POk.ok {α : Type} {P : α → PS → Prop} {a : α} {s : PS} (h : P a s) : POk P (.ok a s) :=
  fun _ _ h' => by cases h'; exact h
theorem POk.ite {α : Type} {P : α → PS → Prop} {p : Prop} {i1 : Decidable p} {a b : PRes α}
    (h1 : p → POk P a) (h2 : ¬p → POk P b) : POk P (@_root_.ite _ p i1 a b) := by
  by_cases hp : p
  · rw [if_pos hp]; exact h1 hp
  · rw [if_neg hp]; exact h2 hp
theorem POk.mono {α : Type} {P Q : α → PS → Prop} {x : PRes α} (h : POk P x)
    (hPQ : ∀ a s, P a s → Q a s) : POk Q x := fun r s hx => hPQ r s (h r s hx)

/-- the state predicate "the back-reference flag is `b`" -/
def HB {α : Type} (b : Bool) : α → PS → Prop := fun _ s => s.hasBackrefs = b

/-- "the tree is XSD-only and the back-reference flag is `b`" -/
def XB (b : Bool) : Op → PS → Prop := fun op s => xsdOnly op = true ∧ s.hasBackrefs = b

/-- split the match on a sub-parser call; in the `ok` case record what `h : POk Q call` gives -/
macro "pok_next" h:term "with" h1:ident : tactic =>
  `(tactic| (split <;> first | exact POk.err | (rename_i heq; have $h1 := ($h) _ _ heq; try dsimp only [HB, XB] at $h1:ident)))

theorem escape_ok (c : PC) (hx : c.fl.xsd = true) (b : Bool) (s : PS) (hb : s.hasBackrefs = b)
    (inB : Bool) :
    POk (fun r s' => (∀ n, r ≠ .backref n) ∧ s'.hasBackrefs = b) (escape c s inB) := by
  unfold escape
  simp only [hx, if_true]
  repeat' first
    | exact POk.err
    | (apply POk.ite <;> intro _)
    | (refine POk.ok ⟨?_, hb⟩; intro n h; cases h)
    | split

theorem bracket_ok (c : PC) (b : Bool) (s : PS) (hb : s.hasBackrefs = b) :
    POk (HB b) (bracket c s) := by
  unfold bracket
  repeat' first
    | exact POk.err
    | (apply POk.ite <;> intro _)
    | (apply POk.ok; exact hb)

theorem class_ok (c : PC) (hx : c.fl.xsd = true) (b : Bool) (f : Nat) :
    (∀ s, s.hasBackrefs = b → POk (HB b) (parseClass c f s)) ∧
    (∀ s k, s.hasBackrefs = b → POk (HB b) (classLoop c f s k)) := by
  induction f with
  | zero =>
    refine ⟨fun s _ => ?_, fun s k _ => ?_⟩
    · rw [parseClass]; exact POk.err
    · rw [classLoop]; exact POk.err
  | succ f ih =>
    obtain ⟨ihC, ihL⟩ := ih
    refine ⟨fun s hb => ?_, fun s k hb => ?_⟩
    · simp only [parseClass]
      repeat' first
        | exact POk.err
        | (apply POk.ite <;> intro _)
        | exact ihL _ _ hb
    · simp only [classLoop]
      repeat' first
        | exact POk.err
        | (apply POk.ite <;> intro _)
        | exact ihL _ _ hb
        | (apply POk.ok; exact hb)
      all_goals first
        | (pok_next (escape_ok c hx b s hb true) with h1 <;>
            repeat' first
              | exact POk.err | (apply POk.ite <;> intro _) | exact ihL _ _ h1.2 | split)
        | (pok_next (ihC { s with idx := s.idx + 1 } hb) with h1 <;>
            repeat' first
              | exact POk.err | (apply POk.ite <;> intro _) | exact ihL _ _ h1 | split)
        | (repeat' first | exact POk.err | exact ihL _ _ hb | split)

theorem parseAtomGo_ok (c : PC) (hx : c.fl.xsd = true) (b : Bool) (f : Nat) :
    ∀ s ub, s.hasBackrefs = b → POk (HB b) (parseAtomGo c f s ub) := by
  induction f with
  | zero => intro s ub hb; rw [parseAtomGo]; exact POk.ok hb
  | succ f ih =>
    intro s ub hb
    rw [parseAtomGo]
    apply POk.ite <;> intro _
    · extract_lets look
      have hlook : POk (HB b) look := by
        simp only [look]
        repeat' first
          | exact POk.err | (apply POk.ite <;> intro _) | exact POk.ok hb
        pok_next (escape_ok c hx b s hb false) with h1
        exact POk.ok h1.2
      clear_value look
      cases look with
      | err e => exact POk.err
      | ok bq s2 =>
        have h2 : s2.hasBackrefs = b := hlook _ _ rfl
        cases bq with
        | true => exact POk.ok h2
        | false =>
          dsimp only
          repeat' first
            | exact POk.err | (apply POk.ite <;> intro _) | exact POk.ok h2 | exact ih _ _ h2
          pok_next (escape_ok c hx b s2 h2 false) with h3
          all_goals first | exact ih _ _ h3.2 | exact POk.ok h3.2
    · exact POk.ok hb

theorem parseAtom_ok (c : PC) (hx : c.fl.xsd = true) (b : Bool) (s : PS) (hb : s.hasBackrefs = b) :
    POk (fun op s' => xsdOnly op = true ∧ s'.hasBackrefs = b) (parseAtom c s) := by
  rw [parseAtom]
  pok_next (parseAtomGo_ok c hx b _ s [] hb) with h1
  apply POk.ite <;> intro _
  · exact POk.err
  · exact POk.ok ⟨by simp [xsdOnly], h1⟩

theorem xsdOnlyL_append (l1 l2 : List Op) :
    xsdOnlyL (l1 ++ l2) = (xsdOnlyL l1 && xsdOnlyL l2) := by
  induction l1 with
  | nil => simp [xsdOnlyL]
  | cons o os ih => simp [xsdOnlyL, ih, Bool.and_assoc]

theorem xsdOnly_makeSequence (a b : Op) (ha : xsdOnly a = true) (hb : xsdOnly b = true) :
    xsdOnly (makeSequence a b) = true := by
  unfold makeSequence
  split <;> simp_all [xsdOnly, xsdOnlyL, xsdOnlyL_append]

theorem pieceQuant_ok (c : PC) (hx : c.fl.xsd = true) (b : Bool) (ret : Op) (s : PS)
    (hret : xsdOnly ret = true) (hb : s.hasBackrefs = b) :
    POk (fun op s' => xsdOnly op = true ∧ s'.hasBackrefs = b) (pieceQuant c ret s) := by
  rw [pieceQuant]
  simp -zeta only [hx, Bool.and_true]
  apply POk.ite <;> intro _
  · exact POk.ok ⟨hret, hb⟩
  · extract_lets q r
    have hr : POk (HB b) r := by
      simp only [r]
      repeat' first
        | exact POk.err | (apply POk.ite <;> intro _) | exact POk.ok hb
      pok_next (bracket_ok c b s hb) with h1
      exact POk.ok h1
    clear_value r
    cases r with
    | err e => exact POk.err
    | ok hasQ s1 =>
      have h1 : s1.hasBackrefs = b := hr _ _ rfl
      dsimp -zeta only
      extract_lets qt0 qt reluctant s2 greedy mm mn mx
      have hs2 : s2.hasBackrefs = b := by
        simp only [s2]
        split <;> exact h1
      clear_value mx mn mm qt s2
      generalize hpr : (if (hasQ && isAnchor ret) = true then
          (if (qt0 == 63 || qt0 == 42 || (qt0 == 123 && s1.bmin == 0)) = true then
            ((Op.nothing, 0) : Op × Nat) else (ret, 0)) else (ret, qt0)) = pr
      have hp : xsdOnly pr.fst = true := by
        subst hpr
        split
        · split <;> simp [xsdOnly, hret]
        · exact hret
      apply POk.ite <;> intro hrel
      · exact POk.err
      · have hg : greedy = true := by
          have : reluctant = false := Bool.eq_false_iff.mpr hrel
          simp only [greedy, this, Bool.not_false]
        simp only [hg, if_true]
        repeat' first
          | (apply POk.ite <;> intro _)
          | exact POk.ok ⟨by simp [xsdOnly, hp], hs2⟩
          | split

theorem parse_ok (c : PC) (hx : c.fl.xsd = true) (b : Bool) (f : Nat) :
    (∀ s top, s.hasBackrefs = b → POk (XB b) (parseExpr c f s top)) ∧
    (∀ s acc, xsdOnlyL acc = true → s.hasBackrefs = b →
      POk (fun l s' => xsdOnlyL l = true ∧ s'.hasBackrefs = b) (parseBranches c f s acc)) ∧
    (∀ s cur, (∀ o, cur = some o → xsdOnly o = true) → s.hasBackrefs = b →
      POk (XB b) (parseBranch c f s cur)) ∧
    (∀ s, s.hasBackrefs = b → POk (XB b) (parseTerminal c f s)) := by
  induction f with
  | zero =>
    refine ⟨fun s top _ => ?_, fun s acc _ _ => ?_, fun s cur _ _ => ?_, fun s _ => ?_⟩
    · rw [parseExpr]; exact POk.err
    · rw [parseBranches]; exact POk.err
    · rw [parseBranch]; exact POk.err
    · rw [parseTerminal]; exact POk.err
  | succ f ih =>
    obtain ⟨ihE, ihBs, ihB, ihT⟩ := ih
    refine ⟨fun s top hb => ?_, fun s acc hacc hb => ?_, fun s cur hcur hb => ?_, fun s hb => ?_⟩
    · rw [parseExpr]
      simp -zeta only [hx, if_true]
      split
      · exact POk.err
      · rename_i paren s1 heq
        have h1 : s1.hasBackrefs = b := by
          refine (?_ : POk (HB b) _) _ _ heq
          repeat' first
            | exact POk.err | (apply POk.ite <;> intro _) | exact POk.ok hb
        pok_next (ihB s1 none (by simp) h1) with h2
        pok_next (ihBs _ _ (by simp [xsdOnlyL, h2.1]) h2.2) with h3
        extract_lets op
        have hop : xsdOnly op = true := by
          simp only [op]
          split <;> simp_all [xsdOnly, xsdOnlyL]
        clear_value op
        repeat' first
          | exact POk.err
          | (apply POk.ite <;> intro _)
          | exact POk.ok ⟨by simp [xsdOnly, hop], h3.2⟩
          | exact POk.ok ⟨xsdOnly_makeSequence _ _ hop (by simp [xsdOnly]), h3.2⟩
    · rw [parseBranches]
      apply POk.ite <;> intro _
      · pok_next (ihB { s with idx := s.idx + 1 } none (by simp) hb) with h1
        exact ihBs _ _ (by simp [xsdOnlyL_append, xsdOnlyL, hacc, h1.1]) h1.2
      · exact POk.ok ⟨hacc, hb⟩
    · rw [parseBranch]
      apply POk.ite <;> intro _
      · pok_next (ihT s hb) with h1
        pok_next (pieceQuant_ok c hx b _ _ h1.1 h1.2) with h2
        refine ihB _ _ ?_ h2.2
        intro o ho
        cases cur with
        | none => cases ho; exact h2.1
        | some cu => cases ho; exact xsdOnly_makeSequence _ _ (hcur cu rfl) h2.1
      · refine POk.ok ⟨?_, hb⟩
        cases cur with
        | none => simp [xsdOnly]
        | some cu => exact hcur cu rfl
    · rw [parseTerminal]
      simp -zeta only [hx, Bool.not_true, Bool.and_false, Bool.false_eq_true, if_false]
      repeat' first
        | exact POk.err
        | (apply POk.ite <;> intro _)
        | exact ihE _ _ hb
        | exact parseAtom_ok c hx b s hb
        | exact POk.ok ⟨by simp [xsdOnly], hb⟩
      · pok_next ((class_ok c hx b _).1 s hb) with h1
        exact POk.ok ⟨by simp [xsdOnly], h1⟩
      · pok_next (escape_ok c hx b s hb false) with h1
        · exact absurd rfl (h1.1 _)
        · exact parseAtom_ok c hx b _ h1.2
        · exact POk.ok ⟨by simp [xsdOnly], h1.2⟩

end Rx.C17
