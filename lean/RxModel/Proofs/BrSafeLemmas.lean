/-
  Proofs/BrSafeLemmas — state invariants for programs WITH back-references (Props/C05b).

  A. every tree (`sem_idx`, `matchAt_idx`; on the engine as repaired by fix a635aaf, where a
     back-reference treats `end ≤ start` as "no captured text"): no panic site is reachable.
     Invariant `IdxInv ctx st`: no real panic marker is set, and — when the program has the
     `hasBackrefs` flag — both back-reference arrays have length exactly `maxParens`.
     Side condition `brOK`: group / back-reference numbers below `maxParens`, a back-reference only
     under the flag.

  B. the spine fragment (`sem_spine`): when every REFERENCED group is captured in "spine" position
     (reachable from the root through `.seq` and `.capture` nodes only) every back-reference reads a
     CLEAN pair.  (Before the fix this was the fragment on which `e - s` could not underflow; outside
     it the unrepaired engine panicked, e.g. `(?:(a)\1*a){2}` on "aaab".)
     Invariant `BI ctx R st`:
    * no real panic marker is set (only the fuel marker `panicDiverge` may be);
    * both back-reference arrays have length exactly `maxParens`;
    * every group `g ∈ R` is CLEAN: if `startBr[g] = some s` and `endBr[g] = some e` then `s ≤ e`.
  `R` is the list of spine groups already closed to the left of the current node.  A group that is
  not in `R` may be DIRTY (`startBr[g] = new entry position > endBr[g] = old end`: the state left
  behind when a group is re-entered and its body then fails) — nobody reads it, because a
  back-reference `\g` only occurs to the right of the spine capture `g`, and everything to the right
  of it runs only after `captureWrite` has made `g` clean again; nothing to the right writes `g`
  except `clearBeyond`, which keeps a clean group clean (`end := start`).

  Because the set `R` grows along a sequence, the stream calculus is extended to TWO invariants:
  `Step.Inv2 I J s` — the state at exhaustion satisfies `I`, the state at every yield satisfies the
  stronger `J`, provided the consumer hands back states satisfying `J`.

  Both parts go through ONE induction over the tree, `sem_free`, generic in the invariant
  (`FreeEnv`) and in the shape check (`freeOKg bOK cOK`); the search loop above `match_at` is
  generic in the predicate on states (`matchesFrom_Q`).
-/
import RxModel.Proofs.InvLemmas
namespace Rx

/-! ## the fragment -/

mutual
/-- generic shape check: every back-reference number satisfies `bOK`, every capture number `cOK` -/
def freeOKg (bOK cOK : Nat → Bool) : Op → Bool
  | .backref g => bOK g
  | .capture g c => cOK g && freeOKg bOK cOK c
  | .choice bs => freeOKgL bOK cOK bs
  | .seq ops => freeOKgL bOK cOK ops
  | .rep _ c _ _ _ => freeOKg bOK cOK c
  | .gfixed c _ _ _ => freeOKg bOK cOK c
  | .rfixed c _ _ _ => freeOKg bOK cOK c
  | .unamb c _ _ => freeOKg bOK cOK c
  | _ => true
termination_by structural o => o
def freeOKgL (bOK cOK : Nat → Bool) : List Op → Bool
  | [] => true
  | o :: os => freeOKg bOK cOK o && freeOKgL bOK cOK os
termination_by structural l => l
end

/-- a subtree that may sit anywhere (under quantifiers, in alternatives): it captures no group of
    `R` (and only groups `< mp`); every back-reference in it is to a group of `R` (and `< mp`) -/
def freeOK (mp : Nat) (R : List Nat) (op : Op) : Bool :=
  freeOKg (fun g => R.contains g && decide (g < mp)) (fun g => !R.contains g && decide (g < mp)) op

/-- no capture and no back-reference at all (the precondition trees of a program) -/
def plainTree (op : Op) : Bool := freeOKg (fun _ => false) (fun _ => false) op

/-- every capture and back-reference number is below `mp` -/
def groupsBelow (mp : Nat) (op : Op) : Bool := freeOKg (fun g => decide (g < mp)) (fun g => decide (g < mp)) op

mutual
/-- the spine: `.seq` and `.capture` nodes from the root.  `R` = spine groups closed so far;
    the result is the list after the node.  A capture on the spine adds its group when it closes;
    every other node must be `freeOK` for the current `R`. -/
def spineOp (mp : Nat) : Op → List Nat → Option (List Nat)
  | .capture g c, R =>
      if !R.contains g && decide (g < mp) then (spineOp mp c R).map (fun R' => g :: R') else none
  | .seq ops, R => spineOps mp ops R
  | .backref g, R => if freeOK mp R (.backref g) then some R else none
  | .choice bs, R => if freeOK mp R (.choice bs) then some R else none
  | .rep id c mn mx gr, R => if freeOK mp R (.rep id c mn mx gr) then some R else none
  | .gfixed c mn mx l, R => if freeOK mp R (.gfixed c mn mx l) then some R else none
  | .rfixed c mn mx l, R => if freeOK mp R (.rfixed c mn mx l) then some R else none
  | .unamb c mn mx, R => if freeOK mp R (.unamb c mn mx) then some R else none
  | .bol, R | .eol, R | .nothing, R | .endProgram, R | .atom _, R | .cls _, R => some R
termination_by structural o => o
def spineOps (mp : Nat) : List Op → List Nat → Option (List Nat)
  | [], R => some R
  | o :: os, R =>
    match spineOp mp o R with
    | some R' => spineOps mp os R'
    | none => none
termination_by structural l => l
end

/-! ## a calculus with two invariants -/

/-- the state at exhaustion satisfies `I`; the state at every yield satisfies `J`, provided the
    consumer hands back states satisfying `J` -/
inductive Step.Inv2 (I J : St → Prop) : Step → Prop
  | nil (st) : I st → Inv2 I J (.nil st)
  | cons (n st r) : J st → (∀ st', J st' → Inv2 I J (r st')) → Inv2 I J (.cons n st r)
  | diverge : Inv2 I J .diverge

namespace Step.Inv2
variable {I I' J K : St → Prop} {P : Nat → Prop}

theorem ofInv {s : Step} (hs : s.Inv I) : s.Inv2 I I := by
  induction hs with
  | nil st h => exact .nil _ h
  | cons n st r h _ ih => exact .cons _ _ _ h ih
  | diverge => exact .diverge

theorem nil_inv {st : St} (h : (Step.nil st).Inv2 I J) : I st := by
  cases h with
  | nil _ h => exact h

theorem head {n : Nat} {st : St} {r : St → Step} (h : (Step.cons n st r).Inv2 I J) : J st := by
  cases h with
  | cons _ _ _ h _ => exact h

theorem weaken {s : Step} (hs : s.Inv2 I J) (h : ∀ st, I st → I' st) : s.Inv2 I' J := by
  induction hs with
  | nil st hi => exact .nil _ (h _ hi)
  | cons n st r hj _ ih => exact .cons _ _ _ hj ih
  | diverge => exact .diverge

theorem append {s : Step} {f : St → Step}
    (hs : s.Inv2 J K) (hf : ∀ st, J st → (f st).Inv2 I K) : (s.append f).Inv2 I K := by
  induction hs with
  | nil st h => exact hf st h
  | cons n st r h _ ih => exact .cons _ _ _ h ih
  | diverge => exact .diverge

theorem bindP {s : Step} {f : Nat → St → Step}
    (hs : s.Inv2 I J) (hp : s.All P) (hf : ∀ n st, P n → J st → (f n st).Inv2 J K) :
    (s.bind f).Inv2 I K := by
  induction hs with
  | nil st h => exact .nil _ h
  | cons n st r h _ ih =>
    cases hp with
    | cons _ _ _ hn hr => exact (hf n st hn h).append (fun st' h' => ih st' h' (hr st'))
  | diverge => exact .diverge

theorem mapStP {s : Step} {f : Nat → St → St} (hs : s.Inv2 I J) (hp : s.All P)
    (hf : ∀ n st, P n → J st → K (f n st)) (hkj : ∀ st, K st → J st) : (s.mapSt f).Inv2 I K := by
  induction hs with
  | nil st h => exact .nil _ h
  | cons n st r h _ ih =>
    cases hp with
    | cons _ _ _ hn hr => exact .cons _ _ _ (hf n st hn h) (fun st' h' => ih st' (hkj _ h') (hr st'))
  | diverge => exact .diverge

theorem onNil {s : Step} {f : St → St} (hs : s.Inv2 I J) (hf : ∀ st, I st → I' (f st)) :
    (s.onNil f).Inv2 I' J := by
  induction hs with
  | nil st h => exact .nil _ (hf st h)
  | cons n st r h _ ih => exact .cons _ _ _ h ih
  | diverge => exact .diverge

end Step.Inv2

/-! ## the arrays -/

namespace BrSafe

theorem length_setIn (l : List (Option Nat)) (g : Nat) (v : Option Nat) : (setIn l g v).length = l.length := by
  induction l generalizing g with
  | nil => rfl
  | cons x xs ih =>
    cases g with
    | zero => rfl
    | succ g => simp only [setIn, List.length_cons, ih]

theorem getO_nil (g : Nat) : getO [] g = none := by
  simp [getO]

theorem getO_cons_zero (x : Option Nat) (xs : List (Option Nat)) : getO (x :: xs) 0 = x := by
  cases x <;> simp [getO]

theorem getO_cons_succ (x : Option Nat) (xs : List (Option Nat)) (g : Nat) :
    getO (x :: xs) (g + 1) = getO xs g := by
  simp [getO]

theorem getO_setIn_ne (l : List (Option Nat)) (g g' : Nat) (v : Option Nat) (h : g' ≠ g) :
    getO (setIn l g v) g' = getO l g' := by
  induction l generalizing g g' with
  | nil => rfl
  | cons x xs ih =>
    cases g with
    | zero =>
      cases g' with
      | zero => exact absurd rfl h
      | succ g' => simp only [setIn, getO_cons_succ]
    | succ g =>
      cases g' with
      | zero => simp only [setIn, getO_cons_zero]
      | succ g' =>
        simp only [setIn, getO_cons_succ]
        exact ih g g' (fun hh => h (by rw [hh]))

theorem getO_setIn_eq (l : List (Option Nat)) (g : Nat) (v : Option Nat) (h : g < l.length) :
    getO (setIn l g v) g = v := by
  induction l generalizing g with
  | nil => simp at h
  | cons x xs ih =>
    cases g with
    | zero => simp only [setIn, getO_cons_zero]
    | succ g =>
      simp only [setIn, getO_cons_succ]
      exact ih g (by simpa using h)

theorem length_clearArr (ss es : List (Option Nat)) (pos : Nat) (h : ss.length = es.length) :
    (clearArr ss es pos).length = es.length := by
  induction ss generalizing es with
  | nil => rfl
  | cons s ss ih =>
    cases es with
    | nil => simp at h
    | cons e es =>
      simp only [clearArr, List.length_cons]
      rw [ih es (by simpa using h)]

/-- every entry of the cleared array is the old end or the start of the same group -/
theorem getO_clearArr (ss es : List (Option Nat)) (pos g : Nat) :
    getO (clearArr ss es pos) g = getO es g ∨ getO (clearArr ss es pos) g = getO ss g := by
  induction ss generalizing es g with
  | nil => exact .inl rfl
  | cons s ss ih =>
    cases es with
    | nil =>
      cases g with
      | zero =>
        simp only [clearArr, getO_cons_zero, getO_nil]
        split
        · exact .inr rfl
        · exact .inl rfl
      | succ g =>
        simp only [clearArr, getO_cons_succ, getO_nil]
        have := ih [] g
        simpa only [getO_nil] using this
    | cons e es =>
      cases g with
      | zero =>
        simp only [clearArr, getO_cons_zero]
        split
        · exact .inr rfl
        · exact .inl rfl
      | succ g =>
        simp only [clearArr, getO_cons_succ]
        exact ih es g

end BrSafe
open BrSafe

/-- group `g` is clean: a recorded pair has `start ≤ end` -/
def CleanAt (st : St) (g : Nat) : Prop :=
  ∀ s e, getO st.startBr g = some s → getO st.endBr g = some e → s ≤ e

/-- the invariant (see the head of the file) -/
structure BI (ctx : Ctx) (R : List Nat) (st : St) : Prop where
  np : NoRealPanic st
  ls : st.startBr.length = ctx.maxParens
  le : st.endBr.length = ctx.maxParens
  clean : ∀ g, g ∈ R → CleanAt st g

theorem BI.mono {ctx : Ctx} {R R' : List Nat} {st : St} (hsub : ∀ g, g ∈ R → g ∈ R') (h : BI ctx R' st) :
    BI ctx R st :=
  ⟨h.np, h.ls, h.le, fun g hg => h.clean g (hsub g hg)⟩

theorem setPanic_startBr (st : St) (c : Nat) : (st.setPanic c).startBr = st.startBr := by
  unfold St.setPanic
  split <;> rfl

theorem setPanic_endBr (st : St) (c : Nat) : (st.setPanic c).endBr = st.endBr := by
  unfold St.setPanic
  split <;> rfl

theorem CleanAt.clear {st : St} {g : Nat} (h : CleanAt st g) (pos : Nat) : CleanAt (clearBeyond st pos) g := by
  intro s e hs he
  simp only [clearBeyond] at hs he
  rcases getO_clearArr st.startBr st.endBr pos g with h1 | h1
  · rw [h1] at he
    exact h s e hs he
  · rw [h1, hs] at he
    simp only [Option.some.injEq] at he
    omega

theorem writes_BI (ctx : Ctx) (R : List Nat) : Writes (BI ctx R) where
  clear := fun st p h =>
    ⟨h.np, h.ls, by
      simp only [clearBeyond]
      rw [length_clearArr _ _ _ (by rw [h.ls, h.le])]
      exact h.le, fun g hg => (h.clean g hg).clear p⟩
  div := fun st h =>
    ⟨h.np.setDiv, by rw [setPanic_startBr]; exact h.ls, by rw [setPanic_endBr]; exact h.le,
      fun g hg s e hs he => by
        rw [setPanic_startBr] at hs
        rw [setPanic_endBr] at he
        exact h.clean g hg s e hs he⟩
  hist := fun st _ h => ⟨h.np, h.ls, h.le, h.clean⟩
  restore := fun _ st' _ h => ⟨h.np, h.ls, h.le, h.clean⟩
  setEnd0 := fun st _ h => ⟨h.np, h.ls, h.le, h.clean⟩

/-! ## leaves that touch the arrays, under `BI` -/

/-- a back-reference to a clean group inside the arrays reaches no panic site -/
theorem backrefGen_BI (ctx : Ctx) (R : List Nat) (g : Nat) (_hg : g ∈ R) (hmp : g < ctx.maxParens)
    {Pos : Nat → Prop} : GenInv Pos (BI ctx R) (backrefGen ctx g) := by
  intro p st _ h
  unfold backrefGen
  split
  · rename_i hge
    rw [h.ls] at hge
    omega
  · split
    · split
      · exact .once h
      · simp only
        split
        · exact .nil _ h
        · split
          · exact .once h
          · exact .nil _ h
    · exact .once h

/-- entering a group that is not in `R` -/
theorem capturePre_BI (ctx : Ctx) (R : List Nat) (g : Nat) (hg : g ∉ R) (hmp : g < ctx.maxParens)
    (p : Nat) (st : St) (h : BI ctx R st) :
    BI ctx R (if ctx.hasBackrefs then
      (if g ≥ st.startBr.length then st.setPanic panicCaptureIndex
       else { st with startBr := setIn st.startBr g (some p) }) else st) := by
  split
  · split
    · rename_i hge
      rw [h.ls] at hge
      omega
    · refine ⟨h.np, by simp only [length_setIn]; exact h.ls, h.le, fun g' hg' s e hs he => ?_⟩
      have hne : g' ≠ g := fun hh => hg (hh ▸ hg')
      simp only [getO_setIn_ne _ _ _ _ hne] at hs
      exact h.clean g' hg' s e hs he
  · exact h

/-- the write at a yield of a group that is not in `R` -/
theorem captureWrite_BI (ctx : Ctx) (R : List Nat) (g : Nat) (hg : g ∉ R)
    (p n : Nat) (st : St) (h : BI ctx R st) : BI ctx R (captureWrite ctx g p n st) := by
  unfold captureWrite
  simp only
  split
  · refine ⟨h.np, by simp only [length_setIn]; exact h.ls, by simp only [length_setIn]; exact h.le,
      fun g' hg' s e hs he => ?_⟩
    have hne : g' ≠ g := fun hh => hg (hh ▸ hg')
    simp only [getO_setIn_ne _ _ _ _ hne] at hs he
    exact h.clean g' hg' s e hs he
  · exact ⟨h.np, h.ls, h.le, h.clean⟩

/-- the write at a yield of a spine group: the group becomes clean -/
theorem captureWrite_BI_spine (ctx : Ctx) (R : List Nat) (g : Nat) (hmp : g < ctx.maxParens)
    (hb : ctx.hasBackrefs = true) (p n : Nat) (hpn : p ≤ n) (st : St) (h : BI ctx R st) :
    BI ctx (g :: R) (captureWrite ctx g p n st) := by
  unfold captureWrite
  simp only [hb, if_true]
  refine ⟨h.np, by simp only [length_setIn]; exact h.ls, by simp only [length_setIn]; exact h.le,
    fun g' hg' s e hs he => ?_⟩
  by_cases hne : g' = g
  · subst hne
    simp only at hs he
    rw [getO_setIn_eq _ _ _ (by rw [h.ls]; exact hmp)] at hs
    rw [getO_setIn_eq _ _ _ (by rw [h.le]; exact hmp)] at he
    simp only [Option.some.injEq] at hs he
    omega
  · simp only [getO_setIn_ne _ _ _ _ hne] at hs he
    have hg'R : g' ∈ R := by
      simp only [List.mem_cons] at hg'
      rcases hg' with hh | hh
      · exact absurd hh hne
      · exact hh
    exact h.clean g' hg'R s e hs he

/-! ## free subtrees: one induction, generic in the invariant -/

/-- what the induction over a free subtree needs of the invariant `I` -/
structure FreeEnv (ctx : Ctx) (Pos : Nat → Prop) (I : St → Prop) (bOK cOK : Nat → Bool) : Prop where
  W : Writes I
  child : ∀ c, wfOp c = true → GenInv Pos I (sem ctx c) → ChildOK Pos I (sem ctx c)
  pos : ∀ o, wfOp o = true → ∀ p st, Pos p → (sem ctx o p st).All Pos
  guard : ∀ p, p ≤ ctx.len → Pos p
  bref : ∀ g, bOK g = true → GenInv Pos I (backrefGen ctx g)
  cpre : ∀ g, cOK g = true → ∀ p st, I st → I (if ctx.hasBackrefs then
      (if g ≥ st.startBr.length then st.setPanic panicCaptureIndex
       else { st with startBr := setIn st.startBr g (some p) }) else st)
  cw : ∀ g, cOK g = true → ∀ p n st, I st → I (captureWrite ctx g p n st)

theorem contains_iff_mem (R : List Nat) (g : Nat) : R.contains g = true ↔ g ∈ R := by
  simp

mutual
theorem sem_free {ctx : Ctx} {Pos : Nat → Prop} {I : St → Prop} {bOK cOK : Nat → Bool}
    (E : FreeEnv ctx Pos I bOK cOK) :
    (op : Op) → wfOp op = true → freeOKg bOK cOK op = true → GenInv Pos I (sem ctx op)
  | .bol, _, _ => by simp only [sem]; exact bolGen_inv ctx
  | .eol, _, _ => by simp only [sem]; exact eolGen_inv ctx
  | .nothing, _, _ => by simp only [sem]; exact nothingGen_inv
  | .endProgram, _, _ => by simp only [sem]; exact endGen_inv E.W
  | .atom cs, _, _ => by simp only [sem]; exact atomGen_inv ctx cs
  | .cls rs, _, _ => by simp only [sem]; exact clsGen_inv ctx rs
  | .backref g, _, hf => by
    simp only [freeOKg] at hf
    simp only [sem]
    exact E.bref g hf
  | .capture g c, hwf, hf => by
    simp only [wfOp] at hwf
    simp only [freeOKg, Bool.and_eq_true] at hf
    simp only [sem]
    exact captureGen_inv ctx g (E.cpre g hf.1) (E.cw g hf.1) (sem_free E c hwf hf.2)
  | .choice bs, hwf, hf => by
    simp only [wfOp, Bool.and_eq_true] at hwf
    simp only [freeOKg] at hf
    simp only [sem]
    exact sem_free_choice E bs hwf.2 hf
  | .seq ops, hwf, hf => by
    simp only [wfOp, Bool.and_eq_true] at hwf
    simp only [freeOKg] at hf
    simp only [sem]
    exact seqGen_inv E.W (sem_free_seq E ops hwf.2 hf) _
  | .rep id c mn mx greedy, hwf, hf => by
    simp only [wfOp, Bool.and_eq_true, decide_eq_true_eq] at hwf
    obtain ⟨⟨hwc, hmm⟩, hmx⟩ := hwf
    simp only [freeOKg] at hf
    have C := E.child c hwc (sem_free E c hwc hf)
    simp only [sem]
    split
    · exact repGreedyGen_inv E.W C ctx id mn mx
    · exact repReluctantGen_inv E.W C ctx mn mx
  | .gfixed c mn mx len, hwf, hf => by
    simp only [wfOp, Bool.and_eq_true, decide_eq_true_eq, beq_iff_eq] at hwf
    obtain ⟨⟨⟨⟨⟨hwc, hml⟩, hlen0⟩, hlen1⟩, hmm⟩, hmx⟩ := hwf
    simp only [freeOKg] at hf
    have C := E.child c hwc (sem_free E c hwc hf)
    simp only [sem]
    exact gfixedGen_inv E.W C ctx mn mx len E.guard
  | .rfixed c mn mx len, hwf, hf => by
    simp only [wfOp, Bool.and_eq_true, decide_eq_true_eq, beq_iff_eq] at hwf
    obtain ⟨⟨⟨⟨⟨hwc, hml⟩, hlen0⟩, hlen1⟩, hmm⟩, hmx⟩ := hwf
    simp only [freeOKg] at hf
    have C := E.child c hwc (sem_free E c hwc hf)
    simp only [sem]
    exact rfixedGen_inv E.W C ctx mn mx
  | .unamb c mn mx, hwf, hf => by
    simp only [wfOp, Bool.and_eq_true, decide_eq_true_eq] at hwf
    obtain ⟨⟨hwc, hmm⟩, hmx⟩ := hwf
    simp only [freeOKg] at hf
    have C := E.child c hwc (sem_free E c hwc hf)
    simp only [sem]
    exact unambGen_inv E.W C ctx mn mx E.guard
termination_by structural op => op
theorem sem_free_choice {ctx : Ctx} {Pos : Nat → Prop} {I : St → Prop} {bOK cOK : Nat → Bool}
    (E : FreeEnv ctx Pos I bOK cOK) :
    (bs : List Op) → wfOps bs = true → freeOKgL bOK cOK bs = true → GenInv Pos I (choiceGen (semL ctx bs))
  | [], _, _ => by simp only [semL]; exact choiceGen_nil_inv
  | b :: bs, hwf, hf => by
    simp only [wfOps, Bool.and_eq_true] at hwf
    simp only [freeOKgL, Bool.and_eq_true] at hf
    simp only [semL]
    exact choiceGen_cons_inv E.W (sem_free E b hwf.1 hf.1) (sem_free_choice E bs hwf.2 hf.2)
termination_by structural bs => bs
theorem sem_free_seq {ctx : Ctx} {Pos : Nat → Prop} {I : St → Prop} {bOK cOK : Nat → Bool}
    (E : FreeEnv ctx Pos I bOK cOK) :
    (ops : List Op) → wfOps ops = true → freeOKgL bOK cOK ops = true → GenInv Pos I (seqGo (semL ctx ops))
  | [], _, _ => by simp only [semL]; exact seqGo_nil_inv
  | o :: os, hwf, hf => by
    simp only [wfOps, Bool.and_eq_true] at hwf
    simp only [freeOKgL, Bool.and_eq_true] at hf
    simp only [semL]
    exact seqGo_cons_inv E.W (sem_free E o hwf.1 hf.1) (E.pos o hwf.1) (sem_free_seq E os hwf.2 hf.2)
termination_by structural ops => ops
end

/-- positions inside the input; termination of the bodies from `wfOp` -/
theorem childOK_wf (ctx : Ctx) {I : St → Prop} (c : Op) (hwc : wfOp c = true)
    (h : GenInv (fun p => p ≤ ctx.len) I (sem ctx c)) : ChildOK (fun p => p ≤ ctx.len) I (sem ctx c) where
  inv := h
  fst := fun p st hp hst => first1_inv_nodiv (h p st hp hst) (sem_nd ctx c hwc p st hp)
  pos := fun p st hp => (sem_bounds_op ctx c hwc p hp st).mono (fun _ hn => hn.2)

/-- the instance for `BI` -/
theorem freeEnv_BI (ctx : Ctx) (R : List Nat) :
    FreeEnv ctx (fun p => p ≤ ctx.len) (BI ctx R)
      (fun g => R.contains g && decide (g < ctx.maxParens)) (fun g => !R.contains g && decide (g < ctx.maxParens)) where
  W := writes_BI ctx R
  child := fun c hwc h => childOK_wf ctx c hwc h
  pos := fun o hwo p st hp => (sem_bounds_op ctx o hwo p hp st).mono (fun _ hn => hn.2)
  guard := fun _ h => h
  bref := fun g hg => by
    simp only [Bool.and_eq_true, decide_eq_true_eq, contains_iff_mem] at hg
    exact backrefGen_BI ctx R g hg.1 hg.2
  cpre := fun g hg p st h => by
    simp only [Bool.and_eq_true, decide_eq_true_eq, Bool.not_eq_true', ← Bool.not_eq_true, contains_iff_mem] at hg
    exact capturePre_BI ctx R g hg.1 hg.2 p st h
  cw := fun g hg p n st h => by
    simp only [Bool.and_eq_true, decide_eq_true_eq, Bool.not_eq_true', ← Bool.not_eq_true, contains_iff_mem] at hg
    exact captureWrite_BI ctx R g hg.1 p n st h

/-- the instance for trees without captures and back-references (preconditions): any position,
    any context, any invariant that the plain writes preserve -/
theorem freeEnv_plain (ctx : Ctx) {Q : St → Prop} (W : Writes Q) (hj : Q junkSt) :
    FreeEnv ctx (fun _ => True) Q (fun _ => false) (fun _ => false) where
  W := W
  child := fun _ _ h =>
    { inv := h
      fst := fun p st hp hst => first1_inv (h p st hp hst) (fun _ => hj)
      pos := fun _ _ _ => Step.All.trivial _ }
  pos := fun _ _ _ _ _ => Step.All.trivial _
  guard := fun _ _ => trivial
  bref := fun g hg => by simp at hg
  cpre := fun g hg => by simp at hg
  cw := fun g hg => by simp at hg

/-! ## the spine -/

mutual
theorem spineOp_sub (mp : Nat) : (op : Op) → ∀ R R', spineOp mp op R = some R' → ∀ g, g ∈ R → g ∈ R'
  | .capture g c, R, R', h, x, hx => by
    simp only [spineOp] at h
    split at h
    · cases hc : spineOp mp c R with
      | none => rw [hc] at h; simp at h
      | some R1 =>
        rw [hc] at h
        simp only [Option.map_some, Option.some.injEq] at h
        subst h
        exact List.mem_cons_of_mem _ (spineOp_sub mp c R R1 hc x hx)
    · simp at h
  | .seq ops, R, R', h, x, hx => by
    simp only [spineOp] at h
    exact spineOps_sub mp ops R R' h x hx
  | .backref _, R, R', h, x, hx | .choice _, R, R', h, x, hx | .rep _ _ _ _ _, R, R', h, x, hx
  | .gfixed _ _ _ _, R, R', h, x, hx | .rfixed _ _ _ _, R, R', h, x, hx | .unamb _ _ _, R, R', h, x, hx => by
    simp only [spineOp] at h
    split at h
    · simp only [Option.some.injEq] at h
      subst h
      exact hx
    · simp at h
  | .bol, R, R', h, x, hx | .eol, R, R', h, x, hx | .nothing, R, R', h, x, hx | .endProgram, R, R', h, x, hx
  | .atom _, R, R', h, x, hx | .cls _, R, R', h, x, hx => by
    simp only [spineOp, Option.some.injEq] at h
    subst h
    exact hx
termination_by structural op => op
theorem spineOps_sub (mp : Nat) : (ops : List Op) → ∀ R R', spineOps mp ops R = some R' → ∀ g, g ∈ R → g ∈ R'
  | [], R, R', h, x, hx => by
    simp only [spineOps, Option.some.injEq] at h
    subst h
    exact hx
  | o :: os, R, R', h, x, hx => by
    simp only [spineOps] at h
    cases ho : spineOp mp o R with
    | none => rw [ho] at h; simp at h
    | some R1 =>
      rw [ho] at h
      exact spineOps_sub mp os R1 R' h x (spineOp_sub mp o R R1 ho x hx)
termination_by structural ops => ops
end

/-- a free node on the spine -/
theorem sem_spine_free (ctx : Ctx) (op : Op) (hwf : wfOp op = true) (R : List Nat)
    (hf : freeOK ctx.maxParens R op = true) (p : Nat) (st : St) (hp : p ≤ ctx.len) (h : BI ctx R st) :
    (sem ctx op p st).Inv2 (BI ctx R) (BI ctx R) :=
  .ofInv (sem_free (freeEnv_BI ctx R) op hwf hf p st hp h)

mutual
/-- **the spine lemma.**  Started in a state where the spine groups `R` closed so far are clean, the
    iterator of a spine node yields only states in which the groups `R'` closed after the node are
    clean (as long as it is resumed with such states) and ends in a state where `R` is clean. -/
theorem sem_spine (ctx : Ctx) (hb : ctx.hasBackrefs = true) :
    (op : Op) → wfOp op = true → ∀ R R', spineOp ctx.maxParens op R = some R' →
      ∀ p st, p ≤ ctx.len → BI ctx R st → (sem ctx op p st).Inv2 (BI ctx R) (BI ctx R')
  | .capture g c, hwf, R, R', h, p, st, hp, hst => by
    simp only [wfOp] at hwf
    simp only [spineOp] at h
    split at h
    · rename_i hg
      simp only [Bool.and_eq_true, decide_eq_true_eq, Bool.not_eq_true', ← Bool.not_eq_true,
        contains_iff_mem] at hg
      cases hc : spineOp ctx.maxParens c R with
      | none => rw [hc] at h; simp at h
      | some R1 =>
        rw [hc] at h
        simp only [Option.map_some, Option.some.injEq] at h
        subst h
        simp only [sem]
        unfold captureGen
        simp only
        have hpre := capturePre_BI ctx R g hg.1 hg.2 p st hst
        have hch := sem_spine ctx hb c hwf R R1 hc p _ hp hpre
        have hbd := sem_bounds_op ctx c hwf p hp
          (if ctx.hasBackrefs then
            (if g ≥ st.startBr.length then st.setPanic panicCaptureIndex
             else { st with startBr := setIn st.startBr g (some p) }) else st)
        exact hch.mapStP hbd
          (fun n st' hn h' => captureWrite_BI_spine ctx R1 g hg.2 hb p n hn.1 st' h')
          (fun st' h' => h'.mono (fun x hx => List.mem_cons_of_mem _ hx))
    · simp at h
  | .seq ops, hwf, R, R', h, p, st, hp, hst => by
    simp only [wfOp, Bool.and_eq_true] at hwf
    simp only [spineOp] at h
    simp only [sem]
    unfold seqGen
    simp only
    refine (sem_spine_seq ctx hb ops hwf.2 R R' h p st hp hst).onNil (fun st' h' => ?_)
    split
    · exact ⟨h'.np, h'.ls, h'.le, h'.clean⟩
    · exact h'
  | .backref g, hwf, R, R', h, p, st, hp, hst => by
    simp only [spineOp] at h
    split at h
    · rename_i hf
      simp only [Option.some.injEq] at h
      subst h
      exact sem_spine_free ctx _ hwf R hf p st hp hst
    · simp at h
  | .choice bs, hwf, R, R', h, p, st, hp, hst => by
    simp only [spineOp] at h
    split at h
    · rename_i hf
      simp only [Option.some.injEq] at h
      subst h
      exact sem_spine_free ctx _ hwf R hf p st hp hst
    · simp at h
  | .rep id c mn mx gr, hwf, R, R', h, p, st, hp, hst => by
    simp only [spineOp] at h
    split at h
    · rename_i hf
      simp only [Option.some.injEq] at h
      subst h
      exact sem_spine_free ctx _ hwf R hf p st hp hst
    · simp at h
  | .gfixed c mn mx l, hwf, R, R', h, p, st, hp, hst => by
    simp only [spineOp] at h
    split at h
    · rename_i hf
      simp only [Option.some.injEq] at h
      subst h
      exact sem_spine_free ctx _ hwf R hf p st hp hst
    · simp at h
  | .rfixed c mn mx l, hwf, R, R', h, p, st, hp, hst => by
    simp only [spineOp] at h
    split at h
    · rename_i hf
      simp only [Option.some.injEq] at h
      subst h
      exact sem_spine_free ctx _ hwf R hf p st hp hst
    · simp at h
  | .unamb c mn mx, hwf, R, R', h, p, st, hp, hst => by
    simp only [spineOp] at h
    split at h
    · rename_i hf
      simp only [Option.some.injEq] at h
      subst h
      exact sem_spine_free ctx _ hwf R hf p st hp hst
    · simp at h
  | .bol, hwf, R, R', h, p, st, hp, hst => by
    simp only [spineOp, Option.some.injEq] at h
    subst h
    exact sem_spine_free ctx _ hwf R rfl p st hp hst
  | .eol, hwf, R, R', h, p, st, hp, hst => by
    simp only [spineOp, Option.some.injEq] at h
    subst h
    exact sem_spine_free ctx _ hwf R rfl p st hp hst
  | .nothing, hwf, R, R', h, p, st, hp, hst => by
    simp only [spineOp, Option.some.injEq] at h
    subst h
    exact sem_spine_free ctx _ hwf R rfl p st hp hst
  | .endProgram, hwf, R, R', h, p, st, hp, hst => by
    simp only [spineOp, Option.some.injEq] at h
    subst h
    exact sem_spine_free ctx _ hwf R rfl p st hp hst
  | .atom cs, hwf, R, R', h, p, st, hp, hst => by
    simp only [spineOp, Option.some.injEq] at h
    subst h
    exact sem_spine_free ctx _ hwf R rfl p st hp hst
  | .cls rs, hwf, R, R', h, p, st, hp, hst => by
    simp only [spineOp, Option.some.injEq] at h
    subst h
    exact sem_spine_free ctx _ hwf R rfl p st hp hst
termination_by structural op => op
theorem sem_spine_seq (ctx : Ctx) (hb : ctx.hasBackrefs = true) :
    (ops : List Op) → wfOps ops = true → ∀ R R', spineOps ctx.maxParens ops R = some R' →
      ∀ p st, p ≤ ctx.len → BI ctx R st → (seqGo (semL ctx ops) p st).Inv2 (BI ctx R) (BI ctx R')
  | [], _, R, R', h, p, st, _, hst => by
    simp only [semL, seqGo]
    exact .nil _ hst
  | o :: os, hwf, R, R', h, p, st, hp, hst => by
    simp only [wfOps, Bool.and_eq_true] at hwf
    simp only [spineOps] at h
    cases ho : spineOp ctx.maxParens o R with
    | none => rw [ho] at h; simp at h
    | some R1 =>
      rw [ho] at h
      have h1 := sem_spine ctx hb o hwf.1 R R1 ho p st hp hst
      have hbd := sem_bounds_op ctx o hwf.1 p hp st
      have hclr : ∀ (n : Nat) (st' : St), (p ≤ n ∧ n ≤ ctx.len) → BI ctx R1 st' → BI ctx R1 (clearBeyond st' n) :=
        fun n st' _ h' => (writes_BI ctx R1).clear st' n h'
      cases os with
      | nil =>
        simp only [spineOps, Option.some.injEq] at h
        subst h
        simp only [semL, seqGo]
        exact h1.mapStP hbd hclr (fun _ h' => h')
      | cons o2 os =>
        simp only [semL, seqGo]
        have h2 := sem_spine_seq ctx hb (o2 :: os) hwf.2 R1 R' h
        refine Step.Inv2.bindP (h1.mapStP hbd hclr (fun _ h' => h')) hbd.mapSt (fun n st' hn h' => ?_)
        have := h2 n st' hn.2 h'
        simpa only [semL] using this
termination_by structural ops => ops
end

/-! ## `match_at` and the search loop -/

theorem matchStart_BI (ctx : Ctx) (hb : ctx.hasBackrefs = true) (j : Nat) (st : St) (h : NoRealPanic st) :
    BI ctx [] (matchStart ctx j st) := by
  unfold matchStart
  simp only [hb, if_true]
  exact ⟨h, List.length_replicate, List.length_replicate, fun g hg => by simp at hg⟩

/-- `match_at(j)` on a spine-safe tree keeps the state free of real panics -/
theorem matchAt_spine (ctx : Ctx) (hb : ctx.hasBackrefs = true) (op : Op) (hwf : wfOp op = true)
    (hsp : (spineOp ctx.maxParens op []).isSome = true)
    (j : Nat) (hj : j ≤ ctx.len) (st : St) (h : NoRealPanic st) : NoRealPanic (matchAt ctx op j st).2 := by
  obtain ⟨R', hR'⟩ := Option.isSome_iff_exists.1 hsp
  rw [matchAt_eq]
  have h0 := matchStart_BI ctx hb j st h
  have hinv := sem_spine ctx hb op hwf [] R' hR' j _ hj h0
  split
  · rename_i n st' r heq
    rw [heq] at hinv
    exact hinv.head.np
  · rename_i st' heq
    rw [heq] at hinv
    exact hinv.nil_inv.np
  · exact h0.np.setDiv

/-- a tree without captures and back-references: usable as a precondition in any context -/
theorem sem_plain (ctx : Ctx) {Q : St → Prop} (W : Writes Q) (hj : Q junkSt)
    (op : Op) (hwf : wfOp op = true) (hpl : plainTree op = true) :
    GenInv (fun _ => True) Q (sem ctx op) :=
  sem_free (freeEnv_plain ctx W hj) op hwf hpl

/-- what the search loop needs of a predicate `Q` on states that only talks about the panic marker -/
structure SearchQ (Q : St → Prop) : Prop where
  cap : ∀ (st : St) (c : Cap), Q st → Q { st with cap := c }
  div : ∀ st, Q st → Q (st.setPanic panicDiverge)

theorem searchQ_np : SearchQ NoRealPanic where
  cap := fun _ _ h => h
  div := fun _ h => h.setDiv

theorem tryCands_Q {Q : St → Prop} (ctx : Ctx) (op : Op)
    (hM : ∀ j st, j ≤ ctx.len → Q st → Q (matchAt ctx op j st).2) :
    ∀ (js : List Nat) (st : St), (∀ j, j ∈ js → j ≤ ctx.len) → Q st → Q (tryCands ctx op js st).2 := by
  intro js
  induction js with
  | nil => intro st _ h; exact h
  | cons j js ih =>
    intro st hjs h
    have hm := hM j st (hjs j List.mem_cons_self) h
    unfold tryCands
    split
    · rename_i st' heq
      rw [heq] at hm; exact hm
    · rename_i st' heq
      rw [heq] at hm
      split
      · exact hm
      · exact ih _ (fun k hk => hjs k (List.mem_cons_of_mem _ hk)) hm

theorem preHolds_Q {Q : St → Prop} (S : SearchQ Q) (ctx : Ctx) (op : Op)
    (hS : GenInv (fun _ => True) Q (sem ctx op))
    (p : Nat) (st : St) (h : Q st) : Q (preHolds ctx op p st).2 := by
  unfold preHolds
  have hinv := hS p st trivial h
  split
  · rename_i n st' r heq
    rw [heq] at hinv
    exact hinv.head
  · rename_i st' heq
    rw [heq] at hinv
    exact hinv.nil_inv
  · exact S.div _ h

theorem findFrom_Q {Q : St → Prop} (S : SearchQ Q) (ctx : Ctx) (op : Op)
    (hS : GenInv (fun _ => True) Q (sem ctx op)) :
    ∀ fuel j st, Q st → Q (findFrom ctx op fuel j st).2 := by
  intro fuel
  induction fuel with
  | zero => intro j st h; exact h
  | succ f ih =>
    intro j st h
    unfold findFrom
    split
    · have hp := preHolds_Q S ctx op hS j st h
      split
      · rename_i st' heq
        rw [heq] at hp; exact hp
      · rename_i st' heq
        rw [heq] at hp
        split
        · exact hp
        · exact ih _ _ hp
    · exact h

theorem checkPre_Q {Q : St → Prop} (S : SearchQ Q) (ctx : Ctx) (start : Nat) :
    ∀ (pres : List Pre) (st : St), (∀ q ∈ pres, GenInv (fun _ => True) Q (sem ctx q.op)) →
      Q st → Q (checkPre ctx start pres st).2 := by
  intro pres
  induction pres with
  | nil => intro st _ h; exact h
  | cons pre rest ih =>
    intro st hq h
    have hpre := hq pre List.mem_cons_self
    have hrest : ∀ q ∈ rest, GenInv (fun _ => True) Q (sem ctx q.op) :=
      fun q hm => hq q (List.mem_cons_of_mem _ hm)
    unfold checkPre
    split
    · rename_i fixed _
      have hp := preHolds_Q S ctx pre.op hpre fixed st h
      split
      · rename_i st' heq
        rw [heq] at hp
        exact ih _ hrest hp
      · rename_i st' heq
        rw [heq] at hp; exact hp
    · simp only
      have hp := findFrom_Q S ctx pre.op hpre (ctx.len + 1)
        (if start < pre.minPos then pre.minPos else start) st h
      split
      · rename_i st' heq
        rw [heq] at hp
        exact ih _ hrest hp
      · rename_i st' heq
        rw [heq] at hp; exact hp

/-- `matches(i)`, generic in what is known about `match_at` and the preconditions -/
theorem matchesFrom_Q {Q : St → Prop} (S : SearchQ Q) (ctx : Ctx) (pr : Prog)
    (hM : ∀ j st, j ≤ ctx.len → Q st → Q (matchAt ctx pr.op j st).2)
    (hpres : ∀ q ∈ pr.pres, GenInv (fun _ => True) Q (sem ctx q.op))
    (hpre : ∀ pre, pr.prefix_ = some pre → pre.length ≤ pr.minLen ∨ pr.minLen = usizeMax)
    (hlen : ctx.len < usizeMax)
    (i : Nat) (hi : i ≤ ctx.len) (st : St) (h : Q st) :
    Q (matchesFrom ctx pr i st).2 := by
  have h0 : Q { st with cap := {} } := S.cap st {} h
  unfold matchesFrom
  simp only
  split
  · split
    · split
      · exact h0
      · have hc := checkPre_Q S ctx i pr.pres _ hpres h0
        split
        · rename_i st' heq
          rw [heq] at hc; exact hc
        · rename_i st' heq
          rw [heq] at hc
          exact hM i st' hi hc
    · refine tryCands_Q ctx pr.op hM _ _ (fun j hj => ?_) h0
      simp only [List.mem_cons, List.mem_filter, decide_eq_true_eq] at hj
      rcases hj with rfl | hj
      · exact hi
      · omega
  · split
    · rename_i hgt
      exfalso; omega
    · split
      · exact h0
      · rename_i hmin
        split
        · rename_i pre hpeq
          split
          · rename_i hbig
            exfalso
            rcases hpre pre hpeq with hp | hp <;> omega
          · refine tryCands_Q ctx pr.op hM _ _ (fun j hj => ?_) h0
            simp only [List.mem_filter] at hj
            have := mem_rangeFrom hj.1
            omega
        · split
          · refine tryCands_Q ctx pr.op hM _ _ (fun j hj => ?_) h0
            simp only [List.mem_filter] at hj
            have := mem_rangeFrom hj.1
            omega
          · have hc := checkPre_Q S ctx i pr.pres _ hpres h0
            split
            · rename_i st' heq
              rw [heq] at hc; exact hc
            · rename_i st' heq
              rw [heq] at hc
              refine tryCands_Q ctx pr.op hM _ _ (fun j hj => ?_) hc
              have := mem_rangeFrom hj
              omega

/-! ## every tree: no panic site is reachable (on the repaired `backrefGen`) -/

/-- the side condition on group numbers: a back-reference only in a program that has the
    `hasBackrefs` flag (so that the arrays are allotted) and with a number below `maxParens`;
    a capture number below `maxParens` when the program has the flag -/
def brOK (hbr : Bool) (mp : Nat) (op : Op) : Bool :=
  freeOKg (fun g => hbr && decide (g < mp)) (fun g => !hbr || decide (g < mp)) op

/-- no real panic, and (when the program uses them) both back-reference arrays have their
    allotted length `maxParens` -/
structure IdxInv (ctx : Ctx) (st : St) : Prop where
  np : NoRealPanic st
  ls : ctx.hasBackrefs = true → st.startBr.length = ctx.maxParens
  le : ctx.hasBackrefs = true → st.endBr.length = ctx.maxParens

theorem writes_idx (ctx : Ctx) : Writes (IdxInv ctx) where
  clear := fun st p h =>
    ⟨h.np, h.ls, fun hb => by
      simp only [clearBeyond]
      rw [length_clearArr _ _ _ (by rw [h.ls hb, h.le hb])]
      exact h.le hb⟩
  div := fun st h =>
    ⟨h.np.setDiv, fun hb => by rw [setPanic_startBr]; exact h.ls hb,
      fun hb => by rw [setPanic_endBr]; exact h.le hb⟩
  hist := fun st _ h => ⟨h.np, h.ls, h.le⟩
  restore := fun _ st' _ h => ⟨h.np, h.ls, h.le⟩
  setEnd0 := fun st _ h => ⟨h.np, h.ls, h.le⟩

theorem backrefGen_idx (ctx : Ctx) (g : Nat) (hb : ctx.hasBackrefs = true) (hmp : g < ctx.maxParens)
    {Pos : Nat → Prop} : GenInv Pos (IdxInv ctx) (backrefGen ctx g) := by
  intro p st _ h
  unfold backrefGen
  split
  · rename_i hge
    rw [h.ls hb] at hge
    omega
  · split
    · split
      · exact .once h
      · simp only
        split
        · exact .nil _ h
        · split
          · exact .once h
          · exact .nil _ h
    · exact .once h

theorem freeEnv_idx (ctx : Ctx) :
    FreeEnv ctx (fun p => p ≤ ctx.len) (IdxInv ctx)
      (fun g => ctx.hasBackrefs && decide (g < ctx.maxParens))
      (fun g => !ctx.hasBackrefs || decide (g < ctx.maxParens)) where
  W := writes_idx ctx
  child := fun c hwc h => childOK_wf ctx c hwc h
  pos := fun o hwo p st hp => (sem_bounds_op ctx o hwo p hp st).mono (fun _ hn => hn.2)
  guard := fun _ h => h
  bref := fun g hg => by
    simp only [Bool.and_eq_true, decide_eq_true_eq] at hg
    exact backrefGen_idx ctx g hg.1 hg.2
  cpre := fun g hg p st h => by
    split
    · rename_i hb
      have hmp : g < ctx.maxParens := by simpa [hb] using hg
      split
      · rename_i hge
        rw [h.ls hb] at hge
        omega
      · exact ⟨h.np, fun hb' => by simp only [length_setIn]; exact h.ls hb', h.le⟩
    · exact h
  cw := fun g _ p n st h => by
    unfold captureWrite
    simp only
    split
    · exact ⟨h.np, fun hb' => by simp only [length_setIn]; exact h.ls hb',
        fun hb' => by simp only [length_setIn]; exact h.le hb'⟩
    · exact ⟨h.np, h.ls, h.le⟩

/-- no engine step of ANY well-formed tree with `brOK` raises a panic marker -/
theorem sem_idx (ctx : Ctx) (op : Op) (hwf : wfOp op = true)
    (hg : brOK ctx.hasBackrefs ctx.maxParens op = true) :
    GenInv (fun p => p ≤ ctx.len) (IdxInv ctx) (sem ctx op) :=
  sem_free (freeEnv_idx ctx) op hwf hg

theorem matchStart_idx (ctx : Ctx) (j : Nat) (st : St) (h : NoRealPanic st) : IdxInv ctx (matchStart ctx j st) := by
  unfold matchStart
  simp only
  split
  · exact ⟨h, fun _ => List.length_replicate, fun _ => List.length_replicate⟩
  · rename_i hb
    exact ⟨h, fun hb' => absurd hb' hb, fun hb' => absurd hb' hb⟩

/-- `match_at(j)` on ANY well-formed tree with `brOK` keeps the state free of real panics -/
theorem matchAt_idx (ctx : Ctx) (op : Op) (hwf : wfOp op = true)
    (hg : brOK ctx.hasBackrefs ctx.maxParens op = true)
    (j : Nat) (hj : j ≤ ctx.len) (st : St) (h : NoRealPanic st) : NoRealPanic (matchAt ctx op j st).2 := by
  rw [matchAt_eq]
  have h0 := matchStart_idx ctx j st h
  have hinv := sem_idx ctx op hwf hg j _ hj h0
  split
  · rename_i n st' r heq
    rw [heq] at hinv
    exact hinv.head.np
  · rename_i st' heq
    rw [heq] at hinv
    exact hinv.nil_inv.np
  · exact h0.np.setDiv

/-! ## the decidable side conditions on a program -/

/-- `prefix.len ≤ minimum_length` (what `ReProgram::new` guarantees, `C05.FactsOK`) -/
def prefixOK (pr : Prog) : Bool :=
  match pr.prefix_ with
  | some pre => decide (pre.length ≤ pr.minLen) || decide (pr.minLen = usizeMax)
  | none => true

/-- the precondition trees are well-formed and contain neither captures nor back-references
    (`add_precondition` only emits atoms, classes and repeats of them) -/
def presOK (pr : Prog) : Bool := pr.pres.all (fun q => wfOp q.op && plainTree q.op)

/-- everything the no-panic theorems need of a program: all decidable, all guaranteed by the
    compiler (Proofs/BrCompileLemmas: `compile_progOK`) -/
def progOK (pr : Prog) : Bool :=
  wfOp pr.op && brOK pr.hasBackrefs pr.maxParens pr.op && presOK pr && prefixOK pr

end Rx
