/-
  Proofs/MemoEndLemmas — the END reported for programs of the memo fragment (`Memo.cleanProg3m`): under the
  memo invariant the FIRST end yielded by the root sequence is the head of the state-free, priority-ordered
  enumeration `enumSeq3`.

  The memo only removes the zero-iteration result `p` of a skippable repeat entered at `p` when the entry
  `(id, p)` is present, and the invariant (`HRG`, Proofs/MemoScanLemmas; `HR`, Proofs/MemoLemmas) says that the
  followers are dead from `p`.  So the list of ends the element's iterator yields (`L`) and the list `enum3`
  prescribes agree up to and including the first end from which the followers are live:
     free element     `L = enum3 e p`
     repeat, no entry `L = enum3 e p ++ (a duplicate of a part of it)`
     repeat, entry    `L ++ [p] = enum3 e p`,  `p` dead
  and the followers, entered with the invariant, yield first the head of THEIR enumeration (induction), or
  end with the invariant intact and are dead (`seqGoodG`).
-/
import RxModel.Proofs.MemoScanLemmas
namespace Rx.MemoEnd
open Rx Rx.SearchComplete Rx.Memo Rx.MemoScan
open Rx.C08 (noEmptyAtoms noEmptyAtomsL clsCanon clsCanonL)

/-! ### lists -/

theorem head_flatMap_split {f : Nat → List Nat} {A L1 L2 : List Nat} {n m : Nat}
    (hA : A = L1 ++ n :: L2) (h1 : ∀ x ∈ L1, f x = []) (h2 : (f n).head? = some m) :
    (A.flatMap f).head? = some m := by
  subst hA
  induction L1 with
  | nil =>
    simp only [List.nil_append, List.flatMap_cons]
    cases hf : f n with
    | nil => rw [hf] at h2; cases h2
    | cons a t => rw [hf] at h2; simpa using h2
  | cons a t ih =>
    simp only [List.cons_append, List.flatMap_cons]
    rw [h1 a List.mem_cons_self, List.nil_append]
    exact ih (fun x hx => h1 x (List.mem_cons_of_mem _ hx))

/-- a list followed by elements it already contains: the first element violating `P` is in the list itself -/
theorem split_prefix {P : Nat → Prop} {L1 A0 B0 L2 : List Nat} {n : Nat}
    (h : A0 ++ B0 = L1 ++ n :: L2) (h1 : ∀ x ∈ L1, P x) (hn : ¬ P n) (hB : ∀ x ∈ B0, x ∈ A0) :
    ∃ L2', A0 = L1 ++ n :: L2' := by
  rcases List.append_eq_append_iff.1 h with ⟨a', e1, e2⟩ | ⟨c', e1, e2⟩
  · -- `L1 = A0 ++ a'`, `B0 = a' ++ n :: L2`
    have hnB : n ∈ B0 := by rw [e2]; simp
    have hnA : n ∈ L1 := by rw [e1]; exact List.mem_append_left _ (hB n hnB)
    exact absurd (h1 n hnA) hn
  · -- `A0 = L1 ++ c'`, `n :: L2 = c' ++ B0`
    cases c' with
    | nil =>
      simp only [List.nil_append] at e2
      have hnB : n ∈ B0 := by rw [← e2]; exact List.mem_cons_self
      have hnA : n ∈ L1 := by
        have := hB n hnB
        rw [e1, List.append_nil] at this
        exact this
      exact absurd (h1 n hnA) hn
    | cons x c'' =>
      simp only [List.cons_append, List.cons.injEq] at e2
      exact ⟨c'', by rw [e1, e2.1]⟩

/-! ### `enumSeq3` on the memo fragment is sound -/

theorem rep0_enum_sound (env : Env) (ctx : Ctx) (hIn : InputOK env ctx) (id : Nat) (c : Op) (mx : Nat)
    (h : Clean3.Rep0OK env ctx c mx) (p : Nat) (hp : p ≤ ctx.len) (n : Nat)
    (hn : n ∈ enum3 ctx (.rep id c 0 mx true) p) : OpR ctx (.rep id c 0 mx true) p n ∧ n ≤ ctx.len := by
  have hex := Clean3.rep0_fresh env ctx hIn id c mx h p hp {} rfl
  rw [← Clean3.rep0_first_pass env ctx hIn id c mx h p hp] at hn
  exact ex_sound ctx _ (rep0_wf h id) hp hex n (List.mem_append_left _ hn)

theorem enumSeq3m_sound (env : Env) (ctx : Ctx) (hIn : InputOK env ctx) : ∀ (R : List Op),
    cleanSeq3m env ctx.caseBlind ctx.multiLine R = true → wfOps R = true → noEmptyAtomsL R = true →
    clsCanonL R → ∀ p q, p ≤ ctx.len → q ∈ enumSeq3 ctx R p → OpRSeq ctx R p q := by
  intro R
  induction R with
  | nil =>
    intro _ _ _ _ p q _ h
    simp only [enumSeq3, List.mem_singleton] at h
    simp only [OpRSeq]; exact h
  | cons e os ih =>
    intro hc hw hn hcc p q hp h
    simp only [cleanSeq3m, elemOK, Bool.and_eq_true, Bool.or_eq_true] at hc
    simp only [wfOps, Bool.and_eq_true] at hw
    simp only [noEmptyAtomsL, Bool.and_eq_true] at hn
    simp only [clsCanonL] at hcc
    simp only [enumSeq3, List.mem_flatMap] at h
    obtain ⟨n, hmem, hq⟩ := h
    have hb : OpR ctx e p n ∧ n ≤ ctx.len := by
      rcases hc.1 with hfree | hrep
      · have h1 := enum3_sound_op env ctx hIn e true os hfree hw.1 hn.1 hcc.1 hp hmem
        exact ⟨h1, (OpR_bounds_op ctx e p n hp h1).2⟩
      · obtain ⟨id, c, mx, rfl, hr⟩ := rep0B_cases env ctx e hrep hw.1 hn.1 hcc.1
        exact rep0_enum_sound env ctx hIn id c mx hr p hp n hmem
    simp only [OpRSeq]
    exact ⟨n, hb.1, ih hc.2 hw.2 hn.2 hcc.2 n q hb.2 hq⟩

theorem dead_nil (env : Env) (ctx : Ctx) (hIn : InputOK env ctx) (R : List Op)
    (hc : cleanSeq3m env ctx.caseBlind ctx.multiLine R = true) (hw : wfOps R = true) (hn : noEmptyAtomsL R = true)
    (hcc : clsCanonL R) (p : Nat) (hp : p ≤ ctx.len) (hd : ¬ Live ctx R p) : enumSeq3 ctx R p = [] := by
  cases hl : enumSeq3 ctx R p with
  | nil => rfl
  | cons a t =>
    exact absurd ⟨a, enumSeq3m_sound env ctx hIn R hc hw hn hcc p a hp (by rw [hl]; exact List.mem_cons_self)⟩ hd

/-- with the memo entry present the repeat's iterator yields its enumeration WITHOUT the last element `p` -/
theorem rep0_hit_list (env : Env) (ctx : Ctx) (hIn : InputOK env ctx) (id : Nat) (c : Op) (mx : Nat)
    (h : Clean3.Rep0OK env ctx c mx) (p : Nat) (hp : p ≤ ctx.len) :
    enum3 ctx (.rep id c 0 mx true) p =
      (enum3 ctx c p).flatMap (fun q => greedyIter (enum3 ctx c) 0 (Nat.min mx (ctx.len + 1 - p) - 1) 0 q) ++ [p] := by
  rw [← Clean3.rep0_first_pass env ctx hIn id c mx h p hp]
  have hpos : 0 < Nat.min mx (ctx.len + 1 - p) := by
    show 0 < min mx (ctx.len + 1 - p)
    have := h.mx0
    rw [Nat.min_def]; split <;> omega
  obtain ⟨b, hb⟩ : ∃ b, Nat.min mx (ctx.len + 1 - p) = b + 1 := ⟨_, (Nat.succ_pred_eq_of_pos hpos).symm⟩
  rw [hb]
  simp only [Nat.add_sub_cancel, greedyIter, Nat.zero_le, if_true]
  have hdet := (h.body hIn).det p hp
  cases hl : enum3 ctx c p with
  | nil => rfl
  | cons q t =>
    rw [hl] at hdet
    have ht : t = [] := by
      cases t with
      | nil => rfl
      | cons a b => simp at hdet
    subst ht
    simp only [List.flatMap_cons, List.flatMap_nil, List.append_nil]
    rw [greedyIter_k0 (enum3 ctx c) b 1 0 q]

/-! ### one element followed by the rest: which end the `bind` yields first -/

/-- what the continuation does first, as far as needed here -/
def KOK (ctx : Ctx) (os : List Op) (I' : St → Prop) (n : Nat) : Step → Prop
  | .nil st' => I' st' ∧ ¬ Live ctx os n
  | .cons m _ _ => (enumSeq3 ctx os n).head? = some m
  | .diverge => False

theorem bind_head {ctx : Ctx} {e : Op} {os : List Op} {p : Nat} {I' : St → Prop} {k : Nat → St → Step}
    (hI' : HistOnly I')
    (hK : ∀ n, n ≤ ctx.len → OpR ctx e p n → ∀ st, I' st → KOK ctx os I' n (k n st)) :
    ∀ {V : Nat → Prop} {s : Step},
      ES ctx e p I' (fun n => ¬ Live ctx os n) (Live ctx os) V s → ∀ L, Step.Ex s L →
      ∀ m st3 r3, (s.mapSt (fun n st => clearBeyond st n)).bind k = .cons m st3 r3 →
      ∃ L1 n L2, L = L1 ++ n :: L2 ∧ (∀ x ∈ L1, ¬ Live ctx os x) ∧ (enumSeq3 ctx os n).head? = some m := by
  intro V s hes
  induction hes with
  | nil V st' _ _ =>
    intro L _ m st3 r3 h
    simp only [Step.mapSt, Step.bind] at h
    cases h
  | cons V n st1 r hI hr hn _ ih =>
    intro L hex m st3 r3 h
    cases hex with
    | cons _ _ _ L' hex' =>
      simp only [Step.mapSt, Step.bind] at h
      have hg := hK n hn hr (clearBeyond st1 n) (hI' st1 _ rfl hI)
      generalize k n (clearBeyond st1 n) = g at hg h
      cases g with
      | nil st2 =>
        obtain ⟨a, c⟩ := hg
        simp only [Step.append] at h
        obtain ⟨L1, n', L2, e1, e2, e3⟩ := ih st2 a c L' (hex' st2 trivial) m st3 r3 h
        refine ⟨n :: L1, n', L2, by rw [e1]; rfl, fun x hx => ?_, e3⟩
        rcases List.mem_cons.1 hx with rfl | hx
        · exact c
        · exact e2 x hx
      | cons m' st' r' =>
        simp only [Step.append, Step.cons.injEq] at h
        obtain ⟨rfl, _, _⟩ := h
        exact ⟨[], n, L', rfl, fun x hx => (by cases hx), hg⟩
      | diverge => exact hg.elim

/-! ### the induction along the root sequence -/

theorem seqHeadG (env : Env) (ctx : Ctx) (hIn : InputOK env ctx) : ∀ (R : List Op),
    cleanSeq3m env ctx.caseBlind ctx.multiLine R = true → wfOps R = true → noEmptyAtomsL R = true →
    clsCanonL R → (rep0Ids R).Nodup → R ≠ [] →
    ∀ (A : Nat → Prop) (F : St → Prop), HistOnly F → FrameOK F (rep0Ids R) →
    ∀ p, p ≤ ctx.len → A p → ∀ st, HRG ctx A R st → F st →
    ∀ m st3 r3, seqGo (semL ctx R) p st = .cons m st3 r3 → (enumSeq3 ctx R p).head? = some m := by
  intro R
  induction R with
  | nil => intro _ _ _ _ _ hne; exact absurd rfl hne
  | cons e os ih =>
    intro hc hw hn hcc hnd _ A F hF hFr p hp hA st hst hFst m st3 r3 hres
    simp only [cleanSeq3m, elemOK, Bool.and_eq_true, Bool.or_eq_true] at hc
    simp only [wfOps, Bool.and_eq_true] at hw
    simp only [noEmptyAtomsL, Bool.and_eq_true] at hn
    simp only [clsCanonL] at hcc
    have hnd' : (rep0Ids os).Nodup := by
      simp only [rep0Ids] at hnd
      exact (List.nodup_append.1 hnd).2.1
    -- the element: its resumption behaviour, its exact list, and how the list sits in `enum3`
    have key : ∃ (F' : St → Prop) (V : Nat → Prop) (L : List Nat), HistOnly F' ∧ FrameOK F' (rep0Ids os) ∧
        ES ctx e p (fun s => HRG ctx (push ctx A e) os s ∧ F' s) (fun n => ¬ Live ctx os n) (Live ctx os) V
          (sem ctx e p st) ∧
        Step.Ex (sem ctx e p st) L ∧
        (∀ L1 n L2, L = L1 ++ n :: L2 → (∀ x ∈ L1, enumSeq3 ctx os x = []) → ¬ enumSeq3 ctx os n = [] →
          ∃ L2', enum3 ctx e p = L1 ++ n :: L2') := by
      rcases hc.1 with hfree | hrep
      · have hid := rep0Id_of_clean3 env _ _ true os e hfree
        have hids : rep0Ids (e :: os) = rep0Ids os := by simp only [rep0Ids, hid, List.nil_append]
        rw [hids] at hFr
        have hI' : HistOnly (fun s => HRG ctx (push ctx A e) os s ∧ F s) :=
          fun s s' he hh => ⟨HRX_histOnly ctx _ os _ s s' he hh.1, hF s s' he hh.2⟩
        exact ⟨F, fun _ => False, enum3 ctx e p, hF, hFr,
          elem_free env ctx hIn e os hfree hw.1 hn.1 hcc.1 hw.2 hn.2 hcc.2 hI' p hp st ⟨hst.2, hFst⟩,
          sem_ex3_op env ctx hIn e true os hfree hw.1 hn.1 hcc.1 p hp st,
          fun L1 n L2 h _ _ => ⟨L2, h⟩⟩
      · obtain ⟨id, c, mx, rfl, hr⟩ := rep0B_cases env ctx e hrep hw.1 hn.1 hcc.1
        have hids : rep0Ids (.rep id c 0 mx true :: os) = id :: rep0Ids os := by simp [rep0Ids, rep0Id]
        rw [hids] at hFr hnd
        rw [List.nodup_cons] at hnd
        obtain ⟨V, _, hes⟩ := elem_rep0G env ctx hIn id c mx os hr hnd.1 A hF hFr p hp hA st hst hFst
        have hfr' := frameOf_frameOK id p st hFr hnd.1
        cases hm : memPair st.hist id p with
        | true =>
          refine ⟨frameOf F id p st, V, _, frameOf_histOnly hF id p st, hfr', hes,
            Clean3.rep0_hit env ctx hIn id c mx hr p hp st hm, fun L1 n L2 h _ _ => ⟨L2 ++ [p], ?_⟩⟩
          rw [rep0_hit_list env ctx hIn id c mx hr p hp, h]
          simp
        | false =>
          have hex := Clean3.rep0_fresh env ctx hIn id c mx hr p hp st hm
          refine ⟨frameOf F id p st, V, _, frameOf_histOnly hF id p st, hfr', hes, hex,
            fun L1 n L2 h h1 h2 => ?_⟩
          rw [← Clean3.rep0_first_pass env ctx hIn id c mx hr p hp]
          refine split_prefix (P := fun x => enumSeq3 ctx os x = []) h h1 h2 (fun x hx => ?_)
          have hx' := (ex_sound ctx _ (rep0_wf hr id) hp hex x (List.mem_append_right _ hx)).1
          rw [Clean3.rep0_first_pass env ctx hIn id c mx hr p hp]
          exact Clean3.rep0_complete env ctx hIn id c mx hr p x hp hx'
    obtain ⟨F', V, L, hF', hFr', hes, hex, hsplit⟩ := key
    have hI' : HistOnly (fun s => HRG ctx (push ctx A e) os s ∧ F' s) :=
      fun s s' he hh => ⟨HRX_histOnly ctx _ os _ s s' he hh.1, hF' s s' he hh.2⟩
    have hLb := ex_sound ctx e hw.1 hp hex
    -- the conclusion from a split of `L` at the first live end
    have hfin : ∀ L1 n L2, L = L1 ++ n :: L2 → (∀ x ∈ L1, ¬ Live ctx os x) →
        (enumSeq3 ctx os n).head? = some m → (enumSeq3 ctx (e :: os) p).head? = some m := by
      intro L1 n L2 hL hd hh
      have hd' : ∀ x ∈ L1, enumSeq3 ctx os x = [] := fun x hx =>
        dead_nil env ctx hIn os hc.2 hw.2 hn.2 hcc.2 x (hLb x (by rw [hL]; exact List.mem_append_left _ hx)).2
          (hd x hx)
      have hne : ¬ enumSeq3 ctx os n = [] := by
        intro h0; rw [h0] at hh; cases hh
      obtain ⟨L2', hE⟩ := hsplit L1 n L2 hL hd' hne
      simp only [enumSeq3]
      exact head_flatMap_split hE hd' hh
    cases os with
    | nil =>
      have hres' : (sem ctx e p st).mapSt (fun n st' => clearBeyond st' n) = .cons m st3 r3 := hres
      generalize sem ctx e p st = s at hex hres'
      cases hex with
      | nil st' => simp only [Step.mapSt] at hres'; cases hres'
      | cons n st1 r L' _ =>
        simp only [Step.mapSt, Step.cons.injEq] at hres'
        obtain ⟨rfl, _, _⟩ := hres'
        exact hfin [] n L' rfl (fun x hx => (by cases hx)) (by simp [enumSeq3])
    | cons o2 rest =>
      have hres' : ((sem ctx e p st).mapSt (fun n st' => clearBeyond st' n)).bind
          (seqGo (semL ctx (o2 :: rest))) = .cons m st3 r3 := hres
      have hK : ∀ n, n ≤ ctx.len → OpR ctx e p n → ∀ st2,
          (HRG ctx (push ctx A e) (o2 :: rest) st2 ∧ F' st2) →
          KOK ctx (o2 :: rest) (fun s => HRG ctx (push ctx A e) (o2 :: rest) s ∧ F' s) n
            (seqGo (semL ctx (o2 :: rest)) n st2) := by
        intro n hn' hr st2 hI2
        have hg := seqGoodG env ctx hIn (o2 :: rest) hc.2 hw.2 hn.2 hcc.2 hnd' (List.cons_ne_nil _ _)
          (push ctx A e) F' hF' hFr' n hn' ⟨p, hp, hA, hr⟩ st2 hI2.1 hI2.2
        have hh := ih hc.2 hw.2 hn.2 hcc.2 hnd' (List.cons_ne_nil _ _)
          (push ctx A e) F' hF' hFr' n hn' ⟨p, hp, hA, hr⟩ st2 hI2.1 hI2.2
        generalize seqGo (semL ctx (o2 :: rest)) n st2 = g at hg hh
        cases g with
        | nil st' => exact ⟨⟨hg.1, hg.2.1⟩, hg.2.2⟩
        | cons m' s' r' => exact hh m' s' r' rfl
        | diverge => exact hg.elim
      obtain ⟨L1, n, L2, e1, e2, e3⟩ := bind_head hI' hK hes L hex m st3 r3 hres'
      exact hfin L1 n L2 e1 e2 e3

/-! ### the root, `match_at` -/

theorem rootHeadG (env : Env) (ctx : Ctx) (hIn : InputOK env ctx) (l : List Op)
    (hc : cleanProg3m env ctx.caseBlind ctx.multiLine (.seq l) = true) (hw : wfOp (.seq l) = true)
    (hn : noEmptyAtoms (.seq l) = true) (hcc : clsCanon (.seq l)) (A : Nat → Prop)
    (p : Nat) (hp : p ≤ ctx.len) (hA : A p) (st : St) (hst : HRG ctx A l st)
    (m : Nat) (st3 : St) (r3 : St → Step) (h : sem ctx (.seq l) p st = .cons m st3 r3) :
    (enumSeq3 ctx l p).head? = some m := by
  simp only [cleanProg3m, Bool.and_eq_true, decide_eq_true_eq] at hc
  simp only [wfOp, Bool.and_eq_true, Bool.not_eq_true', List.isEmpty_eq_false_iff] at hw
  simp only [noEmptyAtoms] at hn
  simp only [clsCanon] at hcc
  simp only [sem] at h
  unfold seqGen at h
  simp only at h
  have hh := seqHeadG env ctx hIn l hc.1 hw.2 hn hcc hc.2 hw.1 A (fun _ => True) (fun _ _ _ _ => trivial)
    (fun _ _ _ _ _ => trivial) p hp hA st hst trivial
  generalize seqGo (semL ctx l) p st = g at h hh
  cases g with
  | nil st' => simp only [Step.onNil] at h; cases h
  | cons m' s' r' =>
    simp only [Step.onNil, Step.cons.injEq] at h
    obtain ⟨rfl, _, _⟩ := h
    exact hh m' s' r' rfl
  | diverge => simp only [Step.onNil] at h; cases h

/-- on success `match_at(j)` records for group 0 the head of the enumeration -/
theorem matchAt_headG (env : Env) (ctx : Ctx) (hIn : InputOK env ctx) (l : List Op)
    (hc : cleanProg3m env ctx.caseBlind ctx.multiLine (.seq l) = true) (hw : wfOp (.seq l) = true)
    (hn : noEmptyAtoms (.seq l) = true) (hcc : clsCanon (.seq l)) (A : Nat → Prop)
    (j : Nat) (hj : j ≤ ctx.len) (hA : A j) (st : St) (hst : HRG ctx A l st)
    (h : (matchAt ctx (.seq l) j st).1 = true) :
    getParenEnd (matchAt ctx (.seq l) j st).2 0 = (enumSeq3 ctx l j).head? := by
  have hr := rootHeadG env ctx hIn l hc hw hn hcc A j hj hA (matchStart ctx j st)
    (HRX_histOnly ctx _ l A st _ (Clean3.matchStart_hist ctx j st) hst)
  rw [matchAt_eq] at h ⊢
  generalize sem ctx (.seq l) j (matchStart ctx j st) = s at hr h
  cases s with
  | nil st' => simp at h
  | cons n st1 r =>
    rw [hr n st1 r rfl]
    simp only [getParenEnd, Cap.setEnd]
    exact getO_setAt_zero _ _
  | diverge => simp at h

/-- the absolute invariant implies every relative one -/
theorem HRG_of_HR (ctx : Ctx) : ∀ (R : List Op) (A : Nat → Prop) (st : St), HR ctx R st → HRG ctx A R st
  | [], _, _, _ => trivial
  | _ :: os, _, st, h => ⟨fun id hid p hp _ hm => .inl (h.1 id hid p hp hm), HRG_of_HR ctx os _ st h.2⟩

/-! ### the candidate loop and `matches` -/

/-- on success: the reported start is a candidate `j ≥ i`, the reported end the head of the enumeration from `j` -/
def EndFirst (ctx : Ctx) (l : List Op) (i : Nat) (r : Bool × St) : Prop :=
  r.1 = true → ∃ j, i ≤ j ∧ j ≤ ctx.len ∧ getParenStart r.2 0 = some j ∧
    getParenEnd r.2 0 = (enumSeq3 ctx l j).head?

theorem endFirst_false (ctx : Ctx) (l : List Op) (i : Nat) (st : St) : EndFirst ctx l i (false, st) :=
  fun h => by cases h

theorem matchAt_EF {env : Env} {ctx : Ctx} {l : List Op} (T : TreeM env ctx l) (hcp : C02.capsPos (.seq l) = true)
    (i j : Nat) (hij : i ≤ j) (hj : j ≤ ctx.len) (st : St) (hst : MIG ctx i l st) :
    EndFirst ctx l i (matchAt ctx (.seq l) j st) := by
  intro ht
  have he := matchAt_headG env ctx T.inp l T.clean T.wf T.ne T.can (From i) j hj hij st hst.2 ht
  obtain ⟨hs, _⟩ := C02.matchAt_span ctx (.seq l) T.wf hcp j hj st (matchAt ctx (.seq l) j st).2
    (Prod.ext ht rfl)
  exact ⟨j, hij, hj, hs, he⟩

theorem tryCands_EF {env : Env} {ctx : Ctx} {l : List Op} (T : TreeM env ctx l) (hcp : C02.capsPos (.seq l) = true)
    (i : Nat) : ∀ (cands : List Nat) (st : St), (∀ j ∈ cands, i ≤ j ∧ j ≤ ctx.len) → MIG ctx i l st →
    EndFirst ctx l i (tryCands ctx (.seq l) cands st) := by
  intro cands
  induction cands with
  | nil => intro st _ _; exact endFirst_false ctx l i st
  | cons j js ih =>
    intro st hb hst
    have hj := hb j List.mem_cons_self
    have hb' : ∀ k ∈ js, i ≤ k ∧ k ≤ ctx.len := fun k hk => hb k (List.mem_cons_of_mem _ hk)
    rcases matchAt_casesG T i j st hj.1 hj.2 hst with ⟨_, st', he, _, _⟩ | ⟨_, st1, he, hc⟩
    · have ht : tryCands ctx (.seq l) (j :: js) st = (true, st') := by
        unfold tryCands
        rw [he]
      rw [ht, ← he]
      exact matchAt_EF T hcp i j hj.1 hj.2 st hst
    · have hp : ¬ st1.panic.isSome = true := by rw [hc.1]; simp
      rw [tryCands_cons_false he hp]
      exact ih st1 hb' hc

theorem pre_thenEF {ctx : Ctx} {pr : Prog} {l : List Op}
    (hP : ∀ q ∈ pr.pres, PreM ctx q)
    (i : Nat) (st : St) (hst : MIG ctx i l st) (k : St → Bool × St)
    (hk : ∀ st', MIG ctx i l st' → EndFirst ctx l i (k st')) :
    EndFirst ctx l i
      (match checkPre ctx i pr.pres st with
       | (false, st') => (false, st')
       | (true, st') => k st') := by
  have hcl := checkPre_clean i pr.pres st (fun q hq => (hP q hq).quiet) hst.1
  have hh := checkPre_hinv ctx (HRX_histOnly ctx _ l (From i)) i pr.pres st hP hst.2
  cases h : checkPre ctx i pr.pres st with
  | mk b st' =>
    rw [h] at hcl hh
    cases b with
    | true => exact hk st' ⟨hcl, hh⟩
    | false => exact endFirst_false ctx l i st'

/-- THE SEARCH LOOP: on success the reported end is the head of the enumeration from the reported start -/
theorem matchesFrom_EF {env : Env} {ctx : Ctx} {pr : Prog} {l : List Op} (hop : pr.op = .seq l)
    (T : TreeM env ctx l) (hcp : C02.capsPos (.seq l) = true)
    (hP : ∀ q ∈ pr.pres, PreM ctx q)
    (i : Nat) (hi : i ≤ ctx.len) (st0 : St) (hst0 : MIG ctx i l st0) :
    EndFirst ctx l i (matchesFrom ctx pr i st0) := by
  unfold matchesFrom
  simp only
  rw [hop]
  have hst : MIG ctx i l ({ st0 with cap := {} } : St) := ⟨hst0.1, HRX_histOnly ctx _ l _ st0 _ rfl hst0.2⟩
  generalize ({ st0 with cap := {} } : St) = st at hst
  by_cases hbol : pr.hasBol = true
  · rw [if_pos hbol]
    cases hml : ctx.multiLine with
    | false =>
      simp only [Bool.not_false, if_true]
      by_cases h0 : i = 0
      · subst h0
        simp only [bne_self_eq_false, Bool.false_eq_true, if_false]
        exact pre_thenEF hP 0 st hst _ (fun st' hc => matchAt_EF T hcp 0 0 (Nat.le_refl _) hi st' hc)
      · have hne : (i != 0) = true := by simp [h0]
        rw [if_pos hne]
        exact endFirst_false ctx l i st
    | true =>
      simp only [Bool.not_true, Bool.false_eq_true, if_false]
      apply tryCands_EF T hcp i _ st _ hst
      intro j hj
      simp only [List.mem_cons, List.mem_filter, List.mem_map, decide_eq_true_eq] at hj
      rcases hj with rfl | ⟨⟨k, ⟨hk, _⟩, rfl⟩, hlt⟩
      · exact ⟨Nat.le_refl _, hi⟩
      · have := mem_rangeFrom hk
        omega
  · rw [if_neg hbol]
    rw [if_neg (by omega : ¬ i > ctx.len)]
    by_cases hcut : ctx.len - i < pr.minLen
    · rw [if_pos hcut]
      exact endFirst_false ctx l i st
    · rw [if_neg hcut]
      cases hpre : pr.prefix_ with
      | some cs =>
        simp only
        by_cases hcs : cs.length > ctx.len + 1
        · rw [if_pos hcs]
          exact endFirst_false ctx l i _
        · rw [if_neg hcs]
          apply tryCands_EF T hcp i _ st _ hst
          intro j hj
          simp only [List.mem_filter] at hj
          have := mem_rangeFrom hj.1
          omega
      | none =>
        simp only
        cases hicc : pr.icc with
        | some rs =>
          simp only
          apply tryCands_EF T hcp i _ st _ hst
          intro j hj
          simp only [List.mem_filter] at hj
          have := mem_rangeFrom hj.1
          omega
        | none =>
          simp only
          refine pre_thenEF hP i st hst _ (fun st' hc => tryCands_EF T hcp i _ st' ?_ hc)
          intro j hj
          have := mem_rangeFrom hj
          omega

end Rx.MemoEnd
